"""C20 -- demand, resilience and pump-cost metrics equal their documented formulas.

Tie (T1): `Gen/Tables.lean` is regenerated on every run from wntr/metrics/economic.py: the default lookup
tables are obtained by partially evaluating the `if <table> is None:` blocks of the CURRENT source (ast), the
documented tables by parsing the RST tables of the same functions' docstrings (what Sphinx publishes).
Props/C20.lean proves by `decide` that the two agree.
Tie (T2): `Gen/MetricsFormulas.lean` is regenerated on every run by harness/props/c20_translate.py: an abstract
interpreter over the python ast of expected_demand, water_service_availability, todini_index,
modified_resilience_index, tank_capacity (+ Tank.get_volume), population, population_impacted, pump_power /
pump_energy / pump_cost, annual_network_cost (incl. the maximum-pump-power expression) and annual_ghg_emissions
extracts the arithmetic of each function as an `MExpr` term (pandas broadcasting flattened to one time / element).
Props/C20.lean proves for ALL inputs that every extracted term evaluates to the documented formula (`*_code_eq_doc`).
Tie (C): Model/Pattern.lean + Model/Metrics.lean (exact rationals, run through Drivers/MetricsDriver.lean) against
the real pandas/numpy implementation on the same generated inputs, plus expected_demand against the demand a
real WNTRSimulator run delivers in demand-driven mode.
"""
import ast
import math
import os
import re
import struct
import sys
from fractions import Fraction

sys.path.insert(0, os.path.dirname(os.path.dirname(os.path.abspath(__file__))))
sys.path.insert(0, os.path.dirname(os.path.abspath(__file__)))
import vlib
from vlib import BrokenTie, Broken, Failure, Check

F = Fraction

# ----------------------------------------------------------------------------- translator


def _rst_tables(doc):
    """all RST simple tables of a docstring: list of (start offset, header cells, rows of cells)"""
    lines = doc.splitlines()
    offs = []
    o = 0
    for l in lines:
        offs.append(o)
        o += len(l) + 1
    out = []
    i = 0
    bar = re.compile(r"^\s*=+(\s+=+)+\s*$")
    while i < len(lines):
        if bar.match(lines[i]):
            j = i + 1
            hdr = lines[j]
            j += 1
            if not bar.match(lines[j]):
                raise BrokenTie("unexpected RST table layout near %r" % lines[i + 1])
            # column spans from the bar
            spans = [(m.start(), m.end()) for m in re.finditer(r"=+", lines[i])]
            j += 1
            rows = []
            while j < len(lines) and not bar.match(lines[j]):
                if lines[j].strip():
                    rows.append(lines[j].split())
                j += 1
            hcells = [hdr[a:b if k < len(spans) - 1 else None].strip() for k, (a, b) in enumerate(spans)]
            out.append((offs[i], hcells, rows))
            i = j + 1
        else:
            i += 1
    return out


def _default_tables(src, funcname, names):
    """partially evaluate the `if <name> is None:` blocks of funcname; returns {name: (keys, values, literals)}"""
    import numpy as np
    import pandas as pd

    tree = ast.parse(src)
    fn = [n for n in tree.body if isinstance(n, ast.FunctionDef) and n.name == funcname]
    if len(fn) != 1:
        raise BrokenTie("function %s not found in economic.py" % funcname)
    res = {}
    for node in ast.walk(fn[0]):
        if (
            isinstance(node, ast.If)
            and isinstance(node.test, ast.Compare)
            and isinstance(node.test.left, ast.Name)
            and node.test.left.id in names
            and len(node.test.ops) == 1
            and isinstance(node.test.ops[0], ast.Is)
            and isinstance(node.test.comparators[0], ast.Constant)
            and node.test.comparators[0].value is None
        ):
            nm = node.test.left.id
            for st in node.body:
                if not isinstance(st, ast.Assign):
                    raise BrokenTie("default block of %s contains a non-assignment" % nm)
            env = {"np": np, "pd": pd}
            lits = []
            for st in node.body:
                if isinstance(st.value, ast.List):
                    lits.append([ast.literal_eval(e) for e in st.value.elts])
                code = compile(ast.Module(body=[st], type_ignores=[]), "<economic.py:%s>" % nm, "exec")
                exec(code, env)
            ser = env.get(nm)
            if not isinstance(ser, pd.Series):
                raise BrokenTie("default of %s is not a pandas Series" % nm)
            res[nm] = ([float(k) for k in ser.index], [float(v) for v in ser.values], lits)
    missing = [n for n in names if n not in res]
    if missing:
        raise BrokenTie("default table block(s) not found: %s" % missing)
    return res


def _num(s):
    try:
        return F(s)
    except Exception:
        raise BrokenTie("non-numeric cell %r in a documented table" % s)


def read_tables():
    path = os.path.join(vlib.REPO, "wntr", "metrics", "economic.py")
    src = open(path).read()
    tree = ast.parse(src)
    docs = {n.name: ast.get_docstring(n, clean=False) or "" for n in tree.body if isinstance(n, ast.FunctionDef)}
    code = _default_tables(src, "annual_network_cost", ["tank_cost", "pipe_cost", "prv_cost", "pump_cost"])
    code.update(_default_tables(src, "annual_ghg_emissions", ["pipe_ghg"]))
    doc = {}
    d = docs.get("annual_network_cost", "")
    tabs = _rst_tables(d)
    for nm in ["tank_cost", "pipe_cost", "prv_cost", "pump_cost"]:
        m = re.search(r"^\s*%s\s*:" % nm, d, re.M)
        if not m:
            raise BrokenTie("parameter %s is not documented" % nm)
        after = [t for t in tabs if t[0] > m.start()]
        if not after:
            raise BrokenTie("no documented table for %s" % nm)
        doc[nm] = after[0]
    d = docs.get("annual_ghg_emissions", "")
    tabs = _rst_tables(d)
    if not tabs:
        raise BrokenTie("no documented table for pipe_ghg")
    doc["pipe_ghg"] = tabs[0]
    out = {}
    for nm in code:
        off, hdr, rows = doc[nm]
        out[nm] = dict(keys=code[nm][0], values=code[nm][1], literals=code[nm][2], doc_header=hdr,
                       doc_rows=[[_num(c) for c in r] for r in rows])
    return out


def _lr(x):
    fr = F(x)
    if fr.denominator == 1:
        return "%d" % fr.numerator if fr.numerator >= 0 else "(%d)" % fr.numerator
    return "(%d / %d)" % (fr.numerator, fr.denominator)


def gen_tables_lean(tb):
    out = [
        "-- GENERATED by harness/props/c20.py from wntr/metrics/economic.py (default blocks + docstring tables). Do not edit.",
        "namespace Wntr.Metrics.Gen",
        "",
    ]
    lean_names = {"tank_cost": "tankCost", "pipe_cost": "pipeCost", "prv_cost": "prvCost", "pump_cost": "pumpCost", "pipe_ghg": "pipeGhg"}
    for nm in ["tank_cost", "pipe_cost", "prv_cost", "pump_cost", "pipe_ghg"]:
        t = tb[nm]
        ln = lean_names[nm]
        out.append("/-- default `%s` as the code builds it: (index, value), exact values of the doubles -/" % nm)
        out.append("def %s : List (Rat × Rat) := [%s]" % (ln, ", ".join("(%s, %s)" % (_lr(k), _lr(v)) for k, v in zip(t["keys"], t["values"]))))
        out.append("/-- the first list literal of that block (volumes / inches / watts) -/")
        out.append("def %sLiteral : List Rat := [%s]" % (ln, ", ".join(_lr(x) for x in (t["literals"][0] if t["literals"] else []))))
        out.append("/-- documented table (docstring, columns: %s) -/" % " | ".join(t["doc_header"]))
        out.append("def %sDoc : List (List Rat) := [%s]" % (ln, ", ".join("[" + ", ".join(_lr(c) for c in r) + "]" for r in t["doc_rows"])))
        # the table the DOCUMENTATION prescribes (oracle of the driver): documented sizes (inches -> m exactly) and documented values
        if nm in ("tank_cost", "pump_cost"):
            orc = [(r[0], r[1]) for r in t["doc_rows"]]
        elif nm in ("pipe_cost", "prv_cost"):
            orc = [(r[0] * F(254, 10000), r[2]) for r in t["doc_rows"]]
        else:
            lit = t["literals"][0] if t["literals"] else []
            if len(lit) != len(t["doc_rows"]):
                raise BrokenTie("pipe_ghg: %d sizes in the code, %d documented rows" % (len(lit), len(t["doc_rows"])))
            orc = [(F(i) * F(254, 10000), r[1]) for i, r in zip(lit, t["doc_rows"])]
        out.append("/-- the documented table as a lookup table in SI units (sizes in inches x 0.0254 exactly) -/")
        out.append("def %sOracle : List (Rat × Rat) := [%s]" % (ln, ", ".join("(%s, %s)" % (_lr(k), _lr(v)) for k, v in orc)))
        out.append("")
    out.append("end Wntr.Metrics.Gen")
    return "\n".join(out) + "\n"



# ----------------------------------------------------------------------------- generator

STEPS = [600, 900, 1800, 3600, 7000, 7200, 10800]


def gen_spec(rng, idx, small=False):
    """a JSON-able description of a small network with demand categories, patterns whose lengths need not divide
    24 h, a pattern start, several reservoirs / pumps / valves / tanks"""
    step = rng.choice(STEPS)
    nsteps_start = rng.choice([0, 0, 1, 2, 3, 5])
    pstart = nsteps_start * step if rng.random() < 0.8 else rng.choice([0, 450, 1234])
    interp = rng.random() < 0.15
    npat = rng.randint(0, 4)
    names = ["1", "PA", "PB", "PC", "PD"]
    rng.shuffle(names)
    pats = []
    for k in range(npat):
        r = rng.random()
        n = 0 if r < 0.07 else 1 if r < 0.15 else rng.choice([2, 3, 4, 5, 6, 7, 9, 12, 24])
        mults = [round(rng.uniform(0, 3), rng.choice([0, 1, 3])) for _ in range(n)]
        wrap = not (rng.random() < 0.12)
        # how the pattern enters the model: a list, or a Pattern OBJECT that already carries time options of its own
        # (a (start, step) tuple, or the options of another model) -- documented: "Patterns always use the global water
        # network model options.time values"
        r2 = rng.random()
        bound = None
        if r2 < 0.15:
            bound = ["tuple", rng.choice([0, 1800, 3600]), rng.choice([s_ for s_ in STEPS if s_ != step])]
        elif r2 < 0.3:
            bound = ["model", rng.choice([s_ for s_ in STEPS if s_ != step]), rng.choice([0, 7200]), not interp]
        pats.append({"name": names[k], "mults": mults, "wrap": wrap, "bound": bound})
    pnames = [p["name"] for p in pats]
    cats = [None, None, "A", "B", "", "res"]
    nj = rng.randint(1, 3) if small else rng.randint(2, 6)
    juncs = []
    for k in range(nj):
        nd = rng.choice([0, 1, 1, 1, 2, 3])
        dem = []
        for _ in range(nd):
            base = rng.choice([0.0, round(rng.uniform(0.0001, 0.02), 5), round(rng.uniform(0.0001, 0.02), 5), -0.001])
            pat = rng.choice(pnames + [None]) if pnames else None
            dem.append([base, pat, rng.choice(cats)])
        juncs.append({"name": "J%d" % k, "elev": round(rng.uniform(0, 60), 2), "demands": dem})
    nres = rng.choice([1, 1, 2, 3])
    res = [{"name": "R%d" % k, "head": round(rng.uniform(80, 140), 2)} for k in range(nres)]
    ntank = rng.choice([0, 1, 1, 2])
    tanks = []
    for k in range(ntank):
        lo = rng.choice([0.0, round(rng.uniform(0, 2), 2)])
        hi = lo + round(rng.uniform(2, 12), 2)
        curve = None
        if rng.random() < 0.4:
            xs = sorted(set([0.0, lo, hi] + [round(rng.uniform(0, hi + 2), 2) for _ in range(rng.randint(0, 3))]))
            v = 0.0
            pts = []
            for i, x in enumerate(xs):
                if i:
                    v += (x - xs[i - 1]) * rng.uniform(20, 900)
                pts.append([x, round(v, 3)])
            curve = pts
        tanks.append({"name": "T%d" % k, "elev": round(rng.uniform(40, 90), 2), "min": lo, "max": hi,
                      "init": round(rng.uniform(lo, hi), 2), "diam": round(rng.uniform(3, 40), 2), "curve": curve})
    if tanks and rng.random() < 0.12:
        res = []  # a network fed by tanks only: no reservoir term (and no pump term) in the Todini index
    nodes = [j["name"] for j in juncs]
    pipes = []
    k = 0
    # spanning tree over junctions, sources attached by pipes / pumps / valves
    for i in range(1, nj):
        a = nodes[rng.randrange(0, i)]
        pipes.append({"name": "P%d" % k, "a": a, "b": nodes[i]})
        k += 1
    for _ in range(rng.choice([0, 0, 1, 2])):
        if nj >= 2:
            a, b = rng.sample(nodes, 2)
            pipes.append({"name": "P%d" % k, "a": a, "b": b})
            k += 1
    pumps, valves = [], []
    diam_choices = [0.05, 0.1016, 0.127, 0.1524, 0.18, 0.2032, 0.254, 0.28, 0.3048, 0.33, 0.3556, 0.4064, 0.43, 0.4572, 0.508, 0.56,
                    0.6096, 0.66, 0.7112, 0.7366, 0.762, 0.9]
    for r in res:
        tgt = rng.choice(nodes)
        c = rng.random()
        if c < 0.45:
            pipes.append({"name": "P%d" % k, "a": r["name"], "b": tgt})
            k += 1
        elif c < 0.85:
            kind = rng.choice(["H1", "H2", "H3", "POWER"])
            if kind == "H1":
                par = [[round(rng.uniform(0.01, 0.2), 4), round(rng.uniform(10, 80), 2)]]
            elif kind == "H2":
                h0 = round(rng.uniform(30, 90), 2)
                par = [[0.0, h0], [round(rng.uniform(0.05, 0.3), 4), round(h0 * rng.uniform(0.2, 0.7), 2)]]
            elif kind == "H3":
                h0 = round(rng.uniform(30, 90), 2)
                q1 = round(rng.uniform(0.02, 0.1), 4)
                par = [[0.0, h0], [q1, round(h0 * 0.8, 2)], [round(2 * q1, 4), round(h0 * 0.35, 2)]]
            else:
                par = round(rng.uniform(500, 90000), 1)
            pumps.append({"name": "U%d" % len(pumps), "a": r["name"], "b": tgt, "kind": kind, "par": par})
        else:
            pipes.append({"name": "P%d" % k, "a": r["name"], "b": tgt})
            k += 1
            if nj >= 2:  # valves may not touch a reservoir/tank: put one between two junctions
                a, b = rng.sample(nodes, 2)
                valves.append({"name": "V%d" % len(valves), "a": a, "b": b, "type": rng.choice(["PRV", "PRV", "PSV", "TCV", "FCV"]),
                               "diam": rng.choice(diam_choices), "setting": round(rng.uniform(5, 40), 1)})
    for t in tanks:
        pipes.append({"name": "P%d" % k, "a": t["name"], "b": rng.choice(nodes)})
        k += 1
    for p in pipes:
        p["length"] = round(rng.uniform(10, 1500), 1)
        p["diam"] = rng.choice(diam_choices)
        p["rough"] = rng.choice([80, 100, 120, 140])
    # registration order != sorted order of the names (an edit that pairs tables by position after sorting names must show)
    for lst in (juncs, res, tanks, pumps):
        if rng.random() < 0.5:
            lst.reverse()
    hstep = step if step != 7000 else 3500
    eff = rng.choice([75, 75.0, 60, 82.5, 100, None]) if (pumps) else rng.choice([75, None])
    spec = {
        "id": idx,
        "time": {"pattern_timestep": step, "pattern_start": pstart, "interp": interp, "hydraulic_timestep": hstep,
                 "report_timestep": hstep * rng.choice([1, 1, 2]), "duration": hstep * rng.choice([0, 4, 6, 8])},
        "dm": rng.choice([1.0, 1.0, 0.5, 1.3, 2.0]),
        "default_pattern": rng.choice(["keep", "keep", None] + pnames),
        "patterns": pats, "junctions": juncs, "reservoirs": res, "tanks": tanks, "pipes": pipes, "pumps": pumps, "valves": valves,
        "energy": {"eff": eff, "price": rng.choice([0, 3.61e-8, 1e-7]), "pump_price": rng.choice([None, None, 5e-8, 0.0, 0.0])},
    }
    return spec


def build(spec):
    wntr = vlib.import_wntr()
    from wntr.network.elements import Pattern

    wn = wntr.network.WaterNetworkModel()
    t = spec["time"]
    wn.options.time.pattern_timestep = t["pattern_timestep"]
    wn.options.time.pattern_start = t["pattern_start"]
    wn.options.time.pattern_interpolation = t["interp"]
    wn.options.time.hydraulic_timestep = t["hydraulic_timestep"]
    wn.options.time.report_timestep = t["report_timestep"]
    wn.options.time.duration = t["duration"]
    wn.options.hydraulic.demand_multiplier = spec["dm"]
    if spec["default_pattern"] != "keep":
        wn.options.hydraulic.pattern = spec["default_pattern"]
    for p in spec["patterns"]:
        b = p.get("bound")
        if b and b[0] == "tuple":
            wn.add_pattern(p["name"], Pattern(p["name"], multipliers=list(p["mults"]), time_options=(b[1], b[2]), wrap=p["wrap"]))
        elif b and b[0] == "model":
            wn1 = wntr.network.WaterNetworkModel()
            wn1.options.time.pattern_timestep = b[1]
            wn1.options.time.pattern_start = b[2]
            wn1.options.time.pattern_interpolation = b[3]
            wn1.add_pattern(p["name"], Pattern(p["name"], multipliers=list(p["mults"]), wrap=p["wrap"]))
            wn.add_pattern(p["name"], wn1.get_pattern(p["name"]))
        elif p["wrap"]:
            wn.add_pattern(p["name"], list(p["mults"]))
        else:
            wn.add_pattern(p["name"], Pattern(p["name"], multipliers=list(p["mults"]), time_options=wn.options.time, wrap=False))
    for j in spec["junctions"]:
        d = j["demands"]
        if d:
            wn.add_junction(j["name"], base_demand=d[0][0], demand_pattern=d[0][1], elevation=j["elev"], demand_category=d[0][2])
        else:
            wn.add_junction(j["name"], elevation=j["elev"])
            wn.get_node(j["name"]).demand_timeseries_list.clear()
        for (b, pn, c) in d[1:]:
            wn.get_node(j["name"]).add_demand(b, pn, c)
    for r in spec["reservoirs"]:
        wn.add_reservoir(r["name"], base_head=r["head"])
    for tk in spec["tanks"]:
        cname = None
        if tk["curve"]:
            cname = "VC_" + tk["name"]
            wn.add_curve(cname, "VOLUME", [tuple(x) for x in tk["curve"]])
        wn.add_tank(tk["name"], elevation=tk["elev"], init_level=tk["init"], min_level=tk["min"], max_level=tk["max"],
                    diameter=tk["diam"], vol_curve=cname)
    for p in spec["pipes"]:
        wn.add_pipe(p["name"], p["a"], p["b"], length=p["length"], diameter=p["diam"], roughness=p["rough"])
    for u in spec["pumps"]:
        if u["kind"] == "POWER":
            wn.add_pump(u["name"], u["a"], u["b"], "POWER", u["par"])
        else:
            cn = "HC_" + u["name"]
            wn.add_curve(cn, "HEAD", [tuple(x) for x in u["par"]])
            wn.add_pump(u["name"], u["a"], u["b"], "HEAD", cn)
        if spec["energy"].get("pump_price") is not None and u["name"].endswith("0"):
            wn.get_link(u["name"]).energy_price = spec["energy"]["pump_price"]
    for v in spec["valves"]:
        wn.add_valve(v["name"], v["a"], v["b"], diameter=v["diam"], valve_type=v["type"], initial_setting=v["setting"])
    wn.options.energy.global_efficiency = spec["energy"]["eff"]
    wn.options.energy.global_price = spec["energy"]["price"]
    return wn


# ----------------------------------------------------------------------------- driver requests

def fs(x):
    return vlib.frac_str(x)


def cat_tok(c):
    return "-" if c is None else ("@e" if c == "" else c)


def ts_tokens(spec):
    """per junction: the `ts ; ts` section of a driver line, resolving pattern names the way the docs describe:
    no pattern -> the default pattern (options.hydraulic.pattern, '1' unless changed) if it exists, else constant"""
    pats = {p["name"]: p for p in spec["patterns"]}
    dflt = "1" if spec["default_pattern"] == "keep" else spec["default_pattern"]
    out = {}
    for j in spec["junctions"]:
        toks = []
        for (b, pn, c) in j["demands"]:
            name = pn if pn is not None else dflt
            p = pats.get(name) if name is not None else None
            pt = "-" if p is None else "%d:%s" % (1 if p["wrap"] else 0, ",".join(fs(m) for m in p["mults"]))
            toks.append("%s %s %s" % (fs(b), cat_tok(c), pt))
        out[j["name"]] = " ; ".join(toks)
    return out


def parse_rat(s):
    if s == "nan":
        return None
    a, b = s.split("/")
    return F(int(a), int(b))


def close(impl, model, rel=1e-9, scale=0.0):
    """impl: float from pandas; model: Fraction or None (division by zero)"""
    if model is None:
        return not math.isfinite(impl)
    if not math.isfinite(impl):
        return False
    m = float(model)
    return abs(impl - m) <= rel * max(abs(m), abs(impl), scale) + 1e-300


class Reqs:
    def __init__(self):
        self.lines = []
        self.cbs = []

    def add(self, line, cb):
        self.lines.append(line)
        self.cbs.append(cb)

    def run(self):
        if not self.lines:
            return
        out = vlib.lean_run("Drivers/MetricsDriver.lean", "\n".join(self.lines) + "\n")
        if len(out) != len(self.lines):
            raise vlib.Infra("MetricsDriver returned %d lines for %d requests" % (len(out), len(self.lines)))
        for l, o, cb in zip(self.lines, out, self.cbs):
            if o == "bad-op":
                raise vlib.Infra("MetricsDriver rejected the request: " + l[:300])
            cb(o)


CATS_TRY = [None, "A", "B", "", "res", "zzz"]


class C20(Check):
    pid = "C20"
    level = "proof"
    prop_modules = ["WntrModel.Props.C20"]
    manifest = dict(
        category="proof",
        text="The arithmetic of every metric function (expected_demand, water_service_availability, todini_index, modified_resilience_index, "
        "tank_capacity + Tank.get_volume, population, population_impacted, pump_power/energy/cost, annual_network_cost incl. the maximum-pump-power "
        "expression, annual_ghg_emissions) is re-extracted from the python source on every run (ast -> MExpr terms, Gen/MetricsFormulas.lean) and "
        "proved equal, for all inputs, to the documented formula quoted next to its Lean definition (`*_code_eq_doc`; zero denominators and the "
        "NotImplemented branches as the code has them; the documented efficiency of the maximum pump power kept with its counterexample). "
        "Lean theorems over transliterations of Pattern.at / TimeSeries.at / Demands.at, expected_demand, average_expected_demand "
        "(with _gcd/_lcm/_lcml) and the documented metric formulas in exact rationals: patterns are periodic; the averaging period is a positive common "
        "multiple of 24 h and every pattern length; the mean over that window does not depend on its start and equals sum(base x mean multiplier x "
        "demand multiplier); expected_demand is the sum of base x pattern x multiplier and is the expression WNTRSimulator uses; the lookup index minimises "
        "|key - x| (first on ties); the default cost/GHG tables re-read from economic.py equal the documented tables; the documented maximum pump power is "
        "the true maximum for a linear curve. Every metric function is run against the Lean driver on random networks and random results tables, and "
        "expected_demand against a real demand-driven WNTRSimulator run.",
        design_ref="DESIGN.md §5 C20",
        note="the formula translator flattens pandas to one time / one element and trusts its own reading of the pandas / WaterNetworkModel API "
        "(`.loc[:, names]`, `.sum(axis=1)`, `wn.pumps()` ...; anything outside its subset is reported as a broken tie); it tracks how operands are paired "
        "(label-aligned by element name, by node name, or by position for numpy arrays) and refuses mis-paired operations, the keyed theorems name the "
        "element of every factor; float rounding and scipy curve_fit are exercised by the differential run, not modelled; exp / log / ** and the curve interpolations are uninterpreted "
        "symbols in the theorems (numpy.interp / _interp_extrapolate, Pattern.at, Demands.at, average_expected_demand and _gcd/_lcm are hand "
        "transliterations tied by the differential run); the naming of inputs (Row / Env builders in Props/C20.lean) is hand-written glue; "
        "the general-exponent maximum-pump-power value is evaluated in Lean Float; interpolated patterns are covered by periodicity only",
        technique="Lean 4 proof over translator-regenerated formula terms and tables + hand model, differential run against the Lean driver, simulator cross-check",
    )
    rule = (
        "obligations: theorems of Props/C20.lean. correspondence cases: one per (network, metric call, argument variant) and per "
        "(pattern, time) probe; non-trivial = the call involves a pattern of length >= 2, a non-zero pattern start, a category filter, a pump/tank/valve, "
        "or a custom table"
    )
    trusted_base = [
        "translator harness/props/c20.py (partial evaluation of the `if <table> is None` blocks and RST table parsing of economic.py)",
        "formula translator harness/props/c20_translate.py (abstract interpretation of the metric functions' ast; its model of the pandas / wntr API)",
        "input naming glue: the Row / Env builders beside each `*_code_eq_doc` theorem in Props/C20.lean",
        "hand transliteration Model/Pattern.lean, Model/Metrics.lean, tied to the code by the differential run on every check",
        "IEEE-754 rounding / pandas alignment are not modelled: implementation values are compared to exact rationals at 1e-9 relative",
    ]
    assumptions = [
        "pattern_timestep is an integer >= 1 (enforced by TimeOptions.__setattr__); times and pattern starts are integer seconds",
        "Lean Float exp/log/pow and numpy agree to 1e-9 relative (general-exponent maximum pump power only)",
    ]

    def translate(self, ctx):
        tb = read_tables()
        self.tables = tb
        ctx.cov["table_rows"] = {k: len(v["keys"]) for k, v in tb.items()}
        vlib.write_if_changed(os.path.join(vlib.GEN, "Tables.lean"), gen_tables_lean(tb))
        # the arithmetic of every metric function, re-extracted from the current source (python ast -> MExpr)
        import c20_translate

        terms, kinds, notes = c20_translate.translate_all()
        ctx.cov["formula_terms"] = {k: kinds[k] for k in terms}
        # control flow of Pattern.at / TimeSeries.at / Demands.at / _gcd / _lcm / _lcml / average_expected_demand / _interp_extrapolate
        import c20_shape

        shape_err = None
        try:
            vlib.write_if_changed(os.path.join(vlib.GEN, "PatternFormulas.lean"), c20_shape.generate())
        except BrokenTie as e:  # the formula terms below are still regenerated
            shape_err = e
        vlib.write_if_changed(os.path.join(vlib.GEN, "MetricsFormulas.lean"),
                              c20_translate.gen_lean(terms, kinds, c20_translate.population_constants()))
        if shape_err is not None:
            raise BrokenTie("c20_shape: %s" % shape_err)

    # ------------------------------------------------------------------ one network
    def run_spec(self, ctx, spec, reqs, fails, with_sim=True, label=""):
        import numpy as np
        import pandas as pd

        wntr = vlib.import_wntr()
        rng = ctx.rng if not label else __import__("random").Random(1)
        wn = build(spec)
        t = spec["time"]
        step, pstart, interp, dm = t["pattern_timestep"], t["pattern_start"], t["interp"], spec["dm"]
        toks = ts_tokens(spec)
        lens = ",".join(str(len(p["mults"])) for p in spec["patterns"]) or "-"
        for p in spec["patterns"]:
            ctx.count("pattern_added_as_%s" % (p["bound"][0] + "_bound_object" if p.get("bound") else "list" if p["wrap"] else "own_options_object"))
        haslong = any(len(p["mults"]) >= 2 for p in spec["patterns"])
        nontriv = haslong or pstart != 0
        sid = spec.get("id", label)
        # junctions using a non-wrapping pattern of length >= 2: such a pattern has no period, the average is not judged
        pats = {p["name"]: p for p in spec["patterns"]}
        dflt = "1" if spec["default_pattern"] == "keep" else spec["default_pattern"]
        nowrap = set()
        # magnitude of the terms of a junction's demand (rounding of the interpolation / the sums is relative to it)
        jscale = {}
        for j in spec["junctions"]:
            tot = 0.0
            for (b, pn_, c) in j["demands"]:
                p = pats.get(pn_ if pn_ is not None else dflt)
                mx = max([1.0] + [abs(m) for m in (p["mults"] if p else [])])
                tot += abs(b) * mx * abs(dm) * (50.0 if interp else 1.0)
            jscale[j["name"]] = tot
        for j in spec["junctions"]:
            for (b, pn_, c) in j["demands"]:
                p = pats.get(pn_ if pn_ is not None else dflt)
                if p is not None and not p["wrap"] and len(p["mults"]) >= 2:
                    nowrap.add(j["name"])

        def fail(key, what, extra):
            r = {"spec": spec}
            r.update(extra)
            fails.append(Failure(key, what, r))

        # ---- expected_demand: default arguments and an explicit window, a few categories
        variants = [(None, None, None, None)]
        variants.append((rng.choice([0, step, 2 * step + 7]), None, rng.choice([step, 2 * step, 777]), rng.choice(CATS_TRY)))
        for pt in spec.get("probe_times", []):
            variants.append((pt, None, step, None))
        for (st, en, tsx, cat) in variants:
            try:
                kw = {}
                if st is not None:
                    kw = dict(start_time=st, end_time=st + 6 * tsx, timestep=tsx, category=cat)
                ed = wntr.metrics.expected_demand(wn, **kw)
            except Exception as e:
                fail("expected_demand-exception", "expected_demand raised %s: %s" % (type(e).__name__, e), {"call": "expected_demand", "kw": str(kw)})
                continue
            times = list(ed.index)
            for j in spec["junctions"]:
                col = ed[j["name"]]
                for tt in (times if len(times) <= 6 else rng.sample(times, 6)):
                    ti = int(tt)
                    impl = float(col.loc[tt])
                    line = "exp %d %d %d %s %s %d | %s" % (step, interp, pstart, fs(dm), cat_tok(cat), ti, toks[j["name"]])

                    def cb(o, impl=impl, j=j, ti=ti, cat=cat, kw=kw):
                        m = parse_rat(o.split()[0])
                        ctx.case(("exp", sid, j["name"], ti, cat_tok(cat)), nontriv)
                        ctx.count("expected_demand")
                        ctx.count("expected_demand_%s" % ("default_args" if not kw else "explicit_window"))
                        if cat:
                            cs = [c for (_, _, c) in j["demands"]]
                            ctx.count("expected_demand_category_%s" % ("selects_some" if (cat in cs and any(c != cat for c in cs)) else
                                                                         "selects_all" if (cs and all(c == cat for c in cs)) else "selects_none"))
                        elif kw:
                            ctx.count("expected_demand_category_%s" % ("empty_string" if cat == "" else "None"))
                        if not close(impl, m, scale=jscale[j["name"]]):
                            key = "expected_demand-pattern-start" if pstart != 0 else "expected_demand-value"
                            fail(key, "expected_demand(%s)[%s][t=%d] = %r, base x pattern(t + pattern_start) x multiplier = %r (pattern_start=%s)"
                                 % (kw or "", j["name"], ti, impl, float(m), pstart),
                                 {"call": "expected_demand", "kw": str(kw), "junction": j["name"], "t": ti, "observed": impl, "expected": float(m)})

                    reqs.add(line, cb)
        # ---- average_expected_demand and population
        for cat in [None, rng.choice(CATS_TRY[1:])]:
            try:
                av = wntr.metrics.average_expected_demand(wn, category=cat)
            except Exception as e:
                key = "average_expected_demand-empty-pattern" if any(len(p["mults"]) == 0 for p in spec["patterns"]) else "average_expected_demand-exception"
                fail(key, "average_expected_demand raised %s: %s" % (type(e).__name__, e), {"call": "average_expected_demand", "category": cat})
                continue
            for j in spec["junctions"]:
                if j["name"] in nowrap:
                    ctx.count("avg_skipped_nonwrapping_pattern")
                    continue
                impl = float(av[j["name"]])
                line = "avg %d %d %d %s %s %s | %s" % (step, interp, pstart, fs(dm), cat_tok(cat), lens, toks[j["name"]])

                def cb(o, impl=impl, j=j, cat=cat):
                    per, ns, v = o.split()
                    m = parse_rat(v)
                    ctx.case(("avg", sid, j["name"], cat_tok(cat)), nontriv)
                    ctx.count("average_expected_demand")
                    ctx.count("period_%s_24h" % ("eq" if per == "86400" else "gt"))
                    if not close(impl, m, scale=jscale[j["name"]]):
                        key = "average_expected_demand-period-not-common" if per != "86400" else "average_expected_demand-value"
                        fail(key, "average_expected_demand(category=%r)[%s] = %r, mean over a whole common period (%s s, %s samples) = %r"
                             % (cat, j["name"], impl, per, ns, float(m) if m is not None else None),
                             {"call": "average_expected_demand", "category": cat, "junction": j["name"], "observed": impl,
                              "expected": float(m) if m is not None else None, "period": per})

                reqs.add(line, cb)
        try:
            R = rng.choice([0.00000876157, 1e-5, 3.3e-6])
            pop = wntr.metrics.population(wn, R)
            av = wntr.metrics.average_expected_demand(wn)
            for j in spec["junctions"]:
                a = float(av[j["name"]])
                impl = float(pop[j["name"]])
                if not math.isfinite(a):
                    continue

                def cb(o, impl=impl, a=a, R=R, j=j):
                    ctx.case(("pop", sid, j["name"]), a != 0)
                    ctx.count("population")
                    x = F(a) / F(R)
                    if abs((x - math.floor(x)) - F(1, 2)) < F(1, 10**6):
                        return
                    if o == "nan" or impl != float(int(o)):
                        fail("population-value", "population[%s] = %r, round(average/R) = %s" % (j["name"], impl, o),
                             {"call": "population", "R": R, "avg": a, "observed": impl, "expected": o})

                reqs.add("pop %s %s" % (fs(a), fs(R)), cb)
        except Exception as e:
            if not any(f.key.startswith("average_expected_demand") for f in fails):
                fail("population-exception", "population raised %s: %s" % (type(e).__name__, e), {"call": "population"})
        self.population_impacted(ctx, spec, wn, reqs, fail, rng, sid)
        # ---- results-table metrics on random tables
        self.table_metrics(ctx, spec, wn, reqs, fail, rng, sid)
        self.cost_metrics(ctx, spec, wn, reqs, fail, rng, sid)
        if with_sim:
            self.sim_check(ctx, spec, wn, fail, sid)

    def population_impacted(self, ctx, spec, wn, reqs, fail, rng, sid):
        """population_impacted(pop, arg1, operation, arg2) = pop where operation(arg1, arg2) holds, else 0
        (DataFrame: per node and time; Series: per node); arg2 a scalar or a table of the same shape"""
        import numpy as np
        import pandas as pd

        wntr = vlib.import_wntr()
        jn = wn.junction_name_list
        times = [0, 3600, 7200][: rng.randint(1, 3)]
        ops = [("lt", np.less), ("gt", np.greater), ("le", np.less_equal), ("ge", np.greater_equal), ("eq", np.equal), ("ne", np.not_equal)]
        opn, op = rng.choice(ops)
        grid = [0.0, 10.0, 20.0, 21.09, 35.5]  # thresholds are hit exactly now and then
        pop = pd.Series({n: float(rng.choice([0, 1, 17, 250, 1141])) for n in jn})
        cols = list(jn)
        rng.shuffle(cols)
        a1 = pd.DataFrame({n: [rng.choice(grid + [round(rng.uniform(-5, 60), 2)]) for _ in times] for n in cols}, index=times)
        if rng.random() < 0.5:
            a2 = rng.choice(grid)
            a2at = lambda tt, n: a2
        else:
            a2 = pd.DataFrame({n: [rng.choice(grid) for _ in times] for n in cols}, index=times)  # identically labelled, as documented
            a2at = lambda tt, n: float(a2.loc[tt, n])
        series = rng.random() < 0.3
        try:
            if series:
                t0 = times[0]
                pi_ = wntr.metrics.population_impacted(pop, a1.loc[t0, :], op, a2 if not isinstance(a2, pd.DataFrame) else a2.loc[t0, :])
                obs = {(t0, n): float(pi_[n]) for n in jn}
            else:
                pi_ = wntr.metrics.population_impacted(pop, a1, op, a2)
                obs = {(tt, n): float(pi_.loc[tt, n]) for tt in times for n in jn}
        except Exception as e:
            fail("population_impacted-exception", "population_impacted raised %s: %s" % (type(e).__name__, e), {"call": "population_impacted", "operation": opn})
            return
        for (tt, n), impl in obs.items():
            x, y, p_ = float(a1.loc[tt, n]), a2at(tt, n), float(pop[n])

            def cb(o, impl=impl, tt=tt, n=n, x=x, y=y, p_=p_):
                ctx.case(("popimp", sid, opn, tt, n), True)
                ctx.count("population_impacted_%s" % ("series" if series else "frame"))
                if not close(impl, parse_rat(o)):
                    fail("population_impacted-value", "population_impacted[%s][t=%d] = %r for %r %s %r and population %r; documented: %s" % (n, tt, impl, x, opn, y, p_, o),
                         {"call": "population_impacted", "operation": opn, "arg1": x, "arg2": y, "pop": p_, "observed": impl, "expected": o})

            reqs.add("popimp %s %s %s %s" % (opn, fs(x), fs(y), fs(p_)), cb)

    def table_metrics(self, ctx, spec, wn, reqs, fail, rng, sid):
        import numpy as np
        import pandas as pd

        wntr = vlib.import_wntr()
        times = [0, 3600, 7200][: rng.randint(1, 3)]
        jn, rn, tn, pn = wn.junction_name_list, wn.reservoir_name_list, wn.tank_name_list, wn.pump_name_list
        nodes = wn.node_name_list
        links = wn.link_name_list
        cols = list(nodes)
        rng.shuffle(cols)

        def rnd(lo, hi):
            return round(rng.uniform(lo, hi), rng.choice([1, 3, 6]))

        head = pd.DataFrame({n: [rnd(20, 150) for _ in times] for n in cols}, index=times)
        pressure = pd.DataFrame({n: [rnd(-5, 80) for _ in times] for n in cols}, index=times)
        demand = pd.DataFrame({n: [(rnd(-0.05, 0) if n in rn else rnd(0, 0.03) if rng.random() < 0.85 else 0.0) for _ in times] for n in cols}, index=times)
        lcols = list(links)
        rng.shuffle(lcols)
        # pumps: sometimes closed (flow exactly 0); heads are random, so negative head gains occur as well
        flow = pd.DataFrame({l: [(0.0 if (l in pn and rng.random() < 0.2) else rnd(-0.02, 0.2)) for _ in times] for l in lcols}, index=times)
        pstar = rng.choice([20, 21.09, 0, 35.5, 10])
        has = bool(pn) or bool(tn)
        # Todini
        try:
            td = wntr.metrics.todini_index(head, pressure, demand, flow.loc[:, pn] if rng.random() < 0.5 else flow, wn, pstar)
            for tt in times:
                js = " ; ".join("%s %s %s" % (fs(demand.loc[tt, n]), fs(head.loc[tt, n]), fs(pressure.loc[tt, n])) for n in jn)
                rs = " ; ".join("%s %s" % (fs(demand.loc[tt, n]), fs(head.loc[tt, n])) for n in rn)
                ps = " ; ".join("%s %s %s" % (fs(flow.loc[tt, l]), fs(head.loc[tt, wn.get_link(l).start_node_name]), fs(head.loc[tt, wn.get_link(l).end_node_name])) for l in pn)
                impl = float(td.loc[tt])

                def cb(o, impl=impl, tt=tt):
                    ctx.case(("todini", sid, tt), True)
                    ctx.count("todini_index")
                    ctx.count("todini_pumps_%d" % min(len(pn), 2))
                    ctx.count("todini_reservoirs_%d" % min(len(rn), 2))
                    if not close(impl, parse_rat(o), rel=1e-7):
                        fail("todini_index-value", "todini_index at t=%d = %r, documented formula = %s" % (tt, impl, o),
                             {"call": "todini_index", "t": tt, "observed": impl, "expected": o, "tables": {"head": head.to_dict(), "pressure": pressure.to_dict(), "demand": demand.to_dict(), "flow": flow.to_dict()}, "Pstar": pstar})

                reqs.add("todini %s | %s | %s | %s" % (fs(pstar), js, rs, ps), cb)
        except Exception as e:
            fail("todini_index-exception" + ("" if pn else "-no-pumps"), "todini_index raised %s: %s" % (type(e).__name__, e), {"call": "todini_index"})
        # MRI
        try:
            eorder = list(jn)
            rng.shuffle(eorder)  # the Series need not be in the order of the pressure columns: matched by junction NAME
            elev = pd.Series({n: wn.get_node(n).elevation for n in eorder})
            if rng.random() < 0.2 and len(jn):
                pstar_m = -float(elev.iloc[0])  # Pstar + elevation = 0 at one junction
            else:
                pstar_m = float(pstar)
            pj = pressure.loc[:, jn]
            m1 = wntr.metrics.modified_resilience_index(pj, elev, pstar_m, per_junction=True)
            dj = demand.loc[:, list(reversed(jn))]
            m2 = wntr.metrics.modified_resilience_index(pj, elev, pstar_m, demand=dj, per_junction=False)
            for tt in times:
                for n in jn:
                    impl = float(m1.loc[tt, n])

                    def cb(o, impl=impl, tt=tt, n=n):
                        ctx.case(("mrij", sid, tt, n), True)
                        ctx.count("mri_per_junction")
                        if not close(impl, parse_rat(o), rel=1e-7):
                            fail("modified_resilience_index-junction", "MRI[%s][t=%d] = %r, documented = %s" % (n, tt, impl, o),
                                 {"call": "modified_resilience_index", "junction": n, "observed": impl, "expected": o, "Pstar": pstar_m})

                    reqs.add("mrij %s %s %s" % (fs(pstar_m), fs(pj.loc[tt, n]), fs(elev[n])), cb)
                rows = " ; ".join("%s %s %s" % (fs(demand.loc[tt, n]), fs(pj.loc[tt, n]), fs(elev[n])) for n in jn)
                impl = float(m2.loc[tt])
                pexp_terms = [abs(demand.loc[tt, n] * (pstar_m + elev[n])) for n in jn]
                illc = abs(sum(demand.loc[tt, n] * (pstar_m + elev[n]) for n in jn)) < 1e-6 * max(sum(pexp_terms), 1e-300)

                def cb(o, impl=impl, tt=tt, illc=illc):
                    ctx.case(("mris", sid, tt), True)
                    ctx.count("mri_system")
                    if illc and o != "nan":
                        ctx.count("skipped_ill_conditioned")
                        return
                    if not close(impl, parse_rat(o), rel=1e-7):
                        fail("modified_resilience_index-system", "system MRI[t=%d] = %r, documented = %s" % (tt, impl, o),
                             {"call": "modified_resilience_index", "observed": impl, "expected": o, "Pstar": pstar_m})

                reqs.add("mris %s | %s" % (fs(pstar_m), rows), cb)
        except Exception as e:
            fail("modified_resilience_index-exception", "modified_resilience_index raised %s: %s" % (type(e).__name__, e), {"call": "modified_resilience_index"})
        # tank capacity
        if tn:
            try:
                tcols = list(tn)
                rng.shuffle(tcols)
                lv = pd.DataFrame({n: [rnd(0, 14) for _ in times] for n in tcols}, index=times)
                tc = wntr.metrics.tank_capacity(lv, wn)
                for tk in spec["tanks"]:
                    for tt in times:
                        impl = float(tc.loc[tt, tk["name"]])
                        if tk["curve"]:
                            line = "tankcap curve %s %s %s" % (fs(tk["max"]), fs(lv.loc[tt, tk["name"]]), ",".join("%s:%s" % (fs(x), fs(y)) for x, y in tk["curve"]))
                        else:
                            line = "tankcap cyl %s %s %s" % (fs(tk["diam"]), fs(tk["max"]), fs(lv.loc[tt, tk["name"]]))

                        def cb(o, impl=impl, tk=tk, tt=tt):
                            ctx.case(("tankcap", sid, tk["name"], tt), True)
                            ctx.count("tank_capacity_%s" % ("curve" if tk["curve"] else "cyl"))
                            if not close(impl, parse_rat(o)):
                                fail("tank_capacity-value", "tank_capacity[%s][t=%d] = %r, volume(level)/volume(max_level) = %s" % (tk["name"], tt, impl, o),
                                     {"call": "tank_capacity", "tank": tk, "level": float(lv.loc[tt, tk["name"]]), "observed": impl, "expected": o})

                        reqs.add(line, cb)
            except Exception as e:
                fail("tank_capacity-exception", "tank_capacity raised %s: %s" % (type(e).__name__, e), {"call": "tank_capacity"})
            # a history: evaluate, re-survey the tank (new points of the SAME curve, or another curve), evaluate again --
            # the metric must follow the tank's current volume curve
            ctanks = [tk for tk in spec["tanks"] if tk["curve"]]
            if ctanks:
                try:
                    wn2 = build(spec)
                    lv2 = pd.DataFrame({tk["name"]: [rnd(0, 14) for _ in times] for tk in spec["tanks"]}, index=times)
                    wntr.metrics.tank_capacity(lv2, wn2)  # first evaluation
                    newc = {}
                    for tk in ctanks:
                        v = 0.0
                        pts = []
                        for i, (x, _) in enumerate(tk["curve"]):
                            if i:
                                v += (x - tk["curve"][i - 1][0]) * rng.uniform(20, 900)
                            pts.append([x, round(v, 3)])
                        newc[tk["name"]] = pts
                        cname = "VC_" + tk["name"]
                        if rng.random() < 0.6:
                            wn2.get_curve(cname).points = [tuple(q) for q in pts]
                            how = "points of the curve edited"
                        else:
                            wn2.add_curve(cname + "b", "VOLUME", [tuple(q) for q in pts])
                            wn2.get_node(tk["name"]).vol_curve_name = cname + "b"
                            how = "tank re-pointed to another curve"
                    tc2 = wntr.metrics.tank_capacity(lv2, wn2)
                    for tk in ctanks:
                        for tt in times:
                            impl = float(tc2.loc[tt, tk["name"]])
                            line = "tankcap curve %s %s %s" % (fs(tk["max"]), fs(lv2.loc[tt, tk["name"]]), ",".join("%s:%s" % (fs(x), fs(y)) for x, y in newc[tk["name"]]))

                            def cb(o, impl=impl, tk=tk, tt=tt, pts=newc[tk["name"]], how=how):
                                ctx.case(("tankcap2", sid, tk["name"], tt), True)
                                ctx.count("tank_capacity_after_curve_change")
                                if not close(impl, parse_rat(o)):
                                    fail("tank_capacity-stale-curve", "tank_capacity[%s][t=%d] = %r after a first evaluation and then: %s; volume(level)/volume(max_level) on the CURRENT curve = %s"
                                         % (tk["name"], tt, impl, how, o),
                                         {"call": "tank_capacity twice", "tank": tk, "new_curve": pts, "level": float(lv2.loc[tt, tk["name"]]), "observed": impl, "expected": o})

                            reqs.add(line, cb)
                except Exception as e:
                    fail("tank_capacity-exception", "tank_capacity (second evaluation) raised %s: %s" % (type(e).__name__, e), {"call": "tank_capacity twice"})
        # water service availability
        try:
            # expected demand: mostly positive, sometimes exactly 0 (-> NaN, documented) and sometimes NEGATIVE (an inflow / well
            # junction: negative base demand) -- there the documented ratio demand / expected_demand is still defined
            def ev_():
                r_ = rng.random()
                return 0.0 if r_ < 0.15 else -rnd(0.001, 0.03) if r_ < 0.3 else rnd(0, 0.03)

            exp = pd.DataFrame({n: [ev_() for _ in times] for n in jn}, index=times)
            act = demand.loc[:, jn].copy()
            for n in jn:  # delivered inflow where the expected demand is an inflow (sometimes)
                for tt in times:
                    if exp.loc[tt, n] < 0 and rng.random() < 0.7:
                        act.loc[tt, n] = -rnd(0, 0.03)
            w = wntr.metrics.water_service_availability(exp, act)
            ws = wntr.metrics.water_service_availability(exp.sum(axis=0), act.sum(axis=0))
            for n in jn:
                for tt in times:
                    impl = float(w.loc[tt, n])

                    def cb(o, impl=impl, n=n, tt=tt, d_=float(act.loc[tt, n]), e_=float(exp.loc[tt, n])):
                        ctx.case(("wsa", sid, n, tt), True)
                        ctx.count("wsa")
                        ctx.count("wsa_expected_%s" % ("negative" if e_ < 0 else "zero" if e_ == 0 else "positive"))
                        if o == "nan":
                            # documented: "If expected demand is 0 ..., water service availability will be set to NaN"
                            ctx.count("wsa_zero_expected_%s" % ("zero_demand" if d_ == 0 else "nonzero_demand"))
                            if not math.isnan(impl):
                                fail("water_service_availability-zero-expected-inf",
                                     "WSA[%s][t=%d] = %r for demand %r over an expected demand of 0; documented: NaN" % (n, tt, impl, d_),
                                     {"call": "water_service_availability", "demand": d_, "expected_demand": e_, "observed": impl, "expected": "nan"})
                        elif not close(impl, parse_rat(o)):
                            fail("water_service_availability-value", "WSA[%s][t=%d] = %r, demand/expected = %s" % (n, tt, impl, o),
                                 {"call": "water_service_availability", "observed": impl, "expected": o})

                    reqs.add("wsa %s %s" % (fs(act.loc[tt, n]), fs(exp.loc[tt, n])), cb)
                impl = float(ws[n])

                def cbs(o, impl=impl, n=n):
                    ctx.case(("wsa-sum", sid, n), True)
                    if o == "nan":
                        if not math.isnan(impl):
                            fail("water_service_availability-zero-expected-inf", "WSA(sums over time)[%s] = %r over an expected demand of 0; documented: NaN" % (n, impl),
                                 {"call": "wsa-series", "observed": impl, "expected": "nan"})
                    elif not close(impl, parse_rat(o)):
                        fail("water_service_availability-value", "WSA(sum)[%s] = %r, documented = %s" % (n, impl, o), {"call": "wsa-series"})

                reqs.add("wsa %s %s" % (fs(float(act[n].sum())), fs(float(exp[n].sum()))), cbs)
            # Series indexed by time: average over the junctions at each time
            wt = wntr.metrics.water_service_availability(exp.sum(axis=1), act.sum(axis=1))
            for tt in times:
                impl = float(wt.loc[tt])

                def cbt(o, impl=impl, tt=tt):
                    ctx.case(("wsa-time", sid, tt), True)
                    ctx.count("wsa_series_by_time")
                    if (o == "nan" and not math.isnan(impl)) or (o != "nan" and not close(impl, parse_rat(o))):
                        fail("water_service_availability-value", "WSA(sums over junctions)[t=%d] = %r, documented = %s" % (tt, impl, o), {"call": "wsa-series-time"})

                reqs.add("wsa %s %s" % (fs(float(act.loc[tt, :].sum())), fs(float(exp.loc[tt, :].sum()))), cbt)
        except Exception as e:
            fail("water_service_availability-exception", "water_service_availability raised %s: %s" % (type(e).__name__, e), {"call": "wsa"})
        # pump power / energy / cost
        if pn and spec["energy"]["eff"] is not None:
            try:
                fl = flow.loc[:, pn]
                pw = wntr.metrics.pump_power(fl, head, wn)
                en = wntr.metrics.pump_energy(fl, head, wn)
                co = wntr.metrics.pump_cost(en, wn)
                for l in pn:
                    lk = wn.get_link(l)
                    price = lk.energy_price if lk.energy_price is not None else wn.options.energy.global_price
                    for tt in times:
                        impl = (float(pw.loc[tt, l]), float(en.loc[tt, l]), float(co.loc[tt, l]))
                        line = "pump %s %s %s %s %s %s" % (fs(fl.loc[tt, l]), fs(head.loc[tt, lk.start_node_name]), fs(head.loc[tt, lk.end_node_name]),
                                                           fs(spec["energy"]["eff"]), fs(wn.options.time.report_timestep), fs(price))

                        def cb(o, impl=impl, l=l, tt=tt):
                            ctx.case(("pump", sid, l, tt), True)
                            ctx.count("pump_power_energy_cost")
                            ms = [parse_rat(x) for x in o.split()]
                            for nm, a, m in zip(("pump_power", "pump_energy", "pump_cost"), impl, ms):
                                if not close(a, m):
                                    fail(nm + "-value", "%s[%s][t=%d] = %r, documented = %r" % (nm, l, tt, a, float(m) if m is not None else None),
                                         {"call": nm, "pump": l, "observed": a, "expected": float(m) if m is not None else None})

                        reqs.add(line, cb)
            except Exception as e:
                fail("pump_power-exception", "pump power/energy/cost raised %s: %s" % (type(e).__name__, e), {"call": "pump_power"})

    def cost_metrics(self, ctx, spec, wn, reqs, fail, rng, sid):
        import numpy as np
        import pandas as pd

        wntr = vlib.import_wntr()
        eff = spec["energy"]["eff"]
        has_pump = bool(spec["pumps"])
        custom = rng.random() < 0.4
        kw = {}
        tabs = "default"
        if custom:
            def mk(lo, hi, n, vlo, vhi):
                ks = sorted(set(round(rng.uniform(lo, hi), 4) for _ in range(n)))
                if rng.random() < 0.3:
                    rng.shuffle(ks)
                return pd.Series([round(rng.uniform(vlo, vhi), 2) for _ in ks], ks)

            kw = dict(tank_cost=mk(100, 20000, rng.randint(1, 5), 1e3, 2e5), pipe_cost=mk(0.05, 0.9, rng.randint(1, 6), 5, 50),
                      prv_cost=mk(0.05, 0.9, rng.randint(1, 4), 100, 7000), pump_cost=mk(500, 120000, rng.randint(1, 5), 1e3, 6e3))
            enc = lambda s: ",".join("%s:%s" % (fs(float(k)), fs(float(v))) for k, v in zip(s.index, s.values))
            tabs = "T=%s;P=%s;V=%s;U=%s" % (enc(kw["tank_cost"]), enc(kw["pipe_cost"]), enc(kw["prv_cost"]), enc(kw["pump_cost"]))
        items_doc, items_asis = [], []
        for tk in spec["tanks"]:
            if tk["curve"]:
                it = "tank curve %s %s %s" % (fs(tk["min"]), fs(tk["max"]), ",".join("%s:%s" % (fs(x), fs(y)) for x, y in tk["curve"]))
            else:
                it = "tank cyl %s %s %s" % (fs(tk["diam"]), fs(tk["min"]), fs(tk["max"]))
            items_doc.append(it)
            items_asis.append(it)
        for p in spec["pipes"]:
            items_doc.append("pipe %s %s" % (fs(p["diam"]), fs(p["length"])))
            items_asis.append(items_doc[-1])
        fit_ok = True
        for u in spec["pumps"]:
            effd = F(75, 100) if eff is None else F(eff) / 100  # documented: a fraction, 0.75 by default
            effa = None if eff is None else F(eff)  # the code divides by the stored percentage
            if u["kind"] == "POWER":
                items_doc.append("ppump %s %s" % (fs(u["par"]), fs(effd)))
                items_asis.append("ppump %s %s" % (fs(u["par"]), fs(effa if effa is not None else 1)))
            else:
                try:
                    A, B, C = wn.get_link(u["name"]).get_head_curve_coefficients()
                except Exception:
                    fit_ok = False
                    break
                items_doc.append("hpump %s %s %s %s" % (fs(A), fs(B), fs(C), fs(effd)))
                items_asis.append("hpump %s %s %s %s" % (fs(A), fs(B), fs(C), fs(effa if effa is not None else 1)))
        for v in spec["valves"]:
            if v["type"] == "PRV":
                items_doc.append("prv %s" % fs(v["diam"]))
                items_asis.append(items_doc[-1])
        if fit_ok:
            try:
                cimpl = float(wntr.metrics.annual_network_cost(wn, **kw))
                err = None
            except Exception as e:
                cimpl, err = None, "%s: %s" % (type(e).__name__, e)
            res = {}

            def fin():
                if "doc" not in res or "asis" not in res:
                    return
                ctx.case(("netcost", sid, custom), True)
                ctx.count("annual_network_cost_%s" % ("custom" if custom else "default"))
                md, ma = res["doc"], res["asis"]
                if err is not None:
                    key = "annual_network_cost-pump-efficiency" if (has_pump and eff is None) else "annual_network_cost-exception"
                    fail(key, "annual_network_cost raised %s; documented total (eff = 0.75 default) = %r" % (err, float(md)),
                         {"call": "annual_network_cost", "observed": err, "expected": float(md), "tables": tabs})
                elif not close(cimpl, md):
                    key = "annual_network_cost-pump-efficiency" if (has_pump and close(cimpl, ma)) else "annual_network_cost-value"
                    fail(key, "annual_network_cost = %r, documented formula (max pump power with eff = global efficiency as a fraction) = %r; "
                         "dividing by the stored percentage instead gives %r" % (cimpl, float(md), float(ma)),
                         {"call": "annual_network_cost", "observed": cimpl, "expected": float(md), "with_percent": float(ma), "tables": tabs})

            reqs.add("netcost %s | %s" % (tabs, " ; ".join(items_doc)), lambda o: (res.__setitem__("doc", parse_rat(o)), fin()))
            reqs.add("netcost %s | %s" % (tabs, " ; ".join(items_asis)), lambda o: (res.__setitem__("asis", parse_rat(o)), fin()))
        # GHG
        try:
            gkw = {}
            gt = "default"
            if custom:
                ks = sorted(set(round(rng.uniform(0.05, 0.9), 4) for _ in range(rng.randint(1, 6))))
                ser = pd.Series([round(rng.uniform(5, 80), 2) for _ in ks], ks)
                gkw = dict(pipe_ghg=ser)
                gt = ",".join("%s:%s" % (fs(float(k)), fs(float(v))) for k, v in zip(ser.index, ser.values))
            impl = float(wntr.metrics.annual_ghg_emissions(wn, **gkw))
            line = "ghg %s | %s" % (gt, " ; ".join("%s %s" % (fs(p["diam"]), fs(p["length"])) for p in spec["pipes"]))

            def cb(o, impl=impl):
                ctx.case(("ghg", sid, custom), True)
                ctx.count("annual_ghg_emissions")
                if not close(impl, parse_rat(o)):
                    fail("annual_ghg_emissions-value", "annual_ghg_emissions = %r, documented = %s" % (impl, o),
                         {"call": "annual_ghg_emissions", "observed": impl, "expected": o})

            reqs.add(line, cb)
        except Exception as e:
            fail("annual_ghg_emissions-exception", "annual_ghg_emissions raised %s: %s" % (type(e).__name__, e), {"call": "annual_ghg_emissions"})

    def sim_check(self, ctx, spec, wn, fail, sid):
        """expected_demand(wn) against the demand a real demand-driven WNTRSimulator run delivers"""
        wntr = vlib.import_wntr()
        if spec["time"]["duration"] == 0 or spec["pumps"] or spec["valves"]:
            return
        if not spec["reservoirs"]:
            return  # fed by tanks only: a tank running empty isolates junctions and the simulator sets their demand to 0
        try:
            wn2 = build(spec)
            wn2.options.hydraulic.demand_model = "DD"
            res = wntr.sim.WNTRSimulator(wn2).run_sim()
        except Exception as e:
            ctx.count("sim_failed")
            return
        if res.error_code is not None and res.error_code != 0:
            ctx.count("sim_failed")
            return
        dem = res.node["demand"]
        ed = wntr.metrics.expected_demand(build(spec))
        ctx.count("sim_runs")
        pstart = spec["time"]["pattern_start"]
        for tt in dem.index:
            if tt not in ed.index:
                continue
            for j in spec["junctions"]:
                a, b = float(dem.loc[tt, j["name"]]), float(ed.loc[tt, j["name"]])
                ctx.case(("sim", sid, j["name"], int(tt)), True)
                ctx.count("sim_vs_expected_demand")
                if abs(a - b) > 1e-9 * max(abs(a), abs(b)) + 1e-12:
                    key = "expected_demand-pattern-start" if pstart != 0 else "expected_demand-vs-simulator"
                    fail(key, "WNTRSimulator (DD) delivers %r at %s, t=%d but expected_demand says %r (pattern_start=%s)" % (a, j["name"], int(tt), b, pstart),
                         {"call": "WNTRSimulator vs expected_demand", "junction": j["name"], "t": int(tt), "simulated": a, "metric": b})
                    return

    # ------------------------------------------------------------------ degenerate networks
    def degenerate(self, ctx, fails):
        """no junction at all / nothing but a reservoir: every metric returns its empty or zero value, nothing raises"""
        import pandas as pd

        wntr = vlib.import_wntr()
        for kind in ("empty", "reservoir-only"):
            wn = wntr.network.WaterNetworkModel()
            if kind == "reservoir-only":
                wn.add_reservoir("R0", base_head=50.0)
            nodes = wn.node_name_list
            one = lambda v: pd.DataFrame({n: [v] for n in nodes}, index=[0])
            calls = [
                ("expected_demand", lambda: wntr.metrics.expected_demand(wn).shape, lambda r: r[1] == 0),
                ("average_expected_demand", lambda: len(wntr.metrics.average_expected_demand(wn)), lambda r: r == 0),
                ("population", lambda: len(wntr.metrics.population(wn)), lambda r: r == 0),
                ("annual_network_cost", lambda: wntr.metrics.annual_network_cost(wn), lambda r: r == 0),
                ("annual_ghg_emissions", lambda: wntr.metrics.annual_ghg_emissions(wn), lambda r: r == 0),
                # no junction: 0/0 without a reservoir (NaN), 0/(-d h) with one
                ("todini_index", lambda: float(wntr.metrics.todini_index(one(40.0), one(10.0), one(-0.01), pd.DataFrame(index=[0]), wn, 20).iloc[0]),
                 lambda r: math.isnan(r) if kind == "empty" else r == 0.0),
                ("tank_capacity", lambda: wntr.metrics.tank_capacity(pd.DataFrame(index=[0]), wn).shape, lambda r: r[1] == 0),
                ("pump_power", lambda: wntr.metrics.pump_power(pd.DataFrame(index=[0]), one(40.0), wn).shape, lambda r: r[1] == 0),
            ]
            for nm, f, good in calls:
                ctx.case(("degenerate", kind, nm), True)
                ctx.count("degenerate_network_calls")
                try:
                    r = f()
                except Exception as e:
                    fails.append(Failure(nm + "-exception-degenerate-network", "%s on a network that is %s raised %s: %s" % (nm, kind, type(e).__name__, e),
                                         {"call": nm, "network": kind}))
                    continue
                if not good(r):
                    fails.append(Failure(nm + "-value-degenerate-network", "%s on a network that is %s gave %r" % (nm, kind, r), {"call": nm, "network": kind}))

    # ------------------------------------------------------------------ pattern probes
    def pattern_probes(self, ctx, reqs, fails):
        wntr = vlib.import_wntr()
        from wntr.network.elements import Pattern
        from wntr.network.options import TimeOptions

        rng = ctx.rng
        n = 150 if ctx.quick else 1500
        for _ in range(n):
            ln = rng.choice([0, 1, 2, 2, 3, 4, 5, 7, 24])
            mults = [round(rng.uniform(-1, 3), rng.choice([0, 2, 5])) for _ in range(ln)]
            step = rng.choice(STEPS + [1, 7])
            wrap = rng.random() < 0.7
            interp = rng.random() < 0.35
            to = TimeOptions()
            to.pattern_timestep = step
            to.pattern_interpolation = interp
            p = Pattern("p", multipliers=mults, time_options=to, wrap=wrap)
            r = rng.random()
            t = rng.randint(0, 40 * step) if r < 0.6 else rng.randint(0, 40) * step if r < 0.9 else -rng.randint(1, 5 * step)
            try:
                impl = float(p.at(t))
            except Exception as e:
                fails.append(Failure("Pattern.at-exception", "Pattern.at raised %s: %s" % (type(e).__name__, e), {"mults": mults, "step": step, "t": t}))
                continue
            line = "pat %d %d %d %d %s" % (step, interp, wrap, t, ",".join(fs(m) for m in mults) or "-")

            def cb(o, impl=impl, mults=mults, step=step, wrap=wrap, interp=interp, t=t):
                ctx.case(("pat", len(mults), step, wrap, interp, t), len(mults) >= 2)
                ctx.count("pattern_at_%s%s" % ("wrap" if wrap else "nowrap", "_interp" if interp else ""))
                if not close(impl, parse_rat(o), scale=max([1.0] + [abs(m) for m in mults]) * (abs(t) / step + 2)):
                    self._probe_fail.append((mults, step, wrap, interp, t))
                    self._broken.append(Broken("correspondence", "Pattern.at vs Model/Pattern.lean",
                                               "mults=%r step=%d wrap=%s interp=%s t=%d impl=%r model=%s" % (mults, step, wrap, interp, t, impl, o)))

            reqs.add(line, cb)

    # ------------------------------------------------------------------ correspondence + oracle
    def correspondence(self, ctx):
        import json

        vlib.import_wntr()
        fails = []
        self._broken = []
        self._probe_fail = []
        reqs = Reqs()
        for fn, item in vlib.corpus_items("C20"):
            self.run_spec(ctx, item["spec"], reqs, fails, with_sim=True, label="corpus:" + fn)
            ctx.count("corpus_items")
        self.pattern_probes(ctx, reqs, fails)
        self.degenerate(ctx, fails)
        n = 40 if ctx.quick else 400
        nsim = 0
        for i in range(n):
            spec = gen_spec(ctx.rng, i)
            with_sim = nsim < (25 if ctx.quick else 150)
            before = ctx.hist.get("sim_runs", 0)
            self.run_spec(ctx, spec, reqs, fails, with_sim=with_sim)
            nsim += ctx.hist.get("sim_runs", 0) - before
            if i < 3:
                ctx.sample({"network": {k: spec[k] for k in ("time", "dm", "patterns")}, "junction0": spec["junctions"][0]})
        reqs.run()
        ctx.cov["driver_requests"] = len(reqs.lines)
        if self._probe_fail:  # turn a Pattern.at disagreement into a concrete expected_demand failure right away
            r2 = Reqs()
            self.probe_followup(ctx, r2, fails)
            r2.run()
        # smallest failing network first for each key
        fails.sort(key=lambda f: len(json.dumps(f.replay.get("spec", {}))))
        return fails, self._broken

    def probe_followup(self, ctx, reqs, fails):
        # a Pattern.at disagreement: put that very pattern on a junction and ask expected_demand for that time
        for k, (mults, step, wrap, interp, t) in enumerate(getattr(self, "_probe_fail", [])[:8]):
            if step < 1:
                continue
            spec = {"id": "probe%d" % k,
                    "time": {"pattern_timestep": step, "pattern_start": 0, "interp": interp, "hydraulic_timestep": 3600, "report_timestep": 3600, "duration": 0},
                    "dm": 1.0, "default_pattern": "keep", "patterns": [{"name": "PA", "mults": mults, "wrap": wrap}],
                    "junctions": [{"name": "J0", "elev": 0.0, "demands": [[1.0, "PA", None]]}], "reservoirs": [{"name": "R0", "head": 50.0}],
                    "tanks": [], "pipes": [{"name": "P0", "a": "R0", "b": "J0", "length": 100.0, "diam": 0.3048, "rough": 100}], "pumps": [], "valves": [],
                    "energy": {"eff": 75, "price": 0, "pump_price": None}, "probe_times": [t]}
            self.run_spec(ctx, spec, reqs, fails, with_sim=False, label="probe%d" % k)

    def search(self, ctx, broken):
        """a proof / translator / correspondence broke and the seeded run found nothing: widen the generator"""
        fails = []
        self._broken = []
        reqs = Reqs()
        self.probe_followup(ctx, reqs, fails)
        for i in range(150 if ctx.quick else 600):
            self.run_spec(ctx, gen_spec(ctx.rng, 10000 + i, small=(i % 2 == 0)), reqs, fails, with_sim=(i % 4 == 0))
        reqs.run()
        return fails

    def replay(self, ctx, path):
        import json

        r = json.load(open(path if os.path.isabs(path) else os.path.join(vlib.VERIF, path)))
        spec = (r.get("replay") or {}).get("spec")
        print(json.dumps({k: v for k, v in r.items() if k != "broken"}, indent=1)[:2500])
        if spec is None:
            print("replay: no concrete input recorded (broken tie only)")
            return 0
        fails = []
        self._broken = []
        reqs = Reqs()
        self.run_spec(ctx, spec, reqs, fails, with_sim=True, label="replay")
        reqs.run()
        hit = [f for f in fails if f.key == r.get("key")]
        print("replay: %s" % ("REPRODUCED " + hit[0].what if hit else "not reproduced on the current tree"))
        return 1 if hit else 0


if __name__ == "__main__":
    if len(sys.argv) > 1 and sys.argv[1] == "--tables":
        print(gen_tables_lean(read_tables()))
    else:
        vlib.run_check(C20)
