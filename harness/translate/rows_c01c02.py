"""Translator for C01 / C02: runtime reflection of the rows `create_hydraulic_model` builds for a canonical
"zoo" network -> `Gen/RowsC01.lean` (mass-balance rows, DD and PDD) and `Gen/RowsC02.lean` (one head-flow row
per link kind and status, both HW approximations; constants of constants.py; tolerances of controls.py;
parameter formulas of param.py and the 1-/2-point pump-curve fits traced by executing the code on symbolic numbers).

Nothing here decides anything: the Lean side (`Props/C01.lean`, `Props/C02.lean`) checks the generated rows against
the parametric rows of `Model/LinkRows.lean` instantiated from the zoo's *link table* (names of start / end nodes
as stored on the link objects), so a sign, INLET/OUTLET, start/end or status-branch edit in constraint.py breaks a proof.
"""
import math
import os
import sys
from fractions import Fraction

HERE = os.path.dirname(os.path.abspath(__file__))
sys.path.insert(0, os.path.dirname(HERE))
sys.path.insert(0, HERE)
import vlib
from vlib import BrokenTie
import amldump

# ----------------------------------------------------------------------------- the zoo


def build_zoo(wntr, demand_model):
    """one element of every type in every status; parallel links; links into and out of a tank; leaks on a junction
    and on the tank; junctions with several links in and out; an isolated link"""
    from wntr.network import LinkStatus

    wn = wntr.network.WaterNetworkModel()
    wn.options.hydraulic.demand_model = demand_model
    wn.add_pattern("pat1", [1.0, 1.5])
    wn.add_reservoir("R1", base_head=60.0)
    wn.add_reservoir("R2", base_head=55.0)
    wn.add_tank("T1", elevation=40.0, init_level=5.0, min_level=0.0, max_level=10.0, diameter=8.0)
    for i in range(1, 13):
        wn.add_junction("J%d" % i, base_demand=0.001 * i, elevation=float(i), demand_pattern="pat1")
    wn.get_node("J3").add_demand(0.002, None, "second")
    # pipes
    wn.add_pipe("Popen", "R1", "J1", length=100.0, diameter=0.3, roughness=100.0, minor_loss=2.0)
    wn.add_pipe("Pclosed", "J1", "J2", length=120.0, diameter=0.2, roughness=90.0, initial_status="CLOSED")
    wn.add_pipe("Pcv", "J1", "J2", length=80.0, diameter=0.25, roughness=110.0, check_valve=True)        # parallel to Pclosed
    wn.add_pipe("Pback", "J2", "J1", length=90.0, diameter=0.15, roughness=120.0)                         # anti-parallel
    wn.add_pipe("Pcvc", "J2", "J3", length=70.0, diameter=0.2, roughness=100.0, check_valve=True)         # CV closed by the simulator
    wn.add_pipe("Ptank", "T1", "J3", length=60.0, diameter=0.3, roughness=100.0)                         # start node is a tank
    wn.add_pipe("Pintank", "J4", "T1", length=65.0, diameter=0.3, roughness=100.0, minor_loss=1.0)        # end node is a tank
    wn.add_pipe("Piso", "J3", "J4", length=50.0, diameter=0.2, roughness=100.0)                          # isolated flag set below
    wn.add_pipe("Pres", "J4", "R2", length=500.0, diameter=0.2, roughness=100.0)                         # end node is a reservoir
    # head pumps: 1-point (C = 2), 2-point (C = 1), 3-point concave (C > 1) and convex (C < 1), closed, out of the tank
    wn.add_curve("C1", "HEAD", [(0.05, 30.0)])
    wn.add_curve("C2", "HEAD", [(0.0, 40.0), (0.1, 20.0)])
    wn.add_curve("C3", "HEAD", [(0.0, 40.0), (0.05, 36.0), (0.1, 20.0)])
    wn.add_curve("C3b", "HEAD", [(0.0, 40.0), (0.05, 30.0), (0.1, 24.0)])
    wn.add_pump("PU1", "R1", "J5", "HEAD", "C1")
    wn.add_pump("PU2", "R1", "J5", "HEAD", "C2")
    wn.add_pump("PU3", "J5", "J6", "HEAD", "C3")
    wn.add_pump("PU3b", "J5", "J6", "HEAD", "C3b")
    wn.add_pump("PUclosed", "J5", "J6", "HEAD", "C1", initial_status="CLOSED")
    wn.add_pump("PUtank", "T1", "J7", "HEAD", "C2")
    # power pumps
    wn.add_pump("PW", "J6", "J7", "POWER", 5000.0)
    wn.add_pump("PWclosed", "J6", "J7", "POWER", 4000.0, initial_status="CLOSED")
    wn.add_pump("PWres", "R2", "J7", "POWER", 3000.0)
    # valves: each type active / open / closed
    k = 7
    for vt, setting in (("PRV", 20.0), ("PSV", 25.0), ("FCV", 0.01), ("TCV", 50.0)):
        a, b = "J%d" % k, "J%d" % (k + 1)
        for st in ("ACTIVE", "OPEN", "CLOSED"):
            wn.add_valve("%s_%s" % (vt, st.lower()), a, b, diameter=0.2, valve_type=vt, minor_loss=1.5, initial_setting=setting, initial_status=st)
        k += 1
    wn.add_valve("TCVtank", "T1", "J12", diameter=0.25, valve_type="TCV", minor_loss=0.5, initial_setting=10.0, initial_status="ACTIVE")
    wn.add_pipe("Ptail", "J11", "J12", length=40.0, diameter=0.2, roughness=100.0)
    # statuses the simulator would set
    wn.get_link("Pcvc")._internal_status = LinkStatus.Closed
    wn.get_link("PUclosed")._user_status = LinkStatus.Closed      # add_pump stores initial_status only
    wn.get_link("PWclosed")._internal_status = LinkStatus.Closed  # closed by the simulator
    wn.get_link("Piso")._is_isolated = True
    for vt in ("PRV", "PSV", "FCV", "TCV"):
        v = wn.get_link("%s_active" % vt)
        v._user_status = LinkStatus.Active
        v._internal_status = LinkStatus.Active
        # add_valve stores initial_status only; reset_initial_values() copies it into _user_status
        wn.get_link("%s_open" % vt)._user_status = LinkStatus.Open
        wn.get_link("%s_closed" % vt)._user_status = LinkStatus.Closed
    # a valve whose user status is Active but which the simulator opened / closed
    wn.add_valve("PRV_intopen", "J11", "J12", diameter=0.2, valve_type="PRV", minor_loss=1.5, initial_setting=15.0, initial_status="ACTIVE")
    wn.get_link("PRV_intopen")._internal_status = LinkStatus.Open
    wn.add_valve("PSV_intclosed", "J11", "J12", diameter=0.2, valve_type="PSV", minor_loss=1.5, initial_setting=15.0, initial_status="ACTIVE")
    wn.get_link("PSV_intclosed")._internal_status = LinkStatus.Closed
    # leaks: active on J2 and on the tank, defined but inactive on J5
    wn.get_node("J2").add_leak(wn, area=1e-4, start_time=0)
    wn.get_node("J2")._leak_status = True
    wn.get_node("T1").add_leak(wn, area=2e-4, start_time=0)
    wn.get_node("T1")._leak_status = True
    wn.get_node("J5").add_leak(wn, area=1e-4, start_time=None)
    # names colliding ACROSS element kinds: water-quality sources named like a link that touches their node (their usage records sit in
    # the same per-node list `get_links_for_node` reads) and like the node itself; a pattern / curve named like a link / node
    wn.add_source("Popen", "J1", "CONCEN", 1.0)
    wn.add_source("Pback", "J2", "CONCEN", 1.0)
    wn.add_source("Ptank", "T1", "CONCEN", 1.0)
    wn.add_source("Pintank", "J4", "CONCEN", 1.0)
    wn.add_source("J3", "J3", "CONCEN", 1.0)
    wn.add_pattern("Pcv", [1.0, 2.0])
    wn.add_curve("J4", "HEAD", [(0.01, 10.0)])
    return wn


KIND = {"Pipe": "pipe", "HEAD": "headPump", "POWER": "powerPump", "PRV": "prv", "PSV": "psv", "FCV": "fcv", "TCV": "tcv"}
CONDICTS = {
    "pipe": ("approx_hazen_williams_headloss", "piecewise_hazen_williams_headloss"),
    "headPump": ("head_pump_headloss",), "powerPump": ("power_pump_headloss",),
    "prv": ("prv_headloss",), "psv": ("psv_headloss",), "fcv": ("fcv_headloss",), "tcv": ("tcv_headloss",),
}


def link_kind(link):
    if link.link_type == "Pipe":
        return "pipe"
    if link.link_type == "Pump":
        return KIND[link.pump_type]
    return KIND[link.valve_type]


def lean_str(s):
    return '"' + s.replace("\\", "\\\\").replace('"', '\\"') + '"'


def rat(x):
    return amldump.lean_rat(Fraction(x))


def _names(trees):
    vs, ps = [], []
    for t in trees:
        for tag, nm in amldump.leaves(t):
            (vs if tag == "var" else ps).append(nm) if nm not in (vs if tag == "var" else ps) else None
    return vs, ps


def _con_tree(con):
    e = con.expr if hasattr(con, "expr") else con
    return amldump.expr_tree(e)


def model_rows(wntr, wn, approx):
    """(mass-balance rows, link rows, model) of the real aml model"""
    m, upd = wntr.sim.hydraulics.create_hydraulic_model(wn, HW_approx=approx)
    mode = wn.options.hydraulic.demand_model
    mb = getattr(m, "mass_balance" if mode in ("DD", "DDA") else "pdd_mass_balance")
    mbrows = []
    for jn in wn.junction_name_list:
        if jn in mb:
            mbrows.append((jn, _con_tree(mb[jn])))
    lrows = []
    for ln, link in wn.links():
        kind = link_kind(link)
        names = CONDICTS[kind]
        cd = None
        for nm in names:
            if hasattr(m, nm) and ln in getattr(m, nm):
                cd = getattr(m, nm)
        if cd is None:
            raise BrokenTie("no constraint row for link %s of kind %s" % (ln, kind))
        lrows.append((ln, _con_tree(cd[ln])))
    return mbrows, lrows, m


def zoo_constraints(wntr, mode, approx):
    """(wn, m, {junction: mass-balance constraint}, {link: head-flow constraint}) of the zoo -- the very objects the
    generated rows were printed from (used by the random-point agreement of `con.evaluate()` with the Lean `eval`)"""
    wn = build_zoo(wntr, mode)
    m, upd = wntr.sim.hydraulics.create_hydraulic_model(wn, HW_approx=approx)
    mb = getattr(m, "mass_balance" if mode in ("DD", "DDA") else "pdd_mass_balance")
    mbc = {jn: mb[jn] for jn in wn.junction_name_list if jn in mb}
    lc = {}
    for ln, link in wn.links():
        for nm in CONDICTS[link_kind(link)]:
            if hasattr(m, nm) and ln in getattr(m, nm):
                lc[ln] = getattr(m, nm)[ln]
    return wn, m, mbc, lc


# ----------------------------------------------------------------------------- symbolic numbers


class SymF(float):
    """a float that remembers how it was computed (tree in amldump format); comparisons use the carried value"""

    def __new__(cls, value, tree):
        o = float.__new__(cls, value)
        o.tree = tree
        return o

    @staticmethod
    def leaf(name, value):
        return SymF(value, ("param", name))

    @staticmethod
    def _t(x):
        if isinstance(x, SymF):
            return x.tree
        if isinstance(x, (int, float)) and not isinstance(x, bool):
            return ("const", Fraction(x))
        raise BrokenTie("symbolic trace: operand of type %s" % type(x).__name__)

    def _bin(self, other, op, fn, swap=False):
        a, b = (other, self) if swap else (self, other)
        return SymF(fn(float(a), float(b)), ("bin", op, SymF._t(a), SymF._t(b)))

    def __add__(self, o): return self._bin(o, "add", lambda a, b: a + b)
    def __radd__(self, o): return self._bin(o, "add", lambda a, b: a + b, True)
    def __sub__(self, o): return self._bin(o, "sub", lambda a, b: a - b)
    def __rsub__(self, o): return self._bin(o, "sub", lambda a, b: a - b, True)
    def __mul__(self, o): return self._bin(o, "mul", lambda a, b: a * b)
    def __rmul__(self, o): return self._bin(o, "mul", lambda a, b: a * b, True)
    def __truediv__(self, o): return self._bin(o, "div", lambda a, b: a / b)
    def __rtruediv__(self, o): return self._bin(o, "div", lambda a, b: a / b, True)
    def __pow__(self, o): return self._bin(o, "pow", lambda a, b: a ** b)
    def __rpow__(self, o): return self._bin(o, "pow", lambda a, b: a ** b, True)
    def __neg__(self): return SymF(-float(self), ("un", "neg", self.tree))
    def __abs__(self): return SymF(abs(float(self)), ("un", "abs", self.tree))


def tree_of(x):
    return SymF._t(x)


class _FakeLink:
    """a link whose attributes are symbolic numbers; every attribute READ is recorded (so that a parameter computed from
    `initial_setting` instead of the current `setting` is seen)"""

    def __init__(self, **kw):
        self.__dict__["_vals"] = dict(kw)
        self.__dict__["reads"] = []
        self.__dict__["name"] = "L"

    def __getattr__(self, nm):
        if nm.startswith("__"):
            raise AttributeError(nm)
        if nm not in self.reads:
            self.reads.append(nm)
        if nm in self._vals:
            return self._vals[nm]
        return SymF.leaf(nm, 1.5)  # an attribute the documented formula does not use


class _FakeWn:
    def __init__(self, links):
        self._l = links
        self.pipe_name_list = list(links)
        self.valve_name_list = list(links)
        self.tcv_name_list = list(links)

        self.power_pump_name_list = list(links)

    def get_link(self, n):
        return self._l[n]


class _NoUpdater:
    def add(self, *a, **k):
        pass


def trace_param_reads(wntr):
    """{parameter Definition class: sorted link attributes its build() READS} for the link parameters of the rows"""
    from wntr.sim import aml
    from wntr.sim.models import param, constants

    out = {}
    for cls in ("hw_resistance_param", "minor_loss_param", "tcv_resistance_param", "pump_power_param", "valve_setting_param"):
        m = aml.Model()
        constants.hazen_williams_constants(m)
        link = _FakeLink(roughness=SymF.leaf("roughness", 100.0), diameter=SymF.leaf("diameter", 0.3), length=SymF.leaf("length", 200.0),
                         minor_loss=SymF.leaf("minor_loss", 2.0), setting=SymF.leaf("setting", 3.0), power=SymF.leaf("power", 1000.0))
        getattr(param, cls).build(m, _FakeWn({"L": link}), _NoUpdater())
        out[cls] = sorted(a for a in link.reads if a != "name")
    return out


def trace_param_formulas(wntr):
    """hw_resistance / minor_loss / tcv_resistance as param.py computes them, on symbolic attributes"""
    from wntr.sim import aml
    from wntr.sim.models import param, constants

    m = aml.Model()
    constants.hazen_williams_constants(m)
    out = {}
    ln = "L"
    link = _FakeLink(roughness=SymF.leaf("roughness", 100.0), diameter=SymF.leaf("diameter", 0.3), length=SymF.leaf("length", 200.0),
                     minor_loss=SymF.leaf("minor_loss", 2.0), setting=SymF.leaf("setting", 3.0))
    wn = _FakeWn({ln: link})
    param.hw_resistance_param.build(m, wn, _NoUpdater())
    param.minor_loss_param.build(m, wn, _NoUpdater())
    param.tcv_resistance_param.build(m, wn, _NoUpdater())
    for nm in ("hw_resistance", "minor_loss", "tcv_resistance"):
        v = getattr(m, nm)[ln].value
        if not isinstance(v, SymF):
            raise BrokenTie("param %s is not computed from the link attributes by arithmetic (got %r)" % (nm, type(v).__name__))
        out[nm] = v.tree
    return out


class _FakeCurve:
    def __init__(self, pts):
        self.points = pts
        self.num_points = len(pts)


def trace_pump_fits(wntr):
    """(A, B, C) of 1- and 2-point curves as HeadPump.get_head_curve_coefficients computes them"""
    wn = wntr.network.WaterNetworkModel()
    wn.add_junction("a")
    wn.add_junction("b")
    wn.add_curve("c", "HEAD", [(0.05, 30.0)])
    wn.add_pump("p", "a", "b", "HEAD", "c")
    out = {}
    for npts in (1, 2):
        pump = wn.get_link("p")
        pump._curve_coeffs = None
        pts = [(SymF.leaf("Q%d" % i, 0.02 + 0.05 * i), SymF.leaf("H%d" % i, 40.0 - 11.0 * i)) for i in range(npts)]
        pump.get_pump_curve = lambda pts=pts: _FakeCurve(pts)
        A, B, C = pump.get_head_curve_coefficients()
        out[npts] = (tree_of(A), tree_of(B), tree_of(C))
    return out


# ----------------------------------------------------------------------------- constants


class _Bag:
    pass


def read_constants(wntr):
    from wntr.sim.models import constants
    from wntr.network import controls as C
    import wntr.sim.core as core

    b = _Bag()
    constants.hazen_williams_constants(b)
    constants.head_pump_constants(b)
    hw = dict(hwK=b.hw_k, hwExp=b.hw_exp, minorExp=b.hw_minor_exp, q1=b.hw_q1, q2=b.hw_q2, m=b.hw_m, a=b.hw_a, b=b.hw_b, c=b.hw_c, d=b.hw_d)
    pc = dict(q1=b.pump_q1, q2=b.pump_q2, slope=b.pump_slope)
    f2 = b.hw_q2 ** b.hw_exp
    df2 = b.hw_exp * b.hw_q2 ** (b.hw_exp - 1)
    tol = dict(
        cvHtol=C._CloseCVCondition.Htol, cvQtol=C._CloseCVCondition.Qtol,
        pumpHtol=C._CloseHeadPumpCondition._Htol,
        powerHtol=C._ClosePowerPumpCondition.Htol, powerHmax=C._ClosePowerPumpCondition.Hmax,
    )
    from wntr.sim.solvers import NewtonSolver

    tol["newtonTol"] = NewtonSolver().tol
    return hw, pc, dict(f2=f2, df2=df2), tol


def _find(tree, pred):
    """first sub-tree (pre-order) satisfying pred"""
    if pred(tree):
        return tree
    tag = tree[0]
    kids = []
    if tag == "bin":
        kids = [tree[2], tree[3]]
    elif tag == "un":
        kids = [tree[2]]
    elif tag == "ifElse":
        kids = list(tree[1:])
    elif tag == "ineq":
        kids = [tree[1]]
    for k in kids:
        r = _find(k, pred)
        if r is not None:
            return r
    return None


def read_row_literals(lrows_default, wn):
    """the Python float literals written inside constraint.py itself, read off the rows the code built:
    `eps` and the exponent of `k**0.5` in the default Hazen-Williams row, `9.81 * 1000.0` in the power-pump row"""
    eps = half = gamma = None
    for ln, t in lrows_default:
        link = wn.get_link(ln)
        if link.link_type == "Pipe" and eps is None:
            hit = _find(t, lambda x: x[0] == "bin" and x[1] == "mul" and x[2][0] == "const" and x[3][0] == "bin" and x[3][1] == "pow"
                        and x[3][2] == ("param", "hw_resistance[%s]" % ln) and x[3][3][0] == "const")
            if hit is not None:
                eps, half = hit[2][1], hit[3][3][1]
        if link.link_type == "Pump" and link.pump_type == "POWER" and gamma is None:
            hit = _find(t, lambda x: x[0] == "bin" and x[1] == "mul" and x[3][0] == "const" and x[2][0] == "bin" and x[2][1] == "mul")
            if hit is not None:
                gamma = hit[3][1]
    if eps is None or gamma is None:
        raise BrokenTie("cannot read the literals eps / k**0.5 / 9.81*1000.0 off the default Hazen-Williams and power-pump rows")
    return dict(eps=eps, half=half, gammaW=gamma)


# ----------------------------------------------------------------------------- Lean text


def _index(trees):
    vs, ps = [], []
    for t in trees:
        for tag, nm in amldump.leaves(t):
            lst = vs if tag == "var" else ps
            if nm not in lst:
                lst.append(nm)
    idx = {}
    for i, n in enumerate(vs):
        idx[("var", n)] = i
    for i, n in enumerate(ps):
        idx[("param", n)] = i
    return vs, ps, idx


def _strlist(l):
    return "[" + ", ".join(lean_str(x) for x in l) + "]"


def read_links_for_node_filter():
    """ast of WaterNetworkModel.get_links_for_node: the literal set of usage TYPE strings that count as links, how many iterations over the
    node's usage records there are and how many of them test the record's type against that set"""
    import ast
    import inspect
    import textwrap
    from wntr.network.model import WaterNetworkModel

    tree = ast.parse(textwrap.dedent(inspect.getsource(WaterNetworkModel.get_links_for_node)))
    types, setname = [], None
    for n in ast.walk(tree):
        if isinstance(n, ast.Assign) and isinstance(n.value, ast.Set) and all(isinstance(e, ast.Constant) and isinstance(e.value, str) for e in n.value.elts):
            types = sorted(e.value for e in n.value.elts)
            setname = n.targets[0].id if isinstance(n.targets[0], ast.Name) else None

    def tests_type(nodes):
        for c in nodes:
            for x in ast.walk(c):
                if isinstance(x, ast.Compare) and any(isinstance(op, ast.In) for op in x.ops):
                    for comp in x.comparators:
                        if (isinstance(comp, ast.Name) and comp.id == setname) or isinstance(comp, ast.Set):
                            return True
        return False

    branches = filtered = 0
    for n in ast.walk(tree):
        if isinstance(n, ast.ListComp):
            for g in n.generators:
                if isinstance(g.iter, ast.Name) and g.iter.id == "link_data":
                    branches += 1
                    filtered += 1 if tests_type(g.ifs) else 0
        elif isinstance(n, ast.For) and isinstance(n.iter, ast.Name) and n.iter.id == "link_data":
            branches += 1
            filtered += 1 if tests_type(n.body) else 0
    return dict(types=types, branches=branches, filtered=filtered)


def gen_c01(wntr):
    out = [
        "-- GENERATED by harness/translate/rows_c01c02.py (runtime reflection of create_hydraulic_model on the zoo network). Do not edit.",
        "import WntrModel.Model.LinkRows",
        "namespace Wntr.Gen.RowsC01",
        "open Wntr.Aml Wntr.LinkRows",
        "",
    ]
    info = {}
    for mode in ("DD", "PDD"):
        wn = build_zoo(wntr, mode)
        mbrows, _, m = model_rows(wntr, wn, "default")
        vs, ps, idx = _index([t for _, t in mbrows])
        if mode == "DD":
            out.append("/-- the link table of the zoo: (name, start_node_name, end_node_name) of every link object -/")
            out.append("def links : List ZLink := [")
            out.append(",\n".join("  ⟨%s, %s, %s⟩" % (lean_str(n), lean_str(l.start_node_name), lean_str(l.end_node_name)) for n, l in wn.links()))
            out.append("]")
            out.append("")
        out.append("namespace %s" % mode)
        out.append("def varNames : List String := " + _strlist(vs))
        out.append("def paramNames : List String := " + _strlist(ps))
        out.append("def rows : List ZBalRow := [")
        ents = []
        for jn, t in mbrows:
            ents.append("  { junction := %s, leakStatus := %s,\n    expr := %s }" % (lean_str(jn), str(bool(wn.get_node(jn).leak_status)).lower(), amldump.tree_to_lean(t, idx)))
        out.append(",\n".join(ents))
        out.append("]")
        out.append("end %s" % mode)
        out.append("")
        info[mode] = dict(rows=len(mbrows), vars=len(vs), params=len(ps), names=dict(vars=vs, params=ps, rows=[jn for jn, _ in mbrows]))
    lf = read_links_for_node_filter()
    out.append("/-- `WaterNetworkModel.get_links_for_node` (ast): usage TYPE strings that count as links; iterations over the node's usage records;")
    out.append("how many of them filter the record by its type string (a source / control named like a link must not be taken for the link) -/")
    out.append("def linksForNodeTypes : List String := " + _strlist(lf["types"]))
    out.append("def linksForNodeBranches : Nat := %d" % lf["branches"])
    out.append("def linksForNodeFilteredBranches : Nat := %d" % lf["filtered"])
    out.append("")
    info["links_for_node"] = lf
    out.append("end Wntr.Gen.RowsC01")
    return "\n".join(out) + "\n", info


def _pump_coef(wntr, link, m):
    from wntr.sim.models import constraint

    A, B, C = link.get_head_curve_coefficients()
    z = Fraction(0)
    if C <= 1:
        a, b, c, d = constraint.get_pump_poly_coefficients(A, B, C, m)
        return (A, B, C, a, b, c, d, z, z)
    qb, hb = constraint.get_pump_line_params(A, B, C, m)
    return (A, B, C, z, z, z, z, qb, hb)


def gen_c02(wntr):
    from wntr.network import LinkStatus

    hw, pc, spl, tol = read_constants(wntr)
    out = [
        "-- GENERATED by harness/translate/rows_c01c02.py (runtime reflection of create_hydraulic_model on the zoo network,",
        "-- constants.py / controls.py values, param.py and pump-fit formulas traced on symbolic numbers). Do not edit.",
        "import WntrModel.Model.LinkRows",
        "namespace Wntr.Gen.RowsC02",
        "open Wntr.Aml Wntr.LinkRows",
        "",
        "/-- `hazen_williams_constants(m)` -/",
        "def hw : HWConsts := { " + ", ".join("%s := %s" % (k, rat(v)) for k, v in hw.items()) + " }",
        "/-- `head_pump_constants(m)` -/",
        "def pc : PumpConsts := { " + ", ".join("%s := %s" % (k, rat(v)) for k, v in pc.items()) + " }",
        "/-- the floats `hw_q2 ** hw_exp` and `hw_exp * hw_q2 ** (hw_exp - 1)` the spline constants are computed from -/",
        "def hwF2 : Rat := " + rat(spl["f2"]),
        "def hwDf2 : Rat := " + rat(spl["df2"]),
    ]
    for k, v in tol.items():
        out.append("def %s : Rat := %s" % (k, rat(v)))
    out.append("")
    info = {}
    znames = {}
    lit = None
    stmap = {int(LinkStatus.Closed): ".closed", int(LinkStatus.Open): ".opened", int(LinkStatus.Active): ".active"}
    for approx in ("default", "piecewise"):
        wn = build_zoo(wntr, "DD" if approx == "default" else "PDD")
        _, lrows, m = model_rows(wntr, wn, approx)
        vs, ps, idx = _index([t for _, t in lrows])
        ns = approx.capitalize()
        znames[approx] = dict(vars=vs, params=ps, rows=[ln for ln, _ in lrows])
        if approx == "default":
            lit = read_row_literals(lrows, wn)
            out.append("/-- float literals written inside constraint.py (read off the default Hazen-Williams and power-pump rows) -/")
            out.append("def lit : RowLits := { " + ", ".join("%s := %s" % (k, rat(v)) for k, v in lit.items()) + " }")
            out.append("")
        out.append("namespace %s" % ns)
        out.append("def varNames : List String := " + _strlist(vs))
        out.append("def paramNames : List String := " + _strlist(ps))
        out.append("def rows : List ZLinkRow := [")
        ents = []
        hist = {}
        for ln, t in lrows:
            link = wn.get_link(ln)
            kind = link_kind(link)
            st = int(link.status)
            if st not in stmap:
                raise BrokenTie("link %s has status %r" % (ln, link.status))
            if kind == "headPump" and st != 0:
                co = _pump_coef(wntr, link, m)
            else:
                co = (Fraction(0),) * 9
            pcs = "{ " + ", ".join("%s := %s" % (k, rat(v)) for k, v in zip(("A", "B", "C", "a", "b", "c", "d", "qbar", "hbar"), co)) + " }"
            sn, en = wn.get_node(link.start_node_name), wn.get_node(link.end_node_name)
            ents.append(
                "  { name := %s, kind := .%s, status := %s, isolated := %s, start := %s, stop := %s,\n"
                "    startIsJunction := %s, stopIsJunction := %s,\n    pump := %s,\n    expr := %s }"
                % (lean_str(ln), kind, stmap[st], str(bool(link._is_isolated)).lower(), lean_str(link.start_node_name), lean_str(link.end_node_name),
                   str(sn.node_type == "Junction").lower(), str(en.node_type == "Junction").lower(), pcs, amldump.tree_to_lean(t, idx))
            )
            key = "%s/%s%s" % (kind, stmap[st][1:], "/isolated" if link._is_isolated else "")
            hist[key] = hist.get(key, 0) + 1
        out.append(",\n".join(ents))
        out.append("]")
        out.append("end %s" % ns)
        out.append("")
        info[approx] = hist
    # parameter formulas
    pf = trace_param_formulas(wntr)
    # which link attribute each formula may read (leaf 0 is K: the minor-loss coefficient, resp. the TCV setting)
    order = {"hw_resistance": ["roughness", "diameter", "length"], "minor_loss": ["minor_loss", "diameter"], "tcv_resistance": ["setting", "diameter"]}
    for nm, t in pf.items():
        idx = {("param", n): i for i, n in enumerate(order[nm])}
        for tag, leaf in amldump.leaves(t):
            if (tag, leaf) not in idx:
                raise BrokenTie("parameter formula %s reads unexpected attribute %s" % (nm, leaf))
        lean_name = {"hw_resistance": "hwResistanceFormula", "minor_loss": "minorLossFormula", "tcv_resistance": "tcvResistanceFormula"}[nm]
        out.append("/-- `param.%s_param`: value computed from the link attributes %s (leaves `param 0..`) -/" % (nm, ", ".join(order[nm])))
        out.append("def %s : Expr := %s" % (lean_name, amldump.tree_to_lean(t, idx)))
    # pump fits
    fits = trace_pump_fits(wntr)
    for npts, (A, B, C) in fits.items():
        names = []
        for i in range(npts):
            names += ["Q%d" % i, "H%d" % i]
        idx = {("param", n): i for i, n in enumerate(names)}
        for lab, t in (("A", A), ("B", B), ("C", C)):
            out.append("/-- `get_head_curve_coefficients`, %d-point curve, coefficient %s; leaves %s -/" % (npts, lab, ", ".join("%s = param %d" % (n, i) for i, n in enumerate(names))))
            out.append("def fit%d%s : Expr := %s" % (npts, lab, amldump.tree_to_lean(t, idx)))
    out.append("")
    out.append("end Wntr.Gen.RowsC02")
    return "\n".join(out) + "\n", dict(hist=info, hw=hw, pc=pc, tol=tol, spl=spl, names=znames, lit=lit)


def read_resolve_reference_point(wntr):
    """ast of WNTRSimulator.run_sim: (i) the `ref_point` of the `changes_made` test that follows `_run_postsolve_controls()` (the re-solve
    decision), (ii) the extra arguments of the `set_reference_point` calls for that key and for 'model' (an `attrs` filter)"""
    import ast
    import inspect
    import textwrap
    import wntr.sim.core as core

    tree = ast.parse(textwrap.dedent(inspect.getsource(core.WNTRSimulator.run_sim)))

    def call_name(c):
        return c.func.attr if isinstance(c.func, ast.Attribute) else getattr(c.func, "id", None)

    post_line, key = None, None
    for n in ast.walk(tree):
        if isinstance(n, ast.Call) and call_name(n) == "_run_postsolve_controls":
            post_line = n.lineno if post_line is None else min(post_line, n.lineno)
    if post_line is None:
        raise BrokenTie("run_sim no longer calls _run_postsolve_controls")
    best = None
    for n in ast.walk(tree):
        if isinstance(n, ast.If) and n.lineno > post_line:
            for c in ast.walk(n.test):
                if isinstance(c, ast.Call) and call_name(c) == "changes_made":
                    args = [a for a in c.args] + [k.value for k in c.keywords if k.arg == "ref_point"]
                    if args and isinstance(args[0], ast.Constant) and (best is None or n.lineno < best[0]):
                        best = (n.lineno, args[0].value)
    if best is None:
        raise BrokenTie("run_sim: no `changes_made(ref_point=...)` test after the post-solve controls")
    key = best[1]

    def filt(k):
        res = "none"
        for n in ast.walk(tree):
            if isinstance(n, ast.Call) and call_name(n) == "set_reference_point" and n.args and isinstance(n.args[0], ast.Constant) and n.args[0].value == k:
                extra = list(n.args[1:]) + [kw.value for kw in n.keywords]
                if extra:
                    try:
                        vals = [str(x) for x in ast.literal_eval(extra[0])]
                    except Exception:
                        vals = ["<non-literal>"]
                    res = "(some %s)" % _strlist(vals)
        return res

    return dict(key=key, filter_lean=filt(key), model_filter_lean=filt("model"))


def read_curve_memo_facts(wntr):
    """ast facts about the coefficient memo of HeadPump.get_head_curve_coefficients: is the stored key `_coeffs_curve_points` a COPY of
    curve.points or the list itself; does the Curve.points setter REBIND `self._points` (first touch is `self._points = ...`) or mutate it"""
    import ast
    import inspect
    import textwrap
    from wntr.network import elements as E

    def parse(fn):
        return ast.parse(textwrap.dedent(inspect.getsource(fn)))

    key_copy = None
    for n in ast.walk(parse(E.HeadPump.get_head_curve_coefficients)):
        if isinstance(n, ast.Assign) and any(isinstance(t, ast.Attribute) and t.attr == "_coeffs_curve_points" for t in n.targets):
            v = n.value
            if isinstance(v, ast.Call):
                fn = v.func.attr if isinstance(v.func, ast.Attribute) else getattr(v.func, "id", "")
                key_copy = fn in ("deepcopy", "copy", "list", "tuple")
            elif isinstance(v, (ast.List, ast.Tuple, ast.ListComp)):
                key_copy = True
            elif isinstance(v, ast.Subscript) and isinstance(v.slice, ast.Slice):
                key_copy = True
            else:
                key_copy = False
    if key_copy is None:
        raise BrokenTie("get_head_curve_coefficients no longer stores `_coeffs_curve_points`")
    fset = E.Curve.points.fset
    rebinds = None
    body = parse(fset).body[0].body
    for st in body:
        touched = [n for n in ast.walk(st) if isinstance(n, ast.Attribute) and n.attr == "_points"]
        if not touched:
            continue
        rebinds = isinstance(st, ast.Assign) and len(st.targets) == 1 and isinstance(st.targets[0], ast.Attribute) and st.targets[0].attr == "_points"
        break
    if rebinds is None:
        raise BrokenTie("Curve.points setter does not touch self._points")
    return dict(key_is_copy=bool(key_copy), setter_rebinds=bool(rebinds))


def gen_updater(wntr):
    """which (attribute -> Definition class) pairs `create_hydraulic_model` REALLY registers with the ModelUpdater for every
    link / junction / tank of the zoo (recorded at run time from `model_updater.update_functions`, so a registration moved
    into a helper is still seen and a dropped one is missed) -> Gen/UpdaterC02.lean"""
    out = [
        "-- GENERATED by harness/translate/rows_c01c02.py (ModelUpdater registrations recorded while create_hydraulic_model builds the zoo). Do not edit.",
        "import WntrModel.Model.LinkRows",
        "namespace Wntr.Gen.UpdaterC02",
        "open Wntr.LinkRows",
        "",
    ]
    info = {}
    for mode, approx in (("DD", "default"), ("PDD", "piecewise")):
        wn = build_zoo(wntr, mode)
        m, upd = wntr.sim.hydraulics.create_hydraulic_model(wn, HW_approx=approx)
        regs = {}
        for (obj, attr), funcs in upd.update_functions.items():
            for f in funcs:
                cls = getattr(getattr(f, "__self__", None), "__name__", None)
                if cls is None:
                    raise BrokenTie("ModelUpdater holds an update function that is not a Definition classmethod: %r" % (f,))
                regs.setdefault(obj.name, []).append((attr, cls))
        ns = mode
        out.append("namespace %s" % ns)
        out.append("/-- (link name, kind, registered (attribute, Definition class) pairs) -/")
        out.append("def linkRegs : List (String × LinkKind × List (String × String)) := [")
        ents = []
        for ln, link in wn.links():
            pairs = ", ".join("(%s, %s)" % (lean_str(a), lean_str(c)) for a, c in sorted(set(regs.get(ln, []))))
            ents.append("  (%s, .%s, [%s])" % (lean_str(ln), link_kind(link), pairs))
        out.append(",\n".join(ents))
        out.append("]")
        for nm, it in (("junctionRegs", wn.junction_name_list), ("tankRegs", wn.tank_name_list)):
            out.append("def %s : List (String × List (String × String)) := [" % nm)
            out.append(",\n".join("  (%s, [%s])" % (lean_str(n), ", ".join("(%s, %s)" % (lean_str(a), lean_str(c)) for a, c in sorted(set(regs.get(n, [])))))
                                  for n in it))
            out.append("]")
        out.append("end %s" % ns)
        out.append("")
        info[mode] = sum(len(v) for v in regs.values())
    rs = read_resolve_reference_point(wntr)
    out.append("/-- `WNTRSimulator.run_sim` (ast): the reference point whose `changes_made` decides, after the post-solve controls, whether the step is solved")
    out.append("again; how many `attrs` filters the `set_reference_point` calls of that key and of 'model' carry (`none` = every registered target is followed) -/")
    out.append("def resolveRefPoint : String := %s" % lean_str(rs["key"]))
    out.append("def resolveRefPointFilter : Option (List String) := %s" % rs["filter_lean"])
    out.append("def modelRefPointFilter : Option (List String) := %s" % rs["model_filter_lean"])
    out.append("")
    info["resolve"] = rs
    mf = read_curve_memo_facts(wntr)
    out.append("/-- the coefficient memo of `HeadPump.get_head_curve_coefficients` (ast): is the stored key a COPY of `curve.points`; does the")
    out.append("`Curve.points` setter REBIND `self._points` (rather than mutate the list the key may alias) -/")
    out.append("def memoKeyIsCopy : Bool := %s" % str(mf["key_is_copy"]).lower())
    out.append("def curveSetterRebinds : Bool := %s" % str(mf["setter_rebinds"]).lower())
    out.append("")
    info["memo"] = mf
    reads = trace_param_reads(wntr)
    out.append("/-- which link attributes each parameter Definition's `build` READS (recorded on a link with symbolic attributes) -/")
    out.append("def paramReads : List (String × List String) := [")
    out.append(",\n".join("  (%s, [%s])" % (lean_str(c), ", ".join(lean_str(a) for a in v)) for c, v in reads.items()))
    out.append("]")
    out.append("")
    out.append("end Wntr.Gen.UpdaterC02")
    info["param_reads"] = reads
    return "\n".join(out) + "\n", info


def write_updater(wntr):
    t, i = gen_updater(wntr)
    vlib.write_if_changed(os.path.join(vlib.GEN, "UpdaterC02.lean"), t)
    return i


class _Val:
    def __init__(self, v):
        self.value = v


class _SymDict(dict):
    """m.flow / m.head / ...: every entry a symbolic number named `<dict>[<key>]`"""

    def __init__(self, name):
        super().__init__()
        self._name = name

    def __missing__(self, key):
        v = _Val(SymF.leaf("%s[%s]" % (self._name, key), 1.0 + 0.01 * len(self)))
        self[key] = v
        return v


def build_store_net(wntr, mode):
    """a small REAL network for the symbolic execution of store_results_in_network: junctions (leak on / off / isolated with the leak
    still on), two tanks (leak on / off) and two reservoirs, links of every end-node combination incl. tank-tank and
    reservoir-reservoir, parallel links, an isolated link, a valve"""
    wn = wntr.network.WaterNetworkModel()
    wn.options.hydraulic.demand_model = mode
    for j in ("J", "Jn", "Jiso"):
        wn.add_junction(j, base_demand=0.001, elevation=1.0)
    wn.add_tank("T1", elevation=10.0, init_level=3.0, min_level=0.0, max_level=9.0, diameter=5.0)
    wn.add_tank("T2", elevation=12.0, init_level=3.0, min_level=0.0, max_level=9.0, diameter=5.0)
    wn.add_reservoir("R1", base_head=40.0)
    wn.add_reservoir("R2", base_head=30.0)
    for name, a, b in (("L1", "J", "T1"), ("L2", "T1", "T2"), ("L2b", "T1", "T2"), ("L2r", "T2", "T1"), ("L3", "T2", "J"), ("L4", "R1", "R2"),
                       ("L4r", "R2", "R1"), ("L5", "R1", "J"), ("L6", "T1", "R1"), ("L7", "Jn", "J"), ("Liso", "Jiso", "J"), ("LisoT", "Jiso", "T2")):
        wn.add_pipe(name, a, b)
    wn.add_valve("V", "J", "Jn", diameter=0.2, valve_type="TCV", minor_loss=1.0, initial_setting=5.0)
    wn.add_curve("c", "HEAD", [(0.05, 30.0)])
    wn.add_pump("PU", "T2", "T1", "HEAD", "c")
    wn.reset_initial_values()
    for n in ("J", "Jiso", "T1"):
        wn.get_node(n).add_leak(wn, area=1e-4, start_time=None)
        wn.get_node(n)._leak_status = True
    wn.get_node("Jiso")._is_isolated = True
    wn.get_link("Liso")._is_isolated = True
    wn.get_link("LisoT")._is_isolated = True
    return wn


def gen_store(wntr):
    """symbolic execution of the REAL wntr.sim.hydraulics.store_results_in_network on `build_store_net` with a model whose variable
    and parameter values are symbolic numbers -> Gen/StoreC01.lean (what every node's _demand / _leak_demand and every link's _flow
    are computed from)"""
    import types

    out = [
        "-- GENERATED by harness/translate/rows_c01c02.py (symbolic execution of store_results_in_network). Do not edit.",
        "import WntrModel.Model.LinkRows",
        "namespace Wntr.Gen.StoreC01",
        "open Wntr.Aml Wntr.LinkRows",
        "",
    ]
    info = {}
    for mode in ("DD", "PDD"):
        wn = build_store_net(wntr, mode)
        m = types.SimpleNamespace(flow=_SymDict("flow"), valve_setting=_SymDict("valve_setting"), head=_SymDict("head"), demand=_SymDict("demand"),
                                  expected_demand=_SymDict("expected_demand"), leak_rate=_SymDict("leak_rate"))
        wntr.sim.hydraulics.store_results_in_network(wn, m)
        trees = {}
        for n, nd in wn.nodes():
            trees[("d", n)] = tree_of(nd._demand)
            trees[("l", n)] = tree_of(nd._leak_demand)
        for ln, l in wn.links():
            trees[("f", ln)] = tree_of(l._flow)
        vs, ps, idx = _index(list(trees.values()))
        if mode == "DD":
            out.append("def links : List ZLink := [")
            out.append(",\n".join("  ⟨%s, %s, %s⟩" % (lean_str(n), lean_str(l.start_node_name), lean_str(l.end_node_name)) for n, l in wn.links()))
            out.append("]")
            out.append("def isolatedLinks : List String := " + _strlist([n for n, l in wn.links() if l._is_isolated]))
            out.append("")
        out.append("namespace %s" % mode)
        out.append("def leafNames : List String := " + _strlist(ps))
        out.append("def nodes : List ZStored := [")
        ents = []
        for n, nd in wn.nodes():
            kind = {"Junction": "junction", "Tank": "tank", "Reservoir": "reservoir"}[nd.node_type]
            ents.append("  { node := %s, kind := .%s, leakStatus := %s, isolated := %s,\n    demand := %s,\n    leakDemand := %s }"
                        % (lean_str(n), kind, str(bool(getattr(nd, "leak_status", False))).lower(), str(bool(getattr(nd, "_is_isolated", False))).lower(),
                           amldump.tree_to_lean(trees[("d", n)], idx), amldump.tree_to_lean(trees[("l", n)], idx)))
        out.append(",\n".join(ents))
        out.append("]")
        out.append("def flows : List (String × Expr) := [")
        out.append(",\n".join("  (%s, %s)" % (lean_str(ln), amldump.tree_to_lean(trees[("f", ln)], idx)) for ln, l in wn.links()))
        out.append("]")
        out.append("end %s" % mode)
        out.append("")
        info[mode] = len(ents)
    out.append("end Wntr.Gen.StoreC01")
    return "\n".join(out) + "\n", info


def write_store(wntr):
    t, i = gen_store(wntr)
    vlib.write_if_changed(os.path.join(vlib.GEN, "StoreC01.lean"), t)
    return i


def write_c01(wntr):
    t1, i1 = gen_c01(wntr)
    vlib.write_if_changed(os.path.join(vlib.GEN, "RowsC01.lean"), t1)
    return i1


def write_c02(wntr):
    t2, i2 = gen_c02(wntr)
    vlib.write_if_changed(os.path.join(vlib.GEN, "RowsC02.lean"), t2)
    return i2


def run(ctx=None):
    wntr = vlib.import_wntr()
    return write_c01(wntr), write_c02(wntr), write_updater(wntr), write_store(wntr)


if __name__ == "__main__":
    i1, i2, i3, i4 = run()
    print(i1)
    print(i2["hist"])
    print(i3)
