"""Translator for C07 / C08: regenerates lean/WntrModel/Gen/RowsC07.lean and Gen/RowsC08.lean from the CURRENT
wntr source, by

 (1) runtime reflection: build a small "zoo" network, call `create_hydraulic_model`, and print the constraint
     expressions the solver really solves (`m.pdd[j]`, `m.pdd_mass_balance[j]` / `m.mass_balance[j]`, `m.leak_con[n]`)
     as `Wntr.Aml.Expr` terms over indexed leaves (amldump);
 (2) symbolic execution: run `cubic_spline`, `pdd_poly_coeffs_param.build`, `leak_poly_coeffs_param.build` and the
     `constants.*_constants` functions on symbolic numbers and print what they compute as Lean functions over `Ops α`.

An edit of constraint.py / param.py / constants.py / polynomial_interpolation.py therefore changes the generated Lean
text and the theorems of Props/C07.lean, Props/C08.lean are re-checked against it.
"""
import itertools
import math
import os
import sys
import types
from fractions import Fraction

sys.path.insert(0, os.path.dirname(os.path.dirname(os.path.abspath(__file__))))
import vlib
from vlib import BrokenTie
from translate import amldump as A


# ----------------------------------------------------------------------------- symbolic numbers


class Sym:
    """symbolic real: records the arithmetic the traced code performs"""

    __array_ufunc__ = None
    __array_priority__ = 1e9

    def __init__(self, tree):
        self.tree = tree

    @staticmethod
    def leaf(name):
        return Sym(("leaf", name))

    @staticmethod
    def lift(x):
        if isinstance(x, Sym):
            return x
        if isinstance(x, bool) or not isinstance(x, (int, float)):
            try:
                import numpy as np

                if isinstance(x, (np.floating, np.integer)):
                    x = float(x)
                else:
                    raise TypeError
            except TypeError:
                raise BrokenTie("traced code combines a symbolic number with a %s" % type(x).__name__)
        x = float(x)
        if not math.isfinite(x):
            raise BrokenTie("non-finite constant in traced code")
        return Sym(("const", Fraction(x)))

    def _b(op, swap=False):
        def f(self, other):
            a, b = Sym.lift(self), Sym.lift(other)
            if swap:
                a, b = b, a
            return Sym(("bin", op, a, b))

        return f

    __add__ = _b("add")
    __radd__ = _b("add", True)
    __sub__ = _b("sub")
    __rsub__ = _b("sub", True)
    __mul__ = _b("mul")
    __rmul__ = _b("mul", True)
    __truediv__ = _b("div")
    __rtruediv__ = _b("div", True)
    __pow__ = _b("pow")
    __rpow__ = _b("pow", True)

    def __neg__(self):
        return Sym(("neg", self))

    def _bad(self, *a, **k):
        raise BrokenTie("traced code applies an unsupported operation (conversion) to a symbolic number")

    __float__ = __int__ = __bool__ = __abs__ = __floordiv__ = __mod__ = _bad
    __hash__ = object.__hash__

    # comparisons are decided by the path oracle (every outcome is explored by `explore`): `a <= b` is the atom, `a < b` is
    # `not (b <= a)` (the numbers are never NaN where these builds run)
    def __le__(self, other):
        return _decide(("le", Sym.lift(self), Sym.lift(other)))

    def __ge__(self, other):
        return _decide(("le", Sym.lift(other), Sym.lift(self)))

    def __lt__(self, other):
        return not _decide(("le", Sym.lift(other), Sym.lift(self)))

    def __gt__(self, other):
        return not _decide(("le", Sym.lift(self), Sym.lift(other)))


class _Oracle:
    def __init__(self, forced):
        self.forced = list(forced)
        self.trace = []

    def decide(self, cond):
        i = len(self.trace)
        out = self.forced[i] if i < len(self.forced) else True
        self.trace.append((cond, out))
        return out


_ORACLE = None


def _decide(cond):
    if _ORACLE is None:
        raise BrokenTie("traced code compares symbolic numbers outside a path exploration")
    return _ORACLE.decide(cond)


def explore(run, max_paths=16):
    """run() executes the traced code once under the current oracle and returns its result (or raises ValueError = the
    documented refusal).  All outcomes of all comparisons on symbolic numbers are explored; returns a decision tree
    ("leaf", result | None) | ("if", ("le", a, b), tree_true, tree_false)."""
    global _ORACLE
    paths = []
    todo = [[]]
    while todo:
        forced = todo.pop()
        if len(paths) >= max_paths:
            raise BrokenTie("more than %d paths through the traced build" % max_paths)
        _ORACLE = _Oracle(forced)
        try:
            try:
                res = run()
            except ValueError:
                res = None
            tr = list(_ORACLE.trace)
        finally:
            _ORACLE = None
        paths.append((tr, res))
        for i in range(len(forced), len(tr)):
            todo.append([o for _, o in tr[:i]] + [False])

    def build(prefix):
        here = [(tr, res) for tr, res in paths if [o for _, o in tr[: len(prefix)]] == prefix]
        if not here:
            raise BrokenTie("path exploration lost a branch")
        tr0 = here[0][0]
        if len(tr0) == len(prefix):
            return ("leaf", here[0][1])
        cond = tr0[len(prefix)][0]
        return ("if", cond, build(prefix + [True]), build(prefix + [False]))

    return build([])


def tree_map(tree, f_leaf, f_sym):
    if tree[0] == "leaf":
        return ("leaf", None if tree[1] is None else f_leaf(tree[1]))
    _, (op, a, b), t, e = tree
    return ("if", (op, f_sym(a), f_sym(b)), tree_map(t, f_leaf, f_sym), tree_map(e, f_leaf, f_sym))


def tree_key(tree, k_leaf):
    if tree[0] == "leaf":
        return ("leaf", None if tree[1] is None else k_leaf(tree[1]))
    _, (op, a, b), t, e = tree
    return ("if", op, sym_key(a), sym_key(b), tree_key(t, k_leaf), tree_key(e, k_leaf))


def tree_leaves(tree, acc):
    if tree[0] == "leaf":
        acc.append(tree[1])
    else:
        tree_leaves(tree[2], acc)
        tree_leaves(tree[3], acc)
    return acc


def tree_lean(tree, leaf_lean, ind="  "):
    if tree[0] == "leaf":
        return ind + ("none" if tree[1] is None else "some (%s)" % leaf_lean(tree[1]))
    _, (op, a, b), t, e = tree
    return "%sif O.le %s %s then\n%s\n%selse\n%s" % (ind, sym_lean(a, None, False), sym_lean(b, None, False), tree_lean(t, leaf_lean, ind + "  "), ind, tree_lean(e, leaf_lean, ind + "  "))


def sym_lean(s, names=None, top=True):
    """Lean term over `O : Ops α`; `names`: id(Sym) -> let-bound name (sharing)"""
    if names and not top and id(s) in names:
        return names[id(s)]
    t = s.tree
    if t[0] == "leaf":
        return t[1]
    if t[0] == "const":
        return "(O.ofRat %s)" % A.lean_rat(t[1])
    if t[0] == "neg":
        return "(O.neg %s)" % sym_lean(t[1], names, False)
    if t[0] == "bin":
        return "(O.%s %s %s)" % (t[1], sym_lean(t[2], names, False), sym_lean(t[3], names, False))
    raise ValueError(t)


def sym_leaves(s, acc=None):
    if acc is None:
        acc = []
    t = s.tree
    if t[0] == "leaf":
        if t[1] not in acc:
            acc.append(t[1])
    elif t[0] == "neg":
        sym_leaves(t[1], acc)
    elif t[0] == "bin":
        sym_leaves(t[2], acc)
        sym_leaves(t[3], acc)
    return acc


def sym_rename(s, ren):
    t = s.tree
    if t[0] == "leaf":
        return Sym(("leaf", ren.get(t[1], t[1])))
    if t[0] == "const":
        return s
    if t[0] == "neg":
        return Sym(("neg", sym_rename(t[1], ren)))
    return Sym(("bin", t[1], sym_rename(t[2], ren), sym_rename(t[3], ren)))


def sym_key(s):
    t = s.tree
    if t[0] in ("leaf", "const"):
        return t
    if t[0] == "neg":
        return ("neg", sym_key(t[1]))
    return ("bin", t[1], sym_key(t[2]), sym_key(t[3]))


# ----------------------------------------------------------------------------- (2) symbolic execution


def trace_cubic_spline():
    from wntr.utils.polynomial_interpolation import cubic_spline

    args = [Sym.leaf(n) for n in ("x1", "x2", "f1", "f2", "df1", "df2")]
    out = cubic_spline(*args)
    if not (isinstance(out, tuple) and len(out) == 4 and all(isinstance(o, Sym) for o in out)):
        raise BrokenTie("cubic_spline no longer returns four coefficients computed from its arguments")
    a, b, c, d = out
    names = {}
    lines = ["def cubicSpline {α : Type} (O : Ops α) (x1 x2 f1 f2 df1 df2 : α) : α × α × α × α :="]
    for nm, s in (("a", a), ("b", b), ("c", c), ("d", d)):
        lines.append("  let %s := %s" % (nm, sym_lean(s, names, True)))
        names[id(s)] = nm
    lines.append("  (a, b, c, d)")
    return "\n".join(lines)


def _constants(fn_name):
    from wntr.sim.models import constants

    ns = types.SimpleNamespace()
    getattr(constants, fn_name)(ns)
    return {k: v for k, v in vars(ns).items()}


class _FakeUpdater:
    def add(self, *a, **k):
        pass


def _sym_node(own):
    return types.SimpleNamespace(
        name="N",
        minimum_pressure=Sym.leaf("own_pmin") if own[0] else None,
        required_pressure=Sym.leaf("own_pnom") if own[1] else None,
        pressure_exponent=Sym.leaf("own_e") if own[2] else None,
    )


def _sym_wn(node):
    hyd = types.SimpleNamespace(
        minimum_pressure=Sym.leaf("glob_pmin"), required_pressure=Sym.leaf("glob_pnom"), pressure_exponent=Sym.leaf("glob_e")
    )
    return types.SimpleNamespace(options=types.SimpleNamespace(hydraulic=hyd), get_node=lambda n, node=node: node, junction_name_list=["N"])


def _canon_roles(syms_used):
    """own_/glob_ leaves -> roles; returns (src triple, renaming)"""
    src, ren = [], {}
    for role in ("pmin", "pnom", "e"):
        o, g = "own_" + role, "glob_" + role
        if o in syms_used and g in syms_used:
            raise BrokenTie("the traced build mixes the junction's and the global %s" % role)
        if o in syms_used:
            src.append("own")
            ren[o] = role
        elif g in syms_used:
            src.append("glob")
            ren[g] = role
        else:
            src.append("unused")
    return tuple(src), ren


def _tree_syms(tree, leaf_syms):
    used = set()

    def walk(t):
        if t[0] == "leaf":
            if t[1] is not None:
                for x in leaf_syms(t[1]):
                    used.update(sym_leaves(x))
        else:
            used.update(sym_leaves(t[1][1]))
            used.update(sym_leaves(t[1][2]))
            walk(t[2])
            walk(t[3])

    walk(tree)
    return used


def trace_pdd_build():
    """run pdd_poly_coeffs_param.build on symbolic pmin/pnom/delta/slope/exponent for the 8 own/None combinations, exploring
    every outcome of every comparison; returns (tree, sel): the decision tree (leaves: None = ValueError, else
    (value stored in m.pdd_delta, six arguments of the lower-band cubic_spline call, six of the upper-band call)) over leaves
    pmin pnom delta slope e, and sel = rows (ownPmin, ownPnom, ownExp, srcPmin, srcPnom, srcExp) with src in own|glob|unused"""
    from wntr.sim.models import param

    canon = None
    sel = []
    for own in itertools.product((False, True), repeat=3):
        node = _sym_node(own)
        wn = _sym_wn(node)

        def run():
            m = types.SimpleNamespace(pdd_smoothing_delta=Sym.leaf("delta"), pdd_slope=Sym.leaf("slope"))
            calls = []

            def rec(*args):
                if len(args) != 6:
                    raise BrokenTie("cubic_spline is called with %d arguments in pdd_poly_coeffs_param" % len(args))
                calls.append([Sym.lift(a) for a in args])
                return 0.0, 0.0, 0.0, 0.0

            saved = param.cubic_spline
            param.cubic_spline = rec
            try:
                param.pdd_poly_coeffs_param.build(m, wn, _FakeUpdater(), index_over=["N"])
            finally:
                param.cubic_spline = saved
            if len(calls) != 2:
                raise BrokenTie("pdd_poly_coeffs_param.build calls cubic_spline %d times (expected 2: lower and upper band)" % len(calls))
            if not hasattr(m, "pdd_delta") or "N" not in m.pdd_delta:
                raise BrokenTie("pdd_poly_coeffs_param.build stores no per-junction band width m.pdd_delta[j] (the smoothing bands "
                                "of a junction with Preq - Pmin < 2*pdd_smoothing_delta overlap)")
            return (Sym.lift(m.pdd_delta["N"].value), calls[0], calls[1])

        tree = explore(run)
        used = _tree_syms(tree, lambda l: [l[0]] + l[1] + l[2])
        src, ren = _canon_roles(used)
        sel.append((own, src))
        rn = lambda x: sym_rename(x, ren)
        tree = tree_map(tree, lambda l: (rn(l[0]), [rn(x) for x in l[1]], [rn(x) for x in l[2]]), rn)
        key = tree_key(tree, lambda l: (sym_key(l[0]), [sym_key(x) for x in l[1]], [sym_key(x) for x in l[2]]))
        if canon is None:
            canon = (key, tree)
        elif key != canon[0]:
            raise BrokenTie("pdd_poly_coeffs_param computes different spline inputs depending on which overrides are set")
    return canon[1], sel


def trace_pnom_build():
    """pnom_param.build on a symbolic required pressure: decision tree with leaves None (ValueError) | value of m.pnom[j]"""
    from wntr.sim.models import param

    canon = None
    for own in (False, True):
        node = _sym_node((False, own, False))
        wn = _sym_wn(node)

        def run():
            m = types.SimpleNamespace(pdd_smoothing_delta=Sym.leaf("delta"), pdd_slope=Sym.leaf("slope"))
            param.pnom_param.build(m, wn, _FakeUpdater(), index_over=["N"])
            return Sym.lift(m.pnom["N"].value)

        tree = explore(run)
        used = _tree_syms(tree, lambda l: [l])
        src, ren = _canon_roles(used)
        if src[1] != ("own" if own else "glob"):
            raise BrokenTie("pnom_param.build reads the %s required pressure for a junction %s its own" % (src[1], "with" if own else "without"))
        rn = lambda x: sym_rename(x, ren)
        tree = tree_map(tree, rn, rn)
        key = tree_key(tree, sym_key)
        if canon is None:
            canon = (key, tree)
        elif key != canon[0]:
            raise BrokenTie("pnom_param.build treats own and global required pressure differently")
    return canon[1]


def trace_leak_spline_inputs():
    from wntr.sim.models import param

    node = types.SimpleNamespace(name="N", leak_discharge_coeff=Sym.leaf("cd"), leak_area=Sym.leaf("area"))
    wn = types.SimpleNamespace(get_node=lambda n: node, junction_name_list=["N"], tank_name_list=[])
    m = types.SimpleNamespace(leak_delta=Sym.leaf("delta"), leak_slope=Sym.leaf("slope"))
    calls = []

    def rec(*args):
        calls.append([Sym.lift(a) for a in args])
        return 0.0, 0.0, 0.0, 0.0

    saved = param.cubic_spline
    param.cubic_spline = rec
    try:
        param.leak_poly_coeffs_param.build(m, wn, _FakeUpdater(), index_over=["N"])
    finally:
        param.cubic_spline = saved
    if len(calls) != 1 or len(calls[0]) != 6:
        raise BrokenTie("leak_poly_coeffs_param.build no longer makes one 6-argument cubic_spline call")
    return calls[0]


def _inputs_def(name, params, six):
    return "def %s {α : Type} (O : Ops α) (%s : α) : α × α × α × α × α × α :=\n  (%s)" % (
        name,
        " ".join(params),
        ",\n   ".join(sym_lean(s) for s in six),
    )


# ----------------------------------------------------------------------------- (1) the zoo

GLOB = dict(minimum_pressure=1.5, required_pressure=24.0, pressure_exponent=0.625)
OWN = dict(minimum_pressure=3.25, required_pressure=31.0, pressure_exponent=0.8)
NARROW = dict(minimum_pressure=3.25, required_pressure=3.3125)


def build_zoo(wntr, mode, tank_leak=True):
    """8 junctions J000..J111 (bit k set = own minimum_pressure / required_pressure / pressure_exponent), one more
    junction JI flagged isolated, JL with a defined but inactive leak, a tank T. Leaks active on J011, J100(zero demand), T, JI."""
    wn = wntr.network.WaterNetworkModel()
    wn.add_reservoir("R", base_head=60.0)
    wn.add_tank("T", elevation=20.0, init_level=3.0, min_level=0.0, max_level=10.0, diameter=5.0)
    prev = "R"
    k = 0
    for own in itertools.product((False, True), repeat=3):
        nm = "J%d%d%d" % tuple(int(b) for b in own)
        wn.add_junction(nm, base_demand=(0.0 if nm in ("J100", "J010") else 0.001 * (k + 1)), elevation=2.0 + k)
        j = wn.get_node(nm)
        if own[0]:
            j.minimum_pressure = OWN["minimum_pressure"]
        if own[1]:
            j.required_pressure = OWN["required_pressure"]
        if own[2]:
            j.pressure_exponent = OWN["pressure_exponent"]
        wn.add_pipe("P" + nm, prev, nm, length=100.0, diameter=0.3, roughness=100.0)
        prev = nm
        k += 1
    wn.add_pipe("PT", "J111", "T", length=100.0, diameter=0.3, roughness=100.0)
    wn.add_pipe("PX", "J101", "J001", length=150.0, diameter=0.2, roughness=90.0)  # second inlet/outlet somewhere
    wn.add_junction("JL", base_demand=0.002, elevation=4.0)
    wn.add_pipe("PJL", "J010", "JL", length=100.0, diameter=0.3, roughness=100.0)
    wn.add_junction("JI", base_demand=0.003, elevation=6.0)
    wn.add_pipe("PJI", "JL", "JI", length=100.0, diameter=0.3, roughness=100.0)
    # a junction whose own Preq - Pmin = 0.0625 < 2*delta (dyadic numbers: the float arithmetic of the build is exact)
    wn.add_junction("JN", base_demand=0.004, elevation=1.0)
    wn.get_node("JN").minimum_pressure = NARROW["minimum_pressure"]
    wn.get_node("JN").required_pressure = NARROW["required_pressure"]
    wn.add_pipe("PJN", "J000", "JN", length=100.0, diameter=0.3, roughness=100.0)
    h = wn.options.hydraulic
    h.demand_model = mode
    h.minimum_pressure = GLOB["minimum_pressure"]
    h.required_pressure = GLOB["required_pressure"]
    h.pressure_exponent = GLOB["pressure_exponent"]
    wn.get_node("J011").add_leak(wn, 0.01, 0.75, None, None)
    wn.get_node("J100").add_leak(wn, 0.002, 0.6, None, None)
    wn.get_node("JL").add_leak(wn, 0.003, 0.5, None, None)
    wn.get_node("JI").add_leak(wn, 0.004, 0.9, None, None)
    active = ["J011", "J100", "JI"]
    if tank_leak:
        wn.get_node("T").add_leak(wn, 0.005, 0.65, None, None)
        active.append("T")
    for n in active:
        wn.get_node(n)._leak_status = True
    wn.get_node("JI")._is_isolated = True
    return wn


class Index:
    def __init__(self):
        self.var, self.param = [], []

    def get(self, tag, name):
        l = self.var if tag == "var" else self.param
        if name not in l:
            l.append(name)
        return l.index(name)

    def add_tree(self, tree):
        for tag, name in A.leaves(tree):
            self.get(tag, name)

    def mapping(self):
        d = {("var", n): i for i, n in enumerate(self.var)}
        d.update({("param", n): i for i, n in enumerate(self.param)})
        return d


def _opt_rat(x):
    return "none" if x is None else "(some %s)" % A.lean_rat(Fraction(float(x)))


def _rat(x):
    return A.lean_rat(Fraction(float(x)))


def _opt_expr(tree, idx):
    return "none" if tree is None else "(some %s)" % A.tree_to_lean(tree, idx)


def reflect(wntr, mode, tank_leak=True):
    """returns dict with model m, wn, per-node trees"""
    import wntr.sim.hydraulics as H

    wn = build_zoo(wntr, mode, tank_leak)
    try:
        m, updater = H.create_hydraulic_model(wn)
    except Exception as e:
        raise BrokenTie("create_hydraulic_model fails on the zoo network (%s, tank leak + junction leaks active): %s: %s" % (mode, type(e).__name__, e))
    out = {"wn": wn, "m": m, "mode": mode, "nodes": {}, "updater": updater}
    regs = {}
    for (obj, attr), funcs in updater.update_functions.items():
        for f in funcs:
            cls = getattr(getattr(f, "__self__", None), "__name__", None)
            if cls is None or getattr(f, "__name__", None) != "update":
                raise BrokenTie("ModelUpdater holds an update function that is not a Definition.update classmethod: %r" % (f,))
            regs.setdefault(getattr(obj, "name", None), []).append((str(attr), cls))
    out["regs"] = {k: sorted(set(v)) for k, v in regs.items()}
    mbdict = m.pdd_mass_balance if mode == "PDD" else m.mass_balance
    for name in wn.junction_name_list + wn.tank_name_list:
        node = wn.get_node(name)
        rec = {"tank": name in wn.tank_name_list, "leak_status": bool(node.leak_status), "isolated": bool(node._is_isolated)}
        rec["mb"] = A.expr_tree(mbdict[name].expr) if name in mbdict else None
        rec["leak"] = A.expr_tree(m.leak_con[name].expr) if name in m.leak_con else None
        rec["pdd"] = A.expr_tree(m.pdd[name].expr) if (mode == "PDD" and name in m.pdd) else None
        rec["inlets"] = list(wn.get_links_for_node(name, flag="INLET"))
        rec["outlets"] = list(wn.get_links_for_node(name, flag="OUTLET"))
        out["nodes"][name] = rec
    return out


PDD_ROLES = ["head", "demand", "expected_demand", "pmin", "pnom", "elevation", "pdd_delta",
             "pdd_poly1_coeffs_a", "pdd_poly1_coeffs_b", "pdd_poly1_coeffs_c", "pdd_poly1_coeffs_d",
             "pdd_poly2_coeffs_a", "pdd_poly2_coeffs_b", "pdd_poly2_coeffs_c", "pdd_poly2_coeffs_d"]
PDD_FIELDS = ["head", "demand", "expected", "pmin", "pnom", "elev", "delta", "a1", "b1", "c1", "d1", "a2", "b2", "c2", "d2"]
PDD_TAGS = ["var", "var"] + ["param"] * 13


VOCAB = ["minimum_pressure", "required_pressure", "pressure_exponent", "leak_status", "_is_isolated", "leak_area",
         "leak_discharge_coeff", "elevation"]

DEFS_PDD = [("constraint", "pdd_mass_balance_constraint", False), ("constraint", "pdd_constraint", False),
            ("param", "pmin_param", False), ("param", "pnom_param", False), ("param", "pdd_poly_coeffs_param", False),
            ("param", "elevation_param", False)]
DEFS_LEAK = [("constraint", "leak_constraint", False), ("constraint", "leak_constraint", True),
             ("param", "leak_coeff_param", False), ("param", "leak_coeff_param", True),
             ("param", "leak_area_param", False), ("param", "leak_area_param", True),
             ("param", "leak_poly_coeffs_param", False), ("param", "leak_poly_coeffs_param", True),
             ("param", "elevation_param", False)]
DEFS_MB = [("constraint", "mass_balance_constraint", False)]


def record_reads(z, defs):
    """which attributes of VOCAB the `build` of each Definition READS on a zoo junction (J011: leak active, own Preq and
    exponent) / the tank: the node's class is swapped for a recording subclass while `build(index_over=[name])` runs"""
    import wntr.sim.models.constraint as C
    import wntr.sim.models.param as P

    wn, m, upd = z["wn"], z["m"], z["updater"]
    out = []
    for modname, clsname, tank in defs:
        D = getattr(C if modname == "constraint" else P, clsname, None)
        if D is None:
            raise BrokenTie("wntr.sim.models.%s has no Definition %s" % (modname, clsname))
        name = "T" if tank else "J011"
        node = wn.get_node(name)
        base = type(node)
        log = []

        class Rec(base):
            def __getattribute__(self, a, _log=log, _base=base):
                _log.append(a)
                return _base.__getattribute__(self, a)

        node.__class__ = Rec
        try:
            D.build(m, wn, upd, index_over=[name])
        finally:
            node.__class__ = base
        out.append((clsname, tank, sorted(set(a for a in log if a in VOCAB))))
    return out


def lean_str(x):
    return '"%s"' % x


def regs_lean(name, z, nodes):
    wn = z["wn"]
    ents = []
    for n in nodes:
        pairs = ", ".join("(%s, %s)" % (lean_str(a), lean_str(c)) for a, c in z["regs"].get(n, []))
        ents.append("  { name := %s, tank := %s, regs := [%s] }" % (lean_str(n), str(n in wn.tank_name_list).lower(), pairs))
    return "def %s : List NodeRegs := [\n%s\n]" % (name, ",\n".join(ents))


def reads_lean(name, reads):
    return "def %s : List DefReads := [\n%s\n]" % (
        name, ",\n".join("  { cls := %s, tank := %s, reads := [%s] }" % (lean_str(c), str(t).lower(), ", ".join(lean_str(a) for a in r)) for c, t, r in reads))


def gen_c07(wntr):
    pdd_c = _constants("pdd_constants")
    if set(pdd_c) != {"pdd_smoothing_delta", "pdd_slope"}:
        raise BrokenTie("pdd_constants defines %s" % sorted(pdd_c))
    ptree, sel = trace_pdd_build()
    ntree = trace_pnom_build()
    spline = trace_cubic_spline()
    z = reflect(wntr, "PDD", tank_leak=False)
    m, wn = z["m"], z["wn"]
    idx = Index()
    for name, rec in z["nodes"].items():
        if rec["pdd"] is not None:
            idx.add_tree(rec["pdd"])
    # roles -> leaf ids by NAME (this is the substitution of the zoo's leaf indices)
    ents = []
    info = []
    for name in wn.junction_name_list:
        rec = z["nodes"][name]
        node = wn.get_node(name)
        ixs = [idx.get(tag, "%s[%s]" % (role, name)) for role, tag in zip(PDD_ROLES, PDD_TAGS)]
        mp = idx.mapping()
        vals = {}
        for role in PDD_ROLES[3:5] + PDD_ROLES[6:]:
            d = getattr(m, role, None)
            if d is None:
                raise BrokenTie("the PDD model has no parameter dictionary m.%s" % role)
            vals[role] = float(d[name].value) if name in d else None
        ents.append(
            "  { name := \"%s\", isolated := %s,\n    ownPmin := %s, ownPnom := %s, ownExp := %s,\n    ix := { %s },\n    pminVal := %s, pnomVal := %s, deltaVal := %s,\n    row := %s }"
            % (
                name,
                str(rec["isolated"]).lower(),
                _opt_rat(node.minimum_pressure), _opt_rat(node.required_pressure), _opt_rat(node.pressure_exponent),
                ", ".join("%s := %d" % (f, i) for f, i in zip(PDD_FIELDS, ixs)),
                _opt_rat(vals["pmin"]), _opt_rat(vals["pnom"]), _opt_rat(vals["pdd_delta"]),
                _opt_expr(rec["pdd"], mp),
            )
        )
        info.append({"name": name, "ix": dict(zip(PDD_FIELDS, ixs)), "vals": vals, "isolated": rec["isolated"],
                     "own": (node.minimum_pressure, node.required_pressure, node.pressure_exponent)})
    out = [
        "-- GENERATED by harness/translate/rows_c07c08.py from wntr/sim/models/{constraint,param,constants}.py and",
        "-- wntr/utils/polynomial_interpolation.py (runtime reflection + symbolic execution). Do not edit.",
        "import WntrModel.Model.Rows",
        "namespace Wntr.Rows.GenC07",
        "open Wntr.Aml Wntr.Rows",
        "",
        "/-- constants.pdd_constants -/",
        "def pddDelta : Rat := %s" % _rat(pdd_c["pdd_smoothing_delta"]),
        "def pddSlope : Rat := %s" % _rat(pdd_c["pdd_slope"]),
        "",
        "/-- the zoo's global options (wn.options.hydraulic) -/",
        "def globPmin : Rat := %s" % _rat(GLOB["minimum_pressure"]),
        "def globPnom : Rat := %s" % _rat(GLOB["required_pressure"]),
        "def globExp : Rat := %s" % _rat(GLOB["pressure_exponent"]),
        "",
        "/-- wntr.utils.polynomial_interpolation.cubic_spline, as executed -/",
        spline,
        "",
        "/-- pdd_poly_coeffs_param.build executed on symbolic numbers, every outcome of every comparison explored: `none` = ValueError,",
        "else (value stored in m.pdd_delta[j], arguments of the lower-band cubic_spline call, arguments of the upper-band call) -/",
        "def pddPolyBuild {α : Type} (O : Ops α) (pmin pnom delta slope e : α) :",
        "    Option (α × (α × α × α × α × α × α) × (α × α × α × α × α × α)) :=",
        tree_lean(ptree, lambda l: "%s,\n      (%s),\n      (%s)" % (sym_lean(l[0]), ", ".join(sym_lean(x) for x in l[1]), ", ".join(sym_lean(x) for x in l[2]))),
        "",
        "/-- pnom_param.build on a symbolic required pressure: `none` = ValueError, else the value of m.pnom[j] -/",
        "def pnomBuild {α : Type} (O : Ops α) (pnom delta : α) : Option α :=",
        tree_lean(ntree, lambda l: sym_lean(l)),
        "",
        "/-- which source pdd_poly_coeffs_param.build reads for each (own minimum_pressure?, own required_pressure?, own pressure_exponent?) -/",
        "def pddCoeffSel : List (Bool × Bool × Bool × Src × Src × Src) := [",
        ",\n".join("  (%s, %s, %s, .%s, .%s, .%s)" % (tuple(str(b).lower() for b in own) + src) for own, src in sel),
        "]",
        "",
        "/-- var / param leaf names of the zoo model, by index -/",
        "def varNames : List String := [%s]" % ", ".join('"%s"' % n for n in idx.var),
        "def paramNames : List String := [%s]" % ", ".join('"%s"' % n for n in idx.param),
        "",
        "/-- `m.pdd[j]` of every junction of the zoo (create_hydraulic_model, PDD), with the values of `m.pmin[j]`, `m.pnom[j]`, `m.pdd_delta[j]` -/",
        "def zoo : List PddZoo := [",
        ",\n".join(ents),
        "]",
        "",
        "/-- what create_hydraulic_model registered with the ModelUpdater for every junction of the zoo (PDD) -/",
        regs_lean("regs", z, wn.junction_name_list),
        "",
        "/-- which node attributes the build of each PDD Definition reads (recorded on junction J011) -/",
        reads_lean("defReads", record_reads(z, DEFS_PDD)),
        "",
        "end Wntr.Rows.GenC07",
        "",
    ]
    return "\n".join(out), {"zoo": z, "info": info, "idx": idx, "sel": sel, "const": pdd_c, "regs": z["regs"]}


def gen_c08(wntr):
    leak_c = _constants("leak_constants")
    if set(leak_c) != {"leak_delta", "leak_slope"}:
        raise BrokenTie("leak_constants defines %s" % sorted(leak_c))
    six = trace_leak_spline_inputs()
    ents = []
    meta = {}
    names_all = {}
    regs_txt, reads_all = [], []
    for mode in ("DD", "PDD"):
        z = reflect(wntr, mode)
        m, wn = z["m"], z["wn"]
        idx = Index()
        for name, rec in z["nodes"].items():
            for k in ("mb", "leak"):
                if rec[k] is not None:
                    idx.add_tree(rec[k])
        for name in wn.junction_name_list + wn.tank_name_list:
            rec = z["nodes"][name]
            tank = rec["tank"]
            dem = ("param", "expected_demand[%s]" % name) if mode == "DD" else ("var", "demand[%s]" % name)
            demix = idx.get(*dem) if not tank else 0
            ins = [idx.get("var", "flow[%s]" % l) for l in rec["inlets"]]
            outs = [idx.get("var", "flow[%s]" % l) for l in rec["outlets"]]
            rate = idx.get("var", "leak_rate[%s]" % name)
            if tank:
                hleaf = "(.param %d)" % idx.get("param", "source_head[%s]" % name)
                elev = "(.const %s)" % _rat(wn.get_node(name).elevation)
            else:
                hleaf = "(.var %d)" % idx.get("var", "head[%s]" % name)
                elev = "(.param %d)" % idx.get("param", "elevation[%s]" % name)
            co = [idx.get("param", "leak_poly_coeffs_%s[%s]" % (c, name)) for c in "abcd"]
            area = idx.get("param", "leak_area[%s]" % name)
            cd = idx.get("param", "leak_coeff[%s]" % name)
            mp = idx.mapping()
            ents.append(
                "  { name := \"%s\", pdd := %s, tank := %s, leakStatus := %s, isolated := %s,\n"
                "    demandIsVar := %s, demand := %d, inlets := %s, outlets := %s, rate := %d,\n"
                "    h := %s, elev := %s, a := %d, b := %d, c := %d, d := %d, area := %d, cd := %d,\n"
                "    mb := %s,\n    leakCon := %s }"
                % (
                    name, str(mode == "PDD").lower(), str(tank).lower(), str(rec["leak_status"]).lower(), str(rec["isolated"]).lower(),
                    str(mode == "PDD").lower(), demix, str(ins), str(outs), rate,
                    hleaf, elev, co[0], co[1], co[2], co[3], area, cd,
                    _opt_expr(rec["mb"], mp), _opt_expr(rec["leak"], mp),
                )
            )
        names_all[mode] = idx
        meta[mode] = z
        regs_txt.append(regs_lean("regs" + mode, z, wn.junction_name_list + wn.tank_name_list))
        reads_all += [r for r in record_reads(z, DEFS_LEAK + (DEFS_MB if mode == "DD" else [DEFS_PDD[0]])) if r not in reads_all]
    out = [
        "-- GENERATED by harness/translate/rows_c07c08.py from wntr/sim/models/{constraint,param,constants}.py. Do not edit.",
        "import WntrModel.Model.Rows",
        "namespace Wntr.Rows.GenC08",
        "open Wntr.Aml Wntr.Rows",
        "",
        "/-- constants.leak_constants -/",
        "def leakDelta : Rat := %s" % _rat(leak_c["leak_delta"]),
        "def leakSlope : Rat := %s" % _rat(leak_c["leak_slope"]),
        "",
        "/-- leak_poly_coeffs_param.build: arguments of its cubic_spline call -/",
        _inputs_def("leakSplineIn", ["cd", "area", "delta", "slope"], six),
        "",
        "/-- mass-balance rows and leak rows of every junction and tank of the zoo (DD then PDD) -/",
        "def zoo : List LeakZoo := [",
        ",\n".join(ents),
        "]",
        "",
        "/-- what create_hydraulic_model registered with the ModelUpdater for every junction and tank of the zoo -/",
        "\n\n".join(regs_txt),
        "",
        "/-- which node attributes the build of each leak / mass-balance Definition reads (recorded on junction J011 / tank T) -/",
        reads_lean("defReads", reads_all),
        "",
        "end Wntr.Rows.GenC08",
        "",
    ]
    return "\n".join(out), {"zoo": meta, "idx": names_all, "const": leak_c}


def write_c07(wntr):
    text, meta = gen_c07(wntr)
    vlib.write_if_changed(os.path.join(vlib.GEN, "RowsC07.lean"), text)
    return meta


def write_c08(wntr):
    text, meta = gen_c08(wntr)
    vlib.write_if_changed(os.path.join(vlib.GEN, "RowsC08.lean"), text)
    return meta


if __name__ == "__main__":
    w = vlib.import_wntr()
    t7, _ = gen_c07(w)
    print(t7[:6000])
    try:
        t8, _ = gen_c08(w)
        print(t8[:3000])
    except BrokenTie as e:
        print("C08 BrokenTie:", e)
