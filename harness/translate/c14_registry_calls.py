"""C14 translator: which registry bookkeeping does every mutating method of wntr.network perform?

Reads (python `ast`, nothing is imported or executed) wntr/network/base.py, model.py, elements.py of the tree under test and emits
`lean/WntrModel/Gen/RegistryCalls.lean`:

  usageCalls : for every function that calls `<x>.add_usage(...)`, `<x>.remove_usage(...)` or `<x>.set_curve_type(...)`, in source
               order: (site, call, registry, key expression, user-type expression) where site = "Class.method",
               registry = node | pattern | curve (from the attribute the call goes through: `_node_reg`, `_pattern_reg`, `_curve_reg`),
               expressions are the source text (ast.unparse).
  typedAdds  : the typed sets `NodeRegistry/LinkRegistry.__setitem__` adds the key to, per concrete element class (the isinstance
               chain is evaluated symbolically over the class hierarchy read from elements.py).
  typedDiscards : the typed sets `__delitem__` of NodeRegistry / LinkRegistry / CurveRegistry discards the key from, in order.
  curveTypeSets : the typed set `CurveRegistry.set_curve_type` adds to, per curve-type string.

Props/C14.lean proves by `decide` that these tables are the ones the registry model's operations are defined from
(`Wntr.Registry.expectedUsageCalls` etc.).
"""
import ast
import os

REG = {"_node_reg": "node", "_pattern_reg": "pattern", "_curve_reg": "curve", "_link_reg": "link", "_sources": "source"}
FILES = ["base.py", "model.py", "elements.py"]


def _src(node):
    return ast.unparse(node).replace('"', "'")


def _registry_of(func_value, cls):
    """`self._pattern_reg.add_usage` -> pattern; `self.add_usage` inside class Registry -> (self)"""
    if isinstance(func_value, ast.Attribute) and func_value.attr in REG:
        return REG[func_value.attr]
    if isinstance(func_value, ast.Name) and func_value.id == "self":
        return {"CurveRegistry": "curve", "PatternRegistry": "pattern", "NodeRegistry": "node", "LinkRegistry": "link"}.get(cls, "self")
    return _src(func_value)


def usage_calls(tree, out):
    for cls in [n for n in tree.body if isinstance(n, ast.ClassDef)]:
        for fn in [n for n in cls.body if isinstance(n, ast.FunctionDef)]:
            calls = []
            for node in ast.walk(fn):
                if isinstance(node, ast.Call) and isinstance(node.func, ast.Attribute) and node.func.attr in (
                        "add_usage", "remove_usage", "set_curve_type"):
                    calls.append(node)
            calls.sort(key=lambda c: (c.lineno, c.col_offset))
            # a property setter and its getter share the name: the decorator tells them apart
            deco = [d for d in fn.decorator_list if isinstance(d, ast.Attribute) and d.attr == "setter"]
            site = "%s.%s%s" % (cls.name, fn.name, ".setter" if deco else "")
            for c in calls:
                key = _src(c.args[0]) if c.args else ""
                arg = _src(c.args[1]) if len(c.args) > 1 else ""
                out.append((site, c.func.attr, _registry_of(c.func.value, cls.name), key, arg))


def class_bases(tree, bases):
    for cls in [n for n in tree.body if isinstance(n, ast.ClassDef)]:
        bases[cls.name] = [b.id for b in cls.bases if isinstance(b, ast.Name)]


def is_sub(cls, anc, bases):
    if cls == anc:
        return True
    return any(is_sub(b, anc, bases) for b in bases.get(cls, []))


def typed_adds(fn, classes, bases):
    """evaluate the if/elif isinstance chain of __setitem__ for every concrete class"""
    def run(stmts, cls, acc):
        for st in stmts:
            if isinstance(st, ast.If):
                t = st.test
                if (isinstance(t, ast.Call) and isinstance(t.func, ast.Name) and t.func.id == "isinstance"
                        and isinstance(t.args[1], ast.Name)):
                    run(st.body if is_sub(cls, t.args[1].id, bases) else st.orelse, cls, acc)
                # other tests (key type check that raises) are not part of the classification
            elif isinstance(st, ast.Expr) and isinstance(st.value, ast.Call) and isinstance(st.value.func, ast.Attribute) \
                    and st.value.func.attr == "add" and isinstance(st.value.func.value, ast.Attribute):
                acc.append(st.value.func.value.attr)
    out = []
    for cls in classes:
        acc = []
        run(fn.body, cls, acc)
        out.append((cls, acc))
    return out


def typed_discards(cls):
    """the sets __delitem__ discards from, in order (a loop over a class-level name list is expanded)"""
    fn = next((n for n in cls.body if isinstance(n, ast.FunctionDef) and n.name == "__delitem__"), None)
    if fn is None:
        return []
    lists = {}
    for st in cls.body:
        if isinstance(st, ast.Assign) and isinstance(st.value, ast.List) and all(isinstance(e, ast.Constant) for e in st.value.elts):
            for t in st.targets:
                if isinstance(t, ast.Name):
                    lists[t.id] = [e.value for e in st.value.elts]
    out = []
    for node in ast.walk(fn):
        if isinstance(node, ast.For) and isinstance(node.iter, ast.Attribute):
            name = node.iter.attr
            cand = [v for k, v in lists.items() if name.endswith(k) or k.endswith(name)]
            body_discards = any(isinstance(n, ast.Call) and isinstance(n.func, ast.Attribute) and n.func.attr == "discard" for n in ast.walk(node))
            if cand and body_discards:
                out.append((node.lineno, cand[0]))
        elif isinstance(node, ast.Call) and isinstance(node.func, ast.Attribute) and node.func.attr == "discard" \
                and isinstance(node.func.value, ast.Attribute) and isinstance(node.func.value.value, ast.Name):
            out.append((node.lineno, [node.func.value.attr]))
    res = []
    for _, l in sorted(out, key=lambda x: x[0]):
        res += l
    return res


def curve_type_sets(cls):
    fn = next(n for n in cls.body if isinstance(n, ast.FunctionDef) and n.name == "set_curve_type")
    out = []
    for node in ast.walk(fn):
        if isinstance(node, ast.If) and isinstance(node.test, ast.Compare) and isinstance(node.test.comparators[0], ast.Constant):
            adds = [n.func.value.attr for n in ast.walk(ast.Module(body=node.body, type_ignores=[]))
                    if isinstance(n, ast.Call) and isinstance(n.func, ast.Attribute) and n.func.attr == "add"
                    and isinstance(n.func.value, ast.Attribute)]
            if adds:
                out.append((node.test.comparators[0].value, adds))
    return out


def extract(repo):
    trees = {}
    for f in FILES:
        with open(os.path.join(repo, "wntr", "network", f)) as fh:
            trees[f] = ast.parse(fh.read())
    usage, bases = [], {}
    for f in FILES:
        usage_calls(trees[f], usage)
        class_bases(trees[f], bases)
    model = {n.name: n for n in trees["model.py"].body if isinstance(n, ast.ClassDef)}
    setitem = lambda c: next(n for n in model[c].body if isinstance(n, ast.FunctionDef) and n.name == "__setitem__")
    adds = typed_adds(setitem("NodeRegistry"), ["Junction", "Tank", "Reservoir"], bases) + \
        typed_adds(setitem("LinkRegistry"), ["Pipe", "HeadPump", "PowerPump", "PRValve", "PSValve", "PBValve", "TCValve", "FCValve", "GPValve"], bases)
    discards = [(c, typed_discards(model[c])) for c in ("NodeRegistry", "LinkRegistry", "CurveRegistry")]
    return {"usage": usage, "adds": adds, "discards": discards, "ctypes": curve_type_sets(model["CurveRegistry"])}


def lean_str(s):
    return '"' + s.replace("\\", "\\\\").replace('"', '\\"') + '"'


def gen_lean(t):
    o = ["/- GENERATED on every run by harness/translate/c14_registry_calls.py from wntr/network/{base,model,elements}.py (ast only).",
         "   Do not edit.  See that file for what each table means. -/", "namespace Wntr.Gen.RegistryCalls", "",
         "/-- (site, call, registry, key expression, user expression), in source order per site -/",
         "def usageCalls : List (String × String × String × String × String) := ["]
    o.append(",\n".join("  (%s, %s, %s, %s, %s)" % tuple(lean_str(x) for x in row) for row in t["usage"]))
    o += ["]", "", "/-- element class ↦ typed sets `__setitem__` adds the key to -/",
          "def typedAdds : List (String × List String) := ["]
    o.append(",\n".join("  (%s, [%s])" % (lean_str(c), ", ".join(lean_str(x) for x in l)) for c, l in t["adds"]))
    o += ["]", "", "/-- registry ↦ typed sets `__delitem__` discards the key from, in order -/",
          "def typedDiscards : List (String × List String) := ["]
    o.append(",\n".join("  (%s, [%s])" % (lean_str(c), ", ".join(lean_str(x) for x in l)) for c, l in t["discards"]))
    o += ["]", "", "/-- curve type ↦ typed set `set_curve_type` adds the key to -/",
          "def curveTypeSets : List (String × List String) := ["]
    o.append(",\n".join("  (%s, [%s])" % (lean_str(c), ", ".join(lean_str(x) for x in l)) for c, l in t["ctypes"]))
    o += ["]", "", "end Wntr.Gen.RegistryCalls", ""]
    return "\n".join(o)


if __name__ == "__main__":
    import sys
    t = extract(sys.argv[1] if len(sys.argv) > 1 else "/repo")
    for row in t["usage"]:
        print(row)
    print(t["adds"]); print(t["discards"]); print(t["ctypes"])
