"""Runtime reflection of wntr.sim.aml expressions -> trees -> Lean `Wntr.Aml.Expr` terms.

tree := ("var", name) | ("param", name) | ("const", Fraction) | ("bin", op, a, b) | ("un", op, a)
      | ("ifElse", c, t, e) | ("ineq", body, lb, ub)
Leaf names come from a caller-supplied `namer(leaf) -> str` (default: the aml object's `.name`).
"""
from fractions import Fraction

BIN = {-1: "add", -2: "sub", -3: "mul", -4: "div", -5: "pow"}
UN = {-6: "abs", -7: "sign", -10: "exp", -11: "log", -12: "neg", -13: "sin", -14: "cos", -15: "tan", -16: "asin", -17: "acos", -18: "atan"}


def _leaf(node, namer):
    from wntr.sim.aml.expr import Var, Param, Float

    if isinstance(node, Var):
        return ("var", namer(node))
    if isinstance(node, Param):
        return ("param", namer(node))
    if isinstance(node, Float):
        return ("const", Fraction(float(node.value)))
    raise TypeError("unknown leaf %r" % type(node))


def _bound(leaf):
    """inequality bounds are Float leaves; +-inf -> None"""
    import math
    from wntr.sim.aml.expr import Float

    if not isinstance(leaf, Float):
        raise TypeError("inequality bound is not a Float leaf: %r" % type(leaf))
    v = float(leaf.value)
    if math.isinf(v):
        return None
    return Fraction(v)


def node_tree(node, namer, memo=None):
    """tree of an Operator / Leaf node (shared sub-expressions are expanded)"""
    from wntr.sim.aml import expr as E

    if memo is None:
        memo = {}
    if node.is_leaf():
        return _leaf(node, namer)
    k = id(node)
    if k in memo:
        return memo[k]
    if isinstance(node, E.BinaryOperator):
        t = ("bin", BIN[int(node.operation_enum)], node_tree(node._operand1, namer, memo), node_tree(node._operand2, namer, memo))
    elif isinstance(node, E.IfElseOperator):
        t = ("ifElse", node_tree(node._if_arg, namer, memo), node_tree(node._then_arg, namer, memo), node_tree(node._else_arg, namer, memo))
    elif isinstance(node, E.InequalityOperator):
        t = ("ineq", node_tree(node._body, namer, memo), _bound(node._lb), _bound(node._ub))
    elif isinstance(node, E.UnaryOperator):
        t = ("un", UN[int(node.operation_enum)], node_tree(node._operand, namer, memo))
    else:
        raise TypeError("unknown operator %r" % type(node))
    memo[k] = t
    return t


def expr_tree(e, namer=lambda leaf: leaf.name):
    """tree of an aml expression, Leaf, or ConditionalExpression (-> nested ifElse as `Wntr.Aml.condExpr`)"""
    from wntr.sim.aml.expr import ConditionalExpression

    if isinstance(e, ConditionalExpression):
        pairs = [(expr_tree(c, namer), expr_tree(x, namer)) for c, x in zip(e._conditions, e._exprs)]
        return cond_tree(pairs)
    if e.is_leaf():
        return _leaf(e, namer)
    return node_tree(e.last_node(), namer)


def cond_tree(pairs):
    if not pairs:
        return ("const", Fraction(0))
    if len(pairs) == 1:
        return pairs[0][1]
    (c, x) = pairs[0]
    return ("ifElse", c, x, cond_tree(pairs[1:]))


def leaves(tree, acc=None):
    if acc is None:
        acc = []
    tag = tree[0]
    if tag in ("var", "param"):
        if (tag, tree[1]) not in acc:
            acc.append((tag, tree[1]))
    elif tag == "const":
        pass
    elif tag == "bin":
        leaves(tree[2], acc); leaves(tree[3], acc)
    elif tag == "un":
        leaves(tree[2], acc)
    elif tag == "ineq":
        leaves(tree[1], acc)
    else:
        for t in tree[1:]:
            leaves(t, acc)
    return acc


def lean_rat(fr):
    fr = Fraction(fr)
    if fr.denominator == 1:
        return "(%d : Rat)" % fr.numerator
    return "((%d : Rat) / %d)" % (fr.numerator, fr.denominator)


def tree_to_lean(tree, index):
    """Lean term; `index[(tag,name)] -> Nat`"""
    tag = tree[0]
    if tag in ("var", "param"):
        return "(.%s %d)" % (tag, index[(tag, tree[1])])
    if tag == "const":
        return "(.const %s)" % lean_rat(tree[1])
    if tag == "bin":
        return "(.bin .%s %s %s)" % (tree[1], tree_to_lean(tree[2], index), tree_to_lean(tree[3], index))
    if tag == "un":
        return "(.un .%s %s)" % (tree[1], tree_to_lean(tree[2], index))
    if tag == "ifElse":
        return "(.ifElse %s %s %s)" % tuple(tree_to_lean(t, index) for t in tree[1:])
    if tag == "ineq":
        ob = lambda b: "none" if b is None else "(some %s)" % lean_rat(b)
        return "(.ineq %s %s %s)" % (tree_to_lean(tree[1], index), ob(tree[2]), ob(tree[3]))
    raise ValueError(tag)


def tree_to_sexpr(tree):
    """line-protocol text form: (bin add a b) ... with leaves `v:name`, `p:name`, `c:p/q`"""
    tag = tree[0]
    if tag == "var":
        return "v:" + tree[1]
    if tag == "param":
        return "p:" + tree[1]
    if tag == "const":
        fr = Fraction(tree[1])
        return "c:%d/%d" % (fr.numerator, fr.denominator)
    if tag in ("bin", "un"):
        return "(" + tree[1] + " " + " ".join(tree_to_sexpr(t) for t in tree[2:]) + ")"
    if tag == "ineq":
        ob = lambda b: "none" if b is None else "%d/%d" % (Fraction(b).numerator, Fraction(b).denominator)
        return "(ineq %s %s %s)" % (tree_to_sexpr(tree[1]), ob(tree[2]), ob(tree[3]))
    return "(" + tag + " " + " ".join(tree_to_sexpr(t) for t in tree[1:]) + ")"


def eval_tree(tree, env):
    """reference float evaluation of a tree in Python (same semantics as Wntr.Aml.eval with floatOps)"""
    import math

    tag = tree[0]
    if tag in ("var", "param"):
        return env[(tag, tree[1])]
    if tag == "const":
        return float(tree[1])
    if tag == "bin":
        a, b = eval_tree(tree[2], env), eval_tree(tree[3], env)
        op = tree[1]
        if op == "add":
            return a + b
        if op == "sub":
            return a - b
        if op == "mul":
            return a * b
        if op == "div":
            return a / b
        return a ** b
    if tag == "un":
        a = eval_tree(tree[2], env)
        op = tree[1]
        if op == "neg":
            return -a
        if op == "abs":
            return abs(a)
        if op == "sign":
            return 1.0 if a >= 0 else -1.0
        return getattr(math, op)(a)
    if tag == "ifElse":
        return eval_tree(tree[2], env) if eval_tree(tree[1], env) == 1 else eval_tree(tree[3], env)
    if tag == "ineq":
        v = eval_tree(tree[1], env)
        lo = -math.inf if tree[2] is None else float(tree[2])
        hi = math.inf if tree[3] is None else float(tree[3])
        return 1.0 if lo <= v <= hi else 0.0
    raise ValueError(tag)
