-- Root of the `WntrModel` library: models, generated definitions, lemmas and property theorems.
import WntrModel.Model.Units
