/-
C09 — junctions cut off from all sources are zeroed; connected ones never are.

Model: `Model/Isolation.lean` (M8: the compiled search, the CSR bookkeeping of `WNTRSimulator`, the isolation flags,
the result-storing branch) + `Model/IsolationStatic.lean` (the decidable contract `StaticP` on what is computed once).
All theorems hold for EVERY multigraph without self-loops (parallel / reversed parallel links included), every initial
status pattern and EVERY history of control actions, graph updates and isolation computations on one simulator object.
-/
import WntrModel.Lemmas.IsolationSim

namespace Wntr.Isolation

/-! ## 1. the compiled search -/

/-- **dfs_reaches_exactly**: for every flat CSR input, source list and initial indicator, the search clears exactly the
live nodes reachable from a live source through entries with `data = 1` (soundness by the invariant "every cleared node has a
path", completeness by fuel sufficiency + "empty work set ⇒ closed set"); every other entry of the indicator is unchanged. -/
theorem dfs_reaches_exactly (g : Csr) (srcs : List Nat) (ind0 : List Int) (v : Nat) :
    (Reached g srcs ind0 v → (checkIsolated g srcs ind0).getD v 0 = 0) ∧
    (¬ Reached g srcs ind0 v → (checkIsolated g srcs ind0).getD v 0 = ind0.getD v 0) :=
  dfs_reaches_exactly_aux g srcs ind0 v

/-- non-vacuity: 0 —1→ 1, 1 —0→ 2 (closed), source 0: node 1 is cleared, node 2 is not -/
example : checkIsolated { indptr := [0, 1, 3, 4], indices := [1, 0, 2, 1], data := [1, 1, 0, 0], nconn := [1, 2, 1] } [0] [1, 1, 1]
    = [0, 0, 1] := by decide

/-! ## 2. the bookkeeping over histories; flagged isolated = cut off

Definitions used below (Lemmas/IsolationSim.lean, Lemmas/IsolationGraph.lean):
* `Adj net st u v`      : some link joins u and v (either direction) and its status under `st` is not Closed;
* `Connected net st v`  : `ReflTransGen (Adj net st)` from some tank/reservoir to v;
* `DataOk net ndx st d` : both CSR data positions of every link hold 1 if some link of its node pair is not Closed under `st`, else 0;
* `Good s`              : static contract ∧ `DataOk` for the statuses at the tracker's reference point ∧ the tracker reports every
                          link whose status differs from the reference ∧ every raised flag is in `_prev_isolated_*`;
* `Synced s`            : `DataOk` for the current statuses;  `OpOk net op` : a control action targets an existing link.
-/

/-- **csr_update_preserves**: over EVERY history of control actions on existing links, graph updates and isolation
computations, the invariant `Good` (static contract, data = statuses at the tracker's reference point, tracker completeness,
flag bookkeeping) is preserved — induction over histories. -/
theorem csr_update_preserves {s : Sim} (h : Good s) (ops : List Op) (hops : ∀ op ∈ ops, OpOk s.net op) : Good (run s ops) := by
  unfold run
  induction ops generalizing s with
  | nil => exact h
  | cons op ops ih =>
    rw [List.foldl_cons]
    apply ih (good_step h op (hops op List.mem_cons_self))
    intro op' hop'
    rw [step_net]
    exact hops op' (List.mem_cons_of_mem _ hop')

/-- after any history, `_update_internal_graph` leaves both CSR entries of every link's node pair at 1 iff some link of
that pair (parallel links included) is not Closed NOW -/
theorem csr_update_correct {s : Sim} (h : Good s) (ops : List Op) (hops : ∀ op ∈ ops, OpOk s.net op) :
    Synced (updateGraph (run s ops)) :=
  (good_update (csr_update_preserves h ops hops)).2

/-- **isolated_iff_cut_off**: whatever happened before, after `_update_internal_graph(); _get_isolated_junctions_and_links()`
a node is flagged isolated iff no path of non-closed links joins it to a tank or reservoir, and a link is flagged iff it is
incident to such a node. -/
theorem isolated_iff_cut_off {s : Sim} (h : Good s) (ops : List Op) (hops : ∀ op ∈ ops, OpOk s.net op) :
    let s' := prepareSolve (run s ops)
    (∀ v, s'.isoJ.getD v false = true ↔ v < s.net.n ∧ ¬ Connected s.net s'.status v) ∧
    (∀ l, s'.isoL.getD l false = true ↔
      l < s.net.nl ∧ ∃ j, j < s.net.n ∧ ¬ Connected s.net s'.status j ∧ l ∈ s.net.linksOf j) := by
  intro s'
  obtain ⟨g1, g2⟩ := good_update (csr_update_preserves h ops hops)
  obtain ⟨_, _, hJ, hL⟩ := good_isolated g1 g2
  have hn : (updateGraph (run s ops)).net = s.net := run_net s ops
  rw [hn] at hJ hL
  exact ⟨hJ, hL⟩

/-- **connected_never_isolated**: a node with a path of non-closed links to a source is never flagged, after any history;
in particular tanks and reservoirs never are. -/
theorem connected_never_isolated {s : Sim} (h : Good s) (ops : List Op) (hops : ∀ op ∈ ops, OpOk s.net op) (v : Nat)
    (hc : Connected s.net (prepareSolve (run s ops)).status v) :
    (prepareSolve (run s ops)).isoJ.getD v false = false := by
  have := ((isolated_iff_cut_off h ops hops).1 v)
  cases hb : (prepareSolve (run s ops)).isoJ.getD v false with
  | false => rfl
  | true => exact absurd hc (this.mp hb).2

/-- **reconnect_restores**: a node flagged isolated at one solve and connected again (after any further history) at a later
solve is un-flagged there: flags of the previous solve are cleared through `_prev_isolated_*` and recomputed.
(One simulator object; across a restart `_prev_isolated_*` is empty while flags persist — see C10.) -/
theorem reconnect_restores {s : Sim} (h : Good s) (ops1 ops2 : List Op)
    (h1 : ∀ op ∈ ops1, OpOk s.net op) (h2 : ∀ op ∈ ops2, OpOk s.net op) (v : Nat)
    (_hiso : (prepareSolve (run s ops1)).isoJ.getD v false = true)
    (hc : Connected s.net (prepareSolve (run s (ops1 ++ [Op.prepare] ++ ops2))).status v) :
    (prepareSolve (run s (ops1 ++ [Op.prepare] ++ ops2))).isoJ.getD v false = false := by
  apply connected_never_isolated h _ _ v hc
  intro op hop
  rcases List.mem_append.mp hop with h' | h'
  · rcases List.mem_append.mp h' with h'' | h''
    · exact h1 op h''
    · rw [List.mem_singleton.mp h'']; trivial
  · exact h2 op h'

/-! ## 3. `_initialize_internal_graph` establishes the invariant -/

/-- **csr_init_correct**: when `_initialize_internal_graph` succeeds on a network whose links are each listed once in
pipes ++ pumps ++ valves, and the structure it built satisfies the static contract, then both CSR entries of every link's
node pair are 1 iff at least one link between the pair is not Closed — including pairs with several links
(the zero-then-set pass overrides scipy's summed duplicates) — and the whole invariant `Good` holds at the start of the run. -/
theorem csr_init_correct (net : Net) (user internal : List Nat)
    (hok : (initGraph net user internal).1 = Outcome.ok)
    (hst : (initGraph net user internal).2.Static)
    (hperm : net.initOrder.Perm (List.range net.nl)) :
    Good (initGraph net user internal).2 ∧ Synced (initGraph net user internal).2 := by
  obtain ⟨_, _, _, fmulti, fch, fJ, fL, fprev, findices, _, fndx, fdata, fsome⟩ := init_fields net user internal
  have fsome := fsome hok
  generalize hs0 : (initGraph net user internal).2 = s0 at *
  have hnet : s0.net = net := by rw [← hs0]; rfl
  obtain ⟨hends, hb, hpos, hin, hout, hmulti⟩ := hst
  rw [hnet] at hends hb hpos hin hout hmulti
  have hlen0 : (initG0 net).indices.length = s0.g.indices.length := by rw [findices]
  -- positions of a link in terms of the index search
  have hposk : ∀ k, k < net.nl →
      getCsrDataIndex (initG0 net) (net.linkEnds k).1 (net.linkEnds k).2 = some (pos1 s0.ndx k) ∧
      getCsrDataIndex (initG0 net) (net.linkEnds k).2 (net.linkEnds k).1 = some (pos2 s0.ndx k) := by
    intro k hk
    have hk' : k < net.links.length := hk
    obtain ⟨a, b⟩ := fsome (net.links.getD k (0, 0)) (getD_mem_lt _ _ hk' _)
    unfold pos1 pos2
    rw [fndx, getD_map_lt _ net.links k hk' (0, 0) (0, 0)]
    unfold Net.linkEnds
    constructor
    · cases h : getCsrDataIndex (initG0 net) (net.links.getD k (0, 0)).1 (net.links.getD k (0, 0)).2 with
      | none => rw [h] at a; cases a
      | some x => rfl
    · cases h : getCsrDataIndex (initG0 net) (net.links.getD k (0, 0)).2 (net.links.getD k (0, 0)).1 with
      | none => rw [h] at b; cases b
      | some x => rfl
  have hsync : DataOk net s0.ndx s0.status s0.g.data := by
    intro k hk p hp
    rw [fdata]
    apply pass_fold s0.status s0.g.indices.length (initStep (initG0 net) s0.ndx s0.status)
      (initStep_length (initG0 net) s0.ndx s0.status) k p (multiTable net)
    · intro e he d hdlen
      have he' : e ∈ s0.multi := by rw [fmulti]; exact he
      have hE := entryOk_of_multiOk hmulti e he'
      obtain ⟨k0, hk0, hkey, hall, _⟩ := hmulti.1 e he'
      have hk0lt := (hall k0 hk0).1
      obtain ⟨q1, q2⟩ := hposk k0 hk0lt
      have b1 : pos1 s0.ndx k0 < d.length := by rw [hdlen]; exact (hb k0 hk0lt).1
      have b2 : pos2 s0.ndx k0 < d.length := by rw [hdlen]; exact (hb k0 hk0lt).2
      -- the two zeroed positions are the two positions of k0
      have hz : ∀ q, (setOpt (setOpt d (getCsrDataIndex (initG0 net) e.1.1 e.1.2) 0) (getCsrDataIndex (initG0 net) e.1.2 e.1.1) 0).getD q 0
          = if inPs s0.ndx k0 q then 0 else d.getD q 0 := by
        intro q
        rcases hkey with hkey | hkey
        · rw [← hkey, q1, q2, setOpt2_read d _ _ q b1 b2]; rfl
        · have e1 : e.1.1 = (net.linkEnds k0).2 := by rw [hkey]
          have e2 : e.1.2 = (net.linkEnds k0).1 := by rw [hkey]
          rw [e1, e2, q1, q2, setOpt2_read d _ _ q b2 b1]
          by_cases c : inPs s0.ndx k0 q
          · rw [if_pos c, if_pos (Or.symm c)]
          · rw [if_neg c, if_neg (fun h => c (Or.symm h))]
      have := pass_step hpos s0.g.indices.length hb s0.status e.2 hE
        (setOpt (setOpt d (getCsrDataIndex (initG0 net) e.1.1 e.1.2) 0) (getCsrDataIndex (initG0 net) e.1.2 e.1.1) 0) d
        (by rw [setOpt_length, setOpt_length]; exact hdlen)
        (by
          intro first tl hl q
          have hf : first ∈ e.2 := by rw [hl]; exact List.mem_cons_self
          obtain ⟨hflt, hsp⟩ := hall first hf
          have hiff := inPs_iff_of_samePair hpos hk0lt hflt hsp q
          rw [hz q]
          constructor
          · intro h; rw [if_pos (hiff.mpr h)]
          · intro h; rw [if_neg (fun h' => h (hiff.mp h'))])
        k hk p hp
      exact this
    · rw [foldl_addAt_length, List.length_replicate, hlen0]
    · intro hno
      have hs : single net k := by
        apply Classical.byContradiction
        intro hns
        obtain ⟨e, he, hke⟩ := not_single_inMulti hmulti hk hns
        rw [fmulti] at he
        exact hno e he hke
      have hne : pos1 s0.ndx k ≠ pos2 s0.ndx k := by
        intro heq
        obtain ⟨⟨_, _, _, c1⟩, ⟨_, _, _, c2⟩⟩ := hin k hk
        rw [heq] at c1
        exact (hends.1 k hk).2.2 (c2.symm.trans c1)
      rw [accumulate_single hpos s0.g.indices.length hb (fun c => openVal (s0.status c)) k hk hs hne p hp net.initOrder _
        (hperm.nodup_iff.mpr List.nodup_range) (fun c hc => List.mem_range.mp (hperm.mem_iff.mp hc))
        (by rw [List.length_replicate, hlen0])]
      have hin' : k ∈ net.initOrder := hperm.mem_iff.mpr (List.mem_range.mpr hk)
      rw [if_pos hin']
      have : (List.replicate (initG0 net).indices.length (0 : Int)).getD p 0 = 0 := by
        simp only [List.getD_eq_getElem?_getD, List.getElem?_replicate]
        split <;> rfl
      rw [this, Int.zero_add]
      exact okAt_openVal_single hk hs
  have hprev : ∀ k, k < net.nl → s0.status k = s0.prev.getD k 0 := by
    intro k hk
    rw [fprev]
    exact (getD_map_range s0.status _ k hk).symm
  have hfalse : ∀ (n v : Nat), (List.replicate n false).getD v false = true → False := by
    intro n v h
    simp only [List.getD_eq_getElem?_getD, List.getElem?_replicate] at h
    split at h <;> cases h
  refine ⟨⟨?_, ?_, ?_, ?_, ?_, ⟨?_, ?_⟩, ⟨?_, ?_⟩⟩, ?_⟩
  · unfold Sim.Static; rw [hnet]; exact ⟨hends, hb, hpos, hin, hout, hmulti⟩
  · rw [fdata]
    have : ∀ (es : List ((Nat × Nat) × List Nat)) (d : List Int),
        (es.foldl (initStep (initG0 net) s0.ndx s0.status) d).length = d.length := by
      intro es
      induction es with
      | nil => intro d; rfl
      | cons e es ih => intro d; rw [List.foldl_cons, ih, initStep_length]
    rw [this, foldl_addAt_length, List.length_replicate, hlen0]
  · rw [hnet]; exact DataOk_congr hprev hsync
  · intro k hk hne
    rw [hnet] at hk
    exact absurd (hprev k hk) hne
  · intro c hc; rw [fch] at hc; cases hc
  · rw [fJ, hnet, List.length_replicate]
  · intro v hv; rw [fJ] at hv; exact (hfalse _ _ hv).elim
  · rw [fL, hnet, List.length_replicate]; rfl
  · intro l hl; rw [fL] at hl; exact (hfalse _ _ hl).elim
  · unfold Synced; rw [hnet]; exact hsync

/-! ## 4. stored results -/

/-- **isolated_reported_zero**: a flagged junction stores head, demand, pressure and leak 0; a flagged link stores flow 0 -/
theorem isolated_reported_zero {α} (zero : α) (solved : JRes α) (f : α) :
    (storeJunction zero true solved).head = zero ∧ (storeJunction zero true solved).demand = zero ∧
    (storeJunction zero true solved).pressure = zero ∧ (storeJunction zero true solved).leak = zero ∧
    storeLink zero true f = zero := ⟨rfl, rfl, rfl, rfl, rfl⟩

/-- an un-flagged junction / link stores what the solver computed -/
theorem connected_reported_solved {α} (zero : α) (solved : JRes α) (f : α) :
    storeJunction zero false solved = solved ∧ storeLink zero false f = f := ⟨rfl, rfl⟩

end Wntr.Isolation

/-! ## non-vacuity: a reservoir (0), two parallel links 0–1 (one reversed) and a link 1–2 -/
namespace Wntr.Isolation

def exNet : Net :=
  { n := 3, links := [(0, 1), (1, 0), (1, 2)], valve := [false, false, false], initOrder := [0, 1, 2], sources := [0] }

def exSim : Sim := (initGraph exNet [1, 1, 1] [2, 2, 2]).2

example : (initGraph exNet [1, 1, 1] [2, 2, 2]).1 = Outcome.ok := by decide
example : exSim.Static := by decide
example : exNet.initOrder.Perm (List.range exNet.nl) := by decide
/-- the hypotheses of the history theorems are satisfiable -/
example : Good exSim := (csr_init_correct exNet _ _ (by decide) (by decide) (by decide)).1
/-- closing ONE of the parallel links isolates nothing; closing both isolates nodes 1, 2 and all links; reopening restores -/
example : (run exSim [.act true 0 0, .prepare]).isoJ = [false, false, false] := by decide
example : (run exSim [.act true 0 0, .act true 1 0, .prepare]).isoJ = [false, true, true] := by decide
example : (run exSim [.act true 0 0, .act true 1 0, .prepare]).isoL = [true, true, true] := by decide
example : (run exSim [.act true 0 0, .act true 1 0, .prepare, .act true 1 1, .prepare]).isoJ = [false, false, false] := by decide
example : (run exSim [.act true 0 0, .act true 1 0, .prepare, .act true 1 1, .prepare]).g.data = [1, 1, 1, 1] := by decide

end Wntr.Isolation
