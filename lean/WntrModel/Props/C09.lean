/-
C09 — junctions cut off from all sources are zeroed; connected ones never are.

Model: `Model/Isolation.lean` (M8: the compiled search, the CSR bookkeeping of `WNTRSimulator`, the isolation flags,
the result-storing branch) + `Model/IsolationStatic.lean` (the decidable contract `StaticP` on what is computed once).
All theorems hold for EVERY multigraph without self-loops (parallel / reversed parallel links included), every initial
status pattern and EVERY history of control actions, graph updates and isolation computations on one simulator object.
-/
import WntrModel.Lemmas.IsolationSim
import WntrModel.Lemmas.IsolationRun
import WntrModel.Lemmas.IsolationProg
import WntrModel.Lemmas.IsolationCsr
import WntrModel.Gen.IsolationShape

namespace Wntr.Isolation

/-! ## 1. the compiled search -/

/-- **dfs_reaches_exactly**: for every flat CSR input, source list and initial indicator, the search clears exactly the
live nodes reachable from a live source through entries with `data = 1` (soundness by the invariant "every cleared node has a
path", completeness by fuel sufficiency + "empty work set ⇒ closed set"); every other entry of the indicator is unchanged. -/
theorem dfs_reaches_exactly (g : Csr) (srcs : List Nat) (ind0 : List Int) (v : Nat) :
    (Reached g srcs ind0 v → (checkIsolated g srcs ind0).getD v 0 = 0) ∧
    (¬ Reached g srcs ind0 v → (checkIsolated g srcs ind0).getD v 0 = ind0.getD v 0) :=
  dfs_reaches_exactly_aux g srcs ind0 v

/-- non-vacuity: 0 —1→ 1, 1 —0→ 2 (closed), source 0: node 1 is cleared, node 2 is not -/
example : checkIsolated { indptr := [0, 1, 3, 4], indices := [1, 0, 2, 1], data := [1, 1, 0, 0], nconn := [1, 2, 1] } [0] [1, 1, 1]
    = [0, 0, 1] := by decide

/-! ## 2. the bookkeeping over histories; flagged isolated = cut off

Definitions used below (Lemmas/IsolationSim.lean, Lemmas/IsolationGraph.lean):
* `Adj net st u v`      : some link joins u and v (either direction) and its status under `st` is not Closed;
* `Connected net st v`  : `ReflTransGen (Adj net st)` from some tank/reservoir to v;
* `DataOk net ndx st d` : both CSR data positions of every link hold 1 if some link of its node pair is not Closed under `st`, else 0;
* `Good s`              : static contract ∧ `DataOk` for the statuses at the tracker's reference point ∧ the tracker reports every
                          link whose status differs from the reference ∧ every raised flag is in `_prev_isolated_*`;
* `Synced s`            : `DataOk` for the current statuses;  `OpOk net op` : a control action targets an existing link.
-/

/-- **csr_update_preserves**: over EVERY history of control actions on existing links, graph updates and isolation
computations, the invariant `Good` (static contract, data = statuses at the tracker's reference point, tracker completeness,
flag bookkeeping) is preserved — induction over histories. -/
theorem csr_update_preserves {s : Sim} (h : Good s) (ops : List Op) (hops : ∀ op ∈ ops, OpOk s.net op) : Good (run s ops) := by
  unfold run
  induction ops generalizing s with
  | nil => exact h
  | cons op ops ih =>
    rw [List.foldl_cons]
    apply ih (good_step h op (hops op List.mem_cons_self))
    intro op' hop'
    rw [step_net]
    exact hops op' (List.mem_cons_of_mem _ hop')

/-- after any history, `_update_internal_graph` leaves both CSR entries of every link's node pair at 1 iff some link of
that pair (parallel links included) is not Closed NOW -/
theorem csr_update_correct {s : Sim} (h : Good s) (ops : List Op) (hops : ∀ op ∈ ops, OpOk s.net op) :
    Synced (updateGraph (run s ops)) :=
  (good_update (csr_update_preserves h ops hops)).2

/-- **isolated_iff_cut_off**: whatever happened before, after `_update_internal_graph(); _get_isolated_junctions_and_links()`
a node is flagged isolated iff no path of non-closed links joins it to a tank or reservoir, and a link is flagged iff it is
incident to such a node. -/
theorem isolated_iff_cut_off {s : Sim} (h : Good s) (ops : List Op) (hops : ∀ op ∈ ops, OpOk s.net op) :
    let s' := prepareSolve (run s ops)
    (∀ v, s'.isoJ.getD v false = true ↔ v < s.net.n ∧ ¬ Connected s.net s'.status v) ∧
    (∀ l, s'.isoL.getD l false = true ↔
      l < s.net.nl ∧ ∃ j, j < s.net.n ∧ ¬ Connected s.net s'.status j ∧ l ∈ s.net.linksOf j) := by
  intro s'
  obtain ⟨g1, g2⟩ := good_update (csr_update_preserves h ops hops)
  obtain ⟨_, _, hJ, hL⟩ := good_isolated g1 g2
  have hn : (updateGraph (run s ops)).net = s.net := run_net s ops
  rw [hn] at hJ hL
  exact ⟨hJ, hL⟩

/-- **connected_never_isolated**: a node with a path of non-closed links to a source is never flagged, after any history;
in particular tanks and reservoirs never are. -/
theorem connected_never_isolated {s : Sim} (h : Good s) (ops : List Op) (hops : ∀ op ∈ ops, OpOk s.net op) (v : Nat)
    (hc : Connected s.net (prepareSolve (run s ops)).status v) :
    (prepareSolve (run s ops)).isoJ.getD v false = false := by
  have := ((isolated_iff_cut_off h ops hops).1 v)
  cases hb : (prepareSolve (run s ops)).isoJ.getD v false with
  | false => rfl
  | true => exact absurd hc (this.mp hb).2

/-- **reconnect_restores**: a node flagged isolated at one solve and connected again (after any further history) at a later
solve is un-flagged there: flags of the previous solve are cleared through `_prev_isolated_*` and recomputed.
(One simulator object; across a restart `_prev_isolated_*` is empty while flags persist — see C10.) -/
theorem reconnect_restores {s : Sim} (h : Good s) (ops1 ops2 : List Op)
    (h1 : ∀ op ∈ ops1, OpOk s.net op) (h2 : ∀ op ∈ ops2, OpOk s.net op) (v : Nat)
    (_hiso : (prepareSolve (run s ops1)).isoJ.getD v false = true)
    (hc : Connected s.net (prepareSolve (run s (ops1 ++ [Op.prepare] ++ ops2))).status v) :
    (prepareSolve (run s (ops1 ++ [Op.prepare] ++ ops2))).isoJ.getD v false = false := by
  apply connected_never_isolated h _ _ v hc
  intro op hop
  rcases List.mem_append.mp hop with h' | h'
  · rcases List.mem_append.mp h' with h'' | h''
    · exact h1 op h''
    · rw [List.mem_singleton.mp h'']; trivial
  · exact h2 op h'

/-! ## 3. `_initialize_internal_graph` establishes the invariant -/

/-- **csr_init_correct**: when `_initialize_internal_graph` succeeds on a network whose links are each listed once in
pipes ++ pumps ++ valves, and the structure it built satisfies the static contract, then both CSR entries of every link's
node pair are 1 iff at least one link between the pair is not Closed — including pairs with several links
(the zero-then-set pass overrides scipy's summed duplicates) — and the whole invariant `Good` holds at the start of the run. -/
theorem csr_init_correct (net : Net) (user internal : List Nat)
    (hok : (initGraph net user internal).1 = Outcome.ok)
    (hst : (initGraph net user internal).2.Static)
    (hperm : net.initOrder.Perm (List.range net.nl)) :
    Good (initGraph net user internal).2 ∧ Synced (initGraph net user internal).2 :=
  init_good net user internal hok hst hperm

/-- **csr_structure_correct**: the COO → CSR construction (`buildCsr`: per row the columns sorted and merged, `indptr` as prefix
counts — what scipy's `csr_matrix((vals, (rows, cols)), shape=(n, n))` does, compared array by array on every generated case) gives,
for EVERY network without self-loops whose links are each listed once in pipes ++ pumps ++ valves: `_get_csr_data_index` finds
both entries of every link, inside the rows the C++ loop scans and holding the other end as column; links of one node pair share
their two entries, links of different pairs share none; no row holds an entry that is not a link. -/
theorem csr_structure_correct (net : Net) (user internal : List Nat) (hends : endsOk net)
    (hperm : net.initOrder.Perm (List.range net.nl)) :
    (initGraph net user internal).1 = Outcome.ok ∧
    boundOk net (initGraph net user internal).2.ndx (initGraph net user internal).2.g.indices.length ∧
    posOk net (initGraph net user internal).2.ndx ∧
    rowsIn net (initGraph net user internal).2.ndx (initGraph net user internal).2.g.indptr
      (initGraph net user internal).2.g.indices (initGraph net user internal).2.g.nconn ∧
    rowsOut net (initGraph net user internal).2.ndx (initGraph net user internal).2.g.indptr
      (initGraph net user internal).2.g.indices (initGraph net user internal).2.g.nconn :=
  csr_structure net user internal hends hperm

/-- **csr_init_correct_of_topology**: `csr_init_correct` without any hypothesis on the CSR structure: valid link ends, no
self-loops, each link listed once, and the table of node pairs with several links (`multiTable`, the `n_links` counting of the
Python code; decidable, evaluated on every generated case) being right are enough for the whole invariant at the start of a run
(and of every restart: `InitOk`). -/
theorem csr_init_correct_of_topology (net : Net) (user internal : List Nat) (hends : endsOk net)
    (hperm : net.initOrder.Perm (List.range net.nl)) (hmulti : multiOk net (multiTable net)) :
    InitOk net ∧ Good (initGraph net user internal).2 ∧ Synced (initGraph net user internal).2 := by
  obtain ⟨h0, h1, h2, h3, h4⟩ := csr_structure net [] [] hends hperm
  obtain ⟨k0, k1, k2, k3, k4⟩ := csr_structure net user internal hends hperm
  have hst : (initGraph net user internal).2.Static := ⟨hends, k1, k2, k3, k4, hmulti⟩
  exact ⟨⟨h0, ⟨hends, h1, h2, h3, h4, hmulti⟩, hperm⟩, init_good net user internal k0 hst hperm⟩

/-! ## 4. stored results -/

/-- **isolated_reported_zero**: a flagged junction stores head, demand, pressure and leak 0; a flagged link stores flow 0 -/
theorem isolated_reported_zero {α} (zero : α) (solved : JRes α) (f : α) :
    (storeJunction zero true solved).head = zero ∧ (storeJunction zero true solved).demand = zero ∧
    (storeJunction zero true solved).pressure = zero ∧ (storeJunction zero true solved).leak = zero ∧
    storeLink zero true f = zero := ⟨rfl, rfl, rfl, rfl, rfl⟩

/-- an un-flagged junction / link stores what the solver computed -/
theorem connected_reported_solved {α} (zero : α) (solved : JRes α) (f : α) :
    storeJunction zero false solved = solved ∧ storeLink zero false f = f := ⟨rfl, rfl⟩

/-! ## 5. the source text: what is compiled / interpreted is what the theorems above are about

`Gen/IsolationShape.lean` is rewritten on every run from `network_isolation.cpp` (tokenizer + recursive descent) and from
`wntr/sim/core.py` (Python `ast`).  `Prog.refSearch` is the program `checkIsolated` is the meaning of (`exec_ref`, every input). -/

/-- **cpp_search_is_reference**: the statement skeleton parsed from the C++ source (loop nest, bounds, array loads, the `== 1`
tests, the stores into `node_indicator`, take-the-largest-out and `insert`) IS the reference program. -/
theorem cpp_search_is_reference : Gen.cppSearch = Prog.refSearch := by decide

/-- the parameter order of the C++ function and the argument order of the Python call agree, array by array -/
theorem cpp_call_is_reference :
    Gen.cppParams = Prog.refParams ∧ Gen.callArgs = Prog.refCallArgs ∧ Gen.callArgs = Gen.cppParams.map Prog.argFor := by decide

/-- counted loops of the reference program never assign their own counter or bound (what makes `exec`'s reading of `for` exact) -/
theorem reference_program_wf : Prog.refSearch.wf = true := by decide

/-- **cpp_search_means_checkIsolated**: running the parsed program text on ANY input leaves exactly the indicator
`checkIsolated` computes (whatever the scalar locals and the set held before). -/
theorem cpp_search_means_checkIsolated (g : Csr) (srcs : List Nat) (st : Prog.St) :
    (Prog.exec { sources := srcs, g := g } Gen.cppSearch st).ind = checkIsolated g srcs st.ind := by
  rw [cpp_search_is_reference]; exact Prog.exec_ref g srcs st

/-- hence the program text clears exactly the live nodes reachable from a live source through `data == 1` entries -/
theorem cpp_search_reaches_exactly (g : Csr) (srcs : List Nat) (st : Prog.St) (v : Nat) :
    (Reached g srcs st.ind v → (Prog.exec { sources := srcs, g := g } Gen.cppSearch st).ind.getD v 0 = 0) ∧
    (¬ Reached g srcs st.ind v → (Prog.exec { sources := srcs, g := g } Gen.cppSearch st).ind.getD v 0 = st.ind.getD v 0) := by
  rw [cpp_search_means_checkIsolated]; exact dfs_reaches_exactly g srcs st.ind v

/-- **search_fuel_suffices**: the `while` loop of every source always ends because the set is empty, never because the fuel
(number of nodes) of the model ran out: each pass takes one node out and every insertion clears a `1` of the indicator. -/
theorem search_fuel_suffices (g : Csr) (s : Nat) (ind : List Int) (h : ind.getD s 0 = 1) :
    (explore g ind.length (ind.set s 0) [s]).2 = [] := Prog.search_fuel_suffices_aux g s ind h

/-- **python_shape_is_reference**: `_initialize_internal_graph` walks pipes, pumps, valves (then all links for the position map,
tanks then reservoirs for the sources), `run_sim` seeds the previously-isolated sets from ALL junctions and ALL links,
`_initialize_internal_graph` / `_get_csr_data_index` / `_update_internal_graph` / `_get_isolated_junctions_and_links` have the
statement skeletons `initGraph` / `getCsrDataIndex` / `updateGraph` / `getIsolated` transliterate, the head of `run_sim` seeds,
builds the graph and takes the reference points unconditionally and in that order, and the loop body of `run_sim` calls them in the order `runPass` is written for. -/
theorem python_shape_is_reference :
    Gen.iter = Prog.refIter ∧ Gen.updateProg = Prog.refUpdate ∧ Gen.isolatedProg = Prog.refIsolated ∧
    Gen.initToks = Prog.refInitToks ∧ Gen.csrIndexToks = Prog.refCsrIndexToks ∧ Gen.headToks = Prog.refHeadToks ∧
    Gen.loopToks = Prog.refLoopToks := by decide

/-- **update_program_means_updateGraph**: interpreting the statement tree parsed from `_update_internal_graph` (change loop with its
Closed / not-Closed branches, the pass over node pairs with several links: first link zeroed, every non-Closed link sets 1, then
`reset_reference_point('graph')`) on ANY simulator state that meets the static contract gives exactly `updateGraph`. -/
theorem update_program_means_updateGraph {s : Sim} (hs : s.Static) (cur : Nat) (lst : List Nat) :
    Prog.applyP s (Prog.execP s Gen.updateProg { data := s.g.data, cur := cur, lst := lst, reset := false }) = updateGraph s := by
  rw [python_shape_is_reference.2.1]
  apply Prog.execP_ref
  intro e he hnil
  obtain ⟨k0, hk0, _⟩ := hs.2.2.2.2.2.1 e he
  rw [hnil] at hk0
  cases hk0

/-- **isolated_program_means_getIsolated**: interpreting the statement tree parsed from `_get_isolated_junctions_and_links`
(clear the flags of the previous sets, all-ones indicator, the compiled search, ids left at 1, flag each such junction and each of
its links, remember the new sets) on ANY simulator state gives exactly `getIsolated`; and the model updater is handed exactly
(the sets of the previous solve, the sets just computed). -/
theorem isolated_program_means_getIsolated (s : Sim) :
    Prog.applyI s (Prog.execI s Gen.isolatedProg (Prog.ISt.ofSim s)) = getIsolated s ∧
    (Prog.execI s Gen.isolatedProg (Prog.ISt.ofSim s)).handed =
      some ((s.prevIsoJ, s.prevIsoL), ((getIsolated s).prevIsoJ, (getIsolated s).prevIsoL)) := by
  rw [python_shape_is_reference.2.2.1]
  exact ⟨Prog.execI_ref s, Prog.execI_ref_handed s⟩

/-! ## 6. run level: every reported step, pauses and restarts included -/

/-- **restart_restores_invariant**: when `run_sim` starts on a network that still carries flags of an earlier run (a continued
simulation, possibly a NEW simulator object), seeding `_prev_isolated_*` from the flags of all junctions and all links — pipes,
pumps and valves — re-establishes the invariant, whatever the flags were. -/
theorem restart_restores_invariant {s : Sim} (hw : FlagsWf s) (hinit : InitOk s.net) :
    Good (startRun s).2 ∧ Synced (startRun s).2 := good_restart hw.lenJ hw.lenL hw.src hinit

/-- **reported_zero_iff_cut_off**: for every network (pipes, pumps, valves; parallel links), every list of legs (pause /
continue) and every list of passes of the loop body with ANY status actions of presolve / postsolve / feasibility controls on
existing links, every row `save_results` records shows a junction as zero iff, by the statuses reported IN THAT ROW, no path of
non-Closed links (Open and Active count as open) joins it to a tank or reservoir, and a link as zero iff it touches such a
junction. -/
theorem reported_zero_iff_cut_off {s : Sim} (hw : FlagsWf s) (hinit : InitOk s.net) (legs : List (List Pass))
    (hl : ∀ l ∈ legs, ∀ p ∈ l, PassOk s.net p) : ∀ r ∈ (runLegs s legs).2, RowOk s.net r :=
  (runLegs_ok hw hinit legs hl).2.2

/-- "for as long as it is cut off": in EVERY reported row in which junction `v` is cut off, its head, demand, pressure and leak
and the flow of each of its links are reported as zero -/
theorem cut_off_reported_zero {α} (zero : α) {s : Sim} (hw : FlagsWf s) (hinit : InitOk s.net) (legs : List (List Pass))
    (hl : ∀ l ∈ legs, ∀ p ∈ l, PassOk s.net p) (r : Row) (hr : r ∈ (runLegs s legs).2) (v : Nat) (hv : v < s.net.n)
    (hcut : ¬ Connected s.net (fun k => r.status.getD k 0) v) (solved : JRes α) :
    (r.junction zero v solved).demand = zero ∧ (r.junction zero v solved).pressure = zero ∧
    (r.junction zero v solved).head = zero ∧ (r.junction zero v solved).leak = zero ∧
    ∀ l ∈ s.net.linksOf v, ∀ f : α, r.linkFlow zero l f = zero := by
  obtain ⟨hJ, hL⟩ := reported_zero_iff_cut_off hw hinit legs hl r hr
  have e : r.isoJ.getD v false = true := (hJ v).mpr ⟨hv, hcut⟩
  unfold Row.junction Row.linkFlow
  rw [e]
  refine ⟨rfl, rfl, rfl, rfl, ?_⟩
  intro l hl' f
  have hlt : l < s.net.nl := by
    unfold Net.linksOf at hl'
    exact List.mem_range.mp (List.mem_filter.mp hl').1
  rw [(hL l).mpr ⟨hlt, v, hv, hcut, hl'⟩]
  rfl

/-- a junction with a path of non-Closed links to a source is reported with the solver's values in every row; in particular a
zone that was cut off in an earlier row and is reconnected reports normal results again -/
theorem connected_reported_solved_run {α} (zero : α) {s : Sim} (hw : FlagsWf s) (hinit : InitOk s.net) (legs : List (List Pass))
    (hl : ∀ l ∈ legs, ∀ p ∈ l, PassOk s.net p) (r : Row) (hr : r ∈ (runLegs s legs).2) (v : Nat)
    (hc : Connected s.net (fun k => r.status.getD k 0) v) (solved : JRes α) : r.junction zero v solved = solved := by
  obtain ⟨hJ, _⟩ := reported_zero_iff_cut_off hw hinit legs hl r hr
  unfold Row.junction
  cases e : r.isoJ.getD v false with
  | false => rfl
  | true => exact absurd hc ((hJ v).mp e).2

end Wntr.Isolation

/-! ## non-vacuity: a reservoir (0), two parallel links 0–1 (one reversed) and a link 1–2 -/
namespace Wntr.Isolation

def exNet : Net :=
  { n := 3, links := [(0, 1), (1, 0), (1, 2)], kind := [.pipe, .pipe, .pipe], initOrder := [0, 1, 2], sources := [0] }

def exSim : Sim := (initGraph exNet [1, 1, 1] [2, 2, 2]).2

example : (initGraph exNet [1, 1, 1] [2, 2, 2]).1 = Outcome.ok := by decide
example : exSim.Static := by decide
example : exNet.initOrder.Perm (List.range exNet.nl) := by decide
/-- the hypotheses of the history theorems are satisfiable -/
example : Good exSim := (csr_init_correct exNet _ _ (by decide) (by decide) (by decide)).1
/-- closing ONE of the parallel links isolates nothing; closing both isolates nodes 1, 2 and all links; reopening restores -/
example : (run exSim [.act true 0 0, .prepare]).isoJ = [false, false, false] := by decide
example : (run exSim [.act true 0 0, .act true 1 0, .prepare]).isoJ = [false, true, true] := by decide
example : (run exSim [.act true 0 0, .act true 1 0, .prepare]).isoL = [true, true, true] := by decide
example : (run exSim [.act true 0 0, .act true 1 0, .prepare, .act true 1 1, .prepare]).isoJ = [false, false, false] := by decide
example : (run exSim [.act true 0 0, .act true 1 0, .prepare, .act true 1 1, .prepare]).g.data = [1, 1, 1, 1] := by decide

/-! run level: reservoir 0 — pipe — 1 — PUMP — 2 — VALVE (Active) — 3; the pipe is closed for one reported step, the run is paused
while 1, 2, 3 are cut off and continued (new `startRun`) with the pipe reopened at the first step -/
def exNet2 : Net :=
  { n := 4, links := [(0, 1), (1, 2), (2, 3)], kind := [.pipe, .pump, .valve], initOrder := [0, 1, 2], sources := [0] }

def exLegs : List (List Pass) :=
  [[{ pre := [], post := [], report := true }, { pre := [(true, 0, 0)], post := [], report := true }],
   [{ pre := [(true, 0, 1)], post := [(false, 2, 1)], report := true }, { pre := [], post := [], report := true }]]

example : InitOk exNet2 := by decide
example : FlagsWf (freshSim exNet2 [1, 1, 2] [2, 2, 2]) := ⟨by decide, by decide, by decide⟩
example : ((runLegs (freshSim exNet2 [1, 1, 2] [2, 2, 2]) exLegs).2.map (·.isoJ)) =
    [[false, false, false, false], [false, true, true, true], [false, false, false, false]] := by decide
/-- the pump and the valve are un-flagged at the first step of the continued leg (what seeding from `wn.pipes()` only would miss) -/
example : ((runLegs (freshSim exNet2 [1, 1, 2] [2, 2, 2]) exLegs).2.map (·.isoL)) =
    [[false, false, false], [true, true, true], [false, false, false]] := by decide
/-- an Active valve counts as open; the valve's own control (internal status Active → Open after the solve) forces a re-solve,
so that pass reports nothing -/
example : ((runLegs (freshSim exNet2 [1, 1, 2] [2, 2, 2]) exLegs).2.map (·.status)) = [[1, 1, 2], [0, 1, 2], [1, 1, 1]] := by decide

end Wntr.Isolation
