/-
C18 — valve segmentation is exactly the partition induced by the valve layer.

Specification: the *valve-cut incidence graph* on nodes ∪ links, with an edge between link `k` and node `u` iff `u` is an
end of `k` and the layer has no valve `(k, u)`.  `SameSeg` is its reflexive-transitive closure (the relation is symmetric).
Theorems are for EVERY multigraph without self-loops (parallel links, dead ends, link-less nodes), EVERY valid valve layer
(any multiset of link-end pairs: duplicates allowed) and EVERY component-index function `comp` satisfying the contract
`CompOk` of `networkx.connected_components` on the graph without the valved links.
-/
import WntrModel.Lemmas.Segments
import WntrModel.Lemmas.SegmentsComp
import WntrModel.Lemmas.SegmentsShape
import WntrModel.Gen.SegmentsShape
import Mathlib.Tactic.FieldSimp
import Mathlib.Tactic.Ring
import Mathlib.Tactic.Linarith
import Mathlib.Algebra.Order.Field.Rat

namespace Wntr.Segments

/-! Definitions (Lemmas/Segments.lean): `Vtx` (node u | link k); `IncNL i k u` (k < #links, u an end of k, no valve (k,u));
`Inc`/`SameSeg` (incidence and its reflexive-transitive closure); `InG` (vertex exists); `label` (nodeLabel / linkLabel);
`UAdj` (joined by a link without any valve); `CompOk` (contract of connected_components). -/

/-! ### labels are positive -/

/-- **labels_positive**: every node and link gets a positive segment number (no hypothesis needed) -/
theorem labels_positive (i : Inp) (comp : Nat → Nat) (a : Vtx) : 0 < label i comp a := by
  cases a with
  | node u =>
    show 0 < i.nodeLabel comp u
    unfold Inp.nodeLabel; omega
  | link k =>
    show 0 < i.linkLabel comp k
    unfold Inp.linkLabel
    split
    · unfold Inp.isoLabel; omega
    · unfold Inp.nodeLabel; omega

/-! ### the partition theorem -/

/-- **labels_partition_spec**: two elements (nodes or links) share a segment number exactly when they can be joined
without passing a valve. -/
theorem labels_partition_spec (i : Inp) (comp : Nat → Nat) (hv : i.valid = true) (hc : CompOk i comp)
    (a b : Vtx) (ha : InG i a) (hb : InG i b) : label i comp a = label i comp b ↔ SameSeg i a b := by
  constructor
  · intro h
    rcases vertex_cases hv comp a ha with ⟨k, ea, hk, hik, la⟩ | ⟨w, hw, sa, la⟩ <;>
      rcases vertex_cases hv comp b hb with ⟨k', eb, hk', hik', lb⟩ | ⟨w', hw', sb, lb⟩
    · have : k = k' := isoLabel_inj i hik hik' (by rw [← la, ← lb, h])
      rw [ea, eb, this]; exact Relation.ReflTransGen.refl
    · exfalso
      have h1 := isoLabel_le i hk hik
      have h2 := nodeLabel_gt i comp w'
      rw [la, lb] at h; omega
    · exfalso
      have h1 := isoLabel_le i hk' hik'
      have h2 := nodeLabel_gt i comp w
      rw [la, lb] at h; omega
    · have hcw : comp w = comp w' := (nodeLabel_eq_iff i comp w w').mp (by rw [← la, ← lb, h])
      have hp := (hc w w' hw hw').mp hcw
      exact (sa.trans (uadj_sameSeg hv hp)).trans (sameSeg_symm sb)
  · intro h
    clear hb
    induction h with
    | refl => rfl
    | tail _ hs ih =>
      rw [ih]
      rename_i x y _
      cases x <;> cases y
      · cases hs
      · exact incNL_label hv hc hs
      · exact (incNL_label hv hc hs).symm
      · cases hs

/-- **labels_partition_concrete**: the same statement with NO hypothesis on a components function: for the concrete one of
`Model/Segments.lean` (`compChecked`: min-label relaxation + closure test, `compChecked_ok`), which the driver runs -/
theorem labels_partition_concrete (i : Inp) (hv : i.valid = true) (lab : List Nat) (h : compChecked i = some lab)
    (a b : Vtx) (ha : InG i a) (hb : InG i b) :
    label i (fun u => lab.getD u 0) a = label i (fun u => lab.getD u 0) b ↔ SameSeg i a b :=
  labels_partition_spec i _ hv (compChecked_ok i hv lab h) a b ha hb

/-- the contract is met by the concrete function (re-exported as an obligation of this property) -/
theorem components_contract_concrete (i : Inp) (hv : i.valid = true) (lab : List Nat) (h : compChecked i = some lab) :
    CompOk i (fun u => lab.getD u 0) := compChecked_ok i hv lab h

/-! ### sizes -/

/-- **sizes_count_members**: the reported node / link count of segment `s` is the number of nodes / links labelled `s` -/
theorem sizes_count_members (n nl : Nat) (nlab llab : Nat → Nat) (s : Nat) :
    nodeSize n nlab s = (List.range n).countP (fun u => nlab u == s) ∧
    linkSize nl llab s = (List.range nl).countP (fun k => llab k == s) := by
  unfold nodeSize linkSize
  exact ⟨(List.countP_eq_length_filter).symm, (List.countP_eq_length_filter).symm⟩

/-! ### attributes -/

/-- **num_surround_spec**: 0 when both sides of the valve are the same segment; otherwise the valves (rows of the
de-duplicated layer) whose link or node lies in either of the two segments are `num_surround` OTHER valves plus the valve itself. -/
theorem num_surround_spec (rows : List (Nat × (Nat × Nat))) (nlab llab : Nat → Nat) (r : Nat × Nat) :
    (nlab r.2 = llab r.1 → numSurround rows nlab llab r = 0) ∧
    (nlab r.2 ≠ llab r.1 → (∃ x ∈ rows, x.2 = r) →
      numSurround rows nlab llab r + 1 = (rows.filter fun x => touches nlab llab (llab r.1) (nlab r.2) x.2).length) := by
  constructor
  · intro h; unfold numSurround; simp [h]
  · rintro h ⟨x, hx, rfl⟩
    unfold numSurround
    have hne : (nlab x.2.2 == llab x.2.1) = false := by simpa using h
    rw [hne]
    simp only [Bool.false_eq_true, if_false]
    have hpos : 0 < (rows.filter fun y => touches nlab llab (llab x.2.1) (nlab x.2.2) y.2).length := by
      apply List.length_pos_of_mem (a := x)
      rw [List.mem_filter]
      exact ⟨hx, by unfold touches; simp⟩
    omega

/-- **increase_spec**: `(a + b) / max(a, b) - 1`, which is 0 when both are 0 and `min/max` for non-negative totals -/
theorem increase_spec (a b : Rat) :
    (a = 0 → b = 0 → increase a b = 0) ∧
    (a ≤ b → 0 < b → increase a b = a / b) ∧
    (b ≤ a → 0 < a → increase a b = b / a) := by
  refine ⟨?_, ?_, ?_⟩
  · intro ha hb; unfold increase; rw [if_pos ⟨ha, hb⟩]
  · intro hab hb
    unfold increase ratMax
    rw [if_neg (fun h => (ne_of_gt hb) h.2), if_pos hab]
    have : b ≠ 0 := ne_of_gt hb
    field_simp
    ring
  · intro hba ha
    unfold increase ratMax
    rw [if_neg (fun h => (ne_of_gt ha) h.1)]
    by_cases hab : a ≤ b
    · have : a = b := le_antisymm hab hba
      subst this
      rw [if_pos hab]
      have : a ≠ 0 := ne_of_gt ha
      field_simp
      ring
    · rw [if_neg hab]
      have : a ≠ 0 := ne_of_gt ha
      field_simp
      ring

/-- the demand / length increase of a valve whose two sides are the same segment is 0 -/
theorem increase_same_segment (n : Nat) (nlab llab : Nat → Nat) (w : Nat → Rat) (r : Nat × Nat) (h : nlab r.2 = llab r.1) :
    demandIncrease n nlab llab w r = 0 ∧ lengthIncrease n nlab llab w r = 0 := by
  unfold demandIncrease lengthIncrease
  simp [h]

/-! ### non-vacuity: 0 —L0— 1 =L1,L2= 2 —L3— 3, valves (L0,1) twice, (L1,1), (L1,2), (L3,3) -/

def exInp : Inp := { n := 4, links := [(0, 1), (1, 2), (1, 2), (2, 3)], layer := [(0, 1), (0, 1), (3, 3), (1, 1), (1, 2)] }

example : exInp.valid = true := by decide
example : (List.range 4).map (exInp.nodeLabel (compMin exInp)) = [2, 3, 3, 5] := by decide
example : (List.range 4).map (exInp.linkLabel (compMin exInp)) = [2, 1, 3, 3] := by decide
example : exInp.rows.map (·.1) = [0, 2, 3, 4] := by decide
/-- the valve (L0, 1) separates segment 2 = {0, L0} from segment 3 = {1, 2, L2, L3}; all four valves touch them -/
example : numSurround exInp.rows (exInp.nodeLabel (compMin exInp)) (exInp.linkLabel (compMin exInp)) (0, 1) = 3 := by decide
example : increase 1 5 = 1 / 5 := by decide +kernel

end Wntr.Segments

namespace Wntr.Segments
/-- non-vacuity of `labels_partition_concrete`: the concrete components function accepts the example (nodes 1 and 2 are joined
by the unvalved parallel link 2) -/
example : compChecked exInp = some [0, 1, 1, 3] := by decide
end Wntr.Segments

/-! ### the generated statement skeleton -/
namespace Wntr.Segments.Shape

/-- **generated_segments_shape_is_ref**: the skeleton of `valve_segments` / `_valve_criticality*` that the `ast` translator reads off
the CURRENT source (de-duplication, setup, the five labelling passes with their guards and statements in order, the valved-link
definition, the final assembly, the attribute formulas) is the reference skeleton.  An edit to those functions fails HERE. -/
theorem generated_segments_shape_is_ref : Gen.segShape = refShape := by decide

/-- **generated_labels_are_model**: executing the generated skeleton the way Python does (running `seg_index`, in-place
`seg_label`) gives no exception and exactly the closed-form labels the other theorems of this file are about -/
theorem generated_labels_are_model (i : Inp) (hv : i.valid = true) (comp : Nat → Nat) (ncomp : Nat)
    (hc : ∀ u, u < i.n → comp u < ncomp) :
    (interp Gen.segShape i comp ncomp).raised = false ∧
    (∀ u, u < i.n → (interp Gen.segShape i comp ncomp).lab u = i.nodeLabel comp u) ∧
    (∀ k, k < i.nl → (interp Gen.segShape i comp ncomp).lab (i.n + k) = i.linkLabel comp k) := by
  rw [generated_segments_shape_is_ref]
  exact interp_ref_is_model i hv comp ncomp hc

/-- hence the partition statement holds of the labels the interpreted generated skeleton computes, with the concrete components function -/
theorem generated_labels_partition (i : Inp) (hv : i.valid = true) (lab : List Nat) (h : compChecked i = some lab) (ncomp : Nat)
    (hc : ∀ u, u < i.n → lab.getD u 0 < ncomp) (a b : Vtx) (ha : InG i a) (hb : InG i b) :
    let pos : Vtx → Nat := fun v => match v with | .node u => u | .link k => i.n + k
    (interp Gen.segShape i (fun u => lab.getD u 0) ncomp).lab (pos a) = (interp Gen.segShape i (fun u => lab.getD u 0) ncomp).lab (pos b)
      ↔ Wntr.Segments.SameSeg i a b := by
  intro pos
  obtain ⟨_, hn, hl⟩ := generated_labels_are_model i hv (fun u => lab.getD u 0) ncomp hc
  have hpos : ∀ v, InG i v → (interp Gen.segShape i (fun u => lab.getD u 0) ncomp).lab (pos v) = label i (fun u => lab.getD u 0) v := by
    intro v hvv
    cases v with
    | node u => exact hn u hvv
    | link k => exact hl k hvv
  rw [hpos a ha, hpos b hb]
  exact labels_partition_concrete i hv lab h a b ha hb

/-- the attribute formulas of the generated skeleton are `numSurround`, `demandIncrease`, `lengthIncrease` -/
theorem generated_attributes_are_model (rows : List (Nat × (Nat × Nat))) (n nl : Nat) (nlab llab : Nat → Nat) (dem len : Nat → Rat) (r : Nat × Nat) :
    interpNumSurround Gen.segShape.attrs rows nlab llab r = some (numSurround rows nlab llab r) ∧
    interpDemand Gen.segShape.attrs n nlab llab dem r = some (demandIncrease n nlab llab dem r) ∧
    interpLength Gen.segShape.attrs nl nlab llab len r = some (lengthIncrease nl nlab llab len r) := by
  rw [generated_segments_shape_is_ref]
  exact ⟨interp_numSurround_ref rows nlab llab r, interp_demand_ref n nlab llab dem r, interp_length_ref nl nlab llab len r⟩

/-- non-vacuity: the interpreter run on the example of this file (component ids 0, 1, 1, 3 -> numbering 0, 1, 1, 2) -/
example : let s := interp refShape exInp (fun u => [0, 1, 1, 2].getD u 0) 3
    s.raised = false ∧ (List.range 4).map s.lab = [2, 3, 3, 4] ∧ (List.range 4).map (fun k => s.lab (4 + k)) = [2, 1, 3, 3] := by
  decide

/-- an edited skeleton is not the reference: taking the SECOND node in the unvalved pass / `len(V_list)` without the -1 -/
example : ({ refShape with attrs := { refShape.attrs with count := .len } } : SegShape) ≠ refShape := by decide

end Wntr.Segments.Shape
