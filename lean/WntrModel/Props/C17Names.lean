/-
C17, string forms and containers.

* every FlowUnits / HydParam / QualParam / MassUnits member is found under its name in any of the spellings the enums register
  (reflection rows of `Gen/UnitsNames.lean`); the INP `UNITS` keyword is read by `FlowUnits[word.upper()]` and written as
  `.name` (`ast` of wntr/epanet/io.py, a broken tie otherwise): each of the ten EPANET keywords, in either case, is read as the
  member of that name, written back as the same word, its id has all 126 rows of the conversion table, and it is
  `is_traditional` exactly for CFS GPM MGD IMGD AFD (`is_metric` exactly for LPS LPM MLD CMH CMD) -- and the table rows
  used for it convert lengths with 0.3048 exactly in the traditional case, with 1 otherwise (`inp_keyword_maps_to_row`).
* containers: a conversion keeps kind, keys / index / columns / name / shape and sizes of its container and acts value by
  value (`data_labels_preserved`, `data_values_pointwise`); every factor of the table is positive, so NaN, +inf and -inf
  come back as themselves in both directions (`nonfinite_passthrough`); the round trip of a container is the container,
  every finite value within 1e-14 relative (`container_inverse`).
-/
import WntrModel.Model.UnitsNames
import WntrModel.Gen.Units
import WntrModel.Gen.UnitsNames
import WntrModel.Props.C17
import Mathlib.Tactic.NormNum

namespace Wntr.Units

/-! ### names -/

def UnitName.ok (u : UnitName) : Bool :=
  u.byName == some u.id && u.byLower == some u.id && u.byId == some u.id &&
  u.inpRead == some u.id && u.inpReadLower == some u.id && u.inpWrite == u.name

/-- lookups by name (upper / lower case) and by EPANET id give the member itself; the INP reader and writer agree on the word -/
theorem unit_names_consistent : Gen.unitNames.all UnitName.ok = true := by decide +kernel

/-- the members are the ten EPANET keywords and SI, with the EPANET toolkit ids -/
theorem unit_names_are_epanet_keywords :
    (Gen.unitNames.map fun u => (u.name, u.id)) =
      [("CFS", 0), ("GPM", 1), ("MGD", 2), ("IMGD", 3), ("AFD", 4), ("LPS", 5), ("LPM", 6), ("MLD", 7), ("CMH", 8), ("CMD", 9), ("SI", 11)] := by
  decide +kernel

def lengthParam : Option Nat := (Gen.paramNames.find? fun p => p.hyd && p.name == "Length").map (·.value)

/-- the factor the table rows of unit `id` apply to a length -/
def lengthFactor (id : Nat) : Option Rat :=
  match lengthParam with
  | none => none
  | some lp => (lookup Gen.table true lp id 0 0 false).map fun e => factor e.toSteps

def UnitName.rowOk (u : UnitName) : Bool :=
  (Gen.table.filter fun e => e.unit == u.id).length == 126 &&
  u.traditional == usKeywords.contains u.name && u.metric == metricKeywords.contains u.name &&
  (match lengthFactor u.id with
   | some f => relClose f (if u.traditional then ft else 1)
   | none => false)

/-- per member: all 126 table rows exist for its id; traditional iff one of the five US keywords, metric iff one of the five
metric ones (SI is neither); its rows convert a length with 0.3048 (the double, 1e-5 relative as in `factors_are_definitions`) iff traditional, with 1 otherwise -/
theorem unit_rows_traditional_iff_us : Gen.unitNames.all UnitName.rowOk = true := by decide +kernel

/-- **`inp_keyword_maps_to_row`**: every INP units keyword, in upper or lower case, is read as the FlowUnits member of that
name, is written back as the same word, and the table rows used for it are the US ones exactly when the keyword is a US one -/
theorem inp_keyword_maps_to_row (k : String) (hk : k ∈ epanetKeywords) :
    ∃ u ∈ Gen.unitNames, u.name = k ∧ u.inpRead = some u.id ∧ u.inpReadLower = some u.id ∧ u.inpWrite = k ∧
      (u.traditional = true ↔ k ∈ usKeywords) ∧ (u.metric = true ↔ k ∈ metricKeywords) ∧
      (∃ f, lengthFactor u.id = some f ∧ relClose f (if k ∈ usKeywords then ft else 1) = true) := by
  have h : (epanetKeywords.all fun k => Gen.unitNames.any fun u =>
      u.name == k && u.inpRead == some u.id && u.inpReadLower == some u.id && u.inpWrite == k &&
      (u.traditional == usKeywords.contains k) && (u.metric == metricKeywords.contains k) &&
      (match lengthFactor u.id with
       | some f => relClose f (if usKeywords.contains k then ft else 1)
       | none => false)) = true := by decide +kernel
  obtain ⟨u, hu, hp⟩ := List.any_eq_true.mp (List.all_eq_true.mp h k hk)
  simp only [Bool.and_eq_true, beq_iff_eq] at hp
  obtain ⟨⟨⟨⟨⟨⟨h1, h2⟩, h3⟩, h4⟩, h5⟩, h6⟩, h7⟩ := hp
  refine ⟨u, hu, h1, h2, h3, h4, ?_, ?_, ?_⟩
  · rw [h5]; simp
  · rw [h6]; simp
  · cases hf : lengthFactor u.id with
    | none => simp [hf] at h7
    | some f =>
      refine ⟨f, rfl, ?_⟩
      simp only [hf] at h7
      by_cases hc : k ∈ usKeywords
      · simpa [hc] using h7
      · simpa [hc] using h7

def ParamName.ok (p : ParamName) : Bool :=
  p.byName == some p.value && p.byUpper == some p.value && p.byLower == some p.value

/-- `HydParam['Flow']`, `HydParam['FLOW']`, `HydParam['flow']` (same for QualParam) are the member itself -/
theorem param_names_consistent : Gen.paramNames.all ParamName.ok = true := by decide +kernel

/-- the named parameters are exactly the (class, value) pairs the conversion table has rows for -/
theorem param_names_cover_table :
    (Gen.table.all fun e => Gen.paramNames.any fun p => p.hyd == e.hyd && p.value == e.param) = true ∧
    (Gen.paramNames.all fun p => Gen.table.any fun e => p.hyd == e.hyd && p.value == e.param) = true := by
  constructor <;> decide +kernel

theorem mass_names_consistent :
    (Gen.massNames.all fun m => m.byName == some m.id && m.byLower == some m.id) = true ∧
    Gen.massNames.map (fun m => (m.name, m.id)) = [("mg", 1), ("ug", 2), ("g", 3), ("kg", 4)] := by
  constructor <;> decide +kernel

/-! ### every reaction order -/

/-- **`order_branching_same_both_directions`**: `QualParam._to_si` and `_from_si` decide on the reaction order in the SAME way (`ast`
of both functions): neither re-assigns / normalises `reaction_order` (no `int(...)`, `round(...)`), and both make exactly the
comparisons `== 1` (bulk), `== 0`, `== 1` (wall) in this order.  A normalisation in one direction only, or two different ones,
fails here by name. -/
theorem order_branching_same_both_directions :
    Gen.orderBranching.normTo = [] ∧ Gen.orderBranching.normFrom = [] ∧
    Gen.orderBranching.testsTo = ["reaction_order == 1", "reaction_order == 0", "reaction_order == 1"] ∧
    Gen.orderBranching.testsFrom = Gen.orderBranching.testsTo := by
  decide

/-- a probe is well treated: both directions perform the chains of the same integer-order rows, there is such a row, and for a
numeric order it is the row of `orderRow` -/
def OrderProbe.ok (r : OrderProbe) : Bool :=
  r.toRows == r.fromRows && !r.toRows.isEmpty &&
  (match r.value with
   | some v => r.toRows.contains (orderRow v)
   | none => true)

/-- **`order_probes_same_row`**: for every QualParam member and every probed form of the order (integers, floats equal to integers,
fractional orders 0.3 … 2.5, negative, 3, numpy integers / floats, `True`, strings) the chains traced from `_to_si` and from
`_from_si` are those of the SAME row of the table, the one `orderRow` names -/
theorem order_probes_same_row : Gen.orderProbes.all OrderProbe.ok = true := by decide +kernel

/-- the probes include fractional orders for both reaction coefficients (non-vacuity) -/
example : (Gen.orderProbes.filter fun r => r.label == "1.5" && r.toRows == r.fromRows && r.toRows.contains 2).length ≥ 2 := by decide +kernel

/-- **`inverse_every_order`**: for an arbitrary (rational) reaction order both directions use the row `orderRow o` of the traced
table, so from_si ∘ to_si is the identity up to 1e-14 relative for EVERY order, not only 0, 1, 2 -/
theorem inverse_every_order (o : Rat) (e : Entry) (he : e ∈ Gen.table) (_hrow : e.order = orderRow o) (x : Rat) :
    |e.fromSI (e.toSI x) - x| ≤ epsInv * |x| ∧ |e.toSI (e.fromSI x) - x| ≤ epsInv * |x| :=
  ⟨fromSI_toSI e he x, toSI_fromSI e he x⟩

/-- the three rows exist for every quality parameter, flow unit and mass unit (`table_complete` lists the keys; here: as many
entries of each order, and `orderRow` only ever names one of the three) -/
theorem order_rows_complete :
    ((Gen.table.filter fun e => !e.hyd && e.order == 0).length == (Gen.table.filter fun e => !e.hyd && e.order == 1).length &&
     (Gen.table.filter fun e => !e.hyd && e.order == 1).length == (Gen.table.filter fun e => !e.hyd && e.order == 2).length) = true ∧
    ∀ o : Rat, orderRow o ∈ [0, 1, 2] := by
  constructor
  · decide +kernel
  · intro o
    unfold orderRow
    split
    · simp
    · split <;> simp

/-- what a one-sided normalisation does (the seeded change C17-7: `int(float(o))` in one direction, `int(round(float(o)))` in the
other): at 1.5 the directions use rows 1 and 2 -- the probe condition is false -/
example : OrderProbe.ok { label := "1.5", value := some (3 / 2), param := 36, toRows := [1], fromRows := [0, 2] } = false := by decide +kernel

/-- **`signatures_are_documented`**: the parameter order of the public `to_si` / `from_si` and of the enum methods is the documented one
(callers pass `mass_units, pressure_units, darcy_weisbach, reaction_order` positionally); read by `inspect` on every run -/
theorem signatures_are_documented :
    Gen.signatures =
      [("to_si", ["from_units", "data", "param", "mass_units", "pressure_units", "darcy_weisbach", "reaction_order"]),
       ("from_si", ["to_units", "data", "param", "mass_units", "pressure_units", "darcy_weisbach", "reaction_order"]),
       ("HydParam._to_si", ["self", "flow_units", "data", "darcy_weisbach"]),
       ("HydParam._from_si", ["self", "flow_units", "data", "darcy_weisbach"]),
       ("QualParam._to_si", ["self", "flow_units", "data", "mass_units", "reaction_order"]),
       ("QualParam._from_si", ["self", "flow_units", "data", "mass_units", "reaction_order"])] := by
  decide +kernel

/-! ### every factor against the exact literal of ITS definition -/

/-- the flow factors as EPANET / WNTR document them.  Two literals are not the physical value: 1 ft3 is written 0.0283168466 m3
(0.3048^3 = 0.028316846592, 2.8e-10 relative) and 1 acre-foot 1233.48184 m3 (43560 * 0.3048^3 = 1233.48183754752, 2e-9 relative).
The gallons are exact: US 3.785411784 L, Imperial 4.54609 L. -/
def flowLit : Nat → Rat
  | 0 => 283168466 / 10 ^ 10
  | 4 => (123348184 / 10 ^ 5) / 86400
  | u => flowSpec u

/-- 1 ft2 is written 0.092903 m2 in the wall-coefficient conversion (0.3048^2 = 0.09290304, 4.3e-7 relative) -/
def ft2Lit : Rat := 92903 / 10 ^ 6

def tightSpec (e : Entry) : Option Rat :=
  if e.hyd then
    match e.param with
    | 1 | 7 => some (flowLit e.unit)
    | 31 => none
    | _ => spec e
  else
    match e.param with
    | 37 => some (if e.order = 0 then massSpec e.mass * (if traditional e.unit then ft2Lit else 1) / 86400
                  else if e.order = 1 then (if traditional e.unit then ft else 1) / 86400 else 1)
    | _ => spec e

def tightTol : Rat := 1 / 10 ^ 12

def tightClose (a b : Rat) : Bool := decide (b - tightTol * b ≤ a) && decide (a ≤ b + tightTol * b)

def Entry.tightOk (e : Entry) : Bool :=
  match tightSpec e with
  | some s => tightClose (factor e.toSteps) s
  | none => tightClose ((factor e.toSteps) ^ 2) ((flowLit e.unit) ^ 2 * (if traditional e.unit then psiPerFt / ft else 1))

/-- **`factors_are_exact_literals`**: every traced factor equals the documented literal of ITS definition to 1e-12 relative (the
rounding of a few double operations): 0.003785411784 and 0.00454609 m3 per gallon, 0.3048 m per foot, 0.0254 m per inch,
0.3048/0.4333 m per psi, 745.699872 W per hp, 0.0283168466 m3 per ft3 of FLOW, 1233.48184 m3 per acre-foot, 0.092903 m2 per ft2,
(0.3048)^3 for volumes, the powers of ten for litres / mass units, 86400 / 3600 / 60 s.  A constant derived another way (the
Imperial gallon as 1.20095 US gallons: 6e-8 off) fails here; the loose 1e-5 of `factors_are_definitions` is needed nowhere. -/
theorem factors_are_exact_literals : Gen.table.all Entry.tightOk = true := by decide +kernel

/-- where EPANET's own literal is not the physical constant, and by how much (these three only) -/
theorem literals_vs_physical :
    |flowLit 0 - ft ^ 3| ≤ 3 / 10 ^ 10 * ft ^ 3 ∧ |flowLit 4 - 43560 * ft ^ 3 / 86400| ≤ 3 / 10 ^ 9 * (43560 * ft ^ 3 / 86400) ∧
    |ft2Lit - ft ^ 2| ≤ 5 / 10 ^ 7 * ft ^ 2 ∧ (∀ u, u ≠ 0 → u ≠ 4 → flowLit u = flowSpec u) := by
  refine ⟨?_, ?_, ?_, ?_⟩
  · norm_num [flowLit, ft, abs_le]
  · norm_num [flowLit, ft, abs_le]
  · norm_num [ft2Lit, ft, abs_le]
  · intro u h0 h4
    unfold flowLit
    split <;> simp_all

/-! ### containers -/

theorem data_labels_preserved (g : XVal → XVal) (d : Data) : (d.map g).labels = d.labels := by
  cases d <;> simp [Data.map, Data.labels, Function.comp_def]

theorem data_values_pointwise (g : XVal → XVal) (d : Data) : (d.map g).values = d.values.map g := by
  cases d <;> simp [Data.map, Data.values, List.map_flatten]

/-- every conversion factor of the table is positive, in both directions -/
theorem table_factors_positive :
    (Gen.table.all fun e => decide (0 < factor e.toSteps) && decide (0 < factor e.fromSteps)) = true := by decide +kernel

theorem scale_nonfinite (f : Rat) (hf : 0 < f) :
    XVal.scale f .nan = .nan ∧ XVal.scale f .pinf = .pinf ∧ XVal.scale f .ninf = .ninf := by
  simp [XVal.scale, hf]

/-- **`nonfinite_passthrough`**: NaN, +inf, -inf are returned as they are by every conversion of the table -/
theorem nonfinite_passthrough (e : Entry) (he : e ∈ Gen.table) (x : XVal) (hx : ∀ q, x ≠ .fin q) :
    XVal.scale (factor e.toSteps) x = x ∧ XVal.scale (factor e.fromSteps) x = x := by
  have h := List.all_eq_true.mp table_factors_positive e he
  simp only [Bool.and_eq_true, decide_eq_true_eq] at h
  cases x with
  | fin q => exact absurd rfl (hx q)
  | nan => simp [XVal.scale]
  | pinf => simp [XVal.scale, h.1, h.2]
  | ninf => simp [XVal.scale, h.1, h.2]

theorem scale_fin (f q : Rat) : XVal.scale f (.fin q) = .fin (q * f) := rfl

/-- the value-level round trip: finite values within 1e-14 relative, the others exactly -/
def XVal.near (a b : XVal) : Prop :=
  match a, b with
  | .fin p, .fin q => |p - q| ≤ epsInv * |q|
  | a, b => a = b

theorem value_inverse (e : Entry) (he : e ∈ Gen.table) (x : XVal) :
    XVal.near (XVal.scale (factor e.fromSteps) (XVal.scale (factor e.toSteps) x)) x := by
  cases x with
  | fin q =>
    have h := fromSI_toSI e he q
    simp only [Entry.fromSI, Entry.toSI, applySteps_eq_mul_factor] at h
    simpa [XVal.scale, XVal.near] using h
  | nan =>
    have := nonfinite_passthrough e he .nan (by intro q h; cases h)
    simp [XVal.near, this.1, this.2]
  | pinf =>
    have := nonfinite_passthrough e he .pinf (by intro q h; cases h)
    simp [XVal.near, this.1, this.2]
  | ninf =>
    have := nonfinite_passthrough e he .ninf (by intro q h; cases h)
    simp [XVal.near, this.1, this.2]

/-- **`container_inverse`**: `from_si(to_si(d))` has the kind, labels and sizes of `d`, and its values are those of `d`,
position by position (finite ones within 1e-14 relative, NaN / ±inf exactly) -/
theorem container_inverse (e : Entry) (he : e ∈ Gen.table) (d : Data) :
    (e.fromSIData (e.toSIData d)).labels = d.labels ∧
    (e.fromSIData (e.toSIData d)).values.length = d.values.length ∧
    ∀ i (h1 : i < (e.fromSIData (e.toSIData d)).values.length) (h2 : i < d.values.length),
      XVal.near ((e.fromSIData (e.toSIData d)).values[i]) (d.values[i]) := by
  refine ⟨by simp [Entry.fromSIData, Entry.toSIData, data_labels_preserved], by simp [Entry.fromSIData, Entry.toSIData, data_values_pointwise], ?_⟩
  intro i h1 h2
  simp only [Entry.fromSIData, Entry.toSIData, data_values_pointwise, List.getElem_map]
  exact value_inverse e he _

/-- non-vacuity: a DataFrame with a NaN, GPM lengths -/
example : (Data.frame ["t0", "t1"] ["n1", "n2"] [[.fin 1, .nan], [.pinf, .fin 2]]).map (XVal.scale (3048 / 10000)) =
    Data.frame ["t0", "t1"] ["n1", "n2"] [[.fin (3048 / 10000), .nan], [.pinf, .fin (6096 / 10000)]] := by
  decide +kernel

end Wntr.Units
