/-
C08 — leaks discharge Cd·A·√(2·g·p) only while active and only at positive pressure.

Theorems are about definitions REGENERATED from the current source on every run (Gen/RowsC08.lean, Gen/RowsC07.lean):
`m.leak_con[n]`, `m.mass_balance[j]` / `m.pdd_mass_balance[j]` of a zoo (junction and tank leaks, active / inactive /
isolated, DD and PDD), `leak_poly_coeffs_param`'s spline inputs, `cubic_spline`, `leak_constants`.
The generated rows are compared SEMANTICALLY with the parametric rows (`Norm.rowSem`, sound by `Norm.rowSem_sound`).  The
ModelUpdater registrations of the zoo are generated too (section 6).  The activation window is Props/C08Window.lean.
-/
import WntrModel.Lemmas.RowsSplineGen
import WntrModel.Lemmas.RowsNorm
import WntrModel.Gen.RowsC08

set_option linter.unusedSimpArgs false

namespace Wntr.Rows
open Wntr.Aml

/-- `2.0*9.81` as the double the code uses -/
def twoG : Rat := (5522539043063071 : Rat) / 281474976710656
/-- `(2.0*9.81)**0.5` as the double `leak_poly_coeffs_param` uses in the end slope -/
def sqrtTwoG : Rat := (623389234052423 : Rat) / 140737488355328

theorem twoG_is_2g : |twoG - 2 * (981 / 100)| ≤ 1 / 10 ^ 14 ∧
    |sqrtTwoG * sqrtTwoG - twoG| ≤ twoG / 10 ^ 15 := by
  constructor <;> decide +kernel

/-! ### 1. generated rows are instances of the parametric rows; the leak is in the mass balance iff active -/

/-- every zoo node, DD and PDD: junction mass balance = demand − Σ inflow + Σ outflow (+ leak_rate iff leak_status), absent
when isolated, none for tanks; `m.leak_con[n]` exists iff `leak_status ∧ ¬isolated` and then IS the parametric leak row
(junction: head variable / elevation parameter; tank: source-head parameter / elevation constant) -/
theorem gen_rows_are_leakRow :
    GenC08.zoo.all (fun z => z.ok GenC08.leakDelta GenC08.leakSlope twoG) = true := by decide +kernel

/-- the row of a junction leak written differently (`inequality(h − elev, ub = 0)`, `p ≤ δ` as `p − δ ≤ 0`, cubic in
ascending powers, `(A·Cd)·((h − elev)·2g)**0.5`); `sgn`, `ub`, `g`, `swap` switch on one defect each -/
def leakRowAlt (h elev : Expr) (rate a b c d area cd : Nat) (delta slope g sgn : Rat) (swap : Bool) : Expr :=
  let p := eSub h elev
  let r : Expr := .var rate
  let A : Expr := .param (if swap then cd else area)
  let C : Expr := .param (if swap then area else cd)
  condExpr [
    (.ineq p none (some 0), eSub r (eMul p (.const (sgn * slope)))),
    (.ineq (eSub p (.const delta)) none (some 0),
      eSub r (eAdd (eAdd (eAdd (.param d) (eMul p (.param c))) (eMul (eMul p p) (.param b))) (eMul (eMul (eMul p p) p) (.param a)))),
    (.const 1, eSub r (eMul (eMul A C) (ePow (eMul p (.const g)) (.const (1 / 2)))))]

/-- **the comparison is semantic and sensitive**: the re-written junction leak row is accepted (also against the tank form of
the first condition when the elevation is the same constant); a flipped sign of the slope term (seeded C08-1 multiplies by
another constant), another band bound, another `2g`, or a missing square root are each rejected -/
theorem leak_rowSem_is_sensitive :
    let h : Expr := .var 1
    let el : Expr := .param 1
    let row := leakRowG (leakCond1 false h el) h el 0 2 3 4 5 6 7 GenC08.leakDelta GenC08.leakSlope twoG
    Norm.rowSem (leakRowAlt h el 0 2 3 4 5 6 7 GenC08.leakDelta GenC08.leakSlope twoG 1 false) row = true ∧
    Norm.rowSem (leakRowAlt h el 0 2 3 4 5 6 7 GenC08.leakDelta GenC08.leakSlope twoG 1 true) row = true ∧
    Norm.rowSem (leakRowAlt h el 0 2 3 4 5 6 7 GenC08.leakDelta GenC08.leakSlope twoG (-1) false) row = false ∧
    Norm.rowSem (leakRowAlt h el 0 2 3 4 5 6 7 GenC08.leakDelta GenC08.leakDelta twoG 1 false) row = false ∧
    Norm.rowSem (leakRowAlt h el 0 2 3 4 5 6 7 (2 * GenC08.leakDelta) GenC08.leakSlope twoG 1 false) row = false ∧
    Norm.rowSem (leakRowAlt h el 0 2 3 4 5 6 7 GenC08.leakDelta GenC08.leakSlope (twoG / 2) 1 false) row = false ∧
    -- tank form: `inequality(h, ub = elev)` with a float elevation is the same condition as `h − elev ≤ 0`
    Norm.rowSem (leakRowAlt (.param 0) (.const 20) 0 2 3 4 5 6 7 GenC08.leakDelta GenC08.leakSlope twoG 1 false)
      (leakRowG (leakCond1 true (.param 0) (.const 20)) (.param 0) (.const 20) 0 2 3 4 5 6 7 GenC08.leakDelta GenC08.leakSlope twoG) = true ∧
    -- a mass balance with its link terms in another order is accepted, one with a flipped flow sign is not
    Norm.rowSem (eAdd (eSub (eAdd (eSub (.param 0) (.var 3)) (.var 9)) (.var 2)) (.var 5)) (mbRow (.param 0) [2, 3] [5] (some 9)) = true ∧
    Norm.rowSem (eAdd (eAdd (eAdd (eSub (.param 0) (.var 3)) (.var 9)) (.var 2)) (.var 5)) (mbRow (.param 0) [2, 3] [5] (some 9)) = false := by
  decide +kernel

/-- the zoo covers: junction/tank × leak on/off × isolated, in both demand modes -/
theorem gen_zoo_covers :
    GenC08.zoo.map (fun z => (z.pdd, z.tank, z.leakStatus, z.isolated)) ⊇
      [(false, false, false, false), (false, false, true, false), (false, false, true, true), (false, true, true, false),
       (true, false, false, false), (true, false, true, false), (true, false, true, true), (true, true, true, false)] := by
  decide +kernel

/-- **leak in the mass balance**: the leak variable occurs in the node's balance row iff `leak_status`; the leak row exists
iff `leak_status ∧ ¬ isolated` -/
theorem leak_in_mass_balance :
    GenC08.zoo.all (fun z =>
      (match z.mb with
       | some row => mentionsVar z.rate row == z.leakStatus && !z.tank && !z.isolated
       | none => z.tank || z.isolated) &&
      (z.leakCon.isSome == (z.leakStatus && !z.isolated))) = true := by decide +kernel

theorem foldl_sub_eval (env : Env ℝ) (ins : List Nat) (dem : Expr) :
    eval realOps env (ins.foldl (fun e l => .bin .sub e (.var l)) dem) = eval realOps env dem - (ins.map env.var).sum := by
  induction ins generalizing dem with
  | nil => simp
  | cons l t ih => rw [List.foldl_cons, ih]; simp [eSub, eval, Ops.bin]; ring

theorem foldl_add_eval (env : Env ℝ) (outs : List Nat) (dem : Expr) :
    eval realOps env (outs.foldl (fun e l => .bin .add e (.var l)) dem) = eval realOps env dem + (outs.map env.var).sum := by
  induction outs generalizing dem with
  | nil => simp
  | cons l t ih => rw [List.foldl_cons, ih]; simp [eAdd, eval, Ops.bin]; ring

/-- residual of a mass-balance row with ANY number of inflow / outflow links: the leak rate is part of the balance exactly
when the row was built with the leak -/
theorem mbRow_eval (env : Env ℝ) (dem : Expr) (ins outs : List Nat) (leak : Option Nat) :
    eval realOps env (mbRow dem ins outs leak) =
      eval realOps env dem - (ins.map env.var).sum + (outs.map env.var).sum +
        (match leak with | some r => env.var r | none => 0) := by
  cases leak with
  | none => simp only [mbRow, eAdd, eSub, foldl_add_eval, foldl_sub_eval, add_zero]
  | some r => simp only [mbRow, eAdd, eSub, eval, Ops.bin, realOps_add, foldl_add_eval, foldl_sub_eval]

/-! ### 2. what a leak row evaluates to -/

/-- junction leak row: residual = leak_rate − leakRate(head − elevation) -/
theorem leakRow_eval_junction (env : Env ℝ) (h elev rate a b c d area cd : Nat) (delta slope g : ℚ) :
    eval realOps env (leakRowG (leakCond1 false (.var h) (.param elev)) (.var h) (.param elev) rate a b c d area cd delta slope g) =
      env.var rate - leakRate realOps (env.param cd) (env.param area) (delta : ℝ) (slope : ℝ) (g : ℝ)
        (env.param a, env.param b, env.param c, env.param d) (env.var h - env.param elev) := by
  simp only [leakRowG, leakCond1, condExpr, eval, eSub, eAdd, eMul, ePow, eCubic, Ops.bin, isOne_ofBool, leakRate, cubic,
    realOps_add, realOps_sub, realOps_mul, realOps_pow, realOps_ofRat, realOps_le, Bool.true_and, decide_eq_true_eq,
    Bool.false_eq_true, if_false]
  split_ifs <;> ring

/-- tank leak row (head is the `source_head` parameter, elevation a constant): same function of `head − elevation` -/
theorem leakRow_eval_tank (env : Env ℝ) (h rate a b c d area cd : Nat) (elev delta slope g : ℚ) :
    eval realOps env (leakRowG (leakCond1 true (.param h) (.const elev)) (.param h) (.const elev) rate a b c d area cd delta slope g) =
      env.var rate - leakRate realOps (env.param cd) (env.param area) (delta : ℝ) (slope : ℝ) (g : ℝ)
        (env.param a, env.param b, env.param c, env.param d) (env.param h - (elev : ℝ)) := by
  simp only [leakRowG, leakCond1, condExpr, eval, eSub, eAdd, eMul, ePow, eCubic, Ops.bin, isOne_ofBool, leakRate, cubic,
    realOps_add, realOps_sub, realOps_mul, realOps_pow, realOps_ofRat, realOps_le, Bool.true_and, decide_eq_true_eq, if_true]
  have hc : env.param h ≤ (elev : ℝ) ↔ env.param h - (elev : ℝ) ≤ ((0 : ℚ) : ℝ) := by
    rw [Rat.cast_zero]; constructor <;> intro hh <;> linarith
  simp only [hc]
  split_ifs <;> ring

/-- **every generated leak row means the law**: for every zoo node with a leak row, at EVERY point, the residual of the row the
code built is `leak_rate − leakRate(head − elevation)` (junction: head variable, elevation parameter; tank: source-head
parameter, elevation constant) with the node's own area / coefficient / spline parameters -/
theorem gen_leak_rows_eval (env : Env ℝ) (z : LeakZoo) (hz : z ∈ GenC08.zoo) (r : Expr) (hr : z.leakCon = some r) :
    eval realOps env r =
      eval realOps env (leakRowG (leakCond1 z.tank z.h z.elev) z.h z.elev z.rate z.a z.b z.c z.d z.area z.cd
        GenC08.leakDelta GenC08.leakSlope twoG) := by
  have hok := List.all_eq_true.1 gen_rows_are_leakRow z hz
  unfold LeakZoo.ok at hok
  simp only [Bool.and_eq_true] at hok
  have h3 := hok.2
  by_cases hc : z.leakStatus = true ∧ (!z.isolated) = true
  · rw [if_pos hc, hr] at h3
    exact Norm.rowSem_sound env _ _ h3
  · rw [if_neg hc, hr] at h3; exact absurd h3 (by simp)

/-- **every generated mass balance means the balance**: residual = demand − Σ inflow + Σ outflow (+ leak_rate iff leak_status) -/
theorem gen_mb_rows_eval (env : Env ℝ) (z : LeakZoo) (hz : z ∈ GenC08.zoo) (r : Expr) (hr : z.mb = some r) :
    eval realOps env r =
      (if z.demandIsVar then env.var z.demand else env.param z.demand) - (z.inlets.map env.var).sum + (z.outlets.map env.var).sum +
        (if z.leakStatus then env.var z.rate else 0) := by
  have hok := List.all_eq_true.1 gen_rows_are_leakRow z hz
  unfold LeakZoo.ok at hok
  simp only [Bool.and_eq_true] at hok
  have h1 := hok.1.1
  by_cases hc : (z.tank || z.isolated) = true
  · simp only [hc, if_true, hr] at h1; exact absurd h1 (by simp)
  · simp only [hc, Bool.false_eq_true, if_false, hr, Norm.rowSemOpt] at h1
    rw [Norm.rowSem_sound env _ _ h1, mbRow_eval]
    cases z.demandIsVar <;> cases z.leakStatus <;> simp [eval]

/-! ### 3. the discharge law with the coefficients the code computes -/

noncomputable def leakCo (cd area δ s : ℝ) : ℝ × ℝ × ℝ × ℝ :=
  let i := GenC08.leakSplineIn realOps cd area δ s
  GenC07.cubicSpline realOps i.1 i.2.1 i.2.2.1 i.2.2.2.1 i.2.2.2.2.1 i.2.2.2.2.2

/-- leak discharge as a function of gauge pressure -/
noncomputable def leakCurve (cd area δ s p : ℝ) : ℝ :=
  leakRate realOps cd area δ s (twoG : ℝ) (leakCo cd area δ s) p

theorem leakCo_eval {cd area δ s : ℝ} (hδ : 0 < δ) (p : ℝ) :
    cubic realOps (leakCo cd area δ s) p =
      hermite 0 δ 0 (cd * area * ((twoG : ℝ) * δ) ^ ((1 / 2 : ℚ) : ℝ)) s
        (1 / 2 * cd * area * (sqrtTwoG : ℝ) * δ ^ ((-1 / 2 : ℚ) : ℝ)) p := by
  have hne : (0 : ℝ) ≠ 0 + δ := by linarith
  simp only [leakCo, GenC08.leakSplineIn, realOps_add, realOps_sub, realOps_mul, realOps_div, realOps_pow, realOps_ofRat,
    Rat.cast_zero]
  rw [cubicSpline_eq_hermite hne]
  simp only [zero_add, twoG, sqrtTwoG]
  norm_num

/-- **branches**: `p ≤ 0`: `slope·p` (zero up to the smoothing slope 1e-11); `p > δ`: `Cd·A·√(2g·p)` -/
theorem leak_branches {cd area δ s : ℝ} (hδ : 0 < δ) (p : ℝ) :
    (p ≤ 0 → leakCurve cd area δ s p = s * p) ∧
    (δ < p → leakCurve cd area δ s p = cd * area * Real.sqrt ((twoG : ℝ) * p)) ∧
    (0 < p → p ≤ δ → leakCurve cd area δ s p =
      hermite 0 δ 0 (cd * area * ((twoG : ℝ) * δ) ^ ((1 / 2 : ℚ) : ℝ)) s
        (1 / 2 * cd * area * (sqrtTwoG : ℝ) * δ ^ ((-1 / 2 : ℚ) : ℝ)) p) := by
  refine ⟨fun h => ?_, fun h => ?_, fun h1 h2 => ?_⟩
  · simp [leakCurve, leakRate, h]
  · have a1 : ¬ p ≤ 0 := by linarith
    have a2 : ¬ p ≤ δ := by linarith
    simp only [leakCurve, leakRate, realOps_le, realOps_mul, realOps_pow, realOps_ofRat, Rat.cast_zero, decide_eq_true_eq,
      a1, a2, if_false]
    rw [Real.sqrt_eq_rpow]; norm_num
  · have a1 : ¬ p ≤ 0 := by linarith
    simp only [leakCurve, leakRate, realOps_le, realOps_ofRat, Rat.cast_zero, decide_eq_true_eq, a1, h2, if_false, if_true]
    exact leakCo_eval hδ p

/-- **continuity** at both joints: at `p = 0` the linear piece and the cubic are both 0; at `p = δ` the cubic equals
`Cd·A·√(2g·δ)` -/
theorem leak_continuous {cd area δ s : ℝ} (hδ : 0 < δ) :
    (s * 0 = 0 ∧ cubic realOps (leakCo cd area δ s) 0 = 0) ∧
    cubic realOps (leakCo cd area δ s) δ = cd * area * Real.sqrt ((twoG : ℝ) * δ) := by
  refine ⟨⟨by ring, ?_⟩, ?_⟩
  · rw [leakCo_eval hδ, hermite_left]
  · rw [leakCo_eval hδ, hermite_right (by linarith), Real.sqrt_eq_rpow]; norm_num

/-- **C¹** at both joints: the cubic's slope is `slope` at 0 (that of the linear piece) and
`½·Cd·A·K·δ^(−½)` at δ, where `K² = 2g` up to 1e-15 relative (`twoG_is_2g`): the slope of `Cd·A·√(2g·p)` at δ -/
theorem leak_C1 {cd area δ s : ℝ} (hδ : 0 < δ) :
    (let i := GenC08.leakSplineIn realOps cd area δ s
     splineSlope i.1 i.2.1 i.2.2.1 i.2.2.2.1 i.2.2.2.2.1 i.2.2.2.2.2 0 = s ∧
     splineSlope i.1 i.2.1 i.2.2.1 i.2.2.2.1 i.2.2.2.2.1 i.2.2.2.2.2 δ =
       1 / 2 * cd * area * (sqrtTwoG : ℝ) * δ ^ ((-1 / 2 : ℚ) : ℝ)) := by
  have hne : (0 : ℝ) ≠ 0 + δ := by linarith
  simp only [GenC08.leakSplineIn, realOps_add, realOps_sub, realOps_mul, realOps_div, realOps_pow, realOps_ofRat, Rat.cast_zero]
  constructor
  · rw [cubicSpline_slope_left hne]
  · have := cubicSpline_slope_right hne 0 (cd * area * (((5522539043063071 / 281474976710656 : ℚ) : ℝ) * (0 + δ)) ^ ((1 / 2 : ℚ) : ℝ)) s
      (((1 / 2 : ℚ) : ℝ) * cd * area * ((623389234052423 / 140737488355328 : ℚ) : ℝ) * (0 + δ) ^ ((-1 / 2 : ℚ) : ℝ))
    rw [zero_add] at this ⊢
    rw [this]; simp only [sqrtTwoG]; norm_num

/-- the discharge is non-negative for non-negative pressure above the band and zero-or-negative below zero pressure:
`p ≤ 0 → |q| ≤ slope·|p|` -/
theorem leak_zero_below {cd area δ s : ℝ} (hs : 0 ≤ s) {p : ℝ} (hp : p ≤ 0) :
    |leakCurve cd area δ s p| ≤ s * |p| := by
  have : leakCurve cd area δ s p = s * p := by simp [leakCurve, leakRate, hp]
  rw [this, abs_mul, abs_of_nonneg hs]

/-! ### 4. what is reported (`store_results_in_network`) -/

/-- reported leak demand is 0 unless the leak is on (and, for a junction, the junction is not isolated) -/
theorem storedLeak_zero (tank isolated : Bool) (rate : ℝ) :
    storedLeak (0 : ℝ) tank false isolated rate = 0 ∧ storedLeak (0 : ℝ) false true true rate = 0 := by
  constructor <;> simp [storedLeak]

theorem storedLeak_on (tank : Bool) (rate : ℝ) : storedLeak (0 : ℝ) tank true false rate = rate := by
  cases tank <;> simp [storedLeak]

/-- the tank's reported demand subtracts the leak -/
theorem storedTankDemand_eq (qin qout leak : ℝ) :
    storedTankDemand (· - ·) qin qout leak = qin - qout - leak := rfl

/-! ### 5. `remove_leak` removes the leak completely (repaired code) -/

/-- after `remove_leak`, whatever happened before (any history of add_leak / control firings, incl. removal while the leak
is ACTIVE): no leak, status off, no control left -/
theorem remove_leak_complete (s : LeakState) (hist : List LeakOp) :
    let t := ((s.run hist).step .remove).1
    t.leak = false ∧ t.status = false ∧ t.startCtl = none ∧ t.endCtl = none := by
  simp [LeakState.step]

/-- and it stays off: later firings of the (discarded) controls cannot switch it on again -/
theorem removed_stays_off (s : LeakState) (fires : List LeakOp) (hf : ∀ op ∈ fires, op = .fireStart ∨ op = .fireEnd)
    (h1 : s.status = false) (h2 : s.startCtl = none) :
    (s.run fires).status = false := by
  induction fires generalizing s with
  | nil => simpa [LeakState.run]
  | cons op rest ih =>
    rcases hf op (by simp) with rfl | rfl
    · simp only [LeakState.run]
      apply ih _ (fun o ho => hf o (by simp [ho])) <;> simp [LeakState.step, h1, h2]
    · simp only [LeakState.run]
      apply ih _ (fun o ho => hf o (by simp [ho]))
      · simp only [LeakState.step]; split_ifs <;> simp [h1]
      · simp only [LeakState.step]; split_ifs <;> simp [h2]

/-! ### 6. rows and parameters are rebuilt when what they depend on changes (ModelUpdater registrations) -/

/-- for every junction and tank of the zoo, DD and PDD, `create_hydraulic_model` registered `leak_status` and `_is_isolated` for
`leak_constraint`, `leak_area` / `leak_discharge_coeff` for the value parameters AND the smoothing coefficients, and for every
junction `leak_status` / `_is_isolated` for the mode's own mass-balance Definition.  A dropped or mis-keyed registration
(seeded C08-4: `'_leak_status'`; C10-6: dropped) breaks this. -/
theorem updater_registers_leak :
    (GenC08.regsDD.all fun n => subsetB (leakDeps n.tank) n.regs && (n.tank || subsetB (balanceDeps false) n.regs)) = true ∧
    (GenC08.regsPDD.all fun n => subsetB (leakDeps n.tank) n.regs && (n.tank || subsetB (balanceDeps true) n.regs)) = true ∧
    GenC08.regsDD.map (·.name) ++ GenC08.regsPDD.map (·.name) = GenC08.zoo.map (·.name) ∧
    (GenC08.regsDD.any (·.tank)) = true := by
  refine ⟨?_, ?_, ?_, ?_⟩ <;> decide +kernel

/-- **what a Definition reads, it is re-run for**: every node attribute the `build` of a leak / mass-balance Definition really
READS (recorded at run time on a junction and on a tank) is registered for it on every zoo node of that kind — except a tank's
`elevation`, a constant of its leak row by design; and the recorded reads are the documented ones -/
theorem leak_definitions_rebuilt_on_what_they_read :
    (GenC08.regsDD.all (readsRegistered GenC08.defReads)) = true ∧
    (GenC08.regsPDD.all (readsRegistered GenC08.defReads)) = true ∧
    GenC08.defReads =
      [⟨"leak_constraint", false, ["_is_isolated", "leak_status"]⟩,
       ⟨"leak_constraint", true, ["_is_isolated", "elevation", "leak_status"]⟩,
       ⟨"leak_coeff_param", false, ["leak_discharge_coeff"]⟩, ⟨"leak_coeff_param", true, ["leak_discharge_coeff"]⟩,
       ⟨"leak_area_param", false, ["leak_area"]⟩, ⟨"leak_area_param", true, ["leak_area"]⟩,
       ⟨"leak_poly_coeffs_param", false, ["leak_area", "leak_discharge_coeff"]⟩,
       ⟨"leak_poly_coeffs_param", true, ["leak_area", "leak_discharge_coeff"]⟩,
       ⟨"elevation_param", false, ["elevation"]⟩,
       ⟨"mass_balance_constraint", false, ["_is_isolated", "leak_status"]⟩,
       ⟨"pdd_mass_balance_constraint", false, ["_is_isolated", "leak_status"]⟩] := by
  refine ⟨?_, ?_, ?_⟩ <;> decide +kernel

/-- hence (`updateDef`: one model update for one Definition of one node) the leak row / the balance in the model is the one of
the node's CURRENT `leak_status` and isolation: with both registered, the Definition is rebuilt from the current values -/
theorem leak_row_follows_status (regs : List (String × String)) (cls : String) (built cur : Attrs)
    (h1 : ("leak_status", cls) ∈ regs) (h2 : ("_is_isolated", cls) ∈ regs) :
    updateDef regs cls ["leak_status", "_is_isolated"] built cur "leak_status" = cur "leak_status" ∧
    updateDef regs cls ["leak_status", "_is_isolated"] built cur "_is_isolated" = cur "_is_isolated" := by
  have key : ∀ a, a = "leak_status" ∨ a = "_is_isolated" →
      updateDef regs cls ["leak_status", "_is_isolated"] built cur a = cur a := by
    intro a ha
    unfold updateDef
    split_ifs with h
    · rfl
    · by_contra hne
      apply h
      rw [List.any_eq_true]
      refine ⟨a, ?_, ?_⟩
      · simp only [changedAttrs, List.mem_filter, bne_iff_ne, ne_eq, List.mem_cons, List.not_mem_nil, or_false]
        exact ⟨ha, hne⟩
      · rcases ha with rfl | rfl <;> simpa
  exact ⟨key _ (Or.inl rfl), key _ (Or.inr rfl)⟩

/-- non-vacuity: a leak added with a window, started, then removed while active -/
example : (({} : LeakState).run [.add 1 (3/4) (some 0) (some 3600), .fireStart]).status = true ∧
    ((({} : LeakState).run [.add 1 (3/4) (some 0) (some 3600), .fireStart]).step .remove).1.status = false := by decide

/-- non-vacuity of the zoo: it does contain active leak rows -/
example : (GenC08.zoo.filter (fun z => z.leakCon.isSome)).length = 6 ∧ GenC08.zoo.length = 24 := by decide +kernel

end Wntr.Rows
