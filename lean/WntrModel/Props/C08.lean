/-
C08 — leaks discharge Cd·A·√(2·g·p) only while active and only at positive pressure.

Theorems are about definitions REGENERATED from the current source on every run (Gen/RowsC08.lean, Gen/RowsC07.lean):
`m.leak_con[n]`, `m.mass_balance[j]` / `m.pdd_mass_balance[j]` of a zoo (junction and tank leaks, active / inactive /
isolated, DD and PDD), `leak_poly_coeffs_param`'s spline inputs, `cubic_spline`, `leak_constants`.
The activation window (time controls) is NOT proved here: it is checked on real simulations by harness/props/c08.py.
-/
import WntrModel.Lemmas.RowsSplineGen
import WntrModel.Gen.RowsC08

set_option linter.unusedSimpArgs false

namespace Wntr.Rows
open Wntr.Aml

/-- `2.0*9.81` as the double the code uses -/
def twoG : Rat := (5522539043063071 : Rat) / 281474976710656
/-- `(2.0*9.81)**0.5` as the double `leak_poly_coeffs_param` uses in the end slope -/
def sqrtTwoG : Rat := (623389234052423 : Rat) / 140737488355328

theorem twoG_is_2g : |twoG - 2 * (981 / 100)| ≤ 1 / 10 ^ 14 ∧
    |sqrtTwoG * sqrtTwoG - twoG| ≤ twoG / 10 ^ 15 := by
  constructor <;> decide +kernel

/-! ### 1. generated rows are instances of the parametric rows; the leak is in the mass balance iff active -/

/-- every zoo node, DD and PDD: junction mass balance = demand − Σ inflow + Σ outflow (+ leak_rate iff leak_status), absent
when isolated, none for tanks; `m.leak_con[n]` exists iff `leak_status ∧ ¬isolated` and then IS the parametric leak row
(junction: head variable / elevation parameter; tank: source-head parameter / elevation constant) -/
theorem gen_rows_are_leakRow :
    GenC08.zoo.all (fun z => z.ok GenC08.leakDelta GenC08.leakSlope twoG) = true := by decide +kernel

/-- the zoo covers: junction/tank × leak on/off × isolated, in both demand modes -/
theorem gen_zoo_covers :
    GenC08.zoo.map (fun z => (z.pdd, z.tank, z.leakStatus, z.isolated)) ⊇
      [(false, false, false, false), (false, false, true, false), (false, false, true, true), (false, true, true, false),
       (true, false, false, false), (true, false, true, false), (true, false, true, true), (true, true, true, false)] := by
  decide +kernel

/-- **leak in the mass balance**: the leak variable occurs in the node's balance row iff `leak_status`; the leak row exists
iff `leak_status ∧ ¬ isolated` -/
theorem leak_in_mass_balance :
    GenC08.zoo.all (fun z =>
      (match z.mb with
       | some row => mentionsVar z.rate row == z.leakStatus && !z.tank && !z.isolated
       | none => z.tank || z.isolated) &&
      (z.leakCon.isSome == (z.leakStatus && !z.isolated))) = true := by decide +kernel

theorem foldl_sub_eval (env : Env ℝ) (ins : List Nat) (dem : Expr) :
    eval realOps env (ins.foldl (fun e l => .bin .sub e (.var l)) dem) = eval realOps env dem - (ins.map env.var).sum := by
  induction ins generalizing dem with
  | nil => simp
  | cons l t ih => rw [List.foldl_cons, ih]; simp [eSub, eval, Ops.bin]; ring

theorem foldl_add_eval (env : Env ℝ) (outs : List Nat) (dem : Expr) :
    eval realOps env (outs.foldl (fun e l => .bin .add e (.var l)) dem) = eval realOps env dem + (outs.map env.var).sum := by
  induction outs generalizing dem with
  | nil => simp
  | cons l t ih => rw [List.foldl_cons, ih]; simp [eAdd, eval, Ops.bin]; ring

/-- residual of a mass-balance row with ANY number of inflow / outflow links: the leak rate is part of the balance exactly
when the row was built with the leak -/
theorem mbRow_eval (env : Env ℝ) (dem : Expr) (ins outs : List Nat) (leak : Option Nat) :
    eval realOps env (mbRow dem ins outs leak) =
      eval realOps env dem - (ins.map env.var).sum + (outs.map env.var).sum +
        (match leak with | some r => env.var r | none => 0) := by
  cases leak with
  | none => simp only [mbRow, eAdd, eSub, foldl_add_eval, foldl_sub_eval, add_zero]
  | some r => simp only [mbRow, eAdd, eSub, eval, Ops.bin, realOps_add, foldl_add_eval, foldl_sub_eval]

/-! ### 2. what a leak row evaluates to -/

/-- junction leak row: residual = leak_rate − leakRate(head − elevation) -/
theorem leakRow_eval_junction (env : Env ℝ) (h elev rate a b c d area cd : Nat) (delta slope g : ℚ) :
    eval realOps env (leakRowG (leakCond1 false (.var h) (.param elev)) (.var h) (.param elev) rate a b c d area cd delta slope g) =
      env.var rate - leakRate realOps (env.param cd) (env.param area) (delta : ℝ) (slope : ℝ) (g : ℝ)
        (env.param a, env.param b, env.param c, env.param d) (env.var h - env.param elev) := by
  simp only [leakRowG, leakCond1, condExpr, eval, eSub, eAdd, eMul, ePow, eCubic, Ops.bin, isOne_ofBool, leakRate, cubic,
    realOps_add, realOps_sub, realOps_mul, realOps_pow, realOps_ofRat, realOps_le, Bool.true_and, decide_eq_true_eq,
    Bool.false_eq_true, if_false]
  split_ifs <;> ring

/-- tank leak row (head is the `source_head` parameter, elevation a constant): same function of `head − elevation` -/
theorem leakRow_eval_tank (env : Env ℝ) (h rate a b c d area cd : Nat) (elev delta slope g : ℚ) :
    eval realOps env (leakRowG (leakCond1 true (.param h) (.const elev)) (.param h) (.const elev) rate a b c d area cd delta slope g) =
      env.var rate - leakRate realOps (env.param cd) (env.param area) (delta : ℝ) (slope : ℝ) (g : ℝ)
        (env.param a, env.param b, env.param c, env.param d) (env.param h - (elev : ℝ)) := by
  simp only [leakRowG, leakCond1, condExpr, eval, eSub, eAdd, eMul, ePow, eCubic, Ops.bin, isOne_ofBool, leakRate, cubic,
    realOps_add, realOps_sub, realOps_mul, realOps_pow, realOps_ofRat, realOps_le, Bool.true_and, decide_eq_true_eq, if_true]
  have hc : env.param h ≤ (elev : ℝ) ↔ env.param h - (elev : ℝ) ≤ ((0 : ℚ) : ℝ) := by
    rw [Rat.cast_zero]; constructor <;> intro hh <;> linarith
  simp only [hc]
  split_ifs <;> ring

/-! ### 3. the discharge law with the coefficients the code computes -/

noncomputable def leakCo (cd area δ s : ℝ) : ℝ × ℝ × ℝ × ℝ :=
  let i := GenC08.leakSplineIn realOps cd area δ s
  GenC07.cubicSpline realOps i.1 i.2.1 i.2.2.1 i.2.2.2.1 i.2.2.2.2.1 i.2.2.2.2.2

/-- leak discharge as a function of gauge pressure -/
noncomputable def leakCurve (cd area δ s p : ℝ) : ℝ :=
  leakRate realOps cd area δ s (twoG : ℝ) (leakCo cd area δ s) p

theorem leakCo_eval {cd area δ s : ℝ} (hδ : 0 < δ) (p : ℝ) :
    cubic realOps (leakCo cd area δ s) p =
      hermite 0 δ 0 (cd * area * ((twoG : ℝ) * δ) ^ ((1 / 2 : ℚ) : ℝ)) s
        (1 / 2 * cd * area * (sqrtTwoG : ℝ) * δ ^ ((-1 / 2 : ℚ) : ℝ)) p := by
  have hne : (0 : ℝ) ≠ 0 + δ := by linarith
  simp only [leakCo, GenC08.leakSplineIn, realOps_add, realOps_sub, realOps_mul, realOps_div, realOps_pow, realOps_ofRat,
    Rat.cast_zero]
  rw [cubicSpline_eq_hermite hne]
  simp only [zero_add, twoG, sqrtTwoG]
  norm_num

/-- **branches**: `p ≤ 0`: `slope·p` (zero up to the smoothing slope 1e-11); `p > δ`: `Cd·A·√(2g·p)` -/
theorem leak_branches {cd area δ s : ℝ} (hδ : 0 < δ) (p : ℝ) :
    (p ≤ 0 → leakCurve cd area δ s p = s * p) ∧
    (δ < p → leakCurve cd area δ s p = cd * area * Real.sqrt ((twoG : ℝ) * p)) ∧
    (0 < p → p ≤ δ → leakCurve cd area δ s p =
      hermite 0 δ 0 (cd * area * ((twoG : ℝ) * δ) ^ ((1 / 2 : ℚ) : ℝ)) s
        (1 / 2 * cd * area * (sqrtTwoG : ℝ) * δ ^ ((-1 / 2 : ℚ) : ℝ)) p) := by
  refine ⟨fun h => ?_, fun h => ?_, fun h1 h2 => ?_⟩
  · simp [leakCurve, leakRate, h]
  · have a1 : ¬ p ≤ 0 := by linarith
    have a2 : ¬ p ≤ δ := by linarith
    simp only [leakCurve, leakRate, realOps_le, realOps_mul, realOps_pow, realOps_ofRat, Rat.cast_zero, decide_eq_true_eq,
      a1, a2, if_false]
    rw [Real.sqrt_eq_rpow]; norm_num
  · have a1 : ¬ p ≤ 0 := by linarith
    simp only [leakCurve, leakRate, realOps_le, realOps_ofRat, Rat.cast_zero, decide_eq_true_eq, a1, h2, if_false, if_true]
    exact leakCo_eval hδ p

/-- **continuity** at both joints: at `p = 0` the linear piece and the cubic are both 0; at `p = δ` the cubic equals
`Cd·A·√(2g·δ)` -/
theorem leak_continuous {cd area δ s : ℝ} (hδ : 0 < δ) :
    (s * 0 = 0 ∧ cubic realOps (leakCo cd area δ s) 0 = 0) ∧
    cubic realOps (leakCo cd area δ s) δ = cd * area * Real.sqrt ((twoG : ℝ) * δ) := by
  refine ⟨⟨by ring, ?_⟩, ?_⟩
  · rw [leakCo_eval hδ, hermite_left]
  · rw [leakCo_eval hδ, hermite_right (by linarith), Real.sqrt_eq_rpow]; norm_num

/-- **C¹** at both joints: the cubic's slope is `slope` at 0 (that of the linear piece) and
`½·Cd·A·K·δ^(−½)` at δ, where `K² = 2g` up to 1e-15 relative (`twoG_is_2g`): the slope of `Cd·A·√(2g·p)` at δ -/
theorem leak_C1 {cd area δ s : ℝ} (hδ : 0 < δ) :
    (let i := GenC08.leakSplineIn realOps cd area δ s
     splineSlope i.1 i.2.1 i.2.2.1 i.2.2.2.1 i.2.2.2.2.1 i.2.2.2.2.2 0 = s ∧
     splineSlope i.1 i.2.1 i.2.2.1 i.2.2.2.1 i.2.2.2.2.1 i.2.2.2.2.2 δ =
       1 / 2 * cd * area * (sqrtTwoG : ℝ) * δ ^ ((-1 / 2 : ℚ) : ℝ)) := by
  have hne : (0 : ℝ) ≠ 0 + δ := by linarith
  simp only [GenC08.leakSplineIn, realOps_add, realOps_sub, realOps_mul, realOps_div, realOps_pow, realOps_ofRat, Rat.cast_zero]
  constructor
  · rw [cubicSpline_slope_left hne]
  · have := cubicSpline_slope_right hne 0 (cd * area * (((5522539043063071 / 281474976710656 : ℚ) : ℝ) * (0 + δ)) ^ ((1 / 2 : ℚ) : ℝ)) s
      (((1 / 2 : ℚ) : ℝ) * cd * area * ((623389234052423 / 140737488355328 : ℚ) : ℝ) * (0 + δ) ^ ((-1 / 2 : ℚ) : ℝ))
    rw [zero_add] at this ⊢
    rw [this]; simp only [sqrtTwoG]; norm_num

/-- the discharge is non-negative for non-negative pressure above the band and zero-or-negative below zero pressure:
`p ≤ 0 → |q| ≤ slope·|p|` -/
theorem leak_zero_below {cd area δ s : ℝ} (hs : 0 ≤ s) {p : ℝ} (hp : p ≤ 0) :
    |leakCurve cd area δ s p| ≤ s * |p| := by
  have : leakCurve cd area δ s p = s * p := by simp [leakCurve, leakRate, hp]
  rw [this, abs_mul, abs_of_nonneg hs]

/-! ### 4. what is reported (`store_results_in_network`) -/

/-- reported leak demand is 0 unless the leak is on (and, for a junction, the junction is not isolated) -/
theorem storedLeak_zero (tank isolated : Bool) (rate : ℝ) :
    storedLeak (0 : ℝ) tank false isolated rate = 0 ∧ storedLeak (0 : ℝ) false true true rate = 0 := by
  constructor <;> simp [storedLeak]

theorem storedLeak_on (tank : Bool) (rate : ℝ) : storedLeak (0 : ℝ) tank true false rate = rate := by
  cases tank <;> simp [storedLeak]

/-- the tank's reported demand subtracts the leak -/
theorem storedTankDemand_eq (qin qout leak : ℝ) :
    storedTankDemand (· - ·) qin qout leak = qin - qout - leak := rfl

/-! ### 5. `remove_leak` removes the leak completely (repaired code) -/

/-- after `remove_leak`, whatever happened before (any history of add_leak / control firings, incl. removal while the leak
is ACTIVE): no leak, status off, no control left -/
theorem remove_leak_complete (s : LeakState) (hist : List LeakOp) :
    let t := ((s.run hist).step .remove).1
    t.leak = false ∧ t.status = false ∧ t.startCtl = none ∧ t.endCtl = none := by
  simp [LeakState.step]

/-- and it stays off: later firings of the (discarded) controls cannot switch it on again -/
theorem removed_stays_off (s : LeakState) (fires : List LeakOp) (hf : ∀ op ∈ fires, op = .fireStart ∨ op = .fireEnd)
    (h1 : s.status = false) (h2 : s.startCtl = none) :
    (s.run fires).status = false := by
  induction fires generalizing s with
  | nil => simpa [LeakState.run]
  | cons op rest ih =>
    rcases hf op (by simp) with rfl | rfl
    · simp only [LeakState.run]
      apply ih _ (fun o ho => hf o (by simp [ho])) <;> simp [LeakState.step, h1, h2]
    · simp only [LeakState.run]
      apply ih _ (fun o ho => hf o (by simp [ho]))
      · simp only [LeakState.step]; split_ifs <;> simp [h1]
      · simp only [LeakState.step]; split_ifs <;> simp [h2]

/-- non-vacuity: a leak added with a window, started, then removed while active -/
example : (({} : LeakState).run [.add 1 (3/4) (some 0) (some 3600), .fireStart]).status = true ∧
    ((({} : LeakState).run [.add 1 (3/4) (some 0) (some 3600), .fireStart]).step .remove).1.status = false := by decide

/-- non-vacuity of the zoo: it does contain active leak rows -/
example : (GenC08.zoo.filter (fun z => z.leakCon.isSome)).length = 6 := by decide +kernel

end Wntr.Rows
