/-
C02 — every link obeys the head-flow law of its type and reported status; no reverse flow through pumps / CV pipes.

`Gen/RowsC02.lean` is REGENERATED on every run: one head-flow row per link of the zoo (every link kind in every status,
both Hazen-Williams approximations, links whose start / end node is a tank or a reservoir, parallel links, an isolated
link, 1, 2, 3-point head curves with C = 2, C = 1, C > 1, C < 1, power pumps), the constants of `constants.py`, the
float literals inside `constraint.py`, the tolerances of `controls.py`, the parameter formulas of `param.py` and the
1 and 2-point pump-curve fits traced on symbolic numbers.  `gen_rows_are_linkRow` proves that each generated row IS the
parametric row of `Model/LinkRows.lean` for the link's kind, reported status and start / end node names: a sign, a
start/end swap, a status branch, a branch bound or a constant edited in `constraint.py` breaks it.
The theorems about the parametric rows hold for ALL leaves, constants and real leaf values.
-/
import WntrModel.Lemmas.LinkRowsEval
import WntrModel.Lemmas.LinkRowsNorm
import WntrModel.Gen.RowsC02
import WntrModel.Gen.UpdaterC02

set_option linter.unusedSimpArgs false
set_option linter.unusedVariables false

namespace Wntr.LinkRows
open Wntr.Aml Wntr.Rows Wntr.Gen

/-! ### 1. the tie -/

/-- every generated row is EQUIVALENT to the parametric row of its link (kind, status, isolation, start / end nodes looked up
BY NAME, pump coefficients, generated constants), for both Hazen-Williams approximations.  Equivalent = equal as polynomials
with rational coefficients over opaque atoms (leaves, `abs(f)**1.852`, `sign(f)`, `k**0.5`, …), conditional rows branch by
branch (`rowEquiv`, sound by `rowEquiv_sound`): re-ordering or re-bracketing a row keeps this true, a sign, a constant, a
branch bound, a leaf or a start/end swap does not. -/
theorem gen_rows_are_linkRow :
    RowsC02.Default.rows.all (linkRowOkSem RowsC02.hw RowsC02.pc RowsC02.lit RowsC02.Default.varNames
      RowsC02.Default.paramNames .default) = true ∧
    RowsC02.Piecewise.rows.all (linkRowOkSem RowsC02.hw RowsC02.pc RowsC02.lit RowsC02.Piecewise.varNames
      RowsC02.Piecewise.paramNames .piecewise) = true := by
  constructor <;> decide +kernel

/-- the semantic comparison is sensitive: flipping the sign of the minor-loss term, changing the exponent constant or exchanging
`start_h` and `end_h` in the default Hazen-Williams row is NOT equivalent to it; re-ordering its terms is -/
theorem rowEquiv_is_sensitive :
    let L : Leaves := { f := .var 0, hs := .var 1, he := .var 2, k := .param 0, mkl := .param 1, setting := .param 2,
                        elevS := .param 3, elevE := .param 4, tcvR := .param 5, power := .param 6 }
    let row := hwApproxRow refHW refLit L
    let f : Expr := .var 0
    let sgn : Expr := .un .sign f
    let fric : Expr := .bin .mul (.bin .mul sgn (.param 0)) (.bin .pow (.un .abs f) (.const refHW.hwExp))
    let lin : Expr := .bin .mul (.bin .mul (.const refLit.eps) (.bin .pow (.param 0) (.const (1 / 2)))) f
    let minor : Expr := .bin .mul (.bin .mul sgn (.param 1)) (.bin .mul f f)
    -- start_h − end_h − friction − linear − minor, fully re-ordered and with f*f for f**2
    rowEquiv row (.bin .sub (.bin .sub (.bin .sub (.bin .sub (.var 1) (.var 2)) minor) lin) fric) = true ∧
    -- minor loss without sign(f)
    rowEquiv row (.bin .sub (.bin .sub (.bin .sub (.bin .sub (.var 1) (.var 2)) (.bin .mul (.param 1) (.bin .mul f f))) lin) fric) = false ∧
    -- start / end exchanged
    rowEquiv row (.bin .sub (.bin .sub (.bin .sub (.bin .sub (.var 2) (.var 1)) minor) lin) fric) = false ∧
    -- exponent 1.85
    rowEquiv row (.bin .sub (.bin .sub (.bin .sub (.bin .sub (.var 1) (.var 2)) minor) lin)
      (.bin .mul (.bin .mul sgn (.param 0)) (.bin .pow (.un .abs f) (.const (185 / 100))))) = false := by
  decide +kernel

/-- the zoo contains every (kind, status) pair the simulator can produce, an isolated link, links from / into a tank and a
reservoir, and head pumps with `C = 2`, `C = 1`, `C > 1` (non-integer) and `C < 1` -/
theorem gen_zoo_covers :
    (RowsC02.Default.rows.map fun r => (r.kind, r.status)) ⊇
      [(.pipe, .opened), (.pipe, .closed), (.headPump, .opened), (.headPump, .closed), (.powerPump, .opened),
       (.powerPump, .closed), (.prv, .active), (.prv, .opened), (.prv, .closed), (.psv, .active), (.psv, .opened),
       (.psv, .closed), (.fcv, .active), (.fcv, .opened), (.fcv, .closed), (.tcv, .active), (.tcv, .opened),
       (.tcv, .closed)] ∧
    (RowsC02.Default.rows.any fun r => r.isolated) = true ∧
    (RowsC02.Default.rows.any fun r => !r.startIsJunction && r.status != .closed) = true ∧
    (RowsC02.Default.rows.any fun r => !r.stopIsJunction && r.status != .closed) = true ∧
    (RowsC02.Default.rows.any fun r => r.kind == .headPump && r.pump.C == 2) = true ∧
    (RowsC02.Default.rows.any fun r => r.kind == .headPump && r.pump.C == 1) = true ∧
    (RowsC02.Default.rows.any fun r => r.kind == .headPump && ratLt 1 r.pump.C && r.pump.C != 2) = true ∧
    (RowsC02.Default.rows.any fun r => r.kind == .headPump && ratLt 0 r.pump.C && ratLt r.pump.C 1) = true := by
  decide +kernel

/-- the spec of a zoo row with start and end node exchanged -/
def swappedSpec (vars params : List String) (approx : Approx) (r : ZLinkRow) : Option LinkSpec :=
  zooSpec vars params approx { r with start := r.stop, stop := r.start, startIsJunction := r.stopIsJunction,
                                       stopIsJunction := r.startIsJunction }

/-- **start / end orientation**: in every generated row `start_h` / `end_h` (and the elevation an active PRV / PSV uses) are
the leaves of the link's START / END node as the link object names them — and the check is sensitive: the row built with the
two nodes exchanged is NOT equivalent (`rowEquiv`) for every row that mentions a head -/
theorem start_end_orientation :
    (RowsC02.Default.rows.all fun r =>
      r.status == .closed || r.isolated || (r.kind == .fcv && r.status == .active) ||
      (match swappedSpec RowsC02.Default.varNames RowsC02.Default.paramNames .default r with
       | some s => !rowEquiv r.expr (linkRow RowsC02.hw RowsC02.pc RowsC02.lit s)
       | none => false)) = true ∧
    (RowsC02.Piecewise.rows.all fun r =>
      r.status == .closed || r.isolated || (r.kind == .fcv && r.status == .active) ||
      (match swappedSpec RowsC02.Piecewise.varNames RowsC02.Piecewise.paramNames .piecewise r with
       | some s => !rowEquiv r.expr (linkRow RowsC02.hw RowsC02.pc RowsC02.lit s)
       | none => false)) = true := by
  constructor <;> decide +kernel

/-- soundness of the check: an accepted row evaluates like the parametric row, at every environment -/
theorem linkRowOk_sound (env : Env ℝ) (hw : HWConsts) (pc : PumpConsts) (lit : RowLits) (vars params : List String)
    (approx : Approx) (r : ZLinkRow) (h : linkRowOkSem hw pc lit vars params approx r = true) :
    ∃ s, zooSpec vars params approx r = some s ∧ s.kind = r.kind ∧ s.status = r.status ∧ s.isolated = r.isolated ∧
      eval realOps env r.expr = eval realOps env (linkRow hw pc lit s) := by
  unfold linkRowOkSem at h
  cases hz : zooSpec vars params approx r with
  | none => simp [hz] at h
  | some s =>
    simp only [hz] at h
    refine ⟨s, rfl, ?_, ?_, ?_, rowEquiv_sound env _ _ h⟩ <;> (simp only [zooSpec, Option.some.injEq] at hz; subst hz; rfl)

/-! ### 2. closed (or isolated) links carry zero flow -/

/-- closed or isolated ⇒ the row is the flow variable itself, whatever the link kind -/
theorem closed_link_zero_flow (hw : HWConsts) (pc : PumpConsts) (lit : RowLits) (s : LinkSpec)
    (h : s.status = .closed ∨ s.isolated = true) : linkRow hw pc lit s = s.leaves.f := by
  rcases h with h | h <;> simp [linkRow, closedRow, h]

/-- hence the solver's residual bound is a bound on the reported flow -/
theorem closed_link_flow_small (env : Env ℝ) (hw : HWConsts) (pc : PumpConsts) (lit : RowLits) (s : LinkSpec) (tol : ℝ)
    (h : s.status = .closed ∨ s.isolated = true) (hr : |eval realOps env (linkRow hw pc lit s)| < tol) :
    |eval realOps env s.leaves.f| < tol := by
  rwa [closed_link_zero_flow hw pc lit s h] at hr

/-! ### 3. open pipes: Hazen-Williams + minor loss, odd and strictly increasing -/

theorem gen_constants_ok :
    RowsC02.hw.minorExp = 2 ∧ 0 < RowsC02.hw.hwExp ∧ 0 < RowsC02.lit.eps ∧ RowsC02.lit.half = 1 / 2 ∧
    absRat (RowsC02.hw.hwExp - 1852 / 1000) ≤ 1 / 10 ^ 15 ∧ absRat (RowsC02.hw.hwK - 10667 / 1000) ≤ 2 / 10 ^ 4 ∧
    absRat (RowsC02.lit.eps - 1 / 10 ^ 5) ≤ 1 / 10 ^ 20 ∧ RowsC02.lit.gammaW = 9810 ∧
    0 < RowsC02.hw.q1 ∧ RowsC02.hw.q1 < RowsC02.hw.q2 ∧ 0 < RowsC02.hw.m ∧
    RowsC02.pc.q1 = 0 ∧ 0 < RowsC02.pc.q2 ∧ RowsC02.pc.q2 ≤ RowsC02.cvQtol ∧ RowsC02.pc.slope < 0 ∧
    0 < RowsC02.cvHtol ∧ 0 < RowsC02.cvQtol ∧ 0 < RowsC02.pumpHtol ∧ 0 < RowsC02.newtonTol := by
  decide +kernel

/-- **the generated constants ARE the documented ones** (`ref…` of `Model/LinkRows.lean`, which the simulation oracle uses):
exactly for every literal, to 1e-9 relative for the four spline coefficients (computed in floating point by the code, exactly
in ℚ by the reference) -/
theorem gen_constants_are_reference :
    RowsC02.hw.hwK = refHW.hwK ∧ RowsC02.hw.hwExp = refHW.hwExp ∧ RowsC02.hw.minorExp = refHW.minorExp ∧
    RowsC02.hw.q1 = refHW.q1 ∧ RowsC02.hw.q2 = refHW.q2 ∧ RowsC02.hw.m = refHW.m ∧
    RowsC02.hwF2 = refF2 ∧ RowsC02.hwDf2 = refDf2 ∧
    absRat (RowsC02.hw.a - refHW.a) ≤ absRat refHW.a / 10 ^ 9 ∧ absRat (RowsC02.hw.b - refHW.b) ≤ absRat refHW.b / 10 ^ 9 ∧
    absRat (RowsC02.hw.c - refHW.c) ≤ absRat refHW.c / 10 ^ 9 ∧ absRat (RowsC02.hw.d - refHW.d) ≤ absRat refHW.d / 10 ^ 9 ∧
    RowsC02.pc = refPC ∧ RowsC02.lit = refLit ∧
    RowsC02.cvHtol = refHtol ∧ RowsC02.cvQtol = refQtol ∧ RowsC02.pumpHtol = refHtol ∧ RowsC02.powerHtol = refHtol ∧
    RowsC02.hwResistanceFormula = refHwResistance ∧ RowsC02.minorLossFormula = refLossCoeff ∧
    RowsC02.tcvResistanceFormula = refLossCoeff := by
  decide +kernel

/-- default approximation: the row is `start_h − end_h − h(q)` with `h = hwLoss k m (eps·k^½) 1.852` -/
theorem hwApprox_law (env : Env ℝ) (hw : HWConsts) (lit : RowLits) (L : Leaves) (h2 : hw.minorExp = 2) :
    eval realOps env (hwApproxRow hw lit L) =
      eval realOps env L.hs - eval realOps env L.he -
        hwLoss (eval realOps env L.k) (eval realOps env L.mkl)
          ((lit.eps : ℝ) * eval realOps env L.k ^ (lit.half : ℝ)) (hw.hwExp : ℝ) (eval realOps env L.f) := by
  rw [hwApproxRow_eval, h2, rpow_two]
  simp only [hwLoss]; ring

/-- **odd**: `h(−q) = −h(q)` -/
theorem hwApprox_odd (k m eps half e : ℝ) (he : e ≠ 0) (q : ℝ) :
    hwLoss k m (eps * k ^ half) e (-q) = -hwLoss k m (eps * k ^ half) e q := hwLoss_odd he q

/-- **strictly increasing** in the flow for every resistance `k > 0`, minor-loss coefficient `m ≥ 0`, `eps ≥ 0` and exponent
`e > 0` (the generated constants satisfy this: `gen_constants_ok`) -/
theorem hwApprox_strictMono {k m eps half e : ℝ} (hk : 0 < k) (hm : 0 ≤ m) (heps : 0 ≤ eps) (he : 0 < e) :
    StrictMono (hwLoss k m (eps * k ^ half) e) :=
  hwLoss_strictMono hk hm (mul_nonneg heps (Real.rpow_nonneg hk.le _)) he

/-- so a reported (q, heads) pair on an open pipe's row is THE solution: equal head differences ⇒ equal flows -/
theorem hwApprox_flow_unique {k m eps half e : ℝ} (hk : 0 < k) (hm : 0 ≤ m) (heps : 0 ≤ eps) (he : 0 < e) {q q' : ℝ}
    (h : hwLoss k m (eps * k ^ half) e q = hwLoss k m (eps * k ^ half) e q') : q = q' :=
  (hwApprox_strictMono hk hm heps he).injective h

/-- `hw_resistance_param`: `k = hw_k · C^(−1.852) · d^(−4.871) · L` with the literals the code uses (`−1.852` is minus the
generated exponent of the head-loss law) -/
theorem hw_resistance_formula :
    RowsC02.hwResistanceFormula = hwResistanceExpr RowsC02.hw.hwK (-RowsC02.hw.hwExp) (-(2742129223115211 : Rat) / 562949953421312) ∧
    absRat ((2742129223115211 : Rat) / 562949953421312 - 4871 / 1000) ≤ 1 / 10 ^ 15 := by
  constructor <;> decide +kernel

theorem hw_resistance_value (env : Env ℝ) (hwK e1 e2 : ℚ) :
    eval realOps env (hwResistanceExpr hwK e1 e2) =
      (hwK : ℝ) * env.param 0 ^ (e1 : ℝ) * env.param 1 ^ (e2 : ℝ) * env.param 2 := by
  simp [hwResistanceExpr, eval, Ops.bin]

/-! #### piecewise approximation -/

/-- the three pieces (for `q ≥ 0`; the row is odd in `q` by construction: `sign(f)` multiplies the even-power terms) -/
theorem hwPiecewise_law (env : Env ℝ) (hw : HWConsts) (L : Leaves) (h2 : hw.minorExp = 2)
    (hq : 0 ≤ eval realOps env L.f) :
    eval realOps env (hwPiecewiseRow hw L) =
      eval realOps env L.hs - eval realOps env L.he - eval realOps env L.mkl * eval realOps env L.f ^ 2 -
        eval realOps env L.k *
          (if eval realOps env L.f ≤ (hw.q1 : ℝ) then (hw.m : ℝ) * eval realOps env L.f
           else if eval realOps env L.f ≤ (hw.q2 : ℝ) then
             cubicAt ((hw.a : ℝ), (hw.b : ℝ), (hw.c : ℝ), (hw.d : ℝ)) (eval realOps env L.f)
           else eval realOps env L.f ^ (hw.hwExp : ℝ)) := by
  rw [hwPiecewiseRow_eval, h2, rpow_two, rpow_three, sgn_of_nonneg hq, abs_of_nonneg hq]
  simp only [cubicAt]
  split_ifs <;> ring

/-- the generated spline constants are (to 1e-9 relative) the exact `cubic_spline` of the end data
`(q1, q2, m·q1, q2^1.852, m, 1.852·q2^0.852)` (the two powers as the doubles the code computes) -/
theorem hw_consts_are_spline :
    let ex := cubicSpline RowsC02.hw.q1 RowsC02.hw.q2 (RowsC02.hw.m * RowsC02.hw.q1) RowsC02.hwF2 RowsC02.hw.m RowsC02.hwDf2
    absRat (RowsC02.hw.a - ex.1) ≤ absRat ex.1 / 10 ^ 9 ∧ absRat (RowsC02.hw.b - ex.2.1) ≤ absRat ex.2.1 / 10 ^ 9 ∧
    absRat (RowsC02.hw.c - ex.2.2.1) ≤ absRat ex.2.2.1 / 10 ^ 9 ∧ absRat (RowsC02.hw.d - ex.2.2.2) ≤ absRat ex.2.2.2 / 10 ^ 9 := by
  decide +kernel

/-- **continuity and C¹ at the joints** `q1`, `q2` with the generated constants: the cubic meets the linear piece `m·q` at `q1`
and the power law (`hwF2` = the double `q2 ** 1.852`, slope `hwDf2`) at `q2`, in value and slope, to 1e-9 relative -/
theorem hwPiecewise_joints :
    let co := (RowsC02.hw.a, RowsC02.hw.b, RowsC02.hw.c, RowsC02.hw.d)
    absRat (cubicAt co RowsC02.hw.q1 - RowsC02.hw.m * RowsC02.hw.q1) ≤ RowsC02.hw.m * RowsC02.hw.q1 / 10 ^ 9 ∧
    absRat (cubicAt co RowsC02.hw.q2 - RowsC02.hwF2) ≤ RowsC02.hwF2 / 10 ^ 9 ∧
    absRat (cubicDerivAt co RowsC02.hw.q1 - RowsC02.hw.m) ≤ RowsC02.hw.m / 10 ^ 9 ∧
    absRat (cubicDerivAt co RowsC02.hw.q2 - RowsC02.hwDf2) ≤ RowsC02.hwDf2 / 10 ^ 9 := by
  decide +kernel

/-- exact statement behind it, for ANY end data: the polynomial `cubic_spline` returns takes the prescribed values and slopes
at both ends — so the smoothing piece joins its neighbours C¹ whenever its constants are computed by `cubic_spline` -/
theorem hwPiecewise_C1_of_spline {q1 q2 : ℝ} (hne : q1 ≠ q2) (m f2 df2 : ℝ) :
    let co := cubicSpline q1 q2 (m * q1) f2 m df2
    cubicAt co q1 = m * q1 ∧ cubicAt co q2 = f2 ∧ cubicDerivAt co q1 = m ∧ cubicDerivAt co q2 = df2 :=
  cubicSpline_interpolates hne (m * q1) f2 m df2

/-! ### 4. pumps -/

/-- **open head pump lies on its curve**: above the smoothing range the row is `A − B·q^C − (H_end − H_start)` -/
theorem headPump_on_curve (env : Env ℝ) (pc : PumpConsts) (P : PumpCoef) (L : Leaves)
    (h1 : P.C ≤ 1 → (pc.q1 : ℝ) < eval realOps env L.f ∧ (pc.q2 : ℝ) < eval realOps env L.f)
    (h2 : ¬ P.C ≤ 1 → (P.qbar : ℝ) < eval realOps env L.f) :
    eval realOps env (headPumpRow pc P L) =
      (P.A : ℝ) - (P.B : ℝ) * eval realOps env L.f ^ (P.C : ℝ) - (eval realOps env L.he - eval realOps env L.hs) := by
  by_cases hC : P.C ≤ 1
  · obtain ⟨a1, a2⟩ := h1 hC
    rw [headPumpRow_eval_le env pc P L hC, if_neg (not_le.2 a1), if_neg (not_le.2 a2)]; ring
  · rw [headPumpRow_eval_gt env pc P L hC, if_neg (not_le.2 (h2 hC))]; ring

/-- so `row = 0` there means the head gain is the curve value -/
theorem headPump_gain (env : Env ℝ) (pc : PumpConsts) (P : PumpCoef) (L : Leaves)
    (h1 : P.C ≤ 1 → (pc.q1 : ℝ) < eval realOps env L.f ∧ (pc.q2 : ℝ) < eval realOps env L.f)
    (h2 : ¬ P.C ≤ 1 → (P.qbar : ℝ) < eval realOps env L.f)
    (h0 : eval realOps env (headPumpRow pc P L) = 0) :
    eval realOps env L.he - eval realOps env L.hs = (P.A : ℝ) - (P.B : ℝ) * eval realOps env L.f ^ (P.C : ℝ) := by
  rw [headPump_on_curve env pc P L h1 h2] at h0; linarith

/-- reverse / zero flow branch (`C ≤ 1`, `f ≤ q1 = 0`): the pump holds `A + slope·f` -/
theorem headPump_reverse_branch (env : Env ℝ) (pc : PumpConsts) (P : PumpCoef) (L : Leaves) (hC : P.C ≤ 1)
    (hf : eval realOps env L.f ≤ (pc.q1 : ℝ)) :
    eval realOps env (headPumpRow pc P L) =
      (pc.slope : ℝ) * eval realOps env L.f + (P.A : ℝ) - eval realOps env L.he + eval realOps env L.hs := by
  rw [headPumpRow_eval_le env pc P L hC, if_pos hf]

/-- 1-point curve `(Q, H)`: the fitted curve passes through `(0, 4/3·H)`, `(Q, H)` and `(2Q, 0)` -/
theorem headPumpFit_1pt {Q H : ℝ} (hQ : Q ≠ 0) :
    (fit1 Q H).1 = 4 / 3 * H ∧ (fit1 Q H).1 - (fit1 Q H).2.1 * Q ^ 2 = H ∧
    (fit1 Q H).1 - (fit1 Q H).2.1 * (2 * Q) ^ 2 = 0 ∧ (fit1 Q H).2.2 = 2 := by
  refine ⟨rfl, ?_, ?_, rfl⟩ <;> simp only [fit1] <;> field_simp <;> ring

/-- the code's 1-point formulas are `fit1` with the doubles `4.0/3.0` and `1.0/3.0` (each within 1e-16 of the fraction) -/
theorem gen_fit1_is_model (env : Env ℝ) :
    eval realOps env RowsC02.fit1A = ((6004799503160661 / 4503599627370496 : ℚ) : ℝ) * env.param 1 ∧
    eval realOps env RowsC02.fit1B =
      ((6004799503160661 / 18014398509481984 : ℚ) : ℝ) * (env.param 1 / env.param 0 ^ 2) ∧
    eval realOps env RowsC02.fit1C = 2 ∧
    absRat ((6004799503160661 / 4503599627370496 : Rat) - 4 / 3) ≤ 1 / 10 ^ 16 ∧
    absRat ((6004799503160661 / 18014398509481984 : Rat) - 1 / 3) ≤ 1 / 10 ^ 16 := by
  refine ⟨?_, ?_, ?_, by decide +kernel, by decide +kernel⟩
  · simp [RowsC02.fit1A, eval, Ops.bin]
  · simp only [RowsC02.fit1B, eval, Ops.bin, realOps_mul, realOps_div, realOps_pow, realOps_ofRat, rpow_two]
  · simp [RowsC02.fit1C, eval]

/-- 2-point curve `(Q0, H0), (Q1, H1)` (REPAIRED code): the straight line through both points -/
theorem headPumpFit_2pt {Q0 H0 Q1 H1 : ℝ} (hQ : Q1 ≠ Q0) :
    (fit2 Q0 H0 Q1 H1).1 - (fit2 Q0 H0 Q1 H1).2.1 * Q0 = H0 ∧
    (fit2 Q0 H0 Q1 H1).1 - (fit2 Q0 H0 Q1 H1).2.1 * Q1 = H1 ∧ (fit2 Q0 H0 Q1 H1).2.2 = 1 := by
  have h : Q1 - Q0 ≠ 0 := sub_ne_zero.2 hQ
  refine ⟨?_, ?_, rfl⟩ <;> simp only [fit2] <;> field_simp <;> ring

/-- the code's 2-point formulas ARE `fit2` (leaves: `Q0 H0 Q1 H1` = `param 0 1 2 3`) — this is the obligation that fails on a
tree without fixes/C02-two-point-pump-curve.patch -/
theorem gen_fit2_is_model (env : Env ℝ) :
    eval realOps env RowsC02.fit2A = (fit2 (env.param 0) (env.param 1) (env.param 2) (env.param 3)).1 ∧
    eval realOps env RowsC02.fit2B = (fit2 (env.param 0) (env.param 1) (env.param 2) (env.param 3)).2.1 ∧
    eval realOps env RowsC02.fit2C = 1 := by
  refine ⟨?_, ?_, ?_⟩
  · simp [RowsC02.fit2A, fit2, eval, Ops.bin, Ops.un]
  · simp [RowsC02.fit2B, fit2, eval, Ops.bin, Ops.un]
  · simp [RowsC02.fit2C, eval]

/-- the formulas of the pinned tree (`B = −ΔH/(Q1² − Q0²)`, `A = H0 + B·Q0²`, `C = 1`) do NOT reproduce the curve points:
`(0, 40), (0.1, 20)` gives `A − B·0.1 = −160` instead of 20 -/
theorem fit2AsCoded_misses_points :
    (fit2AsCoded (0 : ℚ) 40 (1 / 10) 20).1 - (fit2AsCoded (0 : ℚ) 40 (1 / 10) 20).2.1 * (1 / 10) = -160 := by
  norm_num [fit2AsCoded]

/-! #### three-point curves: EPANET's closed form as the start of `scipy.optimize.curve_fit` -/

/-- `A0 = H[0]`, `C0 = log((H0−H1)/(H0−H2)) / log(Q1/Q2)`, `B0 = (H0−H1)/Q1^C0` — the start values `get_head_curve_coefficients`
hands to `curve_fit` for 3+ points (EPANET's three-point formula; `Q[0]` does not enter) -/
noncomputable def fit3Closed (Q1 Q2 H0 H1 H2 : ℝ) : ℝ × ℝ × ℝ :=
  let C := Real.log ((H0 - H1) / (H0 - H2)) / Real.log (Q1 / Q2)
  (H0, (H0 - H1) / Q1 ^ C, C)

/-- sum of squared residuals of `H = A − B·Q^C` on curve points -/
noncomputable def fitSSE (pts : List (ℝ × ℝ)) (x : ℝ × ℝ × ℝ) : ℝ :=
  (pts.map fun p => (x.1 - x.2.1 * p.1 ^ x.2.2 - p.2) ^ 2).sum

/-- **`headPumpFit_3pt_zero_first`**: when the first curve point is at zero flow (`Q0 = 0`), `0 < Q1 < Q2`, `H0 > H1 > H2`, the
closed form passes through all three points (so it is already the least-squares solution, residual 0) -/
theorem headPumpFit_3pt_zero_first {Q1 Q2 H0 H1 H2 : ℝ} (hQ1 : 0 < Q1) (hQ12 : Q1 < Q2) (h01 : H1 < H0) (h12 : H2 < H1) :
    let x := fit3Closed Q1 Q2 H0 H1 H2
    0 < x.2.2 ∧ x.1 - x.2.1 * (0 : ℝ) ^ x.2.2 = H0 ∧ x.1 - x.2.1 * Q1 ^ x.2.2 = H1 ∧ x.1 - x.2.1 * Q2 ^ x.2.2 = H2 := by
  have hQ2 : 0 < Q2 := lt_trans hQ1 hQ12
  have h02 : H2 < H0 := lt_trans h12 h01
  have hr0 : 0 < (H0 - H1) / (H0 - H2) := div_pos (by linarith) (by linarith)
  have hr1 : (H0 - H1) / (H0 - H2) < 1 := by rw [div_lt_one (by linarith)]; linarith
  have hq0 : 0 < Q1 / Q2 := div_pos hQ1 hQ2
  have hq1 : Q1 / Q2 < 1 := by rw [div_lt_one hQ2]; exact hQ12
  have hlr : Real.log ((H0 - H1) / (H0 - H2)) < 0 := Real.log_neg hr0 hr1
  have hlq : Real.log (Q1 / Q2) < 0 := Real.log_neg hq0 hq1
  have hC : 0 < Real.log ((H0 - H1) / (H0 - H2)) / Real.log (Q1 / Q2) := div_pos_of_neg_of_neg hlr hlq
  have hQ1C : 0 < Q1 ^ (Real.log ((H0 - H1) / (H0 - H2)) / Real.log (Q1 / Q2)) := Real.rpow_pos_of_pos hQ1 _
  refine ⟨hC, ?_, ?_, ?_⟩
  · simp only [fit3Closed, Real.zero_rpow hC.ne']; ring
  · simp only [fit3Closed]; field_simp; ring
  · simp only [fit3Closed]
    -- Q2^C = Q1^C · (Q2/Q1)^C and (Q1/Q2)^C = (H0−H1)/(H0−H2)
    have hpow : (Q1 / Q2) ^ (Real.log ((H0 - H1) / (H0 - H2)) / Real.log (Q1 / Q2)) = (H0 - H1) / (H0 - H2) := by
      rw [Real.rpow_def_of_pos hq0, mul_div_cancel₀ _ hlq.ne, Real.exp_log hr0]
    have hsplit : (Q1 / Q2) ^ (Real.log ((H0 - H1) / (H0 - H2)) / Real.log (Q1 / Q2)) =
        Q1 ^ (Real.log ((H0 - H1) / (H0 - H2)) / Real.log (Q1 / Q2)) /
          Q2 ^ (Real.log ((H0 - H1) / (H0 - H2)) / Real.log (Q1 / Q2)) := Real.div_rpow hQ1.le hQ2.le _
    have hQ2C : 0 < Q2 ^ (Real.log ((H0 - H1) / (H0 - H2)) / Real.log (Q1 / Q2)) := Real.rpow_pos_of_pos hQ2 _
    rw [hsplit] at hpow
    have h02' : H0 - H2 ≠ 0 := by linarith
    have key : (H0 - H1) / Q1 ^ (Real.log ((H0 - H1) / (H0 - H2)) / Real.log (Q1 / Q2)) *
        Q2 ^ (Real.log ((H0 - H1) / (H0 - H2)) / Real.log (Q1 / Q2)) = H0 - H2 := by
      field_simp at hpow ⊢
      nlinarith [hpow]
    linarith

/-- `scipy.optimize.curve_fit` is a PARAMETER: all that is assumed is that it does not return a worse fit than its start values -/
def CurveFitContract (curveFit : List (ℝ × ℝ) → ℝ × ℝ × ℝ → ℝ × ℝ × ℝ) : Prop :=
  ∀ pts x0, fitSSE pts (curveFit pts x0) ≤ fitSSE pts x0

/-- hence, for every such `curve_fit`, a three-point curve that starts at zero flow is reproduced by the coefficients
`get_head_curve_coefficients` returns (the fitted curve passes through its three points) -/
theorem headPumpFit_3pt_curve_fit (curveFit : List (ℝ × ℝ) → ℝ × ℝ × ℝ → ℝ × ℝ × ℝ) (hfit : CurveFitContract curveFit)
    {Q1 Q2 H0 H1 H2 : ℝ} (hQ1 : 0 < Q1) (hQ12 : Q1 < Q2) (h01 : H1 < H0) (h12 : H2 < H1) :
    let pts := [((0 : ℝ), H0), (Q1, H1), (Q2, H2)]
    let x := curveFit pts (fit3Closed Q1 Q2 H0 H1 H2)
    ∀ p ∈ pts, x.1 - x.2.1 * p.1 ^ x.2.2 = p.2 := by
  intro pts x
  obtain ⟨-, e0, e1, e2⟩ := headPumpFit_3pt_zero_first hQ1 hQ12 h01 h12
  have hstart : fitSSE pts (fit3Closed Q1 Q2 H0 H1 H2) = 0 := by
    simp only [fitSSE, pts, List.map_cons, List.map_nil, List.sum_cons, List.sum_nil, e0, e1, e2]; ring
  have hle : fitSSE pts x ≤ 0 := hstart ▸ hfit pts _
  have hsum : (x.1 - x.2.1 * (0 : ℝ) ^ x.2.2 - H0) ^ 2 + ((x.1 - x.2.1 * Q1 ^ x.2.2 - H1) ^ 2 +
      ((x.1 - x.2.1 * Q2 ^ x.2.2 - H2) ^ 2 + 0)) ≤ 0 := by
    simpa [fitSSE, pts] using hle
  have s0 := sq_nonneg (x.1 - x.2.1 * (0 : ℝ) ^ x.2.2 - H0)
  have s1 := sq_nonneg (x.1 - x.2.1 * Q1 ^ x.2.2 - H1)
  have s2 := sq_nonneg (x.1 - x.2.1 * Q2 ^ x.2.2 - H2)
  have z0 : (x.1 - x.2.1 * (0 : ℝ) ^ x.2.2 - H0) ^ 2 = 0 := by linarith
  have z1 : (x.1 - x.2.1 * Q1 ^ x.2.2 - H1) ^ 2 = 0 := by linarith
  have z2 : (x.1 - x.2.1 * Q2 ^ x.2.2 - H2) ^ 2 = 0 := by linarith
  intro p hp
  simp only [pts, List.mem_cons, List.mem_nil_iff, or_false] at hp
  rcases hp with rfl | rfl | rfl
  · have := pow_eq_zero_iff (n := 2) (by norm_num) |>.1 z0; linarith
  · have := pow_eq_zero_iff (n := 2) (by norm_num) |>.1 z1; linarith
  · have := pow_eq_zero_iff (n := 2) (by norm_num) |>.1 z2; linarith

/-- the closed form alone is NOT enough when the first point has positive flow (what seeded change C02-1 relied on): it returns
`A = H0` although `H0` belongs to `Q0 > 0`, so the curve misses its first point whenever `B > 0` -/
theorem fit3Closed_misses_positive_first {Q0 Q1 Q2 H0 H1 H2 : ℝ} (hQ0 : 0 < Q0) (hQ1 : 0 < Q1) (h01 : H1 < H0) :
    let x := fit3Closed Q1 Q2 H0 H1 H2
    x.1 - x.2.1 * Q0 ^ x.2.2 < H0 := by
  simp only [fit3Closed]
  have : 0 < (H0 - H1) / Q1 ^ (Real.log ((H0 - H1) / (H0 - H2)) / Real.log (Q1 / Q2)) * Q0 ^ (Real.log ((H0 - H1) / (H0 - H2)) / Real.log (Q1 / Q2)) :=
    mul_pos (div_pos (by linarith) (Real.rpow_pos_of_pos hQ1 _)) (Real.rpow_pos_of_pos hQ0 _)
  linarith

/-! #### the coefficient memo: fitted to the CURRENT curve -/

/-- the memo is valid when its key cannot alias the list the setter writes: the key is a copy, or the setter rebinds.  Then after
`curve.points = new` with `new` different from the points the coefficients were fitted to, the memo test misses and the coefficients
are recomputed — for every heap, curve and new point list -/
theorem memo_invalidated_by_setter (isCopy rebinds : Bool) (hok : isCopy || rebinds = true) (h : CurveHeap) (hwf : h.cur < h.objs.length)
    (new : Pts) (hne : new ≠ h.get h.cur) :
    (h.setPoints rebinds new).memoHit (h.storeKey isCopy) = false := by
  have hget : h.get h.cur = h.objs[h.cur] := by simp [CurveHeap.get, List.getD, hwf]
  cases rebinds <;> cases isCopy <;> simp at hok
  · -- in-place setter, copied key
    simp only [CurveHeap.setPoints, CurveHeap.storeKey, CurveHeap.memoHit, CurveHeap.get, Bool.false_eq_true, if_false, if_true,
      decide_eq_false_iff_not]
    simp only [List.getD, List.getElem?_set_self hwf, Option.getD_some]
    simpa [CurveHeap.get] using hne
  · -- rebinding setter, key by reference
    simp only [CurveHeap.setPoints, CurveHeap.storeKey, CurveHeap.memoHit, CurveHeap.get, Bool.false_eq_true, if_false, if_true,
      decide_eq_false_iff_not]
    simp only [List.getD, List.getElem?_append_right (le_refl _), Nat.sub_self, List.getElem?_cons_zero, Option.getD_some,
      List.getElem?_append_left hwf]
    simpa [CurveHeap.get, List.getD] using hne
  · -- rebinding setter, copied key
    simp only [CurveHeap.setPoints, CurveHeap.storeKey, CurveHeap.memoHit, CurveHeap.get, if_true, decide_eq_false_iff_not]
    simp only [List.getD, List.getElem?_append_right (le_refl _), Nat.sub_self, List.getElem?_cons_zero, Option.getD_some]
    simpa [CurveHeap.get, List.getD] using hne

/-- and when BOTH fail (key stored by reference, setter writes in place — seeded change C03-8) the memo always hits: the pump keeps
the coefficients of the old curve -/
theorem memo_stale_when_aliased (h : CurveHeap) (new : Pts) : (h.setPoints false new).memoHit (h.storeKey false) = true := by
  simp [CurveHeap.setPoints, CurveHeap.storeKey, CurveHeap.memoHit]

/-- the current source satisfies the validity condition (ast: the key is `curve.points` itself, the setter rebinds `self._points`) -/
theorem gen_memo_key_not_aliased : (UpdaterC02.memoKeyIsCopy || UpdaterC02.curveSetterRebinds) = true := by decide

/-- **power pump**: the row is `P + (H_start − H_end)·q·γ` (`γ = 9.81·1000`), so `row = 0` means the pump delivers its power -/
theorem powerPump_law (env : Env ℝ) (lit : RowLits) (L : Leaves)
    (h0 : eval realOps env (powerPumpRow lit L) = 0) :
    (eval realOps env L.he - eval realOps env L.hs) * eval realOps env L.f * (lit.gammaW : ℝ) = eval realOps env L.power := by
  rw [powerPumpRow_eval] at h0; linarith

/-! ### 5. valves -/

/-- active PRV: downstream pressure (`H_end − elevation_end`) equals the setting -/
theorem prv_active_holds_setting (env : Env ℝ) (L : Leaves) (h0 : eval realOps env (prvActiveRow L) = 0) :
    eval realOps env L.he - eval realOps env L.elevE = eval realOps env L.setting := by
  rw [prvActiveRow_eval] at h0; linarith

/-- active PSV: upstream pressure (`H_start − elevation_start`) equals the setting -/
theorem psv_active_holds_setting (env : Env ℝ) (L : Leaves) (h0 : eval realOps env (psvActiveRow L) = 0) :
    eval realOps env L.hs - eval realOps env L.elevS = eval realOps env L.setting := by
  rw [psvActiveRow_eval] at h0; linarith

/-- active FCV: the flow is the setting -/
theorem fcv_active_flow_is_setting (env : Env ℝ) (L : Leaves) (h0 : eval realOps env (fcvActiveRow L) = 0) :
    eval realOps env L.f = eval realOps env L.setting := by
  rw [fcvActiveRow_eval] at h0; linarith

/-- active TCV / open FCV / open TCV: `H_start − H_end = r·q·|q|` -/
theorem signedLoss_law (env : Env ℝ) (r : Expr) (L : Leaves) (h0 : eval realOps env (signedLossRow r L) = 0) :
    eval realOps env L.hs - eval realOps env L.he = eval realOps env r * eval realOps env L.f * |eval realOps env L.f| := by
  rw [signedLossRow_eval, rpow_two] at h0
  split_ifs at h0 with hf
  · rw [abs_of_nonpos hf]; linarith
  · rw [abs_of_pos (not_le.1 hf)]; linarith

/-- open PRV / PSV: `H_start − H_end = r·q²` -/
theorem open_valve_minor_loss (env : Env ℝ) (L : Leaves) (h0 : eval realOps env (openValveRowPlain L) = 0) :
    eval realOps env L.hs - eval realOps env L.he = eval realOps env L.mkl * eval realOps env L.f ^ 2 := by
  rw [openValveRowPlain_eval, rpow_two] at h0; linarith

/-- which row an active / open valve gets -/
theorem valve_rows (hw : HWConsts) (pc : PumpConsts) (lit : RowLits) (s : LinkSpec) (hi : s.isolated = false) :
    (s.kind = .prv → s.status = .active → linkRow hw pc lit s = prvActiveRow s.leaves) ∧
    (s.kind = .psv → s.status = .active → linkRow hw pc lit s = psvActiveRow s.leaves) ∧
    (s.kind = .fcv → s.status = .active → linkRow hw pc lit s = fcvActiveRow s.leaves) ∧
    (s.kind = .tcv → s.status = .active → linkRow hw pc lit s = signedLossRow s.leaves.tcvR s.leaves) ∧
    (s.kind = .tcv → s.status = .opened → linkRow hw pc lit s = signedLossRow s.leaves.mkl s.leaves) ∧
    (s.kind = .fcv → s.status = .opened → linkRow hw pc lit s = signedLossRow s.leaves.mkl s.leaves) ∧
    (s.kind = .prv → s.status = .opened → linkRow hw pc lit s = openValveRowPlain s.leaves) ∧
    (s.kind = .psv → s.status = .opened → linkRow hw pc lit s = openValveRowPlain s.leaves) := by
  refine ⟨?_, ?_, ?_, ?_, ?_, ?_, ?_, ?_⟩ <;> intro hk hs <;> simp [linkRow, hk, hs, hi]

/-- `minor_loss_param` and `tcv_resistance_param` compute `8·K / (c·d⁴)` with the same constant `c` = the double
`9.81 * math.pi**2` (K = minor-loss coefficient, resp. the TCV setting) -/
theorem loss_coefficient_formula :
    RowsC02.minorLossFormula = lossCoeffExpr 8 ((6813159455575387 : Rat) / 70368744177664) 4 ∧
    RowsC02.tcvResistanceFormula = lossCoeffExpr 8 ((6813159455575387 : Rat) / 70368744177664) 4 ∧
    absRat ((6813159455575387 : Rat) / 70368744177664 - 981 / 100 * (3141592653589793 / 10 ^ 15) ^ 2) ≤ 1 / 10 ^ 12 := by
  refine ⟨?_, ?_, ?_⟩ <;> decide +kernel

/-- value: `8K / (g·π²·d⁴)` for every positive `g`, `π` whose product `g·π²` is the constant -/
theorem loss_coefficient_value (env : Env ℝ) (c : ℚ) (g pi : ℝ) (hc : (c : ℝ) = g * pi ^ 2) :
    eval realOps env (lossCoeffExpr 8 c 4) = 8 * env.param 0 / (g * pi ^ 2 * env.param 1 ^ 4) := by
  have h4 : env.param 1 ^ ((4 : ℚ) : ℝ) = env.param 1 ^ 4 := by
    have : ((4 : ℚ) : ℝ) = ((4 : ℕ) : ℝ) := by norm_num
    rw [this, Real.rpow_natCast]
  simp only [lossCoeffExpr, eval, Ops.bin, realOps_mul, realOps_div, realOps_pow, realOps_ofRat, h4, hc]
  norm_num

/-! ### 6. no reverse flow -/

/-- `_CloseCVCondition` false ⇒ the flow is not below `−Qtol` -/
theorem closeCV_false_flow (Htol Qtol hs he q : Rat) (h : closeCV Htol Qtol hs he q = false) : -Qtol ≤ q := by
  unfold closeCV at h
  simp only at h
  split_ifs at h <;> first | exact absurd h (by decide) | exact Rat.not_lt.1 ‹_›

/-- **check-valve pipes**: results are saved only after a post-solve pass that changes no status; if an OPEN check-valve pipe
stays open through that pass (close control has the highest priority and runs last), its flow is ≥ −Qtol -/
theorem cv_no_reverse_at_fixpoint (Htol Qtol hs he q : Rat) (openFires : Bool)
    (h : postsolveInternal (closeCV Htol Qtol hs he q) openFires .opened = .opened) : -Qtol ≤ q := by
  apply closeCV_false_flow Htol Qtol hs he q
  cases hc : closeCV Htol Qtol hs he q with
  | false => rfl
  | true => simp [postsolveInternal, hc] at h

/-- and a CV pipe against an adverse head beyond `Htol` is closed -/
theorem cv_closed_against_head (Htol Qtol hs he q : Rat) (hH : 0 ≤ Htol) (h : hs - he < -Htol) :
    closeCV Htol Qtol hs he q = true := by
  unfold closeCV
  have : absRat (hs - he) > Htol := by
    unfold absRat
    have hneg : hs - he < 0 := lt_of_lt_of_le h (neg_nonpos.2 hH)
    simp only [hneg, if_true]; linarith
  simp [this, h]

/-- **head pumps** (REPAIRED `_CloseHeadPumpCondition`): an open pump that stays open through the post-solve pass has
flow ≥ −Qtol -/
theorem pump_no_reverse_at_fixpoint (Htol Qtol A hs he q : Rat) (openFires : Bool)
    (h : postsolveInternal (closeHeadPump Htol Qtol A hs he q) openFires .opened = .opened) : -Qtol ≤ q := by
  cases hc : closeHeadPump Htol Qtol A hs he q with
  | true => simp [postsolveInternal, hc] at h
  | false =>
    simp only [closeHeadPump, Bool.or_eq_false_iff, decide_eq_false_iff_not] at hc
    exact Rat.not_lt.1 hc.2

/-- the full statement for the condition AS CODED in the pinned tree (head test only): every state in which an open head pump
(`C ≤ 1` row, reverse branch) satisfies its row and is not closed has flow ≥ −Qtol -/
def PumpNoReverseAsCoded : Prop :=
  ∀ Htol Qtol A slope hs he q : Rat, 0 < Htol → 0 < Qtol → slope < 0 → q ≤ 0 →
    slope * q + A - he + hs = 0 → closeHeadPumpAsCoded Htol A hs he = false → -Qtol ≤ q

/-- it is FALSE: `A = 40`, `slope = −1e-11`, start head 20, flow −0.3 m³/s: the row holds with an end head of
`60 + 3e-12`, the head test `dh > A + Htol` does not fire, the pump stays open with 300 L/s of reverse flow -/
theorem pump_no_reverse_asCoded_counterexample : ¬ PumpNoReverseAsCoded := by
  intro h
  have := h (1524 / 10 ^ 7) (283168 / 10 ^ 11) 40 (-1 / 10 ^ 11) 20 (60 + 3 / 10 ^ 12) (-3 / 10) (by norm_num) (by norm_num)
    (by norm_num) (by norm_num) (by norm_num) (by decide +kernel)
  norm_num at this

/-- what IS true of the as-coded condition: below the shut-off head (up to `|slope|·Qtol`) there is no reverse flow -/
theorem pump_no_reverse_partial (A slope hs he q Qtol : ℝ) (hs0 : slope < 0) (hq : q ≤ 0)
    (hrow : slope * q + A - he + hs = 0) (hdh : he - hs ≤ A + (-slope) * Qtol) : -Qtol ≤ q := by
  have : slope * q ≤ (-slope) * Qtol := by linarith
  by_contra hlt
  have hlt' : q < -Qtol := not_le.1 hlt
  nlinarith

/-- **power pumps**: `_ClosePowerPumpCondition` tests only `dh > 1e10 + Htol`; full statement -/
def PowerPumpNoReverse : Prop :=
  ∀ Htol Hmax Qtol P gamma hs he q : Rat, 0 < Qtol → 0 < P → 0 < gamma →
    P + (hs - he) * q * gamma = 0 → closePowerPump Htol Hmax hs he = false → -Qtol ≤ q

/-- FALSE: a 4905 W pump from a reservoir at 100 m towards a node at 50 m satisfies its row with `q = −10 L/s` -/
theorem power_pump_no_reverse_counterexample : ¬ PowerPumpNoReverse := by
  intro h
  have := h (1524 / 10 ^ 7) (10 ^ 10) (283168 / 10 ^ 11) 4905 9810 100 50 (-1 / 100) (by norm_num) (by norm_num)
    (by norm_num) (by norm_num) (by decide +kernel)
  norm_num at this

/-- with the PROPOSED repair of `_ClosePowerPumpCondition` (fixes/C02-power-pump-reverse-flow.patch) an open power pump that
stays open through the post-solve pass has flow ≥ −Qtol -/
theorem power_pump_no_reverse_at_fixpoint (Htol Qtol Hmax hs he q : Rat) (openFires : Bool)
    (h : postsolveInternal (closePowerPumpRepaired Htol Qtol Hmax hs he q) openFires .opened = .opened) : -Qtol ≤ q := by
  cases hc : closePowerPumpRepaired Htol Qtol Hmax hs he q with
  | true => simp [postsolveInternal, hc] at h
  | false =>
    simp only [closePowerPumpRepaired, Bool.or_eq_false_iff, decide_eq_false_iff_not] at hc
    exact Rat.not_lt.1 hc.2

/-- and the repaired open condition never re-opens a pump whose end head is not above its start head (no open / close cycling
at the spurious root): closed stays closed there -/
theorem power_pump_downhill_stays_closed (Htol Hmax hs he : Rat) (hH : 0 ≤ Htol) (hd : he ≤ hs) (closeFires : Bool) :
    postsolveInternal false (openPowerPumpRepaired Htol Hmax hs he) .closed = .closed := by
  have : ¬ Htol < he - hs := by
    intro h
    have : he - hs ≤ 0 := by linarith
    linarith
  simp [postsolveInternal, openPowerPumpRepaired, this]

/-- what IS true: a power pump that adds head (`H_end > H_start`) has positive flow -/
theorem power_pump_no_reverse_partial (P gamma hs he q : ℝ) (hP : 0 < P) (hg : 0 < gamma)
    (hrow : P + (hs - he) * q * gamma = 0) (hdh : hs < he) : 0 < q := by
  by_contra hq
  have hq' : q ≤ 0 := not_lt.1 hq
  have : (hs - he) * q ≥ 0 := mul_nonneg_of_nonpos_of_nonpos (by linarith) hq'
  nlinarith

/-! ### 7. the row in the model is the one for the CURRENT (hence reported) status -/

/-- **registrations**: for every link of the zoo, in both modes / approximations, `create_hydraulic_model` registers with the
ModelUpdater every attribute the row SHAPE depends on (`status`, `_is_isolated`, and `pump_curve_name` for head pumps) for the
row's own Definition class, and every attribute the row's PARAMETERS are computed from (`setting`, `minor_loss`, `diameter`,
`roughness`, `length`, `power`).  A dropped `updater.add(link, 'status', …)` breaks this. -/
theorem updater_registers_link_rows :
    (UpdaterC02.DD.linkRegs.all fun r => subsetB (rowDeps r.2.1 .default) r.2.2 && subsetB (paramDeps r.2.1) r.2.2) = true ∧
    (UpdaterC02.PDD.linkRegs.all fun r => subsetB (rowDeps r.2.1 .piecewise) r.2.2 && subsetB (paramDeps r.2.1) r.2.2) = true ∧
    (UpdaterC02.DD.linkRegs.map fun r => r.2.1) ⊇ [.pipe, .headPump, .powerPump, .prv, .psv, .fcv, .tcv] ∧
    UpdaterC02.DD.linkRegs.map (fun r => r.1) = RowsC02.Default.rows.map (fun r => r.name) := by
  refine ⟨?_, ?_, ?_, ?_⟩ <;> decide +kernel

/-- **parameters are built from the CURRENT attributes**: the attributes each parameter Definition's `build` really reads (recorded
at run time) are exactly the documented ones (`setting`, not `initial_setting`, for the TCV loss coefficient and the valve
setting), and each of them is registered with the ModelUpdater for that Definition on some zoo link — so a control that changes a
valve's setting mid-run rebuilds `valve_setting` and `tcv_resistance` from the new value -/
theorem params_read_current_attributes :
    (UpdaterC02.paramReads.all fun r => r.2.isPerm (paramAttrs r.1) && !r.2.isEmpty) = true ∧
    UpdaterC02.paramReads.map (fun r => r.1) =
      ["hw_resistance_param", "minor_loss_param", "tcv_resistance_param", "pump_power_param", "valve_setting_param"] ∧
    (UpdaterC02.paramReads.all fun r => r.2.all fun a =>
      UpdaterC02.DD.linkRegs.any (fun l => l.2.2.contains (a, r.1)) &&
      UpdaterC02.PDD.linkRegs.any (fun l => l.2.2.contains (a, r.1))) = true := by
  refine ⟨?_, ?_, ?_⟩ <;> decide +kernel

theorem changedAttrs_nil {a b : ShapeKey} (h : changedAttrs a b = []) : a = b := by
  unfold changedAttrs at h
  cases a; cases b
  simp only [List.append_eq_nil_iff] at h
  obtain ⟨⟨h1, h2⟩, h3⟩ := h
  simp only [ShapeKey.mk.injEq]
  refine ⟨?_, ?_, ?_⟩
  · by_contra hn; simp [hn] at h1
  · by_contra hn; simp [hn] at h2
  · by_contra hn; simp [hn] at h3

/-- **status_branch_consistent**: if every attribute in which the link differs from the state its row was built for is
registered for the row's Definition class, then after the model update the row in the model is the row of the link's CURRENT
status / isolation / curve.  Results are saved only after a post-solve pass that changes nothing, so that status is the reported
one. -/
theorem status_branch_consistent (regs : List (String × String)) (cls : String) (built cur : ShapeKey)
    (hreg : ∀ a ∈ changedAttrs built cur, (a, cls) ∈ regs) : updateRow regs cls built cur = cur := by
  unfold updateRow
  split_ifs with h
  · rfl
  · cases hc : changedAttrs built cur with
    | nil => exact changedAttrs_nil hc
    | cons a t =>
      exfalso; apply h
      rw [List.any_eq_true]
      exact ⟨a, by rw [hc]; simp, by simpa using hreg a (by rw [hc]; simp)⟩

/-! #### the change tracker reports a target exactly when its value differs from the reference point -/

/-- invariant of `ControlChangeTracker`: `(obj, attr) ∈ changed` iff the attribute's current value differs from the value stored at
the reference point — after ANY sequence of control-action firings and resets -/
theorem tracker_invariant {V : Type} [DecidableEq V] (s : Tracked V) (ops : List (TrackOp V))
    (h : s.changed = decide (s.cur ≠ s.prev)) : (s.run ops).changed = decide ((s.run ops).cur ≠ (s.run ops).prev) := by
  induction ops generalizing s with
  | nil => exact h
  | cons op rest ih =>
    apply ih
    cases op <;> simp [Tracked.step]

theorem tracker_run_prev {V : Type} [DecidableEq V] (s : Tracked V) (vs : List V) : (s.run (vs.map .fire)).prev = s.prev := by
  induction vs generalizing s with
  | nil => rfl
  | cons v rest ih => simp only [List.map_cons, Tracked.run]; rw [ih]; rfl

/-- one trial: if the target is registered with the updater and the row was built for the reference value, then after
`update_model_for_controls` the row is built for the CURRENT value and the tracker is back at a clean reference point -/
theorem trialRound_consistent {V : Type} [DecidableEq V] (st : Tracked V × V) (fires : List V)
    (hinv : st.1.changed = decide (st.1.cur ≠ st.1.prev)) (hbuilt : st.2 = st.1.prev) :
    let st' := trialRound true st fires
    st'.2 = st'.1.cur ∧ st'.1.prev = st'.1.cur ∧ st'.1.changed = false := by
  have hi := tracker_invariant st.1 (fires.map .fire) hinv
  have hp := tracker_run_prev st.1 fires
  simp only [trialRound, modelUpdate, Tracked.step, Bool.and_true]
  refine ⟨?_, trivial, trivial⟩
  rw [hi]
  by_cases hc : (st.1.run (fires.map .fire)).cur = (st.1.run (fires.map .fire)).prev
  · simp [hc, hbuilt, hp]
  · simp [hc]

/-- **status_branch_consistent, without an unproved premise about the tracker**: starting from `create_hydraulic_model` +
`set_reference_point('model')` (row built for the value the tracker stored), after ANY number of trials with ANY control-action
firings on the target, the row in the model is the one for the target's current value, provided the target is registered with the
ModelUpdater (`updater_registers_link_rows`, `params_read_current_attributes`) -/
theorem tracked_row_consistent {V : Type} [DecidableEq V] (v0 : V) (rounds : List (List V)) :
    let st := trialRounds true (Tracked.start v0, v0) rounds
    st.2 = st.1.cur := by
  suffices h : ∀ (st : Tracked V × V), st.1.changed = false → st.1.prev = st.1.cur → st.2 = st.1.cur →
      (trialRounds true st rounds).2 = (trialRounds true st rounds).1.cur from h _ rfl rfl rfl
  induction rounds with
  | nil => intro st _ _ h3; exact h3
  | cons r rest ih =>
    intro st h1 h2 h3
    simp only [trialRounds]
    obtain ⟨a, b, c⟩ := trialRound_consistent st r (by simp [h1, h2]) (by rw [h3, h2])
    exact ih _ c b a

/-- `run_sim` (ast, Gen/UpdaterC02.lean) decides the re-solve on a reference point that follows EVERY registered target (no `attrs`
filter on it, nor on the 'model' point that drives the row / parameter updates) -/
theorem resolve_reference_point_unfiltered :
    UpdaterC02.resolveRefPoint = "graph" ∧ UpdaterC02.resolveRefPointFilter = none ∧ UpdaterC02.modelRefPointFilter = none := by
  decide

/-- **a step is reported only at a fixpoint of ALL tracked targets**: with an unfiltered reference point, "no re-solve" means that no
tracked target (status, setting, …) differs from its value at the last solve — so the reported status AND setting are the ones the
reported flows / heads were solved for -/
theorem no_resolve_means_fixpoint {V : Type} [DecidableEq V] (targets : List (String × Tracked V))
    (hinv : ∀ t ∈ targets, t.2.changed = decide (t.2.cur ≠ t.2.prev)) (h : needResolve none targets = false) :
    ∀ t ∈ targets, t.2.cur = t.2.prev := by
  intro t ht
  have := (List.any_eq_false.1 h) t ht
  simp only [Bool.true_and] at this
  have hc : t.2.changed = false := by simpa using this
  have := hinv t ht
  rw [hc] at this
  simpa using this.symm

/-- and any tracked change after the post-solve pass forces another trial -/
theorem tracked_change_forces_resolve {V : Type} [DecidableEq V] (targets : List (String × Tracked V)) (t : String × Tracked V)
    (ht : t ∈ targets) (hinv : t.2.changed = decide (t.2.cur ≠ t.2.prev)) (hne : t.2.cur ≠ t.2.prev) :
    needResolve none targets = true := by
  rw [needResolve, List.any_eq_true]
  exact ⟨t, ht, by simp [hinv, hne]⟩

/-- with an `attrs = ['status']` filter on that reference point a SETTING change made by a post-solve control does not force a
re-solve: the step would be reported with the new setting and the old solution (what seeded change C02-8 did) -/
theorem filtered_reference_point_misses_setting :
    needResolve (some ["status"]) [("setting", ({ prev := (55 : Nat), cur := 40, changed := true } : Tracked Nat))] = false ∧
    needResolve none [("setting", ({ prev := (55 : Nat), cur := 40, changed := true } : Tracked Nat))] = true := by decide

/-- and an unregistered target keeps the stale row although the tracker reports the change -/
theorem unregistered_target_stale :
    (trialRounds false (Tracked.start Status.active, Status.active) [[Status.opened]]).2 = Status.active ∧
    (trialRounds false (Tracked.start Status.active, Status.active) [[Status.opened]]).1.cur = Status.opened := by decide

/-- every attribute `changedAttrs` can report is among `rowDeps` of a head pump; for the other kinds the curve never changes -/
theorem status_branch_consistent_of_rowDeps (kind : LinkKind) (approx : Approx) (regs : List (String × String))
    (built cur : ShapeKey) (hsub : subsetB (rowDeps kind approx) regs = true)
    (hcurve : kind ≠ .headPump → built.curve = cur.curve) :
    updateRow regs (rowDeps kind approx).head!.2 built cur = cur := by
  apply status_branch_consistent
  intro a ha
  have hall : ∀ x ∈ rowDeps kind approx, x ∈ regs := by
    intro x hx
    have := List.all_eq_true.1 hsub x hx
    simpa using this
  unfold changedAttrs at ha
  simp only [List.mem_append] at ha
  rcases ha with (ha | ha) | ha
  · split_ifs at ha with h1
    · simp at ha
    · simp only [List.mem_singleton] at ha; subst ha
      apply hall; cases kind <;> cases approx <;> simp [rowDeps]
  · split_ifs at ha with h1
    · simp at ha
    · simp only [List.mem_singleton] at ha; subst ha
      apply hall; cases kind <;> cases approx <;> simp [rowDeps]
  · split_ifs at ha with h1
    · simp at ha
    · simp only [List.mem_singleton] at ha; subst ha
      by_cases hk : kind = .headPump
      · subst hk; apply hall; cases approx <;> simp [rowDeps]
      · exact absurd (hcurve hk) h1

/-- the converse that makes the registration matter: with `status` not registered a status change leaves the stale row -/
theorem unregistered_status_keeps_stale_row :
    updateRow [("_is_isolated", "prv_headloss_constraint")] "prv_headloss_constraint"
      { status := .active, isolated := false, curve := 0 } { status := .opened, isolated := false, curve := 0 } =
      { status := .active, isolated := false, curve := 0 } := by decide

/-! ### non-vacuity -/

/-- an open check valve with forward flow is a post-solve fixpoint -/
example : postsolveInternal (closeCV RowsC02.cvHtol RowsC02.cvQtol 10 9 (1 / 100)) (openCV RowsC02.cvHtol RowsC02.cvQtol 10 9 (1 / 100))
    .opened = .opened := by decide +kernel

/-- a head pump below its shut-off head with forward flow stays open; the repaired condition closes the counterexample state -/
example : postsolveInternal (closeHeadPump RowsC02.pumpHtol RowsC02.cvQtol 40 20 55 (1 / 100)) true .opened = .opened ∧
    closeHeadPump RowsC02.pumpHtol RowsC02.cvQtol 40 20 (60 + 3 / 10 ^ 12) (-3 / 10) = true := by decide +kernel

/-- hypotheses of `hwApprox_strictMono` hold for a real pipe (k from the formula is positive) and of `headPump_on_curve`
for the zoo's pumps -/
example : (0 : ℝ) < 3 ∧ (0 : ℝ) ≤ 0 ∧ (0 : ℝ) ≤ 1 / 10 ^ 5 ∧ (0 : ℝ) < 1852 / 1000 := by norm_num

example : (RowsC02.Default.rows.filter fun r => r.kind == .headPump && r.status == .opened).length = 5 := by decide +kernel

end Wntr.LinkRows
