/-
C13, the non-element parts of the dictionary.

* tables: the option groups (fields emitted by `Options.to_dict` = instance `__dict__`; restored = a keyword parameter of the
  group's `__init__` that is stored under its own name; the group itself a parameter of `Options.__init__` passed through
  `Group.factory`), the top-level keys of the dictionary (what `from_dict` does with each) and the keys of a control
  entry (rule / simple) are regenerated from the source on every run and the "every emitted key is restored" condition
  is DECIDED on them (`option_tables_ok`, `section_tables_ok`); the generic round-trip theorem of Props/C13 then applies
  to every option group object (`section_roundtrip_tables`).
* simple controls: the text written by `Control.to_dict` is re-read to the SAME control by the repaired `from_dict`, for
  every well-formed control (any element kind, attribute, relation, value) -- `simple_roundtrip_repaired`; the coded reader
  (through `_read_control_line`) is not faithful: `simple_coded_relation_counterexample`, `simple_coded_attribute_counterexample`,
  it is on the `[CONTROLS]`-expressible fragment (`simple_coded_partial`).  Which reader the current source has is read by
  `ast` (`Gen.simpleReader`); `generated_reader_full_iff` says the full statement holds for it iff it is the repaired one.
* append into a NON-empty model: `append_disjoint_is_union`, `append_ok_iff`, `append_never_overwrites`.
-/
import WntrModel.Model.SchemaSections
import WntrModel.Gen.SchemaSections
import WntrModel.Props.C13
import Mathlib.Tactic.Linarith
import Mathlib.Algebra.Order.Field.Rat

namespace Wntr.Schema

variable {V : Type}

/-! ### option groups, top level, control entries -/

def OptionTablesOk : Prop := missingPairs Gen.optionTables = []
def SectionTablesOk : Prop := missingPairs Gen.sectionTables = []

/-- every field of every option group that `Options.to_dict` emits is a parameter of the group's constructor stored
under its own name, and every group is handed to its factory by `Options.__init__` -/
theorem option_tables_ok : OptionTablesOk := by
  unfold OptionTablesOk
  decide +kernel

/-- every top-level key of the dictionary is restored (name, references, options, the six element sections) or is a
constant of the writer (version, comment); every key of a rule entry goes into the rule text that is re-parsed, every
key of a simple entry is read -/
theorem section_tables_ok : SectionTablesOk := by
  unfold SectionTablesOk
  decide +kernel

/-- the round trip for ANY table whose condition holds (options groups, top level): no hypothesis on the values -/
theorem section_roundtrip_tables (ts : List ClassTable) (hts : missingPairs ts = []) (t : ClassTable) (ht : t ∈ ts)
    (nrm : V → V) (der : Key → Option ((Key → V) → V)) (dflt : Key → V)
    (hderTotal : ∀ k, t.derivedB k = true → (der k).isSome = true)
    (hder : ∀ k f, der k = some f → ∀ o o' : Key → V,
      (∀ k', t.restoreB k' = true → o' k' = nrm (o k')) → f o' = nrm (f o))
    (o : Key → V) (hconst : ∀ k, t.constB k = true → o k = dflt k ∧ nrm (dflt k) = dflt k) :
    (t.schema der dflt).toDict ((t.schema der dflt).fromDict nrm ((t.schema der dflt).toDict o)) =
      ((t.schema der dflt).toDict o).map fun kv => (kv.1, nrm kv.2) := by
  apply elem_roundtrip _ nrm (table_schema_wf t nrm der dflt hder)
  intro k hk
  have hok := ok_of_missing_nil ts hts t ht
  unfold ClassTable.ok at hok
  rw [List.all_eq_true] at hok
  have hk' := hok k hk
  simp only [ClassTable.keyOk, Bool.or_eq_true] at hk'
  rcases hk' with (h | h) | h
  · exact Or.inl h
  · right; left
    simp only [ClassTable.schema, h, if_true]
    exact hderTotal k h
  · exact Or.inr (Or.inr (hconst k h))

/-- the option groups have no derived and no constant keys: an option group round-trips whatever its values -/
theorem option_group_roundtrip (t : ClassTable) (ht : t ∈ Gen.optionTables) (nrm : V → V) (dflt : Key → V) (o : Key → V)
    (hplain : t.cls ≠ "Junction" ∧ t.cls ≠ "GPValve" ∧ t.cls ≠ "Reservoir" ∧ t.cls ≠ "Pipe" ∧ t.cls ≠ "Model") :
    (t.schema (fun _ => none) dflt).toDict ((t.schema (fun _ => none) dflt).fromDict nrm ((t.schema (fun _ => none) dflt).toDict o)) =
      ((t.schema (fun _ => none) dflt).toDict o).map fun kv => (kv.1, nrm kv.2) := by
  obtain ⟨h1, h2, h3, h4, h5⟩ := hplain
  apply section_roundtrip_tables Gen.optionTables option_tables_ok t ht nrm (fun _ => none) dflt
  · intro k hk
    simp only [ClassTable.derivedB, derivedKeys] at hk
    first | (simp at hk) | (split at hk <;> simp_all)
  · intro k f hf; cases hf
  · intro k hk
    simp only [ClassTable.constB, constKeys] at hk
    first | (simp at hk) | (split at hk <;> simp_all)

/-- non-vacuity: the tables contain the time and hydraulic groups with restored fields, and the plain-class premise holds for all of them -/
example : (Gen.optionTables.all fun t => t.cls != "Junction" && t.cls != "GPValve" && t.cls != "Reservoir" && t.cls != "Pipe" && t.cls != "Model") = true ∧
    (Gen.optionTables.any fun t => t.cls == "options.time" && t.restoreB "duration") = true ∧
    (Gen.optionTables.any fun t => t.cls == "options.hydraulic" && t.restoreB "demand_model") = true ∧
    (Gen.sectionTables.any fun t => t.cls == "Control:rule" && t.restoreB "else_actions" && t.restoreB "priority") = true := by
  decide +kernel

/-- a `from_dict` that would not pass `references` on is caught by the condition -/
def forgetfulModel : ClassTable :=
  { cls := "Model", emitted := ["name", "references"], rows := [{ key := "name", use := .assign "name", xform := "" }], defaults := [] }

example : missingPairs [forgetfulModel] = [("Model", "references")] := by decide

end Wntr.Schema

/-! ### simple controls -/
namespace Wntr.Schema.Ctl

theorem rel_parse_text (r : Rel) : Rel.parse r.text = some r := by
  cases r <;> decide

/-- the relation words of the model are those of `Comparison` (reflection: name, `text.upper()`, `parse(text.upper()).name`) -/
theorem rel_table_matches_model : Gen.relRows = Rel.all.map fun r => (r.name, r.text, r.name) := by
  decide +kernel

theorem isNodeWord_word (k : Kind) : isNodeWord k.word = k.isNode := by
  cases k with
  | valve g => cases g <;> decide
  | _ => decide

theorem lookup_repaired_has (net : Net) (k : Kind) (nm : String) (h : net.has k nm = true) :
    lookupRepaired net (.w k.word) (.w nm) = .ok k := by
  unfold lookupRepaired
  simp only [Tok.text, isNodeWord_word]
  unfold Net.has at h
  cases hk : k.isNode <;> simp_all

theorem status_word_roundtrip (k : Nat) (hk : k ≤ 2) : statusOfWord (statusWord k) = some k := by
  match k, hk with
  | 0, _ => decide
  | 1, _ => decide
  | 2, _ => decide

/-- the action text is re-read to the same action -/
theorem act_roundtrip_repaired (net : Net) (a : Act) (h : a.wf net = true) : readActRepaired net (writeAct a) = .ok a := by
  obtain ⟨kind, name, attr, val⟩ := a
  simp only [Act.wf, Bool.and_eq_true] at h
  obtain ⟨hhas, hval⟩ := h
  simp only [writeAct, readActRepaired, lookup_repaired_has net kind name hhas, Tok.lower, Tok.text]
  cases val with
  | num r =>
    simp only [Val.okFor, bne_iff_ne, ne_eq] at hval
    simp [writeVal, hval]
  | st k =>
    simp only [Val.okFor, Bool.and_eq_true, beq_iff_eq, decide_eq_true_eq] at hval
    obtain ⟨ha, hk⟩ := hval
    subst ha
    have : ("status" == "leak_status") = false := by decide
    simp [writeVal, this, Tok.text, status_word_roundtrip k hk]
  | flag b =>
    simp only [Val.okFor, beq_iff_eq] at hval
    subst hval
    cases b <;> simp [writeVal, Tok.text] <;> decide
  | str s =>
    simp only [Val.okFor, Bool.and_eq_true, bne_iff_ne, ne_eq, Option.isNone_iff_eq_none] at hval
    obtain ⟨ha, hs⟩ := hval
    simp [writeVal, ha, Tok.text, hs]

/-- the condition text is re-read to the same condition -/
theorem cond_roundtrip_repaired (net : Net) (c : Cond) (h : c.wf net = true) : readCondRepaired net (writeCond c) = .ok c := by
  cases c with
  | time clock rel t =>
    cases clock <;> simp [writeCond, readCondRepaired, Tok.text, rel_parse_text] <;> decide
  | value c =>
    obtain ⟨kind, name, attr, rel, val⟩ := c
    simp only [Cond.wf, Bool.and_eq_true, bne_iff_ne, ne_eq] at h
    obtain ⟨⟨hhas, hsys⟩, hval⟩ := h
    have hns : kind.word ≠ "SYSTEM" := hsys
    unfold writeCond readCondRepaired
    split
    · rename_i heq
      simp only [List.cons.injEq, Tok.w.injEq] at heq
      exact absurd heq.1 hns
    · rename_i heq
      simp only [List.cons.injEq, and_true] at heq
      obtain ⟨h1, h2, h3, h4, h5⟩ := heq
      subst h1 h2 h3 h4 h5
      simp only [lookup_repaired_has net kind name hhas, Tok.text, rel_parse_text, Tok.lower]
      cases val with
      | num r => simp [writeVal]
      | st k =>
        have hk : k ≤ 2 := by simpa using hval
        simp [writeVal, Tok.text, status_word_roundtrip k hk]
      | flag b => simp at hval
      | str s => simp at hval
    · rename_i hno hno2
      exact (hno2 _ _ _ _ _ rfl).elim

/-- **`simple_roundtrip_repaired`**: for every model and every well-formed simple control (any element kind, attribute,
relation, numeric / status / Boolean / name value, time or clock-time condition with any relation) the repaired
`from_dict` re-creates exactly the control whose texts `to_dict` wrote -/
theorem simple_roundtrip_repaired (net : Net) (c : Simple) (h : c.wf net = true) :
    readSimple repairedReader net (writeCond c.cond) (writeAct c.act) = .ok c := by
  simp only [Simple.wf, Bool.and_eq_true] at h
  simp [readSimple, repairedReader, act_roundtrip_repaired net c.act h.2, cond_roundtrip_repaired net c.cond h.1]

/-- the full statement for a reader -/
def SimpleRoundtripFull (r : Reader) : Prop :=
  ∀ (net : Net) (c : Simple), c.wf net = true → readSimple r net (writeCond c.cond) (writeAct c.act) = .ok c

theorem simple_full_repaired : SimpleRoundtripFull repairedReader := simple_roundtrip_repaired

/-- the witness model: tank T0, pump PU0, pipe P1 -/
def wNet : Net :=
  { node := fun n => if n == "T0" then some .tank else none,
    link := fun n => if n == "PU0" then some .pump else if n == "P1" then some .pipe else none }

def wLe : Simple :=
  { cond := .value { kind := .tank, name := "T0", attr := "level", rel := .le, val := .num "2.94" },
    act := { kind := .pump, name := "PU0", attr := "base_speed", val := .num "0.8" } }

def wHead : Simple :=
  { cond := .value { kind := .tank, name := "T0", attr := "head", rel := .gt, val := .num "2.71" },
    act := { kind := .pipe, name := "P1", attr := "status", val := .st 1 } }

/-- `Control(ValueCondition(tank,'level','<=',2.94), ControlAction(pump,'base_speed',0.8))`: the coded `from_dict` raises
RuntimeError ("control is not recognized") -- finding `from_dict-raises-RuntimeError-control-not-recognized` -/
theorem simple_coded_relation_counterexample :
    wLe.wf wNet = true ∧ readSimple codedReader wNet (writeCond wLe.cond) (writeAct wLe.act) = .raises "RuntimeError" := by
  constructor <;> decide

/-- `TANK T0 HEAD ABOVE 2.71` comes back as a LEVEL condition -- finding `control-simple-condition` -/
theorem simple_coded_attribute_counterexample :
    wHead.wf wNet = true ∧
    readSimple codedReader wNet (writeCond wHead.cond) (writeAct wHead.act) =
      .ok { wHead with cond := .value { kind := .tank, name := "T0", attr := "level", rel := .gt, val := .num "2.71" } } := by
  constructor <;> decide

theorem simple_full_coded_counterexample : ¬ SimpleRoundtripFull codedReader := by
  intro h
  have := h wNet wLe simple_coded_relation_counterexample.1
  rw [simple_coded_relation_counterexample.2] at this
  cases this

/-- what a `[CONTROLS]` line can say: tank level / junction pressure ABOVE / BELOW a number, or a time condition with "=";
the action's attribute is the one the line reader infers (status word; pump speed; valve setting) -/
def Simple.lineExpressible (c : Simple) : Bool :=
  (match c.cond with
   | .time _ rel _ => rel == .eq
   | .value v => ((v.kind == .tank && v.attr == "level") || (v.kind == .junction && v.attr == "pressure")) &&
       (v.rel == .gt || v.rel == .lt) && (match v.val with | .num _ => true | _ => false)) &&
  (match c.act.val, c.act.kind with
   | .st _, k => c.act.attr == "status" && !k.isNode
   | .num _, .pump => c.act.attr == "base_speed"
   | .num _, .valve false => c.act.attr == "setting"
   | _, _ => false)

/-- **`simple_coded_partial`**: on the `[CONTROLS]`-expressible fragment the coded reader is faithful too -/
theorem simple_coded_partial (net : Net) (c : Simple) (h : c.wf net = true) (hx : c.lineExpressible = true) :
    readSimple codedReader net (writeCond c.cond) (writeAct c.act) = .ok c := by
  obtain ⟨cond, ⟨akind, aname, aattr, aval⟩⟩ := c
  simp only [Simple.wf, Act.wf, Bool.and_eq_true] at h
  obtain ⟨hc, hhas, hval⟩ := h
  simp only [Simple.lineExpressible, Bool.and_eq_true] at hx
  obtain ⟨hxc, hxa⟩ := hx
  -- the action
  have hact : readActCoded net (.w akind.word) (.w aname) (writeVal aval) =
      .ok { kind := akind, name := aname, attr := aattr, val := aval } := by
    cases aval with
    | st k =>
      simp only [Bool.and_eq_true, beq_iff_eq, Bool.not_eq_true'] at hxa
      obtain ⟨ha, hn⟩ := hxa
      subst ha
      have hk : k ≤ 2 := by simpa [Val.okFor] using hval
      have hl : net.link aname = some akind := by simpa [Net.has, hn] using hhas
      have hw : (akind.word == "JUNCTION" || akind.word == "TANK") = false := by
        cases akind <;> first | rfl | (simp [Kind.isNode] at hn)
      match k, hk with
      | 0, _ => simp [readActCoded, Tok.text, hw, hl, writeVal, statusWord]
      | 1, _ => simp [readActCoded, Tok.text, hw, hl, writeVal, statusWord]
      | 2, _ => simp [readActCoded, Tok.text, hw, hl, writeVal, statusWord]
    | num r =>
      cases akind with
      | pump =>
        have ha : aattr = "base_speed" := by simpa using hxa
        subst ha
        have hl : net.link aname = some .pump := by simpa [Net.has, Kind.isNode] using hhas
        have hw : (Kind.pump.word == "JUNCTION" || Kind.pump.word == "TANK") = false := by decide
        simp [readActCoded, Tok.text, hw, hl, writeVal]
      | valve g =>
        cases g with
        | true => simp at hxa
        | false =>
          have ha : aattr = "setting" := by simpa using hxa
          subst ha
          have hl : net.link aname = some (.valve false) := by simpa [Net.has, Kind.isNode] using hhas
          have hw : ((Kind.valve false).word == "JUNCTION" || (Kind.valve false).word == "TANK") = false := by decide
          simp [readActCoded, Tok.text, hw, hl, writeVal]
      | junction => simp at hxa
      | tank => simp at hxa
      | reservoir => simp at hxa
      | pipe => simp at hxa
    | flag b => simp at hxa
    | str s => simp at hxa
  -- the condition
  have hcond : readCondCoded net (writeCond cond) = .ok cond := by
    cases cond with
    | time clock rel t =>
      have hr : rel = .eq := by simpa using hxc
      subst hr
      cases clock <;> simp [writeCond, readCondCoded] <;> decide
    | value v =>
      obtain ⟨kind, name, attr, rel, val⟩ := v
      simp only [Bool.and_eq_true, Bool.or_eq_true, beq_iff_eq] at hxc
      obtain ⟨⟨hka, hrel⟩, hnum⟩ := hxc
      simp only [Cond.wf, Bool.and_eq_true] at hc
      obtain ⟨⟨hh, _⟩, _⟩ := hc
      cases val with
      | num x =>
        rcases hka with ⟨hk, ha⟩ | ⟨hk, ha⟩
        · subst hk ha
          have hn : net.node name = some .tank := by simpa [Net.has, Kind.isNode] using hh
          rcases hrel with hr | hr <;> subst hr <;>
            simp [writeCond, readCondCoded, Kind.word, Tok.text, hn, Rel.text, writeVal]
        · subst hk ha
          have hn : net.node name = some .junction := by simpa [Net.has, Kind.isNode] using hh
          rcases hrel with hr | hr <;> subst hr <;>
            simp [writeCond, readCondCoded, Kind.word, Tok.text, hn, Rel.text, writeVal]
      | st k => simp at hnum
      | flag b => simp at hnum
      | str s => simp at hnum
  simp [readSimple, codedReader, writeAct, hact, hcond]

/-- non-vacuity of the fragment: `PUMP PU0 0.8 IF TANK T0 BELOW 2.94` -/
example : ({ wLe with cond := .value { kind := .tank, name := "T0", attr := "level", rel := .lt, val := .num "2.94" } } : Simple).lineExpressible = true ∧
    ({ wLe with cond := .value { kind := .tank, name := "T0", attr := "level", rel := .lt, val := .num "2.94" } } : Simple).wf wNet = true := by
  constructor <;> decide

/-- the reader the CURRENT source has is one of the two that are modelled (regenerated by `ast` on every run) -/
theorem generated_reader_known : Gen.simpleReader = codedReader ∨ Gen.simpleReader = repairedReader := by
  decide

/-- the full statement holds of the current `from_dict` exactly when it does not go through `_read_control_line` -/
theorem generated_reader_full_iff : SimpleRoundtripFull Gen.simpleReader ↔ Gen.simpleReader.viaControlLine = false := by
  rcases generated_reader_known with h | h <;> rw [h]
  · exact ⟨fun hf => absurd hf simple_full_coded_counterexample, fun hv => by simp [codedReader] at hv⟩
  · exact ⟨fun _ => rfl, fun _ => simple_full_repaired⟩

/-- **`writer_words_resolved_in_own_registry`**: every type word `ControlAction.__str__` / `ValueCondition.__str__` write for a node kind
(JUNCTION, TANK, RESERVOIR) is resolved by `from_dict`'s helper in the NODE registry, every word of a link kind in the link
registry -- also when a node and a link share the name (tank '3' and pipe '3').  The word tables are read by `ast` from the helper
and by reflection from the writers on every run. -/
theorem writer_words_resolved_in_own_registry :
    Gen.elemReader.present = false ∨ (Gen.writerWords.all fun w => Gen.elemReader.resolvesNode w.1 == w.2) = true := by
  decide +kernel

/-- the model's `isNodeWord` is the helper's decision on every word the writers emit, and the writers emit the words of `Kind.word` -/
theorem reader_words_are_model :
    Gen.elemReader.present = false ∨
      ((Gen.writerWords.all fun w => isNodeWord w.1 == Gen.elemReader.resolvesNode w.1) = true ∧
       Gen.writerWords = [("JUNCTION", true), ("TANK", true), ("RESERVOIR", true), ("PIPE", false), ("PUMP", false), ("VALVE", false)]) := by
  decide +kernel

/-- a helper whose node tuple forgets TANK and falls back on the name (link first) resolves `TANK 3 …` on pipe '3' -/
example : ({ present := true, nodeWords := ["NODE", "JUNCTION", "RESERVOIR"], linkWords := ["LINK", "PIPE", "PUMP", "VALVE"],
             nameFallback := true, defaultIsLink := false } : ElemReader).resolvesNode "TANK" = false := by decide

/-- a faithful reader has to look at every informative token; the coded one does not look at the attribute words -/
theorem readsAll_iff_repaired : Gen.simpleReader.readsAll = !Gen.simpleReader.viaControlLine := by
  rcases generated_reader_known with h | h <;> rw [h] <;> decide

end Wntr.Schema.Ctl

/-! ### setters -/
namespace Wntr.Schema.Setters

variable {V : Type}

/-- **`generated_setters_idempotent`**: no property setter of base.py / elements.py and no `__setattr__` of an option group does
anything to its argument but transformations that fix their own image, and none computes the stored value from ANOTHER field
of the object (`readsOther`: the result would depend on the order in which `from_dict` / `__init__` assign) -- decided on the table
read by `ast` on every run; an offending setter is listed here by name -/
theorem generated_setters_idempotent : suspicious Gen.setterRows = [] := by decide +kernel

theorem abs_int_idem (z : Int) : (if (if z < 0 then -z else z) < 0 then -(if z < 0 then -z else z) else (if z < 0 then -z else z)) = (if z < 0 then -z else z) := by
  by_cases h : z < 0 <;> simp [h] <;> omega

theorem clip_idem (lo z : Int) : (if (if z < lo then lo else z) < lo then lo else (if z < lo then lo else z)) = (if z < lo then lo else z) := by
  by_cases h : z < lo <;> simp [h]

theorem abs_rat_idem (q : Rat) : (if (if q < 0 then -q else q) < 0 then -(if q < 0 then -q else q) else (if q < 0 then -q else q)) = (if q < 0 then -q else q) := by
  by_cases h : q < 0
  · have : ¬ (-q < 0) := by linarith
    simp [h, this]
  · simp [h]

/-- **`generated_constructors_store_parameters`**: every parameter of add_junction / add_tank / add_reservoir / add_pipe / add_pump /
add_valve / add_curve / add_pattern / add_source (model and registries, `ast` of model.py) is stored as given up to a normalisation of
ITSELF (float(p), bool(int(p)), an enum of its name, a default for None): none is replaced by a value derived from other parameters or
from the registry (`min_vol` recomputed from the volume curve at `min_level` would be listed here by name).  With the call-site table
of `from_dict` (`dict_tables_ok`: which key is passed as which parameter) this is "restored faithfully" down to the attribute. -/
theorem generated_constructors_store_parameters : suspicious Gen.ctorRows = [] := by decide +kernel

example : suspicious [{ cls := "NodeRegistry.add_tank", key := "min_vol", atoms := [.toFloat, .readsOther], validates := false }] =
    [("NodeRegistry.add_tank", "min_vol")] := by decide

/-- the executable transformations fix their image, whatever the value -/
theorem applyAtom_idem (lo : Int) (a : Atom) (v : JV) : applyAtom lo a (applyAtom lo a v) = applyAtom lo a v := by
  cases a <;> cases v <;> first
    | rfl
    | (simp only [applyAtom]; rw [abs_int_idem])
    | (simp only [applyAtom]; rw [clip_idem])
    | (simp only [applyAtom]; rw [abs_rat_idem])

/-- `max(lo, int(x))` as a chain: the image of the chain is fixed by the chain -/
theorem clip_int_idem (lo : Int) (v : JV) :
    applyAtom lo .clip (applyAtom lo .toInt (applyAtom lo .clip (applyAtom lo .toInt v))) = applyAtom lo .clip (applyAtom lo .toInt v) := by
  cases v <;> first | rfl | (simp only [applyAtom]; rw [clip_idem])

/-- **`setters_roundtrip`**: when `from_dict` assigns every restored key through a setter, and the object's values are what those
setters store (values built through the API: `o k = set k raw`, with `set k` idempotent), the dictionary is reproduced exactly:
`to_dict (from_dict (to_dict o)) = to_dict o`, with no normalisation left over -/
theorem setters_roundtrip (s : Schema V) (set : Key → V → V) (hplain : ∀ k, s.derive k = none)
    (hidem : ∀ k x, set k (set k x) = set k x) (raw : Key → V) (o : Key → V)
    (ho : ∀ k, s.restore k = true → o k = set k (raw k))
    (hrest : ∀ k ∈ s.emit, s.restore k = true ∨ o k = s.dflt k) :
    s.toDict (fromDictSet s set (s.toDict o)) = s.toDict o := by
  simp only [Schema.toDict]
  apply List.map_congr_left
  intro k hk
  simp only [Schema.emitVal, hplain, Prod.mk.injEq, true_and]
  by_cases hr : s.restore k = true
  · simp only [fromDictSet, hr, if_true]
    have := lookupD_toDict s o k (s.dflt k) hk
    simp only [Schema.toDict, Schema.emitVal, hplain] at this
    rw [this, ho k hr, hidem]
  · have hr' : s.restore k = false := by simpa using hr
    rcases hrest k hk with h | h
    · exact absurd h hr
    · simp [fromDictSet, hr', h]

/-- and a second cycle changes nothing either (what the harness checks on the implementation: to_dict∘from_dict is stable from the first cycle on) -/
theorem setters_second_cycle (s : Schema V) (set : Key → V → V) (hplain : ∀ k, s.derive k = none)
    (hidem : ∀ k x, set k (set k x) = set k x) (d : List (Key × V)) (hall : ∀ k ∈ s.emit, s.restore k = true) :
    s.toDict (fromDictSet s set (s.toDict (fromDictSet s set d))) = s.toDict (fromDictSet s set d) := by
  apply setters_roundtrip s set hplain hidem (fun k => lookupD d k (s.dflt k))
  · intro k hk; simp [fromDictSet, hk]
  · intro k hk; exact Or.inl (hall k hk)

/-- a setter that is NOT idempotent breaks the second cycle: `x ↦ x + 1` -/
theorem nonidempotent_setter_counterexample :
    let s : Schema Nat := { emit := ["a"], restore := fun _ => true, derive := fun _ => none, dflt := fun _ => 0 }
    s.toDict (fromDictSet s (fun _ x => x + 1) (s.toDict (fromDictSet s (fun _ x => x + 1) [("a", 5)]))) ≠
      s.toDict (fromDictSet s (fun _ x => x + 1) [("a", 5)]) := by
  decide

/-- the table condition is not vacuous: a row with arithmetic on the argument is listed -/
example : suspicious [{ cls := "Pipe", key := "length", atoms := [.toFloat, .other], validates := false }] = [("Pipe", "length")] := by decide
/-- `rule_timestep = min(value, self.hydraulic_timestep)`: clamped against a field that `__init__` assigns BEFORE it -/
example : suspicious [{ cls := "TimeOptions", key := "*", atoms := [.clip, .toInt, .readsOther], validates := true }] = [("TimeOptions", "*")] := by decide
example : (Gen.setterRows.any fun r => r.cls == "TimeOptions" && r.atoms.contains .clip) = true := by decide +kernel

end Wntr.Schema.Setters

/-! ### append into a non-empty model -/
namespace Wntr.Schema.App

variable {α γ π ε ω : Type}

theorem names_append (a b : Sec α) : names (a ++ b) = names a ++ names b := by simp [names]

/-- what `addAll` adds is a prefix of the new entries, behind everything that was there: nothing is overwritten -/
theorem addAll_prefix (m d : Sec α) : ∃ k, (addAll m d).1 = m ++ d.take k := by
  induction d generalizing m with
  | nil => exact ⟨0, by simp [addAll]⟩
  | cons e rest ih =>
    unfold addAll
    split
    · exact ⟨0, by simp⟩
    · obtain ⟨k, hk⟩ := ih (m ++ [e])
      exact ⟨k + 1, by simp [hk]⟩

theorem mem_names_snoc (m : Sec α) (e : String × α) (x : String) : x ∈ names (m ++ [e]) ↔ x ∈ names m ∨ x = e.1 := by
  simp [names]

theorem names_cons (e : String × α) (rest : Sec α) : names (e :: rest) = e.1 :: names rest := by simp [names]

/-- `addAll` succeeds exactly when the new names are pairwise different and none is taken -/
theorem addAll_ok_iff (m d : Sec α) :
    (addAll m d).2 = true ↔ (names d).Nodup ∧ ∀ x ∈ names d, x ∉ names m := by
  induction d generalizing m with
  | nil => simp [addAll, names]
  | cons e rest ih =>
    unfold addAll
    by_cases h : (names m).contains e.1 = true
    · rw [if_pos h]
      constructor
      · intro hf; cases hf
      · intro ⟨_, hall⟩
        have := hall e.1 (by simp [names])
        exact absurd (by simpa using h) this
    · have h' : e.1 ∉ names m := by simpa using h
      rw [if_neg h, ih (m ++ [e]), names_cons, List.nodup_cons]
      constructor
      · intro ⟨hnd, hall⟩
        refine ⟨⟨fun hmem => ?_, hnd⟩, ?_⟩
        · exact hall e.1 hmem ((mem_names_snoc m e e.1).mpr (Or.inr rfl))
        · intro x hx
          rcases List.mem_cons.mp hx with hx | hx
          · subst hx; exact h'
          · exact fun hm => hall x hx ((mem_names_snoc m e x).mpr (Or.inl hm))
      · intro ⟨⟨hne, hnd⟩, hall⟩
        refine ⟨hnd, fun x hx hm => ?_⟩
        rcases (mem_names_snoc m e x).mp hm with hm | hm
        · exact hall x (List.mem_cons_of_mem _ hx) hm
        · exact hne (hm ▸ hx)

theorem addAll_ok_eq (m d : Sec α) (h : (addAll m d).2 = true) : (addAll m d).1 = m ++ d := by
  induction d generalizing m with
  | nil => simp [addAll]
  | cons e rest ih =>
    unfold addAll at h ⊢
    by_cases hc : (names m).contains e.1 = true
    · rw [if_pos hc] at h; cases h
    · rw [if_neg hc] at h ⊢
      rw [ih (m ++ [e]) h]; simp

theorem addAll_disjoint (m d : Sec α) (hnd : (names d).Nodup) (hdis : ∀ x ∈ names d, x ∉ names m) :
    addAll m d = (m ++ d, true) := by
  have h := (addAll_ok_iff m d).mpr ⟨hnd, hdis⟩
  exact Prod.ext (addAll_ok_eq m d h) h

theorem setAll_disjoint (m d : Sec α) (hnd : (names d).Nodup) (hdis : ∀ x ∈ names d, x ∉ names m) :
    setAll m d = m ++ d := by
  induction d generalizing m with
  | nil => simp [setAll]
  | cons e rest ih =>
    have he : e.1 ∉ names m := hdis e.1 (by simp [names])
    have hc : ¬ ((names m).contains e.1 = true) := by simpa using he
    rw [names_cons, List.nodup_cons] at hnd
    unfold setAll
    rw [if_neg hc, ih (m ++ [e]) hnd.2]
    · simp
    · intro x hx hm
      rcases (mem_names_snoc m e x).mp hm with hm | hm
      · exact hdis x (by rw [names_cons]; exact List.mem_cons_of_mem _ hx) hm
      · exact hnd.1 (hm ▸ hx)

/-- the names of the dictionary are new in every name space -/
structure Fresh (m0 d : Model γ π ε ω) : Prop where
  curves : (names d.curves).Nodup ∧ ∀ x ∈ names d.curves, x ∉ names m0.curves
  patterns : (names d.patterns).Nodup ∧ ∀ x ∈ names d.patterns, x ∉ names m0.patterns
  nodes : (names d.nodes).Nodup ∧ ∀ x ∈ names d.nodes, x ∉ names m0.nodes
  links : (names d.links).Nodup ∧ ∀ x ∈ names d.links, x ∉ names m0.links
  sources : (names d.sources).Nodup ∧ ∀ x ∈ names d.sources, x ∉ names m0.sources
  controls : (names d.controls).Nodup ∧ ∀ x ∈ names d.controls, x ∉ names m0.controls

/-- **`append_disjoint_is_union`**: appending a dictionary whose names are new is accepted and gives, in every name
space, the existing elements followed by the re-created ones, in order; name / references / options are the dictionary's -/
theorem append_disjoint_is_union (m0 d : Model γ π ε ω) (h : Fresh m0 d) :
    append m0 d = ({ top := d.top, curves := m0.curves ++ d.curves, patterns := m0.patterns ++ d.patterns,
                     nodes := m0.nodes ++ d.nodes, links := m0.links ++ d.links, sources := m0.sources ++ d.sources,
                     controls := m0.controls ++ d.controls }, true) := by
  unfold append
  simp only [setAll_disjoint _ _ h.curves.1 h.curves.2, addAll_disjoint _ _ h.patterns.1 h.patterns.2,
    addAll_disjoint _ _ h.nodes.1 h.nodes.2, addAll_disjoint _ _ h.links.1 h.links.2,
    addAll_disjoint _ _ h.sources.1 h.sources.2, addAll_disjoint _ _ h.controls.1 h.controls.2,
    Bool.not_true, Bool.false_eq_true, if_false]

/-- **`append_ok_iff`**: the call is accepted exactly when, in each of the five refusing name spaces, the new names are
pairwise different and none is taken (curves never refuse) -/
theorem append_ok_iff (m0 d : Model γ π ε ω) :
    (append m0 d).2 = true ↔
      ((names d.patterns).Nodup ∧ ∀ x ∈ names d.patterns, x ∉ names m0.patterns) ∧
      ((names d.nodes).Nodup ∧ ∀ x ∈ names d.nodes, x ∉ names m0.nodes) ∧
      ((names d.links).Nodup ∧ ∀ x ∈ names d.links, x ∉ names m0.links) ∧
      ((names d.sources).Nodup ∧ ∀ x ∈ names d.sources, x ∉ names m0.sources) ∧
      ((names d.controls).Nodup ∧ ∀ x ∈ names d.controls, x ∉ names m0.controls) := by
  rw [← addAll_ok_iff, ← addAll_ok_iff, ← addAll_ok_iff, ← addAll_ok_iff, ← addAll_ok_iff]
  unfold append
  cases h1 : (addAll m0.patterns d.patterns).2 <;> simp [h1]
  cases h2 : (addAll m0.nodes d.nodes).2 <;> simp [h2]
  cases h3 : (addAll m0.links d.links).2 <;> simp [h3]
  cases h4 : (addAll m0.sources d.sources).2 <;> simp [h4]

/-- a name that is taken (here: a node) makes the call fail -/
theorem append_clash_refused (m0 d : Model γ π ε ω) (x : String) (hx : x ∈ names d.nodes) (hx0 : x ∈ names m0.nodes) :
    (append m0 d).2 = false := by
  cases h : (append m0 d).2
  · rfl
  · exact absurd hx0 (((append_ok_iff m0 d).mp h).2.1.2 x hx)

/-- **`append_never_overwrites`**: whatever the dictionary, accepted or refused, every refusing name space of the result
starts with what the model had -/
theorem append_never_overwrites (m0 d : Model γ π ε ω) :
    (∃ k, (append m0 d).1.patterns = m0.patterns ++ d.patterns.take k) ∧
    (∃ k, (append m0 d).1.nodes = m0.nodes ++ d.nodes.take k) ∧
    (∃ k, (append m0 d).1.links = m0.links ++ d.links.take k) ∧
    (∃ k, (append m0 d).1.sources = m0.sources ++ d.sources.take k) ∧
    (∃ k, (append m0 d).1.controls = m0.controls ++ d.controls.take k) := by
  obtain ⟨k1, h1⟩ := addAll_prefix m0.patterns d.patterns
  obtain ⟨k2, h2⟩ := addAll_prefix m0.nodes d.nodes
  obtain ⟨k3, h3⟩ := addAll_prefix m0.links d.links
  obtain ⟨k4, h4⟩ := addAll_prefix m0.sources d.sources
  obtain ⟨k5, h5⟩ := addAll_prefix m0.controls d.controls
  unfold append
  cases hb1 : (addAll m0.patterns d.patterns).2 <;> simp only [hb1, Bool.not_false, Bool.not_true, if_true, Bool.false_eq_true, if_false]
  · exact ⟨⟨k1, h1⟩, ⟨0, by simp⟩, ⟨0, by simp⟩, ⟨0, by simp⟩, ⟨0, by simp⟩⟩
  cases hb2 : (addAll m0.nodes d.nodes).2 <;> simp only [hb2, Bool.not_false, Bool.not_true, if_true, Bool.false_eq_true, if_false]
  · exact ⟨⟨k1, h1⟩, ⟨k2, h2⟩, ⟨0, by simp⟩, ⟨0, by simp⟩, ⟨0, by simp⟩⟩
  cases hb3 : (addAll m0.links d.links).2 <;> simp only [hb3, Bool.not_false, Bool.not_true, if_true, Bool.false_eq_true, if_false]
  · exact ⟨⟨k1, h1⟩, ⟨k2, h2⟩, ⟨k3, h3⟩, ⟨0, by simp⟩, ⟨0, by simp⟩⟩
  cases hb4 : (addAll m0.sources d.sources).2 <;> simp only [hb4, Bool.not_false, Bool.not_true, if_true, Bool.false_eq_true, if_false]
  · exact ⟨⟨k1, h1⟩, ⟨k2, h2⟩, ⟨k3, h3⟩, ⟨k4, h4⟩, ⟨0, by simp⟩⟩
  exact ⟨⟨k1, h1⟩, ⟨k2, h2⟩, ⟨k3, h3⟩, ⟨k4, h4⟩, ⟨k5, h5⟩⟩

/-- non-vacuity: a clash in the links leaves the nodes of the dictionary added and the call refused -/
example : (append (γ := Nat) (π := Nat) (ε := Nat) (ω := Nat)
      { top := 0, curves := [], patterns := [], nodes := [("J1", 0)], links := [("P1", 0)], sources := [], controls := [] }
      { top := 1, curves := [], patterns := [], nodes := [("J2", 1)], links := [("P2", 1), ("P1", 1)], sources := [], controls := [] }).2 = false ∧
    (append (γ := Nat) (π := Nat) (ε := Nat) (ω := Nat)
      { top := 0, curves := [], patterns := [], nodes := [("J1", 0)], links := [("P1", 0)], sources := [], controls := [] }
      { top := 1, curves := [], patterns := [], nodes := [("J2", 1)], links := [("P2", 1), ("P1", 1)], sources := [], controls := [] }).1.links = [("P1", 0), ("P2", 1)] := by
  constructor <;> decide

end Wntr.Schema.App
