/-
C14 — all views of the model stay mutually consistent under any edit history.

Model: `WntrModel/Model/Registry.lean` (M3), a line-by-line model of the registries of `WaterNetworkModel` (nodes, links,
patterns, curves, sources, controls), their usage maps and typed ordered sets, with every `add_*`, `remove_*` and
reassignment operation, for arbitrary (also invalid) arguments.  The model has two variants: `coded` (the tree before
fixes/C14-*.patch) and `repaired` (the tree with them).  The harness runs the driver against the implementation after every
operation of random histories, so the variant that is proved about is the one that is checked against the code.

`Inv s` (Model/Registry.lean) — all views agree:
  nodup               no name twice in a name list / typed set (so counts = number of elements)
  typed*Sound/Complete the typed sets (junctions … gpvs, curve types) hold exactly the existing elements of their class
  endsExist           every link's end nodes exist
  usageNode*          node usage records ⇔ existing links with an end at the node / existing sources at the node
  usagePat*           pattern usage records ⇔ existing junctions / reservoirs / pumps / sources that name the pattern
  usageCurve*         curve usage records ⇔ existing tanks / head pumps / GPVs that name the curve
`InvR s` = `Inv s` ∧ no usage record keyed by a Pattern object (the repaired code never writes one).

Theorems (for EVERY state, EVERY operation with EVERY argument, EVERY finite history — no bounds):
  inv_init, inv_step, inv_reachable, not_ok_unchanged / refused_leaves_unchanged, in-use removals are refused,
  invB_iff (the executable invariant the driver evaluates on observed states is `Inv`),
  views_of_inv (under `Inv` the derived views — typed iterators, get_links_for_node, to_graph — are the specification).
The statements are FALSE of the code as it was (`coded`): one `decide`d counterexample history per defect.
-/
import WntrModel.Lemmas.RegistryStepAll
import WntrModel.Lemmas.RegistryViews
import WntrModel.Lemmas.OrderedSetLemmas
import WntrModel.Gen.RegistryCalls

namespace Wntr.Registry
set_option linter.unusedVariables false
set_option linter.unusedSimpArgs false

/-! ### the executable invariant is the invariant -/

/-- **invB_iff**: the Boolean the driver prints for an observed state is `Inv` -/
theorem invB_iff (s : Reg) : invB s = true ↔ Inv s := by
  unfold invB clauseTable
  simp only [List.all_cons, List.all_nil, Bool.and_true, Bool.and_eq_true, decide_eq_true_eq]
  constructor
  · rintro ⟨a, b, c, d, e, f, g, h, i, j, k, l, m, n, o, p, q, r⟩
    exact ⟨a, b, c, d, e, f, g, h, i, j, k, l, m, n, o, p, q, r⟩
  · rintro ⟨a, b, c, d, e, f, g, h, i, j, k, l, m, n, o, p, q, r⟩
    exact ⟨a, b, c, d, e, f, g, h, i, j, k, l, m, n, o, p, q, r⟩

instance (s : Reg) : Decidable (Inv s) := decidable_of_iff _ (invB_iff s)

/-! ### the invariant holds initially and is preserved by every operation of the repaired code -/

/-- **inv_init**: a new `WaterNetworkModel()` satisfies the invariant -/
theorem inv_init : InvR init := ⟨(invB_iff init).1 (by decide), rfl, fun _ _ => List.nodup_nil⟩

/-- **inv_step**: every operation, with any arguments, whether it succeeds, is refused or raises, preserves the invariant -/
theorem inv_step (s : Reg) (op : Op) (h : InvR s) : InvR (step repaired s op).1 := by
  cases op with
  | addJunction n p o =>
    rcases addJunction_cases s n p o with e | ⟨hn, e⟩ <;> simp only [step, e]
    · exact h
    · exact addJunctionR_invR s n p hn h
  | addDemand n p o =>
    rcases addDemand_cases s n p o with e | ⟨i, hi, hk, e⟩ <;> simp only [step, e]
    · exact h
    · exact addDemandR_invR s n p i hi hk h
  | delDemand n idx =>
    rcases delDemand_cases s n idx with e | ⟨i, hi, hk, e⟩ <;> simp only [step, e]
    · exact h
    · exact delDemandR_invR s n idx i hi hk h
  | addFire n p =>
    rcases addFire_cases s n p with e | ⟨i, hi, hk, hp, e⟩ <;> simp only [step, e]
    · exact h
    · exact addFireR_invR s n p i hi hk hp h
  | removeFire n =>
    rcases removeFire_cases s n with e | e | ⟨i, p, hi, hk, e | ⟨hu, e⟩⟩ <;> simp only [step, e]
    · exact h
    · exact h
    · exact removeFireR_invR s n p i hi hk h
    · exact removePatternR_invR _ p hu (removeFireR_invR s n p i hi hk h)
  | addLeak n a b =>
    rcases addLeak_cases s n a b with e | ⟨c, e⟩ <;> simp only [step, e]
    · exact h
    · exact invR_congr s _ rfl rfl rfl rfl rfl rfl rfl h
  | removeLeak n =>
    rcases removeLeak_cases s n with e | e <;> simp only [step, e]
    · exact h
    · exact invR_congr s _ rfl rfl rfl rfl rfl rfl rfl h
  | renameSource a b =>
    rcases renameSource_cases s a b with e | e | ⟨si, hi, hn, hne, e⟩ <;> simp only [step, e]
    · exact h
    · exact h
    · exact renameSourceR_invR s a b si hi hn hne h
  | insertDemand n idx p =>
    rcases insertDemand_cases s n idx p with e | ⟨i, hi, hk, e⟩ <;> simp only [step, e]
    · exact h
    · exact insertDemandR_invR s n idx p i hi hk h
  | clearDemands n =>
    rcases clearDemands_cases s n with e | ⟨i, hi, hk, e⟩ <;> simp only [step, e]
    · exact h
    · exact clearDemandsR_invR s n i hi hk h
  | assignDemand n p =>
    rcases assignDemand_cases s n p with e | ⟨i, hi, hk, hp, e⟩ <;> simp only [step, e]
    · exact h
    · exact assignDemandR_invR s n p i hi hk hp h
  | setSourceNode n nd =>
    rcases setSourceNode_cases s n nd with e | ⟨si, hi, e⟩ <;> simp only [step, e]
    · exact h
    · exact setSourceNodeR_invR s n nd si hi h
  | addTank n c =>
    rcases addTank_cases s n c with e | ⟨hn, e⟩ <;> simp only [step, e]
    · exact h
    · exact addTankR_invR s n c hn h
  | addReservoir n p =>
    rcases addReservoir_cases s n p with e | ⟨hn, e⟩ <;> simp only [step, e]
    · exact h
    · exact addReservoirR_invR s n p hn h
  | addPipe n a b =>
    rcases addPipe_cases s n a b with e | ⟨hn, ha, hb, e⟩ <;> simp only [step, e]
    · exact h
    · exact addPipeR_invR s n a b hn ha hb h
  | addPump n a b sp p =>
    rcases addPump_cases s n a b sp p with e | ⟨hn, ha, hb, e⟩ <;> simp only [step, e]
    · exact h
    · exact addPumpR_invR s n a b sp p hn ha hb h
  | addValve n a b k c =>
    rcases addValve_cases s n a b k c with e | ⟨hk, hn, ha, hb, e⟩ <;> simp only [step, e]
    · exact h
    · exact addValveR_invR s n a b k c hk hn ha hb h
  | addPattern n =>
    rcases addPattern_cases s n with e | ⟨hn, e⟩ <;> simp only [step, e]
    · exact h
    · exact addPatternR_invR s n hn h
  | addCurve n t =>
    simp only [step, addCurve_eq]
    exact addCurveR_invR s n t h
  | addSource n nd p =>
    rcases addSource_cases s n nd p with e | ⟨hn, e⟩ <;> simp only [step, e]
    · exact h
    · exact addSourceR_invR s n nd p hn h
  | addControl n ns ls =>
    rcases addControl_cases s n ns ls with e | ⟨us, e⟩ <;> simp only [step, e]
    · exact h
    · exact invR_congr s _ rfl rfl rfl rfl rfl rfl rfl h
  | updateControl n ns ls =>
    rcases updateControl_cases s n ns ls with e | ⟨us, e⟩ <;> simp only [step, e]
    · exact h
    · exact invR_congr s _ rfl rfl rfl rfl rfl rfl rfl h
  | removeNode n wc f =>
    rcases removeNode_cases s n wc f with ⟨_, e⟩ | e | ⟨i, hi, hu, e⟩ <;> simp only [step, e]
    · exact h
    · exact h
    · split
      · exact invR_dropControls _ _ (delNodeR_invR s n i hi hu h)
      · exact delNodeR_invR s n i hi hu h
  | removeLink n wc f =>
    rcases removeLink_cases s n wc f with ⟨_, e⟩ | e | ⟨i, hi, e⟩ <;> simp only [step, e]
    · exact h
    · exact h
    · split
      · exact invR_dropControls _ _ (delLinkR_invR s n i hi h)
      · exact delLinkR_invR s n i hi h
  | removePattern n =>
    rcases removePattern_cases s n with e | ⟨hu, e⟩ <;> simp only [step, e]
    · exact h
    · exact removePatternR_invR s n hu h
  | removeCurve n =>
    rcases removeCurve_cases s n with e | ⟨hu, e⟩ <;> simp only [step, e]
    · exact h
    · exact removeCurveR_invR s n hu h
  | removeSource n =>
    rcases removeSource_cases s n with e | ⟨si, hi, e⟩ <;> simp only [step, e]
    · exact h
    · exact removeSourceR_invR s n si hi h
  | removeControl n =>
    rcases removeControl_cases s n with e | e <;> simp only [step, e]
    · exact h
    · exact invR_congr s _ rfl rfl rfl rfl rfl rfl rfl h
  | setStart l n =>
    rcases setEndNode_cases s l n true with e | ⟨i, hi, hx, e⟩ <;> simp only [step, e]
    · exact h
    · exact setEndNodeR_invR s l n true i hi hx h
  | setEnd l n =>
    rcases setEndNode_cases s l n false with e | ⟨i, hi, hx, e⟩ <;> simp only [step, e]
    · exact h
    · exact setEndNodeR_invR s l n false i hi hx h
  | setSpeedPattern l p =>
    rcases setSpeedPattern_cases s l p with e | ⟨i, hi, hp, e⟩ <;> simp only [step, e]
    · exact h
    · exact setSpeedPatternR_invR s l p i hi hp h
  | setPumpCurve l c =>
    rcases setPumpCurve_cases s l c with e | ⟨i, hi, hp, e⟩ <;> simp only [step, e]
    · exact h
    · exact setPumpCurveR_invR s l c i hi hp h
  | setHeadPattern n p =>
    rcases setHeadPattern_cases s n p with e | ⟨i, hi, hp, e⟩ <;> simp only [step, e]
    · exact h
    · exact setHeadPatternR_invR s n p i hi hp h
  | setVolCurve n c =>
    rcases setVolCurve_cases s n c with e | ⟨i, hi, hp, e⟩ <;> simp only [step, e]
    · exact h
    · exact setVolCurveR_invR s n c i hi hp h
  | setHeadlossCurve l c =>
    rcases setHeadlossCurve_cases s l c with e | ⟨i, hi, hp, e⟩ <;> simp only [step, e]
    · exact h
    · exact setHeadlossCurveR_invR s l c i hi hp h

/-- **inv_reachable**: after every finite history of operations, from any model that satisfies the invariant -/
theorem inv_reachable (s : Reg) (ops : List Op) (h : InvR s) : InvR (run repaired s ops) := by
  induction ops generalizing s with
  | nil => exact h
  | cons op ops ih => exact ih _ (inv_step s op h)

/-- all views agree after every finite history on a new model -/
theorem inv_history (ops : List Op) : Inv (run repaired init ops) := (inv_reachable init ops inv_init).1

/-! ### an operation that does not succeed changes nothing -/

/-- **not_ok_unchanged**: an operation that is refused or raises leaves the model exactly as it was -/
theorem not_ok_unchanged (s : Reg) (op : Op) (h : (step repaired s op).2 ≠ .ok) : (step repaired s op).1 = s := by
  cases op with
  | addJunction n p o => rcases addJunction_cases s n p o with e | ⟨_, e⟩ <;> simp_all [step]
  | addDemand n p o => rcases addDemand_cases s n p o with e | ⟨_, _, _, e⟩ <;> simp_all [step]
  | delDemand n idx => rcases delDemand_cases s n idx with e | ⟨_, _, _, e⟩ <;> simp_all [step]
  | addFire n p => rcases addFire_cases s n p with e | ⟨_, _, _, _, e⟩ <;> simp_all [step]
  | removeFire n => rcases removeFire_cases s n with e | e | ⟨_, _, _, _, e | ⟨_, e⟩⟩ <;> simp_all [step]
  | addLeak n a b => rcases addLeak_cases s n a b with e | ⟨_, e⟩ <;> simp_all [step]
  | removeLeak n => rcases removeLeak_cases s n with e | e <;> simp_all [step]
  | setSourceNode n nd => rcases setSourceNode_cases s n nd with e | ⟨_, _, e⟩ <;> simp_all [step]
  | assignDemand n p => rcases assignDemand_cases s n p with e | ⟨_, _, _, _, e⟩ <;> simp_all [step]
  | renameSource a b => rcases renameSource_cases s a b with e | e | ⟨_, _, _, _, e⟩ <;> simp_all [step]
  | clearDemands n => rcases clearDemands_cases s n with e | ⟨_, _, _, e⟩ <;> simp_all [step]
  | insertDemand n idx p => rcases insertDemand_cases s n idx p with e | ⟨_, _, _, e⟩ <;> simp_all [step]
  | addTank n c => rcases addTank_cases s n c with e | ⟨_, e⟩ <;> simp_all [step]
  | addReservoir n p => rcases addReservoir_cases s n p with e | ⟨_, e⟩ <;> simp_all [step]
  | addPipe n a b => rcases addPipe_cases s n a b with e | ⟨_, _, _, e⟩ <;> simp_all [step]
  | addPump n a b sp p => rcases addPump_cases s n a b sp p with e | ⟨_, _, _, e⟩ <;> simp_all [step]
  | addValve n a b k c => rcases addValve_cases s n a b k c with e | ⟨_, _, _, _, e⟩ <;> simp_all [step]
  | addPattern n => rcases addPattern_cases s n with e | ⟨_, e⟩ <;> simp_all [step]
  | addCurve n t => simp [step, addCurve_eq] at h
  | addSource n nd p => rcases addSource_cases s n nd p with e | ⟨_, e⟩ <;> simp_all [step]
  | addControl n ns ls => rcases addControl_cases s n ns ls with e | ⟨_, e⟩ <;> simp_all [step]
  | updateControl n ns ls => rcases updateControl_cases s n ns ls with e | ⟨_, e⟩ <;> simp_all [step]
  | removeNode n wc f => rcases removeNode_cases s n wc f with ⟨_, e⟩ | e | ⟨_, _, _, e⟩ <;> simp_all [step]
  | removeLink n wc f => rcases removeLink_cases s n wc f with ⟨_, e⟩ | e | ⟨_, _, e⟩ <;> simp_all [step]
  | removePattern n => rcases removePattern_cases s n with e | ⟨_, e⟩ <;> simp_all [step]
  | removeCurve n => rcases removeCurve_cases s n with e | ⟨_, e⟩ <;> simp_all [step]
  | removeSource n => rcases removeSource_cases s n with e | ⟨_, _, e⟩ <;> simp_all [step]
  | removeControl n => rcases removeControl_cases s n with e | e <;> simp_all [step]
  | setStart l n => rcases setEndNode_cases s l n true with e | ⟨_, _, _, e⟩ <;> simp_all [step]
  | setEnd l n => rcases setEndNode_cases s l n false with e | ⟨_, _, _, e⟩ <;> simp_all [step]
  | setSpeedPattern l p => rcases setSpeedPattern_cases s l p with e | ⟨_, _, _, e⟩ <;> simp_all [step]
  | setPumpCurve l c => rcases setPumpCurve_cases s l c with e | ⟨_, _, _, e⟩ <;> simp_all [step]
  | setHeadPattern n p => rcases setHeadPattern_cases s n p with e | ⟨_, _, _, e⟩ <;> simp_all [step]
  | setVolCurve n c => rcases setVolCurve_cases s n c with e | ⟨_, _, _, e⟩ <;> simp_all [step]
  | setHeadlossCurve l c => rcases setHeadlossCurve_cases s l c with e | ⟨_, _, _, e⟩ <;> simp_all [step]

/-- **refused_leaves_unchanged**: a refused removal leaves the model unchanged -/
theorem refused_leaves_unchanged (s : Reg) (op : Op) (h : (step repaired s op).2 = .refused) : (step repaired s op).1 = s :=
  not_ok_unchanged s op (by rw [h]; decide)

example : (step repaired (run repaired init [.addJunction 1 none false, .addJunction 2 none false, .addPipe 3 1 2]) (.removeNode 1 true false)).2
    = .refused := by decide

/-! ### removing an element that is still in use is refused -/

/-- a node that is an end of an existing link is in use: `remove_node` is refused (whatever `with_control` / `force`) or stopped
by a control, never performed -/
theorem remove_node_in_use_refused (s : Reg) (n k : Name) (i : LinkInfo) (wc f : Bool) (h : Inv s)
    (hk : AL.get? s.links k = some i) (hn : i.start = n ∨ i.end_ = n) :
    removeNode repaired s n wc f = (s, .refused) := by
  have hl := (Clause.usageNodeLinks_iff s).1 h.usageNodeLinks k i hk
  have he := (Clause.endsExist_iff s).1 h.endsExist k i hk
  rcases removeNode_cases s n wc f with ⟨hnone, e⟩ | e | ⟨j, hj, hu, e⟩
  · -- `error` is impossible: the node exists
    exfalso
    rcases hn with hn | hn <;> subst hn
    · obtain ⟨a, ha⟩ := he.1; rw [ha] at hnone; cases hnone
    · obtain ⟨a, ha⟩ := he.2; rw [ha] at hnone; cases hnone
  · exact e
  · exfalso
    rcases hn with hn | hn <;> subst hn
    · exact hu _ hl.1
    · exact hu _ hl.2

/-- a node that carries a source is in use -/
theorem remove_node_with_source_refused (s : Reg) (n k : Name) (si : SourceInfo) (wc f : Bool) (h : Inv s)
    (hk : AL.get? s.sources k = some si) (hn : si.node = n) (j : NodeInfo) (hj : AL.get? s.nodes n = some j) :
    removeNode repaired s n wc f = (s, .refused) := by
  have hl := (Clause.usageNodeSources_iff s).1 h.usageNodeSources k si hk
  rcases removeNode_cases s n wc f with ⟨hnone, e⟩ | e | ⟨j', hj', hu, e⟩
  · exfalso; rw [hj] at hnone; cases hnone
  · exact e
  · exfalso; subst hn; exact hu _ hl

/-- a pattern that an existing junction, reservoir, pump or source names is in use: `remove_pattern` is refused -/
theorem remove_pattern_in_use_refused (s : Reg) (p : Name) (h : Inv s)
    (hu : (∃ k i, AL.get? s.nodes k = some i ∧ i.kind = .reservoir ∧ i.pat = some p) ∨
          (∃ k i d, AL.get? s.nodes k = some i ∧ i.kind = .junction ∧ d ∈ i.demands ∧ d.1 = some p) ∨
          (∃ k i, AL.get? s.links k = some i ∧ isPump i.kind = true ∧ i.pat = some p) ∨
          (∃ k si, AL.get? s.sources k = some si ∧ si.pat = some p)) :
    removePattern s p = (s, .refused) := by
  rcases removePattern_cases s p with e | ⟨hn, e⟩
  · exact e
  · exfalso
    rcases hu with ⟨k, i, hk, h1, h2⟩ | ⟨k, i, d, hk, h1, hd, h2⟩ | ⟨k, i, hk, h1, h2⟩ | ⟨k, si, hk, h2⟩
    · exact hn _ (((Clause.usagePatNodes_iff s).1 h.usagePatNodes k i hk).1 h1 p h2)
    · exact hn _ (((Clause.usagePatNodes_iff s).1 h.usagePatNodes k i hk).2 h1 d hd p h2)
    · exact hn _ ((Clause.usagePatLinks_iff s).1 h.usagePatLinks k i hk h1 p h2)
    · exact hn _ ((Clause.usagePatSources_iff s).1 h.usagePatSources k si hk p h2)

/-- a curve that an existing tank, head pump or GPV names is in use: `remove_curve` is refused -/
theorem remove_curve_in_use_refused (s : Reg) (c : Name) (h : Inv s)
    (hu : (∃ k i, AL.get? s.nodes k = some i ∧ i.kind = .tank ∧ i.curve = some c) ∨
          (∃ k i, AL.get? s.links k = some i ∧ (i.kind = .headPump ∨ i.kind = .gpv) ∧ i.curve = some c)) :
    removeCurve repaired s c = (s, .refused) := by
  rcases removeCurve_cases s c with e | ⟨hn, e⟩
  · exact e
  · exfalso
    rcases hu with ⟨k, i, hk, h1, h2⟩ | ⟨k, i, hk, h1 | h1, h2⟩
    · exact hn _ ((Clause.usageCurveNodes_iff s).1 h.usageCurveNodes k i hk h1 c h2)
    · exact hn _ (((Clause.usageCurveLinks_iff s).1 h.usageCurveLinks k i hk).1 h1 c h2)
    · exact hn _ (((Clause.usageCurveLinks_iff s).1 h.usageCurveLinks k i hk).2 h1 c h2)

/-! ### controls: an element that a control requires is in use; `with_control` removes exactly the controls that require it -/

theorem delLinkR_controls (s : Reg) (key : Name) (i : LinkInfo) : (delLinkR s key i).controls = s.controls := by
  unfold delLinkR; simp only [typedDiscardAll_controls, removeUsageO_controls, removeUsageT_controls]

theorem delNodeR_controls (s : Reg) (key : Name) (i : NodeInfo) : (delNodeR s key i).controls = s.controls := by
  unfold delNodeR; simp only [typedDiscardAll_controls, removeUsageO_controls, removeUserAllO_controls, popUsageKey_controls]

/-- a link that some control requires is not removed by a plain `remove_link` -/
theorem remove_link_required_refused (s : Reg) (n : Name) (i : LinkInfo) (hi : AL.get? s.links n = some i)
    (hr : requiredBy s i.uid = true) : removeLink repaired s n false false = (s, .refused) := by
  unfold removeLink; simp [hi, hr]

theorem remove_node_required_refused (s : Reg) (n : Name) (i : NodeInfo) (hi : AL.get? s.nodes n = some i)
    (hr : requiredBy s i.uid = true) : removeNode repaired s n false false = (s, .refused) := by
  unfold removeNode; simp [hi, hr]

/-- `remove_link(name, with_control=True)` removes exactly the controls that require the link, no other -/
theorem remove_link_with_control_exact (s : Reg) (n : Name) (i : LinkInfo) (hi : AL.get? s.links n = some i) :
    (removeLink repaired s n true false).2 = .ok ∧
    (removeLink repaired s n true false).1.controls = s.controls.filter (fun c => !(c.2.contains i.uid)) := by
  rcases removeLink_cases s n true false with ⟨hn, _⟩ | e | ⟨j, hj, e⟩
  · rw [hi] at hn; cases hn
  · exfalso; unfold removeLink at e; simp [hi] at e
  · rw [hi] at hj; cases hj
    rw [e]; simp [dropControls, delLinkR_controls]

/-- a plain successful `remove_link` leaves the control list alone -/
theorem remove_link_keeps_controls (s : Reg) (n : Name) (f : Bool) (h : (removeLink repaired s n false f).2 = .ok) :
    (removeLink repaired s n false f).1.controls = s.controls := by
  rcases removeLink_cases s n false f with ⟨_, e⟩ | e | ⟨j, hj, e⟩
  · rw [e] at h; cases h
  · rw [e] at h; cases h
  · rw [e]; simp [delLinkR_controls]

theorem remove_node_with_control_exact (s : Reg) (n : Name) (wc f : Bool) (h : (removeNode repaired s n wc f).2 = .ok) :
    ∃ i, AL.get? s.nodes n = some i ∧
      (removeNode repaired s n wc f).1.controls =
        if (!f && wc) = true then s.controls.filter (fun c => !(c.2.contains i.uid)) else s.controls := by
  rcases removeNode_cases s n wc f with ⟨_, e⟩ | e | ⟨j, hj, _, e⟩
  · rw [e] at h; cases h
  · rw [e] at h; cases h
  · refine ⟨j, hj, ?_⟩
    rw [e]; split <;> simp [dropControls, delNodeR_controls]

/-! ### the full statement, and the code as it was

`AllHistoriesConsistent v`: after ANY finite history on a new model all views agree.  `RefusedUnchanged v`: a refused operation
leaves the model as it was (stated on the control list, the only thing a refusal ever changed).  Both hold of `repaired`
(theorems above) and are false of `coded`: one minimal history per defect, each replayed on the implementation by the check. -/

def AllHistoriesConsistent (v : Variant) : Prop := ∀ ops : List Op, Inv (run v init ops)

def RefusedUnchanged (v : Variant) : Prop :=
  ∀ (ops : List Op) (op : Op), (step v (run v init ops) op).2 = .refused →
    (step v (run v init ops) op).1.controls = (run v init ops).controls

/-- **all_histories_consistent**: the full statement holds of the repaired code -/
theorem all_histories_consistent : AllHistoriesConsistent repaired := inv_history

theorem refused_unchanged_repaired : RefusedUnchanged repaired := fun ops op h => by
  rw [refused_leaves_unchanged _ op h]

/-- remove a pump that has a speed pattern: `remove_usage` on the curve registry raises, the typed sets keep the pump
(fixes/C14-delitem-releases-usage) -/
theorem coded_cex_remove_pump_speed_pattern :
    ¬ Inv (run coded init [.addJunction 1 none false, .addJunction 2 none false, .addPump 3 1 2 .power (some 9), .removeLink 3 false false]) := by
  decide

/-- remove a junction with a demand pattern / a reservoir with a head pattern: the pattern stays in use by a node that is gone -/
theorem coded_cex_remove_junction_pattern : ¬ Inv (run coded init [.addJunction 1 (some 9) false, .removeNode 1 false false]) := by
  decide
theorem coded_cex_remove_reservoir_pattern : ¬ Inv (run coded init [.addReservoir 1 (some 9), .removeNode 1 false false]) := by
  decide

/-- remove a link whose two ends are the same node: the second `remove_usage` raises, typed sets keep the link -/
theorem coded_cex_remove_selfloop :
    ¬ Inv (run coded init [.addReservoir 1 none, .addPump 2 1 1 .power none, .removeLink 2 false false]) := by
  decide

/-- reassign one end of a self-loop: the node loses its usage record although it is still the other end
(fixes/C14-end-node-setter-shared-node); the node can then be removed from under the link -/
theorem coded_cex_set_end_selfloop :
    ¬ Inv (run coded init [.addJunction 1 none false, .addTank 2 none, .addValve 3 1 1 .pbv none, .setEnd 3 2]) := by
  decide
theorem coded_cex_set_end_selfloop_dangling :
    ¬ Clause.endsExist (run coded init [.addJunction 1 none false, .addTank 2 none, .addValve 3 1 1 .pbv none, .setEnd 3 2,
      .removeNode 1 false false]) := by
  decide

/-- a failed `add_pipe` (unknown end node) leaves a usage record for a pipe that does not exist
(fixes/C14-link-init-resolves-nodes-first) -/
theorem coded_cex_add_pipe_unknown_end : ¬ Inv (run coded init [.addTank 1 none, .addPipe 2 1 9]) := by
  decide

/-- a removed curve stays in its typed set; a pump curve name that is no curve enters the typed set
(fixes/C14-curve-typed-sets-registered-only) -/
theorem coded_cex_remove_typed_curve : ¬ Inv (run coded init [.addCurve 1 (some .volume), .removeCurve 1]) := by
  decide
theorem coded_cex_pump_unknown_curve :
    ¬ Inv (run coded init [.addReservoir 1 none, .addTank 2 none, .addPump 3 1 2 (.head 9) none]) := by
  decide

/-- a second element under an existing name silently replaces the first (fixes/C14-reject-duplicate-names) -/
theorem coded_cex_duplicate_node : ¬ Inv (run coded init [.addJunction 1 none false, .addReservoir 1 none]) := by
  decide
theorem coded_cex_duplicate_link :
    ¬ Inv (run coded init [.addJunction 1 none false, .addJunction 2 none false, .addPump 3 1 2 .power none, .addPipe 3 1 2]) := by
  decide

/-- a source with a pattern leaves a usage record keyed by the Pattern object behind when it is removed
(fixes/C14-source-pattern-usage-by-name) -/
theorem coded_cex_remove_source_pattern :
    ¬ Inv (run coded init [.addPattern 9, .addJunction 1 none false, .addSource 2 1 (some 9), .removeSource 2]) := by
  decide

/-- **the full statement is false of the code as it was** -/
theorem coded_not_consistent : ¬ AllHistoriesConsistent coded := fun h => coded_cex_remove_pump_speed_pattern (h _)

/-- `remove_node(with_control=True)` of a node that is still in use is refused — after its controls were removed
(fixes/C14-remove-controls-after-element) -/
theorem coded_cex_refused_changed : ¬ RefusedUnchanged coded := fun h => by
  have := h [.addJunction 1 none false, .addJunction 2 none false, .addPipe 3 1 2, .addControl 4 [1] []] (.removeNode 1 true false) (by decide)
  revert this
  decide

/-! the same histories on the repaired code (instances of `inv_history`, evaluated) -/
example : Inv (run repaired init [.addJunction 1 none false, .addJunction 2 none false, .addPump 3 1 2 .power (some 9), .removeLink 3 false false]) := by
  decide
example : (step repaired (run repaired init [.addTank 1 none]) (.addPipe 2 1 9)).2 = .error := by decide
example : (step repaired (run repaired init [.addJunction 1 none false]) (.addReservoir 1 none)).2 = .error := by decide

/-! ### the derived views -/

/-- **views_consistent**: in every state that satisfies the invariant the derived views (typed iterators, `get_links_for_node`
for ALL / INLET / OUTLET, the nodes and edges of `to_graph`) are exactly what the primary stores say; no iterator raises -/
theorem views_consistent (s : Reg) (h : InvR s) : viewsOk s (views s) = true := views_of_inv s h.1 h.2.2

/-- after every finite history on a new model -/
theorem views_history (ops : List Op) : viewsOk (run repaired init ops) (views (run repaired init ops)) = true :=
  views_consistent _ (inv_reachable init ops inv_init)

/-- the code as it was: after removing a pump with a speed pattern `wn.pumps()` raises -/
theorem coded_cex_views :
    viewsOk (run coded init [.addJunction 1 none false, .addJunction 2 none false, .addPump 3 1 2 .power (some 9), .removeLink 3 false false])
      (views (run coded init [.addJunction 1 none false, .addJunction 2 none false, .addPump 3 1 2 .power (some 9), .removeLink 3 false false]))
      = false := by
  decide

example : (views (run repaired init [.addJunction 1 none false, .addTank 2 none, .addPipe 3 1 2])).linksFor =
    [(1, some [3], some [], some [3]), (2, some [3], some [3], some [])] := by decide

/-! ### counts -/

/-- **counts_consistent**: in every state that satisfies the invariant the per-class counts (`num_junctions` ... `num_gpvs`,
`describe(level)`: the lengths of the typed sets) are the numbers of existing elements of the class, and the node classes
partition the nodes (`num_nodes = num_junctions + num_tanks + num_reservoirs`) -/
theorem counts_consistent (s : Reg) (h : InvR s) :
    (∀ t, t ∈ nodeSets ∨ t ∈ allLinkSets → (s.typed t).length = (namesOfSet s t).length) ∧
    s.nodes.length = (s.typed .junctions).length + (s.typed .tanks).length + (s.typed .reservoirs).length :=
  ⟨fun t ht => typed_count s h.1 t ht, node_count s h.1⟩

/-! ### round 2: several demands per junction, Pattern objects, fire-flow demands (variant `round1` = the tree before
fixes/C14-remove-node-releases-every-demand-pattern, C14-add-demand-usage-by-name, C14-remove-fire-demand-keeps-shared-pattern) -/

/-- a demand entry is deleted from the list, then the junction is removed: its pattern stays in use by a node that is gone -/
theorem round1_cex_deleted_demand_entry :
    ¬ Inv (run round1 init [.addJunction 3 (some 1) false, .addDemand 3 (some 2) false, .delDemand 3 1, .removeNode 3 false false]) := by
  decide

/-- a Pattern OBJECT as demand pattern is registered under the object: the pattern is not protected -/
theorem round1_cex_pattern_object : ¬ Inv (run round1 init [.addPattern 1, .addJunction 3 (some 1) true]) := by
  decide

/-- removing the fire-flow demand releases (and removes) a pattern that another entry of the junction still names -/
theorem round1_cex_fire_shared_pattern :
    ¬ Inv (run round1 init [.addJunction 1 none false, .addFire 1 7, .addDemand 1 (some 7) false, .removeFire 1]) := by
  decide

example : Inv (run repaired init [.addJunction 3 (some 1) false, .addDemand 3 (some 2) false, .delDemand 3 1, .removeNode 3 false false]) := by
  decide
example : (run repaired init [.addJunction 1 none false, .addFire 1 7, .addDemand 1 (some 7) false, .removeFire 1]).patterns = [7] := by
  decide
example : (step repaired (run repaired init [.addJunction 1 none false, .addLeak 1 true true]) (.removeNode 1 false false)).2 = .refused := by
  decide

/-! ### round 4 -/

/-- the tree before fixes/C14-add-leak-checks-control-names-first: `add_leak(start, end)` raises after the start control was added -/
theorem round3_cex_add_leak_partial :
    (step round3 (run round3 init [.addJunction 1 none false, .addLeak 1 false true]) (.addLeak 1 true true)).2 = .error ∧
    (step round3 (run round3 init [.addJunction 1 none false, .addLeak 1 false true]) (.addLeak 1 true true)).1.controls ≠
      (run round3 init [.addJunction 1 none false, .addLeak 1 false true]).controls := by
  decide

/-- the tree before fixes/C14-source-node-name-setter-moves-usage: the injection node can be removed from under the source -/
theorem round3_cex_source_node_setter :
    ¬ Inv (run round3 init [.addJunction 1 none false, .addJunction 2 none false, .addSource 3 1 none, .setSourceNode 3 2]) := by
  decide

/-- KNOWN FINDING (no small repair: a TimeSeries does not know its owner): re-pointing a demand entry / a source strength
through `TimeSeries.pattern_name = ...` moves no usage record, so the invariant does not survive these two raw operations -/
theorem raw_set_demand_pattern_breaks_inv :
    InvR (run repaired init [.addPattern 9, .addJunction 1 none false]) ∧
    ¬ Inv (setDemandPatternRaw (run repaired init [.addPattern 9, .addJunction 1 none false]) 1 0 (some 9)).1 := by
  refine ⟨inv_reachable _ _ inv_init, ?_⟩
  decide

theorem raw_set_source_pattern_breaks_inv :
    ¬ Inv (run repaired (setSourcePatternRaw (run repaired init [.addPattern 9, .addJunction 1 none false, .addSource 2 1 (some 9)]) 2 none).1
      [.removeSource 2]) := by
  decide

/-- the tree before fixes/C14-assign-demand-registers-pattern-usage: the pattern `assign_demand` creates is not protected -/
theorem round4_cex_assign_demand : ¬ Inv (run round4 init [.addJunction 1 none false, .assignDemand 1 7]) := by
  decide

/-- KNOWN FINDING (same root cause as `raw_set_demand_pattern_breaks_inv`: the demand list is a plain sequence):
`junction.demand_timeseries_list.insert(i, (base, 'p'))` registers nothing -/
theorem raw_insert_demand_breaks_inv :
    ¬ Inv (insertDemandRaw (run repaired init [.addPattern 9, .addJunction 1 none false]) 1 0 (some 9)).1 := by
  decide

/-- ... which is what `insert` / `append` / `__setitem__` did before fixes/C14-demands-keep-pattern-usage-in-step (variant `round6`) -/
theorem round6_cex_insert_demand : ¬ Inv (run round6 init [.addPattern 9, .addJunction 1 none false, .insertDemand 1 0 (some 9)]) := by
  decide

/-! ### what the OrderedSet / OrderedDict theorems discharge

The registry model represents every `OrderedSet` (typed sets, usage records) by a list and every `OrderedDict` by an association
list.  `Lemmas/OrderedSetLemmas.lean` proves, for the class `wntr.utils.ordered_set.OrderedSet` transliterated method by method
(Model/OrderedSetModel.lean, tied to the real class by a differential run):
  * `OSet.add_eq_model`, `OSet.discard_eq_model`: the registry model's `OSet.add` / `OSet.discard` ARE `OrderedSet.add` / `discard`;
  * `orderedset_wf`: no sequence of add / discard / update / union / - / | / clear from `OrderedSet()` yields a duplicate — this is
    the hypothesis `UsageNodup` of `InvR` and the typed-set part of `Clause.nodup` for every state the code can build (the theorems
    above prove their preservation inside the registry model; `orderedset_wf` says the representation cannot break them);
  * `add_order`, `discard_sublist`, `discard_absent`, `ofList_self`: insertion order is kept, a copy has the same order, discarding
    an absent element is a no-op (what `Registry.remove_usage` / `__delitem__` rely on);
  * `update_eq_foldl`, `mem_update`, `mem_union`, `mem_sub`, `mem_or`, `eq_iff`: `update` is a fold of `add`; union / difference /
    `|` by membership (what `Rule.requires()` and `AndCondition.requires()` compute); `==` ignores order.
The OrderedDict operations (`d[k] = v`, `pop(k, None)`, `in`, iteration) are `AL.set / del / has / keys`; the same differential run
compares them with `collections.OrderedDict`; their laws are `AL.get?_set`, `AL.get?_del`, `AL.nodup_keys_set`, `AL.nodup_keys_del`. -/

theorem orderedset_no_duplicates {α : Type} [DecidableEq α] (s : OrderedSetModel.OSetM α) (h : OrderedSetModel.Reach s) :
    s.data.Nodup := OrderedSetModel.orderedset_wf s h

theorem registry_oset_is_orderedset (l : List User) (u : User) :
    OSet.add l u = (OrderedSetModel.add ⟨l⟩ u).data ∧ OSet.discard l u = (OrderedSetModel.discard ⟨l⟩ u).data :=
  ⟨OSet.add_eq_model l u, OSet.discard_eq_model l u⟩

/-! ### the model's bookkeeping calls are the code's (translator tie)

`Gen/RegistryCalls.lean` is regenerated on every run from wntr/network/{base,model,elements}.py (python `ast`): every call of
`add_usage` / `remove_usage` / `set_curve_type` with its site, the registry it goes to (`_node_reg` / `_pattern_reg` / `_curve_reg`),
its key and user expressions; the typed sets each element class is added to and each registry discards from; the typed set of each
curve type.  The model's operations read the registry of every usage call off `siteReg` and the typed sets off `nodeSet` / `linkSets`
/ `nodeSets` / `allLinkSets` / `curveSets` / `curveSet`; `expectedUsageCalls` ... are those same tables in the translator's format.
So releasing a pattern through the CURVE registry (the first C14 defect), a dropped or an added bookkeeping call, a changed key
expression or a typed set that is no longer discarded breaks one of these four theorems, not only the differential run. -/

theorem usage_calls_as_modelled : Gen.RegistryCalls.usageCalls = expectedUsageCalls := by decide
theorem typed_adds_as_modelled : Gen.RegistryCalls.typedAdds = expectedTypedAdds := by decide
theorem typed_discards_as_modelled : Gen.RegistryCalls.typedDiscards = expectedTypedDiscards := by decide
theorem curve_type_sets_as_modelled : Gen.RegistryCalls.curveTypeSets = expectedCurveTypeSets := by decide

end Wntr.Registry
