import WntrModel.Model.Registry
namespace Wntr.Registry
end Wntr.Registry
