/-
C15 — the compiled AML evaluator returns true residuals and Jacobian.

Layers (models in `Model/Expr.lean`, `Model/Rpn.lean`, `Model/AmlModel.lean`; lemmas in `Lemmas/Aml*.lean`):

1. `rpn_correct`, `getRpn_correct`, `getRpn_total`   the RPN emitted by (repaired) `get_rpn`, run by the C++ `_evaluate`
   stack machine, is direct evaluation — for every tree and for every Python operator LIST (repeated operators allowed);
   `getRpn_asCoded_counterexample` keeps the pre-repair aliasing defect visible.
2. `constant_folding_sound`                           the operator overloads' shortcuts preserve values; the one shortcut that
   does not (`0 ** x → 0` at `x = 0`) is `ConstantFoldingFull` / `constant_folding_full_counterexample` /
   `constant_folding_sound` (the `_partial` is the `PowOk` hypothesis).
3. `reverseSd_is_derivative`                          `reverse_sd` (repaired: each operator once) = formal derivative `D`.
4. `D_hasDerivAt_*`                                   `D` is the analytic derivative on the polynomial / rational fragment.
5. `registration_refcount_inv`, `set_structure_*`     reference counts, C-object liveness, numbering, CSR rows.

Values live in an arbitrary field `α` with an abstract `Ops α` record (`LawfulOps`); IEEE arithmetic is modelled, not verified.
-/
import WntrModel.Model.Rpn
import WntrModel.Model.AmlModel
import WntrModel.Lemmas.AmlRpn
import WntrModel.Lemmas.AmlFold
import WntrModel.Lemmas.AmlDeriv
import WntrModel.Lemmas.AmlRat
import WntrModel.Lemmas.AmlInv
import WntrModel.Lemmas.AmlStruct
import WntrModel.Lemmas.AmlReal
import WntrModel.Lemmas.AmlCsr
import WntrModel.Lemmas.AmlCsrIf
import WntrModel.Lemmas.AmlRealFull
import WntrModel.Model.EvalShape
import WntrModel.Gen.EvaluatorShape
import WntrModel.Gen.OverloadShape
import WntrModel.Lemmas.AmlNan
import WntrModel.Lemmas.AmlBuild
import Mathlib.Analysis.Normed.Field.Lemmas

namespace Wntr.Aml

/-! ## 1. RPN -/

/-- **rpn_correct (trees).** For every expression tree (all 18 operators, `if_else`, closed `inequality` with one- or
two-sided bounds), every leaf numbering and every assignment of values: the C++ stack machine run on the RPN of the
tree returns exactly `eval`. -/
theorem rpn_correct {α : Type} (O : Ops α) (I : InfVals α) (hI : InfLaws O I) (env : Env α) (vals : Nat → α)
    (ndx : TLeaf → Nat) (hv : ∀ l, vals (ndx l) = leafVal O I env l) (e : Expr) :
    evalRpn O vals (toRpn ndx e) = some (eval O env e) := by
  unfold evalRpn
  rw [run_toRpn O I hI env vals ndx hv e []]
  rfl

/-- a `ConditionalExpression` (list of (condition, expression) pairs closed by `Float(1)`) is the nested `if_else` tree;
its RPN is therefore covered by `rpn_correct` -/
theorem rpn_correct_conditional {α : Type} (O : Ops α) (I : InfVals α) (hI : InfLaws O I) (env : Env α) (vals : Nat → α)
    (ndx : TLeaf → Nat) (hv : ∀ l, vals (ndx l) = leafVal O I env l) (bs : List (Expr × Expr)) :
    evalRpn O vals (toRpn ndx (condExpr bs)) = some (eval O env (condExpr bs)) :=
  rpn_correct O I hI env vals ndx hv _

/-- **rpn_correct (Python operator lists, repeats allowed).** Whenever the repaired `get_rpn` returns a list for an
operator list (in which an operator object that is used twice occurs twice), the list denotes a tree `e`,
`expression.evaluate()` returns `eval e`, and the C++ machine run on the RPN returns `eval e` too. -/
theorem getRpn_correct {α : Type} (O : Ops α) (I : InfVals α) (hI : InfLaws O I) (env : Env α) (vals : Nat → α)
    (ndx : PLeaf → Nat) (hv : ∀ l, vals (ndx l) = pleafVal O I env l) (ops : OpList) (hok : ops.ok)
    (r : List Int) (hr : getRpn ndx ops = some r) :
    ∃ e, denote ops = some e ∧ pyEvaluate O env ops = some (eval O env e) ∧ evalRpn O vals r = some (eval O env e) :=
  getRpn_pushes O I hI env vals ndx hv ops hok r hr

/-- **building never fails (expression layer).** On a non-empty well-formed operator list (every operator operand was
appended before its user — what the overloads guarantee) `get_rpn`, `evaluate` and the tree pass all return: no `KeyError`. -/
theorem getRpn_total (ndx : PLeaf → Nat) (ops : OpList) (hne : ops ≠ []) (hwf : wellFormed ops = true) :
    (∃ r, getRpn ndx ops = some r) ∧ (∃ e, denote ops = some e) :=
  ⟨runAlg_isSome _ ops hne hwf, runAlg_isSome _ ops hne hwf⟩

/-- the operator list of `e * (e + 1)` with `e = x + y` (the operator `e` occurs twice) -/
def exRepeat : OpList :=
  [⟨0, .bin .add (.leaf (.var 0)) (.leaf (.var 1))⟩,
   ⟨0, .bin .add (.leaf (.var 0)) (.leaf (.var 1))⟩,
   ⟨1, .bin .add (.op 0) (.leaf (.flt 7 (.fin 1)))⟩,
   ⟨2, .bin .mul (.op 0) (.op 1)⟩]

def exNdx : PLeaf → Nat
  | .var i => i
  | .param i => 2 + i
  | .flt _ _ => 5

/-- non-vacuity of `getRpn_correct` / `getRpn_total`: the repaired `get_rpn` on a list with a repeated operator -/
example : getRpn exNdx exRepeat = some [0, 1, -1, 0, 1, -1, 5, -1, -3] := by decide
example : wellFormed exRepeat = true := by decide
example : denote exRepeat =
    some (.bin .mul (.bin .add (.var 0) (.var 1)) (.bin .add (.bin .add (.var 0) (.var 1)) (.const 1))) := by decide

/-- `get_rpn` AS CODED BEFORE the repair (lists aliased and mutated in place) returned a different, wrong program on
the same input: the defect fixed by /repo commit b0a88981 stays visible in the model. -/
theorem getRpn_asCoded_counterexample : getRpnAliased exNdx exRepeat ≠ getRpn exNdx exRepeat := by decide

/-! ## 2. constant folding -/

section Fold
variable {α : Type} [Field α] {O : Ops α}

/-- the side condition of the shortcut `0 ** x → 0` (`__rpow__`): it is taken for a native base `0` and an aml exponent,
and is right only where `pow 0 x = 0` -/
def PowOk (O : Ops α) (env : Env α) (a b : SVal) : Prop :=
  ∀ e, a = .num 0 → b = .ex e → O.pow 0 (eval O env e) = 0

/-- a native `if_else` condition is a truth value -/
def CondOk (c : SVal) : Prop := ∀ x, c = .num x → x = 0 ∨ x = 1

/-- the full statement: every overload preserves the value, unconditionally -/
def ConstantFoldingFull (O : Ops α) (env : Env α) : Prop :=
  ∀ a b : SVal, evalS O env (sPow a b) = O.pow (evalS O env a) (evalS O env b)

/-- **false of the code**: `0 ** Float(0)` (and `0 ** e` wherever `e` evaluates to 0) is folded to the number 0, the
power is 1. Recorded domain caveat of DESIGN §5 C15 (`0 ** x` is only meant for `x > 0`). -/
theorem constant_folding_full_counterexample (L : LawfulOps O) (env : Env α) : ¬ ConstantFoldingFull O env := by
  intro h
  have := h (.num 0) (.ex (.const 0))
  simp only [sPow, if_true, evalS_num, evalS_ex, eval_const, L.ofRat_zero, L.pow_zero] at this
  exact zero_ne_one this

/-- **constant_folding_sound.** Every operator overload of `ExpressionBase` / `Float` / the module functions
(`x+0`, `0+x`, `x-0`, `0-x`, `x*0`, `x*1`, `x/1`, `0/x`, `x**0`, `x**1`, `1**x`, Float∘Float folding, reflected operators,
`abs/sign/neg` of constants, `inequality` and `if_else` on native numbers) returns a Python value (number or expression)
whose value is the operation applied to the operands' values; `**` under `PowOk`, `if_else` under `CondOk`; division
only where the overload does not raise (`sDiv = some`). -/
theorem constant_folding_sound (L : LawfulOps O) (env : Env α) :
    (∀ a b, evalS O env (sAdd a b) = evalS O env a + evalS O env b) ∧
    (∀ a b, evalS O env (sSub a b) = evalS O env a - evalS O env b) ∧
    (∀ a b, evalS O env (sMul a b) = evalS O env a * evalS O env b) ∧
    (∀ a b r, sDiv a b = some r → evalS O env r = evalS O env a / evalS O env b) ∧
    (∀ a b, PowOk O env a b → evalS O env (sPow a b) = O.pow (evalS O env a) (evalS O env b)) ∧
    (∀ a, evalS O env (sNeg a) = -evalS O env a) ∧
    (∀ op a, evalS O env (sUn op a) = O.un op (evalS O env a)) ∧
    (∀ b lb ub, evalS O env (sIneq b lb ub) = eval O env (.ineq b.toExpr lb ub)) ∧
    (∀ c t e, CondOk c → evalS O env (sIfElse c t e) =
        if O.isOne (evalS O env c) then evalS O env t else evalS O env e) :=
  ⟨sAdd_sound L env, sSub_sound L env, sMul_sound L env, sDiv_sound L env,
   fun a b h => sPow_sound L env a b h, sNeg_sound L env, sUn_sound L env, sIneq_sound L env,
   fun c t e h => sIfElse_sound L env c t e h⟩

/-- the binary overloads through the dispatcher used by `diff_up_symbolic` -/
theorem sBin_sound (L : LawfulOps O) (env : Env α) (op : Bin) (a b r : SVal) (h : sBin op a b = some r)
    (hp : op = .pow → PowOk O env a b) :
    evalS O env r = O.bin op (evalS O env a) (evalS O env b) := by
  cases op <;> simp only [sBin, Option.some.injEq] at h
  · subst h; simp [sAdd_sound L, Ops.bin, L.add_eq]
  · subst h; simp [sSub_sound L, Ops.bin, L.sub_eq]
  · subst h; simp [sMul_sound L, Ops.bin, L.mul_eq]
  · simp [sDiv_sound L env a b r h, Ops.bin, L.div_eq]
  · subst h; simp [sPow_sound L env a b (hp rfl), Ops.bin]

/-- non-vacuity: the shortcuts really fire -/
example : sMul (.ex (.var 0)) (.num 0) = .num 0 := rfl
example : sPow (.ex (.var 0)) (.num 1) = .ex (.var 0) := rfl
example : sAdd (.ex (.const 2)) (.ex (.const 3)) = .num 5 := by decide +kernel
example : sDiv (.ex (.var 0)) (.num 0) = none := rfl

end Fold


/-! ## 3. `reverse_sd` -/

section Deriv
variable {α : Type} [Field α] {O : Ops α}

/-- **reverseSd_is_derivative.** For every well-formed operator list — an operator that is used several times occurs
several times; the repaired `reverse_sd` visits each operator once, in first-occurrence order — and every variable `v`
the returned dictionary has an entry for: the value of `reverse_sd()[v]` is the value of the formal derivative `D v` of
the tree the list denotes (the tree whose value `get_rpn`/`evaluate` compute, `getRpn_correct`).
Hypotheses: the list is well formed and the same object has the same fields wherever it occurs (`consistent`: true of
Python objects), and the domain side conditions `sdDomAll` of the overloads used while differentiating (no power whose
base folded to the native number 0; native `if_else` conditions are 0/1). -/
theorem reverseSd_is_derivative (L : LawfulOps O) (env : Env α) (ops : OpList) (hwf : wellFormed ops = true)
    (hcons : consistent ops) (e : Expr) (hden : denote ops = some e) (hdom : sdDomAll ops = true)
    (d : DerMap) (h : reverseSd ops = some d) (v : Nat) (s : SVal) (hj : jacOf d v = some s) :
    evalS O env s = eval O env (D v e) :=
  reverseSd_correct L env ops hwf hcons e hden hdom d h v s hj

/-- for a list without repeated operators the code before the repair computed the same thing -/
theorem reverseSdAsCoded_nodup (L : LawfulOps O) (env : Env α) (ops : OpList) (hwf : wellFormed ops = true)
    (hnd : (ops.map (·.id)).Nodup) (e : Expr) (hden : denote ops = some e) (hdom : sdDomAll ops = true)
    (d : DerMap) (h : reverseSdAsCoded ops = some d) (v : Nat) (s : SVal) (hj : jacOf d v = some s) :
    evalS O env s = eval O env (D v e) := by
  simp only [denote, runAlg, Option.bind_eq_some_iff] at hden
  obtain ⟨tm, htm, last, hlast, hle⟩ := hden
  have hall : ∀ n ∈ ops, sdDom (tauOf tm n.id) = true := by
    intro n hn
    obtain ⟨x, _, hl⟩ := foldAlg_fix algTree ops hnd [] tm (by simp) htm n hn
    simp only [sdDomAll, htm, List.all_eq_true] at hdom
    simp only [tauOf, hl, Option.getD_some]
    exact hdom _ (mem_of_lookup tm n.id x hl)
  have := reverseSdOn_correct (env := env) (v := v) L ops ops hwf hnd tm htm hall last hlast
    (List.mem_map_of_mem (List.mem_of_getLast? hlast)) d h s hj
  rw [this]; simp [tauOf, hle]

end Deriv

/-- `(e + 1) * e` with `e = x + y`, as Python builds it: `[e, e+1, e, *]` -/
def exRepeat2 : OpList :=
  [⟨0, .bin .add (.leaf (.var 0)) (.leaf (.var 1))⟩,
   ⟨1, .bin .add (.op 0) (.leaf (.flt 7 (.fin 1)))⟩,
   ⟨0, .bin .add (.leaf (.var 0)) (.leaf (.var 1))⟩,
   ⟨2, .bin .mul (.op 1) (.op 0)⟩]

def exEnv : Env Rat := ⟨fun i => if i = 0 then 2 else 3, fun _ => 1⟩

/-- non-vacuity of `reverseSd_is_derivative` (all hypotheses hold for a list WITH a repeated operator, over the lawful
instance `ratOps`), and the numbers: at x = 2, y = 3 the derivative of (e+1)·e w.r.t. x is 2e+1 = 11 -/
example : LawfulOps ratOps := ratOps_lawful
example : wellFormed exRepeat2 = true := by decide
example : consistent exRepeat2 := by unfold consistent exRepeat2; decide
example : sdDomAll exRepeat2 = true := by decide +kernel
example : ((reverseSd exRepeat2).bind (jacOf · 0)).map (evalS ratOps exEnv) = some 11 := by decide +kernel
example : (denote exRepeat2).map (fun e => eval ratOps exEnv (D 0 e)) = some 11 := by decide +kernel

/-- `reverse_sd` AS CODED BEFORE the repair visited the repeated operator twice: 17 instead of 11
(the defect fixed by /repo commit 134ac540 stays visible in the model) -/
theorem reverseSd_asCoded_counterexample :
    ((reverseSdAsCoded exRepeat2).bind (jacOf · 0)).map (evalS ratOps exEnv) = some 17 := by decide +kernel


/-! ## 5. registration: reference counts, C objects, numbering -/

/-- one step of a history on `aml.Model` -/
inductive MOp (α : Type) where
  | register (c : ConSpec) (conAddr : Nat) (varAddrs paramAddrs : List Nat)   -- `m.<name> = Constraint(expr)`
  | remove (id : Nat)                                                          -- `del m.<name>`
  | setVar (i : Nat) (x : α)                                                   -- `var.value = x`
  | setParam (i : Nat) (x : α)
  | setStructure                                                               -- `m.set_structure()`
  | loadX (xs : List α)                                                        -- `m.load_var_values_from_x(x)`

/-- the model after one step (`ConstraintDict.__setitem__` refuses a name that is already registered, before anything
is touched) -/
def Model.apply {α : Type} (O : Ops α) (m : Model α) : MOp α → Model α
  | .register c ca va pa =>
    if (m.referenced.lookup c.id).isSome then m else (m.register O Model.incFloat c ca va pa).1
  | .remove id => (m.remove O id).1
  | .setVar i x => m.setVar i x
  | .setParam i x => m.setParam i x
  | .setStructure => m.setStructure.1
  | .loadX xs => (m.loadX xs).1

def Model.run {α : Type} (O : Ops α) (m : Model α) (h : List (MOp α)) : Model α := h.foldl (Model.apply O) m

section Registration
variable {α : Type} (O : Ops α)

theorem apply_inv (m : Model α) (op : MOp α) (hi : Inv m) : Inv (m.apply O op) := by
  cases op with
  | register c ca va pa =>
    simp only [Model.apply]
    split
    · exact hi
    · rename_i hnew
      obtain ⟨_, hb, hc, hr⟩ := register_spec O m c ca va pa hi.bal
      refine ⟨hb, ?_, ?_⟩
      · intro k; rw [hc k, hr, refsOf_cons, hi.counts k]; omega
      · rw [hr]
        simp only [List.map_cons, List.nodup_cons]
        refine ⟨?_, hi.ids⟩
        intro hm
        obtain ⟨p, hp, hpe⟩ := List.mem_map.mp hm
        apply hnew
        -- an id that occurs among the keys has a lookup
        have : ∀ (l : List (Nat × RefEntry)), p ∈ l → (l.lookup p.1).isSome = true := by
          intro l hl
          induction l with
          | nil => cases hl
          | cons q r ih =>
            obtain ⟨qk, qv⟩ := q
            by_cases hq : p.1 = qk
            · subst hq; rw [lookup_cons_self]; rfl
            · rcases List.mem_cons.mp hl with rfl | hl'
              · exact absurd rfl hq
              · rw [lookup_cons_ne p.1 qk qv r hq]; exact ih hl'
        rw [← hpe]; exact this _ hp
  | remove id => exact remove_inv O m id hi
  | setVar i x =>
    simp only [Model.apply, Model.setVar]
    split <;> exact ⟨hi.bal, hi.counts, hi.ids⟩
  | setParam i x =>
    simp only [Model.apply, Model.setParam]
    split <;> exact ⟨hi.bal, hi.counts, hi.ids⟩
  | setStructure =>
    simp only [Model.apply, Model.setStructure]
    split <;> exact ⟨hi.bal, hi.counts, hi.ids⟩
  | loadX xs =>
    simp only [Model.apply, Model.loadX]
    split <;> exact ⟨hi.bal, hi.counts, hi.ids⟩

/-- **registration_refcount_inv.** After EVERY history of registering / removing constraints (plain and conditional),
setting values, `set_structure` and `load_var_values_from_x`, starting from the empty model:
`_refcounts[x]` = number of mentions of `x` by the registered constraints' reference sets; `x` has a C object
(`_var_cvar_map` / `_param_cparam_map` / `_float_cfloat_map`) iff that count is positive; constraint identities are distinct. -/
theorem registration_refcount_inv (h : List (MOp α)) : Inv (Model.run O ({} : Model α) h) := by
  suffices ∀ m : Model α, Inv m → Inv (Model.run O m h) from this _ Inv.empty
  induction h with
  | nil => exact fun m hi => hi
  | cons op rest ih => exact fun m hi => ih _ (apply_inv O m op hi)

/-- with the `OrderedSet`s of the code (no repeats inside one constraint's reference lists) the count is the NUMBER OF
REGISTERED CONSTRAINTS mentioning the leaf -/
theorem refcount_eq_number_of_constraints (h : List (MOp α))
    (hnd : ∀ p ∈ (Model.run O ({} : Model α) h).referenced, (refKeys p.2).Nodup) (k : LeafKey) :
    (Model.run O ({} : Model α) h).cnt k =
      ((Model.run O ({} : Model α) h).referenced.filter fun p => decide (k ∈ refKeys p.2)).length := by
  rw [(registration_refcount_inv O h).counts k]
  generalize (Model.run O ({} : Model α) h).referenced = r at hnd
  induction r with
  | nil => rfl
  | cons p r ih =>
    rw [show p = (p.1, p.2) from rfl, refsOf_cons, ih (fun q hq => hnd q (by simp [hq]))]
    have hp := hnd p (by simp)
    by_cases hk : k ∈ refKeys p.2
    · simp [hk, mc, List.count_eq_one_of_mem hp hk]; omega
    · simp [hk, mc, List.count_eq_zero_of_not_mem hk]

/-- C object ⇔ positive reference count, for every history -/
theorem cobject_iff_refcount_pos (h : List (MOp α)) (k : LeafKey) :
    (Model.run O ({} : Model α) h).live k = true ↔ 0 < (Model.run O ({} : Model α) h).cnt k :=
  (registration_refcount_inv O h).bal k

/-- **building never fails (bookkeeping layer)**: registering a constraint in a model reached by any history returns
normally (the repaired `_increment_float`) -/
theorem register_never_fails (h : List (MOp α)) (c : ConSpec) (ca : Nat) (va pa : List Nat) :
    ((Model.run O ({} : Model α) h).register O Model.incFloat c ca va pa).2 = .ok :=
  (register_spec O _ c ca va pa (registration_refcount_inv O h).bal).1

/-- **set_structure_unique_indices.** `set_structure` numbers the variables 0..n−1 and the constraints 0..m−1
(plain first, then conditional), in address order, without dropping or duplicating anything -/
theorem set_structure_unique_indices (e e' : Evaluator α) (h : e.setStructure = some e') :
    e'.vars.map (·.index) = List.range' 0 e.vars.length ∧
    e'.cons.map (·.index) ++ e'.ifCons.map (·.index) = List.range' 0 (e.cons.length + e.ifCons.length) ∧
    (e'.vars.map (·.index)).Nodup ∧ (e'.cons.map (·.index) ++ e'.ifCons.map (·.index)).Nodup ∧
    e'.vars.map (·.addr) = e.vars.map (·.addr) ∧ e'.vars.map (·.value) = e.vars.map (·.value) := by
  obtain ⟨h1, h2, h3, h4, _, h6, _, _⟩ := setStructure_indices e e' h
  obtain ⟨u1, u2⟩ := setStructure_unique e e' h
  refine ⟨h1, ?_, u1, u2, h2, h3⟩
  rw [h4, h6]
  have := List.range'_append (s := 0) (m := e.cons.length) (n := e.ifCons.length) (step := 1)
  simpa [Nat.add_comm] using this

/-- **values survive removal**: when the last constraint mentioning a variable / parameter is removed, the C++ value is
copied back, so `x.value` reads the same before and after -/
theorem values_survive_removal (m : Model α) (i : Nat) :
    (m.decVar O i).varValue O i = m.varValue O i ∧ (m.decParam O i).paramValue O i = m.paramValue O i :=
  ⟨decVar_value O m i, decParam_value O m i⟩

end Registration

/-- two constraints `x + 1.0` sharing the SAME `Float` object (identity 7) -/
def exCon (id v : Nat) : ConSpec :=
  ⟨id, false, [v], [], [7], [⟨.const 1, .bin .add (.var v) (.const 1), [(v, .const 1)]⟩]⟩

/-- `_increment_float` AS CODED BEFORE the repair raised `KeyError` on the second constraint
(the defect fixed by /repo commit 95b1e94d stays visible in the model) … -/
theorem register_asCoded_counterexample :
    (((({} : Model Rat).register ratOps Model.incFloatAsCoded (exCon 0 0) 100 [10] []).1.register ratOps
        Model.incFloatAsCoded (exCon 1 1) 101 [11] []).2) = .keyError := by decide +kernel

/-- … and the repaired one registers both; non-vacuity of `registration_refcount_inv`: the shared `Float` has count 2 -/
example : (Model.run ratOps ({} : Model Rat)
    [.register (exCon 0 0) 100 [10] [], .register (exCon 1 1) 101 [11] []]).cnt (.flt 7) = 2 := by decide +kernel
example : (Model.run ratOps ({} : Model Rat)
    [.register (exCon 0 0) 100 [10] [], .register (exCon 1 1) 101 [11] [], .remove 0]).cnt (.flt 7) = 1 := by
  decide +kernel
example : (Model.run ratOps ({} : Model Rat)
    [.register (exCon 0 0) 100 [10] [], .remove 0]).live (.var 0) = false := by decide +kernel


/-! ## 4. `D` is the analytic derivative on the polynomial / rational fragment -/

/-- **D_is_analytic_derivative_rational.** Over ℝ (any nontrivially normed field) with a lawful `Ops` record whose `pow`
at natural constants is the monomial: for every expression built from variables, parameters, constants, `+ - * /`,
negation and natural constant powers (`ratFrag`), at every point where no denominator vanishes, the function
`x ↦ eval e [v := x]` has derivative `eval (D v e)`. Together with `reverseSd_is_derivative` the compiled Jacobian entry
is the true partial derivative on this fragment, over ANY such field. The remaining operators are covered over ℝ by
`D_is_analytic_derivative_real` (section 9). -/
theorem D_is_analytic_derivative_rational {𝕜 : Type} [NontriviallyNormedField 𝕜] {O : Ops 𝕜} (L : LawfulOps O)
    (hpow : ∀ (x : 𝕜) (n : ℕ), O.pow x (O.ofRat n) = x ^ n) (env : Env 𝕜) (v : Nat) (e : Expr)
    (hf : ratFrag e = true) (hd : denomOk O env e) :
    HasDerivAt (fun x => eval O (env.setVar v x) e) (eval O env (D v e)) (env.var v) :=
  D_hasDerivAt L hpow env v e hf hd

/-- non-vacuity: the hypotheses are satisfiable (ℚ with `ratOps`), on `x² / (y + 1)` at x = 2, y = 3 -/
example : HasDerivAt
    (fun x : ℚ => eval ratOps (exEnv.setVar 0 x) (.bin .div (.bin .pow (.var 0) (.const 2)) (.bin .add (.var 1) (.const 1))))
    (eval ratOps exEnv (D 0 (.bin .div (.bin .pow (.var 0) (.const 2)) (.bin .add (.var 1) (.const 1)))))
    (exEnv.var 0) :=
  D_is_analytic_derivative_rational ratOps_lawful ratOps_pow exEnv 0 _ (by decide +kernel)
    (by simp only [denomOk, true_and]; decide +kernel)


/-! ## 6. CSR rows -/

/-- **csr_rows_partial (the plain-constraint half; the conditional half is `csr_rows_conditional`, both together
`csr_rows`).** After `set_structure`:
`evaluate` computes, for the `i`-th plain constraint in address order (`Constraint.index = i`,
`set_structure_unique_indices`), that constraint's own function program on that constraint's own leaves;
`evaluate_csr_jacobian` computes for row `i` that constraint's own Jacobian programs, one per referenced variable in
address order, `col_ndx` holding those variables' `index` and `row_nnz` the prefix sums of the row lengths.
(Name kept from the round in which only this half was proved.) -/
theorem csr_rows_partial {α : Type} (O : Ops α) (I : InfVals α) (e e' : Evaluator α)
    (h : e.setStructure = some e') :
    evalPlainRows O I e' e'.st.fnRpn 0 =
      seqOpt (e.cons.map fun c => evalRpn O (leafValues O I e' c.leaves) c.fnRpn) ∧
    jacPlainRows O I e' e'.cons.length 0 0 = jacRowsOf O I e' e.cons ∧
    (∃ z, e'.st.colNdx = e.cons.flatMap (fun c => c.jacRpn.map fun p => varIndex e'.vars p.1) ++ z) ∧
    (∃ y, e'.st.rowNnz = (0 :: sums 0 (e.cons.map (·.jacRpn.length))) ++ y) :=
  setStructure_plain_rows O I e e' h

/-- composition with `rpn_correct` and `reverseSd_is_derivative`: when a constraint's programs are the RPN of `fn` and of
`reverse_sd()[v]`, and its leaves vector resolves to the environment (what `add_leaf` / `leaf_ndx_map` set up), its
residual entry is `eval fn` and its Jacobian entry for `v` is `eval (D v fn)` -/
theorem row_entries_are_eval_and_derivative {α : Type} [Field α] {O : Ops α} (L : LawfulOps O) (I : InfVals α)
    (hI : InfLaws O I) (env : Env α) (vals : Nat → α) (ndx : TLeaf → Nat)
    (hv : ∀ l, vals (ndx l) = leafVal O I env l)
    (ops : OpList) (hwf : wellFormed ops = true) (hcons : consistent ops) (fn : Expr) (hden : denote ops = some fn)
    (hdom : sdDomAll ops = true) (d : DerMap) (hsd : reverseSd ops = some d) (v : Nat) (s : SVal)
    (hj : jacOf d v = some s) :
    evalRpn O vals (toRpn ndx fn) = some (eval O env fn) ∧
    evalRpn O vals (toRpn ndx s.toExpr) = some (eval O env (D v fn)) := by
  refine ⟨rpn_correct O I hI env vals ndx hv fn, ?_⟩
  rw [rpn_correct O I hI env vals ndx hv s.toExpr]
  exact congrArg some (reverseSd_is_derivative L env ops hwf hcons fn hden hdom d hsd v s hj)


/-! ## 7. the IF_ELSE opcode is lazy in the value of the branch that is not selected -/

/-- **ifElse_opcode_lazy.** The C++ stack machine's IF_ELSE (`if (arg == 1) res = arg1; else res = arg2;`) returns the
selected operand whatever the other operand is — in particular when the unselected branch evaluated to NaN or ±inf.
(An arithmetic select `arg*arg1 + (1-arg)*arg2` contradicts this lemma: `0 * NaN` is not `0` in IEEE arithmetic.) -/
theorem ifElse_opcode_lazy {α : Type} (O : Ops α) (vals : Nat → α) (c t e x : α) (r : List α) :
    (O.isOne c = true → step O vals (e :: t :: c :: r) codeIfElse = some (t :: r) ∧
      step O vals (x :: t :: c :: r) codeIfElse = some (t :: r)) ∧
    (O.isOne c = false → step O vals (e :: t :: c :: r) codeIfElse = some (e :: r) ∧
      step O vals (e :: x :: c :: r) codeIfElse = some (e :: r)) := by
  refine ⟨fun h => ?_, fun h => ?_⟩ <;> simp [step_ifElse, h]

/-- the same for whole programs: replacing the program of the unselected branch by ANY program that pushes one value
does not change what `evalRpn` returns -/
theorem evalRpn_ifElse_lazy {α : Type} (O : Ops α) (vals : Nat → α) {rc rt re re' : List Int} {c t e e' : α}
    (hc : Pushes O vals rc c) (ht : Pushes O vals rt t) (he : Pushes O vals re e) (he' : Pushes O vals re' e')
    (h : O.isOne c = true) :
    evalRpn O vals (rc ++ rt ++ re ++ [codeIfElse]) = some t ∧
    evalRpn O vals (rc ++ rt ++ re' ++ [codeIfElse]) = some t := by
  have h1 := pushes_ifElse hc ht he []
  have h2 := pushes_ifElse hc ht he' []
  simp only [h, if_true] at h1 h2
  exact ⟨by unfold evalRpn; rw [h1]; rfl, by unfold evalRpn; rw [h2]; rfl⟩

/-- and for trees: the value of `if_else(c, t, e)` is the value of the selected branch -/
theorem eval_ifElse_selected {α : Type} (O : Ops α) (env : Env α) (c t e : Expr) :
    (O.isOne (eval O env c) = true → eval O env (.ifElse c t e) = eval O env t) ∧
    (O.isOne (eval O env c) = false → eval O env (.ifElse c t e) = eval O env e) := by
  refine ⟨fun h => ?_, fun h => ?_⟩ <;> simp [eval, h]

/-!
Remark (known finding `jacobian-nan-unselected-branch`, found by the oracle on the implementation). The value semantics
above is lazy, but `reverse_sd` differentiates BOTH branches and combines them with `if_else(c, der, 0)` / `if_else(c, 0, der)`
factors: over a field `0 · x = 0` and `reverseSd_is_derivative` holds, in IEEE arithmetic `0 · NaN = NaN`, so at a point
where the unselected branch's partial derivative is NaN/inf the compiled Jacobian entry is NaN although the residual is
right. NaN is outside the field model (`LawfulOps`); the defect is recorded in `known_findings.d/C15.json` with its
minimal input, not covered by a theorem.
-/


/-! ## 8. CSR rows of conditional constraints, and the whole residual vector / Jacobian -/

/-- **csr_rows_conditional.** For EVERY evaluator state (hence after every add / remove / set_structure history), after
`set_structure`: the `condition_ndx` / `jac_ndx` strides of `Evaluator::evaluate` and `evaluate_csr_jacobian` make each
conditional constraint read its own entries — the residual is the function program of the FIRST branch whose condition
evaluates to 1 (`firstTrue`, characterised by `firstTrue_spec`), the CSR row is that branch's derivative programs, one per
referenced variable in address order; `col_ndx` and `row_nnz` are the variables' indices and the prefix sums over all
constraints. Hypotheses: ≥ 1 condition per constraint and some condition holds (`firstTrue_isSome`: true when every
condition evaluates and the last one is `Float(1)`, as `add_final_expr` makes it). -/
theorem csr_rows_conditional {α : Type} (O : Ops α) (I : InfVals α) (e e' : Evaluator α)
    (h : e.setStructure = some e') (hk : ∀ c ∈ e.ifCons, 0 < c.condRpn.length)
    (hsel : ∀ c ∈ e.ifCons, (firstTrue O (leafValues O I e' c.leaves) c.condRpn).isSome = true) :
    evalIfRows O I e' e'.st.nConditions e'.cons.length 0 = seqOpt (e.ifCons.map (ifRowRes O I e')) ∧
    jacIfRows O I e' e'.st.nConditions e'.cons.length 0 0 = ifJacRowsOf O I e' e.ifCons ∧
    e'.st.colNdx = e.cons.flatMap (fun c => c.jacRpn.map fun p => varIndex e'.vars p.1) ++
      e.ifCons.flatMap (fun c => c.jacRpn.map fun p => varIndex e'.vars p.1) ∧
    e'.st.rowNnz = 0 :: sums 0 (e.cons.map (·.jacRpn.length) ++ e.ifCons.map (·.jacRpn.length)) :=
  setStructure_if_rows O I e e' h hk hsel

/-- the selected branch is the first one whose condition holds; all earlier conditions evaluate and fail -/
theorem conditional_selects_first_true {α : Type} (O : Ops α) (vals : Nat → α) (rs : List (List Int)) (j : Nat)
    (h : firstTrue O vals rs = some j) :
    condHolds O vals (rs.getD j []) ∧ ∀ i, i < j → condFails O vals (rs.getD i []) :=
  firstTrue_spec O vals rs j h

/-- **csr_rows (full).** `Evaluator::evaluate` returns, in `Constraint.index` order (plain constraints first, then the
conditional ones, each group in address order), every constraint's own residual; `evaluate_csr_jacobian` returns every
constraint's own derivative values row after row, with the reported `col_ndx` / `row_nnz`. -/
theorem csr_rows {α : Type} (O : Ops α) (I : InfVals α) (e e' : Evaluator α)
    (h : e.setStructure = some e') (hk : ∀ c ∈ e.ifCons, 0 < c.condRpn.length)
    (hsel : ∀ c ∈ e.ifCons, (firstTrue O (leafValues O I e' c.leaves) c.condRpn).isSome = true)
    (res resIf : List α)
    (hres : seqOpt (e.cons.map fun c => evalRpn O (leafValues O I e' c.leaves) c.fnRpn) = some res)
    (hresIf : seqOpt (e.ifCons.map (ifRowRes O I e')) = some resIf)
    (jac jacIf : List α) (hjac : jacRowsOf O I e' e.cons = some jac) (hjacIf : ifJacRowsOf O I e' e.ifCons = some jacIf) :
    e'.evaluate O I = .ok (res ++ resIf) ∧
    e'.evaluateCsr O I = .ok (jac ++ jacIf,
      e.cons.flatMap (fun c => c.jacRpn.map fun p => varIndex e'.vars p.1) ++
        e.ifCons.flatMap (fun c => c.jacRpn.map fun p => varIndex e'.vars p.1),
      0 :: sums 0 (e.cons.map (·.jacRpn.length) ++ e.ifCons.map (·.jacRpn.length))) := by
  obtain ⟨p1, p2, _, _⟩ := setStructure_plain_rows O I e e' h
  obtain ⟨q1, q2, q3, q4⟩ := setStructure_if_rows O I e e' h hk hsel
  have hset : e'.structureSet = true := (setStructure_indices e e' h).2.2.2.2.2.2.2
  constructor
  · simp only [Evaluator.evaluate, hset, Bool.not_true, Bool.false_eq_true, if_false, p1, hres, q1, hresIf]
  · simp only [Evaluator.evaluateCsr, hset, Bool.not_true, Bool.false_eq_true, if_false, p2, hjac, q2, hjacIf, q3, q4]


/-! ## 9. `D` is the analytic derivative over ℝ for all 18 operators, on the interior of the domain -/

/-- **D_is_analytic_derivative_real.** With `realOps` (ℝ, `Real.rpow`, `Real.exp/log/sin/cos/tan/arcsin/arccos/arctan`,
`|·|`, `sign x = if 0 ≤ x then 1 else −1`; a `LawfulOps` instance, `realOps_lawful`): at every point of the INTERIOR of
the domain of definition (`interior`: denominators ≠ 0; base of a power > 0 or a natural constant exponent ≥ 1; log
argument > 0; cos ≠ 0 under tan; |arg| < 1 under asin/acos; and the EXCLUDED points: abs/sign argument ≠ 0, an
inequality body off its bounds, only the SELECTED branch of an if_else needs to be inside its domain) the function
`x ↦ eval e [v := x]` has derivative `eval (D v e)`. -/
theorem D_is_analytic_derivative_real (env : Env ℝ) (v : Nat) (e : Expr) (h : interior env e) :
    HasDerivAt (fun x => eval realOps (env.setVar v x) e) (eval realOps env (D v e)) (env.var v) :=
  D_hasDerivAt_real env v e h

/-- **jacobian_entry_is_true_partial_derivative.** Composition with `reverseSd_is_derivative`: over ℝ, for every
well-formed operator list (repeats allowed) denoting `e`, at every interior point, the value of the expression
`reverse_sd()[v]` — whose RPN is what the compiled evaluator runs for the Jacobian entry (`row_entries_are_eval_and_derivative`,
`csr_rows`) — is the true partial derivative ∂e/∂v. -/
theorem jacobian_entry_is_true_partial_derivative (env : Env ℝ) (ops : OpList) (hwf : wellFormed ops = true)
    (hcons : consistent ops) (e : Expr) (hden : denote ops = some e) (hdom : sdDomAll ops = true)
    (d : DerMap) (hsd : reverseSd ops = some d) (v : Nat) (s : SVal) (hj : jacOf d v = some s)
    (hint : interior env e) :
    HasDerivAt (fun x => eval realOps (env.setVar v x) e) (evalS realOps env s) (env.var v) := by
  rw [reverseSd_is_derivative realOps_lawful env ops hwf hcons e hden hdom d hsd v s hj]
  exact D_hasDerivAt_real env v e hint

/-- non-vacuity: the guarded signed square root plus `exp(sin(log x))` at x = 4 (the unselected branch `−(−x)**0.5` is
outside its domain there) -/
example : HasDerivAt (fun x => eval realOps (exEnvReal.setVar 0 x) exGuardReal)
    (eval realOps exEnvReal (D 0 exGuardReal)) (exEnvReal.var 0) :=
  D_is_analytic_derivative_real exEnvReal 0 exGuardReal exGuardReal_interior


/-! ## 10. no hidden memory -/

/-- **evaluateCsr_no_memory.** `evaluate_csr_jacobian` (and `evaluate`) depend on the evaluator state only through the
structure frozen by `set_structure` and the CURRENT leaf values: two states that agree on those give the same Jacobian,
whatever was evaluated before and however the values got there (`load_var_values_from_x`, or `Var.value = …` /
`Param.value = …` written directly, `Model.setVar` / `Model.setParam`). In particular the branch of a conditional
constraint is re-selected from the current values at every Jacobian evaluation (`csr_rows_conditional`); an evaluator
that remembers the branch picked by the last `evaluate()` contradicts this theorem. -/
theorem evaluateCsr_no_memory {α : Type} (O : Ops α) (I : InfVals α) (e1 e2 : Evaluator α) (hst : e1.st = e2.st)
    (hss : e1.structureSet = e2.structureSet) (hn : e1.cons.length = e2.cons.length)
    (hv : leafValues O I e1 = leafValues O I e2) :
    e1.evaluateCsr O I = e2.evaluateCsr O I ∧ e1.evaluate O I = e2.evaluate O I :=
  evaluate_no_memory O I e1 e2 hst hss hn hv

/-- writing a value directly (`var.value = x`, `param.value = x`) does not touch the frozen structure: the next Jacobian
is the one `csr_rows` describes at the new values -/
theorem setValue_keeps_structure {α : Type} (m : Model α) (i : Nat) (x : α) :
    (m.setVar i x).ev.st = m.ev.st ∧ (m.setVar i x).ev.structureSet = m.ev.structureSet ∧
    (m.setVar i x).ev.cons = m.ev.cons ∧ (m.setVar i x).ev.ifCons = m.ev.ifCons ∧
    (m.setParam i x).ev.st = m.ev.st ∧ (m.setParam i x).ev.structureSet = m.ev.structureSet ∧
    (m.setParam i x).ev.cons = m.ev.cons ∧ (m.setParam i x).ev.ifCons = m.ev.ifCons := by
  simp only [Model.setVar, Model.setParam]
  refine ⟨?_, ?_, ?_, ?_, ?_, ?_, ?_, ?_⟩ <;> split <;> rfl


/-! ## 11. `leaf.value = x` always takes effect -/

/-- **setValue_overwrites.** `var.value = x` / `param.value = x` overwrite the current value unconditionally: afterwards
the property reads `x` and the C++ object — what `get_x`, `evaluate` and `evaluate_csr_jacobian` read (`csr_rows`) —
holds `x`, independently of the Python-side `_value` (which goes stale when values are loaded by vector:
`load_var_values_from_x` writes only the C++ objects, `Model.loadX`). A setter that skips the write when `x == _value`
contradicts this theorem. -/
theorem setValue_overwrites {α : Type} (O : Ops α) (m : Model α) (i : Nat) (x : α) :
    (m.setVar i x).varValue O i = x ∧ (m.setParam i x).paramValue O i = x ∧
    (∀ a c, m.varMap.lookup i = some a → findBy CLeaf.addr a m.ev.vars = some c →
      findBy CLeaf.addr a (m.setVar i x).ev.vars = some { c with value := x }) :=
  ⟨setVar_overwrites O m i x, setParam_overwrites O m i x, fun a c hl hf => setVar_cvalue m i a x c hl hf⟩

/-- non-vacuity / the history of the seeded change: value 1, load 2 by vector, set 1 again → the value is 1 -/
example :
    let m0 := Model.run ratOps ({} : Model Rat) [.setVar 0 1, .register (exCon 0 0) 100 [10] [], .setStructure, .loadX [2]]
    m0.varValue ratOps 0 = 2 ∧ (m0.setVar 0 1).varValue ratOps 0 = 1 := by decide +kernel


/-! ## 12. the hand-written stack machine IS the C++ source (translator tie) -/

/-- `Ops.sign` is the C++ conditional `if (arg >= 0) res = 1.0; else res = -1.0;` -/
def SignIsCpp {α : Type} (O : Ops α) : Prop :=
  ∀ x, O.sign x = if O.le (O.ofRat 0) x then O.ofRat 1 else O.neg (O.ofRat 1)

/-- **opcode_tables_agree.** `OperationEnum` of expr.py (what `get_rpn` emits) and the `const int` opcodes of
evaluator.hpp (what `_evaluate` dispatches on) are the same table, name by name, value by value; and the `if (ndx == …)`
chain of `_evaluate` has exactly one case per constant, in that order. Decided on the regenerated tables. -/
theorem opcode_tables_agree :
    Gen.pyEnum.map (fun p => (p.1.toUpper, p.2)) = Gen.cppConsts ∧
    Gen.cases.map (fun c => (c.name, c.code)) = Gen.cppConsts := by
  constructor <;> decide +kernel

/-- the opcodes the model's `toRpn` / `getRpn` emit are those constants -/
theorem model_opcodes_are_cpp_constants :
    [Bin.add, .sub, .mul, .div, .pow].map Bin.code ++
      [Un.abs, .sign].map Un.code ++ [codeIfElse, codeIneq] ++
      [Un.exp, .log, .neg, .sin, .cos, .tan, .asin, .acos, .atan].map Un.code = Gen.cppConsts.map (·.2) := by
  decide +kernel

/-- **evaluator_shape_is_model.** The table regenerated from the CURRENT `_evaluate` source (per opcode: the operands
popped, in source order, and the expression assigned to `res`), interpreted by `shapeStep`, is `step` of
`Model/Rpn.lean` — for every value type, leaf vector, stack and program entry. Any edit of an opcode case (an arithmetic
select instead of `if (arg == 1)`, a strict instead of a closed inequality, swapped operands, a wrong libm call, a changed
opcode constant) changes the generated table and breaks this theorem. -/
theorem evaluator_shape_is_model {α : Type} (O : Ops α) (hsign : SignIsCpp O) (vals : Nat → α) (s : List α) (t : Int) :
    shapeStep O vals Gen.cases s t = step O vals s t := by
  unfold shapeStep step
  by_cases h0 : 0 ≤ t
  · simp [h0]
  · simp only [h0, if_false]
    by_cases hlo : t < -18
    · have e1 : decodeBin t = none := by simp only [decodeBin]; repeat (first | rw [if_neg (by omega)] | rfl)
      have e2 : decodeUn t = none := by simp only [decodeUn]; repeat (first | rw [if_neg (by omega)] | rfl)
      have e3 : Gen.cases.find? (fun c => c.code == t) = none := by
        simp only [Gen.cases, List.find?_cons, List.find?_nil]
        repeat (first | rw [show ((_ : Int) == t) = false from by simp; omega] | rfl)
      rw [e1, e2, e3]
      simp only []
      rw [if_neg (show ¬ t = codeIfElse by unfold codeIfElse; omega),
        if_neg (show ¬ t = codeIneq by unfold codeIneq; omega)]
    · have hr : -18 ≤ t ∧ t ≤ -1 := by omega
      obtain ⟨h1, h2⟩ := hr
      interval_cases t <;>
        (rcases s with _ | ⟨x2, _ | ⟨x1, _ | ⟨x, r⟩⟩⟩ <;>
          simp [Gen.cases, CaseShape.apply, CExp.eval, CCond.eval, decodeBin, decodeUn, codeIfElse, codeIneq, Ops.bin, Ops.un,
            Ops.ofBool, hsign _, bind, pure] <;>
          first
          | done
          | (split <;> rfl))

/-- the side condition holds for the instances used elsewhere -/
example : SignIsCpp ratOps := by intro x; simp [ratOps]
example : SignIsCpp realOps := by
  intro x; simp [realOps_sign, realOps_le, realOps_ofRat, realOps_neg]

/-- the index updates and conditions of `Evaluator::evaluate` / `evaluate_csr_jacobian`, as the model transliterates them
(`evalPlainRows`, `findBranch` / `evalIfRows`, `jacPlainRows`, `jacIfRows` of `Model/AmlModel.lean`: `con_ndx` ↦ `conNdx`,
`condition_ndx += _n_conditions - i` ↦ `next := condNdx + (nCond − i)`, `jac_ndx += nnz` per failed condition and
`+= (_n_conditions - i - 1) * nnz` after the selected block ↦ the `jacNdx` arithmetic of `jacIfRows`). **Decided on the
regenerated source text**: an edit of a stride or of a loop condition breaks this theorem. -/
theorem evaluator_loops_are_as_transliterated :
    Gen.evaluateUpdates = ["con_ndx=0", "++con_ndx", "c=0", "_n_conditions=0", "condition_ndx=0", "found=false",
      "_n_conditions=n_conditions[c]", "i=0", "found=true", "found=true", "condition_ndx+=_n_conditions-i",
      "++condition_ndx", "++i", "++c", "++con_ndx"] ∧
    Gen.csrUpdates = ["nnz_ndx=0", "con_ndx=0", "nnz=row_nnz[con_ndx+1]-row_nnz[con_ndx]", "i=0", "++nnz_ndx", "++con_ndx",
      "c=0", "i=0", "_n_conditions=0", "condition_ndx=0", "jac_ndx=0", "nnz=row_nnz[con_ndx+1]-row_nnz[con_ndx]",
      "_n_conditions=n_conditions[c]", "i=0", "found=false", "found=true", "found=true", "++nnz_ndx", "++jac_ndx",
      "condition_ndx+=_n_conditions-i", "jac_ndx+=(_n_conditions-i-1)*nnz", "++condition_ndx", "++i", "jac_ndx+=nnz",
      "++con_ndx", "++c"] ∧
    Gen.evaluateConds = ["if:!is_structure_set", "while:con_ndx<num_cons", "while:con_ndx<num_cons+num_if_else_cons",
      "while:!found", "if:if_else_condition_rpn[condition_ndx].size()==0",
      "if:_evaluate(stack,&(if_else_condition_rpn[condition_ndx]),&(leaves[con_ndx]))==1", "if:found"] ∧
    Gen.csrConds = ["if:!is_structure_set", "while:con_ndx<num_cons", "while:con_ndx<num_cons+num_if_else_cons",
      "while:!found", "if:if_else_condition_rpn[condition_ndx].size()==0",
      "if:_evaluate(stack,&(if_else_condition_rpn[condition_ndx]),&(leaves[con_ndx]))==1", "if:found",
      "for:inti=0;i<nnz;++i", "for:intj=0;j<nnz;++j"] := by
  refine ⟨?_, ?_, ?_, ?_⟩ <;> decide +kernel


/-! ## 13. with a NaN element -/

/-- **rpn_correct_nan.** Over the value domain `NV` (NaN absorbing for arithmetic, every comparison with NaN false,
`NaN == 1` false; `Lemmas/AmlNan.lean`): the C++ stack machine run on the RPN of a tree returns `eval` — in particular an
`if_else` whose UNSELECTED branch evaluates to NaN returns the selected branch's value, and an `inequality` of a NaN body
is 0. (Inequalities without any bound are excluded: `Model/Expr.lean` evaluates them to the constant 1, the machine
computes `-inf <= nan <= inf` = 0.) -/
theorem rpn_correct_nan (env : Env NV) (vals : Nat → NV) (ndx : TLeaf → Nat)
    (hv : ∀ l, vals (ndx l) = leafVal nanOps nanInf env l) (e : Expr) (hb : boundedIneqs e = true) :
    evalRpn nanOps vals (toRpn ndx e) = some (eval nanOps env e) :=
  rpn_correct_nanOps env vals ndx hv e hb

/-- **jacobian_nan_unselected_branch (the known finding as a theorem).** For `if_else(x >= 1, x, 1/(x − 2))` at `x = 2`
(a well-formed operator list, as Python builds it): the value is 2 (selected branch), the formal derivative `D` —
which selects branch-wise — is 1, but the expression `reverse_sd` returns evaluates to NaN: it ADDS
`if_else(c, 0, 1) · (−1/(x−2)²)`, and `0 · NaN = NaN`. So `reverseSd_is_derivative` does NOT extend to a value domain with
NaN; the compiled Jacobian entry of such a constraint is NaN at such a point (reproduced on the implementation:
`corpus/C15/ite-unselected-branch-nan-jacobian.json`, known finding `jacobian-nan-unselected-branch`). -/
theorem jacobian_nan_unselected_branch :
    wellFormed nanWitness = true ∧ denote nanWitness = some nanWitnessTree ∧
    eval nanOps nanEnv nanWitnessTree = .fin 2 ∧
    eval nanOps nanEnv (D 0 nanWitnessTree) = .fin 1 ∧
    ((reverseSd nanWitness).bind (jacOf · 0)).map (fun s => eval nanOps nanEnv s.toExpr) = some .nan := by
  refine ⟨?_, ?_, ?_, ?_, ?_⟩ <;> decide +kernel


/-! ## 14. the overload shortcuts of the model ARE the source's (translator tie) -/

def fwdOf (name : String) (a : Expr) (y : Rat) : Option (Option SVal) :=
  (Gen.overloads.find? (fun sh => sh.name == name)).bind fun sh => sh.applyFwd a y

def reflOf (name : String) (x : Rat) (b : Expr) : Option (Option SVal) :=
  (Gen.overloads.find? (fun sh => sh.name == name)).bind fun sh => sh.applyRefl x b

/-- **overloads_forward_are_model.** The table regenerated from the CURRENT `ExpressionBase.__add__ … __pow__` (the
`if other == k: return …` shortcuts in source order and the final `_binary_operation_helper` call), interpreted, is the
model's `sAdd / sSub / sMul / sDiv / sPow` on (aml object, native number) — for every object and every number. An edited
shortcut (a changed constant, `return self` instead of `0`, a dropped `raise`) changes the table and breaks this theorem. -/
theorem overloads_forward_are_model (a : Expr) (y : Rat) :
    fwdOf "__add__" a y = some (sBin .add (.ex a) (.num y)) ∧
    fwdOf "__sub__" a y = some (sBin .sub (.ex a) (.num y)) ∧
    fwdOf "__mul__" a y = some (sBin .mul (.ex a) (.num y)) ∧
    fwdOf "__truediv__" a y = some (sBin .div (.ex a) (.num y)) ∧
    fwdOf "__div__" a y = some (sBin .div (.ex a) (.num y)) ∧
    fwdOf "__pow__" a y = some (sBin .pow (.ex a) (.num y)) := by
  refine ⟨?_, ?_, ?_, ?_, ?_, ?_⟩ <;>
    (by_cases h0 : y = 0
     · subst h0
       simp [fwdOf, Gen.overloads, OverloadShape.applyFwd, OverloadShape.pick, binOfName, sBin, sAdd, sSub, sMul, sDiv, sPow]
     · have h0' : ¬ (0 : Rat) = y := fun e => h0 e.symm
       by_cases h1 : y = 1
       · subst h1
         simp [fwdOf, Gen.overloads, OverloadShape.applyFwd, OverloadShape.pick, binOfName, sBin, sAdd, sSub, sMul, sDiv, sPow]
       · have h1' : ¬ (1 : Rat) = y := fun e => h1 e.symm
         simp [fwdOf, Gen.overloads, OverloadShape.applyFwd, OverloadShape.pick, binOfName, sBin, sAdd, sSub, sMul, sDiv, sPow,
           h0, h1, h0', h1']
         try (cases a <;> simp [sBinObjNum, sNumNum, ratBin, h0]))

/-- **overloads_reflected_are_model.** The same for `__radd__ … __rpow__` on (native number, aml object); `Float(x) <op> self`
is the object–object overload. (An edit such as `__rsub__` returning `self` for `0 − e` breaks this theorem.) -/
theorem overloads_reflected_are_model (x : Rat) (b : Expr) :
    reflOf "__radd__" x b = some (sBin .add (.num x) (.ex b)) ∧
    reflOf "__rsub__" x b = some (sBin .sub (.num x) (.ex b)) ∧
    reflOf "__rmul__" x b = some (sBin .mul (.num x) (.ex b)) ∧
    reflOf "__rtruediv__" x b = some (sBin .div (.num x) (.ex b)) ∧
    reflOf "__rdiv__" x b = some (sBin .div (.num x) (.ex b)) ∧
    reflOf "__rpow__" x b = some (sBin .pow (.num x) (.ex b)) := by
  refine ⟨?_, ?_, ?_, ?_, ?_, ?_⟩ <;>
    (by_cases h0 : x = 0
     · subst h0
       simp [reflOf, Gen.overloads, OverloadShape.applyRefl, OverloadShape.pick, binOfName, sBin, sAdd, sSub, sMul, sDiv, sPow]
     · have h0' : ¬ (0 : Rat) = x := fun e => h0 e.symm
       by_cases h1 : x = 1
       · subst h1
         simp [reflOf, Gen.overloads, OverloadShape.applyRefl, OverloadShape.pick, binOfName, sBin, sAdd, sSub, sMul, sDiv, sPow]
         try (cases b <;> simp [sBinObj, sNumNum, ratBin])
       · have h1' : ¬ (1 : Rat) = x := fun e => h1 e.symm
         simp [reflOf, Gen.overloads, OverloadShape.applyRefl, OverloadShape.pick, binOfName, sBin, sAdd, sSub, sMul, sDiv, sPow,
           h0, h1, h0', h1']
         try (cases b <;> simp [sBinObj, sNumNum, ratBin, h0]))


/-! ## 15. the structural hypotheses hold for every list the overloads build -/

/-- **built_lists_wellFormed.** `wellFormed` — hypothesis of `getRpn_total`, `reverseSd_is_derivative`, … — is a property
of the CONSTRUCTION: every operator list the overloads build (`ops(self) ++ ops(other) ++ [new operator]`, `if_else`,
`inequality`, unary functions) from well-formed operands is well formed; leaves have the empty list. -/
theorem built_lists_wellFormed :
    (∀ op a b id, wellFormed a.ops = true → wellFormed b.ops = true → wellFormed (mkBin op a b id).ops = true) ∧
    (∀ op a id, wellFormed a.ops = true → wellFormed (mkUn op a id).ops = true) ∧
    (∀ a lb ub id, wellFormed a.ops = true → wellFormed (mkIneq a lb ub id).ops = true) ∧
    (∀ c t e id, wellFormed c.ops = true → wellFormed t.ops = true → wellFormed e.ops = true →
      wellFormed (mkIfElse c t e id).ops = true) :=
  ⟨mkBin_wellFormed, mkUn_wellFormed, mkIneq_wellFormed, mkIfElse_wellFormed⟩

/-- **built_lists_consistent.** `consistent` (the same object has the same fields wherever it occurs) likewise: operator
objects live on a heap (identity ↦ fields); a list whose entries are heap objects is consistent, and every overload
allocates its new operator at a fresh identity and keeps the operands' lists on the heap. -/
theorem built_lists_consistent (H : Heap) :
    (∀ l, FromHeap H l → consistent l) ∧
    (∀ op a b id, FromHeap H a.ops → FromHeap H b.ops → H id = none →
      FromHeap (H.alloc id (.bin op a.last b.last)) (mkBin op a b id).ops) ∧
    (∀ op a id, FromHeap H a.ops → H id = none → FromHeap (H.alloc id (.un op a.last)) (mkUn op a id).ops) ∧
    (∀ a lb ub id, FromHeap H a.ops → H id = none →
      FromHeap (H.alloc id (.ineq a.last lb ub)) (mkIneq a lb ub id).ops) ∧
    (∀ c t e id, FromHeap H c.ops → FromHeap H t.ops → FromHeap H e.ops → H id = none →
      FromHeap (H.alloc id (.ifElse c.last t.last e.last)) (mkIfElse c t e id).ops) :=
  ⟨fun _ h => h.consistent, mkBin_fromHeap H, mkUn_fromHeap H, mkIneq_fromHeap H, mkIfElse_fromHeap H⟩

/-- non-vacuity: `(e + 1) * e` with `e = x + y` built by the constructors is the list `exRepeat2` -/
example :
    let x : PyExpr := ⟨[], .var 0⟩
    let y : PyExpr := ⟨[], .var 1⟩
    let one : PyExpr := ⟨[], .flt 7 (.fin 1)⟩
    let e := mkBin .add x y 0
    (mkBin .mul (mkBin .add e one 1) e 2).ops = exRepeat2 := by decide


/-! ## 16. the container layer: a refused insertion is atomic -/

/-- a `ConstraintDict` attached to a model (`m.cd = ConstraintDict()`): its keys and the constraint stored under each -/
structure ConDict (α : Type) where
  model : Model α
  items : List (Nat × Nat)            -- key ↦ constraint identity

/-- `cd[key] = Constraint(expr)`: `ConstraintDict.__setitem__` FIRST refuses an occupied key (ValueError), only then
registers the constraint with the model and stores it; `Model.__setattr__` does the same for an occupied attribute name -/
def ConDict.setItem {α : Type} (O : Ops α) (d : ConDict α) (key : Nat) (c : ConSpec) (conAddr : Nat)
    (varAddrs paramAddrs : List Nat) : ConDict α × Out :=
  if (d.items.lookup key).isSome then (d, .keyError)          -- refused: nothing touched
  else (⟨(d.model.register O Model.incFloat c conAddr varAddrs paramAddrs).1, (key, c.id) :: d.items⟩, .ok)

/-- `del cd[key]` -/
def ConDict.delItem {α : Type} (O : Ops α) (d : ConDict α) (key : Nat) : ConDict α × Out :=
  match d.items.lookup key with
  | none => (d, .keyError)
  | some cid => (⟨(d.model.remove O cid).1, d.items.filter fun p => p.1 != key⟩, .ok)

/-- **refused_insertion_unchanged.** An insertion that is refused (occupied key) leaves the dictionary AND the model —
reference counts, C objects, the evaluator's registered constraints and variables, the structure flag — exactly as they
were: no ghost row or column can appear after the next `set_structure`. (A `__setitem__` that registers before it checks
the key contradicts this theorem.) The same holds for a refused `del`. -/
theorem refused_insertion_unchanged {α : Type} (O : Ops α) (d : ConDict α) (key : Nat) (c : ConSpec) (conAddr : Nat)
    (va pa : List Nat) :
    ((d.setItem O key c conAddr va pa).2 ≠ .ok → (d.setItem O key c conAddr va pa).1 = d) ∧
    ((d.delItem O key).2 ≠ .ok → (d.delItem O key).1 = d) := by
  constructor
  · unfold ConDict.setItem
    split
    · intro _; rfl
    · intro h; exact absurd rfl h
  · unfold ConDict.delItem
    split
    · intro _; rfl
    · intro h; exact absurd rfl h

/-- and an accepted insertion is exactly one registration (so all registration theorems apply to the container layer) -/
theorem accepted_insertion_registers {α : Type} (O : Ops α) (d : ConDict α) (key : Nat) (c : ConSpec) (conAddr : Nat)
    (va pa : List Nat) (h : (d.items.lookup key).isSome = false) :
    (d.setItem O key c conAddr va pa).1.model = (d.model.register O Model.incFloat c conAddr va pa).1 ∧
    (d.setItem O key c conAddr va pa).2 = .ok := by
  simp [ConDict.setItem, h]

end Wntr.Aml
