/-
C08 (activation window) — "The leak is active exactly from start_time until end_time as given to add_leak, contributes
nothing outside that window", on the scheduler model M5 `Sched` (Model/Sched.lean, the model of C04).

`Junction.add_leak` / `Tank.add_leak(wn, area, cd, start_time, end_time)` register (wntr/network/elements.py) two
controls built by `Control._time_control(wn, t, 'SIM_TIME', False, action)`: a `Control` with
`SimTimeCondition(wn, '=', start_time)` and `ControlAction(node, 'leak_status', True)`, then — if `end_time` is given —
one with `end_time` and `False`; default priority 3 (medium), pre-solve controls, registered in this order.  `Leak.ctls`
(Lemmas/SchedLeak.lean) is that pair with key = `(node, 'leak_status')`, values 1 / 0; the correspondence run of
harness/props/c08.py diffs it against the controls the real `add_leak` creates.

Theorems: for any number of leaks on distinct nodes, any hydraulic / rule / report steps and duration, a fresh start
with every `leak_status` False, and every start ≥ 0 and end ≠ start, on or off the hydraulic grid, also inside one
hydraulic step: at every accepted (reported) time `t` the status is on iff `start ≤ t` and not (`start ≤ end ≤ t`);
`start` and (for `start < end`) `end` are accepted times themselves (partial steps land exactly on them).
`end ≤ start`: for `end < start` the end control fires first and the leak stays on from `start` for ever; `end = start`
is decided by the registration order (the end control is applied last: never on) and is shown on an example only.
-/
import WntrModel.Lemmas.SchedLeak

namespace Wntr.C08Window
open Wntr.Time Wntr.Sched

/-- a scheduler configuration whose time controls are exactly those of the leaks `ls` (no rules) -/
structure LeakCfg (cfg : Cfg) (ls : List Leak) : Prop where
  presolve_eq : cfg.presolve = leakCtls ls
  no_rules : cfg.rules = []
  distinct : ls.Pairwise (fun a b => a.key ≠ b.key)
  rule_pos : 0 < cfg.rule
  hyd_pos : 0 < cfg.hyd

/-- the controls a pass applies, as a set: the leak controls with instant in `(prev, t]` -/
theorem applied_mem {cfg : Cfg} {ls : List Leak} (hc : LeakCfg cfg ls) (s : St) (hlt : s.prevTime < s.simTime) (t : Int)
    (ht : t ≤ s.simTime) (d : Due) :
    d ∈ (presolveDue cfg false s).filter (fun d => decide (s.simTime - d.back ≤ t)) ↔
      ∃ id prio thr key value, timeCtl id prio thr key value ∈ leakCtls ls ∧ s.prevTime < thr ∧ thr ≤ t ∧
        d = ⟨timeCtl id prio thr key value, .thenB, s.simTime - thr⟩ := by
  unfold presolveDue
  simp only [Bool.false_eq_true, if_false, List.mem_filter, decide_eq_true_eq]
  rw [mem_sortDue, hc.presolve_eq, mem_check_timeCtls (leakCtls_all ls)]
  constructor
  · rintro ⟨⟨id, prio, thr, key, value, h1, h2, h3, rfl⟩, h4⟩
    exact ⟨id, prio, thr, key, value, h1, h2, by simp only at h4; omega, rfl⟩
  · rintro ⟨id, prio, thr, key, value, h1, h2, h3, rfl⟩
    exact ⟨⟨id, prio, thr, key, value, h1, h2, by omega, rfl⟩, by simp only; omega⟩

theorem applied_sorted (cfg : Cfg) (s : St) (t : Int) :
    ((presolveDue cfg false s).filter (fun d => decide (s.simTime - d.back ≤ t))).Pairwise (fun a b => b.back ≤ a.back) := by
  have hs : (presolveDue cfg false s).Pairwise (fun a b => b.back ≤ a.back) := by
    unfold presolveDue; simp only [Bool.false_eq_true, if_false]; exact sortDue_sorted _
  exact hs.sublist List.filter_sublist

/-- **one pass keeps the leak status in step with the window** -/
theorem leak_pass {cfg : Cfg} {ls : List Leak} (hc : LeakCfg cfg ls) {l : Leak} (hl : l ∈ ls) (hne : l.stop ≠ some l.start)
    {s : St} (inv : Inv cfg s) (hnd : NodupKeys s.vals) (hv : s.vals.get l.key = l.val s.prevTime) :
    (presolve cfg false s).vals.get l.key = l.val (presolve cfg false s).simTime := by
  have L := presolve_landed hc.rule_pos false inv
  rw [presolve_applied hc.rule_pos hc.no_rules inv hnd]
  exact leak_apply hc.distinct hl hne s.prevTime _ s.simTime _ (applied_sorted cfg s _)
    (applied_mem hc s inv.lt _ L.le) s.vals hv (le_of_lt L.gt)

/-- the invariant along the loop of `run_sim` -/
theorem leak_run {cfg : Cfg} {ls : List Leak} (hc : LeakCfg cfg ls) {l : Leak} (hl : l ∈ ls) (hne : l.stop ≠ some l.start) :
    ∀ (n : Nat) (first : Bool) (s : St) (log : List Row), Inv cfg s → NodupKeys s.vals →
      (first = true → s.simTime = s.prevTime + 1) → s.vals.get l.key = l.val s.prevTime →
      (∀ r ∈ log, r.vals.get l.key = l.val r.time) →
      (runLoop cfg n first s log).1.vals.get l.key = l.val (runLoop cfg n first s log).1.prevTime ∧
        ∀ r ∈ (runLoop cfg n first s log).2, r.vals.get l.key = l.val r.time := by
  intro n
  induction n with
  | zero => intro first s log _ _ _ hv hlog; exact ⟨hv, hlog⟩
  | succ n ih =>
    intro first s log inv hnd hf hv hlog
    have hpre : presolve cfg first s = presolve cfg false s := by
      cases first with
      | false => rfl
      | true => exact presolve_first_eq (hf rfl)
    have hp := leak_pass hc hl hne inv hnd hv
    have hs := stepOnce_stepped hc.rule_pos hc.hyd_pos first inv
    have e1 : (stepOnce cfg first s).1.vals = (presolve cfg false s).vals := by rw [stepOnce_fst, hpre]
    have e2 : (stepOnce cfg first s).1.prevTime = (presolve cfg false s).simTime := by rw [stepOnce_fst, hpre]
    have hv' : (stepOnce cfg first s).1.vals.get l.key = l.val (stepOnce cfg first s).1.prevTime := by rw [e1, e2]; exact hp
    have hlog' : ∀ r ∈ log ++ (stepOnce cfg first s).2.toList, r.vals.get l.key = l.val r.time := by
      intro r hr
      rcases List.mem_append.1 hr with hr | hr
      · exact hlog r hr
      · rw [stepOnce_snd, hpre] at hr
        split at hr
        · simp only [Option.toList_some, List.mem_singleton] at hr; subst hr; exact hp
        · simp at hr
    rw [runLoop_succ]
    split
    · exact ⟨hv', hlog'⟩
    · exact ih false _ _ hs.inv (e1 ▸ hnd.presolve false) (fun h => by simp at h) hv' hlog'

/-- **`leak_window`** — for every leak configuration (any number of leaks on distinct nodes, any steps and duration), a
fresh model in which the leak status of `l`'s node is False, `start ≥ 0` and `end ≠ start`: at EVERY reported time `t`
of the run the leak status is 1 if `l.on t` and 0 otherwise, and so is the status the run leaves in the model -/
theorem leak_window {cfg : Cfg} {ls : List Leak} (hc : LeakCfg cfg ls) {l : Leak} (hl : l ∈ ls) (hne : l.stop ≠ some l.start)
    (h0 : 0 ≤ l.start) (vals : Vals) (hnd : NodupKeys vals) (hinit : vals.get l.key = 0) :
    (∀ r ∈ (runSim cfg 0 (-1) vals).2, r.vals.get l.key = l.val r.time) ∧
      (runSim cfg 0 (-1) vals).1.vals.get l.key = l.val (runSim cfg 0 (-1) vals).1.prevTime := by
  have hleft : ¬ NothingLeft cfg 0 := not_nothingLeft_of_le (Or.inl rfl)
  rw [runSim_eq (-1) vals hleft]
  have hstart : l.val (-1) = 0 := by
    unfold Leak.val Leak.on
    have : ¬ l.start ≤ -1 := by omega
    simp [this]
  have := leak_run hc hl hne (runFuel cfg (startState cfg 0 (-1) vals).prevTime) ((0 : Int) == 0) (startState cfg 0 (-1) vals) []
    (startState_inv hc.rule_pos vals (Or.inl rfl)) hnd (fun _ => rfl)
    (by show vals.get l.key = l.val (-1); rw [hstart]; exact hinit) (by simp)
  exact ⟨this.2, this.1⟩

/-- the statement of C08 for the usual window `start < end`: on exactly for `start ≤ t < end` -/
theorem leak_window_start_lt_end {cfg : Cfg} {ls : List Leak} (hc : LeakCfg cfg ls) {l : Leak} (hl : l ∈ ls) (e : Int)
    (he : l.stop = some e) (hse : l.start < e) (h0 : 0 ≤ l.start) (vals : Vals) (hnd : NodupKeys vals)
    (hinit : vals.get l.key = 0) :
    ∀ r ∈ (runSim cfg 0 (-1) vals).2, (r.vals.get l.key = 1 ↔ (l.start ≤ r.time ∧ r.time < e)) ∧
      (r.vals.get l.key = 0 ↔ ¬ (l.start ≤ r.time ∧ r.time < e)) := by
  intro r hr
  have hne : l.stop ≠ some l.start := by rw [he]; intro h; simp only [Option.some.injEq] at h; omega
  have := (leak_window hc hl hne h0 vals hnd hinit).1 r hr
  rw [this]
  unfold Leak.val Leak.on
  rw [he]
  by_cases h1 : l.start ≤ r.time <;> by_cases h2 : r.time < e <;> simp [h1, h2] <;> omega

/-- without `end_time` the leak is on from `start` on -/
theorem leak_window_no_end {cfg : Cfg} {ls : List Leak} (hc : LeakCfg cfg ls) {l : Leak} (hl : l ∈ ls)
    (he : l.stop = none) (h0 : 0 ≤ l.start) (vals : Vals) (hnd : NodupKeys vals) (hinit : vals.get l.key = 0) :
    ∀ r ∈ (runSim cfg 0 (-1) vals).2, (r.vals.get l.key = 1 ↔ l.start ≤ r.time) ∧ (r.vals.get l.key = 0 ↔ ¬ l.start ≤ r.time) := by
  intro r hr
  have hne : l.stop ≠ some l.start := by rw [he]; simp
  have := (leak_window hc hl hne h0 vals hnd hinit).1 r hr
  rw [this]
  unfold Leak.val Leak.on
  rw [he]
  by_cases h1 : l.start ≤ r.time <;> simp [h1]

/-- `end < start`: the end control fires first (nothing to switch off), the leak is on from `start` for ever -/
theorem leak_window_end_before_start {cfg : Cfg} {ls : List Leak} (hc : LeakCfg cfg ls) {l : Leak} (hl : l ∈ ls) (e : Int)
    (he : l.stop = some e) (hes : e < l.start) (h0 : 0 ≤ l.start) (vals : Vals) (hnd : NodupKeys vals)
    (hinit : vals.get l.key = 0) :
    ∀ r ∈ (runSim cfg 0 (-1) vals).2, (r.vals.get l.key = 1 ↔ l.start ≤ r.time) := by
  intro r hr
  have hne : l.stop ≠ some l.start := by rw [he]; intro h; simp only [Option.some.injEq] at h; omega
  have := (leak_window hc hl hne h0 vals hnd hinit).1 r hr
  rw [this]
  unfold Leak.val Leak.on
  rw [he]
  by_cases h1 : l.start ≤ r.time <;> simp [h1, hes]

/-! ### the partial steps land exactly on `start` and `end` -/

/-- a pass in whose tentative window the start instant lies accepts a time not after it -/
theorem leak_start_lands {cfg : Cfg} {ls : List Leak} (hc : LeakCfg cfg ls) {l : Leak} (hl : l ∈ ls) (hne : l.stop ≠ some l.start)
    {s : St} (inv : Inv cfg s) (hnd : NodupKeys s.vals) (hv : s.vals.get l.key = l.val s.prevTime)
    (h1 : s.prevTime < l.start) (h2 : l.start ≤ s.simTime) : (presolve cfg false s).simTime ≤ l.start := by
  by_contra hgt
  have hgt : l.start < (presolve cfg false s).simTime := by omega
  -- the start control is due with backtrack cur - start
  have hdue : (⟨timeCtl (2 * l.key) 3 l.start l.key 1, .thenB, s.simTime - l.start⟩ : Due) ∈ presolveDue cfg false s := by
    unfold presolveDue
    simp only [Bool.false_eq_true, if_false]
    rw [mem_sortDue, hc.presolve_eq, mem_check_timeCtls (leakCtls_all ls)]
    exact ⟨_, _, _, _, _, leak_start_mem hl, h1, h2, rfl⟩
  have hun := pass_earliest hc.rule_pos inv (Or.inl hc.no_rules) hnd _ hdue (by simp only; omega)
  have hs : (presolveDue cfg false s).Pairwise (fun a b => b.back ≤ a.back) := by
    unfold presolveDue; simp only [Bool.false_eq_true, if_false]; exact sortDue_sorted _
  rw [takeWhile_ge_eq_filter _ _ hs] at hun
  have hcongr : (presolveDue cfg false s).filter (fun x => decide ((⟨timeCtl (2 * l.key) 3 l.start l.key 1, .thenB, s.simTime - l.start⟩ : Due).back ≤ x.back)) =
      (presolveDue cfg false s).filter (fun d => decide (s.simTime - d.back ≤ l.start)) := by
    apply List.filter_congr; intro x _; simp only [decide_eq_decide]; omega
  rw [hcongr] at hun
  have hval := leak_apply hc.distinct hl hne s.prevTime l.start s.simTime _ (applied_sorted cfg s _)
    (applied_mem hc s inv.lt _ h2) s.vals hv (le_of_lt h1)
  have hget := changed_false_get hun hnd (hnd.foldl_run _) l.key
  rw [hval, hv] at hget
  -- on at start, off before it
  have hon : l.val l.start = 1 := by
    unfold Leak.val Leak.on
    cases hst : l.stop with
    | none => simp
    | some e =>
      have : e ≠ l.start := fun h => hne (by rw [hst, h])
      rcases lt_or_gt_of_ne this with h | h <;> simp [h]
  have hoff : l.val s.prevTime = 0 := by
    unfold Leak.val Leak.on
    have : ¬ l.start ≤ s.prevTime := by omega
    simp [this]
  rw [hon, hoff] at hget
  omega

/-- a pass that starts inside the window and whose tentative window contains the end instant accepts a time not after it -/
theorem leak_stop_lands {cfg : Cfg} {ls : List Leak} (hc : LeakCfg cfg ls) {l : Leak} (hl : l ∈ ls) (e : Int)
    (he : l.stop = some e) (hse : l.start < e) {s : St} (inv : Inv cfg s) (hnd : NodupKeys s.vals)
    (hv : s.vals.get l.key = l.val s.prevTime) (h0 : l.start ≤ s.prevTime) (h1 : s.prevTime < e) (h2 : e ≤ s.simTime) :
    (presolve cfg false s).simTime ≤ e := by
  have hne : l.stop ≠ some l.start := by rw [he]; intro h; simp only [Option.some.injEq] at h; omega
  by_contra hgt
  have hgt : e < (presolve cfg false s).simTime := by omega
  have hdue : (⟨timeCtl (2 * l.key + 1) 3 e l.key 0, .thenB, s.simTime - e⟩ : Due) ∈ presolveDue cfg false s := by
    unfold presolveDue
    simp only [Bool.false_eq_true, if_false]
    rw [mem_sortDue, hc.presolve_eq, mem_check_timeCtls (leakCtls_all ls)]
    exact ⟨_, _, _, _, _, leak_stop_mem hl he, h1, h2, rfl⟩
  have hun := pass_earliest hc.rule_pos inv (Or.inl hc.no_rules) hnd _ hdue (by simp only; omega)
  have hs : (presolveDue cfg false s).Pairwise (fun a b => b.back ≤ a.back) := by
    unfold presolveDue; simp only [Bool.false_eq_true, if_false]; exact sortDue_sorted _
  rw [takeWhile_ge_eq_filter _ _ hs] at hun
  have hcongr : (presolveDue cfg false s).filter (fun x => decide ((⟨timeCtl (2 * l.key + 1) 3 e l.key 0, .thenB, s.simTime - e⟩ : Due).back ≤ x.back)) =
      (presolveDue cfg false s).filter (fun d => decide (s.simTime - d.back ≤ e)) := by
    apply List.filter_congr; intro x _; simp only [decide_eq_decide]; omega
  rw [hcongr] at hun
  have hval := leak_apply hc.distinct hl hne s.prevTime e s.simTime _ (applied_sorted cfg s _)
    (applied_mem hc s inv.lt _ h2) s.vals hv (le_of_lt h1)
  have hget := changed_false_get hun hnd (hnd.foldl_run _) l.key
  rw [hval, hv] at hget
  have hoff : l.val e = 0 := by
    unfold Leak.val Leak.on; rw [he]
    have a : ¬ e < e := lt_irrefl _
    have b : ¬ e < l.start := by omega
    simp [a, b]
  have hon : l.val s.prevTime = 1 := by
    unfold Leak.val Leak.on; rw [he]; simp [h0, h1]
  rw [hon, hoff] at hget
  omega

/-- **`leak_instants_accepted`** — with `report_timestep = 'ALL'` (every accepted time is reported): `start` is a reported
time whenever the run reaches it, and for `start < end` so is `end`; i.e. off-grid instants get their partial step, also
when the whole window lies inside one hydraulic step -/
theorem leak_instants_accepted {cfg : Cfg} {ls : List Leak} (hc : LeakCfg cfg ls) (hrep : cfg.report = 0) {l : Leak} (hl : l ∈ ls)
    (hne : l.stop ≠ some l.start) (h0 : 0 ≤ l.start) (vals : Vals) (hnd : NodupKeys vals) (hinit : vals.get l.key = 0) :
    (l.start ≤ (runSim cfg 0 (-1) vals).1.prevTime → ∃ r ∈ (runSim cfg 0 (-1) vals).2, r.time = l.start ∧ r.vals.get l.key = 1) ∧
    (∀ e, l.stop = some e → l.start < e → e ≤ (runSim cfg 0 (-1) vals).1.prevTime →
      ∃ r ∈ (runSim cfg 0 (-1) vals).2, r.time = e ∧ r.vals.get l.key = 0) := by
  have hleft : ¬ NothingLeft cfg 0 := not_nothingLeft_of_le (Or.inl rfl)
  rw [runSim_eq (-1) vals hleft]
  have hstart : l.val (-1) = 0 := by
    unfold Leak.val Leak.on
    have : ¬ l.start ≤ -1 := by omega
    simp [this]
  -- the invariant carried along the trace
  let J : St → Prop := fun s => NodupKeys s.vals ∧ s.vals.get l.key = l.val s.prevTime
  have hJ : ∀ first s, Inv cfg s → J s → (first = true → s.simTime = s.prevTime + 1) → J (stepOnce cfg first s).1 := by
    intro first s inv hj hf
    have hpre : presolve cfg first s = presolve cfg false s := by
      cases first with
      | false => rfl
      | true => exact presolve_first_eq (hf rfl)
    have hp := leak_pass hc hl hne inv hj.1 hj.2
    rw [stepOnce_fst, hpre]
    exact ⟨hj.1.presolve false, hp⟩
  have hJ0 : J (startState cfg 0 (-1) vals) := ⟨hnd, by show vals.get l.key = l.val (-1); rw [hstart]; exact hinit⟩
  have hinv0 := startState_inv hc.rule_pos vals (Or.inl rfl : StartOK 0 (-1))
  have cover := fun τ h1 h2 => runTrace_cover hc.rule_pos hc.hyd_pos J (fun s => s.simTime = s.prevTime + 1) hJ τ
    (runFuel cfg (startState cfg 0 (-1) vals).prevTime) ((0 : Int) == 0) (startState cfg 0 (-1) vals) [] hinv0 hJ0 (fun _ => rfl) h1 h2
  -- a pass entered with `first = true` is the first pass of the fresh model
  have hfirst : ∀ e : Bool × St, (e.1 = true → e = (((0 : Int) == 0), startState cfg 0 (-1) vals)) →
      presolve cfg e.1 e.2 = presolve cfg false e.2 := by
    intro e h
    cases hb : e.1 with
    | false => rfl
    | true =>
      have := h hb
      have h2 : e.2 = startState cfg 0 (-1) vals := by rw [this]
      rw [h2]; exact presolve_first_eq rfl
  constructor
  · intro hreach
    obtain ⟨e, he, hinv, hj, hp, hl', hf⟩ := cover l.start (by show (-1 : Int) < l.start; omega) hreach
    have hpre := hfirst e hf
    have hland : (presolve cfg false e.2).simTime = l.start := by
      have hle := leak_start_lands hc hl hne hinv hj.1 hj.2 hp
        (by have := (presolve_landed hc.rule_pos false hinv).le; rw [hpre] at hl'; omega)
      rw [hpre] at hl'; omega
    obtain ⟨r, hr, ht, hv⟩ := runTrace_rows hrep _ _ _ [] e he
    rw [hpre] at ht hv
    refine ⟨r, hr, by rw [ht, hland], ?_⟩
    rw [hv, leak_pass hc hl hne hinv hj.1 hj.2, hland]
    unfold Leak.val Leak.on
    cases hst : l.stop with
    | none => simp
    | some e' =>
      have : e' ≠ l.start := fun h => hne (by rw [hst, h])
      rcases lt_or_gt_of_ne this with h | h <;> simp [h]
  · intro e' hst hse hreach
    obtain ⟨e, he, hinv, hj, hp, hl', hf⟩ := cover e' (by show (-1 : Int) < e'; omega) hreach
    have hpre := hfirst e hf
    rw [hpre] at hl'
    have hcur := (presolve_landed hc.rule_pos false hinv).le
    -- the pass starts inside the window: otherwise the start instant would have stopped it earlier
    have hin : l.start ≤ e.2.prevTime := by
      by_contra hlt
      have := leak_start_lands hc hl hne hinv hj.1 hj.2 (by omega) (by omega)
      omega
    have hland : (presolve cfg false e.2).simTime = e' := by
      have := leak_stop_lands hc hl e' hst hse hinv hj.1 hj.2 hin hp (by omega)
      omega
    obtain ⟨r, hr, ht, hv⟩ := runTrace_rows hrep _ _ _ [] e he
    rw [hpre] at ht hv
    refine ⟨r, hr, by rw [ht, hland], ?_⟩
    rw [hv, leak_pass hc hl hne hinv hj.1 hj.2, hland]
    unfold Leak.val Leak.on; rw [hst]
    have a : ¬ e' < e' := lt_irrefl _
    have b : ¬ e' < l.start := by omega
    simp [a, b]

/-! ### non-vacuity and the corner cases, evaluated on the model -/

/-- two leaks on different nodes: key 0 with a window off the grid and inside ONE hydraulic step (4000 s … 5000 s),
key 1 from 0 s (served by the first step) until 7200 s; 1 h steps, report ALL -/
def cfgLeaks : Cfg :=
  { hyd := 3600, rule := 360, report := 0, duration := 10800, startClock := 0,
    presolve := leakCtls [⟨0, 4000, some 5000⟩, ⟨1, 0, some 7200⟩], rules := [] }

example : LeakCfg cfgLeaks [⟨0, 4000, some 5000⟩, ⟨1, 0, some 7200⟩] :=
  ⟨rfl, rfl, by decide, by decide, by decide⟩

/-- both instants of the window inside one step are accepted times; the two leaks do not disturb each other -/
example : (runSim cfgLeaks 0 (-1) [(0, 0), (1, 0)]).2.map (fun r => (r.time, r.vals.get 0, r.vals.get 1)) =
    [(0, 0, 1), (3600, 0, 1), (4000, 1, 1), (5000, 0, 1), (7200, 0, 0), (10800, 0, 0)] := by decide

/-- `end = start` (excluded from the theorems): both controls fire together, equal priority, the end control is
registered last and wins — the leak is never on and no partial step is inserted -/
example : (runSim { cfgLeaks with presolve := leakCtls [⟨0, 4000, some 4000⟩] } 0 (-1) [(0, 0)]).2.map (fun r => (r.time, r.vals.get 0)) =
    [(0, 0), (3600, 0), (7200, 0), (10800, 0)] := by decide

/-- `end < start`: on from `start` for ever -/
example : (runSim { cfgLeaks with presolve := leakCtls [⟨0, 4000, some 1000⟩] } 0 (-1) [(0, 0)]).2.map (fun r => (r.time, r.vals.get 0)) =
    [(0, 0), (3600, 0), (4000, 1), (7200, 1), (10800, 1)] := by decide

end Wntr.C08Window
