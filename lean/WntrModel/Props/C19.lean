/-
C19 — pipe splitting, breaking and skeletonization keep what they promise to keep.

Subject: Model/Morph.lean (M9): `_split_or_break_pipe` of wntr/morph/link.py (REPAIRED code, fixes/C19-split-no-check-valve.patch and
fixes/C19-split-at-zero-with-vertices.patch: no check valve on the new pipe, `junction_coordinates` initialised; the pinned variants,
their counterexamples and `split_pinned_eq_repaired` are in the section "the pinned code") and the three operations of
wntr/morph/skel.py plus the cycle loop of `run`.  Theorems hold for every network state, pipe, fraction, end, vertex list,
threshold, exclusion list and every sequence of skeletonization steps.

Statements that were FALSE of the code before a repair are kept as `def … : Prop` with a counterexample (and a `_partial`):
`SplitHydraulicsUnchangedCopying` (minor loss copied to both parts), `SplitStatusUnchangedCopying` (a CLOSED pipe opened by a
control: the new part has no control) — both repaired by fixes/C19-split-neutral-new-pipe.patch —, `SplitNewPipeNoCvPinned` /
`SplitTotalPinned` (repaired by e5243fc2, 619975e2).
-/
import WntrModel.Model.Morph
import WntrModel.Gen.MorphShape
import WntrModel.Lemmas.MorphSkel
import WntrModel.Lemmas.MorphGeom
import Mathlib.Tactic.Ring
import Mathlib.Tactic.Linarith
import Mathlib.Tactic.SplitIfs
import Mathlib.Algebra.Order.Field.Rat
import Mathlib.Algebra.Order.Field.Basic
import Mathlib.Tactic.FieldSimp
import Mathlib.Tactic.Positivity
import Mathlib.Tactic.NormNum
import Mathlib.Analysis.SpecialFunctions.Pow.Real

namespace Wntr.Morph

/-! ### split / break -/

theorem crossing_some (c sub : Rat) (pts : List Pt) (ls : List Rat) (x : Pt) :
    (crossing c sub pts ls (some x)).isSome = true := by
  induction ls generalizing sub pts x with
  | nil => cases pts with
    | nil => simp [crossing]
    | cons p t => cases t <;> simp [crossing]
  | cons l ls ih =>
    cases pts with
    | nil => simp [crossing]
    | cons p t =>
      cases t with
      | nil => simp [crossing]
      | cons q rest =>
        simp only [crossing]
        split_ifs
        · exact ih _ _ _
        · exact ih _ _ _

theorem geometry_some (s e : Node) (verts : List Pt) (segLens : List Rat) (f : Rat) :
    ∃ xy fv lv, geometry s e verts segLens f (some s.xy) = (some xy, fv, lv) := by
  unfold geometry
  split_ifs with h
  · exact ⟨_, _, _, rfl⟩
  · simp only []
    have := crossing_some (lsum segLens * f) 0 (s.xy :: (verts ++ [e.xy])) segLens s.xy
    obtain ⟨xy, hxy⟩ := Option.isSome_iff_exists.mp this
    rw [hxy]
    exact ⟨xy, _, _, rfl⟩


def splitResult (net : Net) (p : Pipe) (s e : Node) (pipeName newPipe : String) (newJ : List String) (atEnd : Bool)
    (f : Rat) (isBreak : Bool) (xy : Pt) (fv lv : List Pt) : Net :=
  let elev := junctionElevation s e f
  let j0 := newJ.headD ""
  let j1 := if isBreak then newJ.getD 1 "" else j0
  let old : Pipe := if atEnd then { p with b := j0, length := p.length * f, verts := fv }
                    else { p with a := j0, length := p.length * (1 - f), verts := lv }
  let new : Pipe := if atEnd then { p with name := newPipe, a := j1, b := e.name, length := p.length * (1 - f), minor := 0, initStatus := 1, status := 1, cv := false, verts := lv }
                    else { p with name := newPipe, a := s.name, b := j1, length := p.length * f, minor := 0, initStatus := 1, status := 1, cv := false, verts := fv }
  { nodes := net.nodes ++ newJ.map (fun j => newJunction j elev xy),
    pipes := (net.pipes.map fun q => if q.name == pipeName then old else q) ++ [new],
    others := net.others }

section result
variable (net : Net) (p : Pipe) (s e : Node) (pipeName newPipe : String) (newJ : List String) (atEnd : Bool)
  (f : Rat) (isBreak : Bool) (xy : Pt) (fv lv : List Pt)

/-- the part that replaces the original pipe, and the new pipe -/
def oldPart : Pipe := if atEnd then { p with b := newJ.headD "", length := p.length * f, verts := fv }
                    else { p with a := newJ.headD "", length := p.length * (1 - f), verts := lv }
def newPart : Pipe :=
  let j1 := if isBreak then newJ.getD 1 "" else newJ.headD ""
  if atEnd then { p with name := newPipe, a := j1, b := e.name, length := p.length * (1 - f), minor := 0, initStatus := 1, status := 1, cv := false, verts := lv }
  else { p with name := newPipe, a := s.name, b := j1, length := p.length * f, minor := 0, initStatus := 1, status := 1, cv := false, verts := fv }

theorem splitResult_pipes :
    (splitResult net p s e pipeName newPipe newJ atEnd f isBreak xy fv lv).pipes
      = (net.pipes.map fun q => if q.name == pipeName then oldPart p newJ atEnd f fv lv else q)
        ++ [newPart p s e newPipe newJ atEnd f isBreak fv lv] := by
  cases atEnd <;> rfl

/-- **total pipe length is kept** -/
theorem split_preserves_length :
    (oldPart p newJ atEnd f fv lv).length + (newPart p s e newPipe newJ atEnd f isBreak fv lv).length = p.length := by
  cases atEnd <;> simp [oldPart, newPart] <;> ring

/-- **the new pipe has no check valve**, no minor loss and is open (repaired code); diameter and roughness are the original's -/
theorem split_new_pipe_no_cv :
    (newPart p s e newPipe newJ atEnd f isBreak fv lv).cv = false ∧
    (newPart p s e newPipe newJ atEnd f isBreak fv lv).diam = p.diam ∧
    (newPart p s e newPipe newJ atEnd f isBreak fv lv).rough = p.rough ∧
    (newPart p s e newPipe newJ atEnd f isBreak fv lv).minor = 0 ∧
    (newPart p s e newPipe newJ atEnd f isBreak fv lv).status = 1 ∧
    (newPart p s e newPipe newJ atEnd f isBreak fv lv).initStatus = 1 ∧
    (newPart p s e newPipe newJ atEnd f isBreak fv lv).name = newPipe := by
  cases atEnd <;> simp [newPart]

/-- the minor loss coefficient of the pipe is kept in total (it stays with the original part) -/
theorem split_preserves_minor :
    (oldPart p newJ atEnd f fv lv).minor + (newPart p s e newPipe newJ atEnd f isBreak fv lv).minor = p.minor := by
  cases atEnd <;> simp [oldPart, newPart]

/-- the original pipe keeps its name, check valve, diameter, roughness, minor loss and status -/
theorem split_old_pipe_keeps :
    (oldPart p newJ atEnd f fv lv).name = p.name ∧ (oldPart p newJ atEnd f fv lv).cv = p.cv ∧
    (oldPart p newJ atEnd f fv lv).diam = p.diam ∧ (oldPart p newJ atEnd f fv lv).rough = p.rough ∧
    (oldPart p newJ atEnd f fv lv).minor = p.minor ∧ (oldPart p newJ atEnd f fv lv).status = p.status ∧
    (oldPart p newJ atEnd f fv lv).initStatus = p.initStatus := by
  cases atEnd <;> simp [oldPart]

/-- **every other element is unchanged**: all original nodes (in place), all pumps/valves, every other pipe -/
theorem split_preserves_others :
    let r := splitResult net p s e pipeName newPipe newJ atEnd f isBreak xy fv lv
    r.others = net.others ∧ r.nodes.take net.nodes.length = net.nodes ∧
    (∀ q ∈ net.pipes, q.name ≠ pipeName → q ∈ r.pipes) ∧ r.pipes.length = net.pipes.length + 1 ∧
    r.nodes.length = net.nodes.length + newJ.length := by
  refine ⟨rfl, ?_, ?_, ?_, ?_⟩
  · simp [splitResult]
  · intro q hq hne
    rw [splitResult_pipes]
    apply List.mem_append_left
    rw [List.mem_map]
    refine ⟨q, hq, ?_⟩
    have : (q.name == pipeName) = false := by simpa using hne
    simp [this]
  · rw [splitResult_pipes]; simp
  · simp [splitResult]

/-- **the new junctions**: zero-demand junctions at the interpolated elevation (the other end's elevation next to
a reservoir) and at the computed coordinates -/
theorem split_new_junctions :
    (splitResult net p s e pipeName newPipe newJ atEnd f isBreak xy fv lv).nodes.drop net.nodes.length
      = newJ.map (fun j => newJunction j (junctionElevation s e f) xy) := by
  simp [splitResult]

end result

theorem junctionElevation_interp (s e : Node) (f : Rat) (hs : s.kind ≠ .reservoir) (he : e.kind ≠ .reservoir) :
    junctionElevation s e f = (1 - f) * s.elev + f * e.elev := by
  simp [junctionElevation, hs, he]; ring

/-- without vertices the coordinates are the linear interpolation at the requested fraction -/
theorem geometry_no_vertices (s e : Node) (segLens : List Rat) (f : Rat) (init : Option Pt) :
    geometry s e [] segLens f init = (some (lerp s.xy e.xy f), [], []) := by
  simp [geometry]

theorem lerp_zero (p q : Pt) : lerp p q 0 = p := by simp [lerp]
theorem lerp_one (p q : Pt) : lerp p q 1 = q := by simp [lerp]

/-- once the running subtotal has reached the split length, every remaining vertex goes to the second pipe -/
theorem partitionVerts_all_last (start : Pt) (c sub : Rat) (vs : List Pt) (ls : List Rat)
    (hge : c ≤ sub) (hl : ∀ l ∈ ls, 0 ≤ l) (hv : ∀ v ∈ vs, v ≠ start) :
    partitionVerts start c sub vs ls = ([], vs) := by
  induction vs generalizing sub ls with
  | nil => rfl
  | cons v t ih =>
    have hl0 : 0 ≤ ls.headD 0 := by
      cases ls with
      | nil => simp
      | cons a r => simpa using hl a (List.mem_cons_self ..)
    have hlt : ∀ l ∈ ls.tail, 0 ≤ l := fun l h => hl l (List.mem_of_mem_tail h)
    have := ih (sub + ls.headD 0) ls.tail (by linarith) hlt (fun w hw => hv w (List.mem_cons_of_mem _ hw))
    simp only [partitionVerts, this]
    have hne : ¬ v = start := hv v (List.mem_cons_self ..)
    have : ¬ sub < c := not_lt.mpr hge
    simp [hne, this]

/-- **the vertices are partitioned in order**: the first pipe gets a prefix, the second the remaining suffix -/
theorem split_vertices_partition (start : Pt) (c sub : Rat) (vs : List Pt) (ls : List Rat)
    (hl : ∀ l ∈ ls, 0 ≤ l) (hv : ∀ v ∈ vs, v ≠ start) :
    ∃ k, partitionVerts start c sub vs ls = (vs.take k, vs.drop k) := by
  induction vs generalizing sub ls with
  | nil => exact ⟨0, rfl⟩
  | cons v t ih =>
    by_cases hlt : sub < c
    · have hlt' : ∀ l ∈ ls.tail, 0 ≤ l := fun l h => hl l (List.mem_of_mem_tail h)
      obtain ⟨k, hk⟩ := ih (sub + ls.headD 0) ls.tail hlt' (fun w hw => hv w (List.mem_cons_of_mem _ hw))
      refine ⟨k + 1, ?_⟩
      have hne : ¬ v = start := hv v (List.mem_cons_self ..)
      simp only [partitionVerts, hk, hne, hlt, if_true, if_false, List.take_succ_cons, List.drop_succ_cons]
    · refine ⟨0, ?_⟩
      simpa using partitionVerts_all_last start c sub (v :: t) ls (not_lt.mp hlt) hl hv

theorem split_vertices_append (start : Pt) (c sub : Rat) (vs : List Pt) (ls : List Rat)
    (hl : ∀ l ∈ ls, 0 ≤ l) (hv : ∀ v ∈ vs, v ≠ start) :
    (partitionVerts start c sub vs ls).1 ++ (partitionVerts start c sub vs ls).2 = vs := by
  obtain ⟨k, hk⟩ := split_vertices_partition start c sub vs ls hl hv
  rw [hk]; exact List.take_append_drop k vs

/-- a segment's crossing point: on that segment, at arc length exactly `c` from the start -/
theorem crossing_result (c sub : Rat) (pts : List Pt) (ls : List Rat) (cur : Option Pt) (xy : Pt)
    (h : crossing c sub pts ls cur = some xy) :
    cur = some xy ∨ ∃ (p q : Pt) (l s : Rat), s < c ∧ c ≤ s + l ∧ xy = lerp p q ((c - s) / l) := by
  induction ls generalizing sub pts cur with
  | nil => cases pts with
    | nil => left; simpa [crossing] using h
    | cons p t => cases t <;> (left; simpa [crossing] using h)
  | cons l ls ih =>
    cases pts with
    | nil => left; simpa [crossing] using h
    | cons p t =>
      cases t with
      | nil => left; simpa [crossing] using h
      | cons q rest =>
        simp only [crossing] at h
        split_ifs at h with hc
        · rcases ih _ _ _ h with h1 | h1
          · right; exact ⟨p, q, l, sub, hc.2, hc.1, (Option.some.inj h1).symm⟩
          · right; exact h1
        · exact ih _ _ _ h



/-- segments that start at or beyond the split length never match -/
theorem crossing_past (c sub : Rat) (pts : List Pt) (ls : List Rat) (cur : Option Pt)
    (hl : ∀ l ∈ ls, 0 ≤ l) (h : c ≤ sub) : crossing c sub pts ls cur = cur := by
  induction ls generalizing sub pts with
  | nil => cases pts with
    | nil => simp [crossing]
    | cons p t => cases t <;> simp [crossing]
  | cons l ls ih =>
    cases pts with
    | nil => simp [crossing]
    | cons p t =>
      cases t with
      | nil => simp [crossing]
      | cons q rest =>
        have hl0 : 0 ≤ l := hl l (List.mem_cons_self ..)
        have hn : ¬ (sub + l ≥ c ∧ c > sub) := fun hc => absurd hc.2 (not_lt.mpr h)
        simp only [crossing, hn, if_false]
        exact ih (sub + l) (q :: rest) (fun x hx => hl x (List.mem_cons_of_mem _ hx)) (by linarith)

/-- **the new junction sits at arc length `c` of the vertex polyline**: the loop of the code (last match wins) returns the
point at distance `c - sub` along the remaining polyline, for all non-negative segment lengths (zero-length segments included) -/
theorem crossing_eq_pointAt (c sub : Rat) (pts : List Pt) (ls : List Rat) (cur : Option Pt)
    (hl : ∀ l ∈ ls, 0 ≤ l) (h : sub < c) :
    crossing c sub pts ls cur = (pointAt (c - sub) pts ls).or cur := by
  induction ls generalizing sub pts with
  | nil => cases pts with
    | nil => simp [crossing, pointAt]
    | cons p t => cases t <;> simp [crossing, pointAt]
  | cons l ls ih =>
    cases pts with
    | nil => simp [crossing, pointAt]
    | cons p t =>
      cases t with
      | nil => simp [crossing, pointAt]
      | cons q rest =>
        have hl' : ∀ x ∈ ls, 0 ≤ x := fun x hx => hl x (List.mem_cons_of_mem _ hx)
        simp only [crossing, pointAt]
        by_cases hc : c ≤ sub + l
        · have h1 : (sub + l ≥ c ∧ c > sub) := ⟨hc, h⟩
          have h2 : c - sub ≤ l := by linarith
          simp only [h1, h2, and_self, if_true]
          rw [crossing_past c (sub + l) (q :: rest) ls _ hl' hc]
          rfl
        · have h1 : ¬ (sub + l ≥ c ∧ c > sub) := fun x => hc x.1
          have h2 : ¬ (c - sub ≤ l) := by intro x; apply hc; linarith
          simp only [h1, h2, if_false]
          rw [ih (sub + l) (q :: rest) hl' (by linarith)]
          have : c - (sub + l) = c - sub - l := by ring
          rw [this]

example : crossing 10 0 [(0, 0), (6, 0), (6, 8)] [6, 8] none = some (6, 4) := by decide +kernel
example : pointAt 10 [(0, 0), (6, 0), (6, 8)] [6, 8] = some (6, 4) := by decide +kernel


/-- **coordinates of the new junction of a pipe with vertices**: for `0 < f` it is the point at arc length `f · total` of the
polyline start, vertices…, end; for `f = 0` it is the initial value (the start node in the repaired code) -/
theorem split_junction_on_polyline (s e : Node) (verts : List Pt) (segLens : List Rat) (f : Rat) (init : Option Pt)
    (hv : verts ≠ []) (hl : ∀ l ∈ segLens, 0 ≤ l) :
    (geometry s e verts segLens f init).1 =
      if 0 < lsum segLens * f then (pointAt (lsum segLens * f) (s.xy :: (verts ++ [e.xy])) segLens).or init else init := by
  have hne : verts.isEmpty = false := by cases verts <;> simp_all
  unfold geometry
  simp only [hne, Bool.false_eq_true, if_false]
  split_ifs with hc
  · have := crossing_eq_pointAt (lsum segLens * f) 0 (s.xy :: (verts ++ [e.xy])) segLens init hl hc
    simpa using this
  · exact crossing_past (lsum segLens * f) 0 (s.xy :: (verts ++ [e.xy])) segLens init hl (not_lt.mp hc)

/-- **a cut at fraction 1 of a pipe with vertices puts the junction on the end node**, for every polyline of positive total
length (zero-length segments anywhere) -/
theorem pointAt_total (pts : List Pt) (ls : List Rat) (hf : fits pts ls) (hl : ∀ l ∈ ls, 0 ≤ l) (hpos : 0 < lsum ls) :
    pointAt (lsum ls) pts ls = pts.getLast? := by
  have h := pointAt_vertex pts ls ls.length hf hl (Nat.le_refl _) (by rwa [List.take_length])
  rw [List.take_length] at h
  rw [h, List.getLast?_eq_getElem?, fits_length pts ls hf]
  rfl

/-- **junction of a split at a vertex / at the end**: if the split length `f · total` equals the cumulated length of the first `k`
segments (`k = number of segments` is `f = 1`), the new junction is the `k`-th point of start, vertices…, end -/
theorem split_junction_on_vertex (s e : Node) (verts : List Pt) (segLens : List Rat) (f : Rat) (init : Option Pt) (k : Nat) (v : Pt)
    (hv : verts ≠ []) (hf : fits (s.xy :: (verts ++ [e.xy])) segLens) (hl : ∀ l ∈ segLens, 0 ≤ l)
    (hk : k ≤ segLens.length) (hc : lsum segLens * f = lsum (segLens.take k)) (hpos : 0 < lsum (segLens.take k))
    (hvk : (s.xy :: (verts ++ [e.xy]))[k]? = some v) :
    (geometry s e verts segLens f init).1 = some v := by
  rw [split_junction_on_polyline s e verts segLens f init hv hl, hc, if_pos hpos,
    pointAt_vertex _ segLens k hf hl hk hpos, hvk]
  rfl

theorem split_junction_at_one (s e : Node) (verts : List Pt) (segLens : List Rat) (init : Option Pt)
    (hv : verts ≠ []) (hf : fits (s.xy :: (verts ++ [e.xy])) segLens) (hl : ∀ l ∈ segLens, 0 ≤ l) (hpos : 0 < lsum segLens) :
    (geometry s e verts segLens 1 init).1 = some e.xy := by
  apply split_junction_on_vertex s e verts segLens 1 init segLens.length e.xy hv hf hl (Nat.le_refl _)
  · rw [List.take_length, mul_one]
  · rwa [List.take_length]
  · have hlen := fits_length _ segLens hf
    simp only [List.length_cons, List.length_append, List.length_nil, Nat.add_right_cancel_iff] at hlen
    have : (verts ++ [e.xy])[verts.length]? = some e.xy := by simp
    cases hsl : segLens.length with
    | zero => omega
    | succ n =>
      have hn : n = verts.length := by omega
      simp [hn]

/-- non-vacuity: L-shaped pipe with a repeated vertex (a zero-length segment) -/
example : fits [(0, 0), (6, 0), (6, 0), (6, 8)] [6, 0, 8] := by simp [fits]
example : pointAt (lsum [6, 0, 8]) [(0, 0), (6, 0), (6, 0), (6, 8)] [6, 0, 8] = some (6, 8) := by decide +kernel
example : pointAt (lsum ([6, 0, 8].take 1)) [(0, 0), (6, 0), (6, 0), (6, 8)] [6, 0, 8] = some (6, 0) := by decide +kernel

/-- non-vacuity: an L-shaped pipe (0,0) → (6,0) → (6,8) cut at 5/7 of its length 14 -/
example : (geometry ⟨"A", .junction, 0, (0, 0)⟩ ⟨"B", .junction, 0, (6, 8)⟩ [(6, 0)] [6, 8] (5 / 7) none).1 = some (6, 4) := by
  decide +kernel
example : (geometry ⟨"A", .junction, 0, (0, 0)⟩ ⟨"B", .junction, 0, (6, 8)⟩ [(6, 0)] [6, 8] 0 (some (0, 0))) = (some (0, 0), [], [(6, 0)]) := by
  decide +kernel
example : (geometry ⟨"A", .junction, 0, (0, 0)⟩ ⟨"B", .junction, 0, (6, 8)⟩ [(6, 0)] [6, 8] 1 (some (0, 0))) = (some (6, 8), [(6, 0)], []) := by
  decide +kernel
/-- a cut exactly at a vertex: the vertex goes to the second pipe and the junction sits on it -/
example : (geometry ⟨"A", .junction, 0, (0, 0)⟩ ⟨"B", .junction, 0, (6, 8)⟩ [(6, 0)] [6, 8] (3 / 7) none) = (some (6, 0), [], [(6, 0)]) := by
  decide +kernel
example : ∃ k, partitionVerts (0, 0) 10 6 [(6, 0), (6, 8)] [8, 3] = ([(6, 0), (6, 8)].take k, [(6, 0), (6, 8)].drop k) :=
  split_vertices_partition (0, 0) 10 6 [(6, 0), (6, 8)] [8, 3] (by decide) (by decide)
example : partitionVerts (0, 0) 10 6 [(6, 0), (6, 8)] [8, 3] = ([(6, 0)], [(6, 8)]) := by decide +kernel
example : junctionElevation ⟨"A", .junction, 10, (0, 0)⟩ ⟨"T", .tank, 30, (1, 1)⟩ (1 / 4) = 15 := by decide +kernel
example : junctionElevation ⟨"R", .reservoir, 0, (0, 0)⟩ ⟨"B", .junction, 30, (1, 1)⟩ (1 / 4) = 30 := by decide +kernel

/-! ### break vs split -/

/-- **breaking differs from splitting only in the junctions**: the break adds a second junction at the same
elevation and coordinates and hangs the new pipe on it; the original pipe's part, every length, attribute and vertex
list, and every other element are identical -/
theorem break_differs_only_in_junctions (net : Net) (p : Pipe) (s e : Node) (pipeName newPipe j0 j1 : String)
    (atEnd : Bool) (f : Rat) (xy : Pt) (fv lv : List Pt) :
    let b := splitResult net p s e pipeName newPipe [j0, j1] atEnd f true xy fv lv
    let r := splitResult net p s e pipeName newPipe [j0] atEnd f false xy fv lv
    b.others = r.others ∧
    r.nodes = net.nodes ++ [newJunction j0 (junctionElevation s e f) xy] ∧
    b.nodes = r.nodes ++ [newJunction j1 (junctionElevation s e f) xy] ∧
    oldPart p [j0, j1] atEnd f fv lv = oldPart p [j0] atEnd f fv lv ∧
    newPart p s e newPipe [j0, j1] atEnd f true fv lv
      = (if atEnd then { newPart p s e newPipe [j0] atEnd f false fv lv with a := j1 }
         else { newPart p s e newPipe [j0] atEnd f false fv lv with b := j1 }) := by
  cases atEnd <;> simp [splitResult, oldPart, newPart]


structure SplitHyp (net : Net) (pipeName newPipe : String) (newJ : List String) (f : Rat) (p : Pipe) (s e : Node) : Prop where
  hp : net.pipe? pipeName = some p
  hs : net.node? p.a = some s
  he : net.node? p.b = some e
  hf0 : 0 ≤ f
  hf1 : f ≤ 1
  hres : ¬ (s.kind = .reservoir ∧ e.kind = .reservoir)
  hj : ∀ j ∈ newJ, j ∉ net.nodeNames
  hl : newPipe ∉ net.linkNames

/-- **totality + shape**: for every fraction in [0,1] (0 and 1 included, vertices or not) the repaired
`_split_or_break_pipe` succeeds and returns exactly `splitResult` -/
theorem split_total (net : Net) (pipeName newPipe : String) (newJ : List String) (atEnd : Bool) (f : Rat)
    (segLens : List Rat) (isBreak : Bool) (p : Pipe) (s e : Node) (h : SplitHyp net pipeName newPipe newJ f p s e) :
    ∃ xy fv lv, geometry s e p.verts segLens f (some s.xy) = (some xy, fv, lv) ∧
      splitOrBreak net pipeName newPipe newJ atEnd f segLens isBreak
        = .ok (splitResult net p s e pipeName newPipe newJ atEnd f isBreak xy fv lv) := by
  obtain ⟨xy, fv, lv, hg⟩ := geometry_some s e p.verts segLens f
  refine ⟨xy, fv, lv, hg, ?_⟩
  have hfr : ¬ (f < 0 ∨ f > 1) := by
    rintro (h1 | h1)
    · exact absurd h.hf0 (not_le.mpr h1)
    · exact absurd h.hf1 (not_le.mpr h1)
  have hj : (newJ.any fun j => net.nodeNames.contains j) = false := by
    rw [List.any_eq_false]
    intro j hj'
    simpa using h.hj j hj'
  have hl : net.linkNames.contains newPipe = false := by simpa using h.hl
  unfold splitOrBreak splitCore
  simp only [h.hp, hfr, hj, hl, h.hs, h.he, h.hres, if_false, if_true, hg, Bool.false_eq_true]
  cases atEnd <;> simp [splitResult, codeSplitShape_newPipe, codeSplitShape_endOldLen, codeSplitShape_endNewLen, codeSplitShape_startOldLen, codeSplitShape_startNewLen, codeSplitShape_endOldVerts, codeSplitShape_endNewVerts, codeSplitShape_startOldVerts, codeSplitShape_startNewVerts, Src.rat, Src.nat, Src.bool, LenSrc.eval, VertSrc.eval]


/-! ### hydraulics of a split -/

/-- Hazen-Williams resistance coefficient `10.667 · C^-1.852 · d^-4.871 · L` with the diameter/roughness factor `k` abstract -/
def hwResistance (k L : Rat) : Rat := k * L

/-- **series head loss is additive**: the two parts carry the same flow (the new junction has no demand) and their
H-W resistances add up to the original's, for every flow law `φ(q)` (= `sgn q·|q|^1.852`) -/
theorem series_headloss_additive (k L f φ : Rat) :
    hwResistance k (L * f) * φ + hwResistance k (L * (1 - f)) * φ = hwResistance k L * φ := by
  unfold hwResistance; ring

/-- head loss across the original pipe and across its two parts (minor loss coefficients `K₀` on the original part, `K₁` on the new
part) at the same flow -/
def headlossBefore (k L m K φ q : Rat) : Rat := hwResistance k L * φ + m * K * q ^ 2
def headlossAfter (k L f m K₀ K₁ φ q : Rat) : Rat :=
  (hwResistance k (L * f) * φ + m * K₀ * q ^ 2) + (hwResistance k (L * (1 - f)) * φ + m * K₁ * q ^ 2)

/-- **splitting leaves the head loss of the pipe unchanged** (repaired code: the minor loss stays with the original part, the new
part has none), for every resistance factor, length, fraction, minor loss, flow law value and flow -/
theorem split_hydraulics_unchanged (k L f m K φ q : Rat) : headlossAfter k L f m K 0 φ q = headlossBefore k L m K φ q := by
  unfold headlossAfter headlossBefore hwResistance; ring

example : headlossAfter 2 100 (1 / 4) 3 5 0 5 7 = headlossBefore 2 100 3 5 5 7 := by norm_num [headlossAfter, headlossBefore, hwResistance]

/-- the statement for the code BEFORE fixes/C19-split-neutral-new-pipe.patch, which copies `K` to both parts -/
def SplitHydraulicsUnchangedCopying : Prop :=
  ∀ k L f m K φ q : Rat, 0 ≤ f → f ≤ 1 → 0 < m → headlossAfter k L f m K K φ q = headlossBefore k L m K φ q

/-- FALSE: a pipe with a minor loss coefficient loses twice the minor head after such a split -/
theorem split_hydraulics_unchanged_copying_counterexample : ¬ SplitHydraulicsUnchangedCopying := by
  intro h
  have := h 1 1 (1 / 2) 1 1 1 1 (by norm_num) (by norm_num) (by norm_num)
  norm_num [headlossAfter, headlossBefore, hwResistance] at this

theorem split_hydraulics_unchanged_copying_partial (k L f m φ q : Rat) :
    headlossAfter k L f m 0 0 φ q = headlossBefore k L m 0 φ q := by
  unfold headlossAfter headlossBefore hwResistance; ring

/-! #### status of the two parts under controls

"No controls are added to the new pipe; the original pipe keeps any controls": the original part follows the control schedule
`ctl t`, the new part keeps the status it was created with; water passes the series iff both parts are open. -/

def seriesOpen (oldOpen newOpen : Bool) : Bool := oldOpen && newOpen

/-- **the split pipe is open exactly when the unsplit pipe would be** (repaired code: the new part is created OPEN), for every
initial status and control schedule -/
theorem split_status_unchanged (ctl : Nat → Bool) (t : Nat) : seriesOpen (ctl t) true = ctl t := by
  simp [seriesOpen]

example : seriesOpen ((fun t => decide (1 ≤ t)) 1) true = true := by decide

/-- the statement for the code before the patch, where the new part copies the initial status `init` -/
def SplitStatusUnchangedCopying : Prop := ∀ (init : Bool) (ctl : Nat → Bool) (t : Nat), seriesOpen (ctl t) init = ctl t

/-- FALSE: an initially CLOSED pipe that a control opens at `t = 1` stays blocked by its new, control-less, closed part -/
theorem split_status_unchanged_copying_counterexample : ¬ SplitStatusUnchangedCopying := by
  intro h
  have := h false (fun t => decide (1 ≤ t)) 1
  revert this; decide

/-! ### the pinned code -/

/-- `_split_or_break_pipe` AS PINNED: `junction_coordinates` unbound before the loop, `pipe.check_valve` passed on -/
def splitPinned := splitCore false { codeSplitShape with newPipe := { codeSplitShape.newPipe with cv := .orig } }

def demoNet (cv : Bool) (verts : List Pt) : Net :=
  { nodes := [⟨"A", .junction, 10, (0, 0)⟩, ⟨"B", .junction, 20, (10, 0)⟩],
    pipes := [{ name := "P", a := "A", b := "B", length := 100, diam := 1, rough := 100, minor := 0, initStatus := 1, status := 1, cv := cv, verts := verts }],
    others := [] }

def isOk : Except Err Net → Bool
  | .ok _ => true
  | .error _ => false

/-- "the pipe called `np` of the result has no check valve" (vacuous when the call raised) -/
def newPipeCvFree (r : Except Err Net) (np : String) : Bool :=
  match r with
  | .ok r => r.pipes.all (fun q => q.name != np || !q.cv)
  | .error _ => true

def SplitNewPipeNoCvPinned : Prop :=
  ∀ (net : Net) (pn np : String) (nj : List String) (atEnd : Bool) (f : Rat) (sl : List Rat),
    newPipeCvFree (splitPinned net pn np nj atEnd f sl false) np = true

/-- a check-valve pipe split in the middle: the new pipe has a check valve too -/
theorem split_new_pipe_no_cv_pinned_counterexample : ¬ SplitNewPipeNoCvPinned := by
  intro h
  have := h (demoNet true []) "P" "N" ["J"] true (1 / 2) []
  revert this; decide +kernel

/-- the pinned code is right when the split pipe has no check valve (any fraction) -/
theorem split_new_pipe_no_cv_pinned_partial (f : Rat) (sl : List Rat) (hf0 : 0 ≤ f) (hf1 : f ≤ 1) :
    newPipeCvFree (splitPinned (demoNet false []) "P" "N" ["J"] true f sl false) "N" = true := by
  have hfr : ¬ (f < 0 ∨ f > 1) := by
    rintro (h1 | h1)
    · exact absurd hf0 (not_le.mpr h1)
    · exact absurd hf1 (not_le.mpr h1)
  simp [splitPinned, splitCore, demoNet, Net.pipe?, hfr, Net.nodeNames, Net.linkNames, Net.node?, geometry, newPipeCvFree, codeSplitShape_newPipe, Src.bool]

def SplitTotalPinned : Prop :=
  ∀ (f : Rat) (verts : List Pt) (sl : List Rat), 0 ≤ f → f ≤ 1 →
    isOk (splitPinned (demoNet false verts) "P" "N" ["J"] true f sl false) = true

/-- `f = 0` on a pipe with a vertex: no segment satisfies `subtotal + length ≥ 0 > subtotal` → UnboundLocalError -/
theorem split_total_pinned_counterexample : ¬ SplitTotalPinned := by
  intro h
  have := h 0 [(5, 5)] [7, 7] (by decide) (by decide)
  revert this; decide +kernel

example : splitPinned (demoNet false [(5, 5)]) "P" "N" ["J"] true 0 [7, 7] false = .error .unbound := by decide +kernel
example : isOk (splitOrBreak (demoNet false [(5, 5)]) "P" "N" ["J"] true 0 [7, 7] false) = true := by decide +kernel

/-- the pinned code is total for pipes without vertices -/
theorem split_total_pinned_partial (f : Rat) (sl : List Rat) (hf0 : 0 ≤ f) (hf1 : f ≤ 1) :
    isOk (splitPinned (demoNet false []) "P" "N" ["J"] true f sl false) = true := by
  have hfr : ¬ (f < 0 ∨ f > 1) := by
    rintro (h1 | h1)
    · exact absurd hf0 (not_le.mpr h1)
    · exact absurd hf1 (not_le.mpr h1)
  simp [splitPinned, splitCore, demoNet, Net.pipe?, hfr, Net.nodeNames, Net.linkNames, Net.node?, geometry, isOk]


/-- the pinned code and the repaired code agree on EVERY network whenever the split pipe has neither a check valve nor vertices
(the two `_partial` statements at full generality) -/
theorem split_pinned_eq_repaired (net : Net) (pn np : String) (nj : List String) (atEnd : Bool) (f : Rat) (sl : List Rat) (isBreak : Bool)
    (p : Pipe) (hp : net.pipe? pn = some p) (hcv : p.cv = false) (hv : p.verts = []) :
    splitPinned net pn np nj atEnd f sl isBreak = splitOrBreak net pn np nj atEnd f sl isBreak := by
  unfold splitPinned splitOrBreak splitCore
  simp only [hp, hcv, geometry, hv, List.isEmpty_nil, if_true, codeSplitShape_newPipe, Src.bool]

example : splitPinned (demoNet false []) "P" "N" ["J"] false (1 / 4) [] true = splitOrBreak (demoNet false []) "P" "N" ["J"] false (1 / 4) [] true :=
  split_pinned_eq_repaired _ _ _ _ _ _ _ _
    { name := "P", a := "A", b := "B", length := 100, diam := 1, rough := 100, minor := 0, initStatus := 1, status := 1, cv := false, verts := [] }
    (by decide +kernel) rfl rfl

/-! ### skeletonization -/

/-- what skeletonization promises to keep, relative to the model it started from -/
structure SkelInv (orig s : Skel) : Prop where
  jex : s.jExcl = orig.jExcl
  pex : s.pExcl = orig.pExcl
  onodup : (names orig.nodes).Nodup
  nodup : (names s.nodes).Nodup
  sub : ∀ x ∈ names s.nodes, x ∈ names orig.nodes
  /-- (ii) the demand entries of the whole network are a permutation of the original ones -/
  dem : (allDemands s.nodes).Perm (allDemands orig.nodes)
  keys : keys s.map = names orig.nodes
  /-- (iii) the lists of the skeleton map partition the original node set … -/
  part : (flat s.map).Perm (names orig.nodes)
  /-- … and only retained nodes have a non-empty list -/
  live : ∀ kl ∈ s.map, kl.2 ≠ [] → kl.1 ∈ names s.nodes
  /-- (i) tanks, reservoirs and control-referenced / excluded junctions are retained -/
  keepN : ∀ n ∈ orig.nodes, (n.kind ≠ .junction ∨ orig.jExcl.contains n.name = true) →
            ∃ m ∈ s.nodes, m.name = n.name ∧ m.kind = n.kind
  /-- (i) pumps, valves and control-referenced / excluded pipes are retained unchanged -/
  keepL : ∀ l ∈ orig.links, (l.isPipe = false ∨ orig.pExcl.contains l.name = true) → l ∈ s.links
  lnodup : (s.links.map (·.name)).Nodup

theorem flat_init (ns : List SNode) : flat (ns.map fun n => (n.name, [n.name])) = names ns := by
  induction ns with
  | nil => rfl
  | cons n t ih =>
    simp only [flat, names, List.map_cons, List.flatMap_cons] at ih ⊢
    rw [ih]; rfl

theorem skelInv_init (nodes : List SNode) (links : List SLink) (jx px : List String) (hn : (names nodes).Nodup)
    (hl : (links.map (·.name)).Nodup) :
    SkelInv (Skel.init nodes links jx px) (Skel.init nodes links jx px) where
  jex := rfl
  pex := rfl
  onodup := hn
  nodup := hn
  sub := fun _ h => h
  dem := List.Perm.refl _
  keys := by simp [Skel.init, keys, names, List.map_map]
  part := by
    have := flat_init nodes
    simp only [Skel.init]; rw [this]
  live := by
    intro kl hkl _
    simp only [Skel.init, List.mem_map] at hkl
    obtain ⟨n, hn', rfl⟩ := hkl
    exact List.mem_map_of_mem hn'
  keepN := fun n hn' _ => ⟨n, hn', rfl, rfl⟩
  keepL := fun _ hl _ => hl
  lnodup := hl

/-- the common effect of `branch_trim` and `series_pipe_merge`: junction `j` (not excluded) is absorbed by the retained
node `c`, some removable pipes disappear, possibly one merged pipe is added -/
theorem skelInv_absorb (orig s : Skel) (inv : SkelInv orig s) (j c : String) (nj : SNode) (links' : List SLink)
    (hf : s.node? j = some nj) (hk : nj.kind = .junction) (hx : s.jExcl.contains j = false)
    (hc : c ∈ names s.nodes) (hjc : c ≠ j)
    (hl : ∀ l ∈ s.links, (l.isPipe = false ∨ s.pExcl.contains l.name = true) → l ∈ links')
    (hln : (links'.map (·.name)).Nodup) :
    SkelInv orig { s with nodes := absorbNode s.nodes j c nj.demands, links := links', map := mapMerge s.map j c } where
  jex := inv.jex
  pex := inv.pex
  onodup := inv.onodup
  nodup := by
    show (names (absorbNode s.nodes j c nj.demands)).Nodup
    rw [names_absorb]; exact (List.filter_sublist).nodup inv.nodup
  sub := by
    intro x hx'
    have : x ∈ names (absorbNode s.nodes j c nj.demands) := hx'
    rw [names_absorb] at this
    exact inv.sub x (List.mem_filter.mp this).1
  dem := (demands_absorb s.nodes j c nj inv.nodup hf hc hjc).trans inv.dem
  keys := by
    show keys (mapMerge s.map j c) = _
    rw [keys_mapMerge]; exact inv.keys
  part := by
    have hck : c ∈ keys s.map := by rw [inv.keys]; exact inv.sub c hc
    have hnk : (keys s.map).Nodup := by rw [inv.keys]; exact inv.onodup
    exact (flat_mapMerge s.map j c hnk hck hjc).trans inv.part
  live := by
    intro kl hkl hne
    show kl.1 ∈ names (absorbNode s.nodes j c nj.demands)
    rw [names_absorb]
    have hkl' : kl ∈ mapMerge s.map j c := hkl
    unfold mapMerge at hkl'
    obtain ⟨⟨k, l⟩, hm, he⟩ := List.mem_map.mp hkl'
    simp only at he
    by_cases h1 : k = j
    · have hb : (k == j) = true := by simpa using h1
      rw [if_pos hb] at he
      subst he
      exact absurd rfl hne
    · have hb : (k == j) = false := by simpa using h1
      rw [if_neg (by simp [hb])] at he
      by_cases h2 : k = c
      · have hb2 : (k == c) = true := by simpa using h2
        rw [if_pos hb2] at he
        subst he
        exact List.mem_filter.mpr ⟨h2 ▸ hc, by simpa using (h2 ▸ hjc)⟩
      · have hb2 : (k == c) = false := by simpa using h2
        rw [if_neg (by simp [hb2])] at he
        subst he
        exact List.mem_filter.mpr ⟨inv.live (k, l) hm hne, by simpa using h1⟩
  keepN := by
    intro n hn hcond
    obtain ⟨m, hm, hmn, hmk⟩ := inv.keepN n hn hcond
    obtain ⟨hnj_mem, hnj_name⟩ := find_name hf
    have hmj : m.name ≠ j := by
      intro e
      have : m = nj := name_unique s.nodes inv.nodup m nj hm hnj_mem (e.trans hnj_name.symm)
      rcases hcond with h | h
      · exact h (hmk ▸ this ▸ hk)
      · rw [← inv.jex, ← hmn, e, hx] at h
        exact absurd h (by decide)
    refine ⟨addDem c nj.demands m, ?_, ?_, ?_⟩
    · show addDem c nj.demands m ∈ absorbNode s.nodes j c nj.demands
      rw [absorbNode_eq]
      exact List.mem_map_of_mem (List.mem_filter.mpr ⟨hm, by simpa using hmj⟩)
    · rw [addDem_name]; exact hmn
    · rw [addDem_kind]; exact hmk
  keepL := by
    intro l hl' hcond
    apply hl l (inv.keepL l hl' hcond)
    rw [inv.pex]; exact hcond
  lnodup := hln

theorem link_unique (ls : List SLink) (hn : (ls.map (·.name)).Nodup) (a b : SLink) (ha : a ∈ ls) (hb : b ∈ ls)
    (h : a.name = b.name) : a = b := by
  induction ls with
  | nil => simp at ha
  | cons x t ih =>
    have hnd : x.name ∉ t.map (·.name) ∧ (t.map (·.name)).Nodup := by simpa using hn
    rcases List.mem_cons.mp ha with ha' | ha' <;> rcases List.mem_cons.mp hb with hb' | hb'
    · rw [ha', hb']
    · subst ha'; exact absurd (h ▸ List.mem_map_of_mem hb' : a.name ∈ t.map (·.name)) hnd.1
    · subst hb'; exact absurd (h ▸ List.mem_map_of_mem ha' : b.name ∈ t.map (·.name)) hnd.1
    · exact ih hnd.2 ha' hb'

/-- a link that must be kept never has the name of a removable pipe -/
theorem required_ne (orig s : Skel) (inv : SkelInv orig s) (thr : Rat) (l p : SLink) (hl : l ∈ s.links) (hp : p ∈ s.links)
    (hr : removable s p thr = true) (hreq : l.isPipe = false ∨ s.pExcl.contains l.name = true) : l.name ≠ p.name := by
  intro e
  simp only [removable, Bool.and_eq_true, Bool.not_eq_true', decide_eq_true_eq] at hr
  rcases hreq with h | h
  · have : l = p := link_unique s.links inv.lnodup l p hl hp e
    rw [this, hr.1.1] at h
    exact absurd h (by decide)
  · rw [e, hr.2] at h
    exact absurd h (by decide)

theorem guard_split (k : NodeKind) (b : Bool) (h : ¬ (k ≠ .junction ∨ b = true)) : k = .junction ∧ b = false := by
  constructor
  · exact Decidable.byContradiction fun h' => h (Or.inl h')
  · cases b with
    | false => rfl
    | true => exact absurd (Or.inr rfl) h

theorem between_mem (s : Skel) (j n : String) (p : SLink) (h : p ∈ s.between j n) : p ∈ s.links := by
  unfold Skel.between Skel.incident at h
  exact (List.mem_filter.mp (List.mem_filter.mp h).1).1

theorem names_filter_nodup (links : List SLink) (q : SLink → Bool) (h : (links.map (·.name)).Nodup) :
    ((links.filter q).map (·.name)).Nodup := (List.Sublist.map _ List.filter_sublist).nodup h

/-- **`branch_trim` keeps the invariant** (whatever the junction and the threshold) -/
theorem skelInv_branchTrim (orig s : Skel) (inv : SkelInv orig s) (j : String) (thr : Rat) :
    SkelInv orig (branchTrim s j thr) := by
  unfold branchTrim
  split
  · exact inv
  · rename_i nj hnj
    split_ifs with hg
    · exact inv
    · split
      · rename_i c hnb
        split
        · rename_i p nc hbt hnc
          split_ifs with hg2
          · have hg' := guard_split _ _ hg
            have hp : p ∈ s.links := between_mem s j c p (by rw [hbt]; exact List.mem_cons_self ..)
            have hcn : c ∈ names s.nodes := by
              obtain ⟨h1, h2⟩ := find_name hnc
              exact h2 ▸ List.mem_map_of_mem h1
            apply skelInv_absorb orig s inv j c nj _ hnj hg'.1 hg'.2 hcn hg2.2.1
            · intro l hl hreq
              exact List.mem_filter.mpr ⟨hl, by simpa using required_ne orig s inv thr l p hl hp hg2.2.2 hreq⟩
            · exact names_filter_nodup _ _ inv.lnodup
          · exact inv
        · exact inv
      · exact inv


theorem dominant_name (p0 p1 : SLink) : (dominant p0 p1).name = p0.name ∨ (dominant p0 p1).name = p1.name := by
  unfold dominant; split
  · exact Or.inl rfl
  · exact Or.inr rfl

/-- removing the two pipes (by name) and appending one pipe named like one of them keeps link names unique and keeps
every link that must be kept -/
theorem links_merge_ok (orig s : Skel) (inv : SkelInv orig s) (thr : Rat) (p0 p1 merged : SLink)
    (h0 : p0 ∈ s.links) (h1 : p1 ∈ s.links) (r0 : removable s p0 thr = true) (r1 : removable s p1 thr = true)
    (hm : merged.name = p0.name ∨ merged.name = p1.name) :
    (∀ l ∈ s.links, (l.isPipe = false ∨ s.pExcl.contains l.name = true) →
        l ∈ (s.links.filter (fun l => l.name != p0.name && l.name != p1.name)) ++ [merged]) ∧
    (((s.links.filter (fun l => l.name != p0.name && l.name != p1.name)) ++ [merged]).map (·.name)).Nodup := by
  constructor
  · intro l hl hreq
    apply List.mem_append_left
    refine List.mem_filter.mpr ⟨hl, ?_⟩
    have a := required_ne orig s inv thr l p0 hl h0 r0 hreq
    have b := required_ne orig s inv thr l p1 hl h1 r1 hreq
    simp [a, b]
  · rw [List.map_append, List.nodup_append]
    refine ⟨names_filter_nodup _ _ inv.lnodup, by simp, ?_⟩
    intro x hx y hy
    simp only [List.map_cons, List.map_nil, List.mem_singleton] at hy
    subst hy
    obtain ⟨l, hl, rfl⟩ := List.mem_map.mp hx
    have := (List.mem_filter.mp hl).2
    simp only [Bool.and_eq_true, bne_iff_ne, ne_eq] at this
    rcases hm with e | e
    · rw [e]; exact this.1
    · rw [e]; exact this.2

/-- **`series_pipe_merge` keeps the invariant** -/
theorem skelInv_seriesMerge (orig s : Skel) (inv : SkelInv orig s) (j n0 n1 : String) (thr : Rat) :
    SkelInv orig (seriesMerge s j n0 n1 thr) := by
  unfold seriesMerge
  split
  · exact inv
  · rename_i nj hnj
    split_ifs with hg hg2
    · exact inv
    · exact inv
    · split
      · rename_i p0 p1 m0 m1 hb0 hb1 hm0 hm1
        split_ifs with hr'
        rotate_left
        · exact inv
        · split
          · exact inv
          · rename_i c hcl
            have hg' := guard_split _ _ hg
            have hn0 : n0 ∈ names s.nodes := by
              obtain ⟨h1, h2⟩ := find_name hm0; exact h2 ▸ List.mem_map_of_mem h1
            have hn1 : n1 ∈ names s.nodes := by
              obtain ⟨h1, h2⟩ := find_name hm1; exact h2 ▸ List.mem_map_of_mem h1
            have hne : n0 ≠ j ∧ n1 ≠ j := by
              constructor
              · intro e; exact hg2 (Or.inr (Or.inl e))
              · intro e; exact hg2 (Or.inr (Or.inr (Or.inl e)))
            have hc : c = n0 ∨ c = n1 := by
              unfold closestOf at hcl
              split_ifs at hcl <;> simp_all
            have hcn : c ∈ names s.nodes := by rcases hc with e | e <;> (rw [e]; assumption)
            have hcj : c ≠ j := by rcases hc with e | e <;> (rw [e]; first | exact hne.1 | exact hne.2)
            have hp0 : p0 ∈ s.links := between_mem s j n0 p0 (by rw [hb0]; exact List.mem_cons_self ..)
            have hp1 : p1 ∈ s.links := between_mem s j n1 p1 (by rw [hb1]; exact List.mem_cons_self ..)
            obtain ⟨k1, k2⟩ := links_merge_ok orig s inv thr p0 p1
              { name := (dominant p0 p1).name, a := n0, b := n1, isPipe := true, diam := (dominant p0 p1).diam, length := p0.length + p1.length,
                minor := (dominant p0 p1).minor, status := (dominant p0 p1).status, cv := false }
              hp0 hp1 hr'.1 hr'.2 (dominant_name p0 p1)
            exact skelInv_absorb orig s inv j c nj _ hnj hg'.1 hg'.2 hcn hcj k1 k2
      · exact inv

/-- **`parallel_pipe_merge` keeps the invariant** -/
theorem skelInv_parallelMerge (orig s : Skel) (inv : SkelInv orig s) (j n p0n p1n : String) (thr : Rat) :
    SkelInv orig (parallelMerge s j n p0n p1n thr) := by
  unfold parallelMerge
  split_ifs with hg
  · exact inv
  · split
    · rename_i p0 p1 hf0 hf1
      split_ifs with hr'
      rotate_left
      · exact inv
      · have hp0 : p0 ∈ s.links := between_mem s j n p0 (List.mem_of_find?_eq_some hf0)
        have hp1 : p1 ∈ s.links := between_mem s j n p1 (List.mem_of_find?_eq_some hf1)
        obtain ⟨k1, k2⟩ := links_merge_ok orig s inv thr p0 p1 { dominant p0 p1 with isPipe := true, cv := false }
          hp0 hp1 hr'.1 hr'.2 (dominant_name p0 p1)
        exact { inv with
          keepL := fun l hl hc => k1 l (inv.keepL l hl hc) (by rw [inv.pex]; exact hc)
          lnodup := k2 }
    · exact inv

/-- **skeleton_invariants**: after ANY sequence of branch-trim / series-merge / parallel-merge steps (any junctions,
any threshold, any exclusion lists) the invariant holds -/
theorem skeleton_invariants (nodes : List SNode) (links : List SLink) (jx px : List String) (thr : Rat)
    (hn : (names nodes).Nodup) (hl : (links.map (·.name)).Nodup) (ops : List SkelOp) :
    SkelInv (Skel.init nodes links jx px) (Skel.run thr (Skel.init nodes links jx px) ops) := by
  suffices h : ∀ s, SkelInv (Skel.init nodes links jx px) s → SkelInv (Skel.init nodes links jx px) (Skel.run thr s ops) from
    h _ (skelInv_init nodes links jx px hn hl)
  induction ops with
  | nil => intro s hs; exact hs
  | cons op t ih =>
    intro s hs
    have : Skel.run thr s (op :: t) = Skel.run thr (Skel.step thr s op) t := rfl
    rw [this]
    apply ih
    cases op with
    | trim j => exact skelInv_branchTrim _ s hs j thr
    | series j n0 n1 => exact skelInv_seriesMerge _ s hs j n0 n1 thr
    | parallel j n p0 p1 => exact skelInv_parallelMerge _ s hs j n p0 p1 thr


/-! ### consequences in the words of the property -/

def dsum (v : Dem → Rat) : List Dem → Rat
  | [] => 0
  | d :: t => v d + dsum v t

theorem dsum_perm (v : Dem → Rat) {a b : List Dem} (h : a.Perm b) : dsum v a = dsum v b := by
  induction h with
  | nil => rfl
  | cons x _ ih => simp only [dsum, ih]
  | swap x y l => simp only [dsum]; ring
  | trans _ _ ih1 ih2 => exact ih1.trans ih2

/-- **total demand is conserved at every time**: for every valuation of the demand entries (base × pattern value at
any time × multiplier), the network total after any sequence of steps equals the original total -/
theorem skeleton_total_demand_conserved (nodes : List SNode) (links : List SLink) (jx px : List String) (thr : Rat)
    (hn : (names nodes).Nodup) (hl : (links.map (·.name)).Nodup) (ops : List SkelOp) (v : Dem → Rat) :
    dsum v (allDemands (Skel.run thr (Skel.init nodes links jx px) ops).nodes) = dsum v (allDemands nodes) :=
  dsum_perm v (skeleton_invariants nodes links jx px thr hn hl ops).dem

/-- **every original node appears in exactly one list of the map, and that list belongs to a retained node** -/
theorem skeleton_map_partition (nodes : List SNode) (links : List SLink) (jx px : List String) (thr : Rat)
    (hn : (names nodes).Nodup) (hl : (links.map (·.name)).Nodup) (ops : List SkelOp) :
    let s := Skel.run thr (Skel.init nodes links jx px) ops
    (flat s.map).Nodup ∧ (∀ x, x ∈ flat s.map ↔ x ∈ names nodes) ∧
      (∀ kl ∈ s.map, ∀ x ∈ kl.2, kl.1 ∈ names s.nodes) := by
  have inv := skeleton_invariants nodes links jx px thr hn hl ops
  refine ⟨(inv.part.nodup_iff).mpr hn, fun x => inv.part.mem_iff, ?_⟩
  intro kl hkl x hx
  exact inv.live kl hkl (fun e => by rw [e] at hx; simp at hx)

/-- **tanks, reservoirs, pumps, valves and control-referenced / excluded elements are retained** -/
theorem skeleton_retains (nodes : List SNode) (links : List SLink) (jx px : List String) (thr : Rat)
    (hn : (names nodes).Nodup) (hl : (links.map (·.name)).Nodup) (ops : List SkelOp) :
    let s := Skel.run thr (Skel.init nodes links jx px) ops
    (∀ n ∈ nodes, (n.kind ≠ .junction ∨ jx.contains n.name = true) → ∃ m ∈ s.nodes, m.name = n.name ∧ m.kind = n.kind) ∧
    (∀ l ∈ links, (l.isPipe = false ∨ px.contains l.name = true) → l ∈ s.links) := by
  have inv := skeleton_invariants nodes links jx px thr hn hl ops
  exact ⟨inv.keepN, inv.keepL⟩

/-- non-vacuity: J2 hangs on J1 by a small pipe and is trimmed; tank T and the pump stay; demands move to J1 -/
def demoSkel : Skel := Skel.init
  [⟨"R", .reservoir, []⟩, ⟨"J1", .junction, [⟨1, "", ""⟩]⟩, ⟨"J2", .junction, [⟨2, "P", "A"⟩]⟩, ⟨"T", .tank, []⟩]
  [⟨"PU", "R", "J1", false, 0, 0, 0, 1, false⟩, ⟨"P1", "J1", "J2", true, 1 / 10, 50, 0, 1, false⟩, ⟨"P2", "J1", "T", true, 1 / 10, 70, 0, 1, true⟩] [] []

example : (Skel.run (1 / 5) demoSkel [.trim "J2", .trim "J1"]).nodes.map (·.name) = ["R", "J1", "T"] := by decide +kernel
example : mapGet (Skel.run (1 / 5) demoSkel [.trim "J2"]).map "J1" = ["J1", "J2"] := by decide +kernel
example : skelOracle demoSkel (Skel.run (1 / 5) demoSkel [.trim "J2", .series "J1" "R" "T"]) = "ok" := by decide +kernel

/-! ### merged pipes of the skeletonizer: what `_series_merge_properties` / `_parallel_merge_properties` preserve -/

section merge
variable {R : Type} [Field R] [LinearOrder R] [IsStrictOrderedRing R]

/-- the laws of `x ↦ x ^ a` on positive numbers that the formulas rely on (true of `Real.rpow`) -/
structure PowLaws (pw : R → R → R) : Prop where
  pos : ∀ x a, 0 < x → 0 < pw x a
  mul : ∀ x y a, 0 < x → 0 < y → pw (x * y) a = pw x a * pw y a
  pow : ∀ x a b, 0 < x → pw (pw x a) b = pw x (a * b)
  one : ∀ x, 0 < x → pw x 1 = x
  neg : ∀ x a, 0 < x → pw x (-a) = (pw x a)⁻¹

/-- Hazen-Williams resistance in the exponents of the series formula: head loss `h = κ · hwRes · φ(q)` -/
def hwRes (pw : R → R → R) (x : MergeExp R) (L D C : R) : R := L / (pw D x.a * pw C x.b)

/-- Hazen-Williams conductance in the exponents of the parallel formula: flow `q = κ' · hwCond · ψ(h)` -/
def hwCond (pw : R → R → R) (x : MergeExp R) (L D C : R) : R := C * pw D x.c / pw L x.e

variable (pw : R → R → R) (x : MergeExp R) (L0 D0 C0 L1 D1 C1 D : R)

/-- what the series formula really yields, for ANY exponents: with `t = e·b`, `A = L/D^a`, `S = r₀ + r₁`, the merged
resistance is `A^(1-t)·S^t` written as `A · S^t / A^t` -/
theorem series_merge_resistance_general (h : PowLaws pw)
    (hL0 : 0 < L0) (hD0 : 0 < D0) (hC0 : 0 < C0) (hL1 : 0 < L1) (hD1 : 0 < D1) (hC1 : 0 < C1) (hD : 0 < D) :
    hwRes pw x (L0 + L1) D (seriesRough pw x L0 D0 C0 L1 D1 C1 D)
      = ((L0 + L1) / pw D x.a) * pw (hwRes pw x L0 D0 C0 + hwRes pw x L1 D1 C1) (x.e * x.b) / pw ((L0 + L1) / pw D x.a) (x.e * x.b) := by
  have hA : 0 < (L0 + L1) / pw D x.a := div_pos (by linarith) (h.pos _ _ hD)
  have hr0 : 0 < L0 / (pw D0 x.a * pw C0 x.b) := div_pos hL0 (mul_pos (h.pos _ _ hD0) (h.pos _ _ hC0))
  have hr1 : 0 < L1 / (pw D1 x.a * pw C1 x.b) := div_pos hL1 (mul_pos (h.pos _ _ hD1) (h.pos _ _ hC1))
  have hS : 0 < L0 / (pw D0 x.a * pw C0 x.b) + L1 / (pw D1 x.a * pw C1 x.b) := by linarith
  have hCm : pw (seriesRough pw x L0 D0 C0 L1 D1 C1 D) x.b
      = pw ((L0 + L1) / pw D x.a) (x.e * x.b) * (pw (L0 / (pw D0 x.a * pw C0 x.b) + L1 / (pw D1 x.a * pw C1 x.b)) (x.e * x.b))⁻¹ := by
    unfold seriesRough
    rw [h.mul _ _ _ (h.pos _ _ hA) (h.pos _ _ hS), h.pow _ _ _ hA, h.pow _ _ _ hS, neg_mul, h.neg _ _ hS]
  have hpA : 0 < pw ((L0 + L1) / pw D x.a) (x.e * x.b) := h.pos _ _ hA
  have hpS : 0 < pw (L0 / (pw D0 x.a * pw C0 x.b) + L1 / (pw D1 x.a * pw C1 x.b)) (x.e * x.b) := h.pos _ _ hS
  have hpD : 0 < pw D x.a := h.pos _ _ hD
  unfold hwRes
  rw [hCm]
  field_simp

/-- **series merge, the equivalence the formula aims at**: when the exponents are consistent (`e · b = 1`) the merged pipe has
exactly the sum of the two resistances, hence the same head loss as the two pipes in series at every flow -/
theorem series_merge_resistance (h : PowLaws pw) (heb : x.e * x.b = 1)
    (hL0 : 0 < L0) (hD0 : 0 < D0) (hC0 : 0 < C0) (hL1 : 0 < L1) (hD1 : 0 < D1) (hC1 : 0 < C1) (hD : 0 < D) :
    hwRes pw x (L0 + L1) D (seriesRough pw x L0 D0 C0 L1 D1 C1 D) = hwRes pw x L0 D0 C0 + hwRes pw x L1 D1 C1 := by
  have hA : 0 < (L0 + L1) / pw D x.a := div_pos (by linarith) (h.pos _ _ hD)
  have hr0 : 0 < hwRes pw x L0 D0 C0 := div_pos hL0 (mul_pos (h.pos _ _ hD0) (h.pos _ _ hC0))
  have hr1 : 0 < hwRes pw x L1 D1 C1 := div_pos hL1 (mul_pos (h.pos _ _ hD1) (h.pos _ _ hC1))
  rw [series_merge_resistance_general pw x L0 D0 C0 L1 D1 C1 D h hL0 hD0 hC0 hL1 hD1 hC1 hD, heb,
    h.one _ hA, h.one _ (by linarith)]
  exact mul_div_cancel_left₀ _ (ne_of_gt hA)

theorem series_merge_equal_headloss (h : PowLaws pw) (heb : x.e * x.b = 1) (κ φ : R)
    (hL0 : 0 < L0) (hD0 : 0 < D0) (hC0 : 0 < C0) (hL1 : 0 < L1) (hD1 : 0 < D1) (hC1 : 0 < C1) (hD : 0 < D) :
    κ * hwRes pw x (L0 + L1) D (seriesRough pw x L0 D0 C0 L1 D1 C1 D) * φ
      = κ * hwRes pw x L0 D0 C0 * φ + κ * hwRes pw x L1 D1 C1 * φ := by
  rw [series_merge_resistance pw x L0 D0 C0 L1 D1 C1 D h heb hL0 hD0 hC0 hL1 hD1 hC1 hD]; ring

omit [IsStrictOrderedRing R] in
/-- **parallel merge**: the merged pipe has exactly the sum of the two conductances — for ANY exponents — hence the same total
flow as the two parallel pipes at every head loss -/
theorem parallel_merge_conductance (h : PowLaws pw) (L D : R)
    (hL0 : 0 < L0) (hL1 : 0 < L1) (hL : 0 < L) (hD : 0 < D) :
    hwCond pw x L D (parallelRough pw x L0 D0 C0 L1 D1 C1 L D) = hwCond pw x L0 D0 C0 + hwCond pw x L1 D1 C1 := by
  have h1 := h.pos L x.e hL
  have h2 := h.pos D x.c hD
  have h3 := h.pos L0 x.e hL0
  have h4 := h.pos L1 x.e hL1
  unfold hwCond parallelRough
  field_simp

omit [IsStrictOrderedRing R] in
theorem parallel_merge_equal_flow (h : PowLaws pw) (L D κ ψ : R)
    (hL0 : 0 < L0) (hL1 : 0 < L1) (hL : 0 < L) (hD : 0 < D) :
    κ * hwCond pw x L D (parallelRough pw x L0 D0 C0 L1 D1 C1 L D) * ψ
      = κ * hwCond pw x L0 D0 C0 * ψ + κ * hwCond pw x L1 D1 C1 * ψ := by
  rw [parallel_merge_conductance pw x L0 D0 C0 L1 D1 C1 h L D hL0 hL1 hL hD]; ring

end merge

/-- non-vacuity / instantiation: the real power function satisfies the laws, so the theorems above hold for the real formulas -/
theorem powLaws_real : PowLaws (fun x a : ℝ => x ^ a) where
  pos := fun _ a hx => Real.rpow_pos_of_pos hx a
  mul := fun _ _ _ hx hy => Real.mul_rpow (le_of_lt hx) (le_of_lt hy)
  pow := fun _ a b hx => (Real.rpow_mul (le_of_lt hx) a b).symm
  one := fun x _ => Real.rpow_one x
  neg := fun _ a hx => Real.rpow_neg (le_of_lt hx) a

/-- with consistent exponents (here `e = 1/b`) the real series formula is exact -/
example (L0 D0 C0 L1 D1 C1 D : ℝ) (hL0 : 0 < L0) (hD0 : 0 < D0) (hC0 : 0 < C0) (hL1 : 0 < L1) (hD1 : 0 < D1) (hC1 : 0 < C1) (hD : 0 < D) :
    let x : MergeExp ℝ := { a := 4.871, b := 1.852, e := 1 / 1.852, c := 2.63 }
    hwRes (fun x a : ℝ => x ^ a) x (L0 + L1) D (seriesRough (fun x a : ℝ => x ^ a) x L0 D0 C0 L1 D1 C1 D)
      = hwRes (fun x a : ℝ => x ^ a) x L0 D0 C0 + hwRes (fun x a : ℝ => x ^ a) x L1 D1 C1 :=
  series_merge_resistance _ _ _ _ _ _ _ _ _ powLaws_real (by norm_num) hL0 hD0 hC0 hL1 hD1 hC1 hD

/-- the literals of wntr/morph/skel.py -/
def codeExpQ : MergeExp Rat := { a := 487 / 100, b := 185 / 100, e := 54 / 100, c := 263 / 100 }

/-- WHERE THE SERIES EQUIVALENCE DOES NOT HOLD: the code's exponents are not consistent, `0.54 · 1.85 = 0.999`, so by
`series_merge_resistance_general` the merged resistance is `A^0.001 · S^0.999` instead of `S` (≈ +0.9 % head loss for C ≈ 100);
nor do they match the flow form of the parallel formula (`1/0.54 ≠ 1.85`, `2.63/0.54 ≠ 4.87`) or the simulator's 1.852 / 4.871 -/
theorem code_series_exponents_inconsistent :
    codeExpQ.e * codeExpQ.b = 999 / 1000 ∧ codeExpQ.e * codeExpQ.b ≠ 1 ∧ 1 / codeExpQ.e ≠ codeExpQ.b ∧ codeExpQ.c / codeExpQ.e ≠ codeExpQ.a ∧
    codeExpQ.b ≠ 1852 / 1000 ∧ codeExpQ.a ≠ 4871 / 1000 := by
  simp only [codeExpQ]; norm_num

/-! #### the two formulas as they stand in the source (Gen.seriesMX / Gen.parallelMX, regenerated by ast on every run) -/

/-- the literals of the source as elements of any number type -/
def srcExp {α : Type} (litv : Nat → Nat → α) : MergeExp α := { a := litv 487 100, b := litv 37 20, e := litv 27 50, c := litv 263 100 }

section source
variable {α : Type} [Add α] [Sub α] [Mul α] [Div α] [Neg α] (pw : α → α → α) (litv : Nat → Nat → α) (env : String → α)

/-- **`props['roughness']` of `_series_merge_properties` IS `seriesRough`** (the function the equivalence theorems are about), with the
exponents 4.87, 1.85, 0.54 and the dominant pipe's diameter, for every number type, power function and pipe data -/
theorem series_rough_is_source :
    Gen.seriesMX.rough.eval pw litv env
      = seriesRough pw (srcExp litv) (env "pipe0.length") (env "pipe0.diameter") (env "pipe0.roughness")
          (env "pipe1.length") (env "pipe1.diameter") (env "pipe1.roughness") (env "dominant.diameter") := rfl

/-- **`props['roughness']` of `_parallel_merge_properties` IS `parallelRough`** with the exponents 0.54, 2.63 and the dominant
pipe's length and diameter -/
theorem parallel_rough_is_source :
    Gen.parallelMX.rough.eval pw litv env
      = parallelRough pw (srcExp litv) (env "pipe0.length") (env "pipe0.diameter") (env "pipe0.roughness")
          (env "pipe1.length") (env "pipe1.diameter") (env "pipe1.roughness") (env "dominant.length") (env "dominant.diameter") := rfl

/-- length, diameter, minor loss and status of the merged pipe as the source sets them -/
theorem merge_props_are_source :
    Gen.seriesMX.length.eval pw litv env = env "pipe0.length" + env "pipe1.length" ∧
    Gen.seriesMX.diam.eval pw litv env = env "dominant.diameter" ∧ Gen.seriesMX.minor.eval pw litv env = env "dominant.minor_loss" ∧
    Gen.seriesMX.status = "dominant_pipe.status" ∧
    Gen.parallelMX.length.eval pw litv env = env "dominant.length" ∧
    Gen.parallelMX.diam.eval pw litv env = env "dominant.diameter" ∧ Gen.parallelMX.minor.eval pw litv env = env "dominant.minor_loss" ∧
    Gen.parallelMX.status = "dominant_pipe.status" := ⟨rfl, rfl, rfl, rfl, rfl, rfl, rfl, rfl⟩

end source

/-- the source's literals are the `codeExpQ` of `code_series_exponents_inconsistent` -/
theorem srcExp_rat : srcExp (fun n d => (n : Rat) / d) = codeExpQ := by
  simp only [srcExp, codeExpQ]; norm_num

/-- **parallel merge as written in the source, over the reals**: the merged pipe carries exactly the sum of the two flows at every
head loss (Hazen-Williams flow form `q = κ·C·D^2.63·(h/L)^0.54`), for all positive pipe data -/
theorem parallel_merge_source_exact (env : String → ℝ) (κ ψ : ℝ)
    (hL0 : 0 < env "pipe0.length") (hL1 : 0 < env "pipe1.length") (hL : 0 < env "dominant.length") (hD : 0 < env "dominant.diameter") :
    let x := srcExp (fun n d => (n : ℝ) / d)
    let pw := fun a b : ℝ => a ^ b
    κ * hwCond pw x (env "dominant.length") (env "dominant.diameter") (Gen.parallelMX.rough.eval pw (fun n d => (n : ℝ) / d) env) * ψ
      = κ * hwCond pw x (env "pipe0.length") (env "pipe0.diameter") (env "pipe0.roughness") * ψ
        + κ * hwCond pw x (env "pipe1.length") (env "pipe1.diameter") (env "pipe1.roughness") * ψ := by
  intro x pw
  rw [parallel_rough_is_source]
  exact parallel_merge_equal_flow pw x _ _ _ _ _ _ powLaws_real _ _ κ ψ hL0 hL1 hL hD

/-- **series merge as written in the source, over the reals**: the merged resistance is `A · S^0.999 / A^0.999` (`A = L/D^4.87`,
`S` = sum of the two resistances), NOT `S`: exact only if `0.54 · 1.85` were 1 (`code_series_exponents_inconsistent`) -/
theorem series_merge_source_general (env : String → ℝ)
    (hL0 : 0 < env "pipe0.length") (hD0 : 0 < env "pipe0.diameter") (hC0 : 0 < env "pipe0.roughness")
    (hL1 : 0 < env "pipe1.length") (hD1 : 0 < env "pipe1.diameter") (hC1 : 0 < env "pipe1.roughness") (hD : 0 < env "dominant.diameter") :
    let x := srcExp (fun n d => (n : ℝ) / d)
    let pw := fun a b : ℝ => a ^ b
    let A := (env "pipe0.length" + env "pipe1.length") / pw (env "dominant.diameter") x.a
    let S := hwRes pw x (env "pipe0.length") (env "pipe0.diameter") (env "pipe0.roughness")
              + hwRes pw x (env "pipe1.length") (env "pipe1.diameter") (env "pipe1.roughness")
    hwRes pw x (env "pipe0.length" + env "pipe1.length") (env "dominant.diameter") (Gen.seriesMX.rough.eval pw (fun n d => (n : ℝ) / d) env)
      = A * pw S (x.e * x.b) / pw A (x.e * x.b) ∧ x.e * x.b = 999 / 1000 := by
  intro x pw A S
  refine ⟨?_, ?_⟩
  · rw [series_rough_is_source]
    exact series_merge_resistance_general pw x _ _ _ _ _ _ _ powLaws_real hL0 hD0 hC0 hL1 hD1 hC1 hD
  · simp only [x, srcExp]; norm_num

/-! #### what a series merge does NOT keep (documented: "minor loss and pipe status of the merged pipe are set equal to [those of]
the pipe selected for maximum diameter") -/

/-- the merged pipe takes minor loss and status of the dominant pipe only -/
theorem series_merge_takes_dominant (pw : Rat → Rat → Rat) (x : MergeExp Rat) (p0 p1 : MPipe Rat) :
    let m := seriesProps pw x (fun a b => decide (a ≥ b)) p0 p1
    m.length = p0.length + p1.length ∧
    (p0.diam ≥ p1.diam → m.diam = p0.diam ∧ m.minor = p0.minor ∧ m.status = p0.status) ∧
    (¬ p0.diam ≥ p1.diam → m.diam = p1.diam ∧ m.minor = p1.minor ∧ m.status = p1.status) := by
  refine ⟨rfl, ?_, ?_⟩ <;> intro h <;> simp [seriesProps, h]

/-- "two pipes in series pass water iff the merged pipe does" -/
def SeriesMergeStatusFaithful : Prop :=
  ∀ (pw : Rat → Rat → Rat) (x : MergeExp Rat) (p0 p1 : MPipe Rat),
    ((seriesProps pw x (fun a b => decide (a ≥ b)) p0 p1).status == 1) = (p0.status == 1 && p1.status == 1)

/-- FALSE: a CLOSED pipe in series with a larger OPEN pipe disappears into an OPEN merged pipe (and its minor loss with it) -/
theorem series_merge_status_counterexample : ¬ SeriesMergeStatusFaithful := by
  intro h
  have := h (fun a _ => a) ⟨1, 1, 1, 1⟩ ⟨10, 2, 100, 0, 1⟩ ⟨10, 1, 100, 5, 0⟩
  revert this; decide +kernel

/-! ### the cycle loop of `_Skeletonize.run` terminates -/

theorem junctionCount_absorb (nodes : List SNode) (j c : String) (dj : List Dem) :
    ((absorbNode nodes j c dj).filter (fun n => n.kind == .junction)).length ≤ (nodes.filter (fun n => n.kind == .junction)).length := by
  rw [absorbNode_eq, List.filter_map]
  have : ((fun n : SNode => n.kind == NodeKind.junction) ∘ addDem c dj) = fun n : SNode => n.kind == NodeKind.junction := by
    funext n; simp [addDem_kind]
  rw [List.length_map, this]
  exact ((List.filter_sublist (l := nodes)).filter _).length_le

/-- no step ever adds a junction -/
theorem step_junctionCount_le (thr : Rat) (s : Skel) (op : SkelOp) : (Skel.step thr s op).junctionCount ≤ s.junctionCount := by
  cases op with
  | trim j =>
    simp only [Skel.step, branchTrim]
    split
    · exact Nat.le_refl _
    · split_ifs
      · exact Nat.le_refl _
      · split
        · split
          · split_ifs
            · exact junctionCount_absorb _ _ _ _
            · exact Nat.le_refl _
          · exact Nat.le_refl _
        · exact Nat.le_refl _
  | series j n0 n1 =>
    simp only [Skel.step, seriesMerge]
    split
    · exact Nat.le_refl _
    · split_ifs
      · exact Nat.le_refl _
      · exact Nat.le_refl _
      · split
        · split_ifs
          · split
            · exact Nat.le_refl _
            · exact junctionCount_absorb _ _ _ _
          · exact Nat.le_refl _
        · exact Nat.le_refl _
  | parallel j n p0 p1 =>
    simp only [Skel.step, parallelMerge]
    split_ifs
    · exact Nat.le_refl _
    · split
      · split_ifs <;> exact Nat.le_refl _
      · exact Nat.le_refl _

theorem run_junctionCount_le (thr : Rat) (ops : List SkelOp) (s : Skel) : (Skel.run thr s ops).junctionCount ≤ s.junctionCount := by
  induction ops generalizing s with
  | nil => exact Nat.le_refl _
  | cons op t ih => exact Nat.le_trans (ih _) (step_junctionCount_le thr s op)

/-- **`run` terminates**: whatever a pass does, as long as it never adds junctions (true of every sequence of steps,
`run_junctionCount_le`), the `while flag` loop stops within `junctionCount + 1` passes, for every `max_cycles` -/
theorem run_terminates (cycle : Skel → Skel) (hc : ∀ s, (cycle s).junctionCount ≤ s.junctionCount) (mc : Option Nat)
    (fuel iter : Nat) (s : Skel) (hf : s.junctionCount < fuel) : (runLoop cycle mc fuel iter s).isSome = true := by
  induction fuel generalizing iter s with
  | zero => omega
  | succ n ih =>
    unfold runLoop
    simp only
    split_ifs with hstop
    · rfl
    · apply ih
      have hne : ¬ (cycle s).junctionCount = s.junctionCount := by
        intro e; apply hstop; simp [e]
      have := hc s
      omega

/-- non-vacuity: passes given as op lists; the loop ends after the pass that removes nothing (here the 2nd) although `max_cycles = 0` … -/
example : (runLoop (fun s => Skel.run (1 / 5) s [.trim "J2", .trim "J1"]) none 5 0 demoSkel).map (·.nodes.map (·.name)) = some ["R", "J1", "T"] := by
  decide +kernel
/-- … and `max_cycles = 0` still performs one pass (`iteration > max_cycles` is tested after the increment) -/
example : (runLoop (fun s => Skel.run (1 / 5) s [.trim "J2"]) (some 0) 5 0 demoSkel).map (·.nodes.map (·.name)) = some ["R", "J1", "T"] := by
  decide +kernel

/-! ### the whole traversal, for every iteration order -/

theorem foldl_preserves {σ β : Type} (P : σ → Prop) (f : σ → β → σ) (h : ∀ s b, P s → P (f s b)) (l : List β) (s : σ) (hs : P s) :
    P (l.foldl f s) := by
  induction l generalizing s with
  | nil => exact hs
  | cons b t ih => exact ih _ (h s b hs)

theorem foldl_count_le {β : Type} (f : Skel → β → Skel) (h : ∀ s b, (f s b).junctionCount ≤ s.junctionCount) (l : List β) (s : Skel) :
    (l.foldl f s).junctionCount ≤ s.junctionCount := by
  induction l generalizing s with
  | nil => exact Nat.le_refl _
  | cons b t ih => exact Nat.le_trans (ih _) (h s b)

/-- one cycle keeps the invariant and never adds a junction, whatever the three orders are -/
theorem cyclePass_inv (orig : Skel) (thr : Rat) (o : Order) (bt sm pm : Bool) (s : Skel) (inv : SkelInv orig s) :
    SkelInv orig (cyclePass thr o bt sm pm s) := by
  have ht : ∀ s, SkelInv orig s → SkelInv orig (trimPass thr o s) := fun s hs =>
    foldl_preserves (SkelInv orig) _ (fun s j h => skelInv_branchTrim orig s h j thr) _ s hs
  have hsm : ∀ s, SkelInv orig s → SkelInv orig (seriesPass thr o s) := fun s hs =>
    foldl_preserves (SkelInv orig) _ (fun s j h => by
      show SkelInv orig (match o.nbrs s j with
        | [n0, n1] => seriesMerge s j n0 n1 thr
        | _ => s)
      split
      · exact skelInv_seriesMerge orig s h _ _ _ thr
      · exact h) _ s hs
  have hp : ∀ s, SkelInv orig s → SkelInv orig (parallelPass thr o s) := fun s hs =>
    foldl_preserves (SkelInv orig) _ (fun s j h =>
      foldl_preserves (SkelInv orig) _ (fun s' n h' =>
        foldl_preserves (SkelInv orig) _ (fun s'' pq h'' => skelInv_parallelMerge orig s'' h'' j n pq.1 pq.2 thr) _ s' h') _ s h) _ s hs
  unfold cyclePass
  cases bt <;> cases sm <;> cases pm <;> simp only [if_true, if_false, Bool.false_eq_true] <;>
    first
    | exact inv
    | exact hp _ (hsm _ (ht _ inv)) | exact hp _ (hsm _ inv) | exact hp _ (ht _ inv) | exact hsm _ (ht _ inv)
    | exact hp _ inv | exact hsm _ inv | exact ht _ inv

theorem cyclePass_count_le (thr : Rat) (o : Order) (bt sm pm : Bool) (s : Skel) :
    (cyclePass thr o bt sm pm s).junctionCount ≤ s.junctionCount := by
  have ht : ∀ s, (trimPass thr o s).junctionCount ≤ s.junctionCount := fun s =>
    foldl_count_le _ (fun s j => step_junctionCount_le thr s (.trim j)) _ s
  have hsm : ∀ s, (seriesPass thr o s).junctionCount ≤ s.junctionCount := fun s =>
    foldl_count_le _ (fun s j => by
      show (match o.nbrs s j with
        | [n0, n1] => seriesMerge s j n0 n1 thr
        | _ => s).junctionCount ≤ _
      split
      · exact step_junctionCount_le thr s (.series j _ _)
      · exact Nat.le_refl _) _ s
  have hp : ∀ s, (parallelPass thr o s).junctionCount ≤ s.junctionCount := fun s => by
    unfold parallelPass
    exact foldl_count_le _ (fun s j =>
      foldl_count_le _ (fun s' n =>
        foldl_count_le _ (fun s'' (pq : String × String) => step_junctionCount_le thr s'' (.parallel j n pq.1 pq.2)) _ s') _ s) _ s
  unfold cyclePass
  cases bt <;> cases sm <;> cases pm <;> simp only [if_true, if_false, Bool.false_eq_true] <;>
    first
    | exact Nat.le_refl _
    | exact Nat.le_trans (hp _) (Nat.le_trans (hsm _) (ht _)) | exact Nat.le_trans (hp _) (hsm _) | exact Nat.le_trans (hp _) (ht _)
    | exact Nat.le_trans (hsm _) (ht _) | exact hp _ | exact hsm _ | exact ht _

theorem runLoop_inv (orig : Skel) (cycle : Skel → Skel) (hc : ∀ s, SkelInv orig s → SkelInv orig (cycle s)) (mc : Option Nat)
    (fuel iter : Nat) (s r : Skel) (inv : SkelInv orig s) (h : runLoop cycle mc fuel iter s = some r) : SkelInv orig r := by
  induction fuel generalizing iter s with
  | zero => simp [runLoop] at h
  | succ n ih =>
    unfold runLoop at h
    simp only at h
    split_ifs at h with hstop
    · cases h; exact hc s inv
    · exact ih _ _ (hc s inv) h

/-- **skeleton_result_independent_properties**: for EVERY junction order, neighbour order and parallel-edge order, every
threshold, option combination, exclusion lists and `max_cycles`, `_Skeletonize.run` terminates and its result satisfies the
invariant: tanks, reservoirs, pumps, valves, control-referenced / excluded elements retained, demand entries permuted, the
skeleton map a partition of the original nodes over retained nodes -/
theorem skeleton_result_independent_properties (nodes : List SNode) (links : List SLink) (jx px : List String) (thr : Rat)
    (hn : (names nodes).Nodup) (hl : (links.map (·.name)).Nodup) (o : Order) (bt sm pm : Bool) (mc : Option Nat) :
    ∃ r, skeletonizeRun thr o bt sm pm mc (Skel.init nodes links jx px) = some r ∧ SkelInv (Skel.init nodes links jx px) r := by
  have hterm := run_terminates (cyclePass thr o bt sm pm) (cyclePass_count_le thr o bt sm pm) mc
    ((Skel.init nodes links jx px).junctionCount + 1) 0 (Skel.init nodes links jx px) (Nat.lt_succ_self _)
  obtain ⟨r, hr⟩ := Option.isSome_iff_exists.mp hterm
  exact ⟨r, hr, runLoop_inv _ _ (fun s hs => cyclePass_inv _ thr o bt sm pm s hs) mc _ 0 _ r
    (skelInv_init nodes links jx px hn hl) hr⟩

/-- X and Y are control-referenced junctions joined through J by two equal small pipes: which neighbour is `neighbors[0]` decides
the tie of "closest junction", the dominant pipe of equal diameters and the direction of the merged pipe -/
def orderDemo : Skel := Skel.init
  [⟨"R", .reservoir, []⟩, ⟨"X", .junction, [⟨1, "", ""⟩]⟩, ⟨"J", .junction, [⟨5, "", ""⟩]⟩, ⟨"Y", .junction, [⟨2, "", ""⟩]⟩]
  [⟨"M", "R", "X", true, 1, 100, 0, 1, false⟩, ⟨"PX", "X", "J", true, 1 / 10, 50, 0, 1, false⟩, ⟨"PY", "J", "Y", true, 1 / 10, 50, 0, 1, false⟩]
  ["X", "Y"] []

def mapView (r : Option Skel) : Option (List (String × List String)) := r.map (·.map)
def linkView (r : Option Skel) : Option (List (String × String × String)) := r.map fun s => s.links.map (fun l => (l.name, l.a, l.b))
def demandView (r : Option Skel) : Option (List (String × List Rat)) := r.map fun s => s.nodes.map (fun n => (n.name, n.demands.map (·.base)))

/-- **which outputs DO depend on the order**: the node that represents the removed junction in the map (and receives its
demand), the name kept for the merged pipe and its direction — two orders, same network, both results satisfy every promise -/
theorem skeleton_outputs_depend_on_order :
    let a := skeletonizeRun (1 / 5) Order.natural true true true none orderDemo
    let b := skeletonizeRun (1 / 5) Order.reversed true true true none orderDemo
    mapView a = some [("R", ["R"]), ("X", ["X"]), ("J", []), ("Y", ["Y", "J"])] ∧
    mapView b = some [("R", ["R"]), ("X", ["X", "J"]), ("J", []), ("Y", ["Y"])] ∧
    linkView a = some [("M", "R", "X"), ("PX", "X", "Y")] ∧
    linkView b = some [("M", "R", "X"), ("PY", "Y", "X")] ∧
    demandView a = some [("R", []), ("X", [1]), ("Y", [2, 5])] ∧
    demandView b = some [("R", []), ("X", [1, 5]), ("Y", [2])] ∧
    a.map (skelOracle orderDemo) = some "ok" ∧ b.map (skelOracle orderDemo) = some "ok" := by
  refine ⟨?_, ?_, ?_, ?_, ?_, ?_, ?_, ?_⟩ <;> decide +kernel

/-! ### the shape of the source (translator tie)

Gen/MorphShape.lean is rewritten from wntr/morph/link.py and wntr/morph/skel.py on every run.  `codeSplitShape` / `codeSkelShape`
(Model/MorphShape.lean) are what `splitCore`, `removable`, `dominant` and `closestOf` evaluate; an edit of the source that changes
an `add_pipe` argument of the new pipe, a length or vertex assignment, a guard, a comparison operator, the demand / map update,
the cycle loop or the property formulas makes one of the next two theorems false. -/

theorem split_shape_is_source : Gen.splitShape = codeSplitShape := rfl

theorem skel_shape_is_source : Gen.skelShape = codeSkelShape := rfl

/-- the tokens the model evaluates, spelled out -/
theorem code_shape_tokens :
    codeSplitShape.newPipe = { diam := .orig, rough := .orig, minor := .zero, status := .one, cv := .no } ∧
    (codeSplitShape.endOldLen, codeSplitShape.endNewLen, codeSplitShape.startOldLen, codeSplitShape.startNewLen)
      = (.timesF, .times1mF, .times1mF, .timesF) ∧
    (codeSplitShape.endOldVerts, codeSplitShape.endNewVerts, codeSplitShape.startOldVerts, codeSplitShape.startNewVerts)
      = (.first, .last, .last, .first) ∧
    codeSkelShape.thr = .le ∧ codeSkelShape.dom = .ge ∧ codeSkelShape.closest = .lt :=
  ⟨rfl, rfl, rfl, rfl, rfl, rfl⟩

/-- `removable`, `dominant`, `closestOf` mean what the source's operators say -/
theorem removable_spec (s : Skel) (l : SLink) (thr : Rat) :
    removable s l thr = true ↔ l.isPipe = true ∧ l.diam ≤ thr ∧ s.pExcl.contains l.name = false := by
  simp [removable, codeSkelShape_thr, Cmp.eval, and_assoc]

theorem dominant_spec (p0 p1 : SLink) : dominant p0 p1 = if p0.diam ≥ p1.diam then p0 else p1 := by
  simp [dominant, codeSkelShape_dom, Cmp.eval]

theorem closestOf_tie_spec (m0 m1 : SNode) (p0 p1 : SLink) (n0 n1 : String) (h0 : m0.kind = .junction) (h1 : m1.kind = .junction) :
    closestOf m0 m1 p0 p1 n0 n1 = if p0.length < p1.length then some n0 else some n1 := by
  simp [closestOf, h0, h1, codeSkelShape_closest, Cmp.eval]

/-! ### every element referenced by a control, as the controls ARE at call time -/

theorem mem_ctlJunctions (nodes : List SNode) (cs : List Ctl) (c : Ctl) (r : Ref) (n : SNode)
    (hc : c ∈ cs) (hr : r ∈ c.requires) (hn : n ∈ nodes) (hnode : r.isNode = true) (hname : r.name = n.name) (hk : n.kind = .junction) :
    (ctlJunctions nodes cs).contains n.name = true := by
  rw [List.contains_iff_mem]
  unfold ctlJunctions
  rw [List.mem_map]
  refine ⟨r, List.mem_filter.mpr ⟨List.mem_flatMap.mpr ⟨c, hc, hr⟩, ?_⟩, hname⟩
  simp only [hnode, Bool.true_and, List.any_eq_true]
  exact ⟨n, hn, by simp [hname, hk]⟩

theorem mem_ctlPipes (links : List SLink) (cs : List Ctl) (c : Ctl) (r : Ref) (l : SLink)
    (hc : c ∈ cs) (hr : r ∈ c.requires) (hl : l ∈ links) (hlink : r.isNode = false) (hname : r.name = l.name) (hp : l.isPipe = true) :
    (ctlPipes links cs).contains l.name = true := by
  rw [List.contains_iff_mem]
  unfold ctlPipes
  rw [List.mem_map]
  refine ⟨r, List.mem_filter.mpr ⟨List.mem_flatMap.mpr ⟨c, hc, hr⟩, ?_⟩, hname⟩
  simp only [hlink, Bool.not_false, Bool.true_and, List.any_eq_true]
  exact ⟨l, hl, by simp [hname, hp]⟩

/-- **skeletonize keeps every element referenced by a control, as the controls are when it is called**: whatever edit history
(`update_condition` / `update_then_actions` / `update_else_actions` / `update_priority`) produced the current controls `cs`, every
node and link that the condition, a THEN action or an ELSE action of any control refers to is retained, for every traversal
order, threshold, option combination and `max_cycles` -/
theorem skeleton_keeps_control_referenced (nodes : List SNode) (links : List SLink) (cs0 : List Ctl) (edits : List CtlEdit)
    (jUser pUser : List String) (thr : Rat) (hn : (names nodes).Nodup) (hl : (links.map (·.name)).Nodup)
    (o : Order) (bt sm pm : Bool) (mc : Option Nat) :
    let cs := edits.foldl applyEdit cs0
    ∃ r, skeletonizeRun thr o bt sm pm mc (Skel.initFromControls nodes links cs jUser pUser) = some r ∧
      ∀ c ∈ cs, ∀ ref ∈ c.requires,
        (ref.isNode = true → ∀ n ∈ nodes, n.name = ref.name → ∃ m ∈ r.nodes, m.name = n.name ∧ m.kind = n.kind) ∧
        (ref.isNode = false → ∀ l ∈ links, l.name = ref.name → l ∈ r.links) := by
  intro cs
  obtain ⟨r, hr, inv⟩ := skeleton_result_independent_properties nodes links
    (ctlJunctions nodes cs ++ jUser) (ctlPipes links cs ++ pUser) thr hn hl o bt sm pm mc
  refine ⟨r, hr, fun c hc ref href => ⟨fun hnode n hnn hname => ?_, fun hlink l hll hname => ?_⟩⟩
  · apply inv.keepN n hnn
    by_cases hk : n.kind = .junction
    · right
      have := mem_ctlJunctions nodes cs c ref n hc href hnn hnode hname.symm hk
      show (ctlJunctions nodes cs ++ jUser).contains n.name = true
      rw [List.contains_iff_mem] at this ⊢
      exact List.mem_append_left _ this
    · left; exact hk
  · apply inv.keepL l hll
    by_cases hp : l.isPipe = true
    · right
      have := mem_ctlPipes links cs c ref l hc href hll hlink hname.symm hp
      show (ctlPipes links cs ++ pUser).contains l.name = true
      rw [List.contains_iff_mem] at this ⊢
      exact List.mem_append_left _ this
    · left; simpa using hp

/-- an ELSE action added after the rule was created protects its target like any other part (the 4-step history of seeded C19-8) -/
example : ctlPipes [⟨"P1", "A", "B", true, 1 / 4, 300, 0, 1, false⟩, ⟨"P3", "C", "D", true, 3 / 20, 150, 0, 1, false⟩]
    ([CtlEdit.elseA 0 [⟨false, "P3"⟩]].foldl applyEdit [⟨[], [⟨false, "P1"⟩], []⟩]) = ["P1", "P3"] := by decide +kernel

/-! ### non-vacuity of the hypotheses used above -/

def demoPipe : Pipe := { name := "P", a := "A", b := "B", length := 100, diam := 1, rough := 100, minor := 0, initStatus := 1, status := 1, cv := true, verts := [(5, 5)] }

example : SplitHyp (demoNet true [(5, 5)]) "P" "N" ["J", "K"] 0 demoPipe ⟨"A", .junction, 10, (0, 0)⟩ ⟨"B", .junction, 20, (10, 0)⟩ where
  hp := by decide +kernel
  hs := by decide +kernel
  he := by decide +kernel
  hf0 := by decide
  hf1 := by decide
  hres := by decide
  hj := by decide
  hl := by decide

example : (names demoSkel.nodes).Nodup ∧ (demoSkel.links.map (·.name)).Nodup := by decide
example : (Skel.run (1 / 5) demoSkel [.trim "J2", .trim "J1"]).junctionCount = 1 := by decide +kernel


end Wntr.Morph
