/-
C07 — pressure-dependent demand follows the documented pressure–demand curve.

Everything below is about definitions REGENERATED from the current source on every run (Gen/RowsC07.lean):
the `m.pdd[j]` rows of a zoo network, `cubic_spline`, the spline end data computed by
`pdd_poly_coeffs_param.build` / `pnom_param.build` (symbolic execution, every outcome of every comparison explored),
`pdd_constants`, and the ModelUpdater registrations.  Theorems quantify over every real pressure, every `Pmin < Preq`
the build accepts, every exponent in (0,1], every requested demand ≥ 0.  The model follows the REPAIRED code
(fixes/C07-1-pressure-exponent-updater.patch, fixes/C07-2-pdd-band-overlap.patch): the band width of a junction is
`min(δ, (Preq − Pmin)/2)`, so the two smoothing bands never overlap and no band hypothesis is needed.
-/
import WntrModel.Lemmas.RowsSplineGen
import WntrModel.Lemmas.RowsNorm
import Mathlib.Analysis.Convex.SpecificFunctions.Basic

set_option linter.unusedSimpArgs false

namespace Wntr.Rows
open Wntr.Aml

/-! ### 1. the generated rows are instances of the parametric row; per-junction overrides -/

/-- `m.pdd[j]` of every zoo junction is EQUIVALENT (`Norm.rowSem`: equal as polynomials with rational coefficients over atoms,
atoms and branch conditions compared semantically too, branch by branch) to `pddRow` at the junction's own leaf indices with the
exponent chosen by the documented rule (own value if set, else global option); `m.pmin[j]`/`m.pnom[j]` carry the value chosen
by the same rule and `m.pdd_delta[j] = min(δ, (Preq−Pmin)/2)`, for all 8 own/None combinations and a junction with
`Preq − Pmin < 2δ`; an isolated junction has no row. -/
theorem gen_rows_are_pddRow :
    GenC07.zoo.all (fun z => z.ok GenC07.pddDelta GenC07.pddSlope GenC07.globPmin GenC07.globPnom GenC07.globExp) = true := by
  decide +kernel

/-- the standard leaf numbering used by the sensitivity examples -/
def ix0 : PddIx :=
  { head := 0, demand := 1, expected := 0, pmin := 1, pnom := 2, elev := 3, delta := 12,
    a1 := 4, b1 := 5, c1 := 6, d1 := 7, a2 := 8, b2 := 9, c2 := 10, d2 := 11 }

/-- the PDD row written differently: pressure as `h − pmin − elev` resp. `(h − elev)` re-ordered, the cubics in ascending
powers with `x*x*x`, the constant first in the last branch; `sgn`, `ub2`, `shift2`, `swap` switch on one defect each -/
def pddRowAlt (ix : PddIx) (slope e sgn ub2 : Rat) (shift2 swap : Bool) : Expr :=
  let h : Expr := .var ix.head
  let d : Expr := .var ix.demand
  let D : Expr := .param ix.expected
  let pmin : Expr := .param (if swap then ix.pnom else ix.pmin)
  let pnom : Expr := .param (if swap then ix.pmin else ix.pnom)
  let elev : Expr := .param ix.elev
  let delta : Expr := .param ix.delta
  let p := eSub h elev
  let q := eSub (eSub h pmin) elev          -- p − pmin, other order
  let x := if shift2 then q else p
  let cub (a b c dd y : Expr) : Expr := eAdd (eAdd (eAdd dd (eMul y c)) (eMul (eMul y y) b)) (eMul (eMul (eMul y y) y) a)
  condExpr [
    (.ineq q none (some 0), eSub d (eMul (eMul (.const (sgn * slope)) q) D)),
    (.ineq (eSub q delta) none (some ub2), eSub d (eMul (cub (.param ix.a1) (.param ix.b1) (.param ix.c1) (.param ix.d1) p) D)),
    (.ineq (eSub (eAdd delta p) pnom) none (some 0),
      eSub d (eMul D (ePow (eDiv q (eAdd (.un .neg pmin) pnom)) (.const e)))),
    (.ineq (eSub (eSub h pnom) elev) none (some 0),
      eSub d (eMul D (cub (.param ix.a2) (.param ix.b2) (.param ix.c2) (.param ix.d2) x))),
    (.const 1, eSub d (eAdd D (eMul (eMul D (.const slope)) (eSub p pnom))))]

/-- **the comparison is semantic and sensitive**: the re-ordered / re-bracketed row is accepted; a flipped sign of the slope
term, a moved branch bound, the upper cubic evaluated at `p − Pmin` (seeded change C07-3), `Pmin`/`Preq` exchanged, another
exponent or another smoothing slope are each rejected -/
theorem rowSem_is_sensitive :
    let s : Rat := GenC07.pddSlope
    let e : Rat := 5 / 8
    Norm.rowSem (pddRowAlt ix0 s e 1 0 false false) (pddRow ix0 s e) = true ∧
    Norm.rowSem (pddRowAlt ix0 s e (-1) 0 false false) (pddRow ix0 s e) = false ∧
    Norm.rowSem (pddRowAlt ix0 s e 1 (1 / 100) false false) (pddRow ix0 s e) = false ∧
    Norm.rowSem (pddRowAlt ix0 s e 1 0 true false) (pddRow ix0 s e) = false ∧
    Norm.rowSem (pddRowAlt ix0 s e 1 0 false true) (pddRow ix0 s e) = false ∧
    Norm.rowSem (pddRow ix0 s (e + 1 / 8)) (pddRow ix0 s e) = false ∧
    Norm.rowSem (pddRow ix0 (2 * s) e) (pddRow ix0 s e) = false := by
  decide +kernel

/-- all 8 override combinations (own minimum_pressure?, required_pressure?, pressure_exponent?) occur, non-isolated -/
theorem gen_zoo_covers_overrides :
    (GenC07.zoo.filter (fun z => !z.isolated)).map (fun z => (z.ownPmin.isSome, z.ownPnom.isSome, z.ownExp.isSome)) ⊇
      [(false, false, false), (false, false, true), (false, true, false), (false, true, true),
       (true, false, false), (true, false, true), (true, true, false), (true, true, true)] := by
  decide +kernel

/-- per-junction override, part 2: a junction's parameters are mentioned by no other junction's row -/
theorem pdd_per_junction_override_rows_disjoint : pairwiseDisjoint GenC07.zoo = true := by decide +kernel

/-- per-junction override, part 3: `pdd_poly_coeffs_param.build` (symbolically executed for the 8 combinations) reads the
junction's own minimum/required pressure and exponent exactly when they are set, else the global option -/
theorem pdd_per_junction_override_coeffs :
    GenC07.pddCoeffSel.all selOk = true ∧
    GenC07.pddCoeffSel.map (fun r => (r.1, r.2.1, r.2.2.1)) =
      [(false, false, false), (false, false, true), (false, true, false), (false, true, true),
       (true, false, false), (true, false, true), (true, true, false), (true, true, true)] := by
  decide +kernel

/-- the rule, spelled out on `choose` -/
theorem pdd_per_junction_override (own : Option Rat) (glob : Rat) :
    choose own glob = match own with | some v => v | none => glob := by
  cases own <;> rfl

/-! ### 2. what a row evaluates to (any leaf values, any junction) -/

/-- residual of the row = demand − requested · (delivered fraction at the gauge pressure `head − elevation`), the band width
being the value of the junction's `pdd_delta` parameter -/
theorem pddRow_eval (env : Env ℝ) (ix : PddIx) (slope e : ℚ) :
    eval realOps env (pddRow ix slope e) =
      env.var ix.demand - env.param ix.expected *
        pddFrac realOps (env.param ix.pmin) (env.param ix.pnom) (env.param ix.delta) (slope : ℝ) (e : ℝ)
          (env.param ix.a1, env.param ix.b1, env.param ix.c1, env.param ix.d1)
          (env.param ix.a2, env.param ix.b2, env.param ix.c2, env.param ix.d2)
          (env.var ix.head - env.param ix.elev) := by
  simp only [pddRow, condExpr, eval, eSub, eAdd, eMul, eDiv, ePow, eCubic, Ops.bin, isOne_ofBool, pddFrac, cubic,
    realOps_add, realOps_sub, realOps_mul, realOps_div, realOps_pow, realOps_ofRat, realOps_le, Bool.true_and,
    decide_eq_true_eq]
  split_ifs <;> ring

/-- **every generated row means the curve**: for every junction of the zoo that has a row, at EVERY point (any leaf values),
the residual of the row the code built is `demand − requested · fraction(head − elevation)` with the junction's own
`pmin`, `pnom`, `pdd_delta` and spline-coefficient parameters and the exponent chosen by the override rule
(soundness of the semantic comparison, `Norm.rowSem_sound`) -/
theorem gen_rows_eval (env : Env ℝ) (z : PddZoo) (hz : z ∈ GenC07.zoo) (r : Expr) (hr : z.row = some r) :
    eval realOps env r =
      env.var z.ix.demand - env.param z.ix.expected *
        pddFrac realOps (env.param z.ix.pmin) (env.param z.ix.pnom) (env.param z.ix.delta) (GenC07.pddSlope : ℝ)
          ((choose z.ownExp GenC07.globExp : ℚ) : ℝ)
          (env.param z.ix.a1, env.param z.ix.b1, env.param z.ix.c1, env.param z.ix.d1)
          (env.param z.ix.a2, env.param z.ix.b2, env.param z.ix.c2, env.param z.ix.d2)
          (env.var z.ix.head - env.param z.ix.elev) := by
  have hok := List.all_eq_true.1 gen_rows_are_pddRow z hz
  unfold PddZoo.ok at hok
  by_cases hi : z.isolated = true
  · simp only [hi, if_true, hr] at hok; exact absurd hok (by simp)
  · simp only [hi, Bool.false_eq_true, if_false, Bool.and_eq_true, hr, Norm.rowSemOpt] at hok
    rw [Norm.rowSem_sound env _ _ hok.1.1.1, pddRow_eval]

/-! ### 3. the curve with the coefficients the code computes -/

/-- the documented end data of the lower-band spline for band width `d`: from `(Pmin, 0)` with slope `slope` to
`(Pmin+d, (d/R)^e)` with the slope of the power law there -/
noncomputable def specIn1 (pmin pnom d s e : ℝ) : ℝ × ℝ × ℝ × ℝ × ℝ × ℝ :=
  (pmin, pmin + d, 0, (d / (pnom - pmin)) ^ e, s, e * (d / (pnom - pmin)) ^ (e - 1) / (pnom - pmin))

/-- upper band: from `(Preq−d, ((R−d)/R)^e)` with the power law's slope to `(Preq, 1)` with slope `slope` -/
noncomputable def specIn2 (pmin pnom d s e : ℝ) : ℝ × ℝ × ℝ × ℝ × ℝ × ℝ :=
  (pnom - d, pnom, ((pnom - d - pmin) / (pnom - pmin)) ^ e, 1,
   e * ((pnom - d - pmin) / (pnom - pmin)) ^ (e - 1) / (pnom - pmin), s)

/-- band width of the repaired code over ℝ -/
noncomputable def effDeltaR (δ pmin pnom : ℝ) : ℝ := if δ ≤ (pnom - pmin) / 2 then δ else (pnom - pmin) / 2

/-- **what `pdd_poly_coeffs_param.build` computes** (generated decision tree, all paths): it refuses `Preq ≤ Pmin`; otherwise
it stores the band width `min(δ, (Preq−Pmin)/2)` and calls `cubic_spline` with the documented end data for THAT width -/
theorem pddPolyBuild_spec (pmin pnom δ s e : ℝ) :
    GenC07.pddPolyBuild realOps pmin pnom δ s e =
      if pnom ≤ pmin then none
      else some (effDeltaR δ pmin pnom, specIn1 pmin pnom (effDeltaR δ pmin pnom) s e,
                 specIn2 pmin pnom (effDeltaR δ pmin pnom) s e) := by
  simp only [GenC07.pddPolyBuild, realOps_le, realOps_add, realOps_sub, realOps_mul, realOps_div, realOps_pow, realOps_ofRat,
    decide_eq_true_eq, Rat.cast_ofNat, Rat.cast_zero, Rat.cast_one]
  by_cases h1 : pnom ≤ pmin
  · simp only [h1, if_true]
  · simp only [h1, if_false]
    by_cases h2 : δ ≤ (pnom - pmin) / 2
    · simp only [h2, if_true, effDeltaR, specIn1, specIn2, add_sub_cancel_left, mul_one]
    · simp only [h2, if_false, effDeltaR, specIn1, specIn2, add_sub_cancel_left, mul_one]

/-- **what `pnom_param.build` accepts** (generated): it refuses `Preq ≤ δ`, else stores the required pressure unchanged -/
theorem pnomBuild_spec (pnom δ : ℝ) :
    GenC07.pnomBuild realOps pnom δ = if pnom ≤ δ then none else some pnom := by
  simp only [GenC07.pnomBuild, realOps_le, decide_eq_true_eq]

theorem effDeltaR_pos {δ pmin pnom : ℝ} (hδ : 0 < δ) (h : pmin < pnom) : 0 < effDeltaR δ pmin pnom := by
  unfold effDeltaR; split_ifs <;> linarith

/-- the bands never overlap: twice the band width fits between `Pmin` and `Preq` -/
theorem effDeltaR_band {δ pmin pnom : ℝ} : 2 * effDeltaR δ pmin pnom ≤ pnom - pmin := by
  unfold effDeltaR; split_ifs with h <;> linarith

/-- the band is never wider than the shipped `δ`, and IS `δ` whenever `Preq − Pmin ≥ 2δ` -/
theorem effDeltaR_le {δ pmin pnom : ℝ} : effDeltaR δ pmin pnom ≤ δ ∧ (2 * δ ≤ pnom - pmin → effDeltaR δ pmin pnom = δ) := by
  unfold effDeltaR
  constructor
  · split_ifs with h <;> linarith
  · intro h; rw [if_pos (by linarith)]

/-- the Rat model `effDelta` (compared with the zoo's `m.pdd_delta[j]` values) is the same function -/
theorem effDelta_cast (δ pmin pnom : ℚ) : ((effDelta δ pmin pnom : ℚ) : ℝ) = effDeltaR δ pmin pnom := by
  unfold effDelta effDeltaR
  have : (δ ≤ (pnom - pmin) / 2) ↔ ((δ : ℝ) ≤ ((pnom : ℝ) - pmin) / 2) := by
    rw [← Rat.cast_sub, show ((2 : ℝ)) = ((2 : ℚ) : ℝ) by norm_num, ← Rat.cast_div, Rat.cast_le]
  by_cases h : δ ≤ (pnom - pmin) / 2
  · rw [if_pos h, if_pos (this.1 h)]
  · rw [if_neg h, if_neg (fun hh => h (this.2 hh))]; push_cast; ring

/-- coefficients of the lower-band polynomial for band width `d`: generated `cubic_spline` on the documented end data
(which is what the generated `pdd_poly_coeffs_param.build` passes, `pddPolyBuild_spec`) -/
noncomputable def pddCo1 (pmin pnom d s e : ℝ) : ℝ × ℝ × ℝ × ℝ :=
  let i := specIn1 pmin pnom d s e
  GenC07.cubicSpline realOps i.1 i.2.1 i.2.2.1 i.2.2.2.1 i.2.2.2.2.1 i.2.2.2.2.2

noncomputable def pddCo2 (pmin pnom d s e : ℝ) : ℝ × ℝ × ℝ × ℝ :=
  let i := specIn2 pmin pnom d s e
  GenC07.cubicSpline realOps i.1 i.2.1 i.2.2.1 i.2.2.2.1 i.2.2.2.2.1 i.2.2.2.2.2

/-- delivered fraction of the requested demand as a function of gauge pressure, for band width `δ` -/
noncomputable def pddCurve (pmin pnom δ s e p : ℝ) : ℝ :=
  pddFrac realOps pmin pnom δ s e (pddCo1 pmin pnom δ s e) (pddCo2 pmin pnom δ s e) p

/-- the delivered fraction AS THE CODE COMPUTES IT for a junction with `(Pmin, Preq, e)`: `none` when a build refuses -/
noncomputable def pddCode (pmin pnom δ s e p : ℝ) : Option ℝ :=
  match GenC07.pnomBuild realOps pnom δ, GenC07.pddPolyBuild realOps pmin pnom δ s e with
  | some _, some (d, i1, i2) =>
    some (pddFrac realOps pmin pnom d s e
      (GenC07.cubicSpline realOps i1.1 i1.2.1 i1.2.2.1 i1.2.2.2.1 i1.2.2.2.2.1 i1.2.2.2.2.2)
      (GenC07.cubicSpline realOps i2.1 i2.2.1 i2.2.2.1 i2.2.2.2.1 i2.2.2.2.2.1 i2.2.2.2.2.2) p)
  | _, _ => none

/-- the code's curve is `pddCurve` at the effective band width, exactly when the parameters are accepted
(`Preq > Pmin` and `Preq > δ`) -/
theorem pddCode_eq (pmin pnom δ s e p : ℝ) :
    pddCode pmin pnom δ s e p =
      if pnom ≤ δ ∨ pnom ≤ pmin then none else some (pddCurve pmin pnom (effDeltaR δ pmin pnom) s e p) := by
  unfold pddCode
  rw [pddPolyBuild_spec, pnomBuild_spec]
  by_cases h1 : pnom ≤ δ
  · simp [h1]
  · by_cases h2 : pnom ≤ pmin
    · simp [h1, h2]
    · simp only [h1, h2, if_false, or_self, pddCurve, pddCo1, pddCo2]

/-- **`cubic_spline` interpolates**: value `f1`,`f2` and slope `df1`,`df2` at `x1 ≠ x2` (generated code) -/
theorem cubicSpline_interpolates {x1 x2 : ℝ} (hne : x1 ≠ x2) (f1 f2 df1 df2 : ℝ) :
    cubic realOps (GenC07.cubicSpline realOps x1 x2 f1 f2 df1 df2) x1 = f1 ∧
    cubic realOps (GenC07.cubicSpline realOps x1 x2 f1 f2 df1 df2) x2 = f2 ∧
    splineSlope x1 x2 f1 f2 df1 df2 x1 = df1 ∧
    splineSlope x1 x2 f1 f2 df1 df2 x2 = df2 := by
  refine ⟨?_, ?_, cubicSpline_slope_left hne .., cubicSpline_slope_right hne ..⟩
  · rw [cubicSpline_eq_hermite hne, hermite_left]
  · rw [cubicSpline_eq_hermite hne, hermite_right hne]

theorem pddCo1_eval {pmin pnom δ s e : ℝ} (hδ : 0 < δ) (p : ℝ) :
    cubic realOps (pddCo1 pmin pnom δ s e) p =
      hermite pmin (pmin + δ) 0 ((δ / (pnom - pmin)) ^ e) s (e * (δ / (pnom - pmin)) ^ (e - 1) / (pnom - pmin)) p := by
  have hne : pmin ≠ pmin + δ := by linarith
  simp only [pddCo1, specIn1]
  rw [cubicSpline_eq_hermite hne]

theorem pddCo2_eval {pmin pnom δ s e : ℝ} (hδ : 0 < δ) (p : ℝ) :
    cubic realOps (pddCo2 pmin pnom δ s e) p =
      hermite (pnom - δ) pnom (((pnom - δ - pmin) / (pnom - pmin)) ^ e) 1
        (e * ((pnom - δ - pmin) / (pnom - pmin)) ^ (e - 1) / (pnom - pmin)) s p := by
  have hne : pnom - δ ≠ pnom := by linarith
  simp only [pddCo2, specIn2]
  rw [cubicSpline_eq_hermite hne]

/-! ### 4. branches -/

section branches
variable {pmin pnom δ s e : ℝ}

/-- at or below `Pmin`: `slope·(p − Pmin)` — zero at `Pmin`, and within `slope·|p − Pmin|` of zero below -/
theorem pdd_branch_below {p : ℝ} (hp : p ≤ pmin) : pddCurve pmin pnom δ s e p = s * (p - pmin) := by
  have : p - pmin ≤ 0 := by linarith
  simp [pddCurve, pddFrac, this]

/-- between the bands: exactly `((p − Pmin)/(Preq − Pmin))^e` -/
theorem pdd_branch_middle (hδ : 0 < δ) {p : ℝ} (h1 : pmin + δ < p) (h2 : p ≤ pnom - δ) :
    pddCurve pmin pnom δ s e p = ((p - pmin) / (pnom - pmin)) ^ e := by
  have a1 : ¬ p - pmin ≤ 0 := by linarith
  have a2 : ¬ p - pmin - δ ≤ 0 := by linarith
  have a3 : p - pnom + δ ≤ 0 := by linarith
  simp [pddCurve, pddFrac, a1, a2, a3]

/-- above `Preq`: `1 + slope·(p − Preq)` — the full requested demand up to the documented smoothing slope -/
theorem pdd_branch_above (hδ : 0 < δ) (hband : 2 * δ ≤ pnom - pmin) {p : ℝ} (hp : pnom < p) :
    pddCurve pmin pnom δ s e p = s * (p - pnom) + 1 := by
  have a1 : ¬ p - pmin ≤ 0 := by linarith
  have a2 : ¬ p - pmin - δ ≤ 0 := by linarith
  have a3 : ¬ p - pnom + δ ≤ 0 := by linarith
  have a4 : ¬ p - pnom ≤ 0 := by linarith
  simp [pddCurve, pddFrac, a1, a2, a3, a4]

/-- lower band `(Pmin, Pmin+δ]`: the generated cubic, in Hermite form -/
theorem pdd_branch_band1 (hδ : 0 < δ) {p : ℝ} (h1 : pmin < p) (h2 : p ≤ pmin + δ) :
    pddCurve pmin pnom δ s e p =
      hermite pmin (pmin + δ) 0 ((δ / (pnom - pmin)) ^ e) s (e * (δ / (pnom - pmin)) ^ (e - 1) / (pnom - pmin)) p := by
  have a1 : ¬ p - pmin ≤ 0 := by linarith
  have a2 : p - pmin - δ ≤ 0 := by linarith
  simp only [pddCurve, pddFrac, realOps_le, realOps_sub, realOps_ofRat, Rat.cast_zero, decide_eq_true_eq, a1, a2, if_true, if_false]
  exact pddCo1_eval hδ p

/-- upper band `(Preq−δ, Preq]` -/
theorem pdd_branch_band2 (hδ : 0 < δ) (hband : 2 * δ ≤ pnom - pmin) {p : ℝ} (h1 : pnom - δ < p) (h2 : p ≤ pnom) :
    pddCurve pmin pnom δ s e p =
      hermite (pnom - δ) pnom (((pnom - δ - pmin) / (pnom - pmin)) ^ e) 1
        (e * ((pnom - δ - pmin) / (pnom - pmin)) ^ (e - 1) / (pnom - pmin)) s p := by
  have a1 : ¬ p - pmin ≤ 0 := by linarith
  have a2 : ¬ p - pmin - δ ≤ 0 := by linarith
  have a3 : ¬ p - pnom + δ ≤ 0 := by linarith
  have a4 : p - pnom ≤ 0 := by linarith
  simp only [pddCurve, pddFrac, realOps_le, realOps_sub, realOps_add, realOps_ofRat, Rat.cast_zero, decide_eq_true_eq,
    a1, a2, a3, a4, if_true, if_false]
  exact pddCo2_eval hδ p

/-! closed-interval versions (the value at a joint taken from either side is the same: continuity) -/

theorem pdd_on_band1 (hδ : 0 < δ) {p : ℝ} (h1 : pmin ≤ p) (h2 : p ≤ pmin + δ) :
    pddCurve pmin pnom δ s e p =
      hermite pmin (pmin + δ) 0 ((δ / (pnom - pmin)) ^ e) s (e * (δ / (pnom - pmin)) ^ (e - 1) / (pnom - pmin)) p := by
  rcases eq_or_lt_of_le h1 with h | h
  · subst h; rw [pdd_branch_below le_rfl, hermite_left]; ring
  · exact pdd_branch_band1 hδ h h2

theorem pdd_on_middle (hδ : 0 < δ) {p : ℝ} (h1 : pmin + δ ≤ p) (h2 : p ≤ pnom - δ) :
    pddCurve pmin pnom δ s e p = ((p - pmin) / (pnom - pmin)) ^ e := by
  rcases eq_or_lt_of_le h1 with h | h
  · subst h
    rw [pdd_branch_band1 hδ (by linarith) le_rfl, hermite_right (by linarith), add_sub_cancel_left]
  · exact pdd_branch_middle hδ h h2

theorem pdd_on_band2 (hδ : 0 < δ) (hband : 2 * δ ≤ pnom - pmin) {p : ℝ} (h1 : pnom - δ ≤ p) (h2 : p ≤ pnom) :
    pddCurve pmin pnom δ s e p =
      hermite (pnom - δ) pnom (((pnom - δ - pmin) / (pnom - pmin)) ^ e) 1
        (e * ((pnom - δ - pmin) / (pnom - pmin)) ^ (e - 1) / (pnom - pmin)) s p := by
  rcases eq_or_lt_of_le h1 with h | h
  · subst h
    rw [pdd_on_middle hδ (by linarith) le_rfl, hermite_left]
  · exact pdd_branch_band2 hδ hband h h2

theorem pdd_on_above (hδ : 0 < δ) (hband : 2 * δ ≤ pnom - pmin) {p : ℝ} (hp : pnom ≤ p) :
    pddCurve pmin pnom δ s e p = s * (p - pnom) + 1 := by
  rcases eq_or_lt_of_le hp with h | h
  · subst h
    rw [pdd_on_band2 hδ hband (by linarith) le_rfl, hermite_right (by linarith)]; ring
  · exact pdd_branch_above hδ hband h

end branches

/-- **branches** of the delivered demand `D·pddCurve`: below `Pmin`, between the bands, above `Preq` -/
theorem pdd_branches {pmin pnom δ s e : ℝ} (D : ℝ) (hδ : 0 < δ) (hband : 2 * δ ≤ pnom - pmin) (p : ℝ) :
    (p ≤ pmin → D * pddCurve pmin pnom δ s e p = D * s * (p - pmin)) ∧
    (pmin + δ ≤ p → p ≤ pnom - δ → D * pddCurve pmin pnom δ s e p = D * ((p - pmin) / (pnom - pmin)) ^ e) ∧
    (pnom ≤ p → D * pddCurve pmin pnom δ s e p = D * (1 + s * (p - pnom))) := by
  refine ⟨fun h => ?_, fun h1 h2 => ?_, fun h => ?_⟩
  · rw [pdd_branch_below h]; ring
  · rw [pdd_on_middle hδ h1 h2]
  · rw [pdd_on_above hδ hband h]; ring

/-- **continuity at the four joints** `Pmin, Pmin+δ, Preq−δ, Preq`: the branch on the left and the branch on the right
take the same value there (each branch is a polynomial or a power of a positive base, hence continuous inside) -/
theorem pdd_continuous {pmin pnom δ s e : ℝ} (hδ : 0 < δ) :
    -- Pmin: linear piece = lower cubic = 0
    (s * (pmin - pmin) = 0 ∧ cubic realOps (pddCo1 pmin pnom δ s e) pmin = 0) ∧
    -- Pmin+δ: lower cubic = power law
    cubic realOps (pddCo1 pmin pnom δ s e) (pmin + δ) = ((pmin + δ - pmin) / (pnom - pmin)) ^ e ∧
    -- Preq−δ: power law = upper cubic
    cubic realOps (pddCo2 pmin pnom δ s e) (pnom - δ) = ((pnom - δ - pmin) / (pnom - pmin)) ^ e ∧
    -- Preq: upper cubic = linear piece = 1
    (cubic realOps (pddCo2 pmin pnom δ s e) pnom = 1 ∧ s * (pnom - pnom) + 1 = 1) := by
  refine ⟨⟨by ring, ?_⟩, ?_, ?_, ?_, by ring⟩
  · rw [pddCo1_eval hδ, hermite_left]
  · rw [pddCo1_eval hδ, hermite_right (by linarith), add_sub_cancel_left]
  · rw [pddCo2_eval hδ, hermite_left]
  · rw [pddCo2_eval hδ, hermite_right (by linarith)]

/-! ### 5. monotonicity -/

theorem glue_below {f : ℝ → ℝ} {c b : ℝ} (h1 : ∀ x y, x ≤ y → y ≤ c → f x ≤ f y)
    (h2 : ∀ x y, c ≤ x → x ≤ y → y ≤ b → f x ≤ f y) :
    ∀ x y, x ≤ y → y ≤ b → f x ≤ f y := by
  intro x y hxy hyb
  rcases le_total y c with hy | hy
  · exact h1 x y hxy hy
  · rcases le_total c x with hx | hx
    · exact h2 x y hx hxy hyb
    · exact le_trans (h1 x c hx le_rfl) (h2 c y le_rfl hy hyb)

theorem glue_above {f : ℝ → ℝ} {c : ℝ} (h1 : ∀ x y, x ≤ y → y ≤ c → f x ≤ f y)
    (h2 : ∀ x y, c ≤ x → x ≤ y → f x ≤ f y) : ∀ x y, x ≤ y → f x ≤ f y := by
  intro x y hxy
  rcases le_total y c with hy | hy
  · exact h1 x y hxy hy
  · rcases le_total c x with hx | hx
    · exact h2 x y hx hxy
    · exact le_trans (h1 x c hx le_rfl) (h2 c y le_rfl hy)

/-- **monotone**: for every `Pmin`, `Preq` with non-overlapping bands, every exponent `0 < e ≤ 1`, and a smoothing slope
that is small against the curve (`slope·(Preq−Pmin) ≤ 3e`; with the shipped `slope = 1e-11` this is
`Preq − Pmin ≤ 3·10¹¹·e` metres), the delivered fraction is non-decreasing over ALL pressures. -/
theorem pdd_monotone {pmin pnom δ s e : ℝ} (hδ : 0 < δ) (hband : 2 * δ ≤ pnom - pmin) (he0 : 0 < e) (he1 : e ≤ 1)
    (hs0 : 0 ≤ s) (hs : s * (pnom - pmin) ≤ 3 * e) :
    ∀ p q, p ≤ q → pddCurve pmin pnom δ s e p ≤ pddCurve pmin pnom δ s e q := by
  have hR : 0 < pnom - pmin := by linarith
  -- r = δ/R ∈ (0, 1/2], u = 1 − r ∈ [1/2, 1)
  obtain ⟨r, hr⟩ : ∃ r, r = δ / (pnom - pmin) := ⟨_, rfl⟩
  have hr0 : 0 < r := by rw [hr]; exact div_pos hδ hR
  have hr2 : r ≤ 1 / 2 := by rw [hr, div_le_iff₀ hR]; linarith
  have hrR : r * (pnom - pmin) = δ := by rw [hr]; field_simp
  obtain ⟨u, hu⟩ : ∃ u, u = (pnom - δ - pmin) / (pnom - pmin) := ⟨_, rfl⟩
  have hur : u = 1 - r := by rw [hu, hr]; field_simp; ring
  have hu0 : 0 < u := by rw [hur]; linarith
  have hu1 : u < 1 := by rw [hur]; linarith
  have hu2 : 1 / 2 ≤ u := by rw [hur]; linarith
  -- power facts
  have hre_pos : 0 < r ^ e := Real.rpow_pos_of_pos hr0 e
  have hre_ge : r ≤ r ^ e := by
    have := Real.rpow_le_rpow_of_exponent_ge hr0 (by linarith) he1
    simpa using this
  have hre1 : r ^ (e - 1) * r = r ^ e := by
    rw [Real.rpow_sub_one hr0.ne']; field_simp
  have hue_pos : 0 < u ^ e := Real.rpow_pos_of_pos hu0 e
  have hue_le : u ^ e ≤ 1 - e * r := by
    have := rpow_one_add_le_one_add_mul_self (s := -r) (by linarith) he0.le he1
    have h' : (1 : ℝ) + -r = u := by rw [hur]; ring
    rw [h'] at this; linarith
  have hue1 : u ^ (e - 1) * u = u ^ e := by
    rw [Real.rpow_sub_one hu0.ne']; field_simp
  have hue_lt1 : u ^ e ≤ 1 := Real.rpow_le_one hu0.le hu1.le he0.le
  have hum1 : u ^ (e - 1) ≤ 2 := by
    have hpos : 0 < u ^ (e - 1) := Real.rpow_pos_of_pos hu0 _
    nlinarith
  have hum1_pos : 0 < u ^ (e - 1) := Real.rpow_pos_of_pos hu0 _
  have hrm1_pos : 0 < r ^ (e - 1) := Real.rpow_pos_of_pos hr0 _
  have hsr : s * δ ≤ 3 * e * r := by
    have : s * δ = (s * (pnom - pmin)) * r := by rw [← hrR]; ring
    rw [this]; nlinarith
  -- piece 1
  have m1 : ∀ x y, x ≤ y → y ≤ pmin → pddCurve pmin pnom δ s e x ≤ pddCurve pmin pnom δ s e y := by
    intro x y hxy hy
    rw [pdd_branch_below (le_trans hxy hy), pdd_branch_below hy]
    nlinarith
  -- piece 2
  have m2 : ∀ x y, pmin ≤ x → x ≤ y → y ≤ pmin + δ → pddCurve pmin pnom δ s e x ≤ pddCurve pmin pnom δ s e y := by
    intro x y hx hxy hy
    rw [pdd_on_band1 hδ hx (le_trans hxy hy), pdd_on_band1 hδ (le_trans hx hxy) hy, ← hr]
    apply hermite_mono (by linarith) hs0 _ _ _ hx hxy hy
    · rw [add_sub_cancel_left]; nlinarith
    · exact div_nonneg (mul_nonneg he0.le hrm1_pos.le) hR.le
    · rw [add_sub_cancel_left]
      have : δ * (e * r ^ (e - 1) / (pnom - pmin)) = e * (r ^ (e - 1) * r) := by rw [hr]; field_simp
      rw [this, hre1]; nlinarith
  -- piece 3
  have m3 : ∀ x y, pmin + δ ≤ x → x ≤ y → y ≤ pnom - δ → pddCurve pmin pnom δ s e x ≤ pddCurve pmin pnom δ s e y := by
    intro x y hx hxy hy
    rw [pdd_on_middle hδ hx (le_trans hxy hy), pdd_on_middle hδ (le_trans hx hxy) hy]
    apply Real.rpow_le_rpow (div_nonneg (by linarith) hR.le) _ he0.le
    exact div_le_div_of_nonneg_right (by linarith) hR.le
  -- piece 4
  have m4 : ∀ x y, pnom - δ ≤ x → x ≤ y → y ≤ pnom → pddCurve pmin pnom δ s e x ≤ pddCurve pmin pnom δ s e y := by
    intro x y hx hxy hy
    rw [pdd_on_band2 hδ hband hx (le_trans hxy hy), pdd_on_band2 hδ hband (le_trans hx hxy) hy, ← hu]
    have hw : pnom - (pnom - δ) = δ := by ring
    apply hermite_mono (by linarith) _ _ hs0 _ hx hxy hy
    · exact div_nonneg (mul_nonneg he0.le hum1_pos.le) hR.le
    · rw [hw]
      have : δ * (e * u ^ (e - 1) / (pnom - pmin)) = e * r * u ^ (e - 1) := by rw [hr]; field_simp
      rw [this]
      have h3 : e * r * u ^ (e - 1) ≤ e * r * 2 := by
        apply mul_le_mul_of_nonneg_left hum1; positivity
      nlinarith
    · rw [hw]; nlinarith
  -- piece 5
  have m5 : ∀ x y, pnom ≤ x → x ≤ y → pddCurve pmin pnom δ s e x ≤ pddCurve pmin pnom δ s e y := by
    intro x y hx hxy
    rw [pdd_on_above hδ hband hx, pdd_on_above hδ hband (le_trans hx hxy)]
    nlinarith
  have g2 := glue_below m1 m2
  have g3 := glue_below g2 m3
  have g4 := glue_below g3 m4
  exact glue_above g4 m5

/-- delivered demand `D·fraction` is non-decreasing in pressure for every requested demand `D ≥ 0` (incl. zero) -/
theorem pdd_delivered_monotone {pmin pnom δ s e D : ℝ} (hD : 0 ≤ D) (hδ : 0 < δ) (hband : 2 * δ ≤ pnom - pmin)
    (he0 : 0 < e) (he1 : e ≤ 1) (hs0 : 0 ≤ s) (hs : s * (pnom - pmin) ≤ 3 * e) {p q : ℝ} (hpq : p ≤ q) :
    D * pddCurve pmin pnom δ s e p ≤ D * pddCurve pmin pnom δ s e q :=
  mul_le_mul_of_nonneg_left (pdd_monotone hδ hband he0 he1 hs0 hs p q hpq) hD

/-- bounds: the delivered fraction stays within `[slope·(p−Pmin), 1 + slope·(p−Preq)]`-style limits: it is 0 at `Pmin`,
1 at `Preq`, and between 0 and 1 for pressures between them -/
theorem pdd_between {pmin pnom δ s e : ℝ} (hδ : 0 < δ) (hband : 2 * δ ≤ pnom - pmin) (he0 : 0 < e) (he1 : e ≤ 1)
    (hs0 : 0 ≤ s) (hs : s * (pnom - pmin) ≤ 3 * e) {p : ℝ} (h1 : pmin ≤ p) (h2 : p ≤ pnom) :
    0 ≤ pddCurve pmin pnom δ s e p ∧ pddCurve pmin pnom δ s e p ≤ 1 := by
  have hm := pdd_monotone hδ hband he0 he1 hs0 hs
  have a := hm pmin p h1
  have b := hm p pnom h2
  rw [pdd_branch_below le_rfl] at a
  rw [pdd_on_above hδ hband le_rfl] at b
  constructor <;> nlinarith

/-! ### 6. the shipped constants satisfy the hypotheses -/

theorem shipped_constants_ok :
    (0 : Rat) < GenC07.pddDelta ∧ (0 : Rat) ≤ GenC07.pddSlope ∧ GenC07.pddSlope ≤ 1 / 10 ^ 10 ∧
    GenC07.pddDelta ≤ 51 / 1000 ∧ 49 / 1000 ≤ GenC07.pddDelta := by decide +kernel

theorem shipped_constants_real :
    (0 : ℝ) < (GenC07.pddDelta : ℝ) ∧ (0 : ℝ) ≤ (GenC07.pddSlope : ℝ) ∧ (GenC07.pddSlope : ℝ) ≤ 1 / 10 ^ 10 ∧
    (GenC07.pddDelta : ℝ) ≤ 51 / 1000 ∧ (49 / 1000 : ℝ) ≤ (GenC07.pddDelta : ℝ) := by
  obtain ⟨h1, h2, h3, h4, h5⟩ := shipped_constants_ok
  have c1 := (Rat.cast_lt (K := ℝ)).2 h1
  have c2 := (Rat.cast_le (K := ℝ)).2 h2
  have c3 := (Rat.cast_le (K := ℝ)).2 h3
  have c4 := (Rat.cast_le (K := ℝ)).2 h4
  have c5 := (Rat.cast_le (K := ℝ)).2 h5
  push_cast at c1 c2 c3 c4 c5
  exact ⟨c1, c2, c3, c4, c5⟩

/-! ### 7. the full statement, without a band hypothesis, for every parameter set the (repaired) build accepts -/

/-- full-strength monotonicity of the curve THE CODE computes: ANY `Pmin < Preq` -/
def PddMonotoneFull : Prop :=
  ∀ pmin pnom e : ℝ, pmin < pnom → 0 < e → e ≤ 1 → (GenC07.pddSlope : ℝ) * (pnom - pmin) ≤ 3 * e →
    ∀ p q, p ≤ q →
      pddCurve pmin pnom (effDeltaR (GenC07.pddDelta : ℝ) pmin pnom) (GenC07.pddSlope : ℝ) e p ≤
      pddCurve pmin pnom (effDeltaR (GenC07.pddDelta : ℝ) pmin pnom) (GenC07.pddSlope : ℝ) e q

/-- **monotone, full**: with the band width the repaired code stores, the delivered fraction is non-decreasing over all
pressures for EVERY `Pmin < Preq` (no hypothesis on `Preq − Pmin`), every exponent in (0,1] -/
theorem pdd_monotone_full : PddMonotoneFull := by
  intro pmin pnom e h he0 he1 hs
  obtain ⟨hδ, hs0, -, -, -⟩ := shipped_constants_real
  exact pdd_monotone (effDeltaR_pos hδ h) effDeltaR_band he0 he1 hs0 hs

/-- **the documented curve, full**: for every `Pmin < Preq`, exponent in (0,1], requested demand `D ≥ 0`, the delivered demand
`D · curve` with the code's band width `d = min(δ, (Preq−Pmin)/2) ≤ δ` is
`D·slope·(p−Pmin)` (zero up to the smoothing slope) at or below `Pmin`, `D·(1+slope·(p−Preq))` (the full demand) at or above
`Preq`, `D·((p−Pmin)/(Preq−Pmin))^e` between the bands `[Pmin+d, Preq−d]`, between `0` and `D` inside, neighbouring
branches agree at the four joints, and it is non-decreasing over the whole line -/
theorem pdd_full_statement (pmin pnom e D : ℝ) (h : pmin < pnom) (he0 : 0 < e) (he1 : e ≤ 1) (hD : 0 ≤ D)
    (hs : (GenC07.pddSlope : ℝ) * (pnom - pmin) ≤ 3 * e) :
    let δ := (GenC07.pddDelta : ℝ)
    let s := (GenC07.pddSlope : ℝ)
    let d := effDeltaR δ pmin pnom
    let f := fun p => D * pddCurve pmin pnom d s e p
    (0 < d ∧ d ≤ δ ∧ 2 * d ≤ pnom - pmin) ∧
    (∀ p, p ≤ pmin → f p = D * s * (p - pmin)) ∧
    (∀ p, pnom ≤ p → f p = D * (1 + s * (p - pnom))) ∧
    (∀ p, pmin + d ≤ p → p ≤ pnom - d → f p = D * ((p - pmin) / (pnom - pmin)) ^ e) ∧
    (∀ p, pmin ≤ p → p ≤ pnom → 0 ≤ f p ∧ f p ≤ D) ∧
    (cubic realOps (pddCo1 pmin pnom d s e) pmin = 0 ∧
     cubic realOps (pddCo1 pmin pnom d s e) (pmin + d) = ((pmin + d - pmin) / (pnom - pmin)) ^ e ∧
     cubic realOps (pddCo2 pmin pnom d s e) (pnom - d) = ((pnom - d - pmin) / (pnom - pmin)) ^ e ∧
     cubic realOps (pddCo2 pmin pnom d s e) pnom = 1) ∧
    (∀ p q, p ≤ q → f p ≤ f q) := by
  intro δ s d f
  obtain ⟨hδ, hs0, -, -, -⟩ := shipped_constants_real
  have hd : 0 < d := effDeltaR_pos hδ h
  have hband : 2 * d ≤ pnom - pmin := effDeltaR_band
  have hc := pdd_continuous (pmin := pmin) (pnom := pnom) (s := s) (e := e) hd
  refine ⟨⟨hd, effDeltaR_le.1, hband⟩, ?_, ?_, ?_, ?_, ⟨hc.1.2, hc.2.1, hc.2.2.1, hc.2.2.2.1⟩, ?_⟩
  · intro p hp; exact (pdd_branches D hd hband p).1 hp
  · intro p hp; exact (pdd_branches D hd hband p).2.2 hp
  · intro p h1 h2; exact (pdd_branches D hd hband p).2.1 h1 h2
  · intro p h1 h2
    obtain ⟨a, b⟩ := pdd_between hd hband he0 he1 hs0 hs h1 h2
    exact ⟨mul_nonneg hD a, by simpa using mul_le_mul_of_nonneg_left b hD⟩
  · intro p q hpq
    exact mul_le_mul_of_nonneg_left (pdd_monotone hd hband he0 he1 hs0 hs p q hpq) hD

/-- and this IS the curve the code computes whenever it accepts the parameters (`pddCode_eq`): accepted ⇒ full statement -/
theorem pdd_code_monotone (pmin pnom e : ℝ) (he0 : 0 < e) (he1 : e ≤ 1)
    (hs : (GenC07.pddSlope : ℝ) * (pnom - pmin) ≤ 3 * e) (p q : ℝ) (hpq : p ≤ q) (fp fq : ℝ)
    (h1 : pddCode pmin pnom (GenC07.pddDelta : ℝ) (GenC07.pddSlope : ℝ) e p = some fp)
    (h2 : pddCode pmin pnom (GenC07.pddDelta : ℝ) (GenC07.pddSlope : ℝ) e q = some fq) : fp ≤ fq := by
  rw [pddCode_eq] at h1 h2
  by_cases hr : pnom ≤ (GenC07.pddDelta : ℝ) ∨ pnom ≤ pmin
  · simp [hr] at h1
  · simp only [hr, if_false, Option.some.injEq] at h1 h2
    rw [← h1, ← h2]
    exact pdd_monotone_full pmin pnom e (lt_of_not_ge (fun hh => hr (Or.inr hh))) he0 he1 hs p q hpq

/-- why the band width must adapt (the UNREPAIRED code used the fixed `δ`): with a fixed band width the curve is NOT monotone
for `Pmin = 1`, `Preq = 1.03`, `e = 1` (≥ 1.6 at `p = Pmin + δ`, ≈ 1 at `p = 2`) — the recorded defect `pdd-band-overlap` -/
theorem pdd_fixed_band_counterexample :
    ¬ (∀ pmin pnom e : ℝ, pmin < pnom → 0 < e → e ≤ 1 →
        ∀ p q, p ≤ q → pddCurve pmin pnom (GenC07.pddDelta : ℝ) (GenC07.pddSlope : ℝ) e p ≤
                        pddCurve pmin pnom (GenC07.pddDelta : ℝ) (GenC07.pddSlope : ℝ) e q) := by
  intro h
  obtain ⟨hδ, hs0, hs1, hδhi, hδlo⟩ := shipped_constants_real
  have := h 1 (103 / 100) 1 (by norm_num) (by norm_num) le_rfl (1 + (GenC07.pddDelta : ℝ)) 2 (by linarith)
  rw [pdd_on_band1 hδ (by linarith) le_rfl, hermite_right (by linarith)] at this
  have a1 : ¬ (2 : ℝ) - 1 ≤ 0 := by norm_num
  have a2 : ¬ (2 : ℝ) - 1 - (GenC07.pddDelta : ℝ) ≤ 0 := by linarith
  have a3 : ¬ (2 : ℝ) - 103 / 100 + (GenC07.pddDelta : ℝ) ≤ 0 := by linarith
  have a4 : ¬ (2 : ℝ) - 103 / 100 ≤ 0 := by norm_num
  simp only [pddCurve, pddFrac, realOps_le, realOps_sub, realOps_add, realOps_mul, realOps_ofRat, Rat.cast_zero,
    Rat.cast_one, decide_eq_true_eq, a1, a2, a3, a4, if_false, Real.rpow_one] at this
  have hq : (49 / 1000 : ℝ) / (103 / 100 - 1) ≤ (GenC07.pddDelta : ℝ) / (103 / 100 - 1) :=
    div_le_div_of_nonneg_right hδlo (by norm_num)
  norm_num at hq this
  linarith

/-! ### 8. the rows and parameters are rebuilt when what they depend on changes (ModelUpdater registrations) -/

/-- for every junction of the zoo `create_hydraulic_model` registered, for the Definition class that owns it, every attribute
the PDD row / its parameters / the PDD mass balance / the leak row depend on — in particular `pressure_exponent` for BOTH
`pdd_constraint` and `pdd_poly_coeffs_param` (REPAIRED), `minimum_pressure` and `required_pressure` for the value parameters
AND the smoothing coefficients.  A dropped or mis-keyed `updater.add(node, attr, …)` breaks this. -/
theorem updater_registers_pdd :
    (GenC07.regs.all fun n => subsetB pddDeps n.regs && subsetB (balanceDeps true) n.regs && subsetB (leakDeps false) n.regs) = true ∧
    GenC07.regs.map (·.name) = GenC07.zoo.map (·.name) := by
  constructor <;> decide +kernel

/-- **what a Definition reads, it is re-run for**: every node attribute the `build` of a PDD Definition really READS (recorded at
run time) is registered for that Definition on every zoo junction; and the recorded reads are the documented ones -/
theorem pdd_definitions_rebuilt_on_what_they_read :
    (GenC07.regs.all (readsRegistered GenC07.defReads)) = true ∧
    GenC07.defReads =
      [⟨"pdd_mass_balance_constraint", false, ["_is_isolated", "leak_status"]⟩,
       ⟨"pdd_constraint", false, ["_is_isolated", "pressure_exponent"]⟩,
       ⟨"pmin_param", false, ["minimum_pressure"]⟩,
       ⟨"pnom_param", false, ["required_pressure"]⟩,
       ⟨"pdd_poly_coeffs_param", false, ["minimum_pressure", "pressure_exponent", "required_pressure"]⟩,
       ⟨"elevation_param", false, ["elevation"]⟩] := by
  constructor <;> decide +kernel

/-- the consequence, for ANY registrations, any Definition and any two configurations: if every attribute the Definition reads
is registered for it, then after the model update the Definition is built from values that agree with the CURRENT
configuration on everything it reads — the row / parameter in the model is the one of the current attributes -/
theorem updateDef_current (regs : List (String × String)) (cls : String) (vocab reads : List String) (built cur : Attrs)
    (hv : ∀ a ∈ reads, a ∈ vocab) (hr : ∀ a ∈ reads, (a, cls) ∈ regs) :
    ∀ a ∈ reads, updateDef regs cls vocab built cur a = cur a := by
  intro a ha
  unfold updateDef
  split_ifs with h
  · rfl
  · by_contra hne
    apply h
    rw [List.any_eq_true]
    refine ⟨a, ?_, by simpa using hr a ha⟩
    simp only [changedAttrs, List.mem_filter, bne_iff_ne, ne_eq]
    exact ⟨hv a ha, hne⟩

/-- and it is needed: with `pressure_exponent` NOT registered for `pdd_constraint` (the unrepaired code) a changed exponent
leaves the row built from the old one -/
theorem updateDef_unregistered_stale :
    let regs := [("_is_isolated", "pdd_constraint")]
    let built : Attrs := fun a => if a = "pressure_exponent" then 5 else 0
    let cur : Attrs := fun a => if a = "pressure_exponent" then 10 else 0
    updateDef regs "pdd_constraint" ["_is_isolated", "pressure_exponent"] built cur "pressure_exponent" = 5 := by
  decide

/-! ### non-vacuity -/

/-- the hypotheses of `pdd_full_statement` are satisfiable, also with overlapping shipped bands: WNTR's DEFAULT options
`Pmin = 0`, `Preq = 0.07`, `e = 1/2` -/
example : (0 : ℝ) < 7 / 100 ∧ (0 : ℝ) < 1 / 2 ∧ (1 / 2 : ℝ) ≤ 1 ∧
    ((GenC07.pddSlope : ℚ) : ℝ) * (7 / 100 - 0) ≤ 3 * (1 / 2) ∧
    effDeltaR ((GenC07.pddDelta : ℚ) : ℝ) 0 (7 / 100) = 7 / 200 := by
  obtain ⟨-, -, h2, h1, h0⟩ := shipped_constants_real
  refine ⟨by norm_num, by norm_num, by norm_num, by nlinarith, ?_⟩
  unfold effDeltaR
  rw [if_neg (by norm_num; linarith)]; norm_num

/-- the zoo really contains non-isolated junctions with a row (one of them with `Preq − Pmin < 2δ`), and an isolated one without -/
example : (GenC07.zoo.filter (fun z => z.row.isSome)).length = 10 ∧ (GenC07.zoo.filter (fun z => z.isolated)).length = 1 ∧
    (GenC07.zoo.filter (fun z => z.deltaVal != some GenC07.pddDelta && z.row.isSome)).length = 1 := by
  decide +kernel

end Wntr.Rows
