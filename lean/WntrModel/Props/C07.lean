/-
C07 — pressure-dependent demand follows the documented pressure–demand curve.

Everything below is about definitions REGENERATED from the current source on every run (Gen/RowsC07.lean):
the `m.pdd[j]` rows of a zoo network, `cubic_spline`, the spline end data computed by
`pdd_poly_coeffs_param.build`, and `pdd_constants`.  Theorems quantify over every real pressure, every
`Pmin, Preq` (with non-overlapping smoothing bands), every exponent in (0,1], every requested demand ≥ 0.
-/
import WntrModel.Lemmas.RowsSplineGen
import Mathlib.Analysis.Convex.SpecificFunctions.Basic

set_option linter.unusedSimpArgs false

namespace Wntr.Rows
open Wntr.Aml

/-! ### 1. the generated rows are instances of the parametric row; per-junction overrides -/

/-- `m.pdd[j]` of every zoo junction IS `pddRow` at the junction's own leaf indices with the exponent chosen by the
documented rule (own value if set, else global option), `m.pmin[j]`/`m.pnom[j]` carry the value chosen by the same
rule, for all 8 own/None combinations; an isolated junction has no row. -/
theorem gen_rows_are_pddRow :
    GenC07.zoo.all (fun z => z.ok GenC07.pddDelta GenC07.pddSlope GenC07.globPmin GenC07.globPnom GenC07.globExp) = true := by
  decide +kernel

/-- all 8 override combinations (own minimum_pressure?, required_pressure?, pressure_exponent?) occur, non-isolated -/
theorem gen_zoo_covers_overrides :
    (GenC07.zoo.filter (fun z => !z.isolated)).map (fun z => (z.ownPmin.isSome, z.ownPnom.isSome, z.ownExp.isSome)) ⊇
      [(false, false, false), (false, false, true), (false, true, false), (false, true, true),
       (true, false, false), (true, false, true), (true, true, false), (true, true, true)] := by
  decide +kernel

/-- per-junction override, part 2: a junction's parameters are mentioned by no other junction's row -/
theorem pdd_per_junction_override_rows_disjoint : pairwiseDisjoint GenC07.zoo = true := by decide +kernel

/-- per-junction override, part 3: `pdd_poly_coeffs_param.build` (symbolically executed for the 8 combinations) reads the
junction's own minimum/required pressure and exponent exactly when they are set, else the global option -/
theorem pdd_per_junction_override_coeffs :
    GenC07.pddCoeffSel.all selOk = true ∧
    GenC07.pddCoeffSel.map (fun r => (r.1, r.2.1, r.2.2.1)) =
      [(false, false, false), (false, false, true), (false, true, false), (false, true, true),
       (true, false, false), (true, false, true), (true, true, false), (true, true, true)] := by
  decide +kernel

/-- the rule, spelled out on `choose` -/
theorem pdd_per_junction_override (own : Option Rat) (glob : Rat) :
    choose own glob = match own with | some v => v | none => glob := by
  cases own <;> rfl

/-! ### 2. what a row evaluates to (any leaf values, any junction) -/

/-- residual of the row = demand − requested · (delivered fraction at the gauge pressure `head − elevation`) -/
theorem pddRow_eval (env : Env ℝ) (ix : PddIx) (delta slope e : ℚ) :
    eval realOps env (pddRow ix delta slope e) =
      env.var ix.demand - env.param ix.expected *
        pddFrac realOps (env.param ix.pmin) (env.param ix.pnom) (delta : ℝ) (slope : ℝ) (e : ℝ)
          (env.param ix.a1, env.param ix.b1, env.param ix.c1, env.param ix.d1)
          (env.param ix.a2, env.param ix.b2, env.param ix.c2, env.param ix.d2)
          (env.var ix.head - env.param ix.elev) := by
  simp only [pddRow, condExpr, eval, eSub, eAdd, eMul, eDiv, ePow, eCubic, Ops.bin, isOne_ofBool, pddFrac, cubic,
    realOps_add, realOps_sub, realOps_mul, realOps_div, realOps_pow, realOps_ofRat, realOps_le, Bool.true_and,
    decide_eq_true_eq]
  split_ifs <;> ring

/-! ### 3. the curve with the coefficients the code computes -/

/-- coefficients of the lower-band polynomial: `cubic_spline(*pdd_poly_coeffs_param inputs)`, both generated -/
noncomputable def pddCo1 (pmin pnom δ s e : ℝ) : ℝ × ℝ × ℝ × ℝ :=
  let i := GenC07.pddSplineIn1 realOps pmin pnom δ s e
  GenC07.cubicSpline realOps i.1 i.2.1 i.2.2.1 i.2.2.2.1 i.2.2.2.2.1 i.2.2.2.2.2

noncomputable def pddCo2 (pmin pnom δ s e : ℝ) : ℝ × ℝ × ℝ × ℝ :=
  let i := GenC07.pddSplineIn2 realOps pmin pnom δ s e
  GenC07.cubicSpline realOps i.1 i.2.1 i.2.2.1 i.2.2.2.1 i.2.2.2.2.1 i.2.2.2.2.2

/-- delivered fraction of the requested demand as a function of gauge pressure -/
noncomputable def pddCurve (pmin pnom δ s e p : ℝ) : ℝ :=
  pddFrac realOps pmin pnom δ s e (pddCo1 pmin pnom δ s e) (pddCo2 pmin pnom δ s e) p

/-- **`cubic_spline` interpolates**: value `f1`,`f2` and slope `df1`,`df2` at `x1 ≠ x2` (generated code) -/
theorem cubicSpline_interpolates {x1 x2 : ℝ} (hne : x1 ≠ x2) (f1 f2 df1 df2 : ℝ) :
    cubic realOps (GenC07.cubicSpline realOps x1 x2 f1 f2 df1 df2) x1 = f1 ∧
    cubic realOps (GenC07.cubicSpline realOps x1 x2 f1 f2 df1 df2) x2 = f2 ∧
    splineSlope x1 x2 f1 f2 df1 df2 x1 = df1 ∧
    splineSlope x1 x2 f1 f2 df1 df2 x2 = df2 := by
  refine ⟨?_, ?_, cubicSpline_slope_left hne .., cubicSpline_slope_right hne ..⟩
  · rw [cubicSpline_eq_hermite hne, hermite_left]
  · rw [cubicSpline_eq_hermite hne, hermite_right hne]

theorem pddCo1_eval {pmin pnom δ s e : ℝ} (hδ : 0 < δ) (p : ℝ) :
    cubic realOps (pddCo1 pmin pnom δ s e) p =
      hermite pmin (pmin + δ) 0 ((δ / (pnom - pmin)) ^ e) s (e * (δ / (pnom - pmin)) ^ (e - 1) / (pnom - pmin)) p := by
  have hne : pmin ≠ pmin + δ := by linarith
  simp only [pddCo1, GenC07.pddSplineIn1, realOps_add, realOps_sub, realOps_mul, realOps_div, realOps_pow, realOps_ofRat]
  rw [cubicSpline_eq_hermite hne]
  simp only [add_sub_cancel_left, Rat.cast_zero, Rat.cast_one, mul_one]

theorem pddCo2_eval {pmin pnom δ s e : ℝ} (hδ : 0 < δ) (p : ℝ) :
    cubic realOps (pddCo2 pmin pnom δ s e) p =
      hermite (pnom - δ) pnom (((pnom - δ - pmin) / (pnom - pmin)) ^ e) 1
        (e * ((pnom - δ - pmin) / (pnom - pmin)) ^ (e - 1) / (pnom - pmin)) s p := by
  have hne : pnom - δ ≠ pnom := by linarith
  simp only [pddCo2, GenC07.pddSplineIn2, realOps_add, realOps_sub, realOps_mul, realOps_div, realOps_pow, realOps_ofRat]
  rw [cubicSpline_eq_hermite hne]
  simp only [Rat.cast_zero, Rat.cast_one, mul_one]

/-! ### 4. branches -/

section branches
variable {pmin pnom δ s e : ℝ}

/-- at or below `Pmin`: `slope·(p − Pmin)` — zero at `Pmin`, and within `slope·|p − Pmin|` of zero below -/
theorem pdd_branch_below {p : ℝ} (hp : p ≤ pmin) : pddCurve pmin pnom δ s e p = s * (p - pmin) := by
  have : p - pmin ≤ 0 := by linarith
  simp [pddCurve, pddFrac, this]

/-- between the bands: exactly `((p − Pmin)/(Preq − Pmin))^e` -/
theorem pdd_branch_middle (hδ : 0 < δ) {p : ℝ} (h1 : pmin + δ < p) (h2 : p ≤ pnom - δ) :
    pddCurve pmin pnom δ s e p = ((p - pmin) / (pnom - pmin)) ^ e := by
  have a1 : ¬ p - pmin ≤ 0 := by linarith
  have a2 : ¬ p - pmin - δ ≤ 0 := by linarith
  have a3 : p - pnom + δ ≤ 0 := by linarith
  simp [pddCurve, pddFrac, a1, a2, a3]

/-- above `Preq`: `1 + slope·(p − Preq)` — the full requested demand up to the documented smoothing slope -/
theorem pdd_branch_above (hδ : 0 < δ) (hband : 2 * δ ≤ pnom - pmin) {p : ℝ} (hp : pnom < p) :
    pddCurve pmin pnom δ s e p = s * (p - pnom) + 1 := by
  have a1 : ¬ p - pmin ≤ 0 := by linarith
  have a2 : ¬ p - pmin - δ ≤ 0 := by linarith
  have a3 : ¬ p - pnom + δ ≤ 0 := by linarith
  have a4 : ¬ p - pnom ≤ 0 := by linarith
  simp [pddCurve, pddFrac, a1, a2, a3, a4]

/-- lower band `(Pmin, Pmin+δ]`: the generated cubic, in Hermite form -/
theorem pdd_branch_band1 (hδ : 0 < δ) {p : ℝ} (h1 : pmin < p) (h2 : p ≤ pmin + δ) :
    pddCurve pmin pnom δ s e p =
      hermite pmin (pmin + δ) 0 ((δ / (pnom - pmin)) ^ e) s (e * (δ / (pnom - pmin)) ^ (e - 1) / (pnom - pmin)) p := by
  have a1 : ¬ p - pmin ≤ 0 := by linarith
  have a2 : p - pmin - δ ≤ 0 := by linarith
  simp only [pddCurve, pddFrac, realOps_le, realOps_sub, realOps_ofRat, Rat.cast_zero, decide_eq_true_eq, a1, a2, if_true, if_false]
  exact pddCo1_eval hδ p

/-- upper band `(Preq−δ, Preq]` -/
theorem pdd_branch_band2 (hδ : 0 < δ) (hband : 2 * δ ≤ pnom - pmin) {p : ℝ} (h1 : pnom - δ < p) (h2 : p ≤ pnom) :
    pddCurve pmin pnom δ s e p =
      hermite (pnom - δ) pnom (((pnom - δ - pmin) / (pnom - pmin)) ^ e) 1
        (e * ((pnom - δ - pmin) / (pnom - pmin)) ^ (e - 1) / (pnom - pmin)) s p := by
  have a1 : ¬ p - pmin ≤ 0 := by linarith
  have a2 : ¬ p - pmin - δ ≤ 0 := by linarith
  have a3 : ¬ p - pnom + δ ≤ 0 := by linarith
  have a4 : p - pnom ≤ 0 := by linarith
  simp only [pddCurve, pddFrac, realOps_le, realOps_sub, realOps_add, realOps_ofRat, Rat.cast_zero, decide_eq_true_eq,
    a1, a2, a3, a4, if_true, if_false]
  exact pddCo2_eval hδ p

/-! closed-interval versions (the value at a joint taken from either side is the same: continuity) -/

theorem pdd_on_band1 (hδ : 0 < δ) {p : ℝ} (h1 : pmin ≤ p) (h2 : p ≤ pmin + δ) :
    pddCurve pmin pnom δ s e p =
      hermite pmin (pmin + δ) 0 ((δ / (pnom - pmin)) ^ e) s (e * (δ / (pnom - pmin)) ^ (e - 1) / (pnom - pmin)) p := by
  rcases eq_or_lt_of_le h1 with h | h
  · subst h; rw [pdd_branch_below le_rfl, hermite_left]; ring
  · exact pdd_branch_band1 hδ h h2

theorem pdd_on_middle (hδ : 0 < δ) {p : ℝ} (h1 : pmin + δ ≤ p) (h2 : p ≤ pnom - δ) :
    pddCurve pmin pnom δ s e p = ((p - pmin) / (pnom - pmin)) ^ e := by
  rcases eq_or_lt_of_le h1 with h | h
  · subst h
    rw [pdd_branch_band1 hδ (by linarith) le_rfl, hermite_right (by linarith), add_sub_cancel_left]
  · exact pdd_branch_middle hδ h h2

theorem pdd_on_band2 (hδ : 0 < δ) (hband : 2 * δ ≤ pnom - pmin) {p : ℝ} (h1 : pnom - δ ≤ p) (h2 : p ≤ pnom) :
    pddCurve pmin pnom δ s e p =
      hermite (pnom - δ) pnom (((pnom - δ - pmin) / (pnom - pmin)) ^ e) 1
        (e * ((pnom - δ - pmin) / (pnom - pmin)) ^ (e - 1) / (pnom - pmin)) s p := by
  rcases eq_or_lt_of_le h1 with h | h
  · subst h
    rw [pdd_on_middle hδ (by linarith) le_rfl, hermite_left]
  · exact pdd_branch_band2 hδ hband h h2

theorem pdd_on_above (hδ : 0 < δ) (hband : 2 * δ ≤ pnom - pmin) {p : ℝ} (hp : pnom ≤ p) :
    pddCurve pmin pnom δ s e p = s * (p - pnom) + 1 := by
  rcases eq_or_lt_of_le hp with h | h
  · subst h
    rw [pdd_on_band2 hδ hband (by linarith) le_rfl, hermite_right (by linarith)]; ring
  · exact pdd_branch_above hδ hband h

end branches

/-- **branches** of the delivered demand `D·pddCurve`: below `Pmin`, between the bands, above `Preq` -/
theorem pdd_branches {pmin pnom δ s e : ℝ} (D : ℝ) (hδ : 0 < δ) (hband : 2 * δ ≤ pnom - pmin) (p : ℝ) :
    (p ≤ pmin → D * pddCurve pmin pnom δ s e p = D * s * (p - pmin)) ∧
    (pmin + δ ≤ p → p ≤ pnom - δ → D * pddCurve pmin pnom δ s e p = D * ((p - pmin) / (pnom - pmin)) ^ e) ∧
    (pnom ≤ p → D * pddCurve pmin pnom δ s e p = D * (1 + s * (p - pnom))) := by
  refine ⟨fun h => ?_, fun h1 h2 => ?_, fun h => ?_⟩
  · rw [pdd_branch_below h]; ring
  · rw [pdd_on_middle hδ h1 h2]
  · rw [pdd_on_above hδ hband h]; ring

/-- **continuity at the four joints** `Pmin, Pmin+δ, Preq−δ, Preq`: the branch on the left and the branch on the right
take the same value there (each branch is a polynomial or a power of a positive base, hence continuous inside) -/
theorem pdd_continuous {pmin pnom δ s e : ℝ} (hδ : 0 < δ) :
    -- Pmin: linear piece = lower cubic = 0
    (s * (pmin - pmin) = 0 ∧ cubic realOps (pddCo1 pmin pnom δ s e) pmin = 0) ∧
    -- Pmin+δ: lower cubic = power law
    cubic realOps (pddCo1 pmin pnom δ s e) (pmin + δ) = ((pmin + δ - pmin) / (pnom - pmin)) ^ e ∧
    -- Preq−δ: power law = upper cubic
    cubic realOps (pddCo2 pmin pnom δ s e) (pnom - δ) = ((pnom - δ - pmin) / (pnom - pmin)) ^ e ∧
    -- Preq: upper cubic = linear piece = 1
    (cubic realOps (pddCo2 pmin pnom δ s e) pnom = 1 ∧ s * (pnom - pnom) + 1 = 1) := by
  refine ⟨⟨by ring, ?_⟩, ?_, ?_, ?_, by ring⟩
  · rw [pddCo1_eval hδ, hermite_left]
  · rw [pddCo1_eval hδ, hermite_right (by linarith), add_sub_cancel_left]
  · rw [pddCo2_eval hδ, hermite_left]
  · rw [pddCo2_eval hδ, hermite_right (by linarith)]

/-! ### 5. monotonicity -/

theorem glue_below {f : ℝ → ℝ} {c b : ℝ} (h1 : ∀ x y, x ≤ y → y ≤ c → f x ≤ f y)
    (h2 : ∀ x y, c ≤ x → x ≤ y → y ≤ b → f x ≤ f y) :
    ∀ x y, x ≤ y → y ≤ b → f x ≤ f y := by
  intro x y hxy hyb
  rcases le_total y c with hy | hy
  · exact h1 x y hxy hy
  · rcases le_total c x with hx | hx
    · exact h2 x y hx hxy hyb
    · exact le_trans (h1 x c hx le_rfl) (h2 c y le_rfl hy hyb)

theorem glue_above {f : ℝ → ℝ} {c : ℝ} (h1 : ∀ x y, x ≤ y → y ≤ c → f x ≤ f y)
    (h2 : ∀ x y, c ≤ x → x ≤ y → f x ≤ f y) : ∀ x y, x ≤ y → f x ≤ f y := by
  intro x y hxy
  rcases le_total y c with hy | hy
  · exact h1 x y hxy hy
  · rcases le_total c x with hx | hx
    · exact h2 x y hx hxy
    · exact le_trans (h1 x c hx le_rfl) (h2 c y le_rfl hy)

/-- **monotone**: for every `Pmin`, `Preq` with non-overlapping bands, every exponent `0 < e ≤ 1`, and a smoothing slope
that is small against the curve (`slope·(Preq−Pmin) ≤ 3e`; with the shipped `slope = 1e-11` this is
`Preq − Pmin ≤ 3·10¹¹·e` metres), the delivered fraction is non-decreasing over ALL pressures. -/
theorem pdd_monotone {pmin pnom δ s e : ℝ} (hδ : 0 < δ) (hband : 2 * δ ≤ pnom - pmin) (he0 : 0 < e) (he1 : e ≤ 1)
    (hs0 : 0 ≤ s) (hs : s * (pnom - pmin) ≤ 3 * e) :
    ∀ p q, p ≤ q → pddCurve pmin pnom δ s e p ≤ pddCurve pmin pnom δ s e q := by
  have hR : 0 < pnom - pmin := by linarith
  -- r = δ/R ∈ (0, 1/2], u = 1 − r ∈ [1/2, 1)
  obtain ⟨r, hr⟩ : ∃ r, r = δ / (pnom - pmin) := ⟨_, rfl⟩
  have hr0 : 0 < r := by rw [hr]; exact div_pos hδ hR
  have hr2 : r ≤ 1 / 2 := by rw [hr, div_le_iff₀ hR]; linarith
  have hrR : r * (pnom - pmin) = δ := by rw [hr]; field_simp
  obtain ⟨u, hu⟩ : ∃ u, u = (pnom - δ - pmin) / (pnom - pmin) := ⟨_, rfl⟩
  have hur : u = 1 - r := by rw [hu, hr]; field_simp; ring
  have hu0 : 0 < u := by rw [hur]; linarith
  have hu1 : u < 1 := by rw [hur]; linarith
  have hu2 : 1 / 2 ≤ u := by rw [hur]; linarith
  -- power facts
  have hre_pos : 0 < r ^ e := Real.rpow_pos_of_pos hr0 e
  have hre_ge : r ≤ r ^ e := by
    have := Real.rpow_le_rpow_of_exponent_ge hr0 (by linarith) he1
    simpa using this
  have hre1 : r ^ (e - 1) * r = r ^ e := by
    rw [Real.rpow_sub_one hr0.ne']; field_simp
  have hue_pos : 0 < u ^ e := Real.rpow_pos_of_pos hu0 e
  have hue_le : u ^ e ≤ 1 - e * r := by
    have := rpow_one_add_le_one_add_mul_self (s := -r) (by linarith) he0.le he1
    have h' : (1 : ℝ) + -r = u := by rw [hur]; ring
    rw [h'] at this; linarith
  have hue1 : u ^ (e - 1) * u = u ^ e := by
    rw [Real.rpow_sub_one hu0.ne']; field_simp
  have hue_lt1 : u ^ e ≤ 1 := Real.rpow_le_one hu0.le hu1.le he0.le
  have hum1 : u ^ (e - 1) ≤ 2 := by
    have hpos : 0 < u ^ (e - 1) := Real.rpow_pos_of_pos hu0 _
    nlinarith
  have hum1_pos : 0 < u ^ (e - 1) := Real.rpow_pos_of_pos hu0 _
  have hrm1_pos : 0 < r ^ (e - 1) := Real.rpow_pos_of_pos hr0 _
  have hsr : s * δ ≤ 3 * e * r := by
    have : s * δ = (s * (pnom - pmin)) * r := by rw [← hrR]; ring
    rw [this]; nlinarith
  -- piece 1
  have m1 : ∀ x y, x ≤ y → y ≤ pmin → pddCurve pmin pnom δ s e x ≤ pddCurve pmin pnom δ s e y := by
    intro x y hxy hy
    rw [pdd_branch_below (le_trans hxy hy), pdd_branch_below hy]
    nlinarith
  -- piece 2
  have m2 : ∀ x y, pmin ≤ x → x ≤ y → y ≤ pmin + δ → pddCurve pmin pnom δ s e x ≤ pddCurve pmin pnom δ s e y := by
    intro x y hx hxy hy
    rw [pdd_on_band1 hδ hx (le_trans hxy hy), pdd_on_band1 hδ (le_trans hx hxy) hy, ← hr]
    apply hermite_mono (by linarith) hs0 _ _ _ hx hxy hy
    · rw [add_sub_cancel_left]; nlinarith
    · exact div_nonneg (mul_nonneg he0.le hrm1_pos.le) hR.le
    · rw [add_sub_cancel_left]
      have : δ * (e * r ^ (e - 1) / (pnom - pmin)) = e * (r ^ (e - 1) * r) := by rw [hr]; field_simp
      rw [this, hre1]; nlinarith
  -- piece 3
  have m3 : ∀ x y, pmin + δ ≤ x → x ≤ y → y ≤ pnom - δ → pddCurve pmin pnom δ s e x ≤ pddCurve pmin pnom δ s e y := by
    intro x y hx hxy hy
    rw [pdd_on_middle hδ hx (le_trans hxy hy), pdd_on_middle hδ (le_trans hx hxy) hy]
    apply Real.rpow_le_rpow (div_nonneg (by linarith) hR.le) _ he0.le
    exact div_le_div_of_nonneg_right (by linarith) hR.le
  -- piece 4
  have m4 : ∀ x y, pnom - δ ≤ x → x ≤ y → y ≤ pnom → pddCurve pmin pnom δ s e x ≤ pddCurve pmin pnom δ s e y := by
    intro x y hx hxy hy
    rw [pdd_on_band2 hδ hband hx (le_trans hxy hy), pdd_on_band2 hδ hband (le_trans hx hxy) hy, ← hu]
    have hw : pnom - (pnom - δ) = δ := by ring
    apply hermite_mono (by linarith) _ _ hs0 _ hx hxy hy
    · exact div_nonneg (mul_nonneg he0.le hum1_pos.le) hR.le
    · rw [hw]
      have : δ * (e * u ^ (e - 1) / (pnom - pmin)) = e * r * u ^ (e - 1) := by rw [hr]; field_simp
      rw [this]
      have h3 : e * r * u ^ (e - 1) ≤ e * r * 2 := by
        apply mul_le_mul_of_nonneg_left hum1; positivity
      nlinarith
    · rw [hw]; nlinarith
  -- piece 5
  have m5 : ∀ x y, pnom ≤ x → x ≤ y → pddCurve pmin pnom δ s e x ≤ pddCurve pmin pnom δ s e y := by
    intro x y hx hxy
    rw [pdd_on_above hδ hband hx, pdd_on_above hδ hband (le_trans hx hxy)]
    nlinarith
  have g2 := glue_below m1 m2
  have g3 := glue_below g2 m3
  have g4 := glue_below g3 m4
  exact glue_above g4 m5

/-- delivered demand `D·fraction` is non-decreasing in pressure for every requested demand `D ≥ 0` (incl. zero) -/
theorem pdd_delivered_monotone {pmin pnom δ s e D : ℝ} (hD : 0 ≤ D) (hδ : 0 < δ) (hband : 2 * δ ≤ pnom - pmin)
    (he0 : 0 < e) (he1 : e ≤ 1) (hs0 : 0 ≤ s) (hs : s * (pnom - pmin) ≤ 3 * e) {p q : ℝ} (hpq : p ≤ q) :
    D * pddCurve pmin pnom δ s e p ≤ D * pddCurve pmin pnom δ s e q :=
  mul_le_mul_of_nonneg_left (pdd_monotone hδ hband he0 he1 hs0 hs p q hpq) hD

/-- bounds: the delivered fraction stays within `[slope·(p−Pmin), 1 + slope·(p−Preq)]`-style limits: it is 0 at `Pmin`,
1 at `Preq`, and between 0 and 1 for pressures between them -/
theorem pdd_between {pmin pnom δ s e : ℝ} (hδ : 0 < δ) (hband : 2 * δ ≤ pnom - pmin) (he0 : 0 < e) (he1 : e ≤ 1)
    (hs0 : 0 ≤ s) (hs : s * (pnom - pmin) ≤ 3 * e) {p : ℝ} (h1 : pmin ≤ p) (h2 : p ≤ pnom) :
    0 ≤ pddCurve pmin pnom δ s e p ∧ pddCurve pmin pnom δ s e p ≤ 1 := by
  have hm := pdd_monotone hδ hband he0 he1 hs0 hs
  have a := hm pmin p h1
  have b := hm p pnom h2
  rw [pdd_branch_below le_rfl] at a
  rw [pdd_on_above hδ hband le_rfl] at b
  constructor <;> nlinarith

/-! ### 6. the shipped constants satisfy the hypotheses -/

theorem shipped_constants_ok :
    (0 : Rat) < GenC07.pddDelta ∧ (0 : Rat) ≤ GenC07.pddSlope ∧ GenC07.pddSlope ≤ 1 / 10 ^ 10 ∧
    GenC07.pddDelta ≤ 51 / 1000 ∧ 49 / 1000 ≤ GenC07.pddDelta := by decide +kernel

theorem shipped_constants_real :
    (0 : ℝ) < (GenC07.pddDelta : ℝ) ∧ (0 : ℝ) ≤ (GenC07.pddSlope : ℝ) ∧ (GenC07.pddSlope : ℝ) ≤ 1 / 10 ^ 10 ∧
    (GenC07.pddDelta : ℝ) ≤ 51 / 1000 ∧ (49 / 1000 : ℝ) ≤ (GenC07.pddDelta : ℝ) := by
  obtain ⟨h1, h2, h3, h4, h5⟩ := shipped_constants_ok
  have c1 := (Rat.cast_lt (K := ℝ)).2 h1
  have c2 := (Rat.cast_le (K := ℝ)).2 h2
  have c3 := (Rat.cast_le (K := ℝ)).2 h3
  have c4 := (Rat.cast_le (K := ℝ)).2 h4
  have c5 := (Rat.cast_le (K := ℝ)).2 h5
  push_cast at c1 c2 c3 c4 c5
  exact ⟨c1, c2, c3, c4, c5⟩

/-! ### 7. the full statement without the band hypothesis is false (overlapping bands) -/

/-- full-strength monotonicity: ANY `Pmin < Preq` -/
def PddMonotoneFull : Prop :=
  ∀ pmin pnom e : ℝ, pmin < pnom → 0 < e → e ≤ 1 →
    ∀ p q, p ≤ q → pddCurve pmin pnom (GenC07.pddDelta : ℝ) (GenC07.pddSlope : ℝ) e p ≤
                    pddCurve pmin pnom (GenC07.pddDelta : ℝ) (GenC07.pddSlope : ℝ) e q

/-- witness: `Pmin = 1`, `Preq = 1.03` (closer than the smoothing band δ = 0.05), `e = 1`: the curve is ≥ 1.6 at
`p = Pmin + δ` and ≈ 1 at `p = 2` -/
theorem pdd_monotone_full_counterexample : ¬ PddMonotoneFull := by
  intro h
  obtain ⟨hδ, hs0, hs1, hδhi, hδlo⟩ := shipped_constants_real
  have := h 1 (103 / 100) 1 (by norm_num) (by norm_num) le_rfl (1 + (GenC07.pddDelta : ℝ)) 2 (by linarith)
  rw [pdd_on_band1 hδ (by linarith) le_rfl, hermite_right (by linarith)] at this
  have a1 : ¬ (2 : ℝ) - 1 ≤ 0 := by norm_num
  have a2 : ¬ (2 : ℝ) - 1 - (GenC07.pddDelta : ℝ) ≤ 0 := by linarith
  have a3 : ¬ (2 : ℝ) - 103 / 100 + (GenC07.pddDelta : ℝ) ≤ 0 := by linarith
  have a4 : ¬ (2 : ℝ) - 103 / 100 ≤ 0 := by norm_num
  simp only [pddCurve, pddFrac, realOps_le, realOps_sub, realOps_add, realOps_mul, realOps_ofRat, Rat.cast_zero,
    Rat.cast_one, decide_eq_true_eq, a1, a2, a3, a4, if_false, Real.rpow_one] at this
  have hq : (49 / 1000 : ℝ) / (103 / 100 - 1) ≤ (GenC07.pddDelta : ℝ) / (103 / 100 - 1) :=
    div_le_div_of_nonneg_right hδlo (by norm_num)
  norm_num at hq this
  linarith

/-- the partial statement that IS proved: bands do not overlap (`Preq − Pmin ≥ 2δ`), shipped δ and slope -/
theorem pdd_monotone_partial (pmin pnom e : ℝ) (hband : 2 * (GenC07.pddDelta : ℝ) ≤ pnom - pmin) (he0 : 0 < e) (he1 : e ≤ 1)
    (hs : (GenC07.pddSlope : ℝ) * (pnom - pmin) ≤ 3 * e) :
    ∀ p q, p ≤ q → pddCurve pmin pnom (GenC07.pddDelta : ℝ) (GenC07.pddSlope : ℝ) e p ≤
                    pddCurve pmin pnom (GenC07.pddDelta : ℝ) (GenC07.pddSlope : ℝ) e q := by
  obtain ⟨hδ, hs0, -, -, -⟩ := shipped_constants_real
  exact pdd_monotone hδ hband he0 he1 hs0 hs

/-! ### non-vacuity -/

/-- the hypotheses of `pdd_monotone_partial` are satisfiable: WNTR's defaults `Pmin = 0`, `Preq = 0.07 m·…` style values,
here `Pmin = 0`, `Preq = 20`, `e = 1/2` -/
example : 2 * ((GenC07.pddDelta : ℚ) : ℝ) ≤ 20 - 0 ∧ (0 : ℝ) < 1 / 2 ∧ (1 / 2 : ℝ) ≤ 1 ∧
    ((GenC07.pddSlope : ℚ) : ℝ) * (20 - 0) ≤ 3 * (1 / 2) := by
  obtain ⟨-, -, h2, h1, -⟩ := shipped_constants_real
  refine ⟨by linarith, by norm_num, by norm_num, by nlinarith⟩

/-- the zoo really contains non-isolated junctions with a row, and an isolated one without -/
example : (GenC07.zoo.filter (fun z => z.row.isSome)).length = 9 ∧ (GenC07.zoo.filter (fun z => z.isolated)).length = 1 := by
  decide +kernel

end Wntr.Rows
