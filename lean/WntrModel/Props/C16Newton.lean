/-
C16 / C01 / C02 — `NewtonSolver.solve` reports "converged" only for a model state whose residual is below TOL,
always terminates within MAXITER·(BT_MAXITER+1) residual evaluations, and reports every other exit as an error.

Model: `Model/Newton.lean` (M5c): a transliteration of `NewtonSolver.solve` and of `_solver_helper`'s mapping over an
abstract residual norm, linear solve (may fail = MatrixRankWarning), step arithmetic and time-limit flag.  All theorems hold
for EVERY world (residual function, Jacobian / linear-solve behaviour, NaN norms included) and EVERY option set.
The solver's result is the state the MODEL is left in (`loaded`), not a returned vector: `newton_converged_implies_small_residual`
is about that state, and `newton_x_is_model_state` says the local `x` the next step starts from is that state too.

Tie: the skeleton of `solve` is regenerated from the Python `ast` on every run (`Gen/NewtonShape.lean`) and must equal the
reference skeleton the model was written from (`generated_newton_shape_is_ref`, by `decide`); the correspondence run replays the
norms / linear-solve failures observed inside the real `solve` through `Drivers/NewtonDriver.lean`, and the harness
re-evaluates `max|r|` on the real model after every converged return.
-/
import WntrModel.Lemmas.Newton
import WntrModel.Lemmas.NewtonShape
import WntrModel.Gen.NewtonShape
import WntrModel.Model.RunLoop

namespace Wntr.Newton

variable {X D : Type} (wd : World X D) (o : Opts)

theorem good_init (x0 : X) : Good wd o 0 { x := x0, loaded := x0, useR := false, newNorm := none, nEval := 0 } :=
  ⟨rfl, fun h => (by cases h), fun h => (by cases h)⟩

/-- **newton_converged_implies_small_residual**: for every residual function, linear-solve behaviour, time-limit flag and
option set, if `solve` returns `SolverStatus.converged` then either the model has no variables (message "No variables or
constraints", iteration count 0) or the infinity norm of the residual AT THE STATE THE MODEL IS LEFT IN is a number (not NaN)
strictly below TOL, and the message is "Solved Successfully". -/
theorem newton_converged_implies_small_residual (empty : Bool) (x0 : X) (msg : Msg) (k : Nat)
    (h : (solve wd o empty x0).1 = .ret .converged msg k) :
    (empty = true ∧ msg = .noVars ∧ k = 0) ∨
    (empty = false ∧ msg = .solved ∧ ∃ v, wd.norm (solve wd o empty x0).2.loaded = some v ∧ v < o.tol) := by
  unfold solve at h ⊢
  cases empty with
  | true => simp only [if_true] at h; cases h; simp
  | false =>
    simp only [Bool.false_eq_true, if_false] at h ⊢
    obtain ⟨a, b, _⟩ := outer_converged wd o o.maxiter 0 _ (good_init wd o x0) msg k h
    refine Or.inr ⟨by simp, b, ?_⟩
    cases hn : wd.norm (outer wd o 0 o.maxiter { x := x0, loaded := x0, useR := false, newNorm := none, nEval := 0 }).2.loaded with
    | none => rw [hn] at a; simp [ltO] at a
    | some v => rw [hn] at a; exact ⟨v, rfl, by simpa [ltO] using a⟩

/-- **newton_x_is_model_state**: at a converged return the local `x` (what a caller continuing from `solve`'s locals would use)
is the state the model holds -- the code does not test one vector and leave another -/
theorem newton_x_is_model_state (empty : Bool) (x0 : X) (msg : Msg) (k : Nat)
    (h : (solve wd o empty x0).1 = .ret .converged msg k) :
    (solve wd o empty x0).2.x = (solve wd o empty x0).2.loaded := by
  unfold solve at h ⊢
  cases empty with
  | true => rfl
  | false =>
    simp only [Bool.false_eq_true, if_false] at h ⊢
    exact (outer_converged wd o o.maxiter 0 _ (good_init wd o x0) msg k h).2.2

/-- **newton_terminates**: `solve` is total (two bounded `for` loops) and evaluates the residual at most
`MAXITER · (BT_MAXITER + 1)` times -/
theorem newton_terminates (empty : Bool) (x0 : X) :
    (solve wd o empty x0).2.nEval ≤ o.maxiter * (o.btMaxiter + 1) := by
  unfold solve
  cases empty with
  | true => simp
  | false =>
    simp only [Bool.false_eq_true, if_false]
    have := outer_evals wd o o.maxiter 0 _ (good_init wd o x0)
    simpa using this

/-- **newton_failure_is_reported**: for EVERY option set (MAXITER = 0 and BT_MAXITER = 0 included, since fix 14495b3c binds
the loop variables) every exit is a returned triple; a triple that is not `converged` has status `error` and one of the
four error messages. -/
theorem newton_failure_is_reported (empty : Bool) (x0 : X) :
    (∃ m k, (solve wd o empty x0).1 = .ret .converged m k ∧ (m = .solved ∨ m = .noVars)) ∨
    (∃ m k, (solve wd o empty x0).1 = .ret .error m k ∧
      (m = .timeLimit ∨ m = .singular ∨ m = .lineSearch ∨ m = .maxIter)) := by
  unfold solve
  cases empty with
  | true => exact Or.inl ⟨_, _, rfl, Or.inr rfl⟩
  | false =>
    simp only [Bool.false_eq_true, if_false]
    rcases outer_reported wd o o.maxiter 0 _ (good_init wd o x0) with ⟨k, h'⟩ | ⟨m, k, h', hm⟩
    · exact Or.inl ⟨_, k, h', Or.inl rfl⟩
    · exact Or.inr ⟨m, k, h', hm⟩

/-- zero limits are reported failures: `MAXITER = 0` -> "Reached maximum number of iterations: 0";
`BT_MAXITER = 0` -> "Line search failed" -/
theorem newton_zero_limits_reported :
    (solve (traceWorld ⟨[some 1], [], none⟩)
      { maxiter := 0, tol := 1, rho := 1/2, btMaxiter := 1, bt := true, btStartIter := 0, c1 := 0 } false 0).1 =
      .ret .error .maxIter 0 ∧
    (solve (traceWorld ⟨[some 1], [], none⟩)
      { maxiter := 2, tol := 1/2, rho := 1/2, btMaxiter := 0, bt := true, btStartIter := 0, c1 := 0 } false 0).1 =
      .ret .error .lineSearch 0 := by
  decide +kernel

/-! ### `_solver_helper` and `run_sim` -/

/-- what `run_sim` does with the helper's triple, in the vocabulary of `Model/RunLoop.lean` -/
def toRunLoop : Outcome → Option Wntr.RunLoop.SolveOutcome
  | .ret .converged _ _ => some .converged
  | .ret .error .timeLimit _ => some .timeLimit
  | .ret .error .singular _ => some .singular
  | .ret .error .lineSearch _ => some .lineSearch
  | .ret .error _ _ => some .iterLimit

/-- **helper_newton_faithful**: through `_solver_helper` with `solver is NewtonSolver`, `run_sim` sees `solver_status == 0`
exactly when `solve` returned status error, status 1 exactly when it returned converged, with the iteration count passed
on -/
theorem helper_newton_faithful (sh : HelperShape) (out : Outcome) (sci : ScipyResult) :
    ((helper sh .newton out sci).failed = true ↔ ∃ m k, out = .ret .error m k) ∧
    (∀ k, helper sh .newton out sci = .ret 1 (some k) ↔ ∃ m, out = .ret .converged m k) := by
  cases out with
  | ret st m k => cases st <;> simp [helper, Helper.failed]

/-- **helper_scipy_failure_is_reported**: with the bare `except:` of the reference shape, whatever way a scipy nonlinear
solver (or the `load_var_values_from_x` after it) fails, `_solver_helper` returns status 0 and `run_sim` sees a failed
step; nothing escapes.  For `fsolve`, `ier != 1` is always mapped; an exception is mapped exactly when the branch is
wrapped in a `try` that catches it (fix C16-fsolve-exception), otherwise it escapes from `run_sim`. -/
theorem helper_scipy_failure_is_reported (fc : Option Catch) (out : Outcome) (sci : ScipyResult) :
    ((helper (refHelperShape fc) .scipyOther out sci).failed = true ↔ sci ≠ .ok) ∧
    helper (refHelperShape fc) .scipyOther out sci ≠ .escaped ∧
    ((helper (refHelperShape fc) .fsolve out .notConverged).failed = true) ∧
    (helper (refHelperShape (some .all)) .fsolve out sci ≠ .escaped ∧
      ((helper (refHelperShape (some .all)) .fsolve out sci).failed = true ↔ sci ≠ .ok)) ∧
    (helper (refHelperShape none) .fsolve out .otherException = .escaped) := by
  cases sci <;> simp [helper, Helper.failed, refHelperShape, Catch.catches]

/-- a narrowed `except` clause lets other exceptions through (why the clause is part of the skeleton) -/
theorem helper_narrow_catch_escapes (out : Outcome) :
    helper { refHelperShape none with scipyCatch := .only ["NoConvergence"] } .scipyOther out .otherException = .escaped := by
  simp [helper, Catch.catches]

/-- **run_sim_accepts_only_small_residuals**: a step that `run_sim` treats as solved by the Newton solver
(`solver_status != 0`) left the model in a state with residual norm below TOL (or the model has no variables) -/
theorem run_sim_accepts_only_small_residuals (empty : Bool) (x0 : X) (sci : ScipyResult) (k : Option Nat)
    (sh : HelperShape) (h : helper sh .newton (solve wd o empty x0).1 sci = .ret 1 k) :
    empty = true ∨ ∃ v, wd.norm (solve wd o empty x0).2.loaded = some v ∧ v < o.tol := by
  cases hs : (solve wd o empty x0).1 with
  | ret st m j =>
    cases st with
    | error => rw [hs] at h; simp [helper] at h
    | converged =>
      rcases newton_converged_implies_small_residual wd o empty x0 m j hs with ⟨e, _, _⟩ | ⟨_, _, hv⟩
      · exact Or.inl e
      · exact Or.inr hv

/-- the status class `run_sim`'s model (`RunLoop.SolveOutcome.ok`) sees is `ok` exactly for a converged return -/
theorem toRunLoop_ok (out : Outcome) (r : Wntr.RunLoop.SolveOutcome) (h : toRunLoop out = some r) :
    r.ok = true ↔ ∃ m k, out = .ret .converged m k := by
  cases out with
  | ret st m k =>
    cases st <;> cases m <;> simp [toRunLoop] at h <;> subst h <;> simp [Wntr.RunLoop.SolveOutcome.ok]

/-! ### the skeleton read off the current source -/

/-- the statements of `NewtonSolver.solve` (order, every `return` with its status and message, both `for` ranges, the
`try/except MatrixRankWarning`, `break`, the decrease test, the exhaustion test) are those the model was written from -/
theorem generated_newton_shape_is_ref : Gen.solveShape = refSolve := by decide

/-- **the interpretation of the generated skeleton is the model** (`Lemmas/NewtonShape.lean` `solveS_ref` + the `decide`
equality): the theorems above are about the program read off the current solvers.py -/
theorem generated_solve_is_model (empty : Bool) (x0 : X) :
    solveS Gen.solveShape wd o empty x0 = (some (solve wd o empty x0).1, (solve wd o empty x0).2) := by
  rw [generated_newton_shape_is_ref]; exact solveS_ref wd o empty x0

/-- `newton_converged_implies_small_residual` for the interpreted generated program -/
theorem generated_converged_implies_small_residual (empty : Bool) (x0 : X) (msg : Msg) (k : Nat)
    (h : (solveS Gen.solveShape wd o empty x0).1 = some (.ret .converged msg k)) :
    (empty = true ∧ msg = .noVars ∧ k = 0) ∨
    (empty = false ∧ msg = .solved ∧ ∃ v, wd.norm (solveS Gen.solveShape wd o empty x0).2.loaded = some v ∧ v < o.tol) := by
  rw [generated_solve_is_model] at h ⊢
  exact newton_converged_implies_small_residual wd o empty x0 msg k (Option.some.inj h)

/-- `newton_failure_is_reported` + `newton_terminates` for the interpreted generated program: it always returns a triple
(never falls off its end, never lets the MatrixRankWarning through), with the bounded number of residual evaluations -/
theorem generated_always_returns (empty : Bool) (x0 : X) :
    (∃ st m k, (solveS Gen.solveShape wd o empty x0).1 = some (.ret st m k) ∧
      (st = .error → (m = .timeLimit ∨ m = .singular ∨ m = .lineSearch ∨ m = .maxIter))) ∧
    (solveS Gen.solveShape wd o empty x0).2.nEval ≤ o.maxiter * (o.btMaxiter + 1) := by
  rw [generated_solve_is_model]
  refine ⟨?_, newton_terminates wd o empty x0⟩
  rcases newton_failure_is_reported wd o empty x0 with ⟨m, k, h, _⟩ | ⟨m, k, h, hm⟩
  · exact ⟨.converged, m, k, by rw [h], fun e => by cases e⟩
  · exact ⟨.error, m, k, by rw [h], fun _ => hm⟩

/-- `NewtonSolver.__init__` reads every option by "present key wins": the reads extracted from the source are the reference ones -/
theorem generated_option_reads_is_ref : Gen.optionReads = refOptionReads := by decide

/-- so a limit of 0 given by the caller IS the limit the solver runs with (and by `newton_zero_limits_reported` /
`newton_failure_is_reported` the first solve then fails and is reported), whereas the `get(key) or default` reading would
silently run with the default -/
theorem generated_falsy_options_are_honoured (default : Nat) :
    (∀ r ∈ Gen.optionReads, readOpt r (some 0) default = 0) ∧
    readOpt ⟨"MAXITER", "maxiter", false⟩ (some 0) 3000 = 3000 := by
  rw [generated_option_reads_is_ref]
  refine ⟨?_, by decide⟩
  intro r hr
  simp only [refOptionReads, List.mem_cons, List.mem_nil_iff, or_false] at hr
  rcases hr with rfl | rfl | rfl | rfl | rfl | rfl | rfl | rfl | rfl <;> simp [readOpt]

/-- the branches of `_solver_helper`, in particular WHICH exceptions of the scipy solvers are caught, are the reference ones -/
theorem generated_helper_shape_is_ref : Gen.helperShape = refHelperShape Gen.helperShape.fsolveCatch := by decide

/-- so for the helper read off the source every failure of a scipy nonlinear solver is a reported failed step -/
theorem generated_helper_reports_scipy_failures (out : Outcome) (sci : ScipyResult) (h : sci ≠ .ok) :
    (helper Gen.helperShape .scipyOther out sci).failed = true := by
  rw [generated_helper_shape_is_ref]
  exact (helper_scipy_failure_is_reported _ out sci).1.2 h

/-- once the fsolve branch is wrapped (`Gen.helperShape.fsolveCatch = some .all`), no failure of ANY supported solver escapes
from `_solver_helper`: every one is a failed step for `run_sim` -/
theorem generated_no_solver_failure_escapes (hw : Gen.helperShape.fsolveCatch = some .all) (kind : SolverKind)
    (hk : kind ≠ .unknown) (out : Outcome) (sci : ScipyResult) :
    helper Gen.helperShape kind out sci ≠ .escaped := by
  rw [generated_helper_shape_is_ref, hw]
  cases kind with
  | newton => cases out with | ret st m k => cases st <;> simp [helper]
  | fsolve => exact (helper_scipy_failure_is_reported (some .all) out sci).2.2.2.1.1
  | scipyOther => exact (helper_scipy_failure_is_reported (some .all) out sci).2.1
  | unknown => exact absurd rfl hk

/-- the shipped defaults cannot hit the UnboundLocalError holes and have a positive tolerance -/
theorem generated_defaults_safe : 1 ≤ Gen.defaults.maxiter ∧ 1 ≤ Gen.defaults.btMaxiter ∧ 0 < Gen.defaults.tol ∧
    0 < Gen.defaults.rho ∧ Gen.defaults.rho < 1 := by decide +kernel

/-! ### non-vacuity (trace world: norms in evaluation order) -/

def exOpts : Opts := { maxiter := 5, tol := 1/1000, rho := 1/2, btMaxiter := 3, bt := true, btStartIter := 0, c1 := 1/10000 }

/-- the interpreter on the generated program computes the same result (here by evaluation) -/
example : (solveS Gen.solveShape (traceWorld ⟨[some 1, some (1/2), some 1, some (1/10000)], [], none⟩) exOpts false 0).1 =
    some (.ret .converged .solved 2) := by decide +kernel

/-- converges after two accepted steps, the second one after one rejected trial -/
example : (solve (traceWorld ⟨[some 1, some (1/2), some 1, some (1/10000)], [], none⟩) exOpts false 0).1 =
    .ret .converged .solved 2 := by decide +kernel
example : (solve (traceWorld ⟨[some 1, some (1/2), some 1, some (1/10000)], [], none⟩) exOpts false 0).2.nEval = 4 := by decide +kernel

/-- a NaN norm never converges: the line search is exhausted -/
example : (solve (traceWorld ⟨[some 1, none, none, none], [], none⟩) exOpts false 0).1 = .ret .error .lineSearch 0 := by decide +kernel

/-- singular Jacobian at the second iteration; iteration limit without backtracking; time limit; empty model -/
example : (solve (traceWorld ⟨[some 1, some (1/2)], [true, false], none⟩) exOpts false 0).1 = .ret .error .singular 1 := by decide +kernel
example : (solve (traceWorld ⟨[some 1, some 1, some 1, some 1, some 1], [], none⟩) { exOpts with bt := false } false 0).1 =
    .ret .error .maxIter 4 := by decide +kernel
example : (solve (traceWorld ⟨[some 1, some (1/2)], [], some 1⟩) exOpts false 0).1 = .ret .error .timeLimit 1 := by decide +kernel
example : (solve (traceWorld ⟨[], [], none⟩) exOpts true 0).1 = .ret .converged .noVars 0 := by decide +kernel

/-- quirk kept: a trial accepted at the LAST backtracking pass is still reported as "Line search failed" -/
example : (solve (traceWorld ⟨[some 1, some 1, some 1, some (1/2)], [], none⟩) exOpts false 0).1 =
    .ret .error .lineSearch 0 := by decide +kernel

end Wntr.Newton
