/-
C16 / C01 / C02 — `NewtonSolver.solve` reports "converged" only for a model state whose residual is below TOL,
always terminates within MAXITER·(BT_MAXITER+1) residual evaluations, and reports every other exit as an error.

Model: `Model/Newton.lean` (M5c): a transliteration of `NewtonSolver.solve` and of `_solver_helper`'s mapping over an
abstract residual norm, linear solve (may fail = MatrixRankWarning), step arithmetic and time-limit flag.  All theorems hold
for EVERY world (residual function, Jacobian / linear-solve behaviour, NaN norms included) and EVERY option set.
The solver's result is the state the MODEL is left in (`loaded`), not a returned vector: `newton_converged_implies_small_residual`
is about that state, and `newton_x_is_model_state` says the local `x` the next step starts from is that state too.

Tie: the skeleton of `solve` is regenerated from the Python `ast` on every run (`Gen/NewtonShape.lean`) and must equal the
reference skeleton the model was written from (`generated_newton_shape_is_ref`, by `decide`); the correspondence run replays the
norms / linear-solve failures observed inside the real `solve` through `Drivers/NewtonDriver.lean`, and the harness
re-evaluates `max|r|` on the real model after every converged return.
-/
import WntrModel.Lemmas.Newton
import WntrModel.Gen.NewtonShape
import WntrModel.Model.RunLoop

namespace Wntr.Newton

variable {X D : Type} (wd : World X D) (o : Opts)

theorem good_init (x0 : X) : Good wd o 0 { x := x0, loaded := x0, useR := false, newNorm := none, nEval := 0 } :=
  ⟨rfl, fun h => (by cases h), fun h => (by cases h)⟩

/-- **newton_converged_implies_small_residual**: for every residual function, linear-solve behaviour, time-limit flag and
option set, if `solve` returns `SolverStatus.converged` then either the model has no variables (message "No variables or
constraints", iteration count 0) or the infinity norm of the residual AT THE STATE THE MODEL IS LEFT IN is a number (not NaN)
strictly below TOL, and the message is "Solved Successfully". -/
theorem newton_converged_implies_small_residual (empty : Bool) (x0 : X) (msg : Msg) (k : Nat)
    (h : (solve wd o empty x0).1 = .ret .converged msg k) :
    (empty = true ∧ msg = .noVars ∧ k = 0) ∨
    (empty = false ∧ msg = .solved ∧ ∃ v, wd.norm (solve wd o empty x0).2.loaded = some v ∧ v < o.tol) := by
  unfold solve at h ⊢
  cases empty with
  | true => simp only [if_true] at h; cases h; simp
  | false =>
    simp only [Bool.false_eq_true, if_false] at h ⊢
    obtain ⟨a, b, _⟩ := outer_converged wd o o.maxiter 0 _ (good_init wd o x0) msg k h
    refine Or.inr ⟨by simp, b, ?_⟩
    cases hn : wd.norm (outer wd o 0 o.maxiter { x := x0, loaded := x0, useR := false, newNorm := none, nEval := 0 }).2.loaded with
    | none => rw [hn] at a; simp [ltO] at a
    | some v => rw [hn] at a; exact ⟨v, rfl, by simpa [ltO] using a⟩

/-- **newton_x_is_model_state**: at a converged return the local `x` (what a caller continuing from `solve`'s locals would use)
is the state the model holds -- the code does not test one vector and leave another -/
theorem newton_x_is_model_state (empty : Bool) (x0 : X) (msg : Msg) (k : Nat)
    (h : (solve wd o empty x0).1 = .ret .converged msg k) :
    (solve wd o empty x0).2.x = (solve wd o empty x0).2.loaded := by
  unfold solve at h ⊢
  cases empty with
  | true => rfl
  | false =>
    simp only [Bool.false_eq_true, if_false] at h ⊢
    exact (outer_converged wd o o.maxiter 0 _ (good_init wd o x0) msg k h).2.2

/-- **newton_terminates**: `solve` is total (two bounded `for` loops) and evaluates the residual at most
`MAXITER · (BT_MAXITER + 1)` times -/
theorem newton_terminates (empty : Bool) (x0 : X) :
    (solve wd o empty x0).2.nEval ≤ o.maxiter * (o.btMaxiter + 1) := by
  unfold solve
  cases empty with
  | true => simp
  | false =>
    simp only [Bool.false_eq_true, if_false]
    have := outer_evals wd o o.maxiter 0 _ (good_init wd o x0)
    simpa using this

/-- **newton_failure_is_reported**: when the loop variables are bound before the loops (`zeroSafe`, fix
C16-newton-zero-limits) -- or `MAXITER ≥ 1` and `BT_MAXITER ≥ 1` -- every exit is a returned triple; a triple that is
not `converged` has status `error` and one of the four error messages. -/
theorem newton_failure_is_reported (empty : Bool) (x0 : X)
    (h : o.zeroSafe = true ∨ (1 ≤ o.maxiter ∧ 1 ≤ o.btMaxiter)) :
    (∃ m k, (solve wd o empty x0).1 = .ret .converged m k ∧ (m = .solved ∨ m = .noVars)) ∨
    (∃ m k, (solve wd o empty x0).1 = .ret .error m k ∧
      (m = .timeLimit ∨ m = .singular ∨ m = .lineSearch ∨ m = .maxIter)) := by
  unfold solve
  cases empty with
  | true => exact Or.inl ⟨_, _, rfl, Or.inr rfl⟩
  | false =>
    simp only [Bool.false_eq_true, if_false]
    rcases outer_reported wd o o.maxiter 0 _ (good_init wd o x0) with (⟨k, h'⟩ | ⟨m, k, h', hm⟩) | ⟨_, hz, hs⟩
    · exact Or.inl ⟨_, k, h', Or.inl rfl⟩
    · exact Or.inr ⟨m, k, h', hm⟩
    · rcases h with h | h
      · rw [hs] at h; cases h
      · omega

/-- the UnboundLocalError exists only in the variant without the bindings, and only for a zero limit -/
theorem newton_crash_only_with_zero_limits (empty : Bool) (x0 : X) (h : (solve wd o empty x0).1 = .crash) :
    (o.maxiter = 0 ∨ o.btMaxiter = 0) ∧ o.zeroSafe = false := by
  unfold solve at h
  cases empty with
  | true => simp at h
  | false =>
    simp only [Bool.false_eq_true, if_false] at h
    rcases outer_reported wd o o.maxiter 0 _ (good_init wd o x0) with (⟨k, h'⟩ | ⟨m, k, h', _⟩) | ⟨_, hz, hs⟩
    · rw [h] at h'; cases h'
    · rw [h] at h'; cases h'
    · exact ⟨hz, hs⟩

/-- the code does have that hole: `MAXITER = 0` dies at the final `return` (`outer_iter` unbound) -/
theorem newton_crash_witness : (solve (traceWorld ⟨[some 1], [], none⟩)
    { maxiter := 0, tol := 1, rho := 1/2, btMaxiter := 1, bt := true, btStartIter := 0, c1 := 0 } false 0).1 = .crash ∧
    (solve (traceWorld ⟨[some 1], [], none⟩)
    { maxiter := 0, tol := 1, rho := 1/2, btMaxiter := 1, bt := true, btStartIter := 0, c1 := 0, zeroSafe := true } false 0).1 =
      .ret .error .maxIter 0 ∧
    (solve (traceWorld ⟨[some 1], [], none⟩)
    { maxiter := 2, tol := 1/2, rho := 1/2, btMaxiter := 0, bt := true, btStartIter := 0, c1 := 0, zeroSafe := true } false 0).1 =
      .ret .error .lineSearch 0 := by
  decide +kernel

/-! ### `_solver_helper` and `run_sim` -/

/-- what `run_sim` does with the helper's triple, in the vocabulary of `Model/RunLoop.lean` -/
def toRunLoop : Outcome → Option Wntr.RunLoop.SolveOutcome
  | .ret .converged _ _ => some .converged
  | .ret .error .timeLimit _ => some .timeLimit
  | .ret .error .singular _ => some .singular
  | .ret .error .lineSearch _ => some .lineSearch
  | .ret .error _ _ => some .iterLimit
  | .crash => none

/-- **helper_newton_faithful**: through `_solver_helper` with `solver is NewtonSolver`, `run_sim` sees `solver_status == 0`
exactly when `solve` returned status error, status 1 exactly when it returned converged, with the iteration count passed
on; an UnboundLocalError is not swallowed -/
theorem helper_newton_faithful (sh : HelperShape) (out : Outcome) (sci : ScipyResult) :
    ((helper sh .newton out sci).failed = true ↔ ∃ m k, out = .ret .error m k) ∧
    (∀ k, helper sh .newton out sci = .ret 1 (some k) ↔ ∃ m, out = .ret .converged m k) ∧
    (helper sh .newton out sci = .unboundLocal ↔ out = .crash) := by
  cases out with
  | crash => simp [helper, Helper.failed]
  | ret st m k => cases st <;> simp [helper, Helper.failed]

/-- **helper_scipy_failure_is_reported**: with the bare `except:` of the reference shape, whatever way a scipy nonlinear
solver (or the `load_var_values_from_x` after it) fails, `_solver_helper` returns status 0 and `run_sim` sees a failed
step; nothing escapes.  For `fsolve` only `ier != 1` is mapped (that branch has no `try`). -/
theorem helper_scipy_failure_is_reported (out : Outcome) (sci : ScipyResult) :
    ((helper refHelperShape .scipyOther out sci).failed = true ↔ sci ≠ .ok) ∧
    helper refHelperShape .scipyOther out sci ≠ .escaped ∧
    ((helper refHelperShape .fsolve out sci).failed = true ↔ sci = .notConverged) ∧
    (helper refHelperShape .fsolve out sci = .escaped ↔ sci = .otherException) := by
  cases sci <;> simp [helper, Helper.failed, refHelperShape, Catch.catches]

/-- a narrowed `except` clause lets other exceptions through (why the clause is part of the skeleton) -/
theorem helper_narrow_catch_escapes (out : Outcome) :
    helper { refHelperShape with scipyCatch := .only ["NoConvergence"] } .scipyOther out .otherException = .escaped := by
  simp [helper, Catch.catches]

/-- **run_sim_accepts_only_small_residuals**: a step that `run_sim` treats as solved by the Newton solver
(`solver_status != 0`) left the model in a state with residual norm below TOL (or the model has no variables) -/
theorem run_sim_accepts_only_small_residuals (empty : Bool) (x0 : X) (sci : ScipyResult) (k : Option Nat)
    (sh : HelperShape) (h : helper sh .newton (solve wd o empty x0).1 sci = .ret 1 k) :
    empty = true ∨ ∃ v, wd.norm (solve wd o empty x0).2.loaded = some v ∧ v < o.tol := by
  cases hs : (solve wd o empty x0).1 with
  | crash => rw [hs] at h; simp [helper] at h
  | ret st m j =>
    cases st with
    | error => rw [hs] at h; simp [helper] at h
    | converged =>
      rcases newton_converged_implies_small_residual wd o empty x0 m j hs with ⟨e, _, _⟩ | ⟨_, _, hv⟩
      · exact Or.inl e
      · exact Or.inr hv

/-- the status class `run_sim`'s model (`RunLoop.SolveOutcome.ok`) sees is `ok` exactly for a converged return -/
theorem toRunLoop_ok (out : Outcome) (r : Wntr.RunLoop.SolveOutcome) (h : toRunLoop out = some r) :
    r.ok = true ↔ ∃ m k, out = .ret .converged m k := by
  cases out with
  | crash => simp [toRunLoop] at h
  | ret st m k =>
    cases st <;> cases m <;> simp [toRunLoop] at h <;> subst h <;> simp [Wntr.RunLoop.SolveOutcome.ok]

/-! ### the skeleton read off the current source -/

/-- the statements of `NewtonSolver.solve` (order, every `return` with its status and message, both `for` ranges, the
`try/except MatrixRankWarning`, `break`, the decrease test, the exhaustion test) are those the model was written from -/
theorem generated_newton_shape_is_ref : Gen.solveShape = refSolve Gen.defaults.zeroSafe := by decide

/-- the branches of `_solver_helper`, in particular WHICH exceptions of the scipy solvers are caught, are the reference ones -/
theorem generated_helper_shape_is_ref : Gen.helperShape = refHelperShape := by decide

/-- so for the helper read off the source every failure of a scipy nonlinear solver is a reported failed step -/
theorem generated_helper_reports_scipy_failures (out : Outcome) (sci : ScipyResult) (h : sci ≠ .ok) :
    (helper Gen.helperShape .scipyOther out sci).failed = true := by
  rw [generated_helper_shape_is_ref]
  exact (helper_scipy_failure_is_reported out sci).1.2 h

/-- the shipped defaults cannot hit the UnboundLocalError holes and have a positive tolerance -/
theorem generated_defaults_safe : 1 ≤ Gen.defaults.maxiter ∧ 1 ≤ Gen.defaults.btMaxiter ∧ 0 < Gen.defaults.tol ∧
    0 < Gen.defaults.rho ∧ Gen.defaults.rho < 1 := by decide +kernel

/-- once the source binds the loop variables (`Gen.defaults.zeroSafe`), `newton_failure_is_reported` holds for EVERY option
set that differs from the defaults only in the user-settable fields -/
theorem generated_failure_reported_unconditional (hz : Gen.defaults.zeroSafe = true) (o' : Opts)
    (ho : o'.zeroSafe = Gen.defaults.zeroSafe) (empty : Bool) (x0 : X) :
    (∃ m k, (solve wd o' empty x0).1 = .ret .converged m k ∧ (m = .solved ∨ m = .noVars)) ∨
    (∃ m k, (solve wd o' empty x0).1 = .ret .error m k ∧
      (m = .timeLimit ∨ m = .singular ∨ m = .lineSearch ∨ m = .maxIter)) :=
  newton_failure_is_reported wd o' empty x0 (Or.inl (ho.trans hz))

/-! ### non-vacuity (trace world: norms in evaluation order) -/

def exOpts : Opts := { maxiter := 5, tol := 1/1000, rho := 1/2, btMaxiter := 3, bt := true, btStartIter := 0, c1 := 1/10000 }

/-- converges after two accepted steps, the second one after one rejected trial -/
example : (solve (traceWorld ⟨[some 1, some (1/2), some 1, some (1/10000)], [], none⟩) exOpts false 0).1 =
    .ret .converged .solved 2 := by decide +kernel
example : (solve (traceWorld ⟨[some 1, some (1/2), some 1, some (1/10000)], [], none⟩) exOpts false 0).2.nEval = 4 := by decide +kernel

/-- a NaN norm never converges: the line search is exhausted -/
example : (solve (traceWorld ⟨[some 1, none, none, none], [], none⟩) exOpts false 0).1 = .ret .error .lineSearch 0 := by decide +kernel

/-- singular Jacobian at the second iteration; iteration limit without backtracking; time limit; empty model -/
example : (solve (traceWorld ⟨[some 1, some (1/2)], [true, false], none⟩) exOpts false 0).1 = .ret .error .singular 1 := by decide +kernel
example : (solve (traceWorld ⟨[some 1, some 1, some 1, some 1, some 1], [], none⟩) { exOpts with bt := false } false 0).1 =
    .ret .error .maxIter 4 := by decide +kernel
example : (solve (traceWorld ⟨[some 1, some (1/2)], [], some 1⟩) exOpts false 0).1 = .ret .error .timeLimit 1 := by decide +kernel
example : (solve (traceWorld ⟨[], [], none⟩) exOpts true 0).1 = .ret .converged .noVars 0 := by decide +kernel

/-- quirk kept: a trial accepted at the LAST backtracking pass is still reported as "Line search failed" -/
example : (solve (traceWorld ⟨[some 1, some 1, some 1, some (1/2)], [], none⟩) exOpts false 0).1 =
    .ret .error .lineSearch 0 := by decide +kernel

end Wntr.Newton
