/-
C05 — reported states are consistent with every conditional simple control; tank-level thresholds are met by a
partial step.

Over M5b `Controls` (post-solve pass, presolve pass without rules, change tracker) and M7 `Tank`
(TankLevelCondition.evaluate with `_last_value` / `_backtrack`, the `status` property):
  * `postsolve_last_writer`          after the post-solve pass, for EVERY list of controls and every triggered control `c`:
                                     `c`'s target attribute holds `c`'s value, or it holds the value of a triggered control on
                                     the same target, applied later, of priority ≥ `c`'s, commanding something else
  * `postsolve_fixpoint`             if the pass changes nothing the tracker watches (the condition under which `run_sim`
                                     reports the step), the REPORTED status/setting of `c`'s target is the one computed from
                                     that attribute value
  * `reported_status_of_user_status` commanded Closed ⇒ reported Closed; commanded Open ⇒ reported Open unless
                                     `_internal_status = Closed` (pipes, pumps); valves: Closed/Open are reported as commanded
  * `reported_consistent`            the three combined, for a status control on a pipe/pump
  * `presolve_first_group`, `presolve_sorted_by_backtrack`, `presolve_equal_backtrack_by_priority`
                                     the presolve pass serves the largest backtrack first (priority orders equal backtracks only) and accepts
                                     `sim_time − backtrack` as soon as a group changes something
  * `tank_threshold_partial_step`    a crossing level condition (cylinder) shortens the step by ⌊(h_cur − θ)·A/q⌋ s, the
                                     accepted value is within one second of flow past θ, and the action is already applied
                                     in the state the solve sees
  * `second_threshold_not_reached`, `last_value_is_accepted_value`, `two_thresholds_time_order`
                                     two thresholds crossed in one tentative step: the earlier one decides the step, the later
                                     one is strictly not reached at the accepted level, and because every level condition is
                                     re-evaluated post-solve, `_last_value` is the ACCEPTED value when the next step is examined —
                                     the second threshold gets its own partial step (the concern of DESIGN §5 does not materialise)
-/
import WntrModel.Model.Controls
import WntrModel.Lemmas.ControlsPass
import WntrModel.Lemmas.TankRun
import WntrModel.Props.C06
import Mathlib.Tactic.Ring
import Mathlib.Tactic.Linarith
import Mathlib.Tactic.Push
import Mathlib.Algebra.Order.Field.Rat
namespace Wntr.C05
open Wntr.Tank Wntr.Controls

/-! ### the post-solve pass -/

/-- last writer wins, for the list of triggered controls as `check()` returned it -/
theorem runPass_last_writer (due : List Ctl) (ls : Links) (c : Ctl) (hc : c ∈ due) (hi : c.act.link < ls.length) :
    fieldAt (runPass due ls) c.act.link c.act.field = some c.act.value
    ∨ ∃ d ∈ due, c.prio ≤ d.prio ∧ d.act.link = c.act.link ∧ d.act.field = c.act.field
        ∧ d.act.value ≠ c.act.value
        ∧ fieldAt (runPass due ls) c.act.link c.act.field = some d.act.value := by
  have hmem : c ∈ sortPrio due := (sortPrio_mem _ c).mpr hc
  obtain ⟨l1, d, l2, e, hd, hn⟩ :=
    exists_last_writer (sortPrio due) c.act.link c.act.field ⟨c, hmem, rfl, rfl⟩
  have hdm : d ∈ sortPrio due := by rw [e]; simp
  have hdf := (sortPrio_mem _ d).mp hdm
  have hfin : fieldAt (runPass due ls) c.act.link c.act.field = some d.act.value := by
    have := runList_last_writer l1 l2 d ls (by rw [hd.1]; exact hi) (by rw [hd.1, hd.2]; exact hn)
    rw [hd.1, hd.2] at this
    unfold runPass
    rw [e]
    exact this
  by_cases hv : d.act.value = c.act.value
  · left; rw [hfin, hv]
  · right
    refine ⟨d, hdf, ?_, hd.1, hd.2, hv, hfin⟩
    have hcl : c ∈ l1 ++ d :: l2 := e ▸ hmem
    rcases List.mem_append.mp hcl with h1 | h2
    · have hs := sortPrio_sorted due
      rw [e] at hs
      exact sorted_append_le l1 (d :: l2) hs c d h1 (List.mem_cons_self)
    · rcases List.mem_cons.mp h2 with h3 | h3
      · exact absurd (h3 ▸ rfl) hv
      · exact absurd ⟨rfl, rfl⟩ (hn c h3)

/-- `postsolve_last_writer`: for arbitrary control lists and any truth assignment of the conditions on the solved state -/
theorem postsolve_last_writer (holds : Ctl → Bool) (cs : List Ctl) (ls : Links) (c : Ctl) (hc : c ∈ cs)
    (hh : holds c = true) (hi : c.act.link < ls.length) :
    fieldAt (postsolve holds cs ls) c.act.link c.act.field = some c.act.value
    ∨ ∃ d ∈ cs, holds d = true ∧ c.prio ≤ d.prio ∧ d.act.link = c.act.link ∧ d.act.field = c.act.field
        ∧ d.act.value ≠ c.act.value
        ∧ fieldAt (postsolve holds cs ls) c.act.link c.act.field = some d.act.value := by
  rcases runPass_last_writer (cs.filter holds) ls c (List.mem_filter.mpr ⟨hc, hh⟩) hi with h | ⟨d, hd, h1, h2, h3, h4, h5⟩
  · left; exact h
  · right
    have := List.mem_filter.mp hd
    exact ⟨d, this.1, this.2, h1, h2, h3, h4, h5⟩

/-- two conflicting triggered controls: the one of higher priority wins whatever the registration order -/
example :
    fieldAt (postsolve (fun _ => true) [⟨0, 5, ⟨0, .user, 0⟩⟩, ⟨1, 3, ⟨0, .user, 1⟩⟩] [⟨.pipe, 1, 2, 0, 1⟩]) 0 .user = some 0 := by
  decide +kernel

theorem observe_of_fieldAt (ls : Links) (i : Nat) (l : Link) (h : ls[i]? = some l) :
    observe ls (i, .status) = some (Tank.status l.kind l.user l.internal) ∧ observe ls (i, .setting) = some l.setting := by
  simp [observe, h, Link.status]

/-- `postsolve_fixpoint`: when the pass changes nothing the tracker watches, what is REPORTED for a tracked target is
what the pass computed for it (so `postsolve_last_writer` speaks about the reported state) -/
theorem postsolve_fixpoint (tracked : List (Nat × Watch)) (holds : Ctl → Bool) (cs : List Ctl) (ls : Links)
    (w : Nat × Watch) (hw : w ∈ tracked) (hno : changed tracked ls (postsolve holds cs ls) = false) :
    observe ls w = observe (postsolve holds cs ls) w := by
  unfold changed at hno
  rw [List.any_eq_false] at hno
  have := hno w hw
  simpa using this

/-! ### companions of setting / speed controls -/

/-- every companion `_get_valve_controls` builds has the PRIORITY of the setting control it accompanies and commands
`status := Active` on the same valve -/
theorem valve_companion_spec (idBase : Nat) (us : List UCtl) (c : Ctl) (hc : c ∈ companionsOf (valveCompanion idBase) us) :
    ∃ u ∈ us, u.attr = .setting ∧ u.kind = .valve ∧ c.prio = u.prio ∧ c.act = ⟨u.link, .user, 2⟩ := by
  unfold companionsOf at hc
  obtain ⟨u, hu, h⟩ := List.mem_filterMap.mp hc
  refine ⟨u, hu, ?_⟩
  unfold valveCompanion at h
  cases ha : u.attr with
  | status => simp [ha] at h
  | baseSpeed => simp [ha] at h
  | setting =>
    simp only [ha] at h
    by_cases hk : (u.kind == Kind.valve) = true
    · simp only [hk, if_true, Option.getD_some, Option.some.injEq] at h
      refine ⟨rfl, by simpa using hk, ?_, ?_⟩ <;> rw [← h]
    · simp [hk] at h

/-- ... and every companion `_get_pump_controls` builds has the priority of the `base_speed` control and commands `status := Open` -/
theorem pump_companion_spec (idBase : Nat) (us : List UCtl) (c : Ctl) (hc : c ∈ companionsOf (pumpCompanion idBase) us) :
    ∃ u ∈ us, u.attr = .baseSpeed ∧ u.kind = .pump ∧ c.prio = u.prio ∧ c.act = ⟨u.link, .user, 1⟩ := by
  unfold companionsOf at hc
  obtain ⟨u, hu, h⟩ := List.mem_filterMap.mp hc
  refine ⟨u, hu, ?_⟩
  unfold pumpCompanion at h
  cases ha : u.attr with
  | status => simp [ha] at h
  | setting => simp [ha] at h
  | baseSpeed =>
    simp only [ha] at h
    by_cases hk : (u.kind == Kind.pump) = true
    · simp only [hk, if_true, Option.getD_some, Option.some.injEq] at h
      refine ⟨rfl, by simpa using hk, ?_, ?_⟩ <;> rw [← h]
    · simp [hk] at h

/-- `explicit_status_beats_lower_priority_companion`: over the list the simulator really runs (user controls, tank / CV / pump /
valve internal controls AND the companions), a triggered user STATUS control `v` keeps its commanded `_user_status` unless a
triggered control of priority ≥ `v`'s writes `_user_status` of that link otherwise — and such an overrider is never the companion
of a setting / speed control of LOWER priority than `v` (the internal controls write `_internal_status`, hypothesis `hint`). -/
theorem explicit_status_beats_lower_priority_companion (idBase : Nat) (us : List UCtl) (tankC cvC pumpC valveC : List Ctl)
    (holds : Ctl → Bool) (ls : Links) (v : UCtl) (hv : v ∈ us) (hattr : v.attr = .status) (hh : holds v.ctl = true)
    (hi : v.link < ls.length)
    (hint : ∀ c ∈ tankC ++ cvC ++ pumpC ++ valveC, c.act.field = .internal) :
    fieldAt (postsolve holds (simulatorControls idBase us tankC cvC pumpC valveC) ls) v.link .user = some v.value
    ∨ ∃ d ∈ simulatorControls idBase us tankC cvC pumpC valveC, holds d = true ∧ v.prio ≤ d.prio ∧ d.act.link = v.link
        ∧ d.act.field = .user ∧ d.act.value ≠ v.value
        ∧ (d ∈ us.map (·.ctl) ∨ ∃ u ∈ us, u.prio = d.prio ∧ v.prio ≤ u.prio ∧ (u.attr = .setting ∨ u.attr = .baseSpeed)) := by
  have hmem : v.ctl ∈ simulatorControls idBase us tankC cvC pumpC valveC := by
    unfold simulatorControls
    simp only [List.mem_append]
    exact Or.inl (Or.inl (Or.inl (Or.inl (Or.inl (Or.inl (List.mem_map.mpr ⟨v, hv, rfl⟩))))))
  have hf : v.ctl.act.field = .user := by simp [UCtl.ctl, hattr]
  rcases postsolve_last_writer holds _ ls v.ctl hmem hh (by simpa [UCtl.ctl] using hi) with h | ⟨d, hd, h1, h2, h3, h4, h5, _⟩
  · left; simpa [UCtl.ctl, hattr] using h
  · right
    have h4' : d.act.field = .user := by rw [h4, hf]
    refine ⟨d, hd, h1, by simpa [UCtl.ctl] using h2, by simpa [UCtl.ctl] using h3, h4', by simpa [UCtl.ctl] using h5, ?_⟩
    unfold simulatorControls at hd
    simp only [List.mem_append] at hd
    have hnotint : ∀ l : List Ctl, (∀ c ∈ l, c.act.field = .internal) → d ∉ l := by
      intro l hl hdl; have := hl d hdl; rw [h4'] at this; cases this
    rcases hd with (((((hd | hd) | hd) | hd) | hd) | hd) | hd
    · exact Or.inl hd
    · exact absurd hd (hnotint _ (fun c hc => hint c (by simp [hc])))
    · exact absurd hd (hnotint _ (fun c hc => hint c (by simp [hc])))
    · obtain ⟨u, hu, ha, _, hp, _⟩ := pump_companion_spec _ us d hd
      exact Or.inr ⟨u, hu, hp.symm, by rw [← hp]; simpa [UCtl.ctl] using h2, Or.inr ha⟩
    · exact absurd hd (hnotint _ (fun c hc => hint c (by simp [hc])))
    · obtain ⟨u, hu, ha, _, hp, _⟩ := valve_companion_spec _ us d hd
      exact Or.inr ⟨u, hu, hp.symm, by rw [← hp]; simpa [UCtl.ctl] using h2, Or.inl ha⟩
    · exact absurd hd (hnotint _ (fun c hc => hint c (by simp [hc])))

/-- demo of seeded/C05-4: setting control of priority low (1) and CLOSED control of priority medium (3) on valve 0, both
triggered: the valve's `_user_status` is Closed after the pass -/
example : fieldAt (postsolve (fun _ => true)
    (simulatorControls 100 [⟨0, 1, 0, .valve, .setting, 50⟩, ⟨1, 3, 0, .valve, .status, 0⟩] [] [] [] []) [⟨.valve, 2, 2, 20, 1⟩]) 0 .user
    = some 0 := by decide +kernel

/-! ### the status property -/

/-- `reported_status_of_user_status` -/
theorem reported_status_of_user_status (k : Kind) (internal : Rat) :
    Tank.status k 0 internal = 0
    ∧ (k ≠ .valve → (Tank.status k 1 internal = 1 ∨ (internal = 0 ∧ Tank.status k 1 internal = 0)))
    ∧ (k = .valve → Tank.status k 1 internal = 1 ∧ Tank.status k 2 internal = internal) := by
  refine ⟨?_, ?_, ?_⟩
  · cases k <;> simp [Tank.status]
  · intro hk
    cases k with
    | valve => exact absurd rfl hk
    | pipe => by_cases h : internal = 0 <;> simp [Tank.status, h]
    | pump => by_cases h : internal = 0 <;> simp [Tank.status, h]
  · intro hk; subst hk; simp [Tank.status]

/-- a write to `_user_status` / `_setting` never touches `_internal_status` and vice versa: the only writers of
`_internal_status` are the internal controls (CV, pump shut-off, valve, tank limits) -/
theorem write_frame (ls : Links) (a : Act) (i : Nat) (f : Field) (h : a.field ≠ f) :
    fieldAt (write ls a) i f = fieldAt ls i f :=
  fieldAt_write_other ls a i f (fun e => h e.2)

/-- combined: a triggered status control on a pipe or pump, a step that is reported (no tracked change), target tracked:
the REPORTED status is the commanded one — Closed without exception; Open unless `_internal_status` is Closed — or a
triggered control of priority ≥ on the same target commanded something else. -/
theorem reported_consistent (tracked : List (Nat × Watch)) (holds : Ctl → Bool) (cs : List Ctl) (ls : Links) (c : Ctl)
    (hc : c ∈ cs) (hh : holds c = true) (l : Link) (hl : ls[c.act.link]? = some l) (hk : l.kind ≠ .valve)
    (hf : c.act.field = .user) (htr : (c.act.link, Watch.status) ∈ tracked)
    (hno : changed tracked ls (postsolve holds cs ls) = false) :
    (c.act.value = 0 → l.status = 0)
    ∧ (c.act.value = 1 → l.status = 1 ∨ ∃ l', (postsolve holds cs ls)[c.act.link]? = some l' ∧ l'.internal = 0 ∧ l.status = 0)
    ∨ ∃ d ∈ cs, holds d = true ∧ c.prio ≤ d.prio ∧ d.act.link = c.act.link ∧ d.act.field = c.act.field
        ∧ d.act.value ≠ c.act.value := by
  have hi : c.act.link < ls.length := (List.getElem?_eq_some_iff.mp hl).1
  rcases postsolve_last_writer holds cs ls c hc hh hi with h | ⟨d, hd, h1, h2, h3, h4, h5, _⟩
  · left
    have hobs := postsolve_fixpoint tracked holds cs ls _ htr hno
    -- the link after the pass
    have hlen : c.act.link < (postsolve holds cs ls).length := by
      unfold postsolve runPass
      have := runList_length (sortPrio (cs.filter holds)) ls
      unfold runList at this
      rw [this]; exact hi
    obtain ⟨l', hl'⟩ : ∃ l', (postsolve holds cs ls)[c.act.link]? = some l' := ⟨_, List.getElem?_eq_getElem hlen⟩
    have hu : l'.user = c.act.value := by
      have := h
      rw [hf] at this
      simpa [fieldAt, hl', Link.get] using this
    have hkind : l'.kind = l.kind := by
      -- kinds are never written
      have key : ∀ (xs : List Ctl) (s : Links) (i : Nat) (a b : Link), s[i]? = some a → (runList xs s)[i]? = some b → b.kind = a.kind := by
        intro xs
        induction xs with
        | nil => intro s i a b ha hb; simp [runList] at hb; rw [ha] at hb; cases hb; rfl
        | cons x r ih =>
          intro s i a b ha hb
          simp only [runList, List.foldl_cons] at hb
          by_cases hx : x.act.link = i
          · have : (write s x.act)[i]? = some (a.set x.act.field x.act.value) := by
              subst hx; exact modifyAt_get_same _ _ _ _ ha
            have := ih (write s x.act) i _ b this hb
            rw [this, Link.kind_set]
          · have : (write s x.act)[i]? = some a := by
              unfold write; rw [modifyAt_get_other _ _ _ _ hx]; exact ha
            exact ih (write s x.act) i a b this hb
      exact key _ ls _ l l' hl (by simpa [postsolve, runPass, runList] using hl')
    have hst : l.status = Tank.status l.kind c.act.value l'.internal := by
      have a1 := (observe_of_fieldAt ls _ l hl).1
      have a2 := (observe_of_fieldAt _ _ l' hl').1
      rw [hobs, a2] at a1
      have := Option.some.inj a1
      rw [hkind, hu] at this
      unfold Link.status
      exact this.symm
    obtain ⟨r0, r1, _⟩ := reported_status_of_user_status l.kind l'.internal
    constructor
    · intro hv; rw [hst, hv]; exact r0
    · intro hv
      rw [hst, hv]
      rcases r1 hk with h1 | ⟨h1, h2⟩
      · left; exact h1
      · right; exact ⟨l', hl', h1, h2⟩
  · right; exact ⟨d, hd, h1, h2, h3, h4, h5⟩

example : changed [(0, .status)] [⟨.pipe, 0, 2, 0, 1⟩] (postsolve (fun _ => true) [⟨0, 3, ⟨0, .user, 0⟩⟩] [⟨.pipe, 0, 2, 0, 1⟩]) = false := by
  decide +kernel

/-! ### the presolve pass and the partial step -/

/-- the presolve pass examines the due controls by decreasing backtrack (time order) -/
theorem presolve_sorted_by_backtrack (due : List Due) : (sortDue due).Pairwise (fun a b => b.back ≤ a.back) := by
  have := sortBy_sorted (fun d : Due => - d.back) (sortBy (fun d : Due => (d.ctl.prio : Int)) due)
  exact this.imp (fun h => by omega)

/-- ... and priority only orders controls of EQUAL backtrack (the second sort is stable): priority never takes precedence
over time order -/
theorem presolve_equal_backtrack_by_priority (due : List Due) :
    (sortDue due).Pairwise (fun a b => a.back = b.back → a.ctl.prio ≤ b.ctl.prio) := by
  have h1 : (sortBy (fun d : Due => (d.ctl.prio : Int)) due).Pairwise (fun a b => a.ctl.prio ≤ b.ctl.prio) :=
    (sortBy_sorted (fun d : Due => (d.ctl.prio : Int)) due).imp (fun h => by exact_mod_cast h)
  have := sortBy_stable (fun d : Due => - d.back) (fun a b : Due => a.ctl.prio ≤ b.ctl.prio) _ h1
  exact this.imp (fun h e => h (by omega))

/-- a low-priority control with backtrack 0 and a medium-priority limit control with backtrack 982: the limit control is served first -/
example : (sortDue [⟨⟨0, 1, ⟨1, .user, 0⟩⟩, 0⟩, ⟨⟨1, 3, ⟨0, .internal, 0⟩⟩, 982⟩]).map (·.ctl.id) = [1, 0] := by decide +kernel

/-- as soon as the first group (largest backtrack) changes something the tracker watches, the pass stops: the state the
solve sees has that group's actions applied and the accepted time is `sim_time − backtrack` -/
theorem presolve_first_group (tracked : List (Nat × Watch)) (due : List Due) (ls : Links) (t : Int) (d : Due) (rest : List Due)
    (hs : sortDue due = d :: rest)
    (hch : changed tracked ls (runGroup d.back rest (write ls d.ctl.act)).1 = true) :
    presolve tracked false due ls t = ((runGroup d.back rest (write ls d.ctl.act)).1, t - d.back) := by
  unfold presolve
  simp only [hs, Bool.false_eq_true, if_false, List.length_cons, presolveLoop, hch, if_true]

/-- nothing due, nothing happens: the full hydraulic step is accepted -/
theorem presolve_nothing_due (tracked : List (Nat × Watch)) (first : Bool) (ls : Links) (t : Int) :
    presolve tracked first [] ls t = (ls, t) := by
  cases first <;> simp [presolve, sortDue, sortBy, presolveLoop]

/-- the group's leading action is applied in the state handed to the solve unless a later member of the same group
(same backtrack) writes the same attribute -/
theorem runGroup_applies (back : Int) (rest : List Due) (ls : Links) (i : Nat) (f : Field) (v : Rat)
    (h0 : fieldAt ls i f = some v)
    (hall : ∀ d ∈ rest, d.ctl.hits i f → d.ctl.act.value = v) :
    fieldAt (runGroup back rest ls).1 i f = some v := by
  induction rest generalizing ls with
  | nil => exact h0
  | cons d r ih =>
    unfold runGroup
    split
    · apply ih
      · by_cases hc : d.ctl.hits i f
        · have hv := hall d (List.mem_cons_self) hc
          obtain ⟨h1, h2⟩ := hc
          have hlt : d.ctl.act.link < ls.length := by
            subst h1
            unfold fieldAt at h0
            cases hl : ls[d.ctl.act.link]? with
            | none => simp [hl] at h0
            | some x => exact (List.getElem?_eq_some_iff.mp hl).1
          rw [← h1, ← h2, ← hv]
          exact fieldAt_write_same ls d.ctl.act hlt
        · rw [fieldAt_write_other ls d.ctl.act i f hc]; exact h0
      · intro e he; exact hall e (List.mem_cons_of_mem _ he)
    · exact h0

/-- `tank_threshold_partial_step`: cylinder tank, a level control whose condition crosses at the tentative head
`h_cur = updateHead prev q dt`; it heads the sorted due list with the backtrack the condition computed; its group changes
something.  Then (1) the accepted time is `t − ⌊(value(h_cur) − θ)·A/q⌋`, (2) the accepted value is at or past θ in the
direction of flow by less than one second of flow, (3) the action is in the state the solve of that very step sees. -/
theorem tank_threshold_partial_step (pi : Rat) (tk : Tank) (hcyl : tk.curve = none) (hpi : 0 < pi) (hd : tk.diam ≠ 0)
    (lc : LevelCond) (prev q dt last : Rat) (hq : q ≠ 0)
    (hX : C06.Crossing tk lc (updateHead pi tk prev prev q dt) last)
    (tracked : List (Nat × Watch)) (due : List Due) (ls : Links) (t : Int) (d : Due) (rest : List Due)
    (hs : sortDue due = d :: rest)
    (hb : d.back = (evalLevel pi tk lc (updateHead pi tk prev prev q dt) (some q) last).back)
    (hi : d.ctl.act.link < ls.length)
    (hsame : ∀ e ∈ rest, e.ctl.hits d.ctl.act.link d.ctl.act.field → e.ctl.act.value = d.ctl.act.value)
    (hch : changed tracked ls (runGroup d.back rest (write ls d.ctl.act)).1 = true) :
    let r := presolve tracked false due ls t
    let x := (attrValue tk (updateHead pi tk prev prev q dt) lc.attr - lc.thr) * pi / 4 * (tk.diam * tk.diam) / q
    let acc := acceptedHead pi tk prev q dt d.back
    r.2 = t - x.floor
    ∧ 0 ≤ (attrValue tk acc lc.attr - lc.thr) * area pi tk / q ∧ (attrValue tk acc lc.attr - lc.thr) * area pi tk / q < 1
    ∧ fieldAt r.1 d.ctl.act.link d.ctl.act.field = some d.ctl.act.value := by
  intro r x acc
  have hr : r = ((runGroup d.back rest (write ls d.ctl.act)).1, t - d.back) := presolve_first_group tracked due ls t d rest hs hch
  have hbx : d.back = x.floor := by
    rw [hb, C06.backtrack_cylinder pi tk hcyl lc _ q last hq hX]
  have hbound := C06.limit_overshoot_bound pi tk hcyl hpi hd lc prev q dt last hq hX
  simp only at hbound
  rw [← hb] at hbound
  refine ⟨by rw [hr, hbx], hbound.1, hbound.2, ?_⟩
  rw [hr]
  exact runGroup_applies d.back rest _ _ _ _ (fieldAt_write_same ls d.ctl.act hi) hsame

/-! ### two thresholds crossed in one tentative step -/

/-- whatever happens (no exception), `evaluate` leaves `_last_value` at the value it was called on -/
theorem last_value_is_accepted_value (pi : Rat) (tk : Tank) (lc : LevelCond) (head : Rat) (q : Option Rat) (last : Rat)
    (hr : (evalLevel pi tk lc head q last).raised = false) :
    (evalLevel pi tk lc head q last).last = attrValue tk head lc.attr := by
  cases h1 : (foldRel lc.rel).holds (attrValue tk head lc.attr) lc.thr <;>
    cases h2 : (foldRel lc.rel).holds last lc.thr
  · simp [evalLevel, h1, h2]
  · simp [evalLevel, h1, h2]
  · cases q with
    | none => simp [evalLevel, h1, h2]
    | some qq =>
      cases hq : (qq == 0)
      · cases hcv : tk.curve with
        | none => simp [evalLevel, h1, h2, hq, hcv]
        | some crv =>
          cases ha : lc.attr with
          | pressure => rw [ha] at h1; simp [evalLevel, h1, h2, hq, hcv, ha] at hr
          | head => rw [ha] at h1; simp [attrValue] at h1; simp [evalLevel, h1, h2, hq, hcv, ha, attrValue]
          | level => rw [ha] at h1; simp [attrValue] at h1; simp [evalLevel, h1, h2, hq, hcv, ha, attrValue]
      · simp [evalLevel, h1, h2, hq]
  · simp [evalLevel, h1, h2]

/-- cylinder: the threshold with the SMALLER backtrack (crossed later) is strictly not reached at the level accepted for the
larger backtrack `b1`: `(value_acc − θ2)·A/q < 0` -/
theorem second_threshold_not_reached (pi : Rat) (tk : Tank) (hcyl : tk.curve = none) (hpi : 0 < pi) (hd : tk.diam ≠ 0)
    (a : Attr) (thr2 prev q dt : Rat) (hq : q ≠ 0) (b1 : Int)
    (hlt : ((attrValue tk (updateHead pi tk prev prev q dt) a - thr2) * pi / 4 * (tk.diam * tk.diam) / q).floor < b1) :
    (attrValue tk (acceptedHead pi tk prev q dt b1) a - thr2) * area pi tk / q < 0 := by
  set x := (attrValue tk (updateHead pi tk prev prev q dt) a - thr2) * pi / 4 * (tk.diam * tk.diam) / q with hx
  have hpi' : pi ≠ 0 := ne_of_gt hpi
  have key : (attrValue tk (acceptedHead pi tk prev q dt b1) a - thr2) * area pi tk / q = x - (b1 : Rat) := by
    have hacc : acceptedHead pi tk prev q dt b1
        = updateHead pi tk prev prev q dt + (-(4 * (q * (b1 : Rat)) / (pi * (tk.diam * tk.diam)))) := by
      unfold acceptedHead updateHead
      rw [hcyl]
      field_simp
      ring
    rw [hacc, C06.attrValue_shift, hx]
    unfold area
    field_simp
    ring
  rw [key]
  have h1 : x < ((x.floor + 1 : Int) : Rat) := Rat.lt_floor_add_one x
  have h2 : ((x.floor + 1 : Int) : Rat) ≤ (b1 : Rat) := by exact_mod_cast hlt
  linarith

/-- `two_thresholds_time_order`: two level controls on a cylindrical tank cross in the same tentative step with backtracks
`b1 > b2`; the first one's group changes something.  The pass accepts `t − b1` and does NOT run the second control; at the
accepted level the second threshold is strictly not reached; and after the post-solve evaluation of the second condition on
the accepted level its `_last_value` is that accepted value (not the tentative one), so its crossing is detected — with its
own backtrack — at the next step. -/
theorem two_thresholds_time_order (pi : Rat) (tk : Tank) (hcyl : tk.curve = none) (hpi : 0 < pi) (hd : tk.diam ≠ 0)
    (c1 c2 : LevelCond) (prev q dt last1 last2 : Rat) (hq : q ≠ 0)
    (hX2 : C06.Crossing tk c2 (updateHead pi tk prev prev q dt) last2)
    (tracked : List (Nat × Watch)) (due : List Due) (ls : Links) (t : Int) (d1 : Due) (rest : List Due)
    (hs : sortDue due = d1 :: rest)
    (_hb1 : d1.back = (evalLevel pi tk c1 (updateHead pi tk prev prev q dt) (some q) last1).back)
    (hgt : (evalLevel pi tk c2 (updateHead pi tk prev prev q dt) (some q) last2).back < d1.back)
    (hch : changed tracked ls (runGroup d1.back rest (write ls d1.ctl.act)).1 = true) :
    let acc := acceptedHead pi tk prev q dt d1.back
    (presolve tracked false due ls t).2 = t - d1.back
    ∧ (attrValue tk acc c2.attr - c2.thr) * area pi tk / q < 0
    ∧ ∀ q' last', (evalLevel pi tk c2 acc q' last').last = attrValue tk acc c2.attr := by
  intro acc
  refine ⟨by rw [presolve_first_group tracked due ls t d1 rest hs hch], ?_, ?_⟩
  · apply second_threshold_not_reached pi tk hcyl hpi hd c2.attr c2.thr prev q dt hq d1.back
    have := C06.backtrack_cylinder pi tk hcyl c2 _ q last2 hq hX2
    rw [this] at hgt
    exact hgt
  · intro q' last'
    apply last_value_is_accepted_value
    unfold evalLevel
    simp only [hcyl]
    split
    · cases q' with
      | none => rfl
      | some qq => by_cases hz : (qq == 0) = true <;> simp [hz]
    · rfl

/-! ### the run: every reported step is a post-solve fixpoint -/

open Wntr.TankRun in
/-- `reported_only_after_quiet_postsolve`: along the whole run (M5c `TankRun.run`, arbitrary `solve`), every saved row was
saved right after a post-solve pass, evaluated on the solution of the last solve of that step, that changed nothing the
tracker watches. -/
theorem reported_only_after_quiet_postsolve (cfg : Cfg) (n : Nat) (links : Links) (heads lasts : List Rat) :
    ∀ r ∈ (run cfg n (init links heads lasts)).rows, Quiet cfg r :=
  run_all_quiet cfg n _ (by simp [init])

open Wntr.TankRun in
/-- hence `postsolve_fixpoint` / last-writer-wins apply to EVERY reported step — for ANY presolve behaviour, in particular with
RULES (tank-level premises evaluated on the rule grid, `Controls.presolveRules` / `TankRun.ruleAt`): the proof never looks inside
the presolve pass, rules only decide which link state and time the solve starts from: for every control triggered on the reported
solution, its target attribute holds its value (or that of a triggered control of priority ≥ on the same target commanding
otherwise), and what is reported for every tracked target is what the solve of that step used. -/
theorem reported_consistent_along_run (cfg : Cfg) (n : Nat) (links : Links) (heads lasts : List Rat) :
    ∀ r ∈ (run cfg n (init links heads lasts)).rows,
      (∀ w ∈ cfg.tracked, observe r.before w = observe r.links w)
      ∧ ∀ c ∈ r.due, c.act.link < r.before.length →
          fieldAt r.links c.act.link c.act.field = some c.act.value
          ∨ ∃ d ∈ r.due, c.prio ≤ d.prio ∧ d.act.link = c.act.link ∧ d.act.field = c.act.field
              ∧ d.act.value ≠ c.act.value ∧ fieldAt r.links c.act.link c.act.field = some d.act.value := by
  intro r hr
  obtain ⟨h1, h2, _⟩ := reported_only_after_quiet_postsolve cfg n links heads lasts r hr
  constructor
  · intro w hw
    unfold changed at h2
    rw [List.any_eq_false] at h2
    simpa using h2 w hw
  · intro c hc hi
    rw [h1]
    exact runPass_last_writer r.due r.before c hc hi

end Wntr.C05
