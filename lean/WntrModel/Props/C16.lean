/-
C16 — runs terminate with well-formed results and never hide a failed step.

Model: `Model/RunLoop.lean` (M5b): the outer `while True` loop of `WNTRSimulator.run_sim` with solve failures, backup
solver, post-solve re-solves and the trial limit, the report grid, `error_code` and the three RuntimeErrors.
All theorems hold for EVERY world (= every network, control set and solver behaviour: `presolve`, `solve`, `post`,
`nodeRow`, `linkRow` are arbitrary functions of an arbitrary hidden state), every configuration with `hyd ≥ 1`, and
every point at which a solver call can fail.

What `run_sim` does not decide itself is a hypothesis, stated where it is used: `Contract` = every call of
`_compute_next_timestep_and_run_presolve_controls_and_rules` leaves the clock in `(prev, cur]`.  For time conditions and
rules it is discharged in section 7 (`sched_world_contract`, from C04's `presolve_landed`); for tank-level conditions it is checked by the harness on every observed call,
and `contract_needed` shows that `run_sim` really relies on it.

One column per element: section 6 (on the C14 registry invariant).  Not covered here (oracle only,
`harness/props/c16.py`): finiteness of the numbers in the tables.
-/
import WntrModel.Lemmas.RunLoop
import WntrModel.Lemmas.RunLoopShape
import WntrModel.Gen.RunLoopShape
import WntrModel.Lemmas.RunLoopTables
import WntrModel.Lemmas.RunLoopSched
import WntrModel.Lemmas.RunLoopTank
import WntrModel.Lemmas.PresolveProg
import WntrModel.Props.C14

namespace Wntr.RunLoop

variable {W RN RL : Type} (wd : World W RN RL) (cfg : Cfg)

/-- what `TimeOptions` guarantees (`hydraulic_timestep = max(1, int(.))`) and what a continued run starts from -/
structure Start (simTime prevTime : Int) : Prop where
  hyd_pos : 1 ≤ cfg.hyd
  prev_lt : simTime ≠ 0 → prevTime < simTime

/-! ### the unbounded semantics of the loop -/

/-- `Runs s f`: the `while True` loop started in `s` leaves through `break` / `raise` in state `f` (no fuel) -/
inductive Runs : St W RN RL → St W RN RL → Prop
  | halt {s} : s.halt ≠ none → Runs s s
  | pass {s f} : s.halt = none → Runs (step wd cfg s) f → Runs s f

theorem runs_iff_iter (s f : St W RN RL) :
    Runs wd cfg s f ↔ ∃ n, iter wd cfg n s = f ∧ f.halt ≠ none := by
  constructor
  · intro h
    induction h with
    | halt hh => exact ⟨0, rfl, hh⟩
    | pass _ _ ih => obtain ⟨n, e, hh⟩ := ih; exact ⟨n + 1, e, hh⟩
  · rintro ⟨n, e, hh⟩
    induction n generalizing s with
    | zero => cases e; exact Runs.halt hh
    | succ n ih =>
      by_cases hs : s.halt = none
      · exact Runs.pass hs (ih _ e)
      · rw [iter_of_halted wd cfg hs] at e; cases e; exact Runs.halt hs

/-- the loop is deterministic: at most one final state -/
theorem runs_deterministic {s a b : St W RN RL} (ha : Runs wd cfg s a) (hb : Runs wd cfg s b) : a = b := by
  obtain ⟨n, e1, h1⟩ := (runs_iff_iter wd cfg s a).1 ha
  obtain ⟨m, e2, h2⟩ := (runs_iff_iter wd cfg s b).1 hb
  rcases Nat.le_total n m with h | h
  · rw [← e1, ← e2]; rw [← e1] at h1; exact (iter_stable wd cfg h1 h).symm
  · rw [← e1, ← e2]; rw [← e2] at h2; exact iter_stable wd cfg h2 h

/-! ### invariants along a run that honours the contract -/

theorem init_TInv {simTime prevTime : Int} (w : W) (hS : Start cfg simTime prevTime) :
    TInv cfg (max cfg.duration simTime) (init (RN := RN) (RL := RL) w simTime prevTime) := by
  refine ⟨?_, ?_, ?_, ?_⟩
  · simp only [init]
    by_cases h : simTime = 0
    · simp [h]
    · have := hS.prev_lt h; simp [h]; exact this
  · simp only [init]; omega
  · intro h; simp [init] at h
  · intro h; simp [init] at h

theorem init_LInv (w : W) (simTime prevTime : Int) : LInv cfg (init (RN := RN) (RL := RL) w simTime prevTime) := by
  refine ⟨?_, ?_, ?_, ?_, ?_, ?_, ?_, ?_⟩ <;> simp [init]

theorem init_CInv (w : W) (simTime prevTime : Int) : CInv cfg (init (RN := RN) (RL := RL) w simTime prevTime) := by
  refine ⟨by simp [init], ?_, ?_⟩
  · intro h hh; simp [init] at hh
  · intro _ c hc; simp [init] at hc

/-- the early return either does not apply (then `enter = init`) or leaves a halted copy of `init` -/
theorem enter_cases (w : W) (simTime prevTime : Int) :
    enter (RN := RN) (RL := RL) cfg w simTime prevTime = init w simTime prevTime ∨
    (enter (RN := RN) (RL := RL) cfg w simTime prevTime = { (init w simTime prevTime : St W RN RL) with halt := some .finished } ∧
      simTime ≠ 0 ∧ simTime > cfg.duration) := by
  unfold enter
  by_cases h : (!(init (RN := RN) (RL := RL) w simTime prevTime).firstStep &&
      decide ((init (RN := RN) (RL := RL) w simTime prevTime).simTime > cfg.duration)) = true
  · right
    simp only [h, if_true, true_and]
    simp only [init, Bool.and_eq_true, Bool.not_eq_true', beq_eq_false_iff_ne] at h
    exact ⟨h.1, of_decide_eq_true h.2⟩
  · left; simp only [h]; rfl

theorem enter_TInv {simTime prevTime : Int} (w : W) (hS : Start cfg simTime prevTime)
    (hh : (enter (RN := RN) (RL := RL) cfg w simTime prevTime).halt = none) :
    TInv cfg (max cfg.duration simTime) (enter (RN := RN) (RL := RL) cfg w simTime prevTime) := by
  rcases enter_cases (RN := RN) (RL := RL) cfg w simTime prevTime with e | ⟨e, _⟩
  · rw [e]; exact init_TInv cfg w hS
  · rw [e] at hh; simp at hh

theorem enter_LInv (w : W) (simTime prevTime : Int) : LInv cfg (enter (RN := RN) (RL := RL) cfg w simTime prevTime) := by
  rcases enter_cases (RN := RN) (RL := RL) cfg w simTime prevTime with e | ⟨e, _⟩
  · rw [e]; exact init_LInv cfg w _ _
  · rw [e]; refine ⟨?_, ?_, ?_, ?_, ?_, ?_, ?_, ?_⟩ <;> simp [init]

theorem enter_CInv (w : W) (simTime prevTime : Int) : CInv cfg (enter (RN := RN) (RL := RL) cfg w simTime prevTime) := by
  rcases enter_cases (RN := RN) (RL := RL) cfg w simTime prevTime with e | ⟨e, _⟩
  · rw [e]; exact init_CInv cfg w _ _
  · rw [e]
    refine ⟨by simp [init], ?_, ?_⟩
    · intro h hh hn; simp at hh; subst hh; simp [Halt.isNoConv] at hn
    · intro _ c hc; simp [init] at hc

theorem enter_times (w : W) (simTime prevTime : Int) :
    (enter (RN := RN) (RL := RL) cfg w simTime prevTime).simTime = simTime ∧
    (enter (RN := RN) (RL := RL) cfg w simTime prevTime).prevTime = (init (RN := RN) (RL := RL) w simTime prevTime).prevTime := by
  rcases enter_cases (RN := RN) (RL := RL) cfg w simTime prevTime with e | ⟨e, _⟩ <;> rw [e] <;> exact ⟨rfl, rfl⟩

theorem presolvePhase_prev (s : St W RN RL) : (presolvePhase wd s).prevTime = s.prevTime := by
  cases hr : s.resolve with
  | true => rw [presolvePhase_resolve wd hr]
  | false => rw [presolvePhase_fresh wd hr]

/-- along a contract-honouring run the log invariant holds everywhere and the loop invariant in every running state -/
theorem run_invariants {simTime prevTime : Int} (w : W) (hS : Start cfg simTime prevTime)
    (hC : Contract wd cfg (enter cfg w simTime prevTime)) (n : Nat) :
    LInv cfg (iter wd cfg n (enter cfg w simTime prevTime)) ∧
    ((iter wd cfg n (enter cfg w simTime prevTime)).halt = none →
      TInv cfg (max cfg.duration simTime) (iter wd cfg n (enter cfg w simTime prevTime))) := by
  induction n with
  | zero => exact ⟨enter_LInv cfg w _ _, fun hh => enter_TInv cfg w hS hh⟩
  | succ n ih =>
    rw [iter_succ']
    obtain ⟨l, t⟩ := ih
    by_cases hs : (iter wd cfg n (enter cfg w simTime prevTime)).halt = none
    · have inv := t hs
      obtain ⟨m1, _⟩ := presolve_mid wd cfg hs inv (hC n)
      have hlt := m1.prev_lt
      rw [presolvePhase_prev] at hlt
      refine ⟨step_LInv wd cfg l hs hlt, fun hh => ?_⟩
      rcases step_progress wd cfg hS.hyd_pos (Int.le_max_left _ _) hs inv (hC n) with h | ⟨h, _⟩
      · exact absurd hh h
      · exact h
    · rw [step_of_halted wd cfg hs]
      exact ⟨l, fun hh => absurd hh hs⟩

/-! ### 1. termination -/

theorem pot_lt_fuel (P : Int) (Mn : Nat) (hP : 0 ≤ P) :
    P * ((Mn : Int) + 1) < ((P.toNat * (Mn + 1) + 1 : Nat) : Int) := by
  have h : ((P.toNat : Nat) : Int) = P := Int.toNat_of_nonneg hP
  push_cast
  rw [h]
  omega

/-- **run_terminates**: for every world that honours the presolve contract, `run_sim`'s loop leaves after at most
`fuel = (max(duration, t₀) − prev₀)·(max(trials,0)+1) + 1` passes (measure: remaining seconds × trials per step +
remaining trials); the fuelled function is the unbounded semantics, and more fuel changes nothing. -/
theorem run_terminates {simTime prevTime : Int} (w : W) (hS : Start cfg simTime prevTime)
    (hC : Contract wd cfg (enter cfg w simTime prevTime)) :
    (runSim wd cfg w simTime prevTime).halt ≠ none ∧
    Runs wd cfg (enter cfg w simTime prevTime) (runSim wd cfg w simTime prevTime) ∧
    ∀ n, fuel cfg (enter (W := W) (RN := RN) (RL := RL) cfg w simTime prevTime).simTime
        (enter (W := W) (RN := RN) (RL := RL) cfg w simTime prevTime).prevTime ≤ n →
      iter wd cfg n (enter cfg w simTime prevTime) = runSim wd cfg w simTime prevTime := by
  have hh : (runSim wd cfg w simTime prevTime).halt ≠ none := by
    unfold runSim
    by_cases hr : (enter (RN := RN) (RL := RL) cfg w simTime prevTime).halt = none
    · have inv := enter_TInv (RN := RN) (RL := RL) cfg w hS hr
      refine halts_within wd cfg hS.hyd_pos (Int.le_max_left _ _) _ _ hr inv hC ?_
      have hpl := inv.prev_lt
      have hle := inv.le_D
      have e1 := (enter_times (RN := RN) (RL := RL) cfg w simTime prevTime).1
      have hres : (enter (RN := RN) (RL := RL) cfg w simTime prevTime).resolve = false := by
        rcases enter_cases (RN := RN) (RL := RL) cfg w simTime prevTime with e | ⟨e, _⟩ <;> rw [e] <;> rfl
      have := pot_lt_fuel (max cfg.duration simTime - (enter (W := W) (RN := RN) (RL := RL) cfg w simTime prevTime).prevTime)
        cfg.maxTrials.toNat (by omega)
      simp only [potential, hres, Bool.false_eq_true, if_false, fuel, e1, M]
      exact this
    · rw [iter_of_halted wd cfg hr]; exact hr
  exact ⟨hh, (runs_iff_iter wd cfg _ _).2 ⟨_, rfl, hh⟩, fun n hn => iter_stable wd cfg hh hn⟩

/-- **continued_completed_noop**: `run_sim` on a model that was already simulated past the duration (a continued run,
`sim_time ≠ 0`, with `sim_time > duration`) makes no solver call, reports nothing and returns empty tables with
`error_code` None -- whatever the world. -/
theorem continued_completed_noop (w : W) (simTime prevTime : Int) (h0 : simTime ≠ 0) (hd : simTime > cfg.duration) :
    (runSim wd cfg w simTime prevTime).halt = some .finished ∧
    (runSim wd cfg w simTime prevTime).nSolve = 0 ∧
    (runSim wd cfg w simTime prevTime).result = some ⟨.finished, [], [], []⟩ ∧
    (runSim wd cfg w simTime prevTime).w = w := by
  have e : enter (RN := RN) (RL := RL) cfg w simTime prevTime =
      { (init w simTime prevTime : St W RN RL) with halt := some .finished } := by
    rcases enter_cases (RN := RN) (RL := RL) cfg w simTime prevTime with e | ⟨e, _⟩
    · exfalso
      have : (enter (RN := RN) (RL := RL) cfg w simTime prevTime).halt = some .finished := by
        simp [enter, init, h0, hd]
      rw [e] at this; simp [init] at this
    · exact e
  have hr : runSim wd cfg w simTime prevTime = { (init w simTime prevTime : St W RN RL) with halt := some .finished } := by
    unfold runSim
    rw [iter_of_halted wd cfg (by rw [e]; simp), e]
  rw [hr]
  exact ⟨rfl, rfl, rfl, rfl⟩

/-- a fresh run of `duration ≥ 0` seconds needs at most `(duration+1)·(trials+1) + 1` passes -/
theorem fuel_fresh (_hd : 0 ≤ cfg.duration) :
    fuel cfg 0 (-1) = (cfg.duration.toNat + 1) * (cfg.maxTrials.toNat + 1) + 1 := by
  unfold fuel
  have : (max cfg.duration 0 - -1).toNat = cfg.duration.toNat + 1 := by omega
  rw [this]

/-- the world used by `contract_needed`: after the first step presolve always moves the clock back onto second 1 -/
def stuckWorld : World Unit Unit Unit where
  presolve := fun _ t _ first => ((), if first then t else 1)
  solve := fun _ _ _ => ((), .converged)
  post := fun _ => ((), false)
  nodeRow := fun _ => ()
  linkRow := fun _ => ()

def stuckCfg : Cfg := { hyd := 1, report := 2, duration := 10, maxTrials := 5, backup := false, convErr := false }

/-- **contract_needed**: `run_sim` itself has no guard against a presolve step that does not advance: with a
`presolve` that returns to the previous accepted time (off the report grid) the loop never leaves.  (No shipped
condition class does this; the bound is theirs, not `run_sim`'s.) -/
theorem stuck_step (s : St Unit Unit Unit) (h1 : s.halt = none) (h2 : s.resolve = false) (h3 : s.simTime = 2)
    (h4 : s.prevTime = 1) (h5 : s.firstStep = false) :
    (step stuckWorld stuckCfg s).halt = none ∧ (step stuckWorld stuckCfg s).resolve = false ∧
    (step stuckWorld stuckCfg s).simTime = 2 ∧ (step stuckWorld stuckCfg s).prevTime = 1 ∧
    (step stuckWorld stuckCfg s).firstStep = false := by
  simp [step, h1, h2, h3, h4, h5, presolvePhase, solvePhase, solveCall, postPhase, acceptPhase, stuckWorld, stuckCfg,
    reportNow, SolveOutcome.ok]

theorem contract_needed :
    ∀ n, (iter stuckWorld stuckCfg n (init (RN := Unit) (RL := Unit) () 0 0)).halt = none := by
  have key : ∀ n, (iter stuckWorld stuckCfg (n + 2) (init (RN := Unit) (RL := Unit) () 0 0)).halt = none ∧
      (iter stuckWorld stuckCfg (n + 2) (init (RN := Unit) (RL := Unit) () 0 0)).resolve = false ∧
      (iter stuckWorld stuckCfg (n + 2) (init (RN := Unit) (RL := Unit) () 0 0)).simTime = 2 ∧
      (iter stuckWorld stuckCfg (n + 2) (init (RN := Unit) (RL := Unit) () 0 0)).prevTime = 1 ∧
      (iter stuckWorld stuckCfg (n + 2) (init (RN := Unit) (RL := Unit) () 0 0)).firstStep = false := by
    intro n
    induction n with
    | zero => decide
    | succ n ih =>
      obtain ⟨h1, h2, h3, h4, h5⟩ := ih
      rw [iter_succ']
      exact stuck_step _ h1 h2 h3 h4 h5
  intro n
  match n with
  | 0 => rfl
  | 1 => decide
  | n + 2 => exact (key n).1

/-! ### 2. the reported index -/

/-- **times_strictly_increasing_on_grid**: in every state of a contract-honouring run (in particular the final one)
`results.time` is strictly increasing, is exactly the list of accepted step times filtered by the report grid
(every accepted step for 'ALL'; the grid is `report_start + k·report_timestep`, `k ≥ 0`), the node lists and the link lists have one entry per reported time (so the two
families of tables share the index), and 'Simulation already solved this timestep' is never raised. -/
theorem times_strictly_increasing_on_grid {simTime prevTime : Int} (w : W) (hS : Start cfg simTime prevTime)
    (hC : Contract wd cfg (enter cfg w simTime prevTime)) (n : Nat) :
    let s := iter wd cfg n (enter cfg w simTime prevTime)
    s.times.Pairwise (· < ·) ∧
    s.accepted.Pairwise (· < ·) ∧
    s.times = s.accepted.filter (reportNow cfg) ∧
    (cfg.report ≠ 0 → ∀ t ∈ s.times, cfg.reportStart ≤ t ∧ (t - cfg.reportStart) % cfg.report = 0) ∧
    (cfg.report = 0 → s.times = s.accepted) ∧
    s.nodeRows.length = s.times.length ∧ s.linkRows.length = s.times.length ∧
    s.halt ≠ some .raiseAlreadySolved := by
  intro s
  obtain ⟨l, _⟩ := run_invariants wd cfg w hS hC n
  refine ⟨l.times_sorted, l.acc_sorted, l.times_eq, ?_, ?_, l.nlen, l.llen, l.not_already⟩
  · intro hr t ht
    have h1 : t ∈ s.accepted.filter (reportNow cfg) := l.times_eq ▸ ht
    have h2 := (List.mem_filter.1 h1).2
    simp only [reportNow, Bool.or_eq_true, beq_iff_eq, Bool.and_eq_true, decide_eq_true_eq] at h2
    rcases h2 with h2 | h2
    · exact absurd h2 hr
    · exact ⟨h2.1, h2.2⟩
  · intro hr
    have h1 := l.times_eq
    have : ∀ t, reportNow cfg t = true := by intro t; simp [reportNow, hr]
    rw [h1]; exact List.filter_eq_self.2 (fun t _ => this t)

/-- the tables `run_sim` returns (when it returns) are indexed by that list: both families use `results.time` -/
theorem result_tables_share_index {simTime prevTime : Int} (w : W) (hS : Start cfg simTime prevTime)
    (hC : Contract wd cfg (enter cfg w simTime prevTime)) (r : Result RN RL)
    (hr : (runSim wd cfg w simTime prevTime).result = some r) :
    r.times.Pairwise (· < ·) ∧ r.nodeRows.length = r.times.length ∧ r.linkRows.length = r.times.length := by
  obtain ⟨l, _⟩ := run_invariants wd cfg w hS hC
    (fuel cfg (enter (W := W) (RN := RN) (RL := RL) cfg w simTime prevTime).simTime
      (enter (W := W) (RN := RN) (RL := RL) cfg w simTime prevTime).prevTime)
  unfold St.result at hr
  split at hr
  · cases hr
  · split at hr
    · cases hr; exact ⟨l.times_sorted, l.nlen, l.llen⟩
    · cases hr; exact ⟨List.Pairwise.nil, rfl, rfl⟩

/-! ### 3. a failed step stops the run and is flagged -/

/-- **failure_stops_and_flags** (local form, every world, no contract needed): if in a running state the solver phase
fails -- the primary call failed and there is no backup solver, or the backup call failed too -- the loop is left in
that very pass: `RuntimeError` when `convergence_error`, else `error_code = error` and a normal return; nothing is
appended to `results.time` / the node lists / the link lists, and no later pass changes anything. -/
theorem failure_stops_and_flags (s : St W RN RL) (hs : s.halt = none)
    (hf : (solvePhase wd cfg (presolvePhase wd s)).2.ok = false) :
    (step wd cfg s).halt = some (if cfg.convErr then .raiseNoConv else .flagNoConv) ∧
    (step wd cfg s).times = s.times ∧ (step wd cfg s).nodeRows = s.nodeRows ∧ (step wd cfg s).linkRows = s.linkRows ∧
    (∀ n, iter wd cfg n (step wd cfg s) = step wd cfg s) := by
  have hh : (step wd cfg s).halt = some (failHalt cfg) := by rw [step_running wd cfg hs]; simp [hf]
  have hfail : (failHalt cfg).isFailure = true := by rcases failHalt_cases cfg with e | e <;> rw [e] <;> rfl
  obtain ⟨a, b, c⟩ := (step_shape wd cfg hs).2.2.2.2.2 _ hh hfail
  exact ⟨hh, a, b, c, fun n => iter_of_halted wd cfg (by rw [hh]; simp) n⟩

/-- **never_hidden** (global form): in every state reached by the loop, a solver call that failed and was not taken
over by the backup solver (it is a backup call itself, or there is no backup solver) is the LAST call ever made, and
the state is halted with the no-convergence status -- so a run that ends `finished` (error_code None) contains only
converged calls and rescued primary calls. -/
theorem never_hidden (w : W) (simTime prevTime : Int) (n : Nat) (b : Bool) (o : SolveOutcome)
    (hmem : (b, o) ∈ (iter wd cfg n (enter cfg w simTime prevTime)).calls) (ho : o.ok = false)
    (hb : b = true ∨ cfg.backup = false) :
    (iter wd cfg n (enter cfg w simTime prevTime)).halt = some (if cfg.convErr then .raiseNoConv else .flagNoConv) ∧
    (iter wd cfg n (enter cfg w simTime prevTime)).calls.getLast? = some (b, o) := by
  have hC : ∀ n, CInv cfg (iter wd cfg n (enter cfg w simTime prevTime)) ∧
      (∀ h, (iter wd cfg n (enter cfg w simTime prevTime)).halt = some h → h.isNoConv = true → h = failHalt cfg) := by
    intro n
    induction n with
    | zero =>
      refine ⟨enter_CInv cfg w _ _, fun h hh hn => ?_⟩
      rcases enter_cases (RN := RN) (RL := RL) cfg w simTime prevTime with e | ⟨e, _⟩
      · rw [iter, e] at hh; simp [init] at hh
      · rw [iter, e] at hh; simp at hh; subst hh; simp [Halt.isNoConv] at hn
    | succ n ih =>
      rw [iter_succ']
      by_cases hs : (iter wd cfg n (enter cfg w simTime prevTime)).halt = none
      · refine ⟨step_CInv wd cfg hs ih.1, ?_⟩
        intro h hh hn
        rw [step_running wd cfg hs] at hh
        split at hh
        · rename_i hok
          have h2 : (solvePhase wd cfg (presolvePhase wd (iter wd cfg n (enter cfg w simTime prevTime)))).1.halt = none := by
            obtain ⟨w', l, heq, _⟩ := solvePhase_spec wd cfg (presolvePhase wd (iter wd cfg n (enter cfg w simTime prevTime)))
            rw [heq]
            cases hr : (iter wd cfg n (enter cfg w simTime prevTime)).resolve with
            | true => rw [presolvePhase_resolve wd hr]; exact hs
            | false => rw [presolvePhase_fresh wd hr]; exact hs
          have hfl : h.isFailure = true := by cases h <;> simp_all [Halt.isNoConv, Halt.isFailure]
          have := ((post_shape wd cfg h2).2.2.2.2.2 h hh hfl).1
          rcases trialHalt_cases cfg with e | e <;> rw [e] at this <;> subst this <;> simp [Halt.isNoConv] at hn
        · simp only [Option.some.injEq] at hh; exact hh.symm
      · rw [step_of_halted wd cfg hs]; exact ih
  obtain ⟨ci, hk⟩ := hC n
  have hnot : ¬ CallsClean cfg (iter wd cfg n (enter cfg w simTime prevTime)).calls := by
    intro hc
    rcases hc _ hmem with h | ⟨h1, h2⟩
    · simp only at h; rw [ho] at h; cases h
    · simp only at h2; rcases hb with hb | hb
      · rw [hb] at h2; cases h2
      · rw [hb] at h1; cases h1
  have hex : ∃ h, (iter wd cfg n (enter cfg w simTime prevTime)).halt = some h ∧ h.isNoConv = true := by
    by_contra hne
    apply hnot
    apply ci.clean
    intro h hh
    cases hn : h.isNoConv with
    | false => rfl
    | true => exact absurd ⟨h, hh, hn⟩ hne
  obtain ⟨h, hh, hn⟩ := hex
  obtain ⟨pre, o', e, ho', hpre⟩ := ci.noconv h hh hn
  have hlast : (b, o) = (cfg.backup, o') := by
    rw [e] at hmem
    rcases List.mem_append.1 hmem with hm | hm
    · exfalso
      rcases hpre _ hm with h | ⟨h1, h2⟩
      · simp only at h; rw [ho] at h; cases h
      · simp only at h2; rcases hb with hb | hb
        · rw [hb] at h2; cases h2
        · rw [hb] at h1; cases h1
    · simpa using hm
  refine ⟨?_, ?_⟩
  · rw [hh, hk h hh hn]; rfl
  · rw [e, hlast]; simp

/-- **trial_overflow_stops_and_flags**: when the post-solve controls change the network for the
`(max_trials+1)`-th time within one step (`trial > max_trials` after the increment), the loop is left in that pass
exactly like a failed solve: `RuntimeError` when `convergence_error`, else `error_code = error`; nothing is reported
for the step. -/
theorem trial_overflow_stops_and_flags (s : St W RN RL) (hs : s.halt = none)
    (hok : (solvePhase wd cfg (presolvePhase wd s)).2.ok = true)
    (hch : (wd.post (solvePhase wd cfg (presolvePhase wd s)).1.w).2 = true)
    (hov : (solvePhase wd cfg (presolvePhase wd s)).1.trial + 1 > cfg.maxTrials) :
    (step wd cfg s).halt = some (if cfg.convErr then .raiseTrials else .flagTrials) ∧
    (step wd cfg s).times = s.times ∧ (step wd cfg s).nodeRows = s.nodeRows ∧ (step wd cfg s).linkRows = s.linkRows ∧
    (∀ n, iter wd cfg n (step wd cfg s) = step wd cfg s) := by
  have hh : (step wd cfg s).halt = some (trialHalt cfg) := by
    rw [step_running wd cfg hs]; simp [hok, postPhase, hch, hov]
  have hfail : (trialHalt cfg).isFailure = true := by rcases trialHalt_cases cfg with e | e <;> rw [e] <;> rfl
  obtain ⟨a, b, c⟩ := (step_shape wd cfg hs).2.2.2.2.2 _ hh hfail
  exact ⟨hh, a, b, c, fun n => iter_of_halted wd cfg (by rw [hh]; simp) n⟩

/-! ### 4. what was reported before the failure is what the run without the failure reports -/

/-- **failure_prefix**: let a run stop on a failure (no convergence or trial limit, flagged or raised) after `k+1`
solver calls, and let a second world have the same controls and a solver that answers the same on the calls
`0 … k-1` (it may answer anything from call `k` on, e.g. converge).  Then everything the first run reported -- times,
node rows, link rows -- is a prefix of what the second run has reported once it has halted (or has made as many
passes).  No contract needed. -/
theorem failure_prefix (wd' : World W RN RL) (s0 : St W RN RL) :
    ∀ (n : Nat) (h : Halt), (iter wd cfg n s0).halt = some h → h.isFailure = true →
      Agree wd wd' ((iter wd cfg n s0).nSolve - 1) →
      ∀ m, ((iter wd' cfg m s0).halt ≠ none ∨ n ≤ m) →
        (iter wd cfg n s0).times <+: (iter wd' cfg m s0).times ∧
        (iter wd cfg n s0).nodeRows <+: (iter wd' cfg m s0).nodeRows ∧
        (iter wd cfg n s0).linkRows <+: (iter wd' cfg m s0).linkRows := by
  intro n
  induction n generalizing s0 with
  | zero =>
    intro h hh _ _ m _
    have hne : s0.halt ≠ none := by simp only [iter] at hh; rw [hh]; simp
    rw [iter_of_halted wd' cfg hne]
    exact ⟨List.prefix_refl _, List.prefix_refl _, List.prefix_refl _⟩
  | succ n ih =>
    intro h hh hf A m hm
    by_cases hs : s0.halt = none
    · rw [iter] at hh A ⊢
      by_cases hst : (step wd cfg s0).halt = none
      · -- the first pass is not the failing one: both worlds make the same pass
        have hlt := nSolve_lt_of_halts wd cfg hst (by rw [hh]; simp)
        have e : step wd' cfg s0 = step wd cfg s0 := step_agree wd cfg A s0 (by omega)
        cases m with
        | zero =>
          rcases hm with hm | hm
          · exact absurd hs hm
          · omega
        | succ m =>
          rw [iter, e]
          refine ih (step wd cfg s0) h hh hf A m ?_
          rcases hm with hm | hm
          · left; rw [iter, e] at hm; exact hm
          · right; omega
      · -- the first pass is the halting one: it adds nothing, and the other run only appends
        rw [iter_of_halted wd cfg hst] at hh ⊢
        obtain ⟨a, b, c⟩ := (step_shape wd cfg hs).2.2.2.2.2 h hh hf
        obtain ⟨_, t, r, l⟩ := iter_mono wd' cfg m s0
        rw [a, b, c]
        exact ⟨t, r, l⟩
    · have hne : (iter wd' cfg m s0) = s0 := iter_of_halted wd' cfg hs m
      rw [iter_of_halted wd cfg hs, hne]
      exact ⟨List.prefix_refl _, List.prefix_refl _, List.prefix_refl _⟩

/-! ### 5. the theorems are about the program read off the current source

`Gen/RunLoopShape.lean` is regenerated on every check run from the Python `ast` of `WNTRSimulator.run_sim` (statement
order, every branch with its `raise` / error flag / `break` / `continue`, trial reset and increment, the report-grid test,
the end test, the early return).  `execS` interprets that program; `Lemmas/RunLoopShape.lean` proves that the
interpretation of `refShape` is `step` / `runSim`.  A reordered statement or a dropped `break` in `run_sim` changes the
generated term, `generated_shape_is_ref` stops being provable, and with it every theorem below. -/

/-- the loop skeleton generated from the current `run_sim` is the skeleton the model was written from -/
theorem generated_shape_is_ref : Gen.shape = refShape := by decide

theorem generated_step_is_model (s : St W RN RL) : stepS Gen.shape wd cfg s = step wd cfg s := by
  rw [generated_shape_is_ref]; exact stepS_ref wd cfg s

theorem generated_run_is_model (w : W) (simTime prevTime : Int) :
    runSimS Gen.shape wd cfg w simTime prevTime = runSim wd cfg w simTime prevTime := by
  rw [generated_shape_is_ref]; exact runSimS_ref wd cfg w simTime prevTime

/-- `run_terminates`, for the interpreted generated program -/
theorem generated_run_terminates {simTime prevTime : Int} (w : W) (hS : Start cfg simTime prevTime)
    (hC : Contract wd cfg (enter cfg w simTime prevTime)) :
    (runSimS Gen.shape wd cfg w simTime prevTime).halt ≠ none ∧
    ∀ n, fuel cfg (enterS (W := W) (RN := RN) (RL := RL) Gen.shape cfg w simTime prevTime).simTime
        (enterS (W := W) (RN := RN) (RL := RL) Gen.shape cfg w simTime prevTime).prevTime ≤ n →
      iterS Gen.shape wd cfg n (enterS Gen.shape cfg w simTime prevTime) = runSimS Gen.shape wd cfg w simTime prevTime := by
  rw [generated_run_is_model, generated_shape_is_ref, enterS_ref]
  obtain ⟨a, _, c⟩ := run_terminates wd cfg w hS hC
  exact ⟨a, fun n hn => by rw [iterS_ref]; exact c n hn⟩

/-- `times_strictly_increasing_on_grid` + `result_tables_share_index`, for the generated program's final state -/
theorem generated_result_well_formed {simTime prevTime : Int} (w : W) (hS : Start cfg simTime prevTime)
    (hC : Contract wd cfg (enter cfg w simTime prevTime)) :
    let F := runSimS Gen.shape wd cfg w simTime prevTime
    F.times.Pairwise (· < ·) ∧ F.times = F.accepted.filter (reportNow cfg) ∧
    F.nodeRows.length = F.times.length ∧ F.linkRows.length = F.times.length ∧ F.halt ≠ some .raiseAlreadySolved := by
  intro F
  have hF : F = runSim wd cfg w simTime prevTime := generated_run_is_model wd cfg w simTime prevTime
  rw [hF]
  obtain ⟨a, _, c, _, _, f, g, h⟩ := times_strictly_increasing_on_grid wd cfg w hS hC
    (fuel cfg (enter (W := W) (RN := RN) (RL := RL) cfg w simTime prevTime).simTime
      (enter (W := W) (RN := RN) (RL := RL) cfg w simTime prevTime).prevTime)
  exact ⟨a, c, f, g, h⟩

/-- `failure_stops_and_flags`, for one pass of the generated program -/
theorem generated_failure_stops_and_flags (s : St W RN RL) (hs : s.halt = none)
    (hf : (solvePhase wd cfg (presolvePhase wd s)).2.ok = false) :
    (stepS Gen.shape wd cfg s).halt = some (if cfg.convErr then .raiseNoConv else .flagNoConv) ∧
    (stepS Gen.shape wd cfg s).times = s.times ∧ (stepS Gen.shape wd cfg s).nodeRows = s.nodeRows ∧
    (stepS Gen.shape wd cfg s).linkRows = s.linkRows := by
  rw [generated_step_is_model]
  obtain ⟨a, b, c, d, _⟩ := failure_stops_and_flags wd cfg s hs hf
  exact ⟨a, b, c, d⟩

/-- `trial_overflow_stops_and_flags`, for one pass of the generated program -/
theorem generated_trial_overflow_stops_and_flags (s : St W RN RL) (hs : s.halt = none)
    (hok : (solvePhase wd cfg (presolvePhase wd s)).2.ok = true)
    (hch : (wd.post (solvePhase wd cfg (presolvePhase wd s)).1.w).2 = true)
    (hov : (solvePhase wd cfg (presolvePhase wd s)).1.trial + 1 > cfg.maxTrials) :
    (stepS Gen.shape wd cfg s).halt = some (if cfg.convErr then .raiseTrials else .flagTrials) ∧
    (stepS Gen.shape wd cfg s).times = s.times := by
  rw [generated_step_is_model]
  obtain ⟨a, b, _⟩ := trial_overflow_stops_and_flags wd cfg s hs hok hch hov
  exact ⟨a, b⟩

/-- `continued_completed_noop`, for the generated program (it contains the early return) -/
theorem generated_completed_noop (w : W) (simTime prevTime : Int) (h0 : simTime ≠ 0) (hd : simTime > cfg.duration) :
    (runSimS Gen.shape wd cfg w simTime prevTime).result = some ⟨.finished, [], [], []⟩ ∧
    (runSimS Gen.shape wd cfg w simTime prevTime).nSolve = 0 := by
  rw [generated_run_is_model]
  obtain ⟨_, b, c, _⟩ := continued_completed_noop wd cfg w simTime prevTime h0 hd
  exact ⟨c, b⟩

/-! ### 6. exactly one column per model element

`get_results` takes its columns from the typed name lists and `save_results` appends through the typed iterators; by the
C14 invariant (Props/C14 `inv_history`: it holds after EVERY edit history of the repaired registry code) these list
exactly the registry keys, each once.  So for every network that can be built, and any number `m` of reported steps:
no KeyError, no shape error, columns = elements, `m` rows.  (What the rows contain is the world's business.) -/

/-- **one_column_per_element**: for every edit history `ops` of a new model and every `m`, the node tables have the
columns `junctions ++ tanks ++ reservoirs`, which are the node registry's keys, each exactly once, with `m` entries each;
likewise the link tables with `pipes ++ head pumps ++ power pumps ++ valves` -/
theorem one_column_per_element {R : Type} (ops : List Registry.Op) (rowN rowL : Nat → Registry.Name → R) (m : Nat) :
    let s := Registry.run Registry.repaired Registry.init ops
    ((Tables.nodeNames s).Nodup ∧ (∀ k, k ∈ Tables.nodeNames s ↔ k ∈ Registry.AL.keys s.nodes) ∧
      ∃ d cols, Tables.savedTimes rowN (Tables.nodeNames s) (Registry.AL.keys s.nodes) m = some d ∧
        Tables.table (Tables.nodeNames s) m d = some cols ∧ cols.map Prod.fst = Tables.nodeNames s ∧
        ∀ c ∈ cols, c.2.length = m) ∧
    ((Tables.linkNames s).Nodup ∧ (∀ k, k ∈ Tables.linkNames s ↔ k ∈ Registry.AL.keys s.links) ∧
      ∃ d cols, Tables.savedTimes rowL (Tables.linkNames s) (Registry.AL.keys s.links) m = some d ∧
        Tables.table (Tables.linkNames s) m d = some cols ∧ cols.map Prod.fst = Tables.linkNames s ∧
        ∀ c ∈ cols, c.2.length = m) := by
  intro s
  have h : Registry.Inv s := Registry.inv_history ops
  exact ⟨Tables.node_table_one_column_per_element h rowN m, Tables.link_table_one_column_per_element h rowL m⟩

/-- non-vacuity: a tank, a junction, a reservoir, a pipe and a pump, three reported steps -/
example : (Tables.savedTimes (fun j k => (j, k)) (Tables.nodeNames (Registry.run Registry.repaired Registry.init
      [.addTank 1 none, .addJunction 2 none false, .addReservoir 3 none, .addPipe 4 1 2, .addPump 5 3 2 .power none]))
      [1, 2, 3] 3).bind (Tables.table [2, 1, 3] 3) =
    some [(2, [(0, 2), (1, 2), (2, 2)]), (1, [(0, 1), (1, 1), (2, 1)]), (3, [(0, 3), (1, 3), (2, 3)])] := by decide

/-! ### 7. no unproved premise for time conditions and rules

For worlds whose presolve pass is the scheduler of C04/C10 (`Model/Sched.lean`: SimTime / TimeOfDay conditions and their
AND/OR combinations as presolve controls, rules on the rule clock) -- with an ARBITRARY solver and ARBITRARY post-solve
controls -- the contract is a theorem (`Lemmas/RunLoopSched.lean`, from `Wntr.Sched.presolve_landed`), so termination and
the well-formed index hold outright.  (Tank-level conditions compute their backtrack in floating point: for them the
contract stays an assumption checked on every observed call.) -/

section SchedWorld
variable {A : Type} (scfg : Wntr.Sched.Cfg)
  (solveF : Wntr.Sched.Vals × A → Nat → Bool → (Wntr.Sched.Vals × A) × SolveOutcome)
  (postF : Wntr.Sched.Vals × A → (Wntr.Sched.Vals × A) × Bool)
  (nodeRowF : Wntr.Sched.St × A → RN) (linkRowF : Wntr.Sched.St × A → RL)

/-- the contract for a scheduler world started from a state satisfying the scheduler's invariant (`Sched.startState_inv`:
a fresh model, or a continued one whose `_rule_iter` was set by `run_sim`) -/
theorem sched_world_contract (hR : 0 < scfg.rule) (hH : 1 ≤ cfg.hyd) (w0 : Wntr.Sched.St × A) (simTime prevTime : Int)
    (hI : Wntr.Sched.Inv scfg { w0.1 with simTime := simTime, prevTime := if simTime = 0 then -1 else prevTime }) :
    Contract (schedWorld scfg solveF postF nodeRowF linkRowF) cfg (enter cfg w0 simTime prevTime) := by
  apply sched_contract scfg (Wntr.Sched.presolve scfg) solveF postF nodeRowF linkRowF cfg (lands_presolve scfg hR) hH
  have hJ : J scfg (init (RN := RN) (RL := RL) w0 simTime prevTime) := by
    by_cases h0 : simTime = 0
    · subst h0
      simp only [if_true] at hI
      exact ⟨by simp [init], hI.rl, fun _ => ⟨by simpa [init] using hI.hi, by simpa [init] using hI.lo⟩, fun h => by simp [init] at h⟩
    · simp only [h0, if_false] at hI
      refine ⟨by simpa [init, h0] using hI.lt, hI.rl, fun _ => ⟨by simpa [init, h0] using hI.hi, by simpa [init, h0] using hI.lo⟩,
        fun h => by simp [init] at h⟩
  rcases enter_cases (RN := RN) (RL := RL) cfg w0 simTime prevTime with e | ⟨e, _⟩
  · rw [e]; exact Or.inr hJ
  · rw [e]; exact Or.inl (by simp)

/-- **run_terminates_time_conditions**: `run_terminates` and `times_strictly_increasing_on_grid` without the contract
hypothesis, for every scheduler configuration (any time controls, any rules), solver and post-solve behaviour -/
theorem run_terminates_time_conditions (hR : 0 < scfg.rule) (w0 : Wntr.Sched.St × A) {simTime prevTime : Int}
    (hS : Start cfg simTime prevTime)
    (hI : Wntr.Sched.Inv scfg { w0.1 with simTime := simTime, prevTime := if simTime = 0 then -1 else prevTime }) :
    let F := runSim (schedWorld scfg solveF postF nodeRowF linkRowF) cfg w0 simTime prevTime
    F.halt ≠ none ∧ F.times.Pairwise (· < ·) ∧ F.times = F.accepted.filter (reportNow cfg) ∧
    F.nodeRows.length = F.times.length ∧ F.linkRows.length = F.times.length ∧ F.halt ≠ some .raiseAlreadySolved := by
  intro F
  have hC := sched_world_contract cfg scfg solveF postF nodeRowF linkRowF hR hS.hyd_pos w0 simTime prevTime hI
  obtain ⟨a, _, _⟩ := run_terminates (schedWorld scfg solveF postF nodeRowF linkRowF) cfg w0 hS hC
  obtain ⟨b, _, c, _, _, f, g, h⟩ := times_strictly_increasing_on_grid (schedWorld scfg solveF postF nodeRowF linkRowF) cfg w0 hS hC
    (fuel cfg (enter (W := Wntr.Sched.St × A) (RN := RN) (RL := RL) cfg w0 simTime prevTime).simTime
      (enter (W := Wntr.Sched.St × A) (RN := RN) (RL := RL) cfg w0 simTime prevTime).prevTime)
  exact ⟨a, b, c, f, g, h⟩

/-- the general form: any presolve pass `P` over the scheduler state that lands inside the step whenever C04's invariant
holds (`Lands`) gives a run that terminates with a well-formed index -- every solver, every post-solve behaviour -/
theorem run_terminates_of_lands (P : Bool → Wntr.Sched.St → Wntr.Sched.St)
    (hP : ∀ first s, Wntr.Sched.Inv scfg s → Lands scfg s (P first s))
    (w0 : Wntr.Sched.St × A) {simTime prevTime : Int} (hS : Start cfg simTime prevTime)
    (hI : Wntr.Sched.Inv scfg { w0.1 with simTime := simTime, prevTime := if simTime = 0 then -1 else prevTime }) :
    let F := runSim (schedWorldP P solveF postF nodeRowF linkRowF) cfg w0 simTime prevTime
    F.halt ≠ none ∧ F.times.Pairwise (· < ·) ∧ F.times = F.accepted.filter (reportNow cfg) ∧
    F.halt ≠ some .raiseAlreadySolved := by
  intro F
  have hJ0 : (enter (RN := RN) (RL := RL) cfg w0 simTime prevTime).halt ≠ none ∨ J scfg (enter (RN := RN) (RL := RL) cfg w0 simTime prevTime) := by
    have hJ : J scfg (init (RN := RN) (RL := RL) w0 simTime prevTime) := by
      by_cases h0 : simTime = 0
      · subst h0
        simp only [if_true] at hI
        exact ⟨by simp [init], hI.rl, fun _ => ⟨by simpa [init] using hI.hi, by simpa [init] using hI.lo⟩, fun h => by simp [init] at h⟩
      · simp only [h0, if_false] at hI
        exact ⟨by simpa [init, h0] using hI.lt, hI.rl, fun _ => ⟨by simpa [init, h0] using hI.hi, by simpa [init, h0] using hI.lo⟩,
          fun h => by simp [init] at h⟩
    rcases enter_cases (RN := RN) (RL := RL) cfg w0 simTime prevTime with e | ⟨e, _⟩
    · rw [e]; exact Or.inr hJ
    · rw [e]; exact Or.inl (by simp)
  have hC := sched_contract scfg P solveF postF nodeRowF linkRowF cfg hP hS.hyd_pos _ hJ0
  obtain ⟨a, _, _⟩ := run_terminates (schedWorldP P solveF postF nodeRowF linkRowF) cfg w0 hS hC
  obtain ⟨b, _, c, _, _, _, _, h⟩ := times_strictly_increasing_on_grid (schedWorldP P solveF postF nodeRowF linkRowF) cfg w0 hS hC
    (fuel cfg (enter (W := Wntr.Sched.St × A) (RN := RN) (RL := RL) cfg w0 simTime prevTime).simTime
      (enter (W := Wntr.Sched.St × A) (RN := RN) (RL := RL) cfg w0 simTime prevTime).prevTime)
  exact ⟨a, b, c, h⟩

/-! #### the presolve pass as the GENERATED scheduler program, and as the C04 loop over any due list -/

/-- the presolve pass regenerated from `_compute_next_timestep_and_run_presolve_controls_and_rules` (C04's translator:
`Gen/PresolveShape.lean`, interpreter `Model/PresolveProg.lean`) -/
def generatedPresolve (first : Bool) (s : Wntr.Sched.St) : Wntr.Sched.St :=
  Wntr.PresolveProg.interpLoop scfg s.vals (Wntr.PresolveProg.runPrologue scfg first s Wntr.Gen.PresolveShape.prologue) first
    (Wntr.Sched.presolveFuel scfg (Wntr.PresolveProg.runPrologue scfg first s Wntr.Gen.PresolveShape.prologue) s) 0 s

/-- **run_terminates_generated_scheduler**: the loop read off `run_sim` (sections 1-5) around the presolve pass read off
`_compute_next_timestep_and_run_presolve_controls_and_rules` (C04, `generated_method_is_presolve`), any solver, any post-solve
controls: the contract holds, so the run terminates with a well-formed index -- no oracle, no contract premise -/
theorem run_terminates_generated_scheduler (hR : 0 < scfg.rule) (w0 : Wntr.Sched.St × A) {simTime prevTime : Int}
    (hS : Start cfg simTime prevTime)
    (hI : Wntr.Sched.Inv scfg { w0.1 with simTime := simTime, prevTime := if simTime = 0 then -1 else prevTime }) :
    let F := runSim (schedWorldP (generatedPresolve scfg) solveF postF nodeRowF linkRowF) cfg w0 simTime prevTime
    F.halt ≠ none ∧ F.times.Pairwise (· < ·) ∧ F.times = F.accepted.filter (reportNow cfg) ∧
    F.halt ≠ some .raiseAlreadySolved := by
  refine run_terminates_of_lands cfg scfg solveF postF nodeRowF linkRowF (generatedPresolve scfg) (fun first s inv => ?_) w0 hS hI
  have e : generatedPresolve scfg first s = Wntr.Sched.presolve scfg first s :=
    Wntr.PresolveProg.generated_method_is_presolve scfg first s inv.lt
  rw [e]
  exact lands_presolve scfg hR first s inv

/-- a due list built the way the code builds it -- stable sorts, first-step override -- from raw entries whose backtracks lie
in `[0, cur − prev)` satisfies C04's `LoopCtx` -/
theorem loopCtx_of_bounds (hR : 0 < scfg.rule) (raw : List Wntr.Sched.Due) (first : Bool) (cur prev : Int) (hlt : prev < cur)
    (hb : ∀ d ∈ raw, 0 ≤ d.back ∧ d.back < cur - prev) :
    Wntr.Sched.LoopCtx scfg
      (if first then (Wntr.Sched.sortDue raw).map (fun d => { d with back := 0 }) else Wntr.Sched.sortDue raw) cur prev := by
  cases first with
  | true =>
    simp only [if_true]
    refine ⟨hR, hlt, ?_, ?_, ?_⟩
    · apply Wntr.Sched.pairwise_of_all
      intro a ha b hb'
      obtain ⟨a', _, rfl⟩ := List.mem_map.1 ha
      obtain ⟨b', _, rfl⟩ := List.mem_map.1 hb'
      simp
    · intro d hd; obtain ⟨d', _, rfl⟩ := List.mem_map.1 hd; simp
    · intro d hd; obtain ⟨d', _, rfl⟩ := List.mem_map.1 hd; simp only; omega
  | false =>
    simp only [Bool.false_eq_true, if_false]
    exact ⟨hR, hlt, Wntr.Sched.sortDue_sorted _, fun d hd => (hb d (Wntr.Sched.mem_sortDue.1 hd)).1,
      fun d hd => (hb d (Wntr.Sched.mem_sortDue.1 hd)).2⟩

/-- **run_terminates_time_and_tank_conditions**: the presolve pass is C04's loop over the due list `rawDue` returns -- ANY
mixture of presolve controls (time conditions, tank-level conditions ...) -- sorted as the code sorts it.  If every reported
backtrack lies in `[0, cur − prev)` (time conditions: C04 `backtrack_inside_step`; tank-level conditions in exact arithmetic:
`Wntr.Tank.tank_backtrack_inside_step`; in doubles see finding `tank-backtrack-whole-step`), the run terminates with a
well-formed index, for every solver and post-solve behaviour. -/
theorem run_terminates_time_and_tank_conditions (hR : 0 < scfg.rule)
    (rawDue : Bool → Wntr.Sched.St → List Wntr.Sched.Due)
    (hB : ∀ first s, s.prevTime < s.simTime → ∀ d ∈ rawDue first s, 0 ≤ d.back ∧ d.back < s.simTime - s.prevTime)
    (w0 : Wntr.Sched.St × A) {simTime prevTime : Int} (hS : Start cfg simTime prevTime)
    (hI : Wntr.Sched.Inv scfg { w0.1 with simTime := simTime, prevTime := if simTime = 0 then -1 else prevTime }) :
    let P : Bool → Wntr.Sched.St → Wntr.Sched.St := fun first s =>
      Wntr.Sched.presolveLoop scfg s.vals
        (if first then (Wntr.Sched.sortDue (rawDue first s)).map (fun d => { d with back := 0 }) else Wntr.Sched.sortDue (rawDue first s))
        (Wntr.Sched.presolveFuel scfg
          (if first then (Wntr.Sched.sortDue (rawDue first s)).map (fun d => { d with back := 0 }) else Wntr.Sched.sortDue (rawDue first s)) s) 0 s
    let F := runSim (schedWorldP P solveF postF nodeRowF linkRowF) cfg w0 simTime prevTime
    F.halt ≠ none ∧ F.times.Pairwise (· < ·) ∧ F.times = F.accepted.filter (reportNow cfg) ∧
    F.halt ≠ some .raiseAlreadySolved := by
  intro P F
  have hP : ∀ first s, Wntr.Sched.Inv scfg s → Lands scfg s (P first s) := fun first s inv =>
    lands_loop scfg _ s inv (loopCtx_of_bounds scfg hR (rawDue first s) first s.simTime s.prevTime inv.lt (hB first s inv.lt))
  have hJ0 : (enter (RN := RN) (RL := RL) cfg w0 simTime prevTime).halt ≠ none ∨ J scfg (enter (RN := RN) (RL := RL) cfg w0 simTime prevTime) := by
    have hJ : J scfg (init (RN := RN) (RL := RL) w0 simTime prevTime) := by
      by_cases h0 : simTime = 0
      · subst h0
        simp only [if_true] at hI
        exact ⟨by simp [init], hI.rl, fun _ => ⟨by simpa [init] using hI.hi, by simpa [init] using hI.lo⟩, fun h => by simp [init] at h⟩
      · simp only [h0, if_false] at hI
        exact ⟨by simpa [init, h0] using hI.lt, hI.rl, fun _ => ⟨by simpa [init, h0] using hI.hi, by simpa [init, h0] using hI.lo⟩,
          fun h => by simp [init] at h⟩
    rcases enter_cases (RN := RN) (RL := RL) cfg w0 simTime prevTime with e | ⟨e, _⟩
    · rw [e]; exact Or.inr hJ
    · rw [e]; exact Or.inl (by simp)
  have hC := sched_contract scfg P solveF postF nodeRowF linkRowF cfg hP hS.hyd_pos _ hJ0
  obtain ⟨a, _, _⟩ := run_terminates (schedWorldP P solveF postF nodeRowF linkRowF) cfg w0 hS hC
  obtain ⟨b, _, c, _, _, _, _, h⟩ := times_strictly_increasing_on_grid (schedWorldP P solveF postF nodeRowF linkRowF) cfg w0 hS hC
    (fuel cfg (enter (W := Wntr.Sched.St × A) (RN := RN) (RL := RL) cfg w0 simTime prevTime).simTime
      (enter (W := Wntr.Sched.St × A) (RN := RN) (RL := RL) cfg w0 simTime prevTime).prevTime)
  exact ⟨a, b, c, h⟩

/-- the clamp fix 7d8c4ce1 put into the presolve pass: `min(max(b, 0), max(int(cur − prev) − 1, 0))` -/
def clampBack (cur prev b : Int) : Int := min (max b 0) (max (cur - prev - 1) 0)

/-- `_setup_sim_options` takes `_hydraulic_timestep` / `_report_timestep` from `wn.options.time` unconditionally on every call
(no guard reading simulator state, no run-once cache): together with C04's `effective_steps_restart` (the adjustment is a function of
the options only) the steps of every `run_sim` call -- `cfg.hyd`, `cfg.report` of this model -- are those of the CURRENT options -/
theorem generated_steps_depend_on_options_only : Gen.stepsFromOptionsEveryCall = true := by decide

/-- the clamp read off the current source (WHICH quantities bound the backtrack) is the reference one ... -/
theorem generated_clamp_is_ref : Gen.clampShape = refClampShape := by decide

/-- ... so the clamp the code applies is `clampBack`: its bound is (tentative time − previous accepted time) − 1, the length
of THIS step, not the hydraulic timestep (the two differ on the short step after an off-grid accepted time) -/
theorem generated_clamp_is_clampBack (cur prev hyd b : Int) : clampWith Gen.clampShape cur prev hyd b = clampBack cur prev b := by
  rw [generated_clamp_is_ref]; simp [clampWith, refClampShape, Quantity.eval, clampBack]

/-- why the bound matters: with the hydraulic timestep as the bound, a backtrack of a whole hydraulic step survives the clamp on
a short step and takes the clock back before the previous accepted time -/
theorem hydraulic_step_bound_breaks_contract :
    5400 - clampWith { refClampShape with minuend := .hydraulicStep, subtrahend := .zero } 5400 4500 3600 2700 ≤ 4500 ∧
    4500 < 5400 - clampWith refClampShape 5400 4500 3600 2700 := by decide

theorem clampBack_bounds (cur prev b : Int) (h : prev < cur) : 0 ≤ clampBack cur prev b ∧ clampBack cur prev b < cur - prev := by
  unfold clampBack; omega

theorem clampBack_mono (cur prev : Int) {a b : Int} (h : a ≤ b) : clampBack cur prev a ≤ clampBack cur prev b := by
  unfold clampBack; omega

/-- the due list of the clamped pass satisfies C04's `LoopCtx` for EVERY raw list of (control, backtrack) pairs -/
theorem loopCtx_clamped (hR : 0 < scfg.rule) (raw : List Wntr.Sched.Due) (first : Bool) (cur prev : Int) (hlt : prev < cur) :
    Wntr.Sched.LoopCtx scfg
      (if first then (Wntr.Sched.sortDue raw).map (fun d => { d with back := 0 })
       else (Wntr.Sched.sortDue raw).map (fun d => { d with back := clampBack cur prev d.back })) cur prev := by
  cases first with
  | true =>
    simp only [if_true]
    refine ⟨hR, hlt, ?_, ?_, ?_⟩
    · apply Wntr.Sched.pairwise_of_all
      intro a ha b hb'
      obtain ⟨a', _, rfl⟩ := List.mem_map.1 ha
      obtain ⟨b', _, rfl⟩ := List.mem_map.1 hb'
      simp
    · intro d hd; obtain ⟨d', _, rfl⟩ := List.mem_map.1 hd; simp
    · intro d hd; obtain ⟨d', _, rfl⟩ := List.mem_map.1 hd; simp only; omega
  | false =>
    simp only [Bool.false_eq_true, if_false]
    refine ⟨hR, hlt, ?_, ?_, ?_⟩
    · exact List.Pairwise.map _ (fun a b hab => clampBack_mono cur prev hab) (Wntr.Sched.sortDue_sorted raw)
    · intro d hd; obtain ⟨d', _, rfl⟩ := List.mem_map.1 hd; exact (clampBack_bounds cur prev d'.back hlt).1
    · intro d hd; obtain ⟨d', _, rfl⟩ := List.mem_map.1 hd; exact (clampBack_bounds cur prev d'.back hlt).2

/-- **run_terminates_every_presolve_control** (the code since fix 7d8c4ce1): the presolve pass clamps every reported
backtrack into the step, so WHATEVER the presolve controls report -- time conditions, tank-level conditions with their
floating-point backtracks (the −1 and whole-step corners included), user-defined conditions -- the contract `prev < t' ≤ cur`
holds and `run_sim` terminates with a well-formed index, for every solver and post-solve behaviour.  No hypothesis on the
backtracks is left. -/
theorem run_terminates_every_presolve_control (hR : 0 < scfg.rule)
    (rawDue : Bool → Wntr.Sched.St → List Wntr.Sched.Due)
    (w0 : Wntr.Sched.St × A) {simTime prevTime : Int} (hS : Start cfg simTime prevTime)
    (hI : Wntr.Sched.Inv scfg { w0.1 with simTime := simTime, prevTime := if simTime = 0 then -1 else prevTime }) :
    let due : Bool → Wntr.Sched.St → List Wntr.Sched.Due := fun first s =>
      if first then (Wntr.Sched.sortDue (rawDue first s)).map (fun d => { d with back := 0 })
      else (Wntr.Sched.sortDue (rawDue first s)).map (fun d => { d with back := clampBack s.simTime s.prevTime d.back })
    let P : Bool → Wntr.Sched.St → Wntr.Sched.St := fun first s =>
      Wntr.Sched.presolveLoop scfg s.vals (due first s) (Wntr.Sched.presolveFuel scfg (due first s) s) 0 s
    let F := runSim (schedWorldP P solveF postF nodeRowF linkRowF) cfg w0 simTime prevTime
    F.halt ≠ none ∧ F.times.Pairwise (· < ·) ∧ F.times = F.accepted.filter (reportNow cfg) ∧
    F.halt ≠ some .raiseAlreadySolved := by
  intro due P F
  have hP : ∀ first s, Wntr.Sched.Inv scfg s → Lands scfg s (P first s) := fun first s inv =>
    lands_loop scfg _ s inv (loopCtx_clamped scfg hR (rawDue first s) first s.simTime s.prevTime inv.lt)
  have hJ0 : (enter (RN := RN) (RL := RL) cfg w0 simTime prevTime).halt ≠ none ∨ J scfg (enter (RN := RN) (RL := RL) cfg w0 simTime prevTime) := by
    have hJ : J scfg (init (RN := RN) (RL := RL) w0 simTime prevTime) := by
      by_cases h0 : simTime = 0
      · subst h0
        simp only [if_true] at hI
        exact ⟨by simp [init], hI.rl, fun _ => ⟨by simpa [init] using hI.hi, by simpa [init] using hI.lo⟩, fun h => by simp [init] at h⟩
      · simp only [h0, if_false] at hI
        exact ⟨by simpa [init, h0] using hI.lt, hI.rl, fun _ => ⟨by simpa [init, h0] using hI.hi, by simpa [init, h0] using hI.lo⟩,
          fun h => by simp [init] at h⟩
    rcases enter_cases (RN := RN) (RL := RL) cfg w0 simTime prevTime with e | ⟨e, _⟩
    · rw [e]; exact Or.inr hJ
    · rw [e]; exact Or.inl (by simp)
  have hC := sched_contract scfg P solveF postF nodeRowF linkRowF cfg hP hS.hyd_pos _ hJ0
  obtain ⟨a, _, _⟩ := run_terminates (schedWorldP P solveF postF nodeRowF linkRowF) cfg w0 hS hC
  obtain ⟨b, _, c, _, _, _, _, h⟩ := times_strictly_increasing_on_grid (schedWorldP P solveF postF nodeRowF linkRowF) cfg w0 hS hC
    (fuel cfg (enter (W := Wntr.Sched.St × A) (RN := RN) (RL := RL) cfg w0 simTime prevTime).simTime
      (enter (W := Wntr.Sched.St × A) (RN := RN) (RL := RL) cfg w0 simTime prevTime).prevTime)
  exact ⟨a, b, c, h⟩

/-- non-vacuity: a fresh model (`Sched.startState`, whose invariant is C04's `startState_inv`) with any time controls and
rules, any solver, any post-solve controls: `run_sim` terminates -/
example (hR : 0 < scfg.rule) (hH : 1 ≤ cfg.hyd) (vals : Wntr.Sched.Vals) (a : A) :
    (runSim (schedWorld scfg solveF postF nodeRowF linkRowF) cfg (Wntr.Sched.startState scfg 0 (-1) vals, a) 0 0).halt ≠ none :=
  (run_terminates_time_conditions cfg scfg solveF postF nodeRowF linkRowF hR (Wntr.Sched.startState scfg 0 (-1) vals, a)
    (simTime := 0) (prevTime := 0) ⟨hH, fun h => absurd rfl h⟩
    (by
      have h := Wntr.Sched.startState_inv (cfg := scfg) hR (simTime := 0) (prevTime := -1) vals (Or.inl rfl)
      exact ⟨by simp, h.hi, h.lo, h.rl⟩)).1

end SchedWorld

/-! ### non-vacuity: concrete runs of the trace world (fresh start, hyd = report = 2 s, duration = 6 s) -/

def exCfg : Cfg := { hyd := 2, report := 2, duration := 6, maxTrials := 2, backup := false, convErr := false }

/-- a clean run with one partial step (presolve lands on 3): the off-grid step is solved but not reported -/
example : ((runSim traceWorld exCfg ⟨[0, 2, 3, 4, 6], [], [], 0, 0⟩ 0 0).halt,
           (runSim traceWorld exCfg ⟨[0, 2, 3, 4, 6], [], [], 0, 0⟩ 0 0).times,
           (runSim traceWorld exCfg ⟨[0, 2, 3, 4, 6], [], [], 0, 0⟩ 0 0).accepted) =
    (some .finished, [0, 2, 4, 6], [0, 2, 3, 4, 6]) := by decide

/-- the third solver call fails: the run stops, flags, and reports the first two rows only -/
example : ((runSim traceWorld exCfg ⟨[], [.converged, .converged, .singular], [], 0, 0⟩ 0 0).halt,
           (runSim traceWorld exCfg ⟨[], [.converged, .converged, .singular], [], 0, 0⟩ 0 0).times,
           (runSim traceWorld exCfg ⟨[], [.converged, .converged, .singular], [], 0, 0⟩ 0 0).nSolve) =
    (some .flagNoConv, [0, 2], 3) := by decide

/-- same with `convergence_error=True`: RuntimeError -/
example : (runSim traceWorld { exCfg with convErr := true } ⟨[], [.converged, .iterLimit], [], 0, 0⟩ 0 0).halt =
    some .raiseNoConv := by decide

/-- a backup solver rescues a failed primary call: the run finishes clean after 5 calls for 4 steps -/
example : ((runSim traceWorld { exCfg with backup := true } ⟨[], [.converged, .iterLimit, .converged], [], 0, 0⟩ 0 0).halt,
           (runSim traceWorld { exCfg with backup := true } ⟨[], [.converged, .iterLimit, .converged], [], 0, 0⟩ 0 0).nSolve,
           (runSim traceWorld { exCfg with backup := true } ⟨[], [.converged, .iterLimit, .converged], [], 0, 0⟩ 0 0).times) =
    (some .finished, 5, [0, 2, 4, 6]) := by decide

/-- post-solve controls that flip for ever: `trials = 2` allows three solves of the step, then the run stops flagged -/
example : ((runSim traceWorld exCfg ⟨[], [], [false, true, true, true, true], 0, 0⟩ 0 0).halt,
           (runSim traceWorld exCfg ⟨[], [], [false, true, true, true, true], 0, 0⟩ 0 0).nSolve,
           (runSim traceWorld exCfg ⟨[], [], [false, true, true, true, true], 0, 0⟩ 0 0).times) =
    (some .flagTrials, 4, [0]) := by decide

/-- off-contract presolve (back onto a reported time): the model raises like the code does -/
example : (runSim traceWorld { exCfg with report := 0 } ⟨[0, 2, 2], [], [], 0, 0⟩ 0 0).halt =
    some .raiseAlreadySolved := by decide

/-- the contract holds along the first example run (so the theorems above apply to it) -/
example : ∀ n, n ≤ 22 → PresolveOK traceWorld
    (iter traceWorld exCfg n (init (RN := Nat) (RL := Nat) ⟨[0, 2, 3, 4, 6], [], [], 0, 0⟩ 0 0)) := by
  intro n hn s
  revert hn s
  revert n
  decide

/-- `report_start = 3`, report step 2, hydraulic step 1: the grid is 3, 5, 7, ...; `report_start` beyond the duration: empty tables -/
example : ((runSim traceWorld { exCfg with hyd := 1, reportStart := 3 } ⟨[], [], [], 0, 0⟩ 0 0).times,
           (runSim traceWorld { exCfg with reportStart := 7 } ⟨[], [], [], 0, 0⟩ 0 0).times,
           (runSim traceWorld { exCfg with reportStart := 7 } ⟨[], [], [], 0, 0⟩ 0 0).halt) =
    ([3, 5], [], some .finished) := by decide

/-- a continued run that starts beyond the duration: no solver call, empty tables (the trace is not touched) -/
example : ((runSim traceWorld exCfg ⟨[8], [.singular], [true], 0, 0⟩ 8 6).halt,
           (runSim traceWorld exCfg ⟨[8], [.singular], [true], 0, 0⟩ 8 6).nSolve,
           (runSim traceWorld exCfg ⟨[8], [.singular], [true], 0, 0⟩ 8 6).times) = (some .finished, 0, []) := by decide

/-- a continued run that starts at the duration still makes its step; a failure on the continuation is flagged -/
example : ((runSim traceWorld exCfg ⟨[6], [.singular], [], 0, 0⟩ 6 4).halt,
           (runSim traceWorld exCfg ⟨[6], [.converged], [], 0, 0⟩ 6 4).times) = (some .flagNoConv, [6]) := by decide

/-- the interpreter on the generated program computes the same run as the hand-written loop (here by evaluation) -/
example : (runSimS Gen.shape traceWorld exCfg ⟨[0, 2, 3, 4, 6], [.converged, .iterLimit], [], 0, 0⟩ 0 0).halt =
    some .flagNoConv := by decide

end Wntr.RunLoop
