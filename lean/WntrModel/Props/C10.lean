/-
C10 — pausing, (pickling) and restarting a simulation equals running it uninterrupted — on model M5 `Sched`
(the time-stepping driver of `WNTRSimulator.run_sim`, hydraulics abstracted away).

How `run_sim` continues (wntr/sim/core.py, mirrored by `Sched.runSim`): what survives in the MODEL between two
calls is `wn.sim_time`, `wn._prev_sim_time` and the element states (`vals`); what lives in the SIMULATOR object is
re-created: `first_step = (wn.sim_time == 0)`, `_rule_iter = 1` on a first step and
`int(_prev_sim_time // rule_timestep) + 1` otherwise (commit aecffcaa), empty results.  The part run to an
intermediate duration `t1` is `runSim (cfg.withDuration t1)`; the continuation is a fresh `runSim cfg` on the three
values the first part left.

Theorems are for ALL configurations (controls, rules, steps, start clock, report step), all start values and all
pause times; the hypotheses are only: positive hydraulic and rule steps, a legitimate start (`StartOK`: fresh model
or one left by an earlier run), the pause not before the current time, and at least one hydraulic step left after
the pause (`t1 + hyd ≤ duration`).  Without the last hypothesis the statement is false of the code (and of the
model): `run_sim` always performs one pass, so "continuing" a run that is already complete adds a step beyond the
duration — `run_split_needs_a_step_left` below; see `RunSplitFull` / `run_split_full_counterexample`.
-/
import WntrModel.Lemmas.SchedSplit

namespace Wntr.C10
open Wntr.Time Wntr.Sched

/-- example configuration: 1 h hydraulic step, 6 min rule step, a time control closing key 0 at 5400 s (off the
hydraulic grid), a rule opening it again from 9000 s on -/
def cfgEx : Cfg :=
  { hyd := 3600, rule := 360, report := 0, duration := 14400, startClock := 0,
    presolve := [⟨0, 3, .sim ⟨.eq, 5400, 0⟩, [⟨0, 0⟩], []⟩],
    rules := [⟨1, 3, .sim ⟨.ge, 9000, 0⟩, [⟨0, 1⟩], []⟩] }

/-- the observable outcome of a run: final model state (clock, previous time, element states) and the result rows -/
structure Outcome where
  simTime : Int
  prevTime : Int
  vals : Vals
  rows : List Row

def outcome (r : St × List Row) : Outcome := ⟨r.1.simTime, r.1.prevTime, r.1.vals, r.2⟩

/-- run to `t1`, then continue to `cfg.duration` with a NEW simulator on what the model kept -/
def pausedRun (cfg : Cfg) (t1 simTime prevTime : Int) (vals : Vals) : St × List Row :=
  let p1 := runSim (cfg.withDuration t1) simTime prevTime vals
  let p2 := runSim cfg p1.1.simTime p1.1.prevTime p1.1.vals
  (p2.1, p1.2 ++ p2.2)

/-- the state a run leaves is a legitimate start of the next one, with the rule iterator the next run will compute -/
theorem run_leaves_restartable {cfg : Cfg} (hR : 0 < cfg.rule) (hH : 0 < cfg.hyd) {simTime prevTime : Int} (vals : Vals)
    (h : StartOK simTime prevTime) :
    let s := (runSim cfg simTime prevTime vals).1
    StartOK s.simTime s.prevTime ∧ s.simTime ≠ 0 ∧ s.ruleIter = initRuleIter cfg false s.prevTime ∧
      s.simTime % cfg.hyd = 0 ∧ s.simTime ≤ s.prevTime + cfg.hyd ∧ cfg.duration < s.simTime := by
  rw [runSim_eq_run hR hH vals h]
  have hi := startState_inv hR vals h
  have hran := run_ran hR hH (simTime == 0) [] hi
  obtain ⟨f0, s0, h0, heq, hle, _⟩ := run_last hR hH _ (simTime == 0) _ [] hi (le_refl _)
  have hs := stepOnce_stepped hR hH f0 h0
  have hp0 : -1 ≤ (startState cfg simTime prevTime vals).prevTime := by
    unfold startState
    by_cases h0 : simTime = 0
    · subst h0; simp
    · have hb : (simTime == 0) = false := by simpa using h0
      rcases h with h | ⟨hp, _⟩
      · exact absurd h h0
      · simp only [hb, Bool.false_eq_true, if_false]; omega
  have hexit := run_exit hR hH _ (simTime == 0) _ [] hi (le_refl _)
  have hprev : 0 ≤ (run cfg (simTime == 0) (startState cfg simTime prevTime vals) []).1.prevTime := by
    rw [heq]; have := hs.prev_gt; omega
  have hlt := hran.inv.lt
  refine ⟨Or.inr ⟨hprev, hlt⟩, by omega, ?_, hran.grid, hran.sim_le, hexit⟩
  simp only [initRuleIter, Bool.false_eq_true, if_false]
  exact hran.iter

/-- **`run_split`** — for every configuration, start and pause time `t1` with `simTime ≤ t1` and `t1 + hyd ≤ duration`:
the paused run (first part to `t1`, continuation by a new simulator object from `(sim_time, _prev_sim_time, element
states)`) has the same outcome as the uninterrupted run: same rows in the same order, same final clock, previous time
and element states. -/
theorem run_split {cfg : Cfg} (hR : 0 < cfg.rule) (hH : 0 < cfg.hyd) {simTime prevTime : Int} (vals : Vals)
    (h : StartOK simTime prevTime) (t1 : Int) (hstart : simTime ≤ t1) (hleft : t1 + cfg.hyd ≤ cfg.duration) :
    outcome (pausedRun cfg t1 simTime prevTime vals) = outcome (runSim cfg simTime prevTime vals) := by
  have hH' : 0 < (cfg.withDuration t1).hyd := hH
  have hR' : 0 < (cfg.withDuration t1).rule := hR
  have hi := startState_inv (cfg := cfg) hR vals h
  -- the first part
  have hrest := run_leaves_restartable (cfg := cfg.withDuration t1) hR' hH' vals h
  have e1 := runSim_eq_run (cfg := cfg.withDuration t1) hR' hH' vals h
  have hst : startState (cfg.withDuration t1) simTime prevTime vals = startState cfg simTime prevTime vals := rfl
  rw [hst] at e1
  -- where the first part stops: not beyond t1 + hyd
  obtain ⟨f0, s0, h0, heq, hle, hor⟩ := run_last (cfg := cfg.withDuration t1) hR' hH' _ (simTime == 0) _ [] (hi.dur t1) (le_refl _)
  have hs := stepOnce_stepped (cfg := cfg.withDuration t1) hR' hH' f0 h0
  have hs0 : s0.simTime ≤ t1 := by
    rcases hor with rfl | h'
    · exact hstart
    · simpa using h'
  have hstop : (run (cfg.withDuration t1) (simTime == 0) (startState cfg simTime prevTime vals) []).1.simTime ≤ cfg.duration := by
    rw [heq]; have := hs.sim_le; have := hs.prev_le; simp only [withDuration_hyd] at *; omega
  -- the uninterrupted run, split
  have e2 := runSim_eq_run hR hH vals h
  have hsplit := run_split_loop hR hH t1 (by omega) _ (simTime == 0) _ [] hi (le_refl _)
  rw [if_neg (by omega)] at hsplit
  -- the continuation by a new simulator
  unfold pausedRun
  simp only at hrest
  rw [e1] at hrest ⊢
  obtain ⟨hok, hne, hiter, _, _, _⟩ := hrest
  generalize run (cfg.withDuration t1) (simTime == 0) (startState cfg simTime prevTime vals) [] = p1 at *
  have e3 := runSim_eq_run hR hH p1.1.vals hok
  have hb : (p1.1.simTime == 0) = false := by simpa using hne
  have hp1 : p1.1 = (startState cfg p1.1.simTime p1.1.prevTime p1.1.vals).prepend p1.1.ruleLog := by
    unfold startState St.prepend
    simp only [hb, Bool.false_eq_true, if_false, List.append_nil]
    have hiter' : p1.1.ruleIter = initRuleIter cfg false p1.1.prevTime := hiter
    rw [← hiter']
  dsimp only
  rw [e2, hsplit, e3, hb]
  generalize startState cfg p1.1.simTime p1.1.prevTime p1.1.vals = S at *
  generalize p1.1.ruleLog = L at hp1
  rw [hp1]
  unfold run
  have hm : runMeasure cfg (S.prepend L) = runMeasure cfg S := rfl
  rw [runLoop_prepend, hm]
  have hl : p1.2 = p1.2 ++ [] := by simp
  rw [hl, runLoop_log]
  simp [outcome, St.prepend]

example : outcome (pausedRun cfgEx 3600 0 (-1) [(0, 1)]) = outcome (runSim cfgEx 0 (-1) [(0, 1)]) :=
  run_split (by decide) (by decide) _ (Or.inl rfl) 3600 (by decide) (by decide)

/-- the rows of the example, split at 3600 s: the continuation starts with the partial step at 5400 s -/
example : (runSim (cfgEx.withDuration 3600) 0 (-1) [(0, 1)]).2.map (·.time) = [0, 3600] ∧
    (runSim cfgEx 7200 3600 [(0, 1)]).2.map (·.time) = [5400, 7200, 9000, 10800, 14400] := by decide

/-- **the continuation never revisits earlier times**: every row of the continuation is strictly later than the last
accepted time of the first part (hence than all its rows), and rows are strictly increasing; when the pause time is on
the hydraulic grid that last accepted time is `≥ t1`, so the continuation's first row is `> t1` -/
theorem continuation_after_pause {cfg : Cfg} (hR : 0 < cfg.rule) (hH : 0 < cfg.hyd) {simTime prevTime : Int} (vals : Vals)
    (h : StartOK simTime prevTime) (t1 : Int) :
    let p1 := runSim (cfg.withDuration t1) simTime prevTime vals
    let p2 := runSim cfg p1.1.simTime p1.1.prevTime p1.1.vals
    (∀ r ∈ p1.2, r.time ≤ p1.1.prevTime) ∧ (∀ r ∈ p2.2, p1.1.prevTime < r.time) ∧
      (p1.2 ++ p2.2).Pairwise (fun a b => a.time < b.time) ∧
      (t1 % cfg.hyd = 0 → t1 ≤ p1.1.prevTime) := by
  have hH' : 0 < (cfg.withDuration t1).hyd := hH
  have hR' : 0 < (cfg.withDuration t1).rule := hR
  have hrest := run_leaves_restartable (cfg := cfg.withDuration t1) hR' hH' vals h
  simp only at hrest
  obtain ⟨hok, hne, _, hgrid, hsimle, hexit⟩ := hrest
  have hrows1 := run_rows (cfg := cfg.withDuration t1) hR' hH' (simTime == 0) (startState_inv hR' vals h)
  rw [← runSim_eq_run (cfg := cfg.withDuration t1) hR' hH' vals h] at hrows1
  simp only
  generalize runSim (cfg.withDuration t1) simTime prevTime vals = p1 at *
  have hrows2 := run_rows hR hH (p1.1.simTime == 0) (startState_inv hR p1.1.vals hok)
  rw [← runSim_eq_run hR hH p1.1.vals hok] at hrows2
  have hb : (p1.1.simTime == 0) = false := by simpa using hne
  have hprev : (startState cfg p1.1.simTime p1.1.prevTime p1.1.vals).prevTime = p1.1.prevTime := by
    unfold startState; simp [hb]
  rw [hprev] at hrows2
  refine ⟨fun r hr => (hrows1.1 r hr).2, fun r hr => (hrows2.1 r hr).1, ?_, ?_⟩
  · rw [List.pairwise_append]
    refine ⟨hrows1.2, hrows2.2, ?_⟩
    intro a ha b hb'
    have := (hrows1.1 a ha).2; have := (hrows2.1 b hb').1; omega
  · intro ht
    simp only [withDuration_hyd, withDuration_duration] at hgrid hsimle hexit
    have hd : cfg.hyd ∣ p1.1.simTime - t1 := by
      apply Int.dvd_of_emod_eq_zero
      rw [Int.sub_emod, hgrid, ht]; simp
    have := Int.le_of_dvd (by omega) hd
    omega

/-- several pauses: run to `t₁`, continue to `t₂`, …, continue to the duration, a new simulator each time -/
def runPaused (cfg : Cfg) : List Int → Int → Int → Vals → St × List Row
  | [], simTime, prevTime, vals => runSim cfg simTime prevTime vals
  | t :: ts, simTime, prevTime, vals =>
    let p := runSim (cfg.withDuration t) simTime prevTime vals
    let r := runPaused cfg ts p.1.simTime p.1.prevTime p.1.vals
    (r.1, p.2 ++ r.2)

/-- pause times that leave at least one hydraulic step between consecutive pauses and before the end -/
def PausesOK (cfg : Cfg) : Int → List Int → Prop
  | _, [] => True
  | cur, t :: ts => cur ≤ t ∧ t + cfg.hyd ≤ cfg.duration ∧ PausesOK cfg (t + cfg.hyd) ts

/-- **`run_split` for any list of pauses** (induction over the list, `run_split` at every stage) -/
theorem run_split_many {cfg : Cfg} (hR : 0 < cfg.rule) (hH : 0 < cfg.hyd) (ts : List Int) :
    ∀ {simTime prevTime : Int} (vals : Vals), StartOK simTime prevTime → PausesOK cfg simTime ts →
      outcome (runPaused cfg ts simTime prevTime vals) = outcome (runSim cfg simTime prevTime vals) := by
  induction ts with
  | nil => intro _ _ _ _ _; rfl
  | cons t ts ih =>
    intro simTime prevTime vals h hp
    obtain ⟨h1, h2, h3⟩ := hp
    have hsplit := run_split hR hH vals h t h1 h2
    have hH' : 0 < (cfg.withDuration t).hyd := hH
    have hR' : 0 < (cfg.withDuration t).rule := hR
    have hrest := run_leaves_restartable (cfg := cfg.withDuration t) hR' hH' vals h
    simp only at hrest
    obtain ⟨hok, _, _, _, _, _⟩ := hrest
    -- the first part stops at most one hydraulic step after t
    have hi := startState_inv (cfg := cfg.withDuration t) hR' vals h
    obtain ⟨f0, s0, h0, heq, _, hor⟩ := run_last (cfg := cfg.withDuration t) hR' hH' _ (simTime == 0) _ [] hi (le_refl _)
    have hs := stepOnce_stepped (cfg := cfg.withDuration t) hR' hH' f0 h0
    have hs0 : s0.simTime ≤ t := by
      rcases hor with rfl | h'
      · exact h1
      · simpa using h'
    have hstop : (runSim (cfg.withDuration t) simTime prevTime vals).1.simTime ≤ t + cfg.hyd := by
      rw [runSim_eq_run (cfg := cfg.withDuration t) hR' hH' vals h, heq]
      have := hs.sim_le; have := hs.prev_le; simp only [withDuration_hyd] at *; omega
    have hmono : ∀ (a b : Int) (l : List Int), a ≤ b → PausesOK cfg b l → PausesOK cfg a l := by
      intro a b l hab hl
      cases l with
      | nil => trivial
      | cons x xs => exact ⟨by have := hl.1; omega, hl.2.1, hl.2.2⟩
    have hih := ih (simTime := (runSim (cfg.withDuration t) simTime prevTime vals).1.simTime)
      (prevTime := (runSim (cfg.withDuration t) simTime prevTime vals).1.prevTime)
      (runSim (cfg.withDuration t) simTime prevTime vals).1.vals hok (hmono _ _ _ hstop h3)
    rw [← hsplit]
    unfold runPaused pausedRun
    simp only [outcome] at hih ⊢
    simp only [Outcome.mk.injEq] at hih ⊢
    exact ⟨hih.1, hih.2.1, hih.2.2.1, by rw [hih.2.2.2]⟩

example : PausesOK cfgEx 0 [0, 3600, 7200] := by simp [PausesOK, cfgEx]
example : outcome (runPaused cfgEx [0, 3600, 7200] 0 (-1) [(0, 1)]) = outcome (runSim cfgEx 0 (-1) [(0, 1)]) :=
  run_split_many (by decide) (by decide) _ _ (Or.inl rfl) (by simp [PausesOK, cfgEx])

/-- **`pickle_transparent`** (model level): the continuation reads nothing of the paused run but the clock, the
previous time and the element states — the simulator object's own `_rule_iter` and its results are rebuilt; so any
round trip of the model that preserves these three (what `pickle` is checked to do by the correspondence run) cannot
change the continuation -/
theorem pickle_transparent (cfg : Cfg) (a b : St) (h1 : a.simTime = b.simTime) (h2 : a.prevTime = b.prevTime)
    (h3 : a.vals = b.vals) :
    runSim cfg a.simTime a.prevTime a.vals = runSim cfg b.simTime b.prevTime b.vals := by
  rw [h1, h2, h3]

/-- the full statement with the pause anywhere below the duration -/
def RunSplitFull : Prop :=
  ∀ (cfg : Cfg), 0 < cfg.rule → 0 < cfg.hyd → ∀ (vals : Vals) (t1 : Int), 0 ≤ t1 → t1 % cfg.hyd = 0 → t1 < cfg.duration →
    outcome (pausedRun cfg t1 0 (-1) vals) = outcome (runSim cfg 0 (-1) vals)

/-- a duration off the hydraulic grid with the pause on the last grid point before it: the first part already ran the
last step, yet the continuation performs one more pass (`run_sim` is a do-while loop) and reports a time beyond the
duration -/
def cfgOff : Cfg := { hyd := 3600, rule := 360, report := 0, duration := 5000, startClock := 0, presolve := [], rules := [] }

theorem run_split_needs_a_step_left :
    (runSim cfgOff 0 (-1) []).2.map (·.time) = [0, 3600] ∧
    (pausedRun cfgOff 3600 0 (-1) []).2.map (·.time) = [0, 3600, 7200] := by decide

theorem run_split_full_counterexample : ¬ RunSplitFull := by
  intro h
  have := h cfgOff (by decide) (by decide) [] 3600 (by decide) (by decide) (by decide)
  have h2 := congrArg (fun o => o.rows.map (·.time)) this
  revert h2
  decide

/-- `run_split` is the partial statement under the excluding hypothesis `t1 + hyd ≤ duration` -/
theorem run_split_partial {cfg : Cfg} (hR : 0 < cfg.rule) (hH : 0 < cfg.hyd) (vals : Vals) (t1 : Int) (h0 : 0 ≤ t1)
    (hleft : t1 + cfg.hyd ≤ cfg.duration) :
    outcome (pausedRun cfg t1 0 (-1) vals) = outcome (runSim cfg 0 (-1) vals) :=
  run_split hR hH vals (Or.inl rfl) t1 h0 hleft

end Wntr.C10
