/-
C10 — pausing, (pickling) and restarting a simulation equals running it uninterrupted — on model M5 `Sched`
(the time-stepping driver of `WNTRSimulator.run_sim`, hydraulics abstracted away).

How `run_sim` continues (wntr/sim/core.py, mirrored by `Sched.runSim`): what survives in the MODEL between two
calls is `wn.sim_time`, `wn._prev_sim_time` and the element states (`vals`); what lives in the SIMULATOR object is
re-created: `first_step = (wn.sim_time == 0)`, `_rule_iter = 1` on a first step and
`int(_prev_sim_time // rule_timestep) + 1` otherwise (commit aecffcaa), empty results.  The part run to an
intermediate duration `t1` is `runSim (cfg.withDuration t1)`; the continuation is a fresh `runSim cfg` on the three
values the first part left.

Theorems are for ALL configurations (controls, rules, steps, start clock, report step), all start values and all
pause times `t1 ≤ duration` (on or off the hydraulic grid, before or after the current time); the hypotheses are only:
positive hydraulic and rule steps and a legitimate start (`StartOK`: fresh model or one left by an earlier run).

The model follows the REPAIRED `run_sim` (fixes/C10-completed-run-continued.patch): a model that was already
simulated up to the requested duration is left alone (`completed_run_is_left_alone`).  Before that repair `run_sim`
always performed one pass, so continuing a run whose first part had already reached the last hydraulic step before an
off-grid duration reported a time beyond the duration (5000 s duration, 3600 s steps, pause at 3600 s: the paused run
reported 0, 3600, 7200; the uninterrupted one 0, 3600) — found by this check, key `restart-extra-step-beyond-duration`.
-/
import WntrModel.Lemmas.SchedSplit
import WntrModel.Lemmas.Restart
import WntrModel.Gen.RestartFields

namespace Wntr.C10
open Wntr.Time Wntr.Sched

/-- the observable outcome of a run: final model state (clock, previous time, element states) and the result rows -/
structure Outcome where
  simTime : Int
  prevTime : Int
  vals : Vals
  rows : List Row

def outcome (r : St × List Row) : Outcome := ⟨r.1.simTime, r.1.prevTime, r.1.vals, r.2⟩

/-- run to `t1`, then continue to `cfg.duration` with a NEW simulator on what the model kept -/
def pausedRun (cfg : Cfg) (t1 simTime prevTime : Int) (vals : Vals) : St × List Row :=
  let p1 := runSim (cfg.withDuration t1) simTime prevTime vals
  let p2 := runSim cfg p1.1.simTime p1.1.prevTime p1.1.vals
  (p2.1, p1.2 ++ p2.2)

/-- the state a run leaves is a legitimate start of the next one, with the rule iterator the next run will compute -/
theorem run_leaves_restartable {cfg : Cfg} (hR : 0 < cfg.rule) (hH : 0 < cfg.hyd) {simTime prevTime : Int} (vals : Vals)
    (h : StartOK simTime prevTime) (hleft : ¬ NothingLeft cfg simTime) :
    let s := (runSim cfg simTime prevTime vals).1
    StartOK s.simTime s.prevTime ∧ s.simTime ≠ 0 ∧ s.ruleIter = initRuleIter cfg false s.prevTime ∧
      s.simTime % cfg.hyd = 0 ∧ s.simTime ≤ s.prevTime + cfg.hyd ∧ cfg.duration < s.simTime := by
  rw [runSim_eq_run hR hH vals h hleft]
  have hi := startState_inv hR vals h
  have hran := run_ran hR hH (simTime == 0) [] hi
  obtain ⟨f0, s0, h0, heq, hle, _⟩ := run_last hR hH _ (simTime == 0) _ [] hi (le_refl _)
  have hs := stepOnce_stepped hR hH f0 h0
  have hp0 : -1 ≤ (startState cfg simTime prevTime vals).prevTime := by
    unfold startState
    by_cases h0 : simTime = 0
    · subst h0; simp
    · have hb : (simTime == 0) = false := by simpa using h0
      rcases h with h | ⟨hp, _⟩
      · exact absurd h h0
      · simp only [hb, Bool.false_eq_true, if_false]; omega
  have hexit := run_exit hR hH _ (simTime == 0) _ [] hi (le_refl _)
  have hprev : 0 ≤ (run cfg (simTime == 0) (startState cfg simTime prevTime vals) []).1.prevTime := by
    rw [heq]; have := hs.prev_gt; omega
  have hlt := hran.inv.lt
  refine ⟨Or.inr ⟨hprev, hlt⟩, by omega, ?_, hran.grid, hran.sim_le, hexit⟩
  simp only [initRuleIter, Bool.false_eq_true, if_false]
  exact hran.iter

/-- a model already simulated up to the duration is left alone: no rows, same clock, previous time and states -/
theorem completed_run_is_left_alone {cfg : Cfg} {simTime prevTime : Int} (vals : Vals) (h : NothingLeft cfg simTime) :
    outcome (runSim cfg simTime prevTime vals) = ⟨simTime, prevTime, vals, []⟩ := by
  rw [runSim_done prevTime vals h]
  have hb : (simTime == 0) = false := h.1
  simp [outcome, startState, hb]

/-- a run by a new simulator from the three values a state carries: the state's own `_rule_iter` and rule log are
not read (they are re-derived), provided the state is one that a run leaves -/
theorem restart_from_ran {cfg : Cfg} (hR : 0 < cfg.rule) (hH : 0 < cfg.hyd) {s1 : St} (hran : Ran cfg s1) (hp : 0 ≤ s1.prevTime)
    (hleft : s1.simTime ≤ cfg.duration) (l1 : List Row) :
    outcome (run cfg false s1 l1) =
      ⟨(runSim cfg s1.simTime s1.prevTime s1.vals).1.simTime, (runSim cfg s1.simTime s1.prevTime s1.vals).1.prevTime,
        (runSim cfg s1.simTime s1.prevTime s1.vals).1.vals, l1 ++ (runSim cfg s1.simTime s1.prevTime s1.vals).2⟩ := by
  have hlt := hran.inv.lt
  have hok : StartOK s1.simTime s1.prevTime := Or.inr ⟨hp, hlt⟩
  have hne : s1.simTime ≠ 0 := by omega
  have hb : (s1.simTime == 0) = false := by simpa using hne
  have e3 := runSim_eq_run hR hH s1.vals hok (not_nothingLeft_of_le (Or.inr hleft))
  have hp1 : s1 = (startState cfg s1.simTime s1.prevTime s1.vals).prepend s1.ruleLog := by
    unfold startState St.prepend
    simp only [hb, Bool.false_eq_true, if_false, List.append_nil, initRuleIter]
    rw [← hran.iter]
  rw [e3, hb]
  generalize startState cfg s1.simTime s1.prevTime s1.vals = S at *
  generalize s1.ruleLog = L at hp1
  rw [hp1]
  unfold run
  have hm : runMeasure cfg (S.prepend L) = runMeasure cfg S := rfl
  rw [runLoop_prepend, hm]
  have hl : l1 = l1 ++ [] := by simp
  rw [hl, runLoop_log]
  simp [outcome, St.prepend]

/-- **`run_split`** — for every configuration, every legitimate start and EVERY pause time `t1 ≤ duration`: the paused
run (first part to `t1`, continuation by a new simulator object from `(sim_time, _prev_sim_time, element states)`) has
the same outcome as the uninterrupted run: same rows in the same order, same final clock, previous time and element
states. -/
theorem run_split {cfg : Cfg} (hR : 0 < cfg.rule) (hH : 0 < cfg.hyd) {simTime prevTime : Int} (vals : Vals)
    (h : StartOK simTime prevTime) (t1 : Int) (ht : t1 ≤ cfg.duration) :
    outcome (pausedRun cfg t1 simTime prevTime vals) = outcome (runSim cfg simTime prevTime vals) := by
  have hH' : 0 < (cfg.withDuration t1).hyd := hH
  have hR' : 0 < (cfg.withDuration t1).rule := hR
  unfold pausedRun
  by_cases hn1 : NothingLeft (cfg.withDuration t1) simTime
  · -- the pause lies before the current time: the first part does nothing
    rw [runSim_done prevTime vals hn1]
    have hb : (simTime == 0) = false := hn1.1
    have e : (startState (cfg.withDuration t1) simTime prevTime vals).prevTime = prevTime := by
      unfold startState; simp [hb]
    have e2 : (startState (cfg.withDuration t1) simTime prevTime vals).simTime = simTime := rfl
    have e3 : (startState (cfg.withDuration t1) simTime prevTime vals).vals = vals := rfl
    simp only [e, e2, e3, List.nil_append]
  · have hnT : ¬ NothingLeft cfg simTime := by
      intro hc
      apply hn1
      exact ⟨hc.1, by
        have : ¬ ((simTime == 0) = false ∧ simTime > t1) := hn1
        have h2 := hc.2
        by_contra hle
        -- simTime ≤ t1 ≤ duration < simTime
        have : simTime ≤ t1 := by simpa using hle
        omega⟩
    have hi := startState_inv (cfg := cfg) hR vals h
    have e1 := runSim_eq_run (cfg := cfg.withDuration t1) hR' hH' vals h hn1
    have hst : startState (cfg.withDuration t1) simTime prevTime vals = startState cfg simTime prevTime vals := rfl
    rw [hst] at e1
    have e2 := runSim_eq_run hR hH vals h hnT
    have hsplit := run_split_loop hR hH t1 ht _ (simTime == 0) _ [] hi (le_refl _)
    have hran1 : Ran cfg (run (cfg.withDuration t1) (simTime == 0) (startState cfg simTime prevTime vals) []).1 :=
      (run_ran (cfg := cfg.withDuration t1) hR' hH' (simTime == 0) [] (hi.dur t1)).undur
    obtain ⟨f0, s0, h0, heq, hle, _⟩ := run_last (cfg := cfg.withDuration t1) hR' hH' _ (simTime == 0) _ [] (hi.dur t1) (le_refl _)
    have hs := stepOnce_stepped (cfg := cfg.withDuration t1) hR' hH' f0 h0
    have hp0 : -1 ≤ (startState cfg simTime prevTime vals).prevTime := by
      unfold startState
      by_cases h0' : simTime = 0
      · subst h0'; simp
      · have hb : (simTime == 0) = false := by simpa using h0'
        rcases h with h | ⟨hp, _⟩
        · exact absurd h h0'
        · simp only [hb, Bool.false_eq_true, if_false]; omega
    have hprev : 0 ≤ (run (cfg.withDuration t1) (simTime == 0) (startState cfg simTime prevTime vals) []).1.prevTime := by
      rw [heq]; have := hs.prev_gt; omega
    rw [e1, e2, hsplit]
    generalize run (cfg.withDuration t1) (simTime == 0) (startState cfg simTime prevTime vals) [] = p1 at *
    dsimp only
    by_cases hstop : p1.1.simTime > cfg.duration
    · -- the first part already passed the duration: the continuation has nothing left to do
      rw [if_pos hstop]
      have hne : p1.1.simTime ≠ 0 := by have := hran1.inv.lt; omega
      have hb : (p1.1.simTime == 0) = false := by simpa using hne
      have hn2 : NothingLeft cfg p1.1.simTime := ⟨hb, hstop⟩
      rw [runSim_done p1.1.prevTime p1.1.vals hn2]
      simp [outcome, startState, hb]
    · rw [if_neg hstop]
      rw [restart_from_ran hR hH hran1 hprev (by omega) p1.2]
      simp [outcome]

/-- example configuration: 1 h hydraulic step, 6 min rule step, a time control closing key 0 at 5400 s (off the
hydraulic grid), a rule opening it again from 9000 s on -/
def cfgEx : Cfg :=
  { hyd := 3600, rule := 360, report := 0, duration := 14400, startClock := 0,
    presolve := [⟨0, 3, .sim ⟨.eq, 5400, 0⟩, [⟨0, 0⟩], []⟩],
    rules := [⟨1, 3, .sim ⟨.ge, 9000, 0⟩, [⟨0, 1⟩], []⟩] }

example : outcome (pausedRun cfgEx 3600 0 (-1) [(0, 1)]) = outcome (runSim cfgEx 0 (-1) [(0, 1)]) :=
  run_split (by decide) (by decide) _ (Or.inl rfl) 3600 (by decide)

/-- the rows of the example, split at 3600 s: the continuation starts with the partial step at 5400 s -/
example : (runSim (cfgEx.withDuration 3600) 0 (-1) [(0, 1)]).2.map (·.time) = [0, 3600] ∧
    (runSim cfgEx 7200 3600 [(0, 1)]).2.map (·.time) = [5400, 7200, 9000, 10800, 14400] := by decide

/-- the witness that was a counterexample before the repair: duration 5000 s off the 3600 s grid, pause at 3600 s -/
def cfgOff : Cfg := { hyd := 3600, rule := 360, report := 0, duration := 5000, startClock := 0, presolve := [], rules := [] }

example : (runSim cfgOff 0 (-1) []).2.map (·.time) = [0, 3600] ∧
    (pausedRun cfgOff 3600 0 (-1) []).2.map (·.time) = [0, 3600] := by decide

/-- **the continuation never revisits earlier times**: every row of the continuation is strictly later than the last
accepted time of the first part (hence than all its rows), and rows are strictly increasing; when the pause time is on
the hydraulic grid that last accepted time is `≥ t1`, so the continuation's first row is `> t1` -/
theorem continuation_after_pause {cfg : Cfg} (hR : 0 < cfg.rule) (hH : 0 < cfg.hyd) {simTime prevTime : Int} (vals : Vals)
    (h : StartOK simTime prevTime) (t1 : Int) (hstart : simTime ≤ t1) :
    let p1 := runSim (cfg.withDuration t1) simTime prevTime vals
    let p2 := runSim cfg p1.1.simTime p1.1.prevTime p1.1.vals
    (∀ r ∈ p1.2, r.time ≤ p1.1.prevTime) ∧ (∀ r ∈ p2.2, p1.1.prevTime < r.time) ∧
      (p1.2 ++ p2.2).Pairwise (fun a b => a.time < b.time) ∧
      (t1 % cfg.hyd = 0 → t1 ≤ p1.1.prevTime) := by
  have hH' : 0 < (cfg.withDuration t1).hyd := hH
  have hR' : 0 < (cfg.withDuration t1).rule := hR
  have hn1 : ¬ NothingLeft (cfg.withDuration t1) simTime := not_nothingLeft_of_le (Or.inr (by simpa using hstart))
  have hrest := run_leaves_restartable (cfg := cfg.withDuration t1) hR' hH' vals h hn1
  simp only at hrest
  obtain ⟨hok, hne, _, hgrid, hsimle, hexit⟩ := hrest
  have hrows1 := run_rows (cfg := cfg.withDuration t1) hR' hH' (simTime == 0) (startState_inv hR' vals h)
  rw [← runSim_eq_run (cfg := cfg.withDuration t1) hR' hH' vals h hn1] at hrows1
  simp only
  generalize runSim (cfg.withDuration t1) simTime prevTime vals = p1 at *
  have hb : (p1.1.simTime == 0) = false := by simpa using hne
  have hrows2 : (∀ r ∈ (runSim cfg p1.1.simTime p1.1.prevTime p1.1.vals).2, p1.1.prevTime < r.time) ∧
      ((runSim cfg p1.1.simTime p1.1.prevTime p1.1.vals).2).Pairwise (fun a b => a.time < b.time) := by
    by_cases hn2 : NothingLeft cfg p1.1.simTime
    · rw [runSim_done _ _ hn2]; simp
    · have hr := run_rows hR hH (p1.1.simTime == 0) (startState_inv hR p1.1.vals hok)
      rw [← runSim_eq_run hR hH p1.1.vals hok hn2] at hr
      have hprev : (startState cfg p1.1.simTime p1.1.prevTime p1.1.vals).prevTime = p1.1.prevTime := by
        unfold startState; simp [hb]
      rw [hprev] at hr
      exact ⟨fun r hr' => (hr.1 r hr').1, hr.2⟩
  refine ⟨fun r hr => (hrows1.1 r hr).2, hrows2.1, ?_, ?_⟩
  · rw [List.pairwise_append]
    refine ⟨hrows1.2, hrows2.2, ?_⟩
    intro a ha b hb'
    have := (hrows1.1 a ha).2; have := hrows2.1 b hb'; omega
  · intro ht
    simp only [withDuration_hyd, withDuration_duration] at hgrid hsimle hexit
    have hd : cfg.hyd ∣ p1.1.simTime - t1 := by
      apply Int.dvd_of_emod_eq_zero
      rw [Int.sub_emod, hgrid, ht]; simp
    have := Int.le_of_dvd (by omega) hd
    omega

/-- several pauses: run to `t₁`, continue to `t₂`, …, continue to the duration, a new simulator each time -/
def runPaused (cfg : Cfg) : List Int → Int → Int → Vals → St × List Row
  | [], simTime, prevTime, vals => runSim cfg simTime prevTime vals
  | t :: ts, simTime, prevTime, vals =>
    let p := runSim (cfg.withDuration t) simTime prevTime vals
    let r := runPaused cfg ts p.1.simTime p.1.prevTime p.1.vals
    (r.1, p.2 ++ r.2)

/-- the state any run leaves — also the run that had nothing to do — is a legitimate start -/
theorem run_leaves_startOK {cfg : Cfg} (hR : 0 < cfg.rule) (hH : 0 < cfg.hyd) {simTime prevTime : Int} (vals : Vals)
    (h : StartOK simTime prevTime) :
    StartOK (runSim cfg simTime prevTime vals).1.simTime (runSim cfg simTime prevTime vals).1.prevTime := by
  by_cases hn : NothingLeft cfg simTime
  · rw [runSim_done prevTime vals hn]
    have hb : (simTime == 0) = false := hn.1
    have hne : simTime ≠ 0 := by simpa using hb
    rcases h with h | h
    · exact absurd h hne
    · right; unfold startState; simpa [hb] using h
  · exact (run_leaves_restartable hR hH vals h hn).1

/-- **`run_split` for any list of pauses** `≤ duration`, in any order (induction over the list, `run_split` at every
stage; a pause that lies before the current time is a part that does nothing) -/
theorem run_split_many {cfg : Cfg} (hR : 0 < cfg.rule) (hH : 0 < cfg.hyd) (ts : List Int) :
    ∀ {simTime prevTime : Int} (vals : Vals), StartOK simTime prevTime → (∀ t ∈ ts, t ≤ cfg.duration) →
      outcome (runPaused cfg ts simTime prevTime vals) = outcome (runSim cfg simTime prevTime vals) := by
  induction ts with
  | nil => intro _ _ _ _ _; rfl
  | cons t ts ih =>
    intro simTime prevTime vals h hp
    have hsplit := run_split hR hH vals h t (hp t List.mem_cons_self)
    have hH' : 0 < (cfg.withDuration t).hyd := hH
    have hR' : 0 < (cfg.withDuration t).rule := hR
    have hok := run_leaves_startOK (cfg := cfg.withDuration t) hR' hH' vals h
    have hih := ih (simTime := (runSim (cfg.withDuration t) simTime prevTime vals).1.simTime)
      (prevTime := (runSim (cfg.withDuration t) simTime prevTime vals).1.prevTime)
      (runSim (cfg.withDuration t) simTime prevTime vals).1.vals hok (fun x hx => hp x (List.mem_cons_of_mem _ hx))
    rw [← hsplit]
    unfold runPaused pausedRun
    simp only [outcome] at hih ⊢
    simp only [Outcome.mk.injEq] at hih ⊢
    exact ⟨hih.1, hih.2.1, hih.2.2.1, by rw [hih.2.2.2]⟩

example : outcome (runPaused cfgEx [0, 3600, 7200] 0 (-1) [(0, 1)]) = outcome (runSim cfgEx 0 (-1) [(0, 1)]) :=
  run_split_many (by decide) (by decide) _ _ (Or.inl rfl) (by decide)

/-- **`pickle_transparent`** (model level): the continuation reads nothing of the paused run but the clock, the
previous time and the element states — the simulator object's own `_rule_iter` and its results are rebuilt; so any
round trip of the model that preserves these three (what `pickle` is checked to do by the correspondence run) cannot
change the continuation -/
theorem pickle_transparent (cfg : Cfg) (a b : St) (h1 : a.simTime = b.simTime) (h2 : a.prevTime = b.prevTime)
    (h3 : a.vals = b.vals) :
    runSim cfg a.simTime a.prevTime a.vals = runSim cfg b.simTime b.prevTime b.vals := by
  rw [h1, h2, h3]

/-! ## The hydraulic state: what a continued run reads is in the network or re-derived identically

Model M5r (`Model/Restart.lean`): network state `Net C` (arbitrary core `C` — clock, statuses, settings, tank heads and
previous heads, `TankLevelCondition._last_value`, leak flags, … — plus the `_is_isolated` flags) and simulator-object
state `SimState` (`_rule_iter`, `_prev_isolated_junctions`, `_prev_isolated_links`).  The hydraulic solve, the
pre-solve scheduler, the graph search and the post-solve work are ARBITRARY functions (`Pass`). -/

open Wntr.Restart Wntr.Gen.RestartFields

/-- the simulator attributes modelled as `SimState` -/
def modelledSimState : List String := ["_rule_iter", "_prev_isolated_junctions", "_prev_isolated_links"]

/-- attributes the loop reads that `__init__` computes once from the STRUCTURE of the network (name ↔ id maps, integer
type, tolerances) — the same for every simulator object created for the same network -/
def structuralConstants : List String := ["_int_dtype", "_node_id_to_name", "_link_id_to_name", "_node_name_to_id", "_link_name_to_id", "_Htol", "_Qtol", "_wn"]

/-- **(source obligation 1)** the loop of `run_sim` rebinds exactly the attributes modelled as `SimState` — a new
`self._x = …` inside the loop (new simulator state carried from pass to pass) breaks this -/
theorem loop_rebinds_only_modelled_state : ∀ f ∈ storedInLoop, f ∈ modelledSimState := by decide

theorem modelled_state_is_rebound : ∀ f ∈ modelledSimState, f ∈ storedInLoop := by decide

/-- **(source obligation 2)** everything the loop reads from the simulator object is rebuilt by the prologue of EVERY
`run_sim` (or is a structural constant), so nothing is inherited from `__init__` or from an earlier run -/
theorem loop_reads_only_rebuilt_state : ∀ f ∈ readInLoop, f ∈ assignedInPrologue ∨ f ∈ structuralConstants := by decide

/-- **(source obligation 3)** the modelled state is rebuilt FROM THE NETWORK (the assigned expression reads `self._wn`):
`_rule_iter` from `_prev_sim_time`, `_prev_isolated_*` from the `_is_isolated` flags -/
theorem modelled_state_rebuilt_from_network : ∀ f ∈ modelledSimState, f ∈ assignedInPrologue ∧ f ∈ prologueReadsWn := by decide

/-- does a list of `WaterNetworkModel` collections cover every link class / every junction? -/
def coversAllLinks (l : List String) : Bool :=
  l.contains "links" || l.contains "link_name_list" ||
    ((l.contains "pipes" || l.contains "pipe_name_list") && (l.contains "pumps" || l.contains "pump_name_list") &&
      (l.contains "valves" || l.contains "valve_name_list"))
def coversAllJunctions (l : List String) : Bool :=
  l.contains "junctions" || l.contains "junction_name_list" || l.contains "nodes" || l.contains "node_name_list"

/-- **(source obligation 3b)** the rebuild of `_prev_isolated_links` iterates over ALL link classes (pipes, pumps AND
valves) and that of `_prev_isolated_junctions` over all junctions — `flagged` in Model/Restart ranges over every index -/
theorem prev_isolated_rebuilt_over_all_elements :
    coversAllLinks prevIsoLinkSources = true ∧ coversAllJunctions prevIsoJunctionSources = true := by decide

/-- the content of the network core `C` of `Model/Restart.lean`, spelled out: the private attributes of `wn`, its
elements and its controls' conditions that carry simulation state from pass to pass (all pickled with the model) -/
def declaredNetworkState : List String :=
  ["sim_time", "_prev_sim_time",                               -- the clock
   "_user_status", "_internal_status", "_setting", "_prev_setting", "_initial_status",  -- links
   "_head", "_prev_head", "_demand", "_pressure", "_leak_demand", "_leak_status",        -- nodes / tanks
   "_flow",
   "_is_isolated",                                              -- the flags (fields `isoJ`, `isoL` of `Net`)
   "_last_value", "_backtrack"]                                 -- TankLevelCondition / time conditions

/-- attributes the loop reads that belong to the DEFINITION of the network or are constants / back references of
controls and internal conditions (never written while simulating) -/
def declaredDefinitionPrivates : List String :=
  ["_Htol", "_Qtol", "_condition_1", "_condition_2", "_cv", "_end_node", "_start_node", "_fcv", "_prv", "_psv", "_pump", "_r",
   "_first_day", "_func", "_func_kwargs", "_model", "_wn", "_priority", "_relation", "_repeat", "_threshold", "_source_attr",
   "_source_obj", "_threshold_attr", "_threshold_obj", "_shifted_time", "_prev_shifted_time"]

/-- **(source obligation 5)** every private attribute of the network that the loop of `run_sim`, the functions of
`wntr/sim/hydraulics.py` it calls, the conditions' `evaluate()` methods, the status / setting setters and the control
actions WRITE is part of the declared network state — i.e. lives in the core `C` (or the flags) that `run_split_hydraulic`
quantifies over; a new piece of state written by that code breaks this -/
theorem network_state_written_is_declared : ∀ f ∈ networkStateWritten, f ∈ declaredNetworkState := by decide

/-- **(source obligation 6)** every private attribute that code READS is declared network state or a definition
attribute: the continuation reads nothing that is neither stored in the network nor re-derived -/
theorem network_state_read_is_declared :
    ∀ f ∈ networkStateRead, f ∈ declaredNetworkState ∨ f ∈ declaredDefinitionPrivates := by decide

/-- **(source obligation 7)** `_setup_sim_options` does not look at the clock: the effective hydraulic and report steps are
computed from the options alone, hence identically by the first `run_sim` and by every continuation (a guard like
`sim_time == 0` around the adjustment breaks this) -/
theorem setup_ignores_clock : setupReadsClock = false := by decide

/-- the adjustment as it is in the source IS the hand-written `effSteps` (`schedgen.eff_steps`): report < hyd reduces the
hydraulic step to the report step; a report step that is not a multiple is floored to one -/
theorem source_setup_is_effSteps (hyd rep : Int) : runSetup setupAdjust (hyd, rep) = effSteps hyd rep := by
  simp only [setupAdjust, runSetup, effSteps]

/-- **the effective steps after a restart equal those of the uninterrupted run**: `runSetup` has no clock argument
(`setup_ignores_clock` ties that to the source), so whatever `sim_time` a part starts from it steps on the same grid -/
theorem effective_steps_restart (hyd rep clock1 clock2 : Int) :
    (fun (_ : Int) => runSetup setupAdjust (hyd, rep)) clock1 = (fun (_ : Int) => runSetup setupAdjust (hyd, rep)) clock2 := rfl

example : runSetup setupAdjust (3600, 1800) = (1800, 1800) ∧ runSetup setupAdjust (3600, 5400) = (3600, 3600) := by decide

/-- **(source obligation 4)** the only network attributes the loop stores through `self._wn` are the clock fields (part
of the core `C`); everything else goes through element objects owned by the network -/
theorem loop_stores_only_clock_in_wn : ∀ f ∈ wnStoredInLoop, f ∈ ["sim_time", "_prev_sim_time"] := by decide

/-- **`run_split` with the hydraulic state** (for every `Pass`: arbitrary solve, scheduler, graph search satisfying the
rule-iterator contract): the uninterrupted run of `k1 + k2` passes and the run of `k1` passes followed by a NEW
simulator (state re-derived from the network the first part left) running `k2` passes end with the same network
(clock, statuses, tank heads, last values, flags, …) and the same rows; `_prev_isolated_*` may be re-derived in a
different order — only the set matters (`clear_eq_of_match`) -/
theorem run_split_hydraulic {C R : Type} (p : Pass C R) (good : C → Prop) (hc : Contract p good) (w : Net C)
    (hg : good w.core) (k1 k2 : Nat) :
    let full := iter p (k1 + k2) (w, derive p w, [])
    let p1 := iter p k1 (w, derive p w, [])
    let p2 := iter p k2 (p1.1, derive p p1.1, [])
    full.1 = p2.1 ∧ full.2.2 = p1.2.2 ++ p2.2.2 :=
  run_split_state p good hc w hg k1 k2

/-- … and the pass counts of the parts add up to that of the uninterrupted run (durations `t1 ≤ T`) -/
theorem run_split_hydraulic_stops {C R : Type} (p : Pass C R) (good : C → Prop) (hc : Contract p good) (w : Net C)
    (hg : good w.core) (t1 T : Int) (ht : t1 ≤ T) (k1 k : Nat)
    (h1 : StopsAt p t1 k1 (w, derive p w, [])) (h2 : StopsAt p T k (w, derive p w, [])) :
    k1 ≤ k ∧ (k1 < k → StopsAt p T (k - k1) ((iter p k1 (w, derive p w, [])).1, derive p (iter p k1 (w, derive p w, [])).1, [])) :=
  stops_split p good hc w hg t1 T ht k1 k h1 h2

/-- the time-stepping model `Sched` as a `Pass` (core = `St`; no hydraulics): the prologue's `_rule_iter`, the pre-solve
scheduler, the clock advance and the saved row of `stepOnce` -/
def schedPass (cfg : Cfg) : Pass St Row where
  ruleIterOf c := initRuleIter cfg (c.simTime == 0) c.prevTime
  pre c it := (presolve cfg (c.simTime == 0) { c with ruleIter := it }, (presolve cfg (c.simTime == 0) { c with ruleIter := it }).ruleIter)
  isolated _ := ([], [])
  post c _ _ :=
    ({ c with prevTime := c.simTime, simTime := c.simTime + cfg.hyd - (c.simTime + cfg.hyd) % cfg.hyd },
      if reportNow cfg c.simTime then [⟨c.simTime, c.vals⟩] else [])
  simTime c := c.simTime

/-- a network core the scheduler can be in at the head of a pass -/
def schedGood (cfg : Cfg) (c : St) : Prop :=
  Inv cfg c ∧ c.ruleIter = initRuleIter cfg (c.simTime == 0) c.prevTime ∧ -1 ≤ c.prevTime ∧ (c.simTime = 0 → c.prevTime = -1)

/-- **the contract holds of `Sched`** (this is C04's invariant `_rule_iter = accepted time // rule_timestep + 1`): so
`run_split_hydraulic` applies to the scheduler with ANY solve/graph functions that do not touch the clock -/
theorem sched_pass_contract {cfg : Cfg} (hR : 0 < cfg.rule) (hH : 0 < cfg.hyd) : Contract (schedPass cfg) (schedGood cfg) := by
  intro c fj fl hg
  obtain ⟨hinv, hit, hp, _⟩ := hg
  have hc : ({ c with ruleIter := initRuleIter cfg (c.simTime == 0) c.prevTime } : St) = c := by
    cases c; simp only at hit ⊢; rw [← hit]
  simp only [schedPass, hc]
  have hs := stepOnce_stepped hR hH (c.simTime == 0) hinv
  rw [stepOnce_fst] at hs
  generalize presolve cfg (c.simTime == 0) c = q at *
  have h1 := hs.prev_gt; have h2 := hs.sim_gt
  simp only at h1 h2
  have hne : (q.simTime + cfg.hyd - (q.simTime + cfg.hyd) % cfg.hyd) ≠ 0 := by omega
  have hb : ((q.simTime + cfg.hyd - (q.simTime + cfg.hyd) % cfg.hyd) == 0) = false := by simpa using hne
  have hiter := hs.iter
  simp only at hiter
  refine ⟨⟨hs.inv, ?_, by simp only; omega, fun h0 => absurd h0 hne⟩, ?_⟩
  · simp only [hb, initRuleIter, Bool.false_eq_true, if_false]; exact hiter
  · simp only [hb, initRuleIter, Bool.false_eq_true, if_false]; exact hiter

example : schedGood cfgEx (startState cfgEx 0 (-1) [(0, 1)]) :=
  ⟨startState_inv (by decide) _ (Or.inl rfl), rfl, by decide, fun _ => rfl⟩

end Wntr.C10
