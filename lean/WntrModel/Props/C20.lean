/-
C20 — demand, resilience and pump-cost metrics equal their documented formulas.

Subject: Model/Pattern.lean (M2) and Model/Metrics.lean (M10), transliterations of wntr/network/elements.py
(Pattern.at, TimeSeries.at, Demands.at) and wntr/metrics/{hydraulic,misc,economic}.py (REPAIRED code for `_gcd` and
`expected_demand`; the pinned variants and their counterexamples are at the end), and Gen/Tables.lean, regenerated
from economic.py on every run.  All theorems hold for every network description, pattern, time, table and value.
-/
import WntrModel.Model.Metrics
import WntrModel.Gen.Tables
import WntrModel.Gen.MetricsFormulas
import WntrModel.Gen.PatternFormulas
import WntrModel.Lemmas.MetricsShape
import WntrModel.Model.MExpr
import WntrModel.Lemmas.MetricsExpr
import WntrModel.Lemmas.MetricsSum
import WntrModel.Lemmas.MetricsPeriod
import Mathlib.Tactic.Ring
import Mathlib.Tactic.Linarith
import Mathlib.Tactic.FieldSimp
import Mathlib.Tactic.Positivity
import Mathlib.Tactic.Tauto
import Mathlib.Algebra.Order.Field.Rat
import Mathlib.Algebra.Order.AbsoluteValue.Basic

namespace Wntr.Pattern

/-- **a wrapping pattern (interpolated or not) is periodic with period `len · pattern_timestep`** -/
theorem pattern_periodic (p : Pat) (step : Int) (interp : Bool) (t : Int) (hs : 0 < step) (hw : p.wrap = true) :
    p.at step interp (t + (p.mults.length : Int) * step) = p.at step interp t := by
  have hk : (t + (p.mults.length : Int) * step) / step = t / step + p.mults.length :=
    Int.add_mul_ediv_right _ _ (ne_of_gt hs)
  simp only [Pat.at, hk, hw, Int.add_emod_right, if_true]
  split_ifs with h0 h1 hi hl
  · rfl
  · rfl
  · push_cast; ring
  · push_cast; ring
  · rfl

/-- with interpolation the value at a breakpoint `k·step` is the multiplier of that step -/
theorem pattern_interp_at_breakpoint (p : Pat) (step k : Int) (hs : 0 < step) (hw : p.wrap = true)
    (hn : 2 ≤ p.mults.length) :
    p.at step true (k * step) = p.at step false (k * step) := by
  have h0 : ¬ p.mults.length = 0 := by omega
  have h1 : ¬ p.mults.length = 1 := by omega
  have hk : k * step / step = k := Int.mul_ediv_cancel _ (ne_of_gt hs)
  have hsr : (step : Rat) ≠ 0 := by exact_mod_cast (ne_of_gt hs)
  simp only [Pat.at, h0, h1, hw, hk, if_true, if_false]
  push_cast
  have e : ((k : Rat) + 1) * (step : Rat) - (k : Rat) * (step : Rat) = (step : Rat) := by ring
  rw [e]
  field_simp
  ring

example : (Pat.at { mults := [1, 2, 3, 4] } 3600 false (7200 + 4 * 3600)) = 3 := by decide +kernel
example : (Pat.at { mults := [1, 2, 3, 4] } 3600 true 5400) = 5 / 2 := by decide +kernel
example : (Pat.at { mults := [1, 2, 3, 4], wrap := false } 3600 false 14400) = 0 := by decide +kernel
example : (Pat.at { mults := [7], wrap := false } 3600 false 99999) = 7 := by decide +kernel

end Wntr.Pattern

namespace Wntr.Metrics
open Wntr.Pattern

/-- **expected demand = Σ over the selected entries of base × pattern value × demand multiplier** -/
theorem demandsAt_eq_sum (l : List TS) (step : Int) (interp : Bool) (cat : Option String) (mult : Rat) (t : Int) :
    demandsAt l step interp cat mult t
      = lsum ((l.filter (catSelected cat)).map fun d => d.at step interp t * mult) := by
  unfold demandsAt
  rw [foldl_dem_acc l (fun d => d.at step interp t * mult) (catSelected cat) 0]; ring

/-- **sum of the expected demand over a window of `N` pattern steps that is a whole number of periods of every
pattern involved — independent of the start `s` of the window** -/
theorem demand_window_sum (l : List TS) (step s : Int) (cat : Option String) (mult : Rat) (N : Nat)
    (hs : 0 < step) (hf : ∀ d ∈ l, fits d N) :
    sumTo N (fun k => demandsAt l step false cat mult (s + (k : Int) * step))
      = (N : Rat) * lsum ((l.filter (catSelected cat)).map fun d => d.base * patMean d * mult) := by
  simp only [demandsAt_eq_sum]
  rw [sumTo_lsum_map N _ (fun d k => d.at step false (s + (k : Int) * step) * mult), ← lsum_map_mul]
  congr 1
  apply List.map_congr_left
  intro d hd
  have hd' : d ∈ l := (List.mem_filter.mp hd).1
  rw [sumTo_mul_const, ts_sum_whole_periods d step s N hs (hf d hd')]
  ring


/-- **the period `average_expected_demand` uses is a positive common multiple of 24 h and of the length
(in seconds) of every registered non-empty pattern** -/
theorem lcm_is_common_period (net : DemandNet) (hs : 0 < net.step) :
    0 < period net ∧ (86400 : Int) ∣ period net ∧
      ∀ n ∈ net.patLens, n ≠ 0 → ((n : Int) * net.step) ∣ period net := by
  have hpos : ∀ r ∈ patPeriods net, 0 < r := by
    intro r hr
    simp only [patPeriods, List.mem_map, List.mem_filter] at hr
    obtain ⟨n, ⟨_, hn⟩, rfl⟩ := hr
    have : 0 < (n : Int) := by
      have : n ≠ 0 := by simpa using hn
      omega
    exact Int.mul_pos this hs
  obtain ⟨p, d1, d2⟩ := lcml_spec 86400 (patPeriods net) (by decide) hpos
  refine ⟨p, d1, ?_⟩
  intro n hn h0
  apply d2
  simp only [patPeriods, List.mem_map, List.mem_filter]
  exact ⟨n, ⟨hn, by simpa using h0⟩, rfl⟩

/-- the number of samples is positive and a whole multiple of every registered non-empty pattern's length -/
theorem nSamples_spec (net : DemandNet) (hs : 0 < net.step) :
    0 < nSamples net ∧ ∀ n ∈ net.patLens, n ≠ 0 → ∃ m : Nat, nSamples net = m * n := by
  obtain ⟨hp, _, hd⟩ := lcm_is_common_period net hs
  constructor
  · unfold nSamples
    have : 1 ≤ (period net + net.step - 1) / net.step := by
      rw [Int.le_ediv_iff_mul_le hs]; omega
    omega
  · intro n hn h0
    obtain ⟨q, hq⟩ := hd n hn h0
    have hn0 : 0 < (n : Int) := by omega
    have hq0 : 0 < q := by
      by_contra h
      have h1 : (n : Int) * net.step * q ≤ 0 :=
        Int.mul_nonpos_of_nonneg_of_nonpos (le_of_lt (Int.mul_pos hn0 hs)) (not_lt.mp h)
      omega
    refine ⟨q.toNat, ?_⟩
    unfold nSamples
    have e : period net + net.step - 1 = (net.step - 1) + net.step * ((n : Int) * q) := by rw [hq]; ring
    rw [e, Int.add_mul_ediv_left _ _ (ne_of_gt hs), Int.ediv_eq_zero_of_lt (by omega) (by omega), zero_add]
    have hq' : q = (q.toNat : Int) := (Int.toNat_of_nonneg (le_of_lt hq0)).symm
    rw [hq', ← Int.natCast_mul, Int.toNat_natCast, Int.toNat_natCast, Nat.mul_comm]

/-- patterns used by the demand entries are registered in the network and wrap (the default) -/
def registered (net : DemandNet) (ds : List TS) : Prop :=
  ∀ d ∈ ds, ∀ p, d.pat = some p → p.wrap = true ∧ p.mults.length ∈ net.patLens

/-- **average_expected_demand = Σ base × (mean multiplier of the entry's pattern) × demand multiplier**, i.e. the
mean of `expected_demand` over a whole common period of all patterns (non-interpolated patterns) -/
theorem average_expected_demand_formula (net : DemandNet) (cat : Option String) (ds : List TS)
    (hs : 0 < net.step) (hi : net.interp = false) (hr : registered net ds) :
    avgExpectedDemand net cat ds
      = some (lsum ((ds.filter (catSelected cat)).map fun d => d.base * patMean d * net.dm)) := by
  obtain ⟨hN, hdiv⟩ := nSamples_spec net hs
  have hf : ∀ d ∈ ds, fits d (nSamples net) := by
    intro d hd p hp h0
    obtain ⟨hw, hm⟩ := hr d hd p hp
    exact ⟨hw, hdiv _ hm h0⟩
  unfold avgExpectedDemand expectedDemand
  simp only [hi]
  have hc : (fun k : Nat => demandsAt ds net.step false cat net.dm
        (net.patternStart + (k : Int) * net.step + net.patternStart))
      = (fun k : Nat => demandsAt ds net.step false cat net.dm
        ((net.patternStart + net.patternStart) + (k : Int) * net.step)) := by
    funext k; congr 1; ring
  rw [hc, demand_window_sum ds net.step _ cat net.dm (nSamples net) hs hf]
  have hne : ((nSamples net : Nat) : Rat) ≠ 0 := by exact_mod_cast (ne_of_gt hN)
  simp only [divz, hne, if_false]
  rw [mul_div_cancel_left₀ _ hne]

/-- **the mean over a whole common period does not depend on where the window starts** -/
theorem mean_over_whole_period_invariant (net : DemandNet) (cat : Option String) (ds : List TS) (s s' : Int)
    (hs : 0 < net.step) (hr : registered net ds) :
    sumTo (nSamples net) (fun k => demandsAt ds net.step false cat net.dm (s + (k : Int) * net.step))
      = sumTo (nSamples net) (fun k => demandsAt ds net.step false cat net.dm (s' + (k : Int) * net.step)) := by
  obtain ⟨_, hdiv⟩ := nSamples_spec net hs
  have hf : ∀ d ∈ ds, fits d (nSamples net) := by
    intro d hd p hp h0
    obtain ⟨hw, hm⟩ := hr d hd p hp
    exact ⟨hw, hdiv _ hm h0⟩
  rw [demand_window_sum ds net.step s cat net.dm _ hs hf, demand_window_sum ds net.step s' cat net.dm _ hs hf]


/-- non-vacuity: a 5 h pattern (period 120 h = lcm(24 h, 5 h)), pattern start 2 h -/
example : period { step := 3600, interp := false, patternStart := 7200, dm := 1, patLens := [5, 0] } = 432000 := by
  decide +kernel
example : avgExpectedDemand { step := 3600, interp := false, patternStart := 7200, dm := 2, patLens := [5] } none
    [{ base := 1, pat := some { mults := [1, 2, 3, 4, 5] } }, { base := 1 / 2 }] = some 7 := by decide +kernel

theorem rabs_eq_abs (x : Rat) : rabs x = |x| := by
  unfold rabs
  split_ifs with h
  · exact (abs_of_neg h).symm
  · exact (abs_of_nonneg (not_lt.mp h)).symm

theorem argminFrom_spec (a : Nat → Rat) (xs : List Rat) (i best : Nat) (bv : Rat)
    (hx : ∀ k, k < xs.length → xs.getD k 0 = a (i + k)) (hb : best < i) (hbv : bv = a best)
    (h1 : ∀ j, j < i → bv ≤ a j) (h2 : ∀ j, j < best → bv < a j) :
    argminFrom xs i best bv < i + xs.length ∧
      (∀ j, j < i + xs.length → a (argminFrom xs i best bv) ≤ a j) ∧
      (∀ j, j < argminFrom xs i best bv → a (argminFrom xs i best bv) < a j) := by
  induction xs generalizing i best bv with
  | nil =>
    simp only [argminFrom, List.length_nil, Nat.add_zero]
    exact ⟨hb, fun j hj => hbv ▸ h1 j hj, fun j hj => hbv ▸ h2 j hj⟩
  | cons x t ih =>
    have hxi : x = a i := by simpa using hx 0 (by simp)
    have ht : ∀ k, k < t.length → t.getD k 0 = a (i + 1 + k) := by
      intro k hk
      have := hx (k + 1) (by simp; omega)
      simpa [Nat.add_assoc, Nat.add_comm 1 k] using this
    have hlen : i + (x :: t).length = i + 1 + t.length := by simp; omega
    unfold argminFrom
    rw [hlen]
    split_ifs with hlt
    · apply ih (i + 1) i x ht (by omega) hxi
      · intro j hj
        rcases Nat.lt_succ_iff_lt_or_eq.mp hj with h | h
        · exact le_of_lt (lt_of_lt_of_le hlt (h1 j h))
        · subst h; exact le_of_eq hxi
      · intro j hj
        exact lt_of_lt_of_le hlt (h1 j hj)
    · apply ih (i + 1) best bv ht (by omega) hbv
      · intro j hj
        rcases Nat.lt_succ_iff_lt_or_eq.mp hj with h | h
        · exact h1 j h
        · subst h; rw [← hxi]; exact not_lt.mp hlt
      · exact h2

theorem getD_map_lt (keys : List Rat) (f : Rat → Rat) (j : Nat) (hj : j < keys.length) :
    (keys.map f).getD j 0 = f (keys.getD j 0) := by
  simp [List.getD_eq_getElem?_getD, List.getElem?_map, List.getElem?_eq_getElem hj]

/-- **the lookup index minimises |key − x| over the whole table and is the first such index** -/
theorem nearest_lookup_minimises (keys : List Rat) (x : Rat) (hne : keys ≠ []) :
    nearest keys x < keys.length ∧
      (∀ j, j < keys.length → |keys.getD (nearest keys x) 0 - x| ≤ |keys.getD j 0 - x|) ∧
      (∀ j, j < nearest keys x → |keys.getD (nearest keys x) 0 - x| < |keys.getD j 0 - x|) := by
  obtain ⟨k0, ks, rfl⟩ := List.exists_cons_of_ne_nil hne
  set dist := (k0 :: ks).map (fun k => rabs (k - x)) with hdist
  have hspec := argminFrom_spec (fun j => dist.getD j 0) (ks.map fun k => rabs (k - x)) 1 0 (rabs (k0 - x))
    (by intro k hk; simp [hdist, Nat.add_comm 1 k])
    (by omega) (by simp [hdist]) (by intro j hj; have : j = 0 := by omega
                                     subst this; simp [hdist]) (by intro j hj; omega)
  have hn : nearest (k0 :: ks) x = argminFrom (ks.map fun k => rabs (k - x)) 1 0 (rabs (k0 - x)) := rfl
  have hl : 1 + (ks.map fun k => rabs (k - x)).length = (k0 :: ks).length := by simp; omega
  rw [← hn, hl] at hspec
  obtain ⟨s1, s2, s3⟩ := hspec
  refine ⟨s1, ?_, ?_⟩
  · intro j hj
    have := s2 j hj
    simp only [hdist] at this
    rwa [getD_map_lt _ _ _ s1, getD_map_lt _ _ _ hj, rabs_eq_abs, rabs_eq_abs] at this
  · intro j hj
    have := s3 j hj
    simp only [hdist] at this
    rwa [getD_map_lt _ _ _ s1, getD_map_lt _ _ _ (lt_trans hj s1), rabs_eq_abs, rabs_eq_abs] at this

/-! ### tables -/
def near (a b tol : Rat) : Bool := decide (rabs (a - b) ≤ tol)
def col (r : List Rat) (i : Nat) : Rat := r.getD i 0
def inch : Rat := 254 / 10000

/-- a two-column documented table equals the code default exactly (integers) -/
def sameExact (code : List (Rat × Rat)) (doc : List (List Rat)) : Bool :=
  code == doc.map fun r => (col r 0, col r 1)

/-- a diameter table: documented inches = the literal, key = inch·0.0254 (as a double), documented metres = that
rounded to 3 decimals, value = documented value (as a double) -/
def sameDiam (code : List (Rat × Rat)) (lit : List Rat) (doc : List (List Rat)) : Bool :=
  lit == doc.map (fun r => col r 0) && code.length == doc.length &&
  (List.zip code doc).all fun (kv, r) =>
    near kv.1 (col r 0 * inch) (1 / 10 ^ 15) && near (col r 1) (col r 0 * inch) (1 / 2000) && near kv.2 (col r 2) (1 / 10 ^ 12)

/-- GHG table: documented millimetres = inch·25.4 rounded, value = documented value -/
def sameGhg (code : List (Rat × Rat)) (lit : List Rat) (doc : List (List Rat)) : Bool :=
  code.length == doc.length && lit.length == doc.length &&
  (List.zip (List.zip code lit) doc).all fun ((kv, i), r) =>
    near kv.1 (i * inch) (1 / 10 ^ 15) && near (col r 0) (i * inch * 1000) (1 / 2) && near kv.2 (col r 1) (1 / 10 ^ 12)

/-- **the default lookup tables in the code are the documented tables** (re-checked against the current source) -/
theorem tables_equal_documented :
    sameExact Gen.tankCost Gen.tankCostDoc = true ∧ sameExact Gen.pumpCost Gen.pumpCostDoc = true ∧
    sameDiam Gen.pipeCost Gen.pipeCostLiteral Gen.pipeCostDoc = true ∧
    sameDiam Gen.prvCost Gen.prvCostLiteral Gen.prvCostDoc = true ∧
    sameGhg Gen.pipeGhg Gen.pipeGhgLiteral Gen.pipeGhgDoc = true := by
  refine ⟨?_, ?_, ?_, ?_, ?_⟩ <;> decide +kernel

/-- the table keys are strictly increasing and non-empty (so "nearest" is the nearest size class) -/
def increasing : List Rat → Bool
  | [] => true
  | [_] => true
  | a :: b :: t => decide (a < b) && increasing (b :: t)

theorem tables_sorted_nonempty :
    [Gen.tankCost, Gen.pipeCost, Gen.prvCost, Gen.pumpCost, Gen.pipeGhg].all
      (fun t => t.length != 0 && increasing (t.map Prod.fst)) = true := by decide +kernel

/-! ### maximum pump power -/

theorem pmaxLinear_eq (a b eff : Rat) (hb : b ≠ 0) :
    pmaxLinear a b eff = gAcc * rho / eff * (a ^ 2 / (4 * b)) := by
  unfold pmaxLinear; field_simp; ring

/-- **for a linear pump curve the documented `Pmp` is the maximum over all flows of the power g·ρ·q·H(q)/eff** -/
theorem pmaxLinear_is_max (a b eff q : Rat) (hb : 0 < b) (he : 0 < eff) :
    gAcc * rho / eff * q * (a - b * q) ≤ pmaxLinear a b eff := by
  have key : pmaxLinear a b eff - gAcc * rho / eff * q * (a - b * q) = gAcc * rho / eff * b * (q - a / (2 * b)) ^ 2 := by
    unfold pmaxLinear; field_simp; ring
  have : 0 ≤ gAcc * rho / eff * b * (q - a / (2 * b)) ^ 2 := by
    unfold gAcc rho; positivity
  linarith

/-! ### closed forms -/

theorem tankCapacity_cylinder (pi d maxLevel level : Rat) (hpi : pi ≠ 0) (hd : d ≠ 0) (hm : maxLevel ≠ 0) :
    tankCapacity pi (.cyl d) maxLevel level = some (level / maxLevel) := by
  have hne : pi / 4 * d ^ 2 * maxLevel ≠ 0 := by positivity
  simp only [tankCapacity, tankVolume, divz, hne, if_false]
  congr 1; field_simp

theorem mriJunction_eq (pstar p z : Rat) (h : pstar + z ≠ 0) :
    mriJunction pstar p z = some ((p - pstar) / (pstar + z)) := by
  simp only [mriJunction, divz, h, if_false]; congr 1; ring

theorem pump_cost_formula (q hs he eff dt price : Rat) (h : eff ≠ 0) :
    (pumpPower q hs he eff).map (fun P => pumpCost (pumpEnergy P dt) price)
      = some (1000 * (981 / 100) * (he - hs) * q / (eff / 100) * dt * price) := by
  have h' : eff / 100 ≠ 0 := by positivity
  simp [pumpPower, divz, h', pumpCost, pumpEnergy, rho, gAcc]

theorem todini_single (pstar d h p dr hr : Rat) :
    todini pstar [⟨d, h, p⟩] [⟨dr, hr⟩] [] = divz (d * h - d * (pstar + (h - p))) (-dr * hr - d * (pstar + (h - p))) := by
  simp [todini, lsum]

/-! ### the defects of the pinned code, kept next to the repaired statements -/

/-- `_gcd` AS PINNED: `return x` sits inside the `while` body, so it returns after the first iteration
(and returns `None` when `y == 0`) -/
def gcdPinned (x y : Int) : Option Int :=
  if y = 0 then none
  else
    let x' := if y < 0 then -x else x
    let y' := if y < 0 then -y else y
    let (x'', _) := (y', x' % y')
    some x''

/-- `_lcm` as pinned (`x*y / _gcd(x,y)`, a TypeError when `_gcd` returned `None`) -/
def lcmPinned (x y : Int) : Option Int := (gcdPinned x y).map fun g => x * y / g

def lcmlPinned (first : Int) (rest : List Int) : Option Int :=
  rest.foldl (fun acc y => acc.bind fun x => lcmPinned x y) (some first)

/-- the full statement for the pinned `_lcml` -/
def LcmIsCommonPeriodPinned : Prop :=
  ∀ (first : Int) (rest : List Int) (v : Int), 0 < first → (∀ r ∈ rest, 0 < r) →
    lcmlPinned first rest = some v → ∀ r ∈ rest, r ∣ v

/-- a 5 h pattern: `_lcml([86400, 18000]) = 86400`, not a multiple of 18000 -/
theorem lcm_is_common_period_pinned_counterexample : ¬ LcmIsCommonPeriodPinned := by
  intro h
  have := h 86400 [18000] 86400 (by decide) (by decide) (by decide) 18000 (by simp)
  revert this; decide

/-- what the pinned `_lcml` really computes on positive entries: its first argument -/
theorem lcmlPinned_eq_first (first : Int) (rest : List Int) (hr : ∀ r ∈ rest, 0 < r) :
    lcmlPinned first rest = some first := by
  induction rest with
  | nil => rfl
  | cons a t ih =>
    have ha : 0 < a := hr a (List.mem_cons_self ..)
    have h0 : ¬ a = 0 := ne_of_gt ha
    have h1 : ¬ a < 0 := not_lt.mpr (le_of_lt ha)
    have : lcmPinned first a = some first := by
      simp [lcmPinned, gcdPinned, h0, h1, Int.mul_ediv_cancel _ h0]
    unfold lcmlPinned
    rw [List.foldl_cons]
    simp only [Option.bind_some, this]
    exact ih (fun r hr' => hr r (List.mem_cons_of_mem _ hr'))

/-- `expected_demand` AS PINNED: the pattern clock ignores `pattern_start` -/
def expectedDemandPinned (net : DemandNet) (cat : Option String) (demands : List TS) (ts : Int) : Rat :=
  demandsAt demands net.step net.interp cat net.dm ts

def ExpectedMatchesSimulatorPinned : Prop :=
  ∀ (net : DemandNet) (ds : List TS) (t : Int), 0 < net.step → expectedDemandPinned net none ds t = simDemand net ds t

/-- pattern [1,2,3,4] at 1 h, pattern start 2 h: at t = 0 the metric says 1, the simulator delivers 3 -/
theorem expected_matches_simulator_pinned_counterexample : ¬ ExpectedMatchesSimulatorPinned := by
  intro h
  have := h { step := 3600, interp := false, patternStart := 7200, dm := 1, patLens := [4] }
    [{ base := 1, pat := some { mults := [1, 2, 3, 4] } }] 0 (by decide)
  revert this; decide +kernel

theorem expected_matches_simulator_pinned_partial (net : DemandNet) (ds : List TS) (t : Int)
    (h0 : net.patternStart = 0) : expectedDemandPinned net none ds t = simDemand net ds t := by
  simp [expectedDemandPinned, simDemand, h0]

example : expectedDemandPinned { step := 3600, interp := false, patternStart := 0, dm := 2, patLens := [2] }
    none [{ base := 3, pat := some { mults := [1, 5] } }] 3600 = 30 := by decide +kernel

/-- **(repaired code) the metric is exactly what WNTRSimulator sets as expected demand at the same time** -/
theorem expected_matches_simulator (net : DemandNet) (ds : List TS) (t : Int) :
    expectedDemand net none ds t = simDemand net ds t := rfl

end Wntr.Metrics

/-! ## Translator tie for the formulas

`Gen/MetricsFormulas.lean` holds, for every metric function, the arithmetic that harness/props/c20_translate.py
extracts from the CURRENT python source (ast -> `MExpr`, pandas broadcasting flattened to one time / one element).
The theorems below prove, for ALL inputs, that the extracted term evaluates to the documented formula of
Model/Metrics.lean (`none` exactly where the denominator vanishes or the code raises).  A sign edit, a dropped `abs`,
head and pressure swapped, a missing reservoir / pump term … changes the generated term and breaks the theorem.
The only hand-written glue is the naming of the inputs: the `Row`/`Env` builders next to each theorem. -/
namespace Wntr.Metrics

/-! ## the code's arithmetic (Gen/MetricsFormulas.lean, re-extracted from the python source on every run) equals the
documented formulas -/

def jRow (j : JRow) : Row := { num := fun | .demand => j.d | .head => j.h | .pressure => j.p | _ => 0 }
def rRow (r : RRow) : Row := { num := fun | .demand => r.d | .head => r.h | _ => 0 }
def pRow (p : PRow) : Row :=
  { num := fun | .flowrate => p.q | _ => 0, link := fun | .head, .startNode => p.hs | .head, .endNode => p.he | _, _ => 0 }

/-- results tables at one time, as `todini_index` reads them -/
def todiniEnv (pstar : Rat) (js : List JRow) (rs : List RRow) (ps : List PRow) : Env :=
  { glob := { num := fun | .Pstar => pstar | _ => 0 },
    rows := fun | .junctions => js.map jRow | .reservoirs => rs.map rRow | .pumps => ps.map pRow | _ => [] }

theorem todini_code_eq_doc (pstar : Rat) (js : List JRow) (rs : List RRow) (ps : List PRow) (row : Row) :
    evalO (todiniEnv pstar js rs ps) row Gen.todini_index = todini pstar js rs ps := by
  mexpr_tie [Gen.todini_index, evalO, ok, eval, todiniEnv, Function.comp_def, jRow, rRow, pRow, todini, divz]

theorem wsa_code_eq_doc (env : Env) (d e : Rat) :
    evalO env { num := fun | .demand => d | .expectedDemand => e | _ => 0 } Gen.water_service_availability = wsa d e := by
  mexpr_tie [Gen.water_service_availability, evalO, ok, eval, wsa, divz]

def pstarEnv (pstar : Rat) : Env := { glob := { num := fun | .Pstar => pstar | _ => 0 } }

theorem mri_junction_code_eq_doc (pstar p z : Rat) :
    evalO (pstarEnv pstar) { num := fun | .pressure => p | .elevation => z | _ => 0 } Gen.mri_per_junction
      = mriJunction pstar p z := by
  mexpr_tie [Gen.mri_per_junction, evalO, ok, eval, pstarEnv, mriJunction, divz]

def mriRow (r : Rat × Rat × Rat) : Row := { num := fun | .demand => r.1 | .pressure => r.2.1 | .elevation => r.2.2 | _ => 0 }

theorem mri_system_code_eq_doc (pstar : Rat) (rows : List (Rat × Rat × Rat)) (row : Row) :
    evalO { pstarEnv pstar with rows := fun | .junctions => rows.map mriRow | _ => [] } row Gen.mri_system
      = mriSystem pstar rows := by
  mexpr_tie [Gen.mri_system, evalO, ok, eval, pstarEnv, mriSystem, divz, mriRow, Function.comp_def]

/-- a tank as `Tank.get_volume` / `tank_capacity` / `annual_network_cost` read it -/
def tankRow (g : TankGeom) (minLevel maxLevel curLevel x : Rat) : Row :=
  { num := fun | .pressure => x | .level => curLevel | .maxLevel => maxLevel | .minLevel => minLevel
               | .diameter => (match g with | .cyl d => d | .curve _ => 0) | _ => 0,
    none := fun | .volCurve => (match g with | .cyl _ => true | .curve _ => false) | _ => false,
    f1 := fun | .curveInterp => (match g with | .cyl _ => fun y => y | .curve pts => interp pts)
              | .curveInterpX => (match g with | .cyl _ => fun y => y | .curve pts => interpX pts)
              | _ => fun y => y }

def pipeRow (p : Rat × Rat) : Row := { num := fun | .diameter => p.1 | .length => p.2 | _ => 0 }

def piEnv (pi : Rat) : Env := { glob := { num := fun | .pi => pi | _ => 0 } }

theorem tank_volume_code_eq_doc (pi : Rat) (g : TankGeom) (lo hi cur x : Rat) :
    evalO (piEnv pi) (tankRow g lo hi cur x) Gen.tank_volume = some (tankVolume pi g x) := by
  cases g <;> mexpr_tie [Gen.tank_volume, evalO, ok, eval, evalC, piEnv, tankRow, tankVolume]

theorem tank_capacity_code_eq_doc (pi : Rat) (g : TankGeom) (lo hi cur x : Rat) :
    evalO (piEnv pi) (tankRow g lo hi cur x) Gen.tank_capacity = tankCapacity pi g hi x := by
  cases g <;> mexpr_tie [Gen.tank_capacity, evalO, ok, eval, evalC, piEnv, tankRow, tankCapacity, tankVolume, divz]

theorem population_code_eq_doc (avg R : Rat) :
    evalO { glob := { num := fun | .R => R | _ => 0 } } { num := fun | .averageExpectedDemand => avg | _ => 0 } Gen.population
      = (population avg R).map fun n => (n : Rat) := by
  mexpr_tie [Gen.population, evalO, ok, eval, population, divz]

theorem population_impacted_code_eq_doc (rel : Rat → Rat → Bool) (pop a1 a2 : Rat) :
    evalO { rel := rel } { num := fun | .pop => pop | .arg1 => a1 | .arg2 => a2 | _ => 0 } Gen.population_impacted
      = some (populationImpacted (rel a1 a2) pop) := by
  mexpr_tie [Gen.population_impacted, evalO, ok, eval, evalC, populationImpacted]

/-- a pump at one time; `effCurve`: the pump has an efficiency curve (`pump.efficiency is not None`) -/
def pumpRow (q hs he : Rat) (effCurve : Bool) : Row :=
  { num := fun | .flowrate => q | _ => 0,
    link := fun | .head, .startNode => hs | .head, .endNode => he | _, _ => 0,
    none := fun | .efficiency => !effCurve | _ => false }

def energyEnv (eff dt : Rat) : Env := { glob := { num := fun | .globalEfficiency => eff | .reportTimestep => dt | _ => 0 } }

theorem pump_power_code_eq_doc (q hs he eff dt : Rat) :
    evalO (energyEnv eff dt) (pumpRow q hs he false) Gen.pump_power = pumpPower q hs he eff := by
  mexpr_tie [Gen.pump_power, evalO, ok, eval, evalC, energyEnv, pumpRow, pumpPower, divz, rho, gAcc]

theorem pump_energy_code_eq_doc (q hs he eff dt : Rat) :
    evalO (energyEnv eff dt) (pumpRow q hs he false) Gen.pump_energy = (pumpPower q hs he eff).map (pumpEnergy · dt) := by
  mexpr_tie [Gen.pump_energy, evalO, ok, eval, evalC, energyEnv, pumpRow, pumpPower, pumpEnergy, divz, rho, gAcc]

/-- efficiency curves are not supported: the code raises -/
theorem pump_power_efficiency_curve_raises (q hs he eff dt : Rat) :
    evalO (energyEnv eff dt) (pumpRow q hs he true) Gen.pump_power = none := by
  mexpr_tie [Gen.pump_power, evalO, ok, eval, evalC, energyEnv, pumpRow]

def priceRow (energy : Rat) (price : Option Rat) (pricePattern : Bool) : Row :=
  { num := fun | .energy => energy | .energyPrice => price.getD 0 | _ => 0,
    none := fun | .energyPrice => price.isNone | .energyPattern => !pricePattern | _ => false }

def priceEnv (globalPrice : Rat) (demandCharge : Option Rat) (globalPattern : Bool) : Env :=
  { glob := { num := fun | .globalPrice => globalPrice | .demandCharge => demandCharge.getD 0 | _ => 0,
              none := fun | .demandCharge => demandCharge.isNone | .globalPattern => !globalPattern | _ => false } }

theorem pump_cost_code_eq_doc (energy gp : Rat) (price dc : Option Rat) (hdc : dc = none ∨ dc = some 0) :
    evalO (priceEnv gp dc false) (priceRow energy price false) Gen.pump_cost = some (pumpCost energy (price.getD gp)) := by
  rcases hdc with rfl | rfl <;> cases price <;> mexpr_tie [Gen.pump_cost, priceEnv, priceRow, pumpCost]

theorem pump_cost_unsupported_raise (energy gp : Rat) (price dc : Option Rat) (pp gpat : Bool)
    (h : pp = true ∨ gpat = true ∨ (∃ x, dc = some x ∧ x ≠ 0)) :
    evalO (priceEnv gp dc gpat) (priceRow energy price pp) Gen.pump_cost = none := by
  cases price <;> cases dc <;> rcases h with rfl | rfl | ⟨x, hx1, hx⟩ <;>
    mexpr_tie [Gen.pump_cost, priceEnv, priceRow, pumpCost]

def ghgEnv (t : List (Rat × Rat)) (pipes : List (Rat × Rat)) : Env :=
  { tbl := fun | .pipeGhg => t | _ => [], rows := fun | .pipes => pipes.map pipeRow | _ => [] }

theorem annual_ghg_code_eq_doc (t : List (Rat × Rat)) (pipes : List (Rat × Rat)) (row : Row) (ht : t ≠ []) :
    evalO (ghgEnv t pipes) row Gen.annual_ghg_emissions = some (annualGhg t pipes) := by
  mexpr_tie [Gen.annual_ghg_emissions, ghgEnv, pipeRow, annualGhg, lookup]


/-- what `annual_network_cost` reads from the network: tanks (geometry, min, max level), pipes (diameter, length),
head pumps (curve coefficients A, B, C), power pumps (power), valves (type, diameter) -/
structure CostNet where
  tanks : List (TankGeom × Rat × Rat)
  pipes : List (Rat × Rat)
  headPumps : List (Rat × Rat × Rat)
  powerPumps : List Rat
  valves : List (String × Rat)

def hpRow (exp ln : Rat → Rat) (p : Rat × Rat × Rat) : Row :=
  { num := fun | .curveA => p.1 | .curveB => p.2.1 | .curveC => p.2.2 | _ => 0,
    f1 := fun | .exp => exp | .log => ln | _ => fun y => y }
def ppRow (p : Rat) : Row := { num := fun | .power => p | _ => 0 }
def valveRow (v : String × Rat) : Row := { num := fun | .diameter => v.2 | _ => 0, str := fun | .valveType => v.1 | _ => "" }

def costEnv (pi eff : Rat) (t : CostTables) (exp ln : Rat → Rat) (rpow : Rat → Rat → Rat) (n : CostNet) : Env :=
  { glob := { num := fun | .pi => pi | .globalEfficiency => eff | _ => 0 },
    tbl := fun | .tankCost => t.tank | .pipeCost => t.pipe | .prvCost => t.prv | .pumpCost => t.pump | _ => [],
    f2 := fun _ => rpow,
    rows := fun | .tanks => n.tanks.map fun x => tankRow x.1 x.2.1 x.2.2 0 0
                | .pipes => n.pipes.map pipeRow
                | .headPumps => n.headPumps.map (hpRow exp ln)
                | .powerPumps => n.powerPumps.map ppRow
                | .valves => n.valves.map valveRow
                | _ => [] }

/-- the components the DOCUMENTED cost is summed over; `eff` is the number the maximum pump power is divided by -/
def costItems (eff : Rat) (exp ln : Rat → Rat) (rpow : Rat → Rat → Rat) (n : CostNet) : List CostItem :=
  n.tanks.map (fun x => .tank x.1 x.2.1 x.2.2) ++ n.pipes.map (fun p => .pipe p.1 p.2)
    ++ n.headPumps.map (fun p => .pump (pmaxDoc exp ln rpow p.1 p.2.1 p.2.2 eff))
    ++ n.powerPumps.map (fun p => .pump (p / eff))
    ++ (n.valves.filter fun v => v.1 == "PRV").map (fun v => .prv v.2)

theorem annual_network_cost_code_eq_doc (pi eff : Rat) (t : CostTables) (exp ln : Rat → Rat) (rpow : Rat → Rat → Rat)
    (n : CostNet) (row : Row)
    (ht : t.tank ≠ [] ∧ t.pipe ≠ [] ∧ t.prv ≠ [] ∧ t.pump ≠ []) (he : eff ≠ 0)
    (hp : ∀ p ∈ n.headPumps, p.2.1 * (p.2.2 + 1) ≠ 0 ∧ p.2.2 ≠ 0)
    (hk : ∀ x ∈ n.tanks, ∀ pts, x.1 = .curve pts → x.2.2 - x.2.1 ≠ 0) :
    evalO (costEnv pi eff t exp ln rpow n) row Gen.annual_network_cost
      = some (annualNetworkCost pi t (costItems eff exp ln rpow n)) := by
  obtain ⟨ht1, ht2, ht3, ht4⟩ := ht
  -- the loops of the source in canonical order (tanks, pipes, head pumps, power pumps, valves), whatever their order there
  apply evalO_eq_some
  · rw [ok_sortedAddends]
    simp only [sortedAddends, Gen.annual_network_cost, addends, List.cons_append, List.nil_append, List.insertionSort,
      List.orderedInsert, loopLe, loopKey, Nat.le_refl, Nat.zero_le, Nat.reduceLeDiff, if_true, if_false, List.foldr,
      List.all_cons, List.all_nil,
      ok, eval, evalC, costEnv, List.all_map, Function.comp_def, Bool.and_eq_true,
      List.all_eq_true, Bool.true_and, Bool.and_true, Bool.not_eq_true', decide_eq_false_iff_not, Bool.cond_eq_ite]
    refine ⟨?_, ?_, ?_, ?_, ?_⟩
    · rintro ⟨g, lo, hi⟩ hx
      cases g with
      | cyl d => simp [tankRow, ht1]
      | curve pts =>
        have h := hk _ hx pts rfl
        simp [tankRow, ht1]
        exact decide_eq_false h
    · intro x _; simp [ht2]
    · rintro ⟨a, b, c⟩ hx
      obtain ⟨h1, h2⟩ := hp _ hx
      simp [hpRow, ht4, he, h2]
      simpa using h1
    · intro x _; simp [ht4, he]
    · intro x _; split_ifs <;> simp [ht3]
  · rw [eval_sortedAddends]
    simp only [sortedAddends, Gen.annual_network_cost, addends, List.cons_append, List.nil_append, List.insertionSort,
      List.orderedInsert, loopLe, loopKey, Nat.le_refl, Nat.zero_le, Nat.reduceLeDiff, if_true, if_false, List.foldr,
      List.map_cons, List.map_nil, lsum_cons, lsum_nil, add_zero,
      eval, evalC, costEnv, costItems, annualNetworkCost, List.map_append, List.map_map,
      lsum_append, zero_add, Function.comp_def, Bool.cond_eq_ite, add_assoc]
    refine congrArg₂ (· + ·) ?_ (congrArg₂ (· + ·) ?_ (congrArg₂ (· + ·) ?_ (congrArg₂ (· + ·) ?_ ?_)))
    · apply lsum_map_congr
      rintro ⟨g, lo, hi⟩ _
      cases g <;> simp [tankRow, itemCost, lookup, tankConstructionVolume]
    · apply lsum_map_congr
      intro x _; simp [pipeRow, itemCost, lookup]
    · apply lsum_map_congr
      rintro ⟨a, b, c⟩ _
      simp only [hpRow, itemCost, lookup, pmaxDoc, gAcc, rho]
      congr 3; ring
    · apply lsum_map_congr
      intro x _; simp [ppRow, itemCost, lookup]
    · rw [← lsum_map_ite_filter]
      apply lsum_map_congr
      intro x _; simp [valveRow, itemCost, lookup]
      split_ifs <;> simp_all

section
open Wntr.Pattern
/-- one junction's demand list and the options `expected_demand` reads; times are whole seconds -/
def demandEnv (net : DemandNet) (cat : Option String) (l : List TS) : Env :=
  { glob := { num := fun | .patternStart => net.patternStart | .demandMultiplier => net.dm | _ => 0 },
    f2 := fun | .demandsAt => fun t m => demandsAt l net.step net.interp cat m t.floor
              | .demandsAtAll => fun t m => demandsAt l net.step net.interp none m t.floor
              | .rpow => fun x _ => x }

/-- **`expected_demand`, as extracted from the source, is Demands.at(ts + pattern_start, multiplier = demand
multiplier, category = category)** — the time origin (`+ pattern_start`), the multiplier and the category all enter -/
theorem expected_demand_code_eq_doc (net : DemandNet) (cat : Option String) (l : List TS) (ts : Int) :
    evalO (demandEnv net cat l) { num := fun | .ts => ts | _ => 0 } Gen.expected_demand
      = some (expectedDemand net cat l ts) := by
  have hf : ((ts : Rat) + (net.patternStart : Rat)).floor = ts + net.patternStart := by
    have := Rat.floor_intCast (ts + net.patternStart)
    push_cast at this
    exact this
  have hf' : ((net.patternStart : Rat) + (ts : Rat)).floor = ts + net.patternStart := by rw [add_comm]; exact hf
  simp [Gen.expected_demand, evalO, ok, eval, demandEnv, expectedDemand, hf, hf']
end

/-! ### the documented efficiency of the maximum pump power (known finding `annual_network_cost-pump-efficiency`) -/

def genTables : CostTables := { tank := Gen.tankCost, pipe := Gen.pipeCost, prv := Gen.prvCost, pump := Gen.pumpCost }

/-- the documentation's reading of `annual_network_cost`: "eff is the global efficiency (0.75 default)" (economic.py:95),
i.e. the stored percentage `wn.options.energy.global_efficiency` (75) taken as a fraction -/
def AnnualCostUsesDocumentedEfficiency : Prop :=
  ∀ (pi effPercent : Rat) (n : CostNet) (row : Row), effPercent ≠ 0 → n.headPumps = [] → n.tanks = [] →
    evalO (costEnv pi effPercent genTables id id (fun x _ => x) n) row Gen.annual_network_cost
      = some (annualNetworkCost pi genTables (costItems (effPercent / 100) id id (fun x _ => x) n))

/-- one 20 kW power pump, global efficiency 75 (%): the code looks up 20000/75 = 267 W (2850 $/yr), the documented
formula 20000/0.75 = 26667 W (3307 $/yr) -/
theorem annual_network_cost_efficiency_counterexample : ¬ AnnualCostUsesDocumentedEfficiency := by
  intro h
  have h1 := h 3 75 { tanks := [], pipes := [], headPumps := [], powerPumps := [20000], valves := [] } {} (by decide) rfl rfl
  rw [annual_network_cost_code_eq_doc _ _ _ _ _ _ _ _ (by decide) (by decide) (by simp) (by simp)] at h1
  revert h1
  decide +kernel

/-- without pumps the efficiency does not enter: code and documentation agree whatever `eff` means -/
theorem annual_network_cost_efficiency_partial (pi eff eff' : Rat) (t : CostTables) (exp ln : Rat → Rat)
    (rpow : Rat → Rat → Rat) (n : CostNet) (row : Row)
    (ht : t.tank ≠ [] ∧ t.pipe ≠ [] ∧ t.prv ≠ [] ∧ t.pump ≠ []) (he : eff ≠ 0)
    (h1 : n.headPumps = []) (h2 : n.powerPumps = [])
    (hk : ∀ x ∈ n.tanks, ∀ pts, x.1 = .curve pts → x.2.2 - x.2.1 ≠ 0) :
    evalO (costEnv pi eff t exp ln rpow n) row Gen.annual_network_cost
      = some (annualNetworkCost pi t (costItems eff' exp ln rpow n)) := by
  rw [annual_network_cost_code_eq_doc pi eff t exp ln rpow n row ht he (by simp [h1]) hk]
  simp [costItems, h1, h2]

/-! ### results tables keyed by NAME: which quantities a metric pairs

The translator tracks how pandas / numpy pairs the operands of every elementwise operation (columns labelled by element
names align by label; columns labelled by node names do not align with them; numpy arrays pair by position and keep the
order of the name list they were built from) and refuses an operation that would not pair the values of ONE element.
Here the inputs are functions of the node / link NAME, rows are names, and `.at .head .startNode` is the head table at
the start node of the row's link: the documented formulas below name the element of every factor explicitly. -/

/-- results at one time, keyed by node / link name, and the topology the metrics read -/
structure Keyed where
  head : String → Rat
  pressure : String → Rat
  demand : String → Rat
  elevation : String → Rat
  flowrate : String → Rat
  startNode : String → String
  endNode : String → String
  junctions : List String
  reservoirs : List String
  pumps : List String

def Keyed.row (T : Keyed) (effCurve : Bool) (n : String) : Row :=
  { num := fun | .head => T.head n | .pressure => T.pressure n | .demand => T.demand n | .elevation => T.elevation n
               | .flowrate => T.flowrate n | _ => 0,
    link := fun | .head, .startNode => T.head (T.startNode n) | .head, .endNode => T.head (T.endNode n) | _, _ => 0,
    none := fun | .efficiency => !effCurve | _ => false }

def Keyed.env (T : Keyed) (glob : Var → Rat) : Env :=
  { glob := { num := glob },
    rows := fun | .junctions => T.junctions.map (T.row false) | .reservoirs => T.reservoirs.map (T.row false)
                | .pumps => T.pumps.map (T.row false) | _ => [] }

/-- the Todini index with every factor's element named: demand, head and pressure of the SAME junction j; demand and
head of the SAME reservoir r; the flow of pump p with the heads at p's OWN end and start node -/
def todiniKeyed (pstar : Rat) (T : Keyed) : Option Rat :=
  let pout := lsum (T.junctions.map fun j => T.demand j * T.head j)
  let pexp := lsum (T.junctions.map fun j => T.demand j * (pstar + (T.head j - T.pressure j)))
  let pinRes := lsum (T.reservoirs.map fun r => -T.demand r * T.head r)
  let pinPump := lsum (T.pumps.map fun p => T.flowrate p * rabs (T.head (T.endNode p) - T.head (T.startNode p)))
  divz (pout - pexp) (pinRes + pinPump - pexp)

theorem todini_keyed_code_eq_doc (pstar : Rat) (T : Keyed) (row : Row) :
    evalO (T.env fun | .Pstar => pstar | _ => 0) row Gen.todini_index = todiniKeyed pstar T := by
  mexpr_tie [Gen.todini_index, Keyed.env, Keyed.row, todiniKeyed]

theorem todiniKeyed_eq (pstar : Rat) (T : Keyed) :
    todiniKeyed pstar T = todini pstar (T.junctions.map fun j => ⟨T.demand j, T.head j, T.pressure j⟩)
      (T.reservoirs.map fun r => ⟨T.demand r, T.head r⟩)
      (T.pumps.map fun p => ⟨T.flowrate p, T.head (T.startNode p), T.head (T.endNode p)⟩) := by
  simp [todiniKeyed, todini, Function.comp_def]

/-- system MRI: demand, pressure and elevation of the same junction -/
theorem mri_system_keyed_code_eq_doc (pstar : Rat) (T : Keyed) (row : Row) :
    evalO (T.env fun | .Pstar => pstar | _ => 0) row Gen.mri_system
      = mriSystem pstar (T.junctions.map fun j => (T.demand j, T.pressure j, T.elevation j)) := by
  mexpr_tie [Gen.mri_system, Keyed.env, Keyed.row, mriSystem]

/-- pump power of pump `p`: its own flow with the heads at its own end / start node -/
theorem pump_power_keyed_code_eq_doc (eff : Rat) (T : Keyed) (p : String) :
    evalO (T.env fun | .globalEfficiency => eff | _ => 0) (T.row false p) Gen.pump_power
      = pumpPower (T.flowrate p) (T.head (T.startNode p)) (T.head (T.endNode p)) eff := by
  mexpr_tie [Gen.pump_power, Keyed.env, Keyed.row, pumpPower, rho, gAcc]

/-! ### what the documentation says about the values -/

/-- resilience.rst:300 "ranges between 0 and 1" — true of a cylindrical tank for levels between 0 and `max_level` -/
theorem tankCapacity_cylinder_range (pi d maxLevel level : Rat) (hpi : 0 < pi) (hd : d ≠ 0) (hm : 0 < maxLevel)
    (h0 : 0 ≤ level) (h1 : level ≤ maxLevel) :
    ∃ c, tankCapacity pi (.cyl d) maxLevel level = some c ∧ 0 ≤ c ∧ c ≤ 1 := by
  refine ⟨level / maxLevel, tankCapacity_cylinder pi d maxLevel level (ne_of_gt hpi) hd (ne_of_gt hm), ?_, ?_⟩
  · exact div_nonneg h0 (le_of_lt hm)
  · rw [div_le_one hm]; exact h1

/-- hydraulic.py:238 "as a system average": the system MRI is the average of the per-junction indices weighted with
the minimum required power `d·(P* + z)` of each junction -/
theorem mriSystem_weighted_average (pstar : Rat) (rows : List (Rat × Rat × Rat))
    (hz : ∀ r ∈ rows, pstar + r.2.2 ≠ 0) :
    mriSystem pstar rows
      = divz (lsum (rows.map fun r => r.1 * (pstar + r.2.2) * ((r.2.1 - pstar) / (pstar + r.2.2))))
          (lsum (rows.map fun r => r.1 * (pstar + r.2.2))) := by
  have e1 : lsum (rows.map fun (d, p, z) => d * (p + z)) - lsum (rows.map fun (d, _, z) => d * (pstar + z))
      = lsum (rows.map fun r => r.1 * (pstar + r.2.2) * ((r.2.1 - pstar) / (pstar + r.2.2))) := by
    rw [← lsum_map_sub]
    apply lsum_map_congr
    rintro ⟨d, p, z⟩ hr
    have := hz _ hr
    simp only at this ⊢
    field_simp
    ring
  have e2 : lsum (rows.map fun (d, _, z) => d * (pstar + z)) = lsum (rows.map fun r => r.1 * (pstar + r.2.2)) := by
    apply lsum_map_congr
    rintro ⟨d, p, z⟩ _
    rfl
  show divz (lsum (rows.map fun (d, p, z) => d * (p + z)) - lsum (rows.map fun (d, _, z) => d * (pstar + z)))
    (lsum (rows.map fun (d, _, z) => d * (pstar + z))) = _
  rw [e1, e2]

/-- resilience.rst:346 "water service availability is always 1 (for junctions that have positive demand) or NaN (for
junctions that have demand equal to 0)" when the simulated demand equals the expected demand -/
theorem wsa_met_demand (d : Rat) : wsa d d = if d = 0 then none else some 1 := by
  unfold wsa divz
  split_ifs with h
  · rfl
  · rw [div_self h]

/-- resilience.rst:284 "the ratio of delivered demand to the expected demand": a delivered demand between 0 and the
expected demand gives a value between 0 and 1 -/
theorem wsa_range (d e : Rat) (h0 : 0 ≤ d) (h1 : d ≤ e) (he : 0 < e) :
    ∃ w, wsa d e = some w ∧ 0 ≤ w ∧ w ≤ 1 := by
  refine ⟨d / e, by simp [wsa, divz, ne_of_gt he], div_nonneg h0 (le_of_lt he), ?_⟩
  rw [div_le_one he]; exact h1

/-- hydraulic.py:177-179 "a measure of surplus power at each node": the numerator of the Todini index is the sum over
the junctions of demand × (pressure − P*), the pressure surplus — in particular it is ≥ 0 when every junction with a
non-negative demand has at least the threshold pressure -/
theorem todini_numerator_surplus (pstar : Rat) (js : List JRow) :
    lsum (js.map fun j => j.d * j.h) - lsum (js.map fun j => j.d * (pstar + (j.h - j.p)))
      = lsum (js.map fun j => j.d * (j.p - pstar)) := by
  rw [← lsum_map_sub]
  apply lsum_map_congr
  intro j _
  ring

theorem lsum_nonneg (l : List Rat) (h : ∀ x ∈ l, 0 ≤ x) : 0 ≤ lsum l := by
  induction l with
  | nil => simp [lsum_nil]
  | cons a t ih =>
    rw [lsum_cons]
    exact add_nonneg (h a (List.mem_cons_self ..)) (ih fun x hx => h x (List.mem_cons_of_mem _ hx))

theorem todini_numerator_nonneg (pstar : Rat) (js : List JRow) (h : ∀ j ∈ js, 0 ≤ j.d ∧ pstar ≤ j.p) :
    0 ≤ lsum (js.map fun j => j.d * j.h) - lsum (js.map fun j => j.d * (pstar + (j.h - j.p))) := by
  rw [todini_numerator_surplus]
  apply lsum_nonneg
  intro x hx
  obtain ⟨j, hj, rfl⟩ := List.mem_map.mp hx
  obtain ⟨h1, h2⟩ := h j hj
  exact mul_nonneg h1 (by linarith)

/-- hydraulic.py:236-238 "surplus power available at demand junctions": per junction the index has the sign of the
pressure surplus (for a positive required head P* + z) -/
theorem mriJunction_sign (pstar p z : Rat) (hz : 0 < pstar + z) :
    ∃ m, mriJunction pstar p z = some m ∧ (0 ≤ m ↔ pstar ≤ p) := by
  refine ⟨(p - pstar) / (pstar + z), mriJunction_eq pstar p z (ne_of_gt hz), ?_⟩
  rw [div_nonneg_iff]
  constructor
  · rintro (⟨h, _⟩ | ⟨_, h⟩) <;> linarith
  · intro h; left; exact ⟨by linarith, le_of_lt hz⟩

/-- a network without reservoirs and pumps (fed by tanks): no input power term is left -/
theorem todini_no_sources (pstar : Rat) (js : List JRow) :
    todini pstar js [] [] = divz (lsum (js.map fun j => j.d * j.h) - lsum (js.map fun j => j.d * (pstar + (j.h - j.p))))
      (-(lsum (js.map fun j => j.d * (pstar + (j.h - j.p))))) := by
  simp [todini, lsum]

/-- the population impacted at a node is either its whole population or nothing -/
theorem populationImpacted_le (m : Bool) (pop : Rat) (h : 0 ≤ pop) :
    0 ≤ populationImpacted m pop ∧ populationImpacted m pop ≤ pop := by
  cases m <;> simp [populationImpacted, h]

/-- misc.py:52 "R : float (optional, default = 0.00000876157 m3/s = 200 gallons/day)": the default in the signature is
the documented number, and that number is 200 gallons/day with the gallon taken as 3.785 l (to 1e-11 m3/s); against the
exact US gallon (3.785411784 l) it is 1.1e-4 low — an observation, not a defect -/
theorem population_R_default_documented :
    Gen.population_R_default = Gen.population_R_doc ∧
      |Gen.population_R_default - Gen.population_R_doc_gpd * (3785 / 1000000) / 86400| ≤ 1 / 10 ^ 11 ∧
      |Gen.population_R_default - Gen.population_R_doc_gpd * (3785411784 / 10 ^ 12) / 86400| ≤ Gen.population_R_default * (12 / 10 ^ 5) := by
  refine ⟨by decide +kernel, ?_, ?_⟩ <;> (rw [← rabs_eq_abs]; decide +kernel)

/-! ### non-vacuity: the generated terms evaluated on concrete tables -/

-- one junction (d = 0.01, h = 50, p = 30), one reservoir feeding 0.01 at 60 m, one pump 0.01 m3/s with a NEGATIVE head
-- gain 10 -> 5 m (|Δh| = 5), P* = 20:  (0.5 − 0.4) / (0.6 + 0.05 − 0.4) = 2/5
example : evalO (todiniEnv 20 [⟨1 / 100, 50, 30⟩] [⟨-1 / 100, 60⟩] [⟨1 / 100, 10, 5⟩]) {} Gen.todini_index = some (2 / 5) := by
  decide +kernel
-- no pumps and no reservoirs: the denominator is −Pexp
example : evalO (todiniEnv 20 [⟨1 / 100, 50, 30⟩] [] []) {} Gen.todini_index = some (-1 / 4) := by decide +kernel
-- zero expected demand: no value (NaN / inf)
example : evalO {} { num := fun | .demand => 1 | .expectedDemand => 0 | _ => 0 } Gen.water_service_availability = none := by
  decide +kernel
-- a closed pump (q = 0) and a pump with negative head gain: power 0 resp. negative
example : evalO (energyEnv 75 3600) (pumpRow 0 10 40 false) Gen.pump_power = some 0 := by decide +kernel
example : evalO (energyEnv 75 3600) (pumpRow (1 / 10) 40 30 false) Gen.pump_power = some (-13080) := by decide +kernel
-- volume-curve tank, level above the last curve point: the last segment is continued
example : evalO (piEnv 3) (tankRow (.curve [(0, 0), (2, 10), (4, 40)]) 0 4 0 5) Gen.tank_capacity = some (55 / 40) := by
  decide +kernel
-- half-to-even rounding of the population
example : evalO { glob := { num := fun | .R => 2 | _ => 0 } } { num := fun | .averageExpectedDemand => 5 | _ => 0 }
    Gen.population = some 2 := by decide +kernel

end Wntr.Metrics

/-! ## Control flow regenerated from the source

`Gen/PatternFormulas.lean` is written by harness/props/c20_shape.py on every run: a syntax-directed transliteration
(python ast -> Lean text) of Pattern.at, TimeSeries.at, Demands.at, _interp_extrapolate (wntr/network/elements.py) and
_gcd (while loop -> fuel), _lcm, _lcml and the window of average_expected_demand (wntr/metrics/hydraulic.py).
Each generated definition is proved equal, for all inputs, to the hand model the other theorems are about
(Model/Pattern.lean — shared with C01's demand formula — and Model/Metrics.lean): an edit of the index arithmetic, of the
wrap / interpolation branches, of `_gcd` / `_lcm` or of the averaging window breaks the theorem named after it. -/
namespace Wntr.Metrics
open Wntr.Pattern


/-- model.py:1632 "Patterns **always** use the global water network model options.time values": whatever is handed to
`add_pattern` (a list, a Pattern object with or without time options of its own) is evaluated with the MODEL's options -/
theorem add_pattern_uses_model_time_options :
    GenShape.addPatternTimeOptions = [("list", "model"), ("objectUnbound", "model"), ("objectBound", "model")] := by
  decide

theorem patternAt_gen_eq (p : Pat) (step : Int) (interp : Bool) (t : Int) :
    GenShape.patternAt p.mults p.wrap step interp t = p.at step interp t := by
  unfold GenShape.patternAt Pat.at Pat.get
  by_cases h0 : p.mults.length = 0
  · simp [h0]
  by_cases h1 : p.mults.length = 1
  · simp [h1]
  have hi0 : ¬ ((p.mults.length : Int) = 0) := by omega
  have hi1 : ¬ ((p.mults.length : Int) = 1) := by omega
  have hm : 0 ≤ t / step % (p.mults.length : Int) := Int.emod_nonneg _ hi0
  have e1 : (t / step % (p.mults.length : Int) + 1).toNat = (t / step % (p.mults.length : Int)).toNat + 1 := by omega
  have e2 : (t / step % (p.mults.length : Int) + 1 = (p.mults.length : Int))
      ↔ ((t / step % (p.mults.length : Int)).toNat + 1 = p.mults.length) := by omega
  simp only [h0, h1, hi0, hi1, if_false, e1, e2]
  cases p.wrap <;> cases interp <;> simp


theorem timeSeriesAt_gen_eq (d : TS) (step : Int) (interp : Bool) (t : Int) :
    GenShape.timeSeriesAt d step interp t = d.at step interp t := by
  unfold GenShape.timeSeriesAt TS.at
  cases hp : d.pat with
  | none => simp
  | some p => by_cases h : p.mults.length = 0 <;> simp [h, patternAt_gen_eq]

theorem demandsAt_gen_eq (l : List TS) (step : Int) (interp : Bool) (cat : Option String) (m : Rat) (t : Int) :
    GenShape.demandsAtGen l step interp cat m t = demandsAt l step interp cat m t := by
  unfold GenShape.demandsAtGen demandsAt
  rcases cat with _ | c
  · simp only [catSelected, timeSeriesAt_gen_eq]
    simp
  · by_cases hc : c = ""
    · subst hc
      simp [catSelected, timeSeriesAt_gen_eq]
    · simp only [catSelected, timeSeriesAt_gen_eq, hc]
      simp [hc]

theorem gcd_gen_eq (fuel : Nat) (x y : Int) : GenShape.gcdGen fuel x y = gcdLoop fuel x y := by
  unfold GenShape.gcdGen
  induction fuel generalizing x y with
  | zero => simp [GenShape.gcdGen_loop1, gcdLoop]
  | succ n ih =>
    unfold GenShape.gcdGen_loop1 gcdLoop
    by_cases hy : y = 0
    · simp [hy]
    · by_cases hn : y < 0 <;> simp [hy, hn] <;> exact ih _ _

theorem lcm_gen_eq (x y : Int) : GenShape.lcmGen x y = pyLcm x y := by
  simp only [GenShape.lcmGen, pyLcm, pyGcd, gcd_gen_eq] <;> first | rfl | (congr 1; ring)

theorem lcml_gen_eq (a : Int) (rest : List Int) : GenShape.lcmlGen (a :: rest) = lcml a rest := by
  have : GenShape.lcmGen = pyLcm := by funext x y; exact lcm_gen_eq x y
  simp [GenShape.lcmlGen, lcml, this]


/-- the list `L[1:]` the loop of average_expected_demand builds -/
theorem avgWindow_foldl (lens : List Nat) (step : Int) (L : List Int) :
    lens.foldl (fun (L : List Int) (pattern : Nat) =>
        if ((List.replicate pattern (0 : Rat)).length : Int) > 0 then L ++ [((List.replicate pattern (0 : Rat)).length : Int) * step] else L) L
      = L ++ (lens.filter (· ≠ 0)).map (fun (n : Nat) => (n : Int) * step) := by
  induction lens generalizing L with
  | nil => simp
  | cons n t ih =>
    rw [List.foldl_cons, ih]
    by_cases hn : n = 0
    · simp [hn]
    · have : 0 < n := by omega
      simp [hn, this]

theorem avgWindow_gen_eq (net : DemandNet) :
    GenShape.avgWindowGen net.patLens net.step net.patternStart
      = (net.patternStart, net.patternStart + period net - net.step, net.step) := by
  unfold GenShape.avgWindowGen
  simp only []
  rw [avgWindow_foldl]
  simp [lcml_gen_eq, period, patPeriods]

theorem interpExtrapolate_gen_eq (pts : List (Rat × Rat)) (x : Rat) :
    GenShape.interpExtrapolateGen x (pts.map Prod.fst) (pts.map Prod.snd) = interpX pts x := by
  unfold GenShape.interpExtrapolateGen interpX
  have hz : List.zip (pts.map Prod.fst) (pts.map Prod.snd) = pts := by
    induction pts with
    | nil => rfl
    | cons a t ih => simp [ih]
  simp only [hz, List.length_map, min_form, max_form]
  match pts, hz with
  | [], _ => simp
  | [a], _ => simp
  | a :: b :: t, _ =>
    have hl : 2 ≤ (a :: b :: t).length := by simp
    have h1 : ((a :: b :: t).length : Int) > 1 := by simp
    rw [lastTwo_spec _ hl]
    simp only [h1, if_true]
    rw [getD_map_fst _ _ (by simp), getD_map_fst _ _ (by simp), getD_map_fst _ _ (by simp), getD_map_fst _ _ (by simp; omega),
      getD_map_snd _ _ (by simp), getD_map_snd _ _ (by simp), getD_map_snd _ _ (by simp), getD_map_snd _ _ (by simp; omega)]
    simp

end Wntr.Metrics
