/-
C11 — simulating never alters the model definition; reset and rerun reproduce results.

The theorems are a FRAME argument over the store of a `WaterNetworkModel` (`Model/Frame.lean`) and are instantiated with
the tables the translator regenerates from /repo's current source on every run (`Gen/FrameC11.lean`):
`written` (what a simulator run can assign: control actions, internal control actions, `store_results_in_network`, the time
loop, isolation flags, the EPANET path), `toDictReads` (storage fields `to_dict` reads), `resetAssigns` (what
`reset_initial_values` re-assigns), `runInitialises` (written slots a run assigns before it reads them).

A run is ANY finite sequence of writes to `written` slots: the theorems hold for every network, every control / rule set,
every number of steps and every solver outcome. What is modelled, not verified: that the tables are complete (checked at
run time: the observed write trace of real runs must be ⊆ `written`), and that a simulation is a function of the store.
-/
import WntrModel.Model.Frame
import WntrModel.Gen.FrameC11
import WntrModel.Lemmas.FrameLemmas
import WntrModel.Lemmas.FrameBacktrack

namespace Wntr.Frame
open Gen

/-! ## 1. a run does not change `to_dict` -/

/-- generic: disjoint write- and read-sets ⇒ every function of the read slots (`to_dict`) is unchanged by every run -/
theorem run_preserves_view {V D : Type} (W R : List Slot) (h : overlap W R = []) (f : State V → D)
    (hf : ReadsOnly R f) (s : State V) (t : Trace V) (ht : t.within W) : f (run s t) = f s :=
  hf _ _ (run_agreeOn W R h s t ht)

/-- the FULL statement for the code's tables: whatever a run writes, `to_dict` is the same before and after -/
def RunPreservesDefinition : Prop :=
  ∀ (E : Elems) (s : State Nat) (t : Trace Nat), t.within written →
    toDict toDictReads E (run s t) = toDict toDictReads E s

/-- the written slots that `to_dict` reads, for the current source:
* the pump speed (`Pump.base_speed`, stored in `_speed_timeseries.base_value`), written by
  `ControlAction(pump, 'base_speed', v)` — a GENUINE change of the definition (known finding);
* `Rule._name`: `EpanetSimulator.run_sim → write_inpfile → _write_rules` names an unnamed rule after its registry key
  (`all_control._name = text`). `wn.to_dict()` substitutes that same key for an empty name, so the model dictionary does
  not change (checked by the oracle on every run); `Rule.to_dict()` alone does. -/
def definitionSlotsWritten : List Slot :=
  [⟨"HeadPump", "_speed_timeseries.base_value"⟩, ⟨"PowerPump", "_speed_timeseries.base_value"⟩, ⟨"Rule", "_name"⟩]

/-- **decided on the regenerated tables**: which written slots are read by `to_dict` -/
theorem definition_overlap : overlap written toDictReads = definitionSlotsWritten := by decide +kernel

/-- **the full statement is false of the code**: a `base_speed` control action rewrites the definition
(witness: one head pump, one write of its base speed) -/
theorem run_preserves_definition_counterexample : ¬ RunPreservesDefinition := by
  intro h
  have hw : Trace.within written
      ([(⟨0, ⟨"HeadPump", "_speed_timeseries.base_value"⟩⟩, 7)] : Trace Nat) := by
    unfold Trace.within; decide +kernel
  have := h [(0, "HeadPump")] (fun _ => 1) _ hw
  revert this
  decide +kernel

/-- the write-set of runs whose control actions do not target a definition slot (no `base_speed` action) -/
def writtenRuntime : List Slot := written.filter fun w => !decide (w ∈ toDictReads)

/-- what `writtenRuntime` leaves out of `written` is exactly `definitionSlotsWritten` -/
theorem writtenRuntime_excludes : written.filter (fun w => decide (w ∉ writtenRuntime)) = definitionSlotsWritten := by
  decide +kernel

/-- **run_preserves_definition (`_partial`: no `base_speed` control action, no naming of unnamed rules).** For EVERY element list, store and write
sequence over the run-time slots — statuses, settings, leak flags, heads, flows, isolation flags, control bookkeeping, … —
`to_dict` after the run equals `to_dict` before the run. -/
theorem run_preserves_definition_partial {V : Type} (E : Elems) (s : State V) (t : Trace V)
    (ht : t.within writtenRuntime) : toDict toDictReads E (run s t) = toDict toDictReads E s :=
  run_preserves_view writtenRuntime toDictReads (overlap_filter_not_mem written toDictReads) _
    (toDict_readsOnly toDictReads E) s t ht

/-- and the same for ANY reading of the definition that only looks at `to_dict`'s storage fields
(`write_inpfile`, `write_json`, a user's own comparison, …) -/
theorem run_preserves_every_view_partial {V D : Type} (f : State V → D) (hf : ReadsOnly toDictReads f) (s : State V)
    (t : Trace V) (ht : t.within writtenRuntime) : f (run s t) = f s :=
  run_preserves_view writtenRuntime toDictReads (overlap_filter_not_mem written toDictReads) f hf s t ht

/-- non-vacuity: `writtenRuntime` is most of `written` (status / setting / leak-status actions are all in it) -/
example : (⟨"Pipe", "_user_status"⟩ : Slot) ∈ writtenRuntime ∧ (⟨"PRValve", "_setting"⟩ : Slot) ∈ writtenRuntime ∧
    (⟨"Junction", "_leak_status"⟩ : Slot) ∈ writtenRuntime ∧ (⟨"Tank", "_head"⟩ : Slot) ∈ writtenRuntime := by
  decide +kernel
example : writtenRuntime.length + definitionSlotsWritten.length = written.length := by decide +kernel

/-- `reset_initial_values` itself only touches run-time slots, except that it re-assigns a power pump's `power` from
`_base_power` (a no-op on the definition: `link.power = link._base_power`) -/
theorem reset_overlap : overlap resetAssigns toDictReads = [⟨"PowerPump", "_base_power"⟩] := by decide +kernel

/-! ## 2. reset restores what a run wrote -/

/-- **decided on the regenerated tables**: every slot a run can write that `reset_initial_values` does not re-assign
(and that the translator could not show to be initialised by the run itself) -/
def expectedNotReset : List Slot :=
  [⟨"HeadPump", "_speed_timeseries.base_value"⟩, ⟨"PowerPump", "_speed_timeseries.base_value"⟩,
   ⟨"Control", "_condition._backtrack"⟩, ⟨"Control", "_which"⟩,
   ⟨"HeadPump", "_coeffs_curve_points"⟩, ⟨"HeadPump", "_curve_coeffs"⟩,
   ⟨"Rule", "_condition._backtrack"⟩, ⟨"Rule", "_name"⟩, ⟨"Rule", "_which"⟩,
   ⟨"WaterNetworkModel", "_inpfile"⟩]

theorem reset_missing : missing written (resetAssigns ++ runInitialises) = expectedNotReset := by decide +kernel

/-- of those, the slots for which the translator CHECKS by ast (`Gen.notReadBeforeWrite`, evidence in the generated
comment lines) that no run-time code path reads the value before assigning it: `_which` (assigned in
`is_control_action_required` directly before every `return True`, read only in `run_control_action`, which every call
site reaches through `ControlChecker.check`), the pump-curve memo `_curve_coeffs` / `_coeffs_curve_points` (read only
under the key test against the curve's points). -/
def checkedIgnorable : List Slot :=
  (missing written (resetAssigns ++ runInitialises)).filter fun w => decide (w ∈ notReadBeforeWrite)

theorem checkedIgnorable_eq : checkedIgnorable =
    [⟨"Control", "_which"⟩, ⟨"HeadPump", "_coeffs_curve_points"⟩, ⟨"HeadPump", "_curve_coeffs"⟩, ⟨"Rule", "_which"⟩] := by
  decide +kernel

/-- kind of a condition class in the generated table -/
def btKindOf (cls : String) : Option BtKind := (backtrackKinds.find? fun p => p.1 == cls).map (·.2)

/-- **backtrack_facts (decided on the regenerated tables).** What the translator reads off `controls.py` / `sim/core.py`:
(1) the backtrack component of a `ControlChecker.check()` result is USED in exactly two places: the presolve loop and the
`assert b == 0` of the feasibility controls (rules' and postsolve controls' backtrack is only unpacked);
(2) the only reader of `cond.backtrack` is `is_control_action_required`, directly after `cond.evaluate()` on the same object;
(3) every condition class a control registered with the PRESOLVE checker can have assigns `_backtrack` on EVERY path of
`evaluate()` and is not composite — so the value consumed is the one written in the same pass (`leaf_assigning_fresh`);
(4) the feasibility controls' conditions are composites whose leaf classes NEVER assign `_backtrack` — no run writes those
objects' slot, the value consumed is the constructor's 0 (`allNever_untouched`);
(5) the composite classes are exactly And/Or — for them a stale read is possible (`composite_can_be_stale`), but by (1)–(4)
it is never consumed. Hence no simulation result depends on the `_backtrack` values a previous run left behind. -/
theorem backtrack_facts :
    backtrackConsumers.map (·.2) = ["presolve_controls_to_run", "assert b == 0"] ∧
    backtrackReaders.all (·.2) = true ∧ backtrackReaders.length = 1 ∧
    presolveConditionClasses.all (fun c => btKindOf c == some .assignsAllPaths && !backtrackComposite.contains c) = true ∧
    feasibilityLeafClasses.all (fun c => btKindOf c == some .neverAssigns) = true ∧
    feasibilityConditionClasses.all (fun c => backtrackComposite.contains c) = true ∧
    (backtrackKinds.filter fun p => p.2 == .composite).map (·.1) = backtrackComposite ∧
    (backtrackKinds.filter fun p => p.2 == .assignsSomePaths) = [] := by
  refine ⟨?_, ?_, ?_, ?_, ?_, ?_, ?_, ?_⟩ <;> decide +kernel

/-- the `_backtrack` slots: not reset, written by runs, and — by `backtrack_facts` with the model of `evaluate` /
`backtrack` in `Lemmas/FrameBacktrack.lean` — never consumed with a value from before the current pass -/
def backtrackIgnorable : List Slot :=
  [⟨"Control", "_condition._backtrack"⟩, ⟨"Rule", "_condition._backtrack"⟩]

/-- the model facts `backtrack_facts` is combined with -/
theorem backtrack_model :
    (∀ (p : Backtrack.Pass) (i : Nat) (s s' : Backtrack.Store), Backtrack.isRequired p (.leaf i true) s = Backtrack.isRequired p (.leaf i true) s') ∧
    (∀ (p : Backtrack.Pass) (c : Backtrack.Cond), Backtrack.allNever c = true →
      ∀ s : Backtrack.Store, (Backtrack.eval p c s).2 = s) ∧
    (∃ (p : Backtrack.Pass) (c : Backtrack.Cond) (s s' : Backtrack.Store),
      Backtrack.isRequired p c s ≠ Backtrack.isRequired p c s') :=
  ⟨Backtrack.leaf_assigning_fresh, fun p c h s => Backtrack.allNever_untouched p c h s, Backtrack.composite_can_be_stale⟩

/-- **rule_name_facts (decided on the regenerated tables).** What HEAD guarantees about `Rule._name`, read off
`InpFile._write_rules` and `wntr/network/io.py:to_dict` by ast: the only assignment gives a NAMELESS rule (`name == ''`)
exactly its registry key, untransformed; and `to_dict` already reports that key for an empty name. So `to_dict` — a reader
of `Rule._name` — shows the same dictionary before and after (checked on every run by the EpanetSimulator oracle, incl.
nameless rules under long keys such as `<pump>_outage`); a writer that truncates or reformats the key flips
`ruleNameAssignedIsRegistryKey`. -/
theorem rule_name_facts :
    ruleNameAssignedIsRegistryKey = true ∧ toDictSubstitutesKeyForEmptyName = true ∧ ruleNameAssignedValue = "text" ∧
    ruleNameReaders.map (·.2) = ["inp-label", "logging/str", "dict key", "inp-label"] := by
  refine ⟨?_, ?_, ?_, ?_⟩ <;> decide +kernel

/-- `Rule._name`: written by the EPANET path, not reset; by `rule_name_facts` the value written is the key every reader
(`to_dict`, the INP label, `__repr__`) already used for the nameless rule — no result or dictionary depends on whether the
assignment has happened -/
def ruleNameIgnorable : List Slot := [⟨"Rule", "_name"⟩]

/-- in-place mutation (`.sort()`, `.append`, subscript stores, … on containers rooted at model objects inside the
simulator closure, `Gen.mutatedInPlace`) touches no slot `to_dict` reads: on HEAD only the observer lists of control
actions. **Decided on the regenerated tables.** -/
theorem in_place_mutation_invisible_to_toDict : overlap mutatedInPlace toDictReads = [] := by decide +kernel

/-- the remaining not-reset slot a simulation is ASSUMED not to depend on at its start (hypothesis `hdep` below; the
rerun oracle on the real code is what checks it): `WaterNetworkModel._inpfile` — the cached INP writer of the EPANET path,
never loaded by WNTRSimulator; EpanetSimulator passes `units=options.hydraulic.inpfile_units`, which may be `None`, in
which case the cached writer's units are reused (`Gen.inpfileUnitsAlwaysPassed = false`), so this one cannot be
discharged from the source. -/
def assumedIgnorable : List Slot := [⟨"WaterNetworkModel", "_inpfile"⟩]

theorem assumedIgnorable_evidence : inpfileUnitsAlwaysPassed = false := by decide +kernel

/-- slots whose value at the start of a run does not matter -/
def ignorable : List Slot := runInitialises ++ checkedIgnorable ++ backtrackIgnorable ++ ruleNameIgnorable ++ assumedIgnorable

/-- slots a run writes that survive `reset_initial_values` and matter -/
def notRestored : List Slot := missing written (resetAssigns ++ ignorable)

/-- the FULL statement: every written slot that matters is re-assigned by reset -/
def ResetRestoresInitial : Prop := notRestored = []

def expectedNotRestored : List Slot :=
  [⟨"HeadPump", "_speed_timeseries.base_value"⟩, ⟨"PowerPump", "_speed_timeseries.base_value"⟩]

theorem reset_missing_that_matters : notRestored = expectedNotRestored := by decide +kernel

/-- **the full statement is false of the code**: the pump speed written by a `base_speed` action is not restored
(a reservoir's `_leak_status` was a second such slot until /repo 42c3d93b made `reset_initial_values` clear it) -/
theorem reset_restores_initial_counterexample : ¬ ResetRestoresInitial := by
  unfold ResetRestoresInitial; rw [reset_missing_that_matters]; decide

/-- … and semantically: after run + reset the store differs from reset alone on that slot -/
theorem reset_restores_initial_witness :
    reset resetAssigns (fun _ _ => 1)
        (run (fun _ => 1) [(⟨0, ⟨"HeadPump", "_speed_timeseries.base_value"⟩⟩, 7)])
        ⟨0, ⟨"HeadPump", "_speed_timeseries.base_value"⟩⟩ = 7 ∧
    reset resetAssigns (fun _ _ => 1) (fun _ => (1 : Nat)) ⟨0, ⟨"HeadPump", "_speed_timeseries.base_value"⟩⟩ = 1 := by
  decide +kernel

theorem ignorable_written : ∀ x ∈ ignorable, x ∈ written := by decide +kernel

/-- write-set of runs that reset can undo (everything except the pump-speed slots) -/
def writtenRestorable : List Slot := written.filter fun w => decide (w ∈ resetAssigns ++ ignorable)

theorem writtenRestorable_excludes :
    written.filter (fun w => decide (w ∉ writtenRestorable)) = expectedNotRestored := by decide +kernel

/-- **reset_restores_initial (`_partial`: no `base_speed` action).** Whatever such a run wrote, after
`reset_initial_values` the store equals the store reset produces without the run, on every slot except the ignorable
ones; the initial values being computed from definition slots (`InitFromDefinition`). -/
theorem reset_restores_initial_partial {V : Type} (init : State V → Loc → V)
    (hinit : InitFromDefinition writtenRestorable init) (s : State V) (t : Trace V)
    (ht : t.within writtenRestorable) :
    AgreeOff ignorable (reset resetAssigns init (run s t)) (reset resetAssigns init s) :=
  reset_run_off writtenRestorable resetAssigns ignorable
    (missing_filter_mem written (resetAssigns ++ ignorable)) init hinit s t ht

/-! ## 3. rerun after reset reproduces the results; equal models give equal results -/

/-- **rerun_deterministic (`_partial`: no `base_speed` action).** For a simulator that is a function of the store, does
not depend on the ignorable slots (`hdep`) and writes only restorable run-time slots: ANY number of consecutive
run / reset cycles from a store that is a reset fixed point (a freshly built model) reports the same results every time. -/
theorem rerun_deterministic_partial {V Res : Type} (init : State V → Loc → V)
    (hinit : InitFromDefinition writtenRestorable init) (sim : Sim V Res)
    (hsim : ∀ s, (sim.trace s).within writtenRestorable)
    (hdep : ∀ s s', AgreeOff ignorable s s' → sim.results s = sim.results s' ∧ sim.trace s = sim.trace s')
    (s0 : State V) (hfix : AgreeOff ignorable (reset resetAssigns init s0) s0) (n : Nat) :
    cycles resetAssigns init sim n s0 = List.replicate n (sim.results s0) :=
  cycles_replicate_off writtenRestorable resetAssigns ignorable
    (missing_filter_mem written (resetAssigns ++ ignorable))
    (fun x hx => List.mem_filter.mpr ⟨ignorable_written x hx, by simp [hx]⟩)
    init hinit sim hsim hdep s0 hfix n s0 (AgreeOff.refl _ _)

/-- equal models (a deepcopy, a reloaded file: stores that agree on what a simulation reads) give equal results -/
theorem equal_models_equal_results {V Res : Type} (R : List Slot) (sim : Sim V Res) (hres : ReadsOnly R sim.results)
    (s s' : State V) (h : AgreeOn R s s') : sim.results s = sim.results s' := hres s s' h

/-- non-vacuity of `rerun_deterministic_partial`: a simulator that closes pipe 0 and reports its status -/
example : cycles resetAssigns (fun _ _ => 1)
    (⟨fun _ => [(⟨0, ⟨"Pipe", "_user_status"⟩⟩, 0)], fun s => s ⟨0, ⟨"Pipe", "_user_status"⟩⟩⟩ : Sim Nat Nat) 3
    (fun _ => 1) = [1, 1, 1] := by decide +kernel


/-! ## 4. EpanetSimulator -/

theorem notReadBeforeWrite_written : ∀ x ∈ notReadBeforeWrite, x ∈ written := by decide +kernel

theorem writtenByEpanet_written : ∀ x ∈ writtenByEpanet, x ∈ written := by decide +kernel

/-- **decided on the regenerated tables**: on the model object, `EpanetSimulator.run_sim` (through `write_inpfile` on the same
`wn`) can only assign the cached INP writer and the name of an unnamed rule -/
theorem epanet_write_set : writtenByEpanet = [⟨"Rule", "_name"⟩, ⟨"WaterNetworkModel", "_inpfile"⟩] := by decide +kernel

/-- … of which `to_dict` reads only `Rule._name` -/
theorem epanet_definition_overlap : overlap writtenByEpanet toDictReads = [⟨"Rule", "_name"⟩] := by decide +kernel

/-- the storage fields `to_dict` reads, except the rule name (which `wn.to_dict()` replaces by the registry key when it is
empty, and `_write_rules` sets to exactly that key) -/
def toDictReadsModuloRuleName : List Slot := toDictReads.filter fun r => decide (r ≠ ⟨"Rule", "_name"⟩)

theorem epanet_overlap_modulo_rule_name : overlap writtenByEpanet toDictReadsModuloRuleName = [] := by decide +kernel

/-- **epanet_run_preserves_definition.** Whatever an EpanetSimulator run writes on the model (any sequence of writes inside
`writtenByEpanet`, no exclusion): every view of the definition that reads `to_dict`'s storage fields other than the rule
name is unchanged — in particular element attributes, options, curves, patterns, and pump speeds. -/
theorem epanet_run_preserves_definition {V D : Type} (f : State V → D) (hf : ReadsOnly toDictReadsModuloRuleName f)
    (s : State V) (t : Trace V) (ht : t.within writtenByEpanet) : f (run s t) = f s :=
  run_preserves_view writtenByEpanet toDictReadsModuloRuleName epanet_overlap_modulo_rule_name f hf s t ht

theorem epanet_run_preserves_toDict {V : Type} (E : Elems) (s : State V) (t : Trace V)
    (ht : t.within writtenByEpanet) :
    toDict toDictReadsModuloRuleName E (run s t) = toDict toDictReadsModuloRuleName E s :=
  epanet_run_preserves_definition _ (toDict_readsOnly _ E) s t ht


/-! ## 5. the INP writer reads only definition slots -/

/-- **decided on the regenerated tables**: the storage fields the INP writer (`InpFile.write` and every `_write_*`;
EpanetSimulator = write INP + run EPANET) reads that a simulator run can write: the pump speed (definition slot written by
`base_speed` actions — the known finding), the rule name it assigns itself, and its own cached handle. No run-time slot
(`_setting`, `_user_status`, `_head`, `_flow`, …) is read. -/
theorem inp_writer_reads_overlap : overlap written inpWriterReads =
    [⟨"HeadPump", "_speed_timeseries.base_value"⟩, ⟨"PowerPump", "_speed_timeseries.base_value"⟩,
     ⟨"Rule", "_name"⟩, ⟨"WaterNetworkModel", "_inpfile"⟩] := by decide +kernel

/-- write-set of runs that cannot influence the INP text -/
def writtenInvisibleToInp : List Slot := written.filter fun w => !decide (w ∈ inpWriterReads)

/-- **inp_file_independent_of_runtime_state.** Whatever a WNTRSimulator run without `base_speed` action wrote (statuses,
valve settings, heads, flows, leak flags, …) and whether or not `reset_initial_values` was called: every function of the
slots the INP writer reads — the INP text, hence what EpanetSimulator simulates — is the same as before the run. -/
theorem inp_file_independent_of_runtime_state {V D : Type} (f : State V → D) (hf : ReadsOnly inpWriterReads f)
    (s : State V) (t : Trace V) (ht : t.within writtenInvisibleToInp) : f (run s t) = f s :=
  run_preserves_view writtenInvisibleToInp inpWriterReads (overlap_filter_not_mem written inpWriterReads) f hf s t ht

/-- non-vacuity: valve settings and statuses written by controls are invisible to the INP writer -/
example : (⟨"PRValve", "_setting"⟩ : Slot) ∈ writtenInvisibleToInp ∧ (⟨"Pipe", "_user_status"⟩ : Slot) ∈ writtenInvisibleToInp ∧
    (⟨"Tank", "_head"⟩ : Slot) ∈ writtenInvisibleToInp := by decide +kernel


/-! ## 6. results depend on the `to_dict` view only: control registration order -/

/-- **control_order_facts (decided on the regenerated tables).** `WNTRSimulator._get_control_managers` registers the
model's controls by iterating the control registry directly (`self._wn.controls()`: insertion order, which is the order of
`to_dict()['controls']`) — no sort, no re-keying by name — and then the simulator-generated controls in a fixed call
order. Registry NAMES therefore do not influence which of two equal-priority controls firing at the same instant wins; a
model and its reload (whose simple controls are renamed `control 1..N` in that same order) run them identically. -/
theorem control_order_facts :
    controlsRegisteredInInsertionOrder = true ∧ controlRegistrationOrder = "self._wn.controls()" ∧
    generatedControlSources =
      ["_get_all_tank_controls", "_get_cv_controls", "_get_pump_controls", "_get_valve_controls"] := by
  refine ⟨?_, ?_, ?_⟩ <;> decide +kernel

/-- a simulator whose results are a function of an ordered LIST of (name, control) pairs only through the controls, in list
order — the shape `control_order_facts` establishes — gives the same results for two registries that list the same
controls in the same order under different names -/
theorem results_independent_of_control_names {C Res : Type} (sim : List C → Res) (a b : List (String × C))
    (h : a.map (·.2) = b.map (·.2)) : sim (a.map (·.2)) = sim (b.map (·.2)) := by rw [h]

/-- … whereas NAME order is not insertion order (the witnesses of the generator: `zone_open` is added before `night_close`
but sorts after it; `control 10` sorts before `control 2`) -/
theorem name_order_is_not_insertion_order : "night_close" < "zone_open" ∧ "control 10" < "control 2" := by
  constructor <;> decide +kernel

end Wntr.Frame
