/-
C04 — time-based controls and rules act exactly at their configured instants.

Part A restates, as the named property theorems, the condition-level specifications proved in `Lemmas/Time.lean`
(model M4 = `SimTimeCondition.evaluate`, `TimeOfDayCondition.evaluate`, `_parse_value`, `_sec_to_clock`).
Part B is about the scheduler (model M5 = `_compute_next_timestep_and_run_presolve_controls_and_rules` and the
`while True` loop of `run_sim`): every theorem is for ALL configurations (any number of controls and rules, any
thresholds, priorities, steps, start clock time, duration) and all states satisfying the loop invariant `Inv`, which
`startState_inv` establishes for a fresh model and for a model left by an earlier run.

`PresolveEarliest` (exact landing) and `no_instant_skipped` (along a whole run) are proved via Lemmas/SchedEarliest.lean.
-/
import WntrModel.Lemmas.Sched
import WntrModel.Lemmas.SchedEarliest
import WntrModel.Lemmas.SchedGeneral
import WntrModel.Lemmas.TimeProg
import WntrModel.Lemmas.PresolveProg

namespace Wntr.C04
open Wntr.Time Wntr.Sched

/-! ## Part A — conditions -/

/-- `=` (one-shot) fires exactly when the instant lies in `(prev, cur]` and backtracks onto it -/
theorem simTimeEq_spec (thr prev cur : Int) :
    evalSimTime ⟨.eq, thr, 0⟩ prev cur =
      if prev < thr ∧ thr ≤ cur then (true, some (cur - thr)) else (false, some 0) :=
  simTime_eq_spec thr prev cur

example : evalSimTime ⟨.eq, 5400, 0⟩ 3600 7200 = (true, some 1800) := by decide
example : evalSimTime ⟨.eq, 5400, 0⟩ 5400 7200 = (false, some 0) := by decide

/-- repeating `=` fires iff some occurrence `thr + k·rep` (`k ≥ 0`) lies in `(prev, cur]` -/
theorem simTimeEq_repeat_spec (thr rep prev cur : Int) (hrep : rep > 0) :
    (evalSimTime ⟨.eq, thr, rep⟩ prev cur).1 = true ↔
      ∃ k : Int, 0 ≤ k ∧ prev < thr + k * rep ∧ thr + k * rep ≤ cur :=
  simTime_eq_repeat_fires thr rep prev cur hrep

example : (evalSimTime ⟨.eq, 21600, 86400⟩ (29 * 3600) (30 * 3600)).1 = true := by decide

/-- a firing `=` sim-time condition backtracks onto an occurrence inside the step -/
theorem simTimeEq_backtrack (thr rep prev cur b : Int)
    (h : evalSimTime ⟨.eq, thr, rep⟩ prev cur = (true, some b)) :
    0 ≤ b ∧ b < cur - prev ∧ SimInstant thr rep (cur - b) :=
  simTime_eq_backtrack thr rep prev cur b h

example : evalSimTime ⟨.eq, 21600, 86400⟩ 107000 108500 = (true, some 500) := by decide

/-- `>`, `>=`, `<` are true exactly on the stated interval; `<=` additionally at the cut step that reaches `thr` -/
theorem simTimeRange_spec (thr prev cur : Int) :
    (evalSimTime ⟨.gt, thr, 0⟩ prev cur).1 = decide (cur > thr) ∧
    (evalSimTime ⟨.ge, thr, 0⟩ prev cur).1 = decide (cur ≥ thr) ∧
    (evalSimTime ⟨.lt, thr, 0⟩ prev cur).1 = decide (cur < thr) ∧
    ((evalSimTime ⟨.le, thr, 0⟩ prev cur).1 = true ↔ (cur ≤ thr ∨ prev < thr)) :=
  simTime_range_spec thr prev cur

/-- daily clock `=`: fires iff an occurrence on a day `≥ first_day` lies in `(prev, cur]` (shifted times) -/
theorem todEq_spec (thr firstDay prev cur : Int) (h0 : 0 ≤ thr) (h1 : thr < 86400) :
    (evalTod ⟨.eq, thr, true, firstDay⟩ prev cur).1 = true ↔
      ∃ d : Int, firstDay ≤ d ∧ prev < thr + 86400 * d ∧ thr + 86400 * d ≤ cur :=
  tod_eq_fires thr firstDay prev cur h0 h1

example : (evalTod ⟨.eq, 6 * 3600, true, 0⟩ (5 * 3600) (6 * 3600)).1 = true := by decide
example : (evalTod ⟨.eq, 6 * 3600, true, 0⟩ (11 * 3600) (12 * 3600)).1 = false := by decide

/-- one-shot clock `=`: fires iff its single instant lies in `(prev, cur]` -/
theorem todEq_once_spec (thr firstDay prev cur : Int) (h0 : 0 ≤ thr) (h1 : thr < 86400) :
    (evalTod ⟨.eq, thr, false, firstDay⟩ prev cur).1 = true ↔
      (prev < thr + firstDay * 86400 ∧ thr + firstDay * 86400 ≤ cur) :=
  tod_eq_once_fires thr firstDay prev cur h0 h1

/-- a firing clock `=` backtracks onto the occurrence -/
theorem todEq_backtrack (c : TodCond) (hrel : c.rel = .eq) (h0 : 0 ≤ c.thr) (h1 : c.thr < 86400)
    (prev cur b : Int) (h : evalTod c prev cur = (true, some b)) :
    0 ≤ b ∧ b < cur - prev ∧ TodInstant c (cur - b) :=
  tod_eq_backtrack c hrel h0 h1 prev cur b h

example : evalTod ⟨.eq, 6 * 3600 + 1800, true, 0⟩ (6 * 3600) (7 * 3600) = (true, some 1800) := by decide

/-- `after` is true exactly from the time of day until midnight on days `≥ first_day` -/
theorem todAfter_spec (thr firstDay prev cur : Int) (h0 : 0 ≤ thr) (h1 : thr < 86400) :
    (evalTod ⟨.gt, thr, true, firstDay⟩ prev cur).1 = decide (firstDay ≤ cur / 86400 ∧ thr ≤ cur % 86400) :=
  tod_after_spec thr firstDay prev cur h0 h1

/-- `before`: the value is the truth of "time of day < thr" at the time the step is cut to -/
theorem todBefore_spec (thr firstDay prev cur : Int) (h0 : 0 ≤ thr) (h1 : thr < 86400) (hpc : prev < cur)
    (hday : firstDay ≤ cur / 86400) :
    ∃ b : Int, (evalTod ⟨.lt, thr, true, firstDay⟩ prev cur).2 = some b ∧ 0 ≤ b ∧ b < cur - prev ∧
      (evalTod ⟨.lt, thr, true, firstDay⟩ prev cur).1 = decide ((cur - b) % 86400 < thr) :=
  tod_before_spec thr firstDay prev cur h0 h1 hpc hday

example : ∃ thr firstDay prev cur : Int, 0 ≤ thr ∧ thr < 86400 ∧ prev < cur ∧ firstDay ≤ cur / 86400 :=
  ⟨3600, 0, 0, 7200, by decide⟩

/-- every condition (also AND/OR combinations) reports a backtrack inside the step, never `None` -/
theorem backtrack_inside_step (c : Cond) (sc prev cur : Int) (h : prev < cur) :
    ∃ b, (c.eval sc prev cur).2 = some b ∧ 0 ≤ b ∧ b < cur - prev :=
  Cond.eval_back c sc prev cur h

/-- `_parse_value (_sec_to_clock s) = s` for every second of the day -/
theorem clockString_roundtrip (s : Int) (h0 : 0 ≤ s) (h1 : s < 86400) :
    (let (h, m, sec, pm) := secToClock s; parseClock h m sec (if pm then 2 else 1)) = s :=
  clockParse_roundtrip s h0 h1

example : parseClock 12 0 0 2 = 43200 ∧ parseClock 12 30 0 1 = 1800 := by decide

/-! ## Part A' — the models ARE the source (translator tie)

`harness/props/c04_translate.py` regenerates on every run, from the Python `ast` of the files as they are now, the bodies of
`SimTimeCondition.evaluate` and `TimeOfDayCondition.evaluate` (Gen/TimeConds.lean, language Model/TimeProg.lean) and the
statement tree of `_compute_next_timestep_and_run_presolve_controls_and_rules` (Gen/PresolveShape.lean, tokens
Model/PresolveProg.lean).  The theorems below are re-checked against what the code says NOW: an edit of those functions
changes the generated terms and breaks them (or the translator refuses a construct it does not know). -/

/-- `SimTimeCondition.evaluate` (value and `_backtrack`) is `evalSimTime`, for all inputs with period `≥ 0` -/
theorem source_simTime_is_model (c : SimTimeCond) (prev cur : Int) (hrep : 0 ≤ c.rep) :
    TimeProg.run c.rel Gen.TimeConds.simTimeEvaluate (TimeProg.simEnv c prev cur) none = evalSimTime c prev cur :=
  TimeProg.generated_simTime_is_model c prev cur hrep

/-- `TimeOfDayCondition.evaluate` is `evalTod`, for all inputs -/
theorem source_tod_is_model (c : TodCond) (prev cur : Int) :
    TimeProg.run c.rel Gen.TimeConds.todEvaluate (TimeProg.todEnv c prev cur) none = evalTod c prev cur :=
  TimeProg.generated_tod_is_model c prev cur

example : TimeProg.run .eq Gen.TimeConds.simTimeEvaluate (TimeProg.simEnv ⟨.eq, 5400, 0⟩ 3600 7200) none = (true, some 1800) := by
  have := TimeProg.generated_simTime_is_model ⟨.eq, 5400, 0⟩ 3600 7200 (by decide)
  rw [show (⟨.eq, 5400, 0⟩ : SimTimeCond).rel = Rel.eq from rfl] at this
  rw [this]; decide

/-- **the configured period**: `SimTimeCondition.__init__` (regenerated from the source) turns a numeric `repeat = r` into the
period `r` for every Python numeric type it may come in — int, float (the documented type), numpy integer / float —,
`True` into 86400 s and `False` / `None` into "no repeat"; `evaluate` (above) then takes `r > 0` as the period -/
theorem source_repeat_is_period (r : Int) (k : TimeProg.NumKind) :
    TimeProg.normRepeat Gen.TimeConds.simTimeRepeatInit (.num r k) = r ∧
    TimeProg.normRepeat Gen.TimeConds.simTimeRepeatInit .pyTrue = 86400 ∧
    TimeProg.normRepeat Gen.TimeConds.simTimeRepeatInit .pyFalse = 0 ∧
    TimeProg.normRepeat Gen.TimeConds.simTimeRepeatInit .pyNone = 0 :=
  ⟨TimeProg.repeat_number_gives_period r k, TimeProg.repeat_true_is_daily, TimeProg.repeat_false_is_none.1, TimeProg.repeat_false_is_none.2⟩

/-- one pass of the `while` loop of the pre-solve scheduler, as regenerated from the source, is `loopStep` — hence
`presolveLoop` — for every configuration, due list, state and both values of `first_step` -/
theorem source_scheduler_pass_is_model (cfg : Cfg) (ref : Vals) (due : List Due) (first : Bool) (cnt : Nat) (s : St) :
    PresolveProg.interpStep cfg ref due first cnt s = loopStep cfg ref due cnt s :=
  PresolveProg.generated_body_is_loopStep cfg ref due first cnt s

/-- the whole method as regenerated from the source (prologue: check, two stable sorts, first-step override / clamp; loop) is, on
every state with `prev < sim_time` (all states of a run: `Inv.lt`), the hand-written `presolve` that all scheduler theorems of this file are about -/
theorem source_scheduler_is_model (cfg : Cfg) (first : Bool) (s : St) (hlt : s.prevTime < s.simTime) :
    PresolveProg.interpLoop cfg s.vals (PresolveProg.runPrologue cfg first s Gen.PresolveShape.prologue) first
        (presolveFuel cfg (PresolveProg.runPrologue cfg first s Gen.PresolveShape.prologue) s) 0 s = presolve cfg first s :=
  PresolveProg.generated_method_is_presolve cfg first s hlt

/-- the clamp of every backtrack into the step (`else` branch of the first-step override, /repo 7d8c4ce1) is the identity
on the backtracks of time conditions, which lie inside the step anyway (`backtrack_inside_step`) -/
theorem clamp_id_of_inside (b sim prev : Int) (h0 : 0 ≤ b) (h1 : b < sim - prev) :
    min (max b 0) (max (sim - prev - 1) 0) = b :=
  PresolveProg.clamp_id_of_inside b sim prev h0 h1

/-! ## Part B — the scheduler -/

/-- a small configuration used for the non-vacuity examples: 1 h hydraulic step, 6 min rule step, one time control
closing key 0 at 5400 s, one rule opening it again from 9000 s on -/
def cfgEx : Cfg :=
  { hyd := 3600, rule := 360, report := 0, duration := 14400, startClock := 0,
    presolve := [⟨0, 3, .sim ⟨.eq, 5400, 0⟩, [⟨0, 0⟩], []⟩],
    rules := [⟨1, 3, .sim ⟨.ge, 9000, 0⟩, [⟨0, 1⟩], []⟩] }

/-- the hypotheses used below hold of a fresh model and of one left by an earlier run -/
theorem start_invariant {cfg : Cfg} (hR : 0 < cfg.rule) {simTime prevTime : Int} (vals : Vals)
    (h : StartOK simTime prevTime) : Inv cfg (startState cfg simTime prevTime vals) :=
  startState_inv hR vals h

example : Inv cfgEx (startState cfgEx 0 (-1) [(0, 1)]) := startState_inv (by decide) _ (Or.inl rfl)
example : Inv cfgEx (startState cfgEx 7200 3600 [(0, 1)]) := startState_inv (by decide) _ (Or.inr (by decide))

/-- **(i) `presolve` lands on an instant.** From any state satisfying the loop invariant, for any configuration:
the accepted time `t` is strictly after the previous accepted time and not after the tentative one; it is the
tentative time itself, or the instant `cur − backtrack` of a control that was due, or a positive multiple of the rule
step that was just evaluated; the step is cut short (`t < cur`) only if a tracked value now differs from its value at
the start of the pass; `prev_sim_time` is untouched; afterwards `_rule_iter = t // rule_timestep + 1`
(both bounds), and the rule log stays well formed. -/
theorem presolve_lands_on_instant {cfg : Cfg} (hR : 0 < cfg.rule) (first : Bool) {s : St} (inv : Inv cfg s) :
    let t := (presolve cfg first s).simTime
    s.prevTime < t ∧ t ≤ s.simTime ∧
    (t = s.simTime ∨ (∃ d ∈ presolveDue cfg first s, t = s.simTime - d.back) ∨
      (∃ k : Int, 1 ≤ k ∧ t = k * cfg.rule ∧ t ∈ (presolve cfg first s).ruleLog)) ∧
    (t < s.simTime → changed s.vals (presolve cfg first s).vals = true) ∧
    (presolve cfg first s).prevTime = s.prevTime ∧
    (presolve cfg first s).ruleIter = t / cfg.rule + 1 := by
  have L := presolve_landed hR first inv
  refine ⟨L.gt, L.le, ?_, ?_, L.prev_eq, ruleIter_eq_div hR L.iter_lo L.iter_hi⟩
  · rcases L.kind with h | h | ⟨h1, h2⟩
    · exact Or.inl h
    · exact Or.inr (Or.inl h)
    · obtain ⟨k, hk1, _, hk3⟩ := L.rl.2.1 _ h2
      exact Or.inr (Or.inr ⟨k, hk1, hk3, h2⟩)
  · intro hlt
    rcases L.chg with h | h
    · omega
    · exact h

example : (presolve cfgEx false { simTime := 7200, prevTime := 3600, ruleIter := 11, vals := [(0, 1)] }).simTime = 5400 := by
  decide

/-- **the first step never backtracks**: on the first pass every due control has backtrack 0, so the clock stays
where it is unless a rule timestep `≤` the current time changed something; for a fresh model (`sim_time = 0`) the
first accepted time is 0 -/
theorem first_step_never_backtracks {cfg : Cfg} (hR : 0 < cfg.rule) {s : St} (inv : Inv cfg s) :
    (presolve cfg true s).simTime = s.simTime ∨
      ∃ k : Int, 1 ≤ k ∧ (presolve cfg true s).simTime = k * cfg.rule ∧
        (presolve cfg true s).simTime ∈ (presolve cfg true s).ruleLog := by
  obtain ⟨_, _, h, _⟩ := presolve_lands_on_instant hR true inv
  rcases h with h | ⟨d, hd, h⟩ | h
  · exact Or.inl h
  · left
    rw [h, (presolveDue_mem inv.lt hd).2.2.2 rfl]; omega
  · exact Or.inr h

theorem fresh_start_accepts_zero {cfg : Cfg} (hR : 0 < cfg.rule) (vals : Vals) :
    (presolve cfg true (startState cfg 0 (-1) vals)).simTime = 0 := by
  have inv : Inv cfg (startState cfg 0 (-1) vals) := startState_inv hR vals (Or.inl rfl)
  obtain ⟨h1, h2, _⟩ := presolve_lands_on_instant hR true inv
  have h0 : (startState cfg 0 (-1) vals).simTime = 0 := rfl
  have hp : (startState cfg 0 (-1) vals).prevTime = -1 := rfl
  rw [hp] at h1; rw [h0] at h2
  omega

/-- the full "earliest instant" statement: when the rules are inert in the pass (there are none, or no rule timestep is
pending up to the tentative time) `presolve` serves the groups of equal backtrack in time order and stops at the first
group after which a tracked value differs from its value at the start of the pass: new time and values are those of the
executable specification `landSpec` (Lemmas/SchedEarliest.lean) -/
def PresolveEarliest : Prop :=
  ∀ (cfg : Cfg) (first : Bool) (s : St), 0 < cfg.rule → Inv cfg s → RulesInert cfg s → NodupKeys s.vals →
    ((presolve cfg first s).simTime, (presolve cfg first s).vals) =
      landSpec s.vals s.simTime (presolveDue cfg first s) s.vals

/-- **`PresolveEarliest` holds** (group-boundary argument: `runGroup` is `takeWhile` on the rest of the due list, the
loop head always sees unchanged values) -/
theorem presolve_earliest_holds : PresolveEarliest :=
  fun _ first _ hR inv hin hnd => presolve_earliest hR first inv hin (changed_self _ hnd)

example : RulesInert cfgEx { simTime := 7200, prevTime := 3600, ruleIter := 21, vals := [(0, 1)] } := Or.inr (by decide)
example : landSpec [(0, 1)] 7200 [⟨⟨0, 3, .sim ⟨.eq, 5400, 0⟩, [⟨0, 0⟩], []⟩, .thenB, 1800⟩] [(0, 1)] = (5400, [(0, 0)]) := by
  rw [landSpec_cons]; decide

/-- **earliest effective instant (one pass)**: if `presolve` accepts a time later than the instant of a due control `d`,
then serving in order ALL controls due at instants up to and including `d`'s changed no tracked value — so the accepted
time is the first instant at which the accumulated actions change something -/
theorem earliest_effective_instant {cfg : Cfg} (hR : 0 < cfg.rule) {s : St} (inv : Inv cfg s) (hin : RulesInert cfg s)
    (hnd : NodupKeys s.vals) (d : Due) (hd : d ∈ presolveDue cfg false s)
    (hlt : s.simTime - d.back < (presolve cfg false s).simTime) :
    changed s.vals (((presolveDue cfg false s).takeWhile (fun x => decide (d.back ≤ x.back))).foldl (fun v x => x.run v) s.vals) = false := by
  have he := presolve_earliest hR false inv hin (changed_self _ hnd)
  have h1 : (presolve cfg false s).simTime = (landSpec s.vals s.simTime (presolveDue cfg false s) s.vals).1 := by rw [← he]
  rw [h1] at hlt
  have hs : (presolveDue cfg false s).Pairwise (fun a b => b.back ≤ a.back) := by
    unfold presolveDue; simp only [Bool.false_eq_true, if_false]; exact sortDue_sorted _
  exact landSpec_earliest s.vals s.simTime _ _ s.vals (le_refl _) hs d hd hlt

/-- **`no_instant_skipped`** (along a whole run, pure time-control configurations): for every one-shot time control
`AT TIME thr` and every legitimate start, if `thr` lies after the start's previous time and not after the last accepted
time of the run, then there is a pass of `run_sim` in whose window `(prev, accepted]` the instant lies, in which the
control is due with exactly the backtrack that leads to `thr`, and EITHER `thr` is the accepted (solved, reported) time
of that pass OR all controls due up to `thr` in that pass together changed no tracked value (nothing was to be done at
the instant).  With `value_persists` (a key written by no control due in a pass keeps its value) this is the
scheduler-level content of "acts exactly at its instant and the value holds until a later-firing control writes it". -/
theorem no_instant_skipped {cfg : Cfg} (hR : 0 < cfg.rule) (hH : 0 < cfg.hyd) (hnr : cfg.rules = [])
    {simTime prevTime : Int} (vals : Vals) (hnd : NodupKeys vals) (h : StartOK simTime prevTime)
    (hleft : ¬ NothingLeft cfg simTime) (c : Ctl) (hc : c ∈ cfg.presolve) (thr : Int) (hcond : c.cond = .sim ⟨.eq, thr, 0⟩)
    (h1 : (startState cfg simTime prevTime vals).prevTime < thr) (h2 : thr ≤ (runSim cfg simTime prevTime vals).1.prevTime) :
    ∃ e ∈ runTrace cfg (runFuel cfg (startState cfg simTime prevTime vals).prevTime) (simTime == 0) (startState cfg simTime prevTime vals),
      e.2.prevTime < thr ∧ thr ≤ (presolve cfg e.1 e.2).simTime ∧
      ((presolve cfg e.1 e.2).simTime = thr ∨
        ∃ d ∈ presolveDue cfg false e.2, d.ctl = c ∧ e.2.simTime - d.back = thr ∧
          changed e.2.vals (((presolveDue cfg false e.2).takeWhile (fun x => decide (d.back ≤ x.back))).foldl (fun v x => x.run v) e.2.vals) = false) := by
  rw [runSim_eq prevTime vals hleft] at h2
  obtain ⟨e, he, hinv, hj, hp, hl, hfirst⟩ := runTrace_cover hR hH (fun s => NodupKeys s.vals) (fun _ => True)
    (fun f s _ hj _ => hj.stepOnce f) thr _ (simTime == 0) _ [] (startState_inv hR vals h) hnd (fun _ => trivial) h1 h2
  refine ⟨e, he, hp, hl, ?_⟩
  have L := presolve_landed hR e.1 hinv
  by_cases heq : (presolve cfg e.1 e.2).simTime = thr
  · exact Or.inl heq
  · right
    have hlt : thr < (presolve cfg e.1 e.2).simTime := by omega
    -- the first pass of a fresh model accepts time 0 only
    have hf : e.1 = false := by
      cases hb : e.1 with
      | false => rfl
      | true =>
        exfalso
        have hes := hfirst hb
        have hfl : (simTime == 0) = true := by rw [hes] at hb; exact hb
        have h0 : simTime = 0 := by simpa using hfl
        have hst : e.2 = startState cfg simTime prevTime vals := by rw [hes]
        have hle := L.le
        rw [hst] at hle hp
        subst h0
        have e1 : (startState cfg 0 prevTime vals).simTime = 0 := rfl
        have e2 : (startState cfg 0 prevTime vals).prevTime = -1 := rfl
        rw [hst] at hlt
        rw [e1] at hle; rw [e2] at hp
        omega
    rw [hf] at L hl hlt
    have hle := L.le
    -- the control is due in this pass with backtrack cur - thr
    have hev : c.cond.eval cfg.startClock e.2.prevTime e.2.simTime = (true, some (e.2.simTime - thr)) := by
      rw [hcond]; simp only [Cond.eval]; rw [simTime_eq_spec, if_pos ⟨hp, by omega⟩]
    have hdue : (⟨c, .thenB, e.2.simTime - thr⟩ : Due) ∈ presolveDue cfg false e.2 := by
      unfold presolveDue
      simp only [Bool.false_eq_true, if_false]
      apply mem_sortDue.2
      unfold check
      apply List.mem_filterMap.2
      exact ⟨c, hc, by rw [hev]; rfl⟩
    refine ⟨_, hdue, rfl, by simp only; omega, ?_⟩
    exact earliest_effective_instant hR hinv (Or.inl hnr) hj _ hdue (by simp only; omega)

/-- non-vacuity: a configuration without rules, a fresh start, the control of `cfgEx` at 5400 s -/
example : (runSim { cfgEx with rules := [] } 0 (-1) [(0, 1)]).2.map (·.time) = [0, 3600, 5400, 7200, 10800, 14400] := by decide

/-! ### the general statement: any time controls AND rules -/

/-- **every event of a pass is served in time order** (any configuration): for a pass entered in state `s`, an event time
`τ` — the instant of a control due in the pass, or a rule timestep from `_rule_iter` on — with `τ ≤` the accepted time `t`:
if the event (rules of that rule timestep, then the controls of that instant in priority order, applied to the values at
the start of the pass) changes a tracked value, then `t = τ` — the partial step lands exactly on it — and the values after
the pass read, key by key, as those of the event -/
theorem event_accepted {cfg : Cfg} (hR : 0 < cfg.rule) {s : St} (inv : Inv cfg s) (hnd : NodupKeys s.vals) (τ : Int)
    (hτ : τ ≤ (presolve cfg false s).simTime)
    (hev : (∃ d ∈ presolveDue cfg false s, τ = s.simTime - d.back) ∨ isRuleAt cfg s.ruleIter τ)
    (hch : changed s.vals (eventAt cfg s.vals s.simTime s.ruleIter (presolveDue cfg false s) τ) = true) :
    (presolve cfg false s).simTime = τ ∧
      ∀ k, (presolve cfg false s).vals.get k = (eventAt cfg s.vals s.simTime s.ruleIter (presolveDue cfg false s) τ).get k := by
  have E := presolve_events hR inv hnd
  have hle : τ ≤ s.simTime := le_trans hτ E.le
  have hnot : ¬ (τ < (presolve cfg false s).simTime ∨ changed s.vals (presolve cfg false s).vals = false) := by
    intro h
    have := E.before τ hle h hev
    rw [hch] at this; exact absurd this (by simp)
  have hland : (presolve cfg false s).simTime = τ := by
    have : ¬ τ < (presolve cfg false s).simTime := fun h => hnot (Or.inl h)
    omega
  have hchg : changed s.vals (presolve cfg false s).vals = true := by
    cases h : changed s.vals (presolve cfg false s).vals with
    | true => rfl
    | false => exact absurd (Or.inr h) hnot
  refine ⟨hland, ?_⟩
  have := (E.landed hchg).2
  simp only at this
  rw [hland] at this
  exact this

/-- **the value an accepted instant leaves** on key `k`: that of the highest-priority control due at that instant that
writes `k` (ties: the later registered); if none writes `k`, what the rules of that rule timestep left; else the old value -/
theorem event_value (cfg : Cfg) (s : St) (τ : Int) (k : Nat) :
    (eventAt cfg s.vals s.simTime s.ruleIter (presolveDue cfg false s) τ).get k =
      match winner k ((check cfg.startClock s.prevTime s.simTime cfg.presolve).filter (fun d => d.back == s.simTime - τ)) with
      | some w => (w.writes k).getD 0
      | none => (if isRuleAt cfg s.ruleIter τ then rulesAt cfg τ s.vals else s.vals).get k :=
  eventAt_get cfg s τ k

/-- what holds of every pass of a run from a fresh model -/
structure PassOfRun (cfg : Cfg) (e : Bool × St) : Prop where
  inv : Inv cfg e.2
  nodup : NodupKeys e.2.vals
  same : presolve cfg e.1 e.2 = presolve cfg false e.2
  iter : e.2.ruleIter * cfg.rule - cfg.rule ≤ e.2.prevTime ∨ (e.2.prevTime = -1 ∧ e.2.ruleIter = 1)
  window : e.2.simTime ≤ e.2.prevTime + cfg.hyd

/-- **the passes of a run cover the time axis** (fresh start, any configuration): every time `τ` with `0 ≤ τ ≤` the last
accepted time lies in the window `(prev, accepted]` of a pass of the run, and that pass is not longer than one
hydraulic step -/
theorem run_covered {cfg : Cfg} (hR : 0 < cfg.rule) (hH : 0 < cfg.hyd) (vals : Vals) (hnd : NodupKeys vals) (τ : Int)
    (h0 : 0 ≤ τ) (h2 : τ ≤ (runSim cfg 0 (-1) vals).1.prevTime) :
    ∃ e ∈ runTrace cfg (runFuel cfg (startState cfg 0 (-1) vals).prevTime) ((0 : Int) == 0) (startState cfg 0 (-1) vals),
      PassOfRun cfg e ∧ e.2.prevTime < τ ∧ τ ≤ (presolve cfg false e.2).simTime := by
  have hleft : ¬ NothingLeft cfg 0 := not_nothingLeft_of_le (Or.inl rfl)
  rw [runSim_eq (-1) vals hleft] at h2
  let J : St → Prop := fun s => NodupKeys s.vals ∧
    (s.ruleIter * cfg.rule - cfg.rule ≤ s.prevTime ∨ (s.prevTime = -1 ∧ s.ruleIter = 1)) ∧ s.simTime ≤ s.prevTime + cfg.hyd
  have hJ : ∀ first s, Inv cfg s → J s → (first = true → s.simTime = s.prevTime + 1) → J (stepOnce cfg first s).1 := by
    intro first s inv hj _
    have hs := stepOnce_stepped hR hH first inv
    refine ⟨?_, Or.inl ?_, hs.sim_le⟩
    · rw [stepOnce_fst]; exact hj.1.presolve first
    · have h1 := hs.iter
      have h3 := Int.ediv_mul_le (stepOnce cfg first s).1.prevTime (by omega : cfg.rule ≠ 0)
      rw [h1, add_one_mul]; omega
  have hJ0 : J (startState cfg 0 (-1) vals) := ⟨hnd, Or.inr ⟨rfl, rfl⟩, by show (0 : Int) ≤ -1 + cfg.hyd; omega⟩
  obtain ⟨e, he, hinv, hj, hp, hl, hf⟩ := runTrace_cover hR hH J (fun s => s.simTime = s.prevTime + 1) hJ τ
    (runFuel cfg (startState cfg 0 (-1) vals).prevTime) ((0 : Int) == 0) (startState cfg 0 (-1) vals) []
    (startState_inv hR vals (Or.inl rfl)) hJ0 (fun _ => rfl) (by show (-1 : Int) < τ; omega) h2
  have hsame : presolve cfg e.1 e.2 = presolve cfg false e.2 := by
    cases hb : e.1 with
    | false => rfl
    | true =>
      have := hf hb
      have h2' : e.2 = startState cfg 0 (-1) vals := by rw [this]
      rw [h2']; exact presolve_first_eq rfl
  rw [hsame] at hl
  exact ⟨e, he, ⟨hinv, hj.1, hsame, hj.2.1, hj.2.2⟩, hp, hl⟩

/-- **`no_instant_skipped`, general** — any configuration (one-shot / repeating sim-time controls, daily clock controls,
range conditions, AND rules), fresh start.  Let `τ` be an instant of a simple `=` time control `c` — `thr + k·repeat`
(`k ≥ 0`; period not shorter than the hydraulic step) — with `0 ≤ τ ≤` the last accepted time.  Then the run has a pass in
whose window `τ` lies, `c` is due in it with the backtrack that leads to `τ`, and if the event at `τ` (rules of a
coinciding rule timestep, then all controls of that instant in priority order, on the values at the start of that pass)
changes a tracked value, `τ` IS the accepted time of the pass and the values after it are those of the event — by
`event_value`, on each key the highest-priority writer of that instant -/
theorem no_instant_skipped_general {cfg : Cfg} (hR : 0 < cfg.rule) (hH : 0 < cfg.hyd) (vals : Vals) (hnd : NodupKeys vals)
    (c : Ctl) (hc : c ∈ cfg.presolve) (thr rep : Int) (hcond : c.cond = .sim ⟨.eq, thr, rep⟩) (hper : rep > 0 → cfg.hyd ≤ rep)
    (τ : Int) (hτ : SimInstant thr rep τ) (h0 : 0 ≤ τ) (h2 : τ ≤ (runSim cfg 0 (-1) vals).1.prevTime) :
    ∃ e ∈ runTrace cfg (runFuel cfg (startState cfg 0 (-1) vals).prevTime) ((0 : Int) == 0) (startState cfg 0 (-1) vals),
      PassOfRun cfg e ∧ e.2.prevTime < τ ∧ τ ≤ (presolve cfg false e.2).simTime ∧
      (⟨c, .thenB, e.2.simTime - τ⟩ : Due) ∈ presolveDue cfg false e.2 ∧
      (changed e.2.vals (eventAt cfg e.2.vals e.2.simTime e.2.ruleIter (presolveDue cfg false e.2) τ) = true →
        (presolve cfg false e.2).simTime = τ ∧
          ∀ k, (presolve cfg false e.2).vals.get k = (eventAt cfg e.2.vals e.2.simTime e.2.ruleIter (presolveDue cfg false e.2) τ).get k) := by
  obtain ⟨e, he, P, hp, hl⟩ := run_covered hR hH vals hnd τ h0 h2
  have hcur := (presolve_landed hR false P.inv).le
  have hdue : (⟨c, .thenB, e.2.simTime - τ⟩ : Due) ∈ presolveDue cfg false e.2 := by
    unfold presolveDue
    simp only [Bool.false_eq_true, if_false]
    rw [mem_sortDue]
    apply mem_check_of_eval hc
    rw [hcond]; simp only [Cond.eval]
    exact evalSimTime_instant thr rep _ _ τ hτ hp (by omega) (fun h => by have := hper h; have := P.window; omega)
  refine ⟨e, he, P, hp, hl, hdue, fun hch => ?_⟩
  exact event_accepted hR P.inv P.nodup τ hl (Or.inl ⟨_, hdue, by simp only; omega⟩) hch

/-- the same for a daily clock-time control `AT CLOCKTIME θ` (`first_day = fd`): its instants are
`θ + 86400·d − start_clocktime`, `d ≥ fd` -/
theorem no_instant_skipped_clock {cfg : Cfg} (hR : 0 < cfg.rule) (hH : 0 < cfg.hyd) (hday : cfg.hyd ≤ 86400) (vals : Vals)
    (hnd : NodupKeys vals) (c : Ctl) (hc : c ∈ cfg.presolve) (θ fd : Int) (hcond : c.cond = .tod ⟨.eq, θ, true, fd⟩)
    (hθ0 : 0 ≤ θ) (hθ1 : θ < 86400) (d : Int) (hd : fd ≤ d) (τ : Int) (hτ : τ = θ + 86400 * d - cfg.startClock)
    (h0 : 0 ≤ τ) (h2 : τ ≤ (runSim cfg 0 (-1) vals).1.prevTime) :
    ∃ e ∈ runTrace cfg (runFuel cfg (startState cfg 0 (-1) vals).prevTime) ((0 : Int) == 0) (startState cfg 0 (-1) vals),
      PassOfRun cfg e ∧ e.2.prevTime < τ ∧ τ ≤ (presolve cfg false e.2).simTime ∧
      (⟨c, .thenB, e.2.simTime - τ⟩ : Due) ∈ presolveDue cfg false e.2 ∧
      (changed e.2.vals (eventAt cfg e.2.vals e.2.simTime e.2.ruleIter (presolveDue cfg false e.2) τ) = true →
        (presolve cfg false e.2).simTime = τ ∧
          ∀ k, (presolve cfg false e.2).vals.get k = (eventAt cfg e.2.vals e.2.simTime e.2.ruleIter (presolveDue cfg false e.2) τ).get k) := by
  obtain ⟨e, he, P, hp, hl⟩ := run_covered hR hH vals hnd τ h0 h2
  have hcur := (presolve_landed hR false P.inv).le
  have hdue : (⟨c, .thenB, e.2.simTime - τ⟩ : Due) ∈ presolveDue cfg false e.2 := by
    unfold presolveDue
    simp only [Bool.false_eq_true, if_false]
    rw [mem_sortDue]
    apply mem_check_of_eval hc
    rw [hcond]; simp only [Cond.eval]
    have := evalTod_instant θ fd (e.2.prevTime + cfg.startClock) (e.2.simTime + cfg.startClock) d hθ0 hθ1 hd
      (by omega) (by omega) (by have := P.window; omega)
    rw [this]; congr 2; omega
  refine ⟨e, he, P, hp, hl, hdue, fun hch => ?_⟩
  exact event_accepted hR P.inv P.nodup τ hl (Or.inl ⟨_, hdue, by simp only; omega⟩) hch

/-- **the rule half of the statement** — any configuration, fresh start: every positive rule timestep `r = k·rule_timestep`
(`k ≥ 1`) up to the last accepted time is evaluated in the pass in whose window it lies (`rules_on_positive_grid`: exactly
once), with the rules due at `r` under the repaired window `(ruleWindowLo r, r]` (`rule_eq_premise_window`,
`rule_windows_tile`) applied in priority order (`rules_priority_wins`); and if that — followed by the time controls of a
coinciding instant — changes a tracked value, `r` is an accepted time and the values after the pass are those of the
event.  So a rule ACTS at the first rule timestep at which its premise holds and its action changes its target -/
theorem rule_acts_on_grid {cfg : Cfg} (hR : 0 < cfg.rule) (hH : 0 < cfg.hyd) (vals : Vals) (hnd : NodupKeys vals)
    (k : Int) (hk : 1 ≤ k) (h2 : k * cfg.rule ≤ (runSim cfg 0 (-1) vals).1.prevTime) :
    ∃ e ∈ runTrace cfg (runFuel cfg (startState cfg 0 (-1) vals).prevTime) ((0 : Int) == 0) (startState cfg 0 (-1) vals),
      PassOfRun cfg e ∧ e.2.prevTime < k * cfg.rule ∧ k * cfg.rule ≤ (presolve cfg false e.2).simTime ∧
      isRuleAt cfg e.2.ruleIter (k * cfg.rule) ∧
      (changed e.2.vals (eventAt cfg e.2.vals e.2.simTime e.2.ruleIter (presolveDue cfg false e.2) (k * cfg.rule)) = true →
        (presolve cfg false e.2).simTime = k * cfg.rule ∧
          ∀ key, (presolve cfg false e.2).vals.get key =
            (eventAt cfg e.2.vals e.2.simTime e.2.ruleIter (presolveDue cfg false e.2) (k * cfg.rule)).get key) := by
  have hpos : 0 ≤ k * cfg.rule := Int.mul_nonneg (by omega) (le_of_lt hR)
  obtain ⟨e, he, P, hp, hl⟩ := run_covered hR hH vals hnd (k * cfg.rule) hpos h2
  have hisr : isRuleAt cfg e.2.ruleIter (k * cfg.rule) := by
    refine ⟨?_, Int.mul_emod_left _ _⟩
    -- `_rule_iter` is the first rule timestep after the previous accepted time
    have hit : e.2.ruleIter ≤ k := by
      rcases P.iter with h | ⟨h1, h3⟩
      · by_contra hgt
        have : (k + 1) * cfg.rule ≤ e.2.ruleIter * cfg.rule := Int.mul_le_mul_of_nonneg_right (by omega) (le_of_lt hR)
        rw [add_one_mul] at this; omega
      · omega
    exact Int.mul_le_mul_of_nonneg_right hit (le_of_lt hR)
  exact ⟨e, he, P, hp, hl, hisr, fun hch => event_accepted hR P.inv P.nodup _ hl (Or.inr hisr) hch⟩

/-! ### range conditions along a run -/

/-- **range conditions (and everything else due at the tentative time) at full steps**: when a pass accepts its tentative
time (no partial step) and some control is due there with backtrack 0 — e.g. a control with a `>`, `>=`, `<`, `<=`,
`after`, `before` condition that currently holds — the values after the pass read, on every key, as those of the event at
that time: by `event_value` the target of the range control has its commanded value unless a control of higher
priority due at the same time (or a later registered one of equal priority) writes the same target -/
theorem range_controls_at_full_steps {cfg : Cfg} (hR : 0 < cfg.rule) {s : St} (inv : Inv cfg s) (hnd : NodupKeys s.vals)
    (hfull : (presolve cfg false s).simTime = s.simTime) (d : Due) (hd : d ∈ presolveDue cfg false s) (hb : d.back = 0) :
    ∀ k, (presolve cfg false s).vals.get k =
      (eventAt cfg s.vals s.simTime s.ruleIter (presolveDue cfg false s) s.simTime).get k := by
  have E := presolve_events hR inv hnd
  have hev : (∃ d ∈ presolveDue cfg false s, s.simTime = s.simTime - d.back) ∨ isRuleAt cfg s.ruleIter s.simTime :=
    Or.inl ⟨d, hd, by omega⟩
  cases hc : changed s.vals (presolve cfg false s).vals with
  | true =>
    have := (E.landed hc).2
    simp only at this
    rw [hfull] at this
    exact this
  | false =>
    have hun := E.before s.simTime (le_refl _) (Or.inr hc) hev
    intro k
    rw [changed_false_get hc hnd E.nodup k,
      changed_false_get hun hnd (by
        unfold eventAt
        by_cases h : isRuleAt cfg s.ruleIter s.simTime
        · rw [if_pos h]; exact (hnd.rulesAt cfg _).foldl_run _
        · rw [if_neg h]; exact hnd.foldl_run _) k]

/-- a range control `IF TIME > 100 THEN key 0 := 0` and a time control on another key at 2000 s, 1 h steps -/
def cfgRange : Cfg :=
  { hyd := 3600, rule := 3600, report := 0, duration := 7200, startClock := 0,
    presolve := [⟨0, 3, .sim ⟨.gt, 100, 0⟩, [⟨0, 0⟩], []⟩, ⟨1, 3, .sim ⟨.eq, 2000, 0⟩, [⟨1, 0⟩], []⟩], rules := [] }

/-- the naive statement "at EVERY accepted time inside the interval the target has the commanded value" is FALSE of the
code (and of the model): a `>` / `<` condition carries backtrack 0, so the control is applied at the END of the pass
only; when another control cuts the pass short, the accepted partial time 2000 s lies inside `t > 100` but key 0 still
has its old value — it is set at the next full step (3600 s) -/
def RangeAtEveryAcceptedTime : Prop :=
  ∀ p ∈ (runSim cfgRange 0 (-1) [(0, 1), (1, 1)]).2.map (fun r => (r.time, r.vals.get 0)), p.1 > 100 → p.2 = 0

theorem range_at_every_accepted_time_counterexample : ¬ RangeAtEveryAcceptedTime := by
  intro h
  have hm : ((2000 : Int), (1 : Int)) ∈ (runSim cfgRange 0 (-1) [(0, 1), (1, 1)]).2.map (fun r => (r.time, r.vals.get 0)) := by decide
  have := h _ hm (by decide)
  revert this; decide

example : (runSim cfgRange 0 (-1) [(0, 1), (1, 1)]).2.map (fun r => (r.time, r.vals.get 0, r.vals.get 1)) =
    [(0, 1, 1), (2000, 1, 0), (3600, 0, 0), (7200, 0, 0)] := by decide

/-- the due list is processed in the time order of the instants (backtracks descending) -/
theorem due_in_time_order (cfg : Cfg) (s : St) :
    (presolveDue cfg false s).Pairwise (fun a b => s.simTime - a.back ≤ s.simTime - b.back) := by
  have := sortDue_sorted (check cfg.startClock s.prevTime s.simTime cfg.presolve)
  unfold presolveDue
  simp only [Bool.false_eq_true, if_false]
  exact this.imp (fun {a b} h => by omega)

/-- **(ii) same instant ⇒ priority order.** The controls of the due list that share an instant (same backtrack) are
exactly the due controls with that backtrack, in ascending priority, equal priorities in registration order -/
theorem same_instant_group (cfg : Cfg) (s : St) (b : Int) :
    (presolveDue cfg false s).filter (fun d => d.back == b) =
      sortBy prioLe ((check cfg.startClock s.prevTime s.simTime cfg.presolve).filter (fun d => d.back == b)) := by
  unfold presolveDue
  simp only [Bool.false_eq_true, if_false]
  exact sortDue_group _ b

/-- **(ii) `priority_wins`**, for ALL lists: applying any list of due controls (registration order `l`) in ascending
priority, stably — as `run_sim` does with the rules of one rule timestep and with the pre-solve controls of one
instant — leaves on every key `k` the value written by `winner k l`: a writer of `k` that no writer exceeds in
priority and after which only writers of strictly lower priority are registered; a key without writer keeps its value -/
theorem priority_wins (l : List Due) (v : Vals) (k : Nat) :
    ((sortBy prioLe l).foldl (fun v d => d.run v) v).get k =
      match winner k l with
      | some w => (w.writes k).getD 0
      | none => v.get k := by
  rw [foldl_run_get, lastWriter_sortBy_prio]
  cases winner k l <;> rfl

theorem priority_winner_spec {k : Nat} {l : List Due} {w : Due} (h : winner k l = some w) :
    ∃ l1 l2, l = l1 ++ w :: l2 ∧ (w.writes k).isSome ∧
      (∀ d ∈ l1, (d.writes k).isSome → d.ctl.prio ≤ w.ctl.prio) ∧
      (∀ d ∈ l2, (d.writes k).isSome → d.ctl.prio < w.ctl.prio) :=
  winner_spec h

theorem priority_no_writer {k : Nat} {l : List Due} (h : winner k l = none) : ∀ d ∈ l, d.writes k = none :=
  winner_none h

/-- three controls on key 7 due together: priorities 3, 5, 5 registered in this order — the later priority-5 wins -/
example :
    let mk (id prio : Nat) (x : Int) : Due := ⟨⟨id, prio, .sim ⟨.eq, 0, 0⟩, [⟨7, x⟩], []⟩, .thenB, 0⟩
    Vals.get ((sortBy prioLe [mk 0 5 10, mk 1 3 20, mk 2 5 30]).foldl (fun v d => d.run v) ([] : Vals)) 7 = 30 := by decide

/-- the rules evaluated at one rule timestep are applied in exactly that order -/
theorem rules_priority_wins (cfg : Cfg) (s : St) (k : Nat) :
    (runRules cfg s).vals.get k =
      match winner k (check cfg.startClock (ruleWindowLo cfg s.simTime) s.simTime cfg.rules) with
      | some w => (w.writes k).getD 0
      | none => s.vals.get k := by
  unfold runRules
  simp only
  exact priority_wins _ _ _

/-- **a rule with an `=` time premise acts at the first rule timestep at or after its instant**: at the rule timestep
`r` the rule `IF SYSTEM TIME = c` is due iff `ruleWindowLo r < c ≤ r` (`ruleWindowLo r = r - rule_timestep`, and -1 at the
first rule timestep), whatever hydraulic solutions lie in between -/
theorem rule_eq_premise_window (cfg : Cfg) (s : St) (c : Ctl) (thr : Int) (hc : c.cond = .sim ⟨.eq, thr, 0⟩) (hm : c ∈ cfg.rules) :
    (ruleWindowLo cfg s.simTime < thr ∧ thr ≤ s.simTime) →
      ∃ d ∈ check cfg.startClock (ruleWindowLo cfg s.simTime) s.simTime cfg.rules, d.ctl = c ∧ d.which = .thenB := by
  intro hw
  unfold check
  refine ⟨⟨c, .thenB, s.simTime - thr⟩, ?_, rfl, rfl⟩
  apply List.mem_filterMap.2
  refine ⟨c, hm, ?_⟩
  have : c.cond.eval cfg.startClock (ruleWindowLo cfg s.simTime) s.simTime = (true, some (s.simTime - thr)) := by
    rw [hc]; simp only [Cond.eval]; rw [simTime_eq_spec, if_pos hw]
  rw [this]; rfl

/-- … and outside its window the premise is not due -/
theorem rule_eq_premise_outside (cfg : Cfg) (r thr : Int) (h : ¬ (ruleWindowLo cfg r < thr ∧ thr ≤ r)) :
    ((Cond.sim ⟨.eq, thr, 0⟩).eval cfg.startClock (ruleWindowLo cfg r) r).1 = false := by
  simp only [Cond.eval]; rw [simTime_eq_spec, if_neg h]

/-- **the windows tile the time axis**: every instant `c ≥ 0` lies in the window of exactly one positive rule timestep
`k · rule_timestep` — `c = 0` (and every `c ≤ rule_timestep`) in that of the first.  Together with
`rules_on_positive_grid` (each positive rule timestep up to the current time is evaluated exactly once) an `=` premise is
therefore seen exactly once, at the first rule timestep at or after it. -/
theorem rule_windows_tile (cfg : Cfg) (hR : 0 < cfg.rule) (c : Int) (hc : 0 ≤ c) :
    ∃ k : Int, 1 ≤ k ∧ (ruleWindowLo cfg (k * cfg.rule) < c ∧ c ≤ k * cfg.rule) ∧
      ∀ j : Int, 1 ≤ j → (ruleWindowLo cfg (j * cfg.rule) < c ∧ c ≤ j * cfg.rule) → j = k := by
  have hlo : ∀ j : Int, 1 ≤ j → ruleWindowLo cfg (j * cfg.rule) = if j ≤ 1 then -1 else j * cfg.rule - cfg.rule := by
    intro j hj
    unfold ruleWindowLo
    by_cases h1 : j ≤ 1
    · have : j = 1 := by omega
      subst this; simp
    · have : 2 * cfg.rule ≤ j * cfg.rule := Int.mul_le_mul_of_nonneg_right (by omega) (le_of_lt hR)
      rw [if_neg (by omega), if_neg h1]
  by_cases hsmall : c ≤ cfg.rule
  · refine ⟨1, le_refl _, ?_, ?_⟩
    · rw [hlo 1 (le_refl _)]; simp; omega
    · intro j hj hw
      rw [hlo j hj] at hw
      by_contra hne
      have h2 : ¬ j ≤ 1 := by omega
      rw [if_neg h2] at hw
      have : 2 * cfg.rule ≤ j * cfg.rule := Int.mul_le_mul_of_nonneg_right (by omega) (le_of_lt hR)
      omega
  · -- c > rule: k = ⌈c / rule⌉ ≥ 2
    let q := (c + cfg.rule - 1) / cfg.rule
    have hq1 : q * cfg.rule ≤ c + cfg.rule - 1 := Int.ediv_mul_le _ (by omega)
    have hq2 : c + cfg.rule - 1 < (q + 1) * cfg.rule := Int.lt_ediv_add_one_mul_self _ hR
    have hq2' : (q + 1) * cfg.rule = q * cfg.rule + cfg.rule := by rw [add_one_mul]
    have hqge : 2 ≤ q := by
      by_contra hlt
      have : q * cfg.rule ≤ 1 * cfg.rule := Int.mul_le_mul_of_nonneg_right (by omega) (le_of_lt hR)
      omega
    refine ⟨q, by omega, ?_, ?_⟩
    · rw [hlo q (by omega), if_neg (by omega)]; omega
    · intro j hj hw
      rw [hlo j hj] at hw
      by_cases hj1 : j ≤ 1
      · rw [if_pos hj1] at hw
        have : j = 1 := by omega
        subst this; omega
      · rw [if_neg hj1] at hw
        by_contra hne
        rcases lt_or_gt_of_ne hne with hlt | hgt
        · have : (j + 1) * cfg.rule ≤ q * cfg.rule := Int.mul_le_mul_of_nonneg_right (by omega) (le_of_lt hR)
          rw [add_one_mul] at this; omega
        · have : (q + 1) * cfg.rule ≤ j * cfg.rule := Int.mul_le_mul_of_nonneg_right (by omega) (le_of_lt hR)
          omega

example : ruleWindowLo cfgEx 360 = -1 ∧ ruleWindowLo cfgEx 720 = 360 := by decide

/-- the window the code used before the repair — the previous SOLVE time — misses the premise when a control makes
the simulator solve between the instant and the next rule timestep: rule `SYSTEM TIME = 3:41`, rule step 30 min, a
simple control at 3:53 (solve at 13980 s); at the rule timestep 14400 s the old window is (13980, 14400] -/
theorem old_rule_window_misses :
    ((Cond.sim ⟨.eq, 13260, 0⟩).eval 0 13980 14400).1 = false ∧ ((Cond.sim ⟨.eq, 13260, 0⟩).eval 0 (14400 - 1800) 14400).1 = true := by
  decide

/-- the directed case on the (repaired) model: the rule opens key 0 at 14400 s although the run stops at 13980 s -/
def cfgRuleEq : Cfg :=
  { hyd := 3600, rule := 1800, report := 0, duration := 21600, startClock := 0,
    presolve := [⟨1, 3, .sim ⟨.eq, 13980, 0⟩, [⟨1, 0⟩], []⟩],
    rules := [⟨0, 3, .sim ⟨.eq, 13260, 0⟩, [⟨0, 1⟩], []⟩] }

example : (runSim cfgRuleEq 0 (-1) [(0, 0), (1, 1)]).2.map (fun r => (r.time, r.vals.get 0)) =
    [(0, 0), (3600, 0), (7200, 0), (10800, 0), (13980, 0), (14400, 1), (18000, 1), (21600, 1)] := by decide

/-- **(iii) `rules_on_positive_grid`.** For every configuration and every legitimate start, the times at which
`run_sim` evaluated the rules are `k · rule_timestep` with `k ≥ 1` (never `t = 0`, never before the first hydraulic
solution), strictly increasing (each rule timestep at most once), and none is later than the last accepted time -/
theorem rules_on_positive_grid {cfg : Cfg} (hR : 0 < cfg.rule) (hH : 0 < cfg.hyd) {simTime prevTime : Int} (vals : Vals)
    (h : StartOK simTime prevTime) :
    let s := (runSim cfg simTime prevTime vals).1
    (∀ r ∈ s.ruleLog, ∃ k : Int, 1 ≤ k ∧ r = k * cfg.rule) ∧ s.ruleLog.Pairwise (· < ·) ∧
      (∀ r ∈ s.ruleLog, r ≤ s.prevTime) := by
  by_cases hn : NothingLeft cfg simTime
  · rw [runSim_done prevTime vals hn]
    have : (startState cfg simTime prevTime vals).ruleLog = [] := rfl
    simp [this]
  rw [runSim_eq prevTime vals hn]
  have hran := runLoop_ran hR hH ((cfg.duration - (startState cfg simTime prevTime vals).prevTime).toNat + 1)
    (simTime == 0) _ [] (startState_inv hR vals h)
  have heq : runFuel cfg (startState cfg simTime prevTime vals).prevTime =
      (cfg.duration - (startState cfg simTime prevTime vals).prevTime).toNat + 1 + 1 := rfl
  rw [heq]
  refine ⟨?_, hran.inv.rl.2.2, hran.ruleLog_le hR⟩
  intro r hr
  obtain ⟨k, hk1, _, hk3⟩ := hran.inv.rl.2.1 r hr
  exact ⟨k, hk1, hk3⟩

example : (runSim cfgEx 0 (-1) [(0, 1)]).1.ruleLog.take 3 = [360, 720, 1080] := by decide

/-- the rule of `cfgEx` acts at the first positive multiple of 360 s at which `t ≥ 9000` holds, the time control at
its instant 5400 s (a partial step): the accepted times of the run -/
example : (runSim cfgEx 0 (-1) [(0, 1)]).2.map (fun r => (r.time, r.vals.get 0)) =
    [(0, 1), (3600, 1), (5400, 0), (7200, 0), (9000, 1), (10800, 1), (14400, 1)] := by decide

/-- **(iv) fuel sufficiency of the pre-solve loop**: any extra fuel gives the same state, i.e. the `while` loop is left
because its condition is false or through a `break`, never because the model's fuel ran out -/
theorem presolve_fuel_sufficient {cfg : Cfg} (hR : 0 < cfg.rule) (first : Bool) {s : St} (inv : Inv cfg s) (extra : Nat) :
    presolveLoop cfg s.vals (presolveDue cfg first s) (presolveFuel cfg (presolveDue cfg first s) s + extra) 0 s =
      presolve cfg first s :=
  presolve_fuel_irrelevant hR first inv extra

/-- **(iv) fuel sufficiency of `run_sim`'s loop**: with `runFuel` or more the result is the same, i.e. the loop ends
because `sim_time > duration` -/
theorem runSim_fuel_sufficient {cfg : Cfg} (hR : 0 < cfg.rule) (hH : 0 < cfg.hyd) {simTime prevTime : Int} (vals : Vals)
    (h : StartOK simTime prevTime) (hleft : ¬ NothingLeft cfg simTime) (extra : Nat) :
    runLoop cfg (runFuel cfg (startState cfg simTime prevTime vals).prevTime + extra) (simTime == 0)
        (startState cfg simTime prevTime vals) [] = runSim cfg simTime prevTime vals := by
  rw [runSim_eq prevTime vals hleft]
  exact runLoop_fuel hR hH _ _ _ _ _ (startState_inv hR vals h) (by simp only [runFuel, runMeasure]; omega)
    (by simp only [runFuel, runMeasure]; omega)

example : ¬ NothingLeft cfgEx 0 ∧ ¬ NothingLeft cfgEx 7200 ∧ NothingLeft cfgEx 18000 := by decide

/-- the hypothesis `NodupKeys vals` of the run-level theorems holds of every initial state built by writing values
key by key (`init` of the driver, `_user_status` etc. of a model): no hypothesis is left to be checked per case -/
theorem initial_values_nodup (as : List Action) : NodupKeys (runActions [] as) :=
  NodupKeys.runActions (by unfold NodupKeys; simp) as

/-- **(v) `value_persists`**: a key written by no control due in this pass and by no rule keeps its value -/
theorem value_persists (cfg : Cfg) (first : Bool) (s : St) (k : Nat)
    (hd : ∀ d ∈ presolveDue cfg first s, d.writes k = none) (hr : ∀ c ∈ cfg.rules, c.silentOn k) :
    (presolve cfg first s).vals.get k = s.vals.get k :=
  presolve_frame cfg first s k hd hr

/-- … in particular a key that no registered control or rule can write is never touched -/
theorem value_persists_static (cfg : Cfg) (first : Bool) (s : St) (k : Nat)
    (hp : ∀ c ∈ cfg.presolve, c.silentOn k) (hr : ∀ c ∈ cfg.rules, c.silentOn k) :
    (presolve cfg first s).vals.get k = s.vals.get k :=
  presolve_frame_static cfg first s k hp hr

example : ∀ c ∈ cfgEx.presolve, c.silentOn 5 := by
  intro c hc
  simp only [cfgEx, List.mem_singleton] at hc
  subst hc
  exact ⟨rfl, rfl⟩

end Wntr.C04
