/-
C17 — EPANET unit conversions are inverses, linear, and use the physical definitions.

All theorems quantify over the table `Gen.table` that the translator regenerates from the current
`wntr/epanet/util.py` on every run (every flow unit × parameter × mass unit × reaction order ×
Darcy flag) and over EVERY rational value `x`.
-/
import WntrModel.Model.Units
import WntrModel.Gen.Units
import Mathlib.Tactic.Ring
import Mathlib.Tactic.FieldSimp
import Mathlib.Tactic.Linarith
import Mathlib.Algebra.Order.Field.Rat
import Mathlib.Algebra.Order.AbsoluteValue.Basic

namespace Wntr.Units

/-! ### generic facts about a chain of `* c` / `/ c` steps -/

theorem Step.apply_eq (s : Step) (x : Rat) : s.apply x = x * s.factor := by
  cases s <;> simp [Step.apply, Step.factor, div_eq_mul_inv]

theorem foldl_apply_eq (l : List Step) (x f : Rat) :
    l.foldl (fun acc s => s.apply acc) (x * f) = x * l.foldl (fun f s => f * s.factor) f := by
  induction l generalizing f with
  | nil => rfl
  | cons s t ih =>
    rw [List.foldl_cons, List.foldl_cons, Step.apply_eq, mul_assoc]
    exact ih (f * s.factor)

/-- a conversion chain is multiplication by one number, for every value -/
theorem applySteps_eq_mul_factor (l : List Step) (x : Rat) : applySteps l x = x * factor l := by
  have := foldl_apply_eq l x 1
  simpa [applySteps, factor] using this

/-- **linearity** of every conversion chain (hence of every `to_si` / `from_si`) -/
theorem applySteps_linear (l : List Step) (a b x y : Rat) :
    applySteps l (a * x + b * y) = a * applySteps l x + b * applySteps l y := by
  simp only [applySteps_eq_mul_factor]; ring

/-! ### the traced table -/

/-- relative tolerance for "inverse": covers a rewrite such as `* (1/c)` for `/ c` (≤ 1 ulp each) -/
def epsInv : Rat := 1 / 10 ^ 14

def Entry.invOk (e : Entry) : Bool :=
  let p := factor e.toSteps * factor e.fromSteps
  decide (1 - epsInv ≤ p) && decide (p ≤ 1 + epsInv)

theorem table_inverse_factors : Gen.table.all Entry.invOk = true := by decide +kernel

def Entry.key (e : Entry) : Bool × Nat × Nat × Nat × Nat × Bool := (e.hyd, e.param, e.unit, e.mass, e.order, e.dw)

def allUnits : List Nat := [0,1,2,3,4,5,6,7,8,9,11]

/-- the full quantifier of the property: every HydParam × flow unit × Darcy flag, then every
QualParam × flow unit × mass unit × reaction order 0,1,2 -/
def expectedKeys : List (Bool × Nat × Nat × Nat × Nat × Bool) :=
  ([0,1,2,3,5,6,7,8,9,15,17,31,32,33,34].flatMap fun p => allUnits.flatMap fun u =>
      [false, true].map fun dw => (true, p, u, 0, 0, dw)) ++
  ([4,10,13,35,36,37,38,39].flatMap fun p => allUnits.flatMap fun u =>
      [1,2,3,4].flatMap fun m => [0,1,2].map fun o => (false, p, u, m, o, false))

/-- every one of the 1386 combinations is present in the traced table, once (none is skipped) -/
theorem table_complete : Gen.table.map Entry.key = expectedKeys := by decide +kernel

theorem abs_le_of_bounds {p x : Rat} (h1 : 1 - epsInv ≤ p) (h2 : p ≤ 1 + epsInv) :
    |x * p - x| ≤ epsInv * |x| := by
  have hx : x * p - x = x * (p - 1) := by ring
  rw [hx, abs_mul, mul_comm]
  apply mul_le_mul_of_nonneg_right _ (abs_nonneg x)
  rw [abs_le]; constructor <;> linarith

/-- **from_si ∘ to_si = id** for every table entry and EVERY value, up to the rounding of the constants -/
theorem fromSI_toSI (e : Entry) (he : e ∈ Gen.table) (x : Rat) :
    |e.fromSI (e.toSI x) - x| ≤ epsInv * |x| := by
  have h := List.all_eq_true.mp table_inverse_factors e he
  simp only [Entry.invOk, Bool.and_eq_true, decide_eq_true_eq] at h
  simp only [Entry.fromSI, Entry.toSI, applySteps_eq_mul_factor, mul_assoc]
  exact abs_le_of_bounds h.1 h.2

/-- **to_si ∘ from_si = id** likewise -/
theorem toSI_fromSI (e : Entry) (he : e ∈ Gen.table) (x : Rat) :
    |e.toSI (e.fromSI x) - x| ≤ epsInv * |x| := by
  have h := List.all_eq_true.mp table_inverse_factors e he
  simp only [Entry.invOk, Bool.and_eq_true, decide_eq_true_eq] at h
  simp only [Entry.fromSI, Entry.toSI, applySteps_eq_mul_factor, mul_assoc]
  rw [mul_comm (factor e.fromSteps)]
  exact abs_le_of_bounds h.1 h.2

theorem toSI_linear (e : Entry) (a b x y : Rat) :
    e.toSI (a * x + b * y) = a * e.toSI x + b * e.toSI y := applySteps_linear _ a b x y

theorem fromSI_linear (e : Entry) (a b x y : Rat) :
    e.fromSI (a * x + b * y) = a * e.fromSI x + b * e.fromSI y := applySteps_linear _ a b x y

/-! ### the physical definitions (hand-written specification, from the EPANET 2.2 manual, units table) -/

def ft : Rat := 3048 / 10000          -- 1 ft = 0.3048 m
def gal : Rat := 3785411784 / 10 ^ 12 -- 1 US gal = 3.785411784 L
def impGal : Rat := 454609 / 10 ^ 8   -- 1 Imperial gal = 4.54609 L
def psiPerFt : Rat := 4333 / 10000    -- 1 psi = 0.3048/0.4333 m of water
def hp : Rat := 745699872 / 10 ^ 6    -- 1 hp = 745.699872 W

def traditional (u : Nat) : Bool := u ≤ 4            -- CFS GPM MGD IMGD AFD
def metric (u : Nat) : Bool := 5 ≤ u && u ≤ 9        -- LPS LPM MLD CMH CMD   (11 = SI)

def flowSpec : Nat → Rat
  | 0 => ft ^ 3
  | 1 => gal / 60
  | 2 => gal * 10 ^ 6 / 86400
  | 3 => impGal * 10 ^ 6 / 86400
  | 4 => 43560 * ft ^ 3 / 86400
  | 5 => 1 / 1000
  | 6 => 1 / 60000
  | 7 => 1000 / 86400
  | 8 => 1 / 3600
  | 9 => 1 / 86400
  | _ => 1

def massSpec : Nat → Rat
  | 1 => 1 / 10 ^ 6
  | 2 => 1 / 10 ^ 9
  | 3 => 1 / 1000
  | _ => 1

/-- the to-SI factor the documentation prescribes; `none` = compared through its square (emitter) -/
def spec (e : Entry) : Option Rat :=
  let t := traditional e.unit
  let m := metric e.unit
  if e.hyd then
    match e.param with
    | 1 | 7 => some (flowSpec e.unit)                                   -- Demand, Flow
    | 31 => none                                                         -- EmitterCoeff
    | 6 => some (if t then 254 / 10000 else if m then 1 / 1000 else 1)   -- PipeDiameter: in / mm
    | 32 => some (if e.dw then (if t then ft / 1000 else if m then 1 / 1000 else 1) else 1)
    | 0 | 2 | 5 | 8 | 33 => some (if t then ft else 1)                   -- Elevation Head Length Velocity TankDiameter
    | 9 => some (1 / 1000)                                               -- HeadLoss per 1000
    | 34 => some 3600000                                                 -- kWh
    | 15 => some (if t then hp else if m then 1000 else 1)               -- hp / kW
    | 3 => some (if t then ft / psiPerFt else 1)                         -- psi / m
    | 17 => some (if t then ft ^ 3 else 1)                               -- ft3 / m3
    | _ => some 0
  else
    match e.param with
    | 35 | 4 | 10 => some (massSpec e.mass * 1000)                       -- mass/L -> kg/m3
    | 13 => some (massSpec e.mass * 1000 / 86400)
    | 38 => some (massSpec e.mass / 60)
    | 36 => some (if e.order = 1 then 1 / 86400 else 1)
    | 37 => some (if e.order = 0 then massSpec e.mass * (if t then ft ^ 2 else 1) / 86400
                  else if e.order = 1 then (if t then ft else 1) / 86400 else 1)
    | 39 => some 3600
    | _ => some 0

def relTol : Rat := 1 / 10 ^ 5

def relClose (a b : Rat) : Bool := decide (b - relTol * b ≤ a) && decide (a ≤ b + relTol * b)

def Entry.defOk (e : Entry) : Bool :=
  match spec e with
  | some s => relClose (factor e.toSteps) s
  | none =>  -- emitter: (factor / flow)^2 = psi-per-ft / ft for traditional units, 1 otherwise
    relClose ((factor e.toSteps) ^ 2) ((flowSpec e.unit) ^ 2 * (if traditional e.unit then psiPerFt / ft else 1))

/-- **the factors are the physical definitions**, US units for CFS/GPM/MGD/IMGD/AFD, metric for
LPS/LPM/MLD/CMH/CMD, none for SI — for every parameter, mass unit, order and flag -/
theorem factors_are_definitions : Gen.table.all Entry.defOk = true := by decide +kernel

theorem toSI_is_definition (e : Entry) (he : e ∈ Gen.table) (s : Rat) (hs : spec e = some s) (x : Rat) :
    |e.toSI x - x * s| ≤ relTol * s * |x| ∨ s < 0 := by
  by_cases hneg : s < 0
  · exact Or.inr hneg
  left
  have h := List.all_eq_true.mp factors_are_definitions e he
  simp only [Entry.defOk, hs, relClose, Bool.and_eq_true, decide_eq_true_eq] at h
  simp only [Entry.toSI, applySteps_eq_mul_factor]
  have hx : x * factor e.toSteps - x * s = x * (factor e.toSteps - s) := by ring
  rw [hx, abs_mul, mul_comm]
  apply mul_le_mul_of_nonneg_right _ (abs_nonneg x)
  rw [abs_le]; constructor <;> linarith [h.1, h.2]

/-! ### non-vacuity: the table really contains non-trivial chains (GPM pressure: psi -> m);
`chunk1` is a segment of `Gen.table` by definition -/
example : (Gen.chunk1.filter (fun e => e.sameKey true 3 1 0 0 false)).map
    (fun e => (spec e, e.toSteps.length)) = [(some (ft / psiPerFt), 1)] := by decide +kernel

end Wntr.Units
