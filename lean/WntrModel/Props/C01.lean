/-
C01 — mass is conserved at every node at every reported time step; DD demand formula.

* `Gen/RowsC01.lean` is REGENERATED on every run from the `mass_balance[j]` / `pdd_mass_balance[j]` rows the current code
  builds for the zoo network (parallel and anti-parallel links, links into and out of a tank and a reservoir, several
  pumps / valves per junction, leaks on / off, DD and PDD) together with the zoo's LINK TABLE (start / end node names as
  stored on the link objects).  `gen_rows_are_massBalance` proves every generated row has exactly the signed leaves
  `+D − Σ_{end = j} q + Σ_{start = j} q (+ leak_rate iff leak_status)` of that table: a sign, an INLET/OUTLET swap, a
  dropped link or leak term in `constraint.py` / `model.py` breaks it.
* the theorems below hold for EVERY junction, adjacency list, leak flag and leaf values.
* `store_results_in_network` (what is reported) and `expected_demand_param` are transliterated in `Model/LinkRows.lean`;
  `Pattern.at / TimeSeries.at / Demands.at` are M2 (`Model/Pattern.lean`).
Numerics are assumed through the residual bound only: the Newton solver returns `converged` iff `max |row| < TOL`.
-/
import WntrModel.Lemmas.LinkRowsReal
import WntrModel.Gen.RowsC01
import WntrModel.Gen.UpdaterC02
import WntrModel.Gen.StoreC01

set_option linter.unusedSimpArgs false
set_option linter.unusedVariables false

namespace Wntr.LinkRows
open Wntr.Aml Wntr.Rows Wntr.Gen Wntr.Pattern

/-! ### 1. the tie: generated rows are the mass balance of the zoo's link table -/

/-- every `mass_balance[j]` (DD) and `pdd_mass_balance[j]` (PDD) row the current code builds has exactly the signed leaves
`+demand − Σ flow[l] (l.end = j) + Σ flow[l] (l.start = j) (+ leak_rate[j] iff leak_status)`; the demand leaf is the
parameter `expected_demand[j]` in DD mode and the variable `demand[j]` in PDD mode -/
theorem gen_rows_are_massBalance :
    RowsC01.DD.rows.all (balRowOk RowsC01.links RowsC01.DD.varNames RowsC01.DD.paramNames false) = true ∧
    RowsC01.PDD.rows.all (balRowOk RowsC01.links RowsC01.PDD.varNames RowsC01.PDD.paramNames true) = true := by
  constructor <;> decide +kernel

/-- what the zoo covers: parallel links, anti-parallel links, a link whose END node is a tank, one whose START node is a
tank, one ending in a reservoir, junctions with ≥ 3 links in and ≥ 3 out, leak on and off, all 12 junctions in both modes -/
theorem gen_zoo_covers :
    (RowsC01.links.any fun a => RowsC01.links.any fun b => a.name != b.name && a.start == b.start && a.stop == b.stop) = true ∧
    (RowsC01.links.any fun a => RowsC01.links.any fun b => a.start == b.stop && a.stop == b.start) = true ∧
    (RowsC01.links.any fun a => a.stop == "T1") = true ∧ (RowsC01.links.any fun a => a.start == "T1") = true ∧
    (RowsC01.links.any fun a => a.stop == "R2") = true ∧
    (RowsC01.DD.rows.any fun r => (RowsC01.links.filter fun l => l.stop == r.junction).length ≥ 3 &&
        (RowsC01.links.filter fun l => l.start == r.junction).length ≥ 3) = true ∧
    (RowsC01.DD.rows.any fun r => r.leakStatus) = true ∧ (RowsC01.DD.rows.any fun r => !r.leakStatus) = true ∧
    RowsC01.DD.rows.length = 12 ∧ RowsC01.PDD.rows.length = 12 := by
  decide +kernel

/-- the adjacency the rows are built from is `get_links_for_node`: every iteration over a node's usage records filters the record by its
TYPE string against exactly {Pipe, Pump, Valve} (ast).  The zoo has water-quality sources named like a link that touches their node
(`Popen`@J1, `Pback`@J2, `Ptank`@T1, `Pintank`@J4) and like the node (`J3`@J3), a pattern named like a link and a curve named like
a node: `gen_rows_are_massBalance` shows none of them enters a balance row. -/
theorem links_for_node_filters_by_type :
    RowsC01.linksForNodeTypes = ["Pipe", "Pump", "Valve"] ∧ RowsC01.linksForNodeBranches = RowsC01.linksForNodeFilteredBranches ∧
    3 ≤ RowsC01.linksForNodeBranches := by
  decide

/-! ### 2. `massBalance_row_shape`: what the row evaluates to, for every adjacency -/

/-- the row built by `mass_balance_constraint.build` / `pdd_mass_balance_constraint.build` for ANY demand leaf, ANY lists
of inlet / outlet links (parallel links and repetitions included) and leak flag evaluates to
`D − Σ_{INLET} q + Σ_{OUTLET} q + [leak]·L` -/
theorem massBalance_row_shape (env : Env ℝ) (d : Expr) (ins outs : List Nat) (leak : Option Nat) :
    eval realOps env (massBalanceRow d ins outs leak) =
      eval realOps env d - (ins.map env.var).sum + (outs.map env.var).sum +
        (match leak with | some k => env.var k | none => 0) := by
  cases leak with
  | none => simp only [massBalanceRow, foldl_add_eval, foldl_sub_eval, add_zero]
  | some k => simp only [massBalanceRow, eval, Ops.bin, realOps_add, foldl_add_eval, foldl_sub_eval]

theorem sum_map_neg (env : Env ℝ) (l : List Nat) :
    (l.map (fun i => termVal env (false, i, true))).sum = -(l.map env.var).sum := by
  induction l with
  | nil => simp
  | cons a t ih => rw [List.map_cons, List.sum_cons, ih, List.map_cons, List.sum_cons]; simp [termVal]; ring

theorem sum_map_pos (env : Env ℝ) (l : List Nat) :
    (l.map (fun i => termVal env (false, i, false))).sum = (l.map env.var).sum := by
  induction l with
  | nil => simp
  | cons a t ih => rw [List.map_cons, List.sum_cons, ih, List.map_cons, List.sum_cons]; simp [termVal]

theorem balanceTerms_sum (env : Env ℝ) (d : Bool × Nat) (ins outs : List Nat) (leak : Option Nat) :
    ((balanceTerms d ins outs leak).map (termVal env)).sum =
      (if d.1 then env.param d.2 else env.var d.2) - (ins.map env.var).sum + (outs.map env.var).sum +
        (match leak with | some k => env.var k | none => 0) := by
  have hneg : (ins.map (fun l => termVal env (false, l, true))).sum = -(ins.map env.var).sum := sum_map_neg env ins
  have hpos : (outs.map (fun l => termVal env (false, l, false))).sum = (outs.map env.var).sum := sum_map_pos env outs
  have hd : termVal env (d.1, d.2, false) = (if d.1 then env.param d.2 else env.var d.2) := by simp [termVal]
  cases leak with
  | none =>
    simp only [balanceTerms, List.map_append, List.sum_append, List.map_map, List.map_cons, List.map_nil,
      List.sum_cons, List.sum_nil, Function.comp_def, hneg, hpos, hd]
    ring
  | some k =>
    have hk : termVal env (false, k, false) = env.var k := by simp [termVal]
    simp only [balanceTerms, List.map_append, List.sum_append, List.map_map, List.map_cons, List.map_nil,
      List.sum_cons, List.sum_nil, Function.comp_def, hneg, hpos, hd, hk]
    ring

/-- **soundness of the generated-row check**: a row accepted by `balRowOk` evaluates, at every environment, to the mass
balance of the junction's incidence in the link table, with the leak term present iff `leak_status` -/
theorem balRowOk_sound (env : Env ℝ) (links : List ZLink) (vars params : List String) (pdd : Bool) (r : ZBalRow)
    (h : balRowOk links vars params pdd r = true) :
    ∃ d ins outs leak, zooIncidence links vars params pdd r = some (d, ins, outs, leak) ∧
      eval realOps env r.expr =
        (if d.1 then env.param d.2 else env.var d.2) - (ins.map env.var).sum + (outs.map env.var).sum +
          (match leak with | some k => env.var k | none => 0) := by
  unfold balRowOk at h
  cases hz : zooIncidence links vars params pdd r with
  | none => simp [hz] at h
  | some q =>
    obtain ⟨d, ins, outs, leak⟩ := q
    cases hl : linTerms r.expr false with
    | none => simp [hz, hl] at h
    | some l =>
      simp only [hz, hl] at h
      refine ⟨d, ins, outs, leak, rfl, ?_⟩
      have hp : l.Perm (balanceTerms d ins outs leak) := List.isPerm_iff.1 h
      have hs := linTerms_sound env r.expr false l hl
      simp only [Bool.false_eq_true, if_false, one_mul] at hs
      rw [hs, (hp.map (termVal env)).sum_eq, balanceTerms_sum]

/-- the leak leaf is part of the incidence exactly when the junction's `leak_status` is set -/
theorem zooIncidence_leak (links : List ZLink) (vars params : List String) (pdd : Bool) (r : ZBalRow)
    (d : Bool × Nat) (ins outs : List Nat) (leak : Option Nat)
    (h : zooIncidence links vars params pdd r = some (d, ins, outs, leak)) : leak.isSome = r.leakStatus := by
  unfold zooIncidence at h
  simp only at h
  split at h
  · rename_i d' ins' outs' leak' h1 h2 h3 h4
    simp only [Option.some.injEq, Prod.mk.injEq] at h
    obtain ⟨-, -, -, rfl⟩ := h
    by_cases hs : r.leakStatus = true
    · simp only [hs, if_true, Option.map_eq_some_iff] at h4
      obtain ⟨k, -, rfl⟩ := h4
      simp [hs]
    · have hf : r.leakStatus = false := by simpa using hs
      simp only [hf, Bool.false_eq_true, if_false, Option.some.injEq] at h4
      subst h4
      simp [hf]
  · simp at h

/-! ### 3. `balance_of_small_residual`: what the solver's residual bound gives on the REPORTED values -/

/-- if the row of junction `j` has `|residual| < tol` at the solution `env` (the only fact assumed of the Newton solver), then
the values `store_results_in_network` copies into the network and `save_results` reports satisfy
`|Σ_in q − Σ_out q − demand_j − leak_demand_j| < tol`, where `demand_j` is the `demand` variable in PDD mode and the requested
demand parameter in DD mode, and `leak_demand_j` is `leak_rate` when `leak_status` and 0 otherwise — the row contains the leak
variable under the same flag. -/
theorem balance_of_small_residual (env : Env ℝ) (pdd : Bool) (dIdx : Nat) (ins outs : List Nat) (k : Nat)
    (leakStatus : Bool) (tol : ℝ)
    (h : |eval realOps env (massBalanceRow (if pdd then .var dIdx else .param dIdx) ins outs
            (if leakStatus then some k else none))| < tol) :
    |(ins.map env.var).sum - (outs.map env.var).sum
        - (junctionStored pdd (env.var dIdx) (env.param dIdx) leakStatus (env.var k) 0).1
        - (junctionStored pdd (env.var dIdx) (env.param dIdx) leakStatus (env.var k) 0).2| < tol := by
  rw [massBalance_row_shape] at h
  rw [← abs_neg]
  cases pdd <;> cases leakStatus <;> simp only [junctionStored, eval, Bool.false_eq_true, if_false, if_true] at h ⊢ <;>
    (convert h using 2; ring)

/-- DD: the reported demand IS the requested-demand parameter; PDD: the demand variable; no leak reported when the flag is off -/
theorem junctionStored_spec (dv ex lr : ℝ) :
    (junctionStored false dv ex true lr 0).1 = ex ∧ (junctionStored true dv ex true lr 0).1 = dv ∧
    (junctionStored true dv ex false lr 0).2 = 0 ∧ (junctionStored false dv ex true lr 0).2 = lr := by
  simp [junctionStored]

/-! ### 4. tanks and reservoirs: reported demand = net inflow (exact) -/

/-- `store_results_in_network`: tank demand = Σ inflow − Σ outflow − leak demand, for every adjacency; hence the node balance
`Σ_in − Σ_out − demand − leak_demand` of a tank is exactly 0 -/
theorem tank_demand_is_net_inflow (ins outs : List Rat) (leakStatus : Bool) (leakRate : Rat) :
    tankDemand ins outs leakStatus leakRate = sumRat ins - sumRat outs - (if leakStatus then leakRate else 0) ∧
    nodeBalanceResidual ins outs (tankDemand ins outs leakStatus leakRate) (if leakStatus then leakRate else 0) = 0 := by
  refine ⟨rfl, ?_⟩
  simp only [nodeBalanceResidual, tankDemand]
  cases leakStatus <;> simp

/-- reservoirs: demand = Σ inflow − Σ outflow, leak demand 0 -/
theorem reservoir_demand_is_net_inflow (ins outs : List Rat) :
    reservoirDemand ins outs = sumRat ins - sumRat outs ∧
    nodeBalanceResidual ins outs (reservoirDemand ins outs) 0 = 0 := by
  refine ⟨rfl, ?_⟩
  simp only [nodeBalanceResidual, reservoirDemand]; ring

/-- the executable oracle decides the documented inequality -/
theorem nodeBalanceOk_iff (tol slack : Rat) (ins outs : List Rat) (demand leak : Rat) :
    nodeBalanceOk tol slack ins outs demand leak = true ↔
      absRat (nodeBalanceResidual ins outs demand leak) ≤
        tol + slack * (sumRat (ins.map absRat) + sumRat (outs.map absRat) + absRat demand + absRat leak) := by
  simp [nodeBalanceOk, nodeBalanceResidual]

/-! ### 5. `dd_demand_formula` -/

/-- pattern multiplier of one demand entry at pattern time `t`: 1 without a pattern (or with an empty one) -/
def entryMult (d : TS) (step : Int) (interp : Bool) (t : Int) : Rat :=
  match d.pat with
  | none => 1
  | some p => if p.mults.length = 0 then 1 else p.at step interp t

theorem TS_at_eq (d : TS) (step : Int) (interp : Bool) (t : Int) :
    d.at step interp t = d.base * entryMult d step interp t := by
  unfold TS.at entryMult
  cases d.pat with
  | none => simp
  | some p => by_cases h : p.mults.length = 0 <;> simp [h]

theorem demandsAt_all (l : List TS) (step : Int) (interp : Bool) (mult : Rat) (t : Int) (acc : Rat) :
    l.foldl (fun acc d => if catSelected none d then acc + d.at step interp t * mult else acc) acc =
      acc + (l.map (fun d => d.base * entryMult d step interp t * mult)).sum := by
  induction l generalizing acc with
  | nil => simp
  | cons d rest ih =>
    rw [List.foldl_cons, ih]
    simp only [catSelected, if_true, List.map_cons, List.sum_cons, TS_at_eq]
    ring

/-- **DD demand formula**: the value `expected_demand_param` loads before each solve — and `store_results_in_network` reports as
the junction's demand in demand-driven mode — is `Σ_k base_k · mult_k(t + pattern_start) · demand_multiplier` over ALL demand
entries (every category), for every number of entries, pattern length, pattern step, pattern start, simulation time. -/
theorem dd_demand_formula (l : List TS) (patStep : Int) (interp : Bool) (patStart simTime : Int) (dm : Rat) :
    expectedDemand l patStep interp patStart simTime dm =
      (l.map (fun d => d.base * entryMult d patStep interp (simTime + patStart) * dm)).sum := by
  simp only [expectedDemand, demandsAt, demandsAt_all, zero_add]

/-- the multiplier of a wrapping pattern with ≥ 2 entries and no interpolation: entry `⌊t / step⌋ mod n` -/
theorem pattern_mult_spec (p : Pat) (step : Int) (t : Int) (hn : 2 ≤ p.mults.length) (hw : p.wrap = true) :
    p.at step false t = p.get ((t / step) % (p.mults.length : Int)).toNat := by
  have h0 : p.mults.length ≠ 0 := by omega
  have h1 : p.mults.length ≠ 1 := by omega
  simp [Pat.at, h0, h1, hw]

/-- and what a demand-driven junction reports is that value -/
theorem dd_reported_demand (l : List TS) (patStep : Int) (interp : Bool) (patStart simTime : Int) (dm : Rat) (dv lr : Rat)
    (ls : Bool) :
    (junctionStored false dv (expectedDemand l patStep interp patStart simTime dm) ls lr 0).1 =
      (l.map (fun d => d.base * entryMult d patStep interp (simTime + patStart) * dm)).sum := by
  simp only [junctionStored, dd_demand_formula]; simp

/-! ### 4b. `store_results_in_network` as EXECUTED (Gen/StoreC01.lean: the real function run on symbolic model values) -/

/-- for a network with junctions (leak on / off / isolated with the leak still on), two tanks (leak on / off), two reservoirs, links of
every end-node combination incl. tank→tank, reservoir→reservoir, parallel and anti-parallel ones, a pump, a valve and isolated links,
in DD and PDD mode, the real `store_results_in_network` stores:
* junction: `_demand` = the `demand` variable (PDD) / the `expected_demand` parameter (DD), `_leak_demand` = `leak_rate` iff
  `leak_status`; everything 0 when isolated (also the leak demand of a junction whose leak is still on);
* tank: `_demand` = Σ flow(links ending there) − Σ flow(links starting there) − `leak_rate` (iff `leak_status`), every link counted
  for BOTH of its ends, `_leak_demand` = `leak_rate` iff `leak_status`;
* reservoir: `_demand` = Σ in − Σ out, `_leak_demand` = 0;
* link: `_flow` = the flow variable, 0 when isolated.
This replaces the hand transliteration (`tankDemand`, `reservoirDemand`, `junctionStored`) as the tie to hydraulics.py. -/
theorem gen_store_results_ok :
    (StoreC01.DD.nodes.all (storedOk StoreC01.links StoreC01.isolatedLinks StoreC01.DD.leafNames false)) = true ∧
    (StoreC01.PDD.nodes.all (storedOk StoreC01.links StoreC01.isolatedLinks StoreC01.PDD.leafNames true)) = true ∧
    (StoreC01.DD.flows.all (flowStoredOk StoreC01.isolatedLinks StoreC01.DD.leafNames)) = true ∧
    (StoreC01.PDD.flows.all (flowStoredOk StoreC01.isolatedLinks StoreC01.PDD.leafNames)) = true := by
  refine ⟨?_, ?_, ?_, ?_⟩ <;> decide +kernel

/-- what the traced network covers -/
theorem gen_store_covers :
    (StoreC01.links.any fun l => l.start == "T1" && l.stop == "T2") = true ∧ (StoreC01.links.any fun l => l.start == "T2" && l.stop == "T1") = true ∧
    (StoreC01.links.any fun l => l.start == "R1" && l.stop == "R2") = true ∧ (StoreC01.links.any fun l => l.start == "R2" && l.stop == "R1") = true ∧
    (StoreC01.DD.nodes.any fun r => r.kind == .junction && r.isolated && r.leakStatus) = true ∧
    (StoreC01.DD.nodes.any fun r => r.kind == .tank && r.leakStatus) = true ∧
    (StoreC01.DD.nodes.any fun r => r.kind == .tank && !r.leakStatus) = true ∧ StoreC01.isolatedLinks.length = 2 := by
  decide +kernel

/-- soundness for tanks and reservoirs: an accepted stored demand evaluates, for all leaf values, to the signed sum of
`netInflowTerms` — inflow minus outflow minus leak -/
theorem storedOk_netInflow_sound (env : Env ℝ) (links : List ZLink) (iso names : List String) (pdd : Bool) (r : ZStored)
    (hk : r.kind ≠ .junction) (h : storedOk links iso names pdd r = true) :
    ∃ e, netInflowTerms links iso names r.node (r.kind = .tank && r.leakStatus) = some e ∧
      eval realOps env r.demand = (e.map (termVal env)).sum := by
  unfold storedOk at h
  simp only [Bool.and_eq_true] at h
  obtain ⟨-, h2⟩ := h
  generalize hb : (decide (r.kind = NodeKind.tank) && r.leakStatus) = b at h2 ⊢
  have key : permOpt (linTerms r.demand false) (netInflowTerms links iso names r.node b) = true := by
    cases hkind : r.kind with
    | junction => exact absurd hkind hk
    | tank => simpa [hkind] using h2
    | reservoir => simpa [hkind] using h2
  unfold permOpt at key
  cases hl : linTerms r.demand false with
  | none => simp [hl] at key
  | some l =>
    cases he : netInflowTerms links iso names r.node b with
    | none => simp [hl, he] at key
    | some e =>
      simp only [hl, he] at key
      refine ⟨e, rfl, ?_⟩
      have hs := linTerms_sound env r.demand false l hl
      simp only [Bool.false_eq_true, if_false, one_mul] at hs
      rw [hs, ((List.isPerm_iff.1 key).map (termVal env)).sum_eq]

/-! ### 6. the mass-balance row is rebuilt when the leak is switched or the junction's isolation changes -/

/-- for every junction of the zoo, DD and PDD: `leak_status` and `_is_isolated` are registered with the ModelUpdater for the
mode's own mass-balance Definition class (a dropped `updater.add(node, 'leak_status', …)` breaks this) -/
theorem updater_registers_mass_balance :
    (UpdaterC02.DD.junctionRegs.all fun r => subsetB (balanceDeps false) r.2) = true ∧
    (UpdaterC02.PDD.junctionRegs.all fun r => subsetB (balanceDeps true) r.2) = true ∧
    UpdaterC02.DD.junctionRegs.map (fun r => r.1) = RowsC01.DD.rows.map (fun r => r.junction) ∧
    UpdaterC02.PDD.junctionRegs.map (fun r => r.1) = RowsC01.PDD.rows.map (fun r => r.junction) := by
  refine ⟨?_, ?_, ?_, ?_⟩ <;> decide +kernel

/-- flags of a junction's balance row -/
def balanceUpdate (regs : List (String × String)) (cls : String) (built cur : Bool × Bool) : Bool × Bool :=
  let changed := (if built.1 = cur.1 then [] else ["leak_status"]) ++ (if built.2 = cur.2 then [] else ["_is_isolated"])
  if changed.any (fun a => regs.contains (a, cls)) then cur else built

/-- with both attributes registered the row in the model carries the leak term iff the junction's CURRENT `leak_status` -/
theorem leak_flag_consistent (pdd : Bool) (regs : List (String × String)) (built cur : Bool × Bool)
    (hsub : subsetB (balanceDeps pdd) regs = true) :
    balanceUpdate regs (if pdd then "pdd_mass_balance_constraint" else "mass_balance_constraint") built cur = cur := by
  have hall : ∀ x ∈ balanceDeps pdd, x ∈ regs := by
    intro x hx
    have := List.all_eq_true.1 hsub x hx
    simpa using this
  have h1 := hall ("leak_status", if pdd then "pdd_mass_balance_constraint" else "mass_balance_constraint") (by simp [balanceDeps])
  have h2 := hall ("_is_isolated", if pdd then "pdd_mass_balance_constraint" else "mass_balance_constraint") (by simp [balanceDeps])
  obtain ⟨b1, b2⟩ := built
  obtain ⟨c1, c2⟩ := cur
  unfold balanceUpdate
  by_cases e1 : b1 = c1 <;> by_cases e2 : b2 = c2 <;> simp [e1, e2, h1, h2]

/-! ### non-vacuity -/

/-- a junction with two parallel inlets, one outlet and an active leak: residual 1e-7 satisfies the hypothesis of
`balance_of_small_residual` with `tol = 1e-6` -/
example : ∃ env : Env ℝ, |eval realOps env (massBalanceRow (.param 0) [0, 1] [2] (some 3))| < 1 / 10 ^ 6 := by
  refine ⟨{ var := fun i => if i = 0 then 3 else if i = 1 then 2 else if i = 2 then 1 else 1, param := fun _ => 3 }, ?_⟩
  rw [massBalance_row_shape]
  simp only [eval]
  norm_num

/-- two categories, the second with a pattern [1, 2] (step 3600), pattern_start 3600, multiplier 2, at t = 0:
`(0.5·1 + 0.25·2)·2 = 2` — the second multiplier is used because of pattern_start -/
example : expectedDemand [{ base := 1/2 }, { base := 1/4, pat := some { mults := [1, 2] }, cat := some "b" }] 3600 false 3600 0 2 = 2 := by
  decide +kernel

/-- the generated tables are not empty and contain leak rows -/
example : (RowsC01.DD.rows.filter (fun r => r.leakStatus)).length = 1 ∧ RowsC01.links.length = 34 := by decide +kernel

end Wntr.LinkRows
