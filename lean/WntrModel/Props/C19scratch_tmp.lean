import WntrModel.Model.Morph
import Mathlib.Tactic.Ring
import Mathlib.Tactic.Linarith
import Mathlib.Tactic.FieldSimp
import Mathlib.Tactic.Positivity
import Mathlib.Tactic.NormNum
import Mathlib.Algebra.Order.Field.Basic
import Mathlib.Algebra.Order.Field.Rat
namespace Wntr.Morph

/-! ### merged pipes of the skeletonizer: what `_series_merge_properties` / `_parallel_merge_properties` preserve -/

section merge
variable {R : Type} [Field R] [LinearOrder R] [IsStrictOrderedRing R]

/-- the laws of `x ↦ x ^ a` on positive numbers that the formulas rely on (true of `Real.rpow`) -/
structure PowLaws (pw : R → R → R) : Prop where
  pos : ∀ x a, 0 < x → 0 < pw x a
  mul : ∀ x y a, 0 < x → 0 < y → pw (x * y) a = pw x a * pw y a
  pow : ∀ x a b, 0 < x → pw (pw x a) b = pw x (a * b)
  one : ∀ x, 0 < x → pw x 1 = x
  neg : ∀ x a, 0 < x → pw x (-a) = (pw x a)⁻¹

/-- Hazen-Williams resistance in the exponents of the series formula: head loss `h = κ · hwRes · φ(q)` -/
def hwRes (pw : R → R → R) (x : MergeExp R) (L D C : R) : R := L / (pw D x.a * pw C x.b)

/-- Hazen-Williams conductance in the exponents of the parallel formula: flow `q = κ' · hwCond · ψ(h)` -/
def hwCond (pw : R → R → R) (x : MergeExp R) (L D C : R) : R := C * pw D x.c / pw L x.e

variable (pw : R → R → R) (x : MergeExp R) (L0 D0 C0 L1 D1 C1 D : R)

/-- what the series formula really yields, for ANY exponents: with `t = e·b`, `A = L/D^a`, `S = r₀ + r₁`, the merged
resistance is `A^(1-t)·S^t` written as `A · S^t / A^t` -/
theorem series_merge_resistance_general (h : PowLaws pw)
    (hL0 : 0 < L0) (hD0 : 0 < D0) (hC0 : 0 < C0) (hL1 : 0 < L1) (hD1 : 0 < D1) (hC1 : 0 < C1) (hD : 0 < D) :
    hwRes pw x (L0 + L1) D (seriesRough pw x L0 D0 C0 L1 D1 C1 D)
      = ((L0 + L1) / pw D x.a) * pw (hwRes pw x L0 D0 C0 + hwRes pw x L1 D1 C1) (x.e * x.b) / pw ((L0 + L1) / pw D x.a) (x.e * x.b) := by
  have hA : 0 < (L0 + L1) / pw D x.a := div_pos (by linarith) (h.pos _ _ hD)
  have hr0 : 0 < L0 / (pw D0 x.a * pw C0 x.b) := div_pos hL0 (mul_pos (h.pos _ _ hD0) (h.pos _ _ hC0))
  have hr1 : 0 < L1 / (pw D1 x.a * pw C1 x.b) := div_pos hL1 (mul_pos (h.pos _ _ hD1) (h.pos _ _ hC1))
  have hS : 0 < L0 / (pw D0 x.a * pw C0 x.b) + L1 / (pw D1 x.a * pw C1 x.b) := by linarith
  have hCm : pw (seriesRough pw x L0 D0 C0 L1 D1 C1 D) x.b
      = pw ((L0 + L1) / pw D x.a) (x.e * x.b) * (pw (L0 / (pw D0 x.a * pw C0 x.b) + L1 / (pw D1 x.a * pw C1 x.b)) (x.e * x.b))⁻¹ := by
    unfold seriesRough
    rw [h.mul _ _ _ (h.pos _ _ hA) (h.pos _ _ hS), h.pow _ _ _ hA, h.pow _ _ _ hS, neg_mul, h.neg _ _ hS]
  have hpA : 0 < pw ((L0 + L1) / pw D x.a) (x.e * x.b) := h.pos _ _ hA
  have hpS : 0 < pw (L0 / (pw D0 x.a * pw C0 x.b) + L1 / (pw D1 x.a * pw C1 x.b)) (x.e * x.b) := h.pos _ _ hS
  have hpD : 0 < pw D x.a := h.pos _ _ hD
  unfold hwRes
  rw [hCm]
  field_simp

/-- **series merge, the equivalence the formula aims at**: when the exponents are consistent (`e · b = 1`) the merged pipe has
exactly the sum of the two resistances, hence the same head loss as the two pipes in series at every flow -/
theorem series_merge_resistance (h : PowLaws pw) (heb : x.e * x.b = 1)
    (hL0 : 0 < L0) (hD0 : 0 < D0) (hC0 : 0 < C0) (hL1 : 0 < L1) (hD1 : 0 < D1) (hC1 : 0 < C1) (hD : 0 < D) :
    hwRes pw x (L0 + L1) D (seriesRough pw x L0 D0 C0 L1 D1 C1 D) = hwRes pw x L0 D0 C0 + hwRes pw x L1 D1 C1 := by
  have hA : 0 < (L0 + L1) / pw D x.a := div_pos (by linarith) (h.pos _ _ hD)
  have hr0 : 0 < hwRes pw x L0 D0 C0 := div_pos hL0 (mul_pos (h.pos _ _ hD0) (h.pos _ _ hC0))
  have hr1 : 0 < hwRes pw x L1 D1 C1 := div_pos hL1 (mul_pos (h.pos _ _ hD1) (h.pos _ _ hC1))
  rw [series_merge_resistance_general pw x L0 D0 C0 L1 D1 C1 D h hL0 hD0 hC0 hL1 hD1 hC1 hD, heb,
    h.one _ hA, h.one _ (by linarith)]
  field_simp

theorem series_merge_equal_headloss (h : PowLaws pw) (heb : x.e * x.b = 1) (κ φ : R)
    (hL0 : 0 < L0) (hD0 : 0 < D0) (hC0 : 0 < C0) (hL1 : 0 < L1) (hD1 : 0 < D1) (hC1 : 0 < C1) (hD : 0 < D) :
    κ * hwRes pw x (L0 + L1) D (seriesRough pw x L0 D0 C0 L1 D1 C1 D) * φ
      = κ * hwRes pw x L0 D0 C0 * φ + κ * hwRes pw x L1 D1 C1 * φ := by
  rw [series_merge_resistance pw x L0 D0 C0 L1 D1 C1 D h heb hL0 hD0 hC0 hL1 hD1 hC1 hD]; ring

/-- **parallel merge**: the merged pipe has exactly the sum of the two conductances — for ANY exponents — hence the same total
flow as the two parallel pipes at every head loss -/
theorem parallel_merge_conductance (h : PowLaws pw) (L D : R)
    (hL0 : 0 < L0) (hL1 : 0 < L1) (hL : 0 < L) (hD : 0 < D) :
    hwCond pw x L D (parallelRough pw x L0 D0 C0 L1 D1 C1 L D) = hwCond pw x L0 D0 C0 + hwCond pw x L1 D1 C1 := by
  have h1 := h.pos L x.e hL
  have h2 := h.pos D x.c hD
  have h3 := h.pos L0 x.e hL0
  have h4 := h.pos L1 x.e hL1
  unfold hwCond parallelRough
  field_simp

theorem parallel_merge_equal_flow (h : PowLaws pw) (L D κ ψ : R)
    (hL0 : 0 < L0) (hL1 : 0 < L1) (hL : 0 < L) (hD : 0 < D) :
    κ * hwCond pw x L D (parallelRough pw x L0 D0 C0 L1 D1 C1 L D) * ψ
      = κ * hwCond pw x L0 D0 C0 * ψ + κ * hwCond pw x L1 D1 C1 * ψ := by
  rw [parallel_merge_conductance pw x L0 D0 C0 L1 D1 C1 h L D hL0 hL1 hL hD]; ring

end merge

/-- the literals of wntr/morph/skel.py -/
def codeExpQ : MergeExp Rat := { a := 487 / 100, b := 185 / 100, e := 54 / 100, c := 263 / 100 }

/-- WHERE THE SERIES EQUIVALENCE DOES NOT HOLD: the code's exponents are not consistent, `0.54 · 1.85 = 0.999`, so by
`series_merge_resistance_general` the merged resistance is `A^0.001 · S^0.999` instead of `S` (≈ +0.9 % head loss for C ≈ 100);
nor do they match the flow form of the parallel formula (`1/0.54 ≠ 1.85`, `2.63/0.54 ≠ 4.87`) or the simulator's 1.852 / 4.871 -/
theorem code_series_exponents_inconsistent :
    codeExpQ.e * codeExpQ.b = 999 / 1000 ∧ codeExpQ.e * codeExpQ.b ≠ 1 ∧ 1 / codeExpQ.e ≠ codeExpQ.b ∧ codeExpQ.c / codeExpQ.e ≠ codeExpQ.a ∧
    codeExpQ.b ≠ 1852 / 1000 ∧ codeExpQ.a ≠ 4871 / 1000 := by
  simp only [codeExpQ]; norm_num

end Wntr.Morph
