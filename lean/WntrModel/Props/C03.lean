/-
C03 — WNTRSimulator and EpanetSimulator agree on models both support.   PARTIAL.

EPANET is a closed shared object: "both engines compute the same numbers" is NOT a theorem here; it is checked by the
correspondence run of harness/props/c03.py.  What is logic is proved below, for all values / all networks of the stated shape:

 (i)   unit-system independence of the path  WNTR → INP → EPANET → binary results → WNTR:  over the tables the translator
       reads off the current `wntr/epanet/io.py` (`Gen/SchemaBin.lean`) and the C17 conversion table (`Gen/Units.lean`),
       for each of the ten INP flow units, both Darcy flags and every value: the reader's conversion inverts the writer's
       (`inp_units_roundtrip`), both are the factor of the quantity's physical dimension (`inp_write_is_dimension`,
       `inp_read_is_dimension`, `bin_read_is_dimension`; the factor itself is the physical definition by C17
       `factors_are_definitions`), so a value EPANET reports in file units comes back in SI whatever the unit system
       (`bin_recovers_si`, `bin_unit_independence`).
 (ii)  the solution certificate: two reported states that both satisfy `IsSolution net law tol` on a tree-shaped network
       with the same link statuses (same `law`) and the same fixed heads have flows within `2·tol·#junctions`
       (`certificate_sound`), heads within `#junctions·(2 tol + K·Δ)` for `K`-Lipschitz head-loss laws, and are EQUAL for
       `tol = 0` (`certificate_exact`).  Uniqueness on looped networks is the hypothesis `UniqueSolution`, never an axiom;
       for exact solutions and strictly increasing laws it is discharged by `looped_exact_unique_flows` (Lemmas/EnginesTree).
 (iii) EPANET-semantics instants of time controls / rules: `fireTimes` (executable, used by the driver) is sound and
       complete for `firesSpec`, and WNTR's `SimTimeCondition`/`TimeOfDayCondition` model (Model/Time.lean, C04) is true
       on a step `(prev, cur]` exactly when a spec instant lies in it.
-/
import WntrModel.Model.Units
import WntrModel.Gen.Units
import WntrModel.Model.Engines
import WntrModel.Gen.SchemaBin
import WntrModel.Props.C17
import WntrModel.Lemmas.EnginesTree
import WntrModel.Model.Time
import WntrModel.Lemmas.Time
import WntrModel.Props.C04
import Mathlib.Tactic.Ring
import Mathlib.Tactic.Linarith
import Mathlib.Tactic.Positivity
import Mathlib.Tactic.NormNum
import Mathlib.Algebra.Order.Field.Rat
import Mathlib.Algebra.Order.AbsoluteValue.Basic

namespace Wntr.Engines
open Wntr.Units

/-! ## (i) unit tables -/

def noEntry : Entry :=
  { hyd := true, param := 0, unit := 0, mass := 0, order := 0, dw := false, toSteps := [], fromSteps := [] }

/-- the C17 table row of HydParam `p` in flow unit `u` -/
def entryOf (p u : Nat) (dw : Bool) : Entry := (lookup Units.Gen.table true p u 0 0 dw).getD noEntry

/-- what `InpFile._write_*` puts into the file for the SI value `x` of quantity `c` -/
def inpWrite (u : Nat) (dw : Bool) (c : InpConv) (x : Rat) : Rat := (entryOf c.writeParam u dw).fromSI x
/-- what `InpFile._read_*` makes of the file value `y` -/
def inpRead (u : Nat) (dw : Bool) (c : InpConv) (y : Rat) : Rat := (entryOf c.readParam u dw).toSI y
/-- what `BinFile.read` makes of the binary-file value `y` of result type `b` -/
def binRead (u : Nat) (dw : Bool) (b : BinConv) (y : Rat) : Rat := (entryOf b.param u dw).toSI y

def hasEntry (p u : Nat) (dw : Bool) : Bool := (lookup Units.Gen.table true p u 0 0 dw).isSome

def invOk (a b : Rat) : Bool := decide (1 - epsInv ≤ a * b) && decide (a * b ≤ 1 + epsInv)

/-- per (unit, flag, quantity): both params are in the C17 table, the two chains are inverse, and both have the factor of the
quantity's dimension -/
def inpConvOk (u : Nat) (dw : Bool) (c : InpConv) : Bool :=
  match inpDim c.name with
  | none => false
  | some d =>
    hasEntry c.writeParam u dw && hasEntry c.readParam u dw && hasEntry d u dw &&
    invOk (factor (entryOf c.writeParam u dw).fromSteps) (factor (entryOf c.readParam u dw).toSteps) &&
    decide (factor (entryOf c.writeParam u dw).fromSteps = factor (entryOf d u dw).fromSteps) &&
    decide (factor (entryOf c.readParam u dw).toSteps = factor (entryOf d u dw).toSteps)

def binConvOk (u : Nat) (dw : Bool) (b : BinConv) : Bool :=
  match binDim b.name with
  | none => false
  | some d =>
    hasEntry b.param u dw && hasEntry d u dw &&
    decide (factor (entryOf b.param u dw).toSteps = factor (entryOf d u dw).toSteps) &&
    invOk (factor (entryOf d u dw).fromSteps) (factor (entryOf b.param u dw).toSteps)

theorem inp_table_ok :
    (inpUnits.all fun u => [false, true].all fun dw => Gen.inpConvs.all (inpConvOk u dw)) = true := by decide +kernel

theorem bin_table_ok :
    (inpUnits.all fun u => [false, true].all fun dw => Gen.binConvs.all (binConvOk u dw)) = true := by decide +kernel

/-- every result type the statement names is converted by `BinFile.read` (none is left in file units) -/
theorem bin_table_complete :
    (["node.demand", "node.head", "node.pressure", "link.flowrate", "link.velocity", "link.headloss.pipe",
      "link.headloss.pumpvalve", "link.setting.pipe", "link.setting.PRV", "link.setting.PSV", "link.setting.FCV"].all
      fun n => Gen.binConvs.any fun b => b.name == n) = true := by decide

/-- every written quantity of the common feature set appears in the writer/reader table -/
theorem inp_table_complete :
    (["junction.elevation", "junction.base_demand", "demands.base_demand", "reservoir.head", "tank.elevation",
      "tank.init_level", "tank.min_level", "tank.max_level", "tank.diameter", "tank.min_vol", "pipe.length", "pipe.diameter",
      "pipe.roughness", "pump.power", "valve.diameter", "valve.setting.pressure", "valve.setting.flow", "curve.head.x",
      "curve.head.y", "curve.volume.x", "curve.volume.y", "options.minimum_pressure", "options.required_pressure",
      "control.setting.pressure", "control.setting.flow", "control.threshold.head", "control.threshold.pressure"].all
      fun n => Gen.inpConvs.any fun c => c.name == n) = true := by decide

theorem inpOk_of_mem {c : InpConv} (hc : c ∈ Gen.inpConvs) {u : Nat} (hu : u ∈ inpUnits) (dw : Bool) :
    inpConvOk u dw c = true := by
  have h := List.all_eq_true.mp inp_table_ok u hu
  have h2 := List.all_eq_true.mp h dw (by cases dw <;> simp)
  exact List.all_eq_true.mp h2 c hc

theorem binOk_of_mem {b : BinConv} (hb : b ∈ Gen.binConvs) {u : Nat} (hu : u ∈ inpUnits) (dw : Bool) :
    binConvOk u dw b = true := by
  have h := List.all_eq_true.mp bin_table_ok u hu
  have h2 := List.all_eq_true.mp h dw (by cases dw <;> simp)
  exact List.all_eq_true.mp h2 b hb

theorem inv_bound {a b x : Rat} (h : invOk a b = true) : |x * a * b - x| ≤ epsInv * |x| := by
  simp only [invOk, Bool.and_eq_true, decide_eq_true_eq] at h
  rw [mul_assoc]
  exact abs_le_of_bounds h.1 h.2

/-- **read ∘ write = id** for every INP quantity of the common feature set, each of the ten flow units, both Darcy flags and
EVERY value (up to the rounding of the constants, 1e-14 relative) -/
theorem inp_units_roundtrip (c : InpConv) (hc : c ∈ Gen.inpConvs) (u : Nat) (hu : u ∈ inpUnits) (dw : Bool) (x : Rat) :
    |inpRead u dw c (inpWrite u dw c x) - x| ≤ epsInv * |x| := by
  have h := inpOk_of_mem hc hu dw
  unfold inpConvOk at h
  split at h
  · exact absurd h (by simp)
  · simp only [Bool.and_eq_true] at h
    simp only [inpRead, inpWrite, Entry.toSI, Entry.fromSI, applySteps_eq_mul_factor]
    exact inv_bound h.1.1.2

/-- the file does not remember the unit system: the SI value read back is the same for any two of the ten units -/
theorem inp_unit_independence (c : InpConv) (hc : c ∈ Gen.inpConvs) (u1 u2 : Nat) (h1 : u1 ∈ inpUnits) (h2 : u2 ∈ inpUnits)
    (dw : Bool) (x : Rat) :
    |inpRead u1 dw c (inpWrite u1 dw c x) - inpRead u2 dw c (inpWrite u2 dw c x)| ≤ 2 * epsInv * |x| := by
  have a := inp_units_roundtrip c hc u1 h1 dw x
  have b := inp_units_roundtrip c hc u2 h2 dw x
  have := abs_sub_le (inpRead u1 dw c (inpWrite u1 dw c x)) x (inpRead u2 dw c (inpWrite u2 dw c x))
  rw [abs_sub_comm x] at this
  linarith

/-- the writer converts with the factor of the quantity's physical dimension (which C17 proves to be the definition) -/
theorem inp_write_is_dimension (c : InpConv) (hc : c ∈ Gen.inpConvs) (u : Nat) (hu : u ∈ inpUnits) (dw : Bool)
    (d : Nat) (hd : inpDim c.name = some d) (x : Rat) :
    inpWrite u dw c x = (entryOf d u dw).fromSI x ∧ entryOf d u dw ∈ Units.Gen.table := by
  have h := inpOk_of_mem hc hu dw
  unfold inpConvOk at h
  rw [hd] at h
  simp only [Bool.and_eq_true, decide_eq_true_eq] at h
  refine ⟨?_, ?_⟩
  · simp only [inpWrite, Entry.fromSI, applySteps_eq_mul_factor, h.1.2]
  · have hs := h.1.1.1.2
    unfold hasEntry at hs
    unfold entryOf
    cases hl : lookup Units.Gen.table true d u 0 0 dw with
    | none => rw [hl] at hs; exact absurd hs (by simp)
    | some e => simp only [Option.getD_some]; exact List.mem_of_find?_eq_some hl

theorem inp_read_is_dimension (c : InpConv) (hc : c ∈ Gen.inpConvs) (u : Nat) (hu : u ∈ inpUnits) (dw : Bool)
    (d : Nat) (hd : inpDim c.name = some d) (y : Rat) :
    inpRead u dw c y = (entryOf d u dw).toSI y := by
  have h := inpOk_of_mem hc hu dw
  unfold inpConvOk at h
  rw [hd] at h
  simp only [Bool.and_eq_true, decide_eq_true_eq] at h
  simp only [inpRead, Entry.toSI, applySteps_eq_mul_factor, h.2]

/-- `BinFile.read` converts every result type with the factor of ITS physical dimension (pressure as pressure, head as
head, demand and flow as flow, unit head loss per 1000, valve settings by valve type) — for all ten units and all values -/
theorem bin_read_is_dimension (b : BinConv) (hb : b ∈ Gen.binConvs) (u : Nat) (hu : u ∈ inpUnits) (dw : Bool)
    (d : Nat) (hd : binDim b.name = some d) (y : Rat) :
    binRead u dw b y = (entryOf d u dw).toSI y := by
  have h := binOk_of_mem hb hu dw
  unfold binConvOk at h
  rw [hd] at h
  simp only [Bool.and_eq_true, decide_eq_true_eq] at h
  simp only [binRead, Entry.toSI, applySteps_eq_mul_factor, h.1.2]

/-- if EPANET reports the SI quantity `x` in the file's units (value `fromSI x` of the result's dimension) then
`BinFile.read` returns `x`, whatever the unit system -/
theorem bin_recovers_si (b : BinConv) (hb : b ∈ Gen.binConvs) (u : Nat) (hu : u ∈ inpUnits) (dw : Bool)
    (d : Nat) (hd : binDim b.name = some d) (x : Rat) :
    |binRead u dw b ((entryOf d u dw).fromSI x) - x| ≤ epsInv * |x| := by
  have h := binOk_of_mem hb hu dw
  unfold binConvOk at h
  rw [hd] at h
  simp only [Bool.and_eq_true] at h
  simp only [binRead, Entry.toSI, Entry.fromSI, applySteps_eq_mul_factor]
  exact inv_bound h.2

theorem bin_unit_independence (b : BinConv) (hb : b ∈ Gen.binConvs) (u1 u2 : Nat) (h1 : u1 ∈ inpUnits) (h2 : u2 ∈ inpUnits)
    (dw : Bool) (d : Nat) (hd : binDim b.name = some d) (x : Rat) :
    |binRead u1 dw b ((entryOf d u1 dw).fromSI x) - binRead u2 dw b ((entryOf d u2 dw).fromSI x)| ≤ 2 * epsInv * |x| := by
  have a := bin_recovers_si b hb u1 h1 dw d hd x
  have c := bin_recovers_si b hb u2 h2 dw d hd x
  have := abs_sub_le (binRead u1 dw b ((entryOf d u1 dw).fromSI x)) x (binRead u2 dw b ((entryOf d u2 dw).fromSI x))
  rw [abs_sub_comm x] at this
  linarith

/-! non-vacuity: GPM pressure results go psi → m, and the table rows exist -/
example : (Gen.binConvs.filter (fun b => b.name == "node.pressure")).map (fun b => (b.param, binDim b.name)) = [(3, some 3)] := by
  decide
example : hasEntry pPressure 1 false = true ∧ (entryOf pPressure 1 false).toSteps.length = 1 := by decide +kernel

/-! ## (ii) the solution certificate -/

/-- **certificate_sound** (tree networks, same statuses = same `law`, same fixed heads): two reported states that both
pass `IsSolution net law tol` have link flows within `Σ_j (2 tol + |Δ demand_j|)` of each other — `2·tol·#junctions` when the
demands coincide (DD) — and, when every link row is a `K`-Lipschitz head-loss law, junction heads within
`#junctions · (2 tol + K·Δq)`.  Flows on a tree are fixed by mass balance alone, heads by the paths from the fixed nodes. -/
theorem certificate_sound (net : Net) (law : Nat → LinkLaw) (tol K : Rat) (s1 s2 : St)
    (hp : Peelable net.links net.juncs) (htol : 0 ≤ tol) (hK : 0 ≤ K)
    (h1 : IsSolution net law tol s1) (h2 : IsSolution net law tol s2)
    (hd : ∀ j ∈ net.juncs, s1.d j = s2.d j)
    (hfix : ∀ j, j ∉ net.juncs → s1.h j = s2.h j) :
    (∀ l ∈ net.links, |s1.q l.id - s2.q l.id| ≤ 2 * tol * (net.juncs.length : Rat)) ∧
    ((∀ l ∈ net.links, ∃ φ, law l.id = .loss φ ∧ ∀ a b, |φ a - φ b| ≤ K * |a - b|) →
      ∀ j ∈ net.juncs, |s1.h j - s2.h j| ≤
        (net.juncs.length : Rat) * (2 * tol + K * (2 * tol * (net.juncs.length : Rat)))) := by
  have hq := certificate_sound_flows_dd net law tol s1 s2 hp htol h1 h2 hd
  refine ⟨hq, fun hlip => ?_⟩
  have hΔ : 0 ≤ 2 * tol * (net.juncs.length : Rat) := by positivity
  exact certificate_sound_heads net law tol K _ s1 s2 hp htol hK hΔ h1 h2 hfix hq hlip

/-- PDD variant: the demands of the two states may differ (they depend on the heads); the flow bound degrades by exactly
the demand differences -/
theorem certificate_sound_pdd (net : Net) (law : Nat → LinkLaw) (tol : Rat) (s1 s2 : St)
    (hp : Peelable net.links net.juncs) (htol : 0 ≤ tol)
    (h1 : IsSolution net law tol s1) (h2 : IsSolution net law tol s2) :
    ∀ l ∈ net.links, |s1.q l.id - s2.q l.id| ≤ sumR (net.juncs.map (fun j => 2 * tol + |s1.d j - s2.d j|)) :=
  certificate_sound_flows net law tol s1 s2 hp htol h1 h2

/-- `tol = 0`: an exact solution of a tree network is unique (no hypothesis on the head-loss laws) -/
theorem certificate_exact (net : Net) (law : Nat → LinkLaw) (s1 s2 : St)
    (hp : Peelable net.links net.juncs)
    (h1 : IsSolution net law 0 s1) (h2 : IsSolution net law 0 s2)
    (hd : ∀ j ∈ net.juncs, s1.d j = s2.d j) (hfix : ∀ j, j ∉ net.juncs → s1.h j = s2.h j) :
    (∀ l ∈ net.links, s1.q l.id = s2.q l.id) ∧
    ((∀ l ∈ net.links, law l.id ≠ .closed) → ∀ j ∈ net.juncs, s1.h j = s2.h j) :=
  tree_exact_unique net law s1 s2 hp h1 h2 hd hfix

/-- uniqueness of the hydraulic solution on an arbitrary (looped) network, as an explicit HYPOTHESIS of the comparison:
two states passing the certificate with the same statuses, demands and fixed heads are within `bound tol` -/
def UniqueSolution (net : Net) (law : Nat → LinkLaw) (bound : Rat → Rat) : Prop :=
  ∀ tol s1 s2, 0 ≤ tol → IsSolution net law tol s1 → IsSolution net law tol s2 →
    (∀ j ∈ net.juncs, s1.d j = s2.d j) → (∀ j, j ∉ net.juncs → s1.h j = s2.h j) →
    ∀ l ∈ net.links, |s1.q l.id - s2.q l.id| ≤ bound tol

/-- on trees the hypothesis is a theorem -/
theorem uniqueSolution_of_tree (net : Net) (law : Nat → LinkLaw) (hp : Peelable net.links net.juncs) :
    UniqueSolution net law (fun tol => 2 * tol * (net.juncs.length : Rat)) :=
  fun tol s1 s2 htol h1 h2 hd _ => certificate_sound_flows_dd net law tol s1 s2 hp htol h1 h2 hd

/-- looped networks, exact solutions, strictly increasing laws (open pipes, head pumps as `−(A − B q^C)`, open valves):
the classical uniqueness, proved by summation by parts — no tree assumption -/
theorem looped_exact_unique (net : Net) (law : Nat → LinkLaw) (s1 s2 : St) (allNodes : List Nat)
    (hnd : allNodes.Nodup) (hends : ∀ l ∈ net.links, l.start ∈ allNodes ∧ l.stop ∈ allNodes)
    (h1 : IsSolution net law 0 s1) (h2 : IsSolution net law 0 s2)
    (hd : ∀ j ∈ net.juncs, s1.d j = s2.d j)
    (hfix : ∀ j ∈ allNodes, j ∉ net.juncs → s1.h j = s2.h j)
    (hmono : ∀ l ∈ net.links, law l.id = .closed ∨ ∃ φ, law l.id = .loss φ ∧ ∀ a b, a < b → φ a < φ b) :
    ∀ l ∈ net.links, s1.q l.id = s2.q l.id :=
  looped_exact_unique_flows net law s1 s2 allNodes hnd hends h1 h2 hd hfix hmono

/-! non-vacuity of the certificate theorems: a reservoir (node 0) — junction 1 — junction 2 line with linear laws -/
def exNet : Net := { links := [⟨11, 1, 2⟩, ⟨10, 0, 1⟩], juncs := [2, 1] }
def exLaw : Nat → LinkLaw := fun _ => .loss id
def exSt : St :=
  { q := fun i => if i = 10 then 3 else if i = 11 then 2 else 0,
    h := fun j => if j = 0 then 10 else if j = 1 then 7 else 5,
    d := fun j => if j = 1 then 1 else if j = 2 then 2 else 0 }

example : Peelable exNet.links exNet.juncs ∧ IsSolution exNet exLaw 0 exSt := by
  refine ⟨peelable_example, ?_, ?_⟩
  · intro j hj
    simp only [exNet, List.mem_cons, List.not_mem_nil, or_false] at hj
    rcases hj with rfl | rfl <;> simp [Within, mbRes, inflow, contrib, exNet, exSt] <;> norm_num
  · intro l hl
    simp only [exNet, List.mem_cons, List.not_mem_nil, or_false] at hl
    rcases hl with rfl | rfl <;> simp [Within, linkRes, exLaw, exSt] <;> norm_num

/-! ## (iii) instants of time controls and rules, EPANET semantics vs WNTR's conditions -/

theorem fireTimes_atTime (dur sc r τ t : Int) :
    t ∈ fireTimes dur sc r (.atTime τ) ↔ firesSpec dur sc r (.atTime τ) t := by
  simp only [fireTimes, firesSpec]
  split
  · simp only [List.mem_singleton]; omega
  · simp only [List.not_mem_nil, false_iff]; omega

/-- WNTR's `SimTimeCondition(=, τ)` (C04 model) is true on the step `(prev, cur]` exactly when the EPANET-semantics instant
of `AT TIME τ` lies in it, and its backtrack lands on that instant -/
theorem wntr_atTime_matches_spec (dur sc r τ prev cur : Int) (h0 : 0 ≤ prev) (hd : cur ≤ dur) :
    ((Wntr.Time.evalSimTime ⟨.eq, τ, 0⟩ prev cur).1 = true ↔
      ∃ t, prev < t ∧ t ≤ cur ∧ firesSpec dur sc r (.atTime τ) t) ∧
    (∀ b, Wntr.Time.evalSimTime ⟨.eq, τ, 0⟩ prev cur = (true, some b) → firesSpec dur sc r (.atTime τ) (cur - b)) := by
  rw [Wntr.Time.simTime_eq_spec]
  constructor
  · constructor
    · intro h
      split at h
      · rename_i hc
        exact ⟨τ, hc.1, hc.2, by unfold firesSpec; exact ⟨by omega, by omega, rfl⟩⟩
      · simp at h
    · rintro ⟨t, h1, h2, h3⟩
      simp only [firesSpec] at h3
      rw [if_pos ⟨by omega, by omega⟩]
  · intro b h
    split at h
    · rename_i hc
      simp only [Prod.mk.injEq, Option.some.injEq, true_and] at h
      unfold firesSpec
      exact ⟨by omega, by omega, by omega⟩
    · simp at h

/-- WNTR's repeating `TimeOfDayCondition(=, c)` evaluated on the shifted times (`sim_time + start_clocktime`) is true on a
step exactly when an EPANET-semantics `AT CLOCKTIME c` instant lies in it -/
theorem wntr_atClock_matches_spec (dur sc r c prev cur : Int) (hc0 : 0 ≤ c) (hc1 : c < 86400) (hsc : 0 ≤ sc)
    (h0 : 0 ≤ prev) (hd : cur ≤ dur) :
    (Wntr.Time.evalTod ⟨.eq, c, true, 0⟩ (prev + sc) (cur + sc)).1 = true ↔
      ∃ t, prev < t ∧ t ≤ cur ∧ firesSpec dur sc r (.atClock c) t := by
  rw [Wntr.Time.tod_eq_fires c 0 (prev + sc) (cur + sc) hc0 hc1]
  constructor
  · rintro ⟨d, hd0, h1, h2⟩
    refine ⟨c + 86400 * d - sc, by omega, by omega, ?_⟩
    unfold firesSpec
    refine ⟨by omega, by omega, ?_⟩
    show (c + 86400 * d - sc + sc) % 86400 = c
    have : c + 86400 * d - sc + sc = c + 86400 * d := by ring
    rw [this]; omega
  · rintro ⟨t, h1, h2, h3⟩
    simp only [firesSpec] at h3
    refine ⟨(t + sc) / 86400, by omega, by omega, by omega⟩

/-! ### rule evaluation instants: EPANET vs WNTRSimulator (one theorem, two witnesses) -/

/-- **where the two rule grids coincide**: if the rule step divides the hydraulic step, EPANET's evaluation instants (multiples of the
rule step and ends of hydraulic steps, never 0) are exactly WNTRSimulator's (positive multiples of the rule step, C04
`rules_on_positive_grid`) -/
theorem rule_instants_coincide (R H : Int) (hdiv : H % R = 0) (t : Int) :
    epanetRuleInstant R H t ↔ wntrRuleInstant R t := by
  unfold epanetRuleInstant wntrRuleInstant
  constructor
  · rintro ⟨h0, h | h⟩
    · exact ⟨h0, h⟩
    · exact ⟨h0, Int.emod_eq_zero_of_dvd (dvd_trans (Int.dvd_of_emod_eq_zero hdiv) (Int.dvd_of_emod_eq_zero h))⟩
  · rintro ⟨h0, h⟩
    exact ⟨h0, Or.inl h⟩

/-- hence every time premise (`>=` or `=`) with a POSITIVE threshold fires at the same instant in both engines -/
theorem rule_fire_coincide (R H : Int) (hdiv : H % R = 0) (eq : Bool) (c t : Int) (hc : 0 < c) :
    epanetFires R H eq c t ↔ wntrFires R eq c t := by
  unfold epanetFires wntrFires FiresAt
  simp only [rule_instants_coincide R H hdiv]
  constructor
  · rintro ⟨a, b, m, _⟩; exact ⟨a, b, m, fun _ => by omega⟩
  · rintro ⟨a, b, m, _⟩; exact ⟨a, b, m, fun _ => hc⟩

/-- the statement "both engines act at the same rule instants" in full; it is FALSE of the pair (two witnesses below) -/
def RuleInstantsAgree : Prop :=
  ∀ R H : Int, 0 < R → 0 < H → ∀ (eq : Bool) (c t : Int), 0 ≤ c → (epanetFires R H eq c t ↔ wntrFires R eq c t)

/-- witness 1 (known finding `rule-equals-premise-at-time-zero`): an `=` premise due at time 0 fires at the first rule step in
WNTRSimulator and never in EPANET — even when the rule step divides the hydraulic step -/
theorem rule_fire_differs_at_zero (R H : Int) (hR : 0 < R) :
    wntrFires R true 0 R ∧ ¬ ∃ t, epanetFires R H true 0 t := by
  constructor
  · refine ⟨⟨hR, Int.emod_self⟩, le_of_lt hR, ?_, fun _ => by omega⟩
    rintro u ⟨hu0, hu⟩ _
    exact Int.le_of_dvd hu0 (Int.dvd_of_emod_eq_zero hu)
  · rintro ⟨t, _, _, _, h⟩
    have := h rfl
    omega

/-- witness 2 (known finding `rule-step-not-dividing-hydraulic-step`): rule step 360 s, hydraulic step 900 s, premise at 900 s:
EPANET acts at 900 s (end of the hydraulic step), WNTRSimulator at 1080 s -/
theorem rule_fire_differs_nondividing :
    epanetFires 360 900 true 900 900 ∧ wntrFires 360 true 900 1080 ∧ ¬ wntrFires 360 true 900 900 := by
  refine ⟨⟨⟨by omega, Or.inr (by omega)⟩, le_refl _, fun u _ h => h, fun _ => by omega⟩, ?_, ?_⟩
  · refine ⟨⟨by omega, by omega⟩, by omega, ?_, fun _ => by omega⟩
    rintro u ⟨_, hu⟩ hc
    omega
  · rintro ⟨⟨_, h⟩, _⟩
    omega

theorem ruleInstantsAgree_counterexample : ¬ RuleInstantsAgree := by
  intro h
  have := (h 360 900 (by omega) (by omega) true 900 900 (by omega)).mp rule_fire_differs_nondividing.1
  exact rule_fire_differs_nondividing.2.2 this

/-- `..._partial`: under the two excluding hypotheses (rule step divides the hydraulic step, premise not due at time 0) they agree -/
theorem ruleInstantsAgree_partial (R H : Int) (hdiv : H % R = 0) (eq : Bool) (c t : Int) (hc : 0 < c) :
    epanetFires R H eq c t ↔ wntrFires R eq c t := rule_fire_coincide R H hdiv eq c t hc

/-- tie to C04: every instant at which the WNTRSimulator model evaluated its rules is a `wntrRuleInstant` -/
theorem wntr_ruleLog_instants {cfg : Wntr.Sched.Cfg} (hR : 0 < cfg.rule) (hH : 0 < cfg.hyd) {simTime prevTime : Int}
    (vals : Wntr.Sched.Vals) (h : Wntr.Sched.StartOK simTime prevTime) :
    ∀ r ∈ (Wntr.Sched.runSim cfg simTime prevTime vals).1.ruleLog, wntrRuleInstant cfg.rule r := by
  intro r hr
  obtain ⟨k, hk, rfl⟩ := (Wntr.C04.rules_on_positive_grid hR hH vals h).1 r hr
  exact ⟨by positivity, Int.mul_emod_left k cfg.rule⟩

/-! non-vacuity of the coincidence theorem: 3600 s hydraulic step, 600 s rule step, premise at 1000 s: both at 1200 s -/
example : epanetFires 600 3600 false 1000 1200 ∧ wntrFires 600 false 1000 1200 := by
  have hw : wntrFires 600 false 1000 1200 := by
    refine ⟨⟨by omega, by omega⟩, by omega, ?_, fun h => by cases h⟩
    rintro u ⟨_, hu⟩ hc
    omega
  exact ⟨(rule_fire_coincide 600 3600 (by omega) false 1000 1200 (by omega)).mpr hw, hw⟩

/-! ### why EPANET's results depend (slightly) on the unit system: its own flow-unit constants -/

/-- EPANET 2.2's flow-unit constants (`epanet2_2/src/types.h`: GPMperCFS 448.831, MGDperCFS 0.64632, IMGDperCFS 0.5382,
AFDperCFS 1.9837, LPSperCFS 28.317, LPMperCFS 1699.0, MLDperCFS 2.4466, CMHperCFS 101.94, CMDperCFS 2446.6): file units per cfs,
indexed by the EN flow-unit id -/
def epanetPerCfs : Nat → Rat
  | 0 => 1
  | 1 => 448831 / 1000
  | 2 => 64632 / 100000
  | 3 => 5382 / 10000
  | 4 => 19837 / 10000
  | 5 => 28317 / 1000
  | 6 => 1699
  | 7 => 24466 / 10000
  | 8 => 10194 / 100
  | 9 => 24466 / 10
  | _ => 1

/-- the exact number of file units per cfs, from the physical definitions of C17 (`flowSpec` = m³/s per file unit) -/
def exactPerCfs (u : Nat) : Rat := flowSpec 0 / flowSpec u

/-- EPANET's internal flow for a value written in unit `u`, relative to the true one: `exact / epanet` -/
def epanetFlowBias (u : Nat) : Rat := exactPerCfs u / epanetPerCfs u

/-- **EPANET's unit constants carry about five significant digits**: each is within 1.2e-4 of the physical definition
(worst: AFD, 1.9837 for 1.98347…) -/
theorem epanet_unit_constants_precision :
    (inpUnits.all fun u => decide (|epanetFlowBias u - 1| ≤ 12 / 100000)) = true := by decide +kernel

/-- hence the same SI flow written in two unit systems is seen by EPANET as two flows whose ratio is within 1.6e-4 of 1, and every
quantity that grows at most quadratically with the flow (Hazen-Williams `q^1.852` lies between `q` and `q²` around 1, minor losses are
`q²`) differs by at most 3.2e-4 relative: the `4e-4 · (head range)` of the unit-independence comparison in harness/props/c03.py -/
theorem epanet_unit_pair_bias :
    (inpUnits.all fun u1 => inpUnits.all fun u2 =>
      decide (|epanetFlowBias u1 / epanetFlowBias u2 - 1| ≤ 16 / 100000) &&
      decide (|(epanetFlowBias u1 / epanetFlowBias u2) ^ 2 - 1| ≤ 32 / 100000)) = true := by decide +kernel

/-- the linear deviation is dominated by the quadratic one (`x` = ratio of the two internal flows): with `x^1.852` lying between `x` and
`x²` this is why the quadratic bound above covers Hazen-Williams head losses -/
theorem ratio_linear_le_quadratic (x : Rat) (hx : 0 ≤ x) : |x - 1| ≤ |x ^ 2 - 1| := by
  have h : x ^ 2 - 1 = (x - 1) * (x + 1) := by ring
  rw [h, abs_mul]
  have h1 : 1 ≤ |x + 1| := by rw [abs_of_nonneg (by linarith)]; linarith
  calc |x - 1| = |x - 1| * 1 := by ring
    _ ≤ |x - 1| * |x + 1| := mul_le_mul_of_nonneg_left h1 (abs_nonneg _)

end Wntr.Engines
