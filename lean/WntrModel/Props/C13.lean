/-
C13 — `to_dict`/`from_dict` (and JSON) reproduce the model.

* generic layer: for every value type, normalisation `nrm`, element schema and object: if every emitted
  key is restored, recomputed from restored attributes, or still at its constructor default in the
  object, then `to_dict (from_dict (to_dict o)) = norm (to_dict o)`; lifted to element lists of ANY length.
* table layer: the premise is decided on the tables regenerated from the current `from_dict`/`to_dict`
  (`Gen/SchemaDict.lean`) — `dict_tables_ok`.  The tables of the repaired `from_dict` (fixes/C13-*) have
  no missing pair; on a tree where `from_dict` forgets a key this theorem fails and names the pair.
* rule text BEFORE the repairs (`str(condition)` / the old INP writer wrote the tree IN ORDER): the tree survived exactly when
  it is a left-nested AND of left-nested ORs; `(a AND b) OR c` did not — kept as `…_pinned` statements.
* rule text now, both paths: the INP writer (e0050eda, `flattenCnf`) and `Rule.to_dict` (fb98e708: `str` of the canonical
  tree, `dict_condition_text`) write the AND of OR-groups: EVERY tree is read back as its normal form
  `ofGroups (cnf c)`, which has the same groups, the same truth value under every valuation, and is written as the same
  clauses again; the statement about the old in-order writer is kept as `rule_condition_inorder_pinned`.
-/
import WntrModel.Model.Schema
import WntrModel.Model.InpText
import WntrModel.Gen.SchemaDict
import WntrModel.Lemmas.InpNorm
import Mathlib.Data.List.Basic

namespace Wntr.Schema

variable {V : Type}

/-! ### generic element round trip -/

theorem find_map_key (l : List Key) (v : Key → V) (k : Key) (hk : k ∈ l) :
    (l.map fun k' => (k', v k')).find? (fun kv => kv.1 == k) = some (k, v k) := by
  induction l with
  | nil => cases hk
  | cons a t ih =>
    simp only [List.map_cons, List.find?_cons]
    by_cases h : a = k
    · subst h; simp
    · have : (a == k) = false := by simpa using h
      simp only [this]
      exact ih (by cases hk with | head => exact absurd rfl h | tail _ h' => exact h')

theorem lookupD_toDict (s : Schema V) (o : Key → V) (k : Key) (dv : V) (hk : k ∈ s.emit) :
    lookupD (s.toDict o) k dv = s.emitVal o k := by
  unfold lookupD Schema.toDict
  rw [find_map_key s.emit (s.emitVal o) k hk]

/-- the per-object coverage premise: an emitted key is restored, recomputed, or at its default -/
def Covered (s : Schema V) (nrm : V → V) (o : Key → V) : Prop :=
  ∀ k ∈ s.emit, s.restore k = true ∨ (s.derive k).isSome = true ∨ (o k = s.dflt k ∧ nrm (s.dflt k) = s.dflt k)

/-- well-formedness of a schema w.r.t. a normalisation: restored keys are emitted as themselves, and
derived values are functions of the restored attributes that commute with the normalisation -/
structure WF (s : Schema V) (nrm : V → V) : Prop where
  restore_emitted : ∀ k, s.restore k = true → k ∈ s.emit
  restore_plain : ∀ k, s.restore k = true → s.derive k = none
  derive_compat : ∀ k f, s.derive k = some f → ∀ o o' : Key → V,
      (∀ k', s.restore k' = true → o' k' = nrm (o k')) → f o' = nrm (f o)

/-- **element round trip**: `to_dict (from_dict (to_dict o)) = norm (to_dict o)` -/
theorem elem_roundtrip (s : Schema V) (nrm : V → V) (hwf : WF s nrm) (o : Key → V) (hc : Covered s nrm o) :
    s.toDict (s.fromDict nrm (s.toDict o)) = (s.toDict o).map fun kv => (kv.1, nrm kv.2) := by
  have hres : ∀ k', s.restore k' = true → s.fromDict nrm (s.toDict o) k' = nrm (o k') := by
    intro k' hk'
    simp only [Schema.fromDict, hk', if_true]
    rw [lookupD_toDict s o k' _ (hwf.restore_emitted k' hk')]
    simp [Schema.emitVal, hwf.restore_plain k' hk']
  simp only [Schema.toDict, List.map_map]
  apply List.map_congr_left
  intro k hk
  simp only [Function.comp, Prod.mk.injEq, true_and]
  cases hd : s.derive k with
  | some f =>
    simp only [Schema.emitVal, hd]
    exact hwf.derive_compat k f hd o _ hres
  | none =>
    simp only [Schema.emitVal, hd]
    rcases hc k hk with h | h | ⟨h1, h2⟩
    · exact hres k h
    · simp [hd] at h
    · by_cases hr : s.restore k = true
      · exact hres k hr
      · have hr' : s.restore k = false := by simpa using hr
        simp only [Schema.fromDict, hr', Bool.false_eq_true, if_false, h1, h2]

/-- **`dict_roundtrip_generic`**: any number of elements of any classes (induction over the element list
is `List.map`) -/
theorem dict_roundtrip_generic (S : Nat → Schema V) (nrm : V → V) (hwf : ∀ c, WF (S c) nrm)
    (n : Net V) (hc : ∀ e ∈ n, Covered (S e.1) nrm e.2) :
    netToDict S (netFromDict S nrm (netToDict S n)) = netNorm nrm (netToDict S n) := by
  induction n with
  | nil => rfl
  | cons e t ih =>
    have he := hc e (by simp)
    have ht := ih (fun e' h' => hc e' (by simp [h']))
    simp only [netToDict, netFromDict, netNorm, List.map_cons, List.cons.injEq, Prod.mk.injEq, true_and] at ht ⊢
    exact ⟨elem_roundtrip (S e.1) nrm (hwf e.1) e.2 he, ht⟩

/-- **`append_equals_create`**: appending a dictionary to an empty model is creating the model from it -/
theorem append_equals_create (S : Nat → Schema V) (nrm : V → V) (d : NetDict V) :
    netFromDictAppend S nrm [] d = netFromDict S nrm d := by
  simp [netFromDictAppend]

/-- appending to a non-empty model keeps what was there and adds exactly the re-created elements -/
theorem append_keeps (S : Nat → Schema V) (nrm : V → V) (m0 : Net V) (d : NetDict V) :
    (netFromDictAppend S nrm m0 d).take m0.length = m0 ∧
    (netFromDictAppend S nrm m0 d).drop m0.length = netFromDict S nrm d := by
  simp [netFromDictAppend]

/-! ### the generated tables -/

/-- every emitted key of every class is restored faithfully, recomputed, or not settable -/
def DictTablesOk : Prop := missingPairs Gen.tables = []

/-- **`dict_tables_ok`** — decided on the tables regenerated from the current source on every run.
When `from_dict` forgets a key this fails; the harness then prints the missing (class, key) pairs. -/
theorem dict_tables_ok : DictTablesOk := by
  unfold DictTablesOk
  decide +kernel

theorem ok_of_missing_nil (ts : List ClassTable) (h : missingPairs ts = []) (t : ClassTable) (ht : t ∈ ts) :
    t.ok = true := by
  unfold ClassTable.ok
  rw [List.all_eq_true]
  intro k hk
  by_contra hbad
  have hb : (!t.keyOk k) = true := by simpa using hbad
  have hmem : (t.cls, k) ∈ missingPairs ts := by
    unfold missingPairs
    rw [List.mem_flatMap]
    exact ⟨t, ht, List.mem_map.mpr ⟨k, List.mem_filter.mpr ⟨hk, hb⟩, rfl⟩⟩
  rw [h] at hmem
  cases hmem

/-- the schema of a table is well-formed as soon as the derived-attribute functions are functions of
the restored attributes compatible with `nrm` -/
theorem table_schema_wf (t : ClassTable) (nrm : V → V) (der : Key → Option ((Key → V) → V)) (dflt : Key → V)
    (hder : ∀ k f, der k = some f → ∀ o o' : Key → V,
      (∀ k', t.restoreB k' = true → o' k' = nrm (o k')) → f o' = nrm (f o)) :
    WF (t.schema der dflt) nrm where
  restore_emitted := by
    intro k hk
    simp only [ClassTable.schema, ClassTable.restoreB, Bool.and_eq_true] at hk
    show k ∈ t.emitted
    simpa using hk.1.1
  restore_plain := by
    intro k hk
    simp only [ClassTable.schema, ClassTable.restoreB, Bool.and_eq_true, Bool.not_eq_true'] at hk
    simp [ClassTable.schema, hk.1.2]
  derive_compat := by
    intro k f hf o o' h
    simp only [ClassTable.schema] at hf
    split at hf
    · exact hder k f hf o o' h
    · cases hf

/-- **`dict_roundtrip_tables`** (full statement on the generated tables): for every class of the tables,
every object whose non-settable attributes have their only possible value round-trips — no hypothesis
on any other attribute.  `hderTotal`: the functions computing the derived keys are given for all of them. -/
theorem dict_roundtrip_tables (t : ClassTable) (ht : t ∈ Gen.tables) (nrm : V → V)
    (der : Key → Option ((Key → V) → V)) (dflt : Key → V)
    (hderTotal : ∀ k, t.derivedB k = true → (der k).isSome = true)
    (hder : ∀ k f, der k = some f → ∀ o o' : Key → V,
      (∀ k', t.restoreB k' = true → o' k' = nrm (o k')) → f o' = nrm (f o))
    (o : Key → V) (hconst : ∀ k, t.constB k = true → o k = dflt k ∧ nrm (dflt k) = dflt k) :
    (t.schema der dflt).toDict ((t.schema der dflt).fromDict nrm ((t.schema der dflt).toDict o)) =
      ((t.schema der dflt).toDict o).map fun kv => (kv.1, nrm kv.2) := by
  apply elem_roundtrip _ nrm (table_schema_wf t nrm der dflt hder)
  intro k hk
  have hok := ok_of_missing_nil Gen.tables dict_tables_ok t ht
  unfold ClassTable.ok at hok
  rw [List.all_eq_true] at hok
  have hk' := hok k hk
  simp only [ClassTable.keyOk, Bool.or_eq_true] at hk'
  rcases hk' with (h | h) | h
  · exact Or.inl h
  · right; left
    simp only [ClassTable.schema, h, if_true]
    exact hderTotal k h
  · exact Or.inr (Or.inr (hconst k h))

/-- **`dict_roundtrip_partial`** (holds for ANY tables, also those of a `from_dict` that forgets keys):
an object whose forgotten attributes are at their defaults round-trips -/
theorem dict_roundtrip_partial (t : ClassTable) (nrm : V → V)
    (der : Key → Option ((Key → V) → V)) (dflt : Key → V)
    (hderTotal : ∀ k, t.derivedB k = true → (der k).isSome = true)
    (hder : ∀ k f, der k = some f → ∀ o o' : Key → V,
      (∀ k', t.restoreB k' = true → o' k' = nrm (o k')) → f o' = nrm (f o))
    (o : Key → V)
    (hdef : ∀ k ∈ t.emitted, t.restoreB k = false → t.derivedB k = false → o k = dflt k ∧ nrm (dflt k) = dflt k) :
    (t.schema der dflt).toDict ((t.schema der dflt).fromDict nrm ((t.schema der dflt).toDict o)) =
      ((t.schema der dflt).toDict o).map fun kv => (kv.1, nrm kv.2) := by
  apply elem_roundtrip _ nrm (table_schema_wf t nrm der dflt hder)
  intro k hk
  by_cases h1 : t.restoreB k = true
  · exact Or.inl h1
  · by_cases h2 : t.derivedB k = true
    · right; left
      simp only [ClassTable.schema, h2, if_true]
      exact hderTotal k h2
    · exact Or.inr (Or.inr (hdef k hk (by simpa using h1) (by simpa using h2)))

/-! ### non-vacuity and the forgetting witness -/

/-- a `from_dict` that forgets a key loses it: valve with a tag, tables as they were before the repair -/
def forgetful : ClassTable :=
  { cls := "Valve", emitted := ["name", "tag"], rows := [{ key := "name", use := .ctor "0", xform := "" }], defaults := [("tag", "null")] }

example : missingPairs [forgetful] = [("Valve", "tag")] := by decide

example : forgetful.roundtripText [("name", "\"V1\""), ("tag", "\"x\"")] = [("name", "\"V1\""), ("tag", "null")] := by decide

/-- and the repaired table keeps it -/
example : (Gen.tValve.roundtripText [("name", "\"V1\""), ("tag", "\"x\"")]).filter (fun kv => kv.1 == "tag") = [("tag", "\"x\"")] := by
  decide +kernel

/-- the premise of `dict_roundtrip_tables` is inhabited: the tables contain the valve class, with restored keys -/
example : Gen.tValve ∈ Gen.tables ∧ Gen.tValve.restoreB "vertices" = true ∧ Gen.tJunction.derivedB "base_demand" = true := by
  decide

end Wntr.Schema

/-! ### rule condition text -/
namespace Wntr.InpText

variable {α : Type}

theorem run_append (st : List (Cond α)) (a b : List (Conj × α)) : run st (a ++ b) = run (run st a) b := by
  simp [run, List.foldl_append]

/-- a disjunction chain printed with prefix IF/AND is read back as ONE stack entry -/
theorem run_disj (d : Cond α) (hd : isDisj d = true) (st : List (Cond α)) (p : Conj) (hp : p ≠ .or_) :
    run st (flatten d p) = d :: st := by
  induction d generalizing st with
  | atom a =>
    cases p <;> simp_all [flatten, run, step]
  | and l r _ _ => simp [isDisj] at hd
  | or l r ihl _ =>
    cases r with
    | atom a =>
      simp only [isDisj] at hd
      rw [flatten, run_append, ihl hd st]
      simp [flatten, run, step]
    | and _ _ => simp [isDisj] at hd
    | or _ _ => simp [isDisj] at hd

theorem conjs_ne_nil (c : Cond α) : conjs c ≠ [] := by
  cases c <;> simp [conjs]

theorem run_shape (c : Cond α) (hc : isShape c = true) (st : List (Cond α)) (p : Conj) (hp : p ≠ .or_) :
    run st (flatten c p) = (conjs c).reverse ++ st := by
  induction c generalizing st p with
  | atom a => simpa [conjs] using run_disj (.atom a) (by simp [isDisj]) st p hp
  | or l r _ _ =>
    have hd : isDisj (.or l r) = true := by simpa [isShape] using hc
    simpa [conjs] using run_disj (.or l r) hd st p hp
  | and l r ihl _ =>
    simp only [isShape, Bool.and_eq_true] at hc
    rw [flatten, run_append, ihl hc.1 st p hp, run_disj r hc.2 _ .and_ (by decide)]
    simp [conjs]

theorem finish_conjs (c : Cond α) : finish (conjs c) = some c := by
  induction c with
  | atom a => rfl
  | or l r _ _ => rfl
  | and l r ihl _ =>
    simp only [conjs]
    cases h : conjs l with
    | nil => exact absurd h (conjs_ne_nil l)
    | cons x xs =>
      rw [h] at ihl
      simp only [finish, Option.some.injEq] at ihl
      simp [finish, List.foldl_append, ihl]

/-- **pinned** (the in-order text `str(condition)` / the INP writer before e0050eda; still used as a lemma: the canonical
tree written in order IS the text of its groups): a condition that is a left-nested AND of left-nested ORs of atoms is
re-created exactly, whatever its size -/
theorem inorder_roundtrip_on_shape_pinned (c : Cond α) (hc : isShape c = true) : parse (flatten c .if_) = some c := by
  unfold parse
  rw [run_shape c hc [] .if_ (by decide)]
  simp [finish_conjs]

/-- the full statement "every condition tree is re-created" … -/
def RuleConditionInOrderPinned : Prop := ∀ c : Cond Nat, parse (flatten c .if_) = some c

/-- … is false: `(a AND b) OR c` comes back as `a AND (b OR c)` -/
theorem rule_condition_counterexample_pinned : ¬ RuleConditionInOrderPinned := by
  intro h
  have := h (.or (.and (.atom 0) (.atom 1)) (.atom 2))
  revert this
  decide

example : parse (flatten (Cond.or (.and (.atom 0) (.atom 1)) (.atom 2)) .if_) = some (Cond.and (.atom 0) (.or (.atom 1) (.atom 2))) := by
  decide

/-- non-vacuity of the shape premise: `(a OR b) AND c AND (d OR e OR f)` has it -/
example : isShape (Cond.and (.and (.or (.atom 0) (.atom 1)) (.atom 2)) (.or (.or (.atom 3) (.atom 4)) (.atom 5))) = true := by decide

/-- the text itself is stable from the first re-read on: what the parser produces has the shape -/
theorem parse_idempotent_on_shape_pinned (c : Cond α) (hc : isShape c = true) :
    (parse (flatten c .if_)).map (fun c' => flatten c' .if_) = some (flatten c .if_) := by
  rw [inorder_roundtrip_on_shape_pinned c hc]; rfl

/-! ### the INP writer after e0050eda: every condition tree -/

open Wntr.InpNorm in
/-- **`rule_condition_roundtrip_all`**: for EVERY condition tree, what `generate_control` builds from the clauses the
repaired writer produces is the normal form of the condition (its AND of OR-groups as a left-nested tree) -/
theorem rule_condition_roundtrip_all [Inhabited α] (c : Cond α) : parse (flattenCnf c) = some (ofGroups (cnf c)) := by
  have h := flatten_ofGroups (cnf c) (cnf_ne_nil c).1 (cnf_ne_nil c).2
  unfold flattenCnf
  rw [← h]
  apply inorder_roundtrip_on_shape_pinned
  -- the canonical tree is a left-nested AND of left-nested ORs
  have hor : ∀ (rest : List α) (t : Cond α), isDisj t = true → isDisj (rest.foldl (fun t x => Cond.or t (.atom x)) t) = true := by
    intro rest
    induction rest with
    | nil => intro t h; simpa using h
    | cons x xs ih => intro t h; exact ih _ (by simpa [isDisj] using h)
  have hgt : ∀ g : List α, isDisj (groupTree g) = true := fun g => hor _ _ rfl
  have hand : ∀ (gs : List (List α)) (t : Cond α), isShape t = true → isShape ((gs.map groupTree).foldl .and t) = true := by
    intro gs
    induction gs with
    | nil => intro t h; simpa using h
    | cons g rest ih => intro t h; exact ih _ (by simp [isShape, h, hgt g])
  have hshape_of_disj : ∀ t : Cond α, isDisj t = true → isShape t = true := by
    intro t h
    cases t with
    | atom _ => rfl
    | or _ _ => simpa [isShape] using h
    | and _ _ => simp [isDisj] at h
  exact hand _ _ (hshape_of_disj _ (hgt _))

open Wntr.InpNorm in
/-- the normal form has the same OR-groups … -/
theorem rule_condition_same_groups [Inhabited α] (c : Cond α) : cnf (ofGroups (cnf c)) = cnf c :=
  cnf_ofGroups (cnf c) (cnf_ne_nil c).1 (cnf_ne_nil c).2

open Wntr.InpNorm in
/-- … hence is written as exactly the same clauses again (the text is stable from the first write on) … -/
theorem rule_condition_text_stable [Inhabited α] (c : Cond α) : flattenCnf (ofGroups (cnf c)) = flattenCnf c := by
  unfold flattenCnf; rw [rule_condition_same_groups]

open Wntr.InpNorm in
/-- … and is the SAME condition: equal truth value under every valuation of the premises -/
theorem rule_condition_same_meaning [Inhabited α] (v : α → Bool) (c : Cond α) : eval v (ofGroups (cnf c)) = eval v c := by
  rw [eval_ofGroups v (cnf c) (cnf_ne_nil c).1 (cnf_ne_nil c).2, evalGroups_cnf]

open Wntr.InpNorm in
/-- the dictionary path since fb98e708: `Rule._condition_text` is `str` (the in-order text) of the canonical tree, which is
clause for clause what the INP writer produces — one theorem (`rule_condition_roundtrip_all`) covers both paths -/
theorem dict_condition_text [Inhabited α] (c : Cond α) : flatten (ofGroups (cnf c)) .if_ = flattenCnf c :=
  flatten_ofGroups (cnf c) (cnf_ne_nil c).1 (cnf_ne_nil c).2

/-- a condition that already is a left-nested AND of left-nested ORs is its own normal form: exact round trip -/
theorem rule_condition_roundtrip_exact [Inhabited α] (c : Cond α) (h : ofGroups (cnf c) = c) : parse (flattenCnf c) = some c := by
  rw [rule_condition_roundtrip_all, h]

/-- **pinned** — the writer BEFORE e0050eda wrote the tree in order; that statement was false (and is still the behaviour
of neither path since fb98e708) -/
theorem rule_condition_inorder_pinned : ¬ (∀ c : Cond Nat, parse (flatten c .if_) = some c) := rule_condition_counterexample_pinned

/-- non-vacuity: `(a AND b) OR c` is now written as `IF a OR c AND b OR c` and read back as `(a OR c) AND (b OR c)` -/
example : flattenCnf (Cond.or (.and (.atom 0) (.atom 1)) (.atom 2)) = [(.if_, 0), (.or_, 2), (.and_, 1), (.or_, 2)] ∧
    parse (flattenCnf (Cond.or (.and (.atom 0) (.atom 1)) (.atom 2))) = some (Cond.and (.or (.atom 0) (.atom 2)) (.or (.atom 1) (.atom 2))) := by
  constructor <;> decide

end Wntr.InpText
