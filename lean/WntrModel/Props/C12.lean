/-
C12 — writing a model to an EPANET INP file and reading it back preserves it.

Part A (tables regenerated from wntr/epanet/io.py on every run, `Gen/SchemaInp.lean`):
* `inp_fields_paired`      every attribute/slot of the specification is present in its section writer AND its reader,
                           and the conversion calls on the two sides have opposite directions and the same optional arguments;
* `inp_conversions_claimed` no `to_si`/`from_si` call in any section writer or reader is outside the specification;
* `inp_field_roundtrip`    for every such pair, every one of the ten flow units (and SI), every mass unit, reaction order
                           and Darcy flag, and EVERY value: reading back what was written gives the value (C17's inverse theorem;
                           different parameters on the two sides must have equal conversion factors — decided on `Gen/Units.lean`);
* `inp_attribute_coverage` every attribute `to_dict` emits (`Gen/SchemaDict.lean`, + the option groups) that the statement does
                           not put outside is carried by a field of the specification;
* `option_keywords_roundtrip` the option/time keywords written (2.2 and 2.0) are recognised by the readers; 2.0 omits exactly
                           the 2.2-specific ones.
Part B (`Model/InpText.lean`, tied by `Drivers/InpDriver.lean`): the text of controls and rules, `parse (print c) = c`.
-/
import WntrModel.Model.InpText
import WntrModel.Model.Units
import WntrModel.Gen.SchemaInp
import WntrModel.Gen.SchemaDict
import WntrModel.Gen.Units
import WntrModel.Props.C17
import WntrModel.Props.C13
import WntrModel.Lemmas.InpFormat
import WntrModel.Lemmas.InpNorm
import WntrModel.Lemmas.InpRead
import Mathlib.Data.List.Basic
import Mathlib.Tactic.Ring
import Mathlib.Tactic.Linarith
import Mathlib.Tactic.SplitIfs

namespace Wntr.InpSchema

open Wntr.Units

/-! ### A.1 the specification is matched by the code -/

def FieldsPaired : Prop := (Gen.fields.filter fun f => !f.ok Gen.table) = []

/-- **`inp_fields_paired`** — when a writer or reader stops carrying an attribute, changes the direction of a conversion
or its optional arguments, this fails and the offending fields are the value of the left-hand side -/
theorem inp_fields_paired : FieldsPaired := by
  unfold FieldsPaired
  decide +kernel

/-- **`inp_conversions_claimed`** — every conversion call of the section writers/readers belongs to a specified field -/
theorem inp_conversions_claimed :
    ((unclaimed Gen.fields Gen.rows).filter fun x => !(Gen.readerOnly.any fun a => x.has false a)) = [] := by
  decide +kernel

/-! ### A.2 conversion classes -/

def sub (c : Conv) : List Entry := Units.Gen.table.filter fun e => e.hyd == c.hyd && e.param == c.param

abbrev Slot := Nat × Nat × Nat × Bool
def slotOf (e : Entry) : Slot := (e.unit, e.mass, e.order, e.dw)
def sameSlot (a b : Entry) : Bool := slotOf a == slotOf b

/-- per unit context (flow unit, mass unit, reaction order, Darcy flag) the two conversion factors of a parameter -/
def slotTab (c : Conv) : List (Slot × (Rat × Rat)) :=
  (sub c).map fun e => (slotOf e, (factor e.toSteps, factor e.fromSteps))

def uniqKeys {κ ν : Type} [BEq κ] : List (κ × ν) → Bool
  | [] => true
  | kv :: t => !(t.any fun x => x.1 == kv.1) && uniqKeys t

theorem uniqKeys_inj {κ ν : Type} [BEq κ] [LawfulBEq κ] (l : List (κ × ν)) (h : uniqKeys l = true) (k : κ) (v v' : ν)
    (h1 : (k, v) ∈ l) (h2 : (k, v') ∈ l) : v = v' := by
  induction l with
  | nil => cases h1
  | cons a t ih =>
    simp only [uniqKeys, Bool.and_eq_true, Bool.not_eq_true', List.any_eq_false] at h
    rcases List.mem_cons.mp h1 with e1 | e1 <;> rcases List.mem_cons.mp h2 with e2 | e2
    · rw [← e1] at e2; exact (Prod.mk.inj e2).2.symm
    · exact absurd (by simp [← e1] : ((k, v').1 == a.1) = true) (by simpa using h.1 _ e2)
    · exact absurd (by simp [← e2] : ((k, v).1 == a.1) = true) (by simpa using h.1 _ e1)
    · exact ih h.2 e1 e2

/-- the parameter used on the reading side converts exactly like the one used on the writing side, in every unit system:
the same unit contexts with the same factors, each context once -/
def pairOk (p : Conv × Conv) : Bool :=
  !(sub p.1).isEmpty && decide (slotTab p.1 = slotTab p.2) && uniqKeys (slotTab p.1)

theorem conv_pairs_ok : (convPairs Gen.fields Gen.table).all pairOk = true := by decide +kernel

theorem factors_of_pairOk (p : Conv × Conv) (hp : pairOk p = true) (ew er : Entry) (hew : ew ∈ sub p.1) (her : er ∈ sub p.2)
    (hs : sameSlot ew er = true) :
    factor er.toSteps = factor ew.toSteps ∧ factor er.fromSteps = factor ew.fromSteps := by
  simp only [pairOk, Bool.and_eq_true, decide_eq_true_eq] at hp
  have h1 : (slotOf ew, (factor ew.toSteps, factor ew.fromSteps)) ∈ slotTab p.1 := List.mem_map.mpr ⟨ew, hew, rfl⟩
  have h2 : (slotOf er, (factor er.toSteps, factor er.fromSteps)) ∈ slotTab p.2 := List.mem_map.mpr ⟨er, her, rfl⟩
  rw [← hp.1.2] at h2
  have hk : slotOf ew = slotOf er := by simpa [sameSlot] using hs
  rw [← hk] at h2
  have := uniqKeys_inj _ hp.2 _ _ _ h1 h2
  exact ⟨(Prod.mk.inj this).1.symm, (Prod.mk.inj this).2.symm⟩

theorem mem_all_of_mem_sec (t : Table) (id : Nat) (a : Row) (h : a ∈ t.sec id) : a ∈ t.all := by
  unfold Table.sec at h
  split at h
  · rename_i p hp
    exact List.mem_flatMap.mpr ⟨p, List.mem_of_find?_eq_some hp, h⟩
  · cases h

/-- what the file carries / what the reader stores -/
def send (c : Conv) (e : Entry) (x : Rat) : Rat := if c.toSI then e.toSI x else e.fromSI x

theorem mem_sub {c : Conv} {e : Entry} (h : e ∈ sub c) : e ∈ Units.Gen.table := (List.mem_filter.mp h).1

/-- generic lift: equal factors + C17's inverse theorem, for every value -/
theorem roundtrip_of_factors (ew er : Entry) (hw : ew ∈ Units.Gen.table)
    (h1 : factor er.toSteps = factor ew.toSteps) (h2 : factor er.fromSteps = factor ew.fromSteps) (x : Rat) :
    |er.toSI (ew.fromSI x) - x| ≤ epsInv * |x| ∧ |er.fromSI (ew.toSI x) - x| ≤ epsInv * |x| := by
  constructor
  · have h := toSI_fromSI ew hw x
    have e1 : er.toSI (ew.fromSI x) = ew.toSI (ew.fromSI x) := by
      simp only [Entry.toSI, applySteps_eq_mul_factor, h1]
    rw [e1]; exact h
  · have h := fromSI_toSI ew hw x
    have e1 : er.fromSI (ew.toSI x) = ew.fromSI (ew.toSI x) := by
      simp only [Entry.fromSI, applySteps_eq_mul_factor, h2]
    rw [e1]; exact h

/-- **`inp_field_roundtrip`** — for every field of the specification, every writer row / reader row of the CURRENT code
that belongs to it, every flow unit × mass unit × reaction order × Darcy flag (the table entries `ew`, `er` of the two
parameters for the same unit context) and EVERY value `x`: what the reader stores is `x` up to the rounding of the
conversion constants (1e-14 relative). -/
theorem inp_field_roundtrip (f : Field) (hf : f ∈ Gen.fields) (a b : Row) (ha : a ∈ f.wRows Gen.table) (hb : b ∈ f.rRows Gen.table)
    (cw cr : Conv) (hcw : a.conv = some cw) (hcr : b.conv = some cr)
    (ew er : Entry) (hew : ew ∈ sub cw) (her : er ∈ sub cr) (hslot : sameSlot ew er = true) (x : Rat) :
    cw.toSI ≠ cr.toSI ∧ |send cr er (send cw ew x) - x| ≤ epsInv * |x| := by
  -- the pair (cw, cr) is one of the decided pairs
  have hmem : (cw, cr) ∈ convPairs Gen.fields Gen.table := by
    unfold convPairs
    rw [List.mem_eraseDups]
    rw [List.mem_flatMap]
    refine ⟨f, hf, ?_⟩
    rw [List.mem_flatMap]
    refine ⟨a, ha, ?_⟩
    rw [List.mem_filterMap]
    exact ⟨b, hb, by simp [hcw, hcr]⟩
  have hp := List.all_eq_true.mp conv_pairs_ok _ hmem
  have hfac := factors_of_pairOk (cw, cr) hp ew er hew her hslot
  -- the shape: opposite directions
  have hok : f.ok Gen.table = true := by
    by_contra hbad
    have : f ∈ Gen.fields.filter fun f => !f.ok Gen.table := List.mem_filter.mpr ⟨hf, by simpa using hbad⟩
    rw [inp_fields_paired] at this
    cases this
  have hshape : cw.shapeOk cr = true := by
    simp only [Field.ok, Bool.and_eq_true, List.all_eq_true] at hok
    have hac : a.const = false := by
      cases hc : a.const with
      | false => rfl
      | true => exact absurd hcw (by
          -- a literal has no conversion: rows with `const` never carry one (decided below)
          have := const_rows_plain a (mem_all_of_mem_sec _ _ _ (List.mem_filter.mp ha).1) hc
          simp [this])
    have hbc : b.const = false := by
      cases hc : b.const with
      | false => rfl
      | true => exact absurd hcr (by
          have := const_rows_plain b (mem_all_of_mem_sec _ _ _ (List.mem_filter.mp hb).1) hc
          simp [this])
    have := hok.2 a (List.mem_filter.mpr ⟨ha, by simp [hac]⟩) b (List.mem_filter.mpr ⟨hb, by simp [hbc]⟩)
    simpa [rowsCompat, hcw, hcr] using this
  have hdir : cw.toSI ≠ cr.toSI := by
    simp only [Conv.shapeOk, Bool.and_eq_true, bne_iff_ne] at hshape
    exact hshape.1.1.1.1
  refine ⟨hdir, ?_⟩
  have hrt := roundtrip_of_factors ew er (mem_sub hew) hfac.1 hfac.2 x
  cases hcwd : cw.toSI with
  | false =>
    have : cr.toSI = true := by cases h : cr.toSI with | true => rfl | false => exact absurd (hcwd.trans h.symm) hdir
    simp only [send, hcwd, this, if_true, Bool.false_eq_true, if_false]
    exact hrt.1
  | true =>
    have : cr.toSI = false := by cases h : cr.toSI with | false => rfl | true => exact absurd (hcwd.trans h.symm) hdir
    simp only [send, hcwd, this, if_true, Bool.false_eq_true, if_false]
    exact hrt.2
where
  const_rows_plain (r : Row) (hr : r ∈ Gen.table.all) (hc : r.const = true) : r.conv = none := by
    have h : (Gen.table.all.all fun r => !r.const || r.conv.isNone) = true := by decide +kernel
    have := List.all_eq_true.mp h r hr
    simp only [hc, Bool.not_true, Bool.false_or, Option.isNone_iff_eq_none] at this
    exact this

/-- non-vacuity: the tank level fields really pair two DIFFERENT parameters (written as HydraulicHead, read as Length),
and the energy prices run in the opposite direction (written with `to_si`, read with `from_si`) -/
example : (convPairs Gen.fields Gen.table).any (fun p => p.1.param != p.2.param) = true ∧
    (convPairs Gen.fields Gen.table).any (fun p => p.1.toSI) = true := by
  constructor <;> decide +kernel

/-- a reader that used `HydParam.Length` where the writer uses `PipeDiameter` would be rejected: ft vs inch -/
example : pairOk ({ toSI := false, hyd := true, param := 6, dw := false, order := "", mass := false },
                  { toSI := true, hyd := true, param := 5, dw := false, order := "", mass := false }) = false := by
  decide +kernel

/-! ### A.3 coverage of the definition attributes -/

/-- the class names of `Gen/SchemaDict.lean` with their emitted keys, plus the option groups -/
def emittedKeys : List (String × List String) :=
  (Wntr.Schema.Gen.tables.map fun t => (t.cls, t.emitted)) ++ Gen.optionKeys

/-- attributes that `to_dict` emits, that the statement does not put outside, and that no specified field carries -/
def missingFor (cls : String) (keys : List String) : List (String × String) :=
  let carried := (Gen.fields.filter fun f => f.cls == cls).map (·.key)
  let out := (Gen.outside.filter fun ck => ck.1 == cls).map (·.2)
  (keys.filter fun k => !out.contains k && !carried.contains k).map fun k => (cls, k)

def missingAttrs : List (String × String) := emittedKeys.flatMap fun ck => missingFor ck.1 ck.2

/-- **`inp_attribute_coverage`** (with `inp_fields_paired`: each of those fields is written by its section and read back
into the same attribute by the current code) -/
theorem inp_attribute_coverage : missingAttrs = [] := by decide +kernel

/-- **`derived_fields_by_name`** — the fields the translator found from the source alone really are "same name on both
sides, same section" (no judgement involved) -/
theorem derived_fields_by_name : (Gen.fields.filter fun f => f.derived && !f.byName) = [] := by decide +kernel

/-- keys covered neither by a derived field nor by the explicit hand-written remainder `Gen.manualKeys` -/
def notDerivedNotListed : List (String × String) :=
  emittedKeys.flatMap fun ck =>
    let derived := (Gen.fields.filter fun f => f.cls == ck.1 && f.derived).map (·.key)
    let listed := (Gen.manualKeys.filter fun m => m.1 == ck.1).map (·.2)
    let out := (Gen.outside.filter fun m => m.1 == ck.1).map (·.2)
    (ck.2.filter fun k => !out.contains k && !derived.contains k && !listed.contains k).map fun k => (ck.1, k)

/-- **`spec_remainder_explicit`** — every attribute `to_dict` emits that the statement does not exclude is carried by a
field DERIVED from the source, or is one of the pairs of the short explicit list `Gen.manualKeys` (printed in the
evidence), each of which has a hand-written field -/
theorem spec_remainder_explicit :
    notDerivedNotListed = [] ∧ (Gen.manualKeys.all fun m => Gen.fields.any fun f => f.cls == m.1 && f.key == m.2 && !f.derived) = true := by
  constructor <;> decide +kernel

/-- everything that is put outside is named: the list only contains attributes that exist -/
theorem outside_are_attributes : (Gen.outside.all fun ck => emittedKeys.any fun e => e.1 == ck.1 && e.2.contains ck.2) = true := by
  decide +kernel

/-! ### A.4 option keywords per version -/

/-- the keywords EPANET 2.2 added to [OPTIONS] (EPANET 2.2 users manual, appendix C) that WNTR writes -/
def v22Keywords : List (String × List String) :=
  [("OPTIONS", ["HEADERROR"]), ("OPTIONS", ["FLOWCHANGE"]), ("OPTIONS", ["DEMAND", "MODEL"]), ("OPTIONS", ["MINIMUM", "PRESSURE"]),
   ("OPTIONS", ["PRESSURE", "EXPONENT"]), ("OPTIONS", ["REQUIRED", "PRESSURE"])]

/-- a written keyword is recognised when the reader dispatches on one of its words (the [TIMES] reader stores every
two-word keyword it does not know generically) -/
def recognised (kw : String × List String) : Bool :=
  kw.2.any (fun w => Gen.kwRead.contains (kw.1, [w])) || (kw.1 == "TIMES" && Gen.kwRead.contains ("TIMES", ["*"]))

/-- **`option_keywords_roundtrip`** — per version: every keyword written is read; 2.0 writes the 2.2 list minus exactly the
2.2-specific keywords -/
theorem option_keywords_roundtrip :
    Gen.kwWritten22.all recognised = true ∧ Gen.kwWritten20.all recognised = true ∧
    Gen.kwWritten20 = Gen.kwWritten22.filter (fun k => !v22Keywords.contains k) ∧
    v22Keywords.all Gen.kwWritten22.contains = true := by
  refine ⟨?_, ?_, ?_, ?_⟩ <;> decide +kernel

/-! ### A.5 precision of the file format, per field -/

open Wntr.InpFormat

/-- what the model reads back from a slot printed with `sp` (`none`: not a number / mantissa not normalised) -/
def readBack (sp : Spec) (x : Rat) : Option Rat :=
  match sp with
  | .fixed k => some (fixWrite k x).value
  | .sig n => (sigWrite n x).map sigValue
  | .repr => some x   -- assumption: str(x) is the shortest string that reads back to the same double
  | .int => some x    -- '{:d}' is only applied to integers
  | .text => none

/-- the error bound a spec promises: half a unit of the last decimal (fixed), `0.5·10^(1-n)` relative (significant
digits), exact (repr, int) -/
def Bound (sp : Spec) (x y : Rat) : Prop :=
  match sp with
  | .fixed k => |y - x| ≤ (1 / 2) / (10 : Rat) ^ k
  | .sig n => |y - x| ≤ (1 / 2) / (10 : Rat) ^ (n - 1) * |x|
  | .repr => y = x
  | .int => y = x
  | .text => True

/-- **`spec_error_bound`** — for every value -/
theorem spec_error_bound (sp : Spec) (x y : Rat) (h : readBack sp x = some y) : Bound sp x y := by
  cases sp with
  | fixed k => simp only [readBack, Option.some.injEq] at h; subst h; exact fix_error_bound k x
  | sig n =>
    simp only [readBack, Option.map_eq_some_iff] at h
    obtain ⟨ms, hms, rfl⟩ := h
    exact sig_error_bound n x ms hms
  | repr => simp only [readBack, Option.some.injEq] at h; exact h.symm
  | int => simp only [readBack, Option.some.injEq] at h; exact h.symm
  | text => trivial

/-- a spec that meets a requirement obeys the requirement's bound -/
theorem bound_of_meets (have_ need : Spec) (hm : have_.meets need = true) (x y : Rat) (hb : Bound have_ x y) : Bound need x y := by
  cases have_ <;> cases need <;> simp only [Spec.meets, decide_eq_true_eq, Bool.false_eq_true] at hm <;> simp only [Bound] at hb ⊢
  · exact le_trans hb (fix_bound_mono hm)
  · exact le_trans hb (mul_le_mul_of_nonneg_right (sig_bound_mono hm) (abs_nonneg x))
  · subst hb; simp <;> positivity
  · subst hb; simp <;> positivity
  · exact hb
  · exact hb
  · exact hb

def PrecisionMeets : Prop := (Gen.precisionReq.filter fun q => !q.ok Gen.table) = []

/-- **`inp_precision_meets`** — every numeric slot of the specification is printed by the CURRENT writer with a format
at least as precise as required (decided on the formats the translator extracted): lowering `{:.4f}` to `{:.2f}` for a
coefficient, or `{:15.11g}` to `{:.6g}`, breaks this theorem and names the slot -/
theorem inp_precision_meets : PrecisionMeets := by
  unfold PrecisionMeets
  decide +kernel

/-- **`inp_field_precision`** — for every required slot, every writer row that prints it, and EVERY value: what is read
back obeys the REQUIRED bound (the one the oracle applies in file units) -/
theorem inp_field_precision (q : PrecReq) (hq : q ∈ Gen.precisionReq) (r : Row) (hr : r ∈ q.rows Gen.table)
    (x y : Rat) (h : readBack r.spec x = some y) : Bound q.need x y := by
  have hok : q.ok Gen.table = true := by
    by_contra hbad
    have : q ∈ Gen.precisionReq.filter fun q => !q.ok Gen.table := List.mem_filter.mpr ⟨hq, by simpa using hbad⟩
    rw [inp_precision_meets] at this
    cases this
  simp only [PrecReq.ok, Bool.and_eq_true, List.all_eq_true] at hok
  exact bound_of_meets r.spec q.need (hok.2 r hr) x y (spec_error_bound r.spec x y h)

/-- **`required_pressure_legal_roundtrip`** — the lower limit `_write_options` applies to REQUIRED PRESSURE, as extracted
from the source on this run: it is tested on the value IN FILE UNITS (EPANET's 0.1 is psi or m), so for every unit system
(`conv`) and every value that is legal in file units the formatter gets the converted value itself — and what is read back
obeys the slot's bound (`inp_field_precision`); a value below the limit is written as the limit in file units -/
theorem required_pressure_legal_roundtrip :
    Gen.requiredPressureClamp.1 = true ∧ Gen.requiredPressureClamp.2.2.2.1 = true ∧
    Gen.requiredPressureClamp.2.2.1 = Gen.requiredPressureClamp.2.2.2.2 ∧
    (∀ (conv : Rat → Rat) (x : Rat), conv x ≥ Gen.requiredPressureClamp.2.2.1 → clampWrite Gen.requiredPressureClamp conv x = conv x) ∧
    (∀ (conv : Rat → Rat) (x : Rat), conv x < Gen.requiredPressureClamp.2.2.1 → clampWrite Gen.requiredPressureClamp conv x = Gen.requiredPressureClamp.2.2.1) := by
  have hb : Gen.requiredPressureClamp = (true, true, (1 : Rat) / 10, true, (1 : Rat) / 10) := by decide +kernel
  rw [hb]
  refine ⟨rfl, rfl, rfl, ?_, ?_⟩
  · intro conv x h
    simp only [clampWrite, if_true, decide_eq_true_eq]
    rw [if_pos h]
  · intro conv x h
    simp only [clampWrite, if_true, decide_eq_true_eq]
    rw [if_neg (not_le.mpr h)]

/-- the mistake the statement guards against: testing the SI value (a legal 0.08 m = 0.114 psi is replaced by the limit) -/
example : clampWrite (false, true, (1 : Rat) / 10, false, (1 : Rat) / 10) (fun v => v * 1422 / 1000) ((8 : Rat) / 100) ≠ (8 : Rat) / 100 * 1422 / 1000 := by
  decide +kernel

/-- non-vacuity: the reaction coefficients are required (and printed) with four decimals, the pipe lengths with eleven
significant digits; a two-decimal format does not meet a four-decimal requirement -/
example : (Gen.precisionReq.any fun q => q.need == .fixed 4 && !(q.rows Gen.table).isEmpty) = true ∧
    (Gen.precisionReq.any fun q => q.need == .sig 11 && !(q.rows Gen.table).isEmpty) = true ∧
    Spec.meets (.fixed 2) (.fixed 4) = false := by
  refine ⟨?_, ?_, ?_⟩ <;> decide +kernel

example : (fixWrite 4 ((-49 : Rat) / 400000)).render false = "-0.0001" := by decide +kernel

end Wntr.InpSchema

/-! ## Part B — the text of controls and rules (`Model/InpText.lean`) -/
namespace Wntr.InpText

/-! ### times -/

/-- **`time_hms_roundtrip`**: `h:mm:ss` (as written by `_write_times`, `_sec_to_hours_min_sec` and the repaired
`_write_controls`) read by `_str_time_to_sec` gives the same whole second, for every non-negative time -/
theorem time_hms_roundtrip (s : Int) (_h : 0 ≤ s) :
    strTimeToSec (hmsOf s).1 (hmsOf s).2.1 (hmsOf s).2.2 = s := by
  simp only [hmsOf, strTimeToSec]
  omega

/-- the fields are a proper clock reading -/
theorem hms_ranges (s : Int) (h : 0 ≤ s) : 0 ≤ (hmsOf s).1 ∧ 0 ≤ (hmsOf s).2.1 ∧ (hmsOf s).2.1 < 60 ∧ 0 ≤ (hmsOf s).2.2 ∧ (hmsOf s).2.2 < 60 := by
  simp only [hmsOf]
  omega

/-- **`clock_roundtrip`**: a time of day printed by `_sec_to_clock` (12-hour clock, AM/PM) and parsed by `_parse_value`
(as repaired by 7806f17d) is unchanged — including the 12 o'clock hours -/
theorem clock_roundtrip (s : Int) (h0 : 0 ≤ s) (h1 : s < 86400) :
    parseClock (secToClock s).1 (secToClock s).2.1 (secToClock s).2.2.1 (secToClock s).2.2.2 = s := by
  simp only [secToClock, clockHour, clockPm, hmsOf, parseClock]
  by_cases h12 : s / 3600 ≥ 12
  · by_cases h13 : s / 3600 > 12
    · simp only [h12, h13, if_true, decide_true]
      split_ifs <;> omega
    · simp only [h12, h13, if_true, if_false, decide_true]
      split_ifs <;> omega
  · have hpm : decide (s / 3600 ≥ 12) = false := decide_eq_false h12
    by_cases hz : s / 3600 = 0
    · simp only [if_neg h12, if_pos hz, hpm, Bool.false_eq_true, if_false]
      split_ifs <;> omega
    · simp only [if_neg h12, if_neg hz, hpm, Bool.false_eq_true, if_false]
      split_ifs <;> omega

def ClockRoundtripFull : Prop :=
  ∀ s : Int, 0 ≤ s → parseClock (secToClock s).1 (secToClock s).2.1 (secToClock s).2.2.1 (secToClock s).2.2.2 = s

/-- beyond one day the 12-hour form is not injective (25:00 is shown as 13:00 PM and read as 13:00): the hypothesis
`s < 86400` of `clock_roundtrip` is needed -/
theorem clock_counterexample : ¬ ClockRoundtripFull := by
  intro h
  have := h 90000 (by decide)
  revert this
  decide

example : parseClock (secToClock 45000).1 (secToClock 45000).2.1 (secToClock 45000).2.2.1 (secToClock 45000).2.2.2 = 45000 := by decide

/-- why the repair was needed: decimal hours with six significant digits lose the seconds (3661 s → 3660 s) -/
theorem legacy_time_loses_seconds : legacyTimeRoundtrip 3661 = 3660 ∧ legacyTimeRoundtrip 4139 = 4138 := by
  constructor <;> decide +kernel

/-! ### simple controls -/

/-- **`control_action_roundtrip`**: status OPEN/CLOSED/ACTIVE, pump speed, valve setting -/
theorem control_action_roundtrip (k : LinkKind) (a : Act) (hw : a.wf k) :
    ∃ t, printAct a = some t ∧ parseAct k t = some a := by
  cases a with
  | status s =>
    obtain ⟨h0, h2⟩ := hw
    have : s = 0 ∨ s = 1 ∨ s = 2 := by omega
    rcases this with rfl | rfl | rfl <;> exact ⟨_, rfl, by simp [parseAct]⟩
  | speed v => simp only [Act.wf] at hw; subst hw; exact ⟨_, rfl, rfl⟩
  | setting v => simp only [Act.wf] at hw; subst hw; exact ⟨_, rfl, rfl⟩

/-- the full statement without the kind hypothesis is false: a `setting` action on a PUMP is written as a bare number and
read back as `base_speed` (key controls-action-pump-setting-read-as-base_speed; not produced by the generator) -/
theorem control_action_counterexample : ¬ (∀ (k : LinkKind) (a : Act), ∃ t, printAct a = some t ∧ parseAct k t = some a) := by
  intro h
  obtain ⟨t, h1, h2⟩ := h .pump (.setting 5)
  simp only [printAct, Option.some.injEq] at h1
  subst h1
  revert h2
  decide

/-- **`control_line_roundtrip`**: for every simple control (status / speed / setting action) on a time, a clock time or a
node threshold, reading the line that was written gives the control back, a head condition coming back as the same
condition in the section's datum (level of a tank, pressure of a junction) -/
theorem control_line_roundtrip (lookup : String → Option (NodeKind × Int)) (kindOf : String → Option LinkKind) (c : Ctl) (k : LinkKind)
    (hk : kindOf c.link = some k) (ha : c.act.wf k) (hw : c.cond.wf lookup) :
    ∃ toks, printCtl c = some toks ∧ parseCtl lookup kindOf toks = some { c with cond := c.cond.norm } := by
  obtain ⟨lt, l, act, cond⟩ := c
  obtain ⟨t, hp, hq⟩ := control_action_roundtrip k act ha
  simp only at hk
  refine ⟨[Tok.word lt, .word l, t] ++ condToks cond, by simp [printCtl, hp], ?_⟩
  cases cond with
  | time sec =>
    have := time_hms_roundtrip sec hw
    simp [condToks, parseCtl, hk, hq, CtlCond.norm, this]
  | clock sec =>
    have := time_hms_roundtrip sec hw
    simp [condToks, parseCtl, hk, hq, CtlCond.norm, this]
  | node nk n e a ab th =>
    obtain ⟨hl, _⟩ := hw
    cases ab <;> simp [condToks, parseCtl, hk, hq, hl, CtlCond.norm]

/-- exact round trip on the fragment the [CONTROLS] syntax expresses directly -/
theorem control_line_roundtrip_exact (lookup : String → Option (NodeKind × Int)) (kindOf : String → Option LinkKind) (c : Ctl) (k : LinkKind)
    (hk : kindOf c.link = some k) (ha : c.act.wf k) (hw : c.cond.wf lookup)
    (hattr : ∀ nk n e a ab th, c.cond = .node nk n e a ab th → a = nk.attr) :
    ∃ toks, printCtl c = some toks ∧ parseCtl lookup kindOf toks = some c := by
  obtain ⟨toks, h1, h2⟩ := control_line_roundtrip lookup kindOf c k hk ha hw
  refine ⟨toks, h1, ?_⟩
  rw [h2]
  obtain ⟨lt, l, act, cond⟩ := c
  cases cond with
  | time _ => rfl
  | clock _ => rfl
  | node nk n e a ab th =>
    have := hattr nk n e a ab th rfl
    subst this
    cases nk <;> simp [CtlCond.norm, NodeKind.attr]

/-- the statement for the writer BEFORE the repair (threshold of a head condition written unchanged) … -/
def LegacyControlRoundtrip : Prop :=
  ∀ (lookup : String → Option (NodeKind × Int)) (kindOf : String → Option LinkKind) (c : Ctl) (k : LinkKind),
    kindOf c.link = some k → c.act.wf k → c.cond.wf lookup →
    ∃ toks, printCtlLegacy c = some toks ∧ parseCtl lookup kindOf toks = some { c with cond := c.cond.norm }

/-- … is false: `Tank T1 head > 24` (elevation 20) came back as `level > 24` instead of `level > 4` -/
theorem legacy_control_head_counterexample : ¬ LegacyControlRoundtrip := by
  intro h
  obtain ⟨toks, h1, h2⟩ := h (fun _ => some (.tank, 20)) (fun _ => some .pipe) ⟨"Pipe", "P2", .status 1, .node .tank "T1" 20 .head true 24⟩ .pipe rfl
    (by simp [Act.wf]) ⟨rfl, Or.inl rfl⟩
  simp only [printCtlLegacy, printAct, statusWord, Option.map_some, Option.some.injEq] at h1
  subst h1
  revert h2
  decide

/-- non-vacuity -/
example : (printCtl ⟨"Pipe", "P2", .status 1, .node .tank "T1" 20 .head true 24⟩).bind (parseCtl (fun _ => some (.tank, 20)) (fun _ => some .pipe)) =
    some ⟨"Pipe", "P2", .status 1, .node .tank "T1" 20 .level true 4⟩ := by decide

/-! ### rule clauses -/

theorem parseRel_symbol (r : Rel) : parseRel r.symbol = some r := by cases r <;> decide
theorem parseRel_text (r : Rel) : parseRel r.text = some r := by cases r <;> decide

theorem parseVal_valTok (attr : String) (v : Int) (h : attr = "status" → 0 ≤ v ∧ v ≤ 2) :
    ∃ t, valTok attr v = some t ∧ parseVal t = some v := by
  by_cases ha : attr = "status"
  · obtain ⟨h0, h2⟩ := h ha
    have : v = 0 ∨ v = 1 ∨ v = 2 := by omega
    rcases this with rfl | rfl | rfl
    · exact ⟨.word "closed", by simp [valTok, ha, statusWord], by simp [parseVal]⟩
    · exact ⟨.word "open", by simp [valTok, ha, statusWord], by simp [parseVal]⟩
    · exact ⟨.word "active", by simp [valTok, ha, statusWord], by simp [parseVal]⟩
  · exact ⟨.num v, by simp [valTok, ha], rfl⟩

/-- **`rule_atom_roundtrip`**: every premise kind the writer produces — SYSTEM TIME, SYSTEM CLOCKTIME (12-hour clock), and
`CLASS id attribute relation value` on nodes and links incl. status premises — is read back as itself -/
theorem rule_atom_roundtrip (a : RAtom) (hw : a.wf) : ∃ toks, printAtom a = some toks ∧ parseAtom toks = some a := by
  cases a with
  | sysTime r sec =>
    refine ⟨_, rfl, ?_⟩
    simp only [parseAtom, parseRel_text, Option.map_some, time_hms_roundtrip sec hw]
  | sysClock r sec =>
    refine ⟨_, rfl, ?_⟩
    have := clock_roundtrip sec hw.1 hw.2
    simp only [secToClock] at this
    simp only [parseAtom, parseRel_text, Option.map_some, this]
  | value isNode cls n at_ r v =>
    obtain ⟨hcls, hsys, hst⟩ := hw
    obtain ⟨t, ht, hv⟩ := parseVal_valTok at_ v hst
    refine ⟨[.word cls, .word n, .word at_, .word r.symbol, t], by simp [printAtom, ht], ?_⟩
    have hne : ¬ (cls = "system") := hsys
    cases isNode with
    | true =>
      simp only [if_true] at hcls
      have hmem : cls ∈ nodeClasses := by simpa using hcls
      simp [parseAtom, hne, parseRel_symbol, hv, hmem]
    | false =>
      simp only [Bool.false_eq_true, if_false] at hcls
      have hmem : cls ∈ linkClasses := by simpa using hcls.1
      have hnot : cls ∉ nodeClasses := by simpa using hcls.2
      simp [parseAtom, hne, parseRel_symbol, hv, hmem, hnot]

/-- **`rule_action_roundtrip`**: `THEN/ELSE CLASS id attribute = value` (status by name, setting as a number) -/
theorem rule_action_roundtrip (clsOf : String → String) (a : RAction) (h : a.attr = "status" → 0 ≤ a.v ∧ a.v ≤ 2) :
    ∃ toks, printRAction clsOf a = some toks ∧ parseRAction toks = some a := by
  obtain ⟨t, ht, hv⟩ := parseVal_valTok a.attr a.v h
  obtain ⟨n, at_, v⟩ := a
  exact ⟨[.word (clsOf n), .word n, .word at_, .word "=", t], by simp [printRAction, ht], by simp [parseRAction, hv]⟩

/-- a check-valve status (3) has no word the reader knows: the hypothesis on status values is needed -/
example : printAtom (.value false "pipe" "P1" "status" .eq 3) = none := by decide

/-! ### rules -/

variable {α β : Type}

theorem flatten_head (c : Cond α) (p : Conj) : ∃ a rest, flatten c p = (p, a) :: rest := by
  induction c generalizing p with
  | atom a => exact ⟨a, [], rfl⟩
  | and l r ihl _ =>
    obtain ⟨a, rest, h⟩ := ihl p
    exact ⟨a, rest ++ flatten r .and_, by simp [flatten, h]⟩
  | or l r ihl _ =>
    obtain ⟨a, rest, h⟩ := ihl p
    exact ⟨a, rest ++ flatten r .or_, by simp [flatten, h]⟩

/-- condition lines read in the IF block are appended to the IF clauses -/
theorem fold_cond_lines (cls : List (Conj × α)) (st : PState α β) (hm : st.mode = .inIf) :
    (cls.map fun cl => (cl.1.kw, Payload.atom (β := β) cl.2)).foldl stepR st = { st with ifs := st.ifs ++ cls } := by
  induction cls generalizing st with
  | nil => simp
  | cons cl t ih =>
    obtain ⟨cj, a⟩ := cl
    simp only [List.map_cons, List.foldl_cons]
    have hstep : stepR st (cj.kw, Payload.atom a) = { st with ifs := st.ifs ++ [(cj, a)] } := by
      cases cj <;> simp [stepR, Conj.kw, hm]
    rw [hstep, ih _ (by simpa using hm)]
    simp [List.append_assoc]

theorem fold_then_lines (bs : List β) (st : PState α β) (hm : st.mode = .inThen) :
    (bs.map fun x => (Kw.and_, Payload.act (α := α) x)).foldl stepR st = { st with thens := st.thens ++ bs } := by
  induction bs generalizing st with
  | nil => simp
  | cons b t ih =>
    simp only [List.map_cons, List.foldl_cons]
    have hstep : stepR st (Kw.and_, Payload.act b) = { st with thens := st.thens ++ [b] } := by simp [stepR, hm]
    rw [hstep, ih _ (by simpa using hm)]
    simp [List.append_assoc]

theorem fold_else_lines (bs : List β) (st : PState α β) (hm : st.mode = .inElse) :
    (bs.map fun x => (Kw.and_, Payload.act (α := α) x)).foldl stepR st = { st with elses := st.elses ++ bs } := by
  induction bs generalizing st with
  | nil => simp
  | cons b t ih =>
    simp only [List.map_cons, List.foldl_cons]
    have hstep : stepR st (Kw.and_, Payload.act b) = { st with elses := st.elses ++ [b] } := by simp [stepR, hm]
    rw [hstep, ih _ (by simpa using hm)]
    simp [List.append_assoc]

theorem fold_actLines_then (bs : List β) (st : PState α β) :
    (actLines (α := α) .then_ bs).foldl stepR st = (if bs = [] then st else { st with mode := .inThen, thens := st.thens ++ bs }) := by
  cases bs with
  | nil => simp [actLines]
  | cons b t =>
    simp only [actLines, List.foldl_cons]
    have hstep : stepR st (Kw.then_, Payload.act b) = { st with mode := .inThen, thens := st.thens ++ [b] } := by simp [stepR]
    rw [hstep, fold_then_lines t _ rfl]
    simp [List.append_assoc]

theorem fold_actLines_else (bs : List β) (st : PState α β) :
    (actLines (α := α) .else_ bs).foldl stepR st = (if bs = [] then st else { st with mode := .inElse, elses := st.elses ++ bs }) := by
  cases bs with
  | nil => simp [actLines]
  | cons b t =>
    simp only [actLines, List.foldl_cons]
    have hstep : stepR st (Kw.else_, Payload.act b) = { st with mode := .inElse, elses := st.elses ++ [b] } := by simp [stepR]
    rw [hstep, fold_else_lines t _ rfl]
    simp [List.append_assoc]

theorem clauses_head (c : Cond α) : ∃ a rest, flattenCnf c = (Conj.if_, a) :: rest := by
  have h := Wntr.InpNorm.cnf_ne_nil c
  unfold flattenCnf
  obtain ⟨g, gs, hg⟩ := List.exists_cons_of_ne_nil h.1
  have hgne : g ≠ [] := h.2 g (by simp [hg])
  obtain ⟨a, t, ht⟩ := List.exists_cons_of_ne_nil hgne
  exact ⟨a, _, by simp [hg, ht, clausesOfGroups, groupClauses]; rfl⟩

/-- the lines of a printed rule (premises `cls`, starting with IF) are sorted back into the three blocks and the priority -/
theorem fold_printRuleWith (r : Rule α β) (hp : 0 ≤ r.priority) (cls : List (Conj × α)) (a : α) (rest : List (Conj × α))
    (hcls : cls = (Conj.if_, a) :: rest) :
    ((printRuleWith cls r).foldl stepR PState.init).ifs = cls ∧
    ((printRuleWith cls r).foldl stepR PState.init).thens = r.thens ∧
    ((printRuleWith cls r).foldl stepR PState.init).elses = r.elses ∧
    ((printRuleWith cls r).foldl stepR PState.init).priority = r.priority := by
  subst hcls
  simp only [printRuleWith, List.foldl_append, List.map_cons, List.foldl_cons]
  have h1 : stepR (PState.init (α := α) (β := β)) (Conj.if_.kw, Payload.atom a) = ⟨.inIf, [(.if_, a)], [], [], 0⟩ := by
    simp [stepR, Conj.kw, PState.init]
  rw [h1, fold_cond_lines rest _ rfl, fold_actLines_then, fold_actLines_else]
  have hp' : r.priority ≥ 0 := hp
  simp only [hp', if_true, List.foldl_cons, List.foldl_nil]
  by_cases ht : r.thens = [] <;> by_cases he : r.elses = [] <;> simp [ht, he, stepR]

/-- **`rule_text_roundtrip`** (writer as repaired by e0050eda): EVERY rule — any condition tree, any number of THEN and ELSE
actions, a non-negative priority — is re-created from its lines with its condition in normal form (the AND of its
OR-groups: same groups, same truth value under every valuation — `rule_condition_same_groups/_same_meaning`) -/
theorem rule_text_roundtrip [Inhabited α] (r : Rule α β) (hp : 0 ≤ r.priority) :
    parseRule (printRule r) = some { r with cond := ofGroups (cnf r.cond) } := by
  obtain ⟨a, rest, hcls⟩ := clauses_head r.cond
  obtain ⟨h1, h2, h3, h4⟩ := fold_printRuleWith r hp _ a rest hcls
  simp only [parseRule, printRule, h1, h2, h3, h4, rule_condition_roundtrip_all r.cond]

/-- exact round trip for conditions that already are an AND of ORs -/
theorem rule_text_roundtrip_exact [Inhabited α] (r : Rule α β) (hp : 0 ≤ r.priority)
    (hc : ofGroups (cnf r.cond) = r.cond) : parseRule (printRule r) = some r := by
  rw [rule_text_roundtrip r hp, hc]

/-- a second write of the re-created rule produces the same lines -/
theorem rule_text_second_write [Inhabited α] (r : Rule α β) :
    printRule { r with cond := ofGroups (cnf r.cond) } = printRule r := by
  simp only [printRule, printRuleWith, rule_condition_text_stable]

/-- **pinned** — the writer BEFORE e0050eda (premises in tree order): the full statement over all condition trees … -/
def RuleTextRoundtripInOrder : Prop := ∀ r : Rule Nat Nat, 0 ≤ r.priority → parseRule (printRuleInOrder r) = some r

/-- … was false (mixed AND/OR; fixed: rules-condition-mixed-and-or-regrouped) -/
theorem rule_text_inorder_pinned : ¬ RuleTextRoundtripInOrder := by
  intro h
  have := h ⟨.or (.and (.atom 0) (.atom 1)) (.atom 2), [7], [], 3⟩ (by decide)
  revert this
  decide

/-- the repaired writer on the same rule: read back as `(a OR c) AND (b OR c)` -/
example : parseRule (printRule (⟨.or (.and (.atom 0) (.atom 1)) (.atom 2), [7], [], 3⟩ : Rule Nat Nat)) =
    some ⟨.and (.or (.atom 0) (.atom 2)) (.or (.atom 1) (.atom 2)), [7], [], 3⟩ := by decide

/-- a negative priority is not written (`__str__` prints PRIORITY only when ≥ 0) and comes back as 0 -/
example : parseRule (printRule (⟨.atom 0, [7], [8, 9], -1⟩ : Rule Nat Nat)) = some ⟨.atom 0, [7], [8, 9], 0⟩ := by decide

/-- non-vacuity: ELSE block, several actions, priority -/
example : parseRule (printRule (⟨.and (.or (.atom 0) (.atom 1)) (.atom 2), [7, 8], [9], 5⟩ : Rule Nat Nat)) =
    some ⟨.and (.or (.atom 0) (.atom 1)) (.atom 2), [7, 8], [9], 5⟩ := by decide

end Wntr.InpText

/-! ## Part C — a second write/read cycle changes nothing further -/
namespace Wntr.InpNorm
open Wntr.InpText

/-- **`second_cycle_idempotent`**: the normalisation the oracle applies before comparing (junction without demands = one
zero demand, dangling pattern names = none, sources without names, head conditions of simple controls in the section's
datum, pump speed setting 1.0 = unset and none for a closed pump, energy price unset = 0, rule conditions as AND of
OR-groups) is idempotent: `norm (norm m) = norm m` for every model with any number of elements -/
theorem second_cycle_idempotent {α : Type} [Inhabited α] (m : Model α) : norm (norm m) = norm m := by
  simp only [norm, List.map_map]
  congr 1
  · apply List.map_congr_left; intro j _; simp [normDemands_idem]
  · apply List.map_congr_left; intro p _; simp [normPump_idem]
  · apply List.map_congr_left; intro s _; simp [normSource_idem]
  · apply List.map_congr_left; intro c _; simp [ctlNorm_idem]
  · apply List.map_congr_left; intro c _; simp [condNorm_idem]
  · exact normOpts_idem _ _

/-- the text round trip of a rule lands in the normal form, and the normal form is a fixed point of write → read -/
theorem rule_normal_form_roundtrip {α : Type} [Inhabited α] (c : Cond α) :
    parse (flattenCnf (ofGroups (cnf c))) = some (ofGroups (cnf c)) := by
  rw [rule_condition_roundtrip_all, rule_condition_same_groups]

/-- non-vacuity: `(a AND b) OR c` is normalised to `(a OR c) AND (b OR c)`, whose lines re-parse to itself -/
example : ofGroups (cnf (Cond.or (.and (.atom 0) (.atom 1)) (.atom 2))) = Cond.and (.or (.atom 0) (.atom 2)) (.or (.atom 1) (.atom 2)) := by decide

end Wntr.InpNorm

/-! ## Part D — the line handling of `InpFile.read`: what in a file does not matter -/
namespace Wntr.InpRead

open Wntr.InpSchema in
/-- **`read_ignores_comments_and_blank_lines`**: (1) a line of white space anywhere in a file does not change what `read`
stores; (2) a comment line (first non-blank character `;`) inside a section is stored but no section reader ever sees it:
a section's rows (`split(';')[0].split()`, empty ones skipped) are the same with and without it -/
theorem read_ignores_comments_and_blank_lines (names : List String) (a b : List (List Char)) (raw : List Char) :
    ((∀ c ∈ raw, isWs c = true) → read names (a ++ raw :: b) = read names (a ++ b)) ∧
    (∀ l : List Char, l.head? = some ';' → ∀ (cs ds : List LineClass) (s : String),
      (readC (cs ++ LineClass.data l :: ds)).rows s = (readC (cs ++ ds)).rows s ∨ (readC cs).cur = none ∨ (readC cs).done = true ∨ (readC cs).err = true) := by
  constructor
  · intro h
    simp only [read, List.map_append, List.map_cons, classify_blank names raw h, readC_append, List.foldl_cons, stepC_blank]
  · intro l hl cs ds s
    by_cases hd : (readC cs).done = true
    · exact Or.inr (Or.inr (Or.inl hd))
    by_cases he : (readC cs).err = true
    · exact Or.inr (Or.inr (Or.inr he))
    cases hc : (readC cs).cur with
    | none => exact Or.inr (Or.inl rfl)
    | some sec =>
      left
      have hd' : (readC cs).done = false := by simpa using hd
      have he' : (readC cs).err = false := by simpa using he
      have hstep : stepC (readC cs) (.data l) = { readC cs with lines := (readC cs).lines ++ [(sec, l)] } := by
        simp [stepC, hd', he', hc]
      simp only [readC_append, List.foldl_cons, hstep]
      rw [foldl_lines_acc ds { readC cs with lines := (readC cs).lines ++ [(sec, l)] }, foldl_lines_acc ds (readC cs)]
      simp only [RState.rows, RState.linesOf, List.filter_append, List.map_append, List.filterMap_append]
      by_cases hs : (sec == s) = true
      · simp [List.filter_cons, hs, fieldsOf_comment l hl]
      · have : (sec == s) = false := by simpa using hs
        simp [List.filter_cons, this]

/-- **`section_order_irrelevant`**: a file made of whole sections, each section name once: permuting the sections gives the
same lines for every section … -/
theorem section_order_irrelevant (blocks blocks' : List (String × List (List Char))) (hp : blocks.Perm blocks')
    (hn : (blocks.map (·.1)).Nodup) (s : String) :
    (readC (fileOf blocks)).linesOf s = (readC (fileOf blocks')).linesOf s := by
  rw [linesOf_fileOf, linesOf_fileOf]
  have hperm := hp.filter (fun b => b.1 == s)
  rw [perm_eq_of_length_le_one hperm (filter_key_le_one blocks hn s)]

/-- … hence the same model, whatever the section readers do (they run in the fixed order `order` on the stored lines) -/
theorem section_order_irrelevant_model {σ : Type} (readers : String → List (List Char) → σ → σ) (order : List String) (m0 : σ)
    (blocks blocks' : List (String × List (List Char))) (hp : blocks.Perm blocks') (hn : (blocks.map (·.1)).Nodup) :
    build readers order (readC (fileOf blocks)) m0 = build readers order (readC (fileOf blocks')) m0 :=
  build_congr readers order _ _ m0 fun s _ => section_order_irrelevant blocks blocks' hp hn s

/-- **`line_order_within_section`**: the result of `read` depends on the file only through the lines stored per section and
the fixed reader order; when the reader of a section does not depend on the order of its lines (`hperm`, the property
the permutation oracle tests for every section not listed in `Gen.orderSensitive`), permuting the lines inside that
section changes nothing -/
theorem line_order_within_section {σ : Type} (readers : String → List (List Char) → σ → σ) (order : List String) (m0 : σ)
    (pre post : List (String × List (List Char))) (s : String) (body body' : List (List Char)) (hb : body.Perm body')
    (hs : ∀ b ∈ pre ++ post, b.1 ≠ s)
    (hperm : ∀ (l l' : List (List Char)) (m : σ), l.Perm l' → readers s l m = readers s l' m) :
    build readers order (readC (fileOf (pre ++ (s, body) :: post))) m0 = build readers order (readC (fileOf (pre ++ (s, body') :: post))) m0 := by
  unfold build
  have hother : ∀ t, t ≠ s → (readC (fileOf (pre ++ (s, body) :: post))).linesOf t = (readC (fileOf (pre ++ (s, body') :: post))).linesOf t := by
    intro t ht
    have : (s == t) = false := by simpa using fun h => ht h.symm
    simp [linesOf_fileOf, List.filter_append, List.filter_cons, this]
  have hself : (readC (fileOf (pre ++ (s, body) :: post))).linesOf s = body ∧ (readC (fileOf (pre ++ (s, body') :: post))).linesOf s = body' := by
    have h1 : (pre.filter fun b => b.1 == s) = [] := by
      rw [List.filter_eq_nil_iff]; intro b hb' hbs; exact hs b (List.mem_append_left _ hb') (by simpa using hbs)
    have h2 : (post.filter fun b => b.1 == s) = [] := by
      rw [List.filter_eq_nil_iff]; intro b hb' hbs; exact hs b (List.mem_append_right _ hb') (by simpa using hbs)
    simp [linesOf_fileOf, List.filter_append, List.filter_cons, h1, h2]
  induction order generalizing m0 with
  | nil => rfl
  | cons t rest ih =>
    simp only [List.foldl_cons]
    by_cases ht : t = s
    · subst ht
      rw [hself.1, hself.2, hperm body body' m0 hb]
      exact ih _
    · rw [hother t ht]
      exact ih _

/-- after `[END]` nothing is read; text before the first header must be comment lines; an unknown section is an error -/
theorem end_stops_reading (cs ds : List LineClass) : readC (cs ++ LineClass.header .end_ :: ds) = readC (cs ++ [LineClass.header .end_]) := by
  simp only [readC_append, List.foldl_cons, List.foldl_nil]
  have hstop : ∀ st : RState, (st.done || st.err) = true → ds.foldl stepC st = st := by
    intro st h
    induction ds with
    | nil => rfl
    | cons d t ih => simp only [List.foldl_cons]; rw [show stepC st d = st by simp [stepC, h]]; exact ih
  apply hstop
  generalize readC cs = st
  unfold stepC
  split
  · assumption
  · simp

/-- the sections the permutation oracle never shuffles are READ OFF the reader code (`Gen.orderSensitive`, with the reason);
every section a human expects to be order-sensitive is among them ([BACKDROP] only assigns: the last line of a key wins) -/
theorem order_sensitive_covers_expected :
    (Wntr.InpSchema.Gen.orderSensitiveExpected.all fun s => s == "[BACKDROP]" || Wntr.InpSchema.Gen.orderSensitive.any fun p => p.1 == s) = true ∧
    (Wntr.InpSchema.Gen.orderSensitive.all fun p => Wntr.InpSchema.Gen.inpSections.contains p.1) = true := by
  constructor <;> decide +kernel

/-- the fixed order: every section has exactly one place in it, and it is a permutation of `_INP_SECTIONS` -/
theorem read_order_fixed : Wntr.InpSchema.Gen.readOrder.Nodup ∧ Wntr.InpSchema.Gen.readOrder.Perm Wntr.InpSchema.Gen.inpSections := by
  constructor <;> decide +kernel

/-- the header forms the code accepts: any case, a missing or an extra plural `S`, `[END]`; anything else is refused -/
example : normSec Wntr.InpSchema.Gen.inpSections "[junctions]".toList = .sec "[JUNCTIONS]" ∧
    normSec Wntr.InpSchema.Gen.inpSections "[Junction]".toList = .sec "[JUNCTIONS]" ∧
    normSec Wntr.InpSchema.Gen.inpSections "[TAG]".toList = .sec "[TAGS]" ∧
    normSec Wntr.InpSchema.Gen.inpSections "[TITLES]".toList = .sec "[TITLE]" ∧
    normSec Wntr.InpSchema.Gen.inpSections "[end]".toList = .end_ ∧
    normSec Wntr.InpSchema.Gen.inpSections "[FOO]".toList = .bad := by
  refine ⟨?_, ?_, ?_, ?_, ?_, ?_⟩ <;> decide +kernel

example : classify Wntr.InpSchema.Gen.inpSections " \t J1   10.5\t0 ;note ".toList = .data "J1   10.5\t0 ;note".toList ∧
    fieldsOf "J1   10.5\t0 ;note".toList = some ["J1".toList, "10.5".toList, "0".toList] := by
  constructor <;> decide +kernel

end Wntr.InpRead

/-! ## Part E — the [TIMES] grammar -/
namespace Wntr.InpTimes
open Wntr.InpText

/-- **`time_option_roundtrip`**: every duration / timestep / start written by `_write_times` (`hh:mm:ss`) is read back as the
same number of seconds, for EVERY non-negative second count -/
theorem time_option_roundtrip (sec : Int) (h : 0 ≤ sec) : parseTimeVal (writeTimeVal sec) = sec := by
  simp only [writeTimeVal, parseTimeVal]
  exact time_hms_roundtrip sec h

/-- the other accepted forms mean what EPANET says: `h:mm`, whole and decimal hours -/
example : parseTimeVal (.hm 1 30) = 5400 ∧ parseTimeVal (.dec 24) = 86400 ∧ parseTimeVal (.dec ((3 : Rat) / 2)) = 5400 := by
  refine ⟨?_, ?_, ?_⟩ <;> decide +kernel

/-- **`start_clocktime_roundtrip`**: START CLOCKTIME written as `hh:mm:ss AM|PM` (hours - 12 after noon) and read by
`_clock_time_to_sec`, for every time of day -/
theorem start_clocktime_roundtrip (sec : Int) (h0 : 0 ≤ sec) (h1 : sec < 86400) :
    clockTimeToSec (startHour sec) (hmsOf sec).2.1 (hmsOf sec).2.2 (startPm sec) = some sec := by
  simp only [clockTimeToSec, startHour, startPm, hmsOf]
  by_cases hlt : sec / 3600 < 12
  · have hpm : decide (12 ≤ sec / 3600) = false := by simpa using hlt
    simp only [if_pos hlt, hpm, Bool.false_eq_true, if_false]
    rw [if_neg (by omega)]
    congr 1
    omega
  · have hpm : decide (12 ≤ sec / 3600) = true := by simpa using hlt
    simp only [if_neg hlt, hpm, if_true]
    rw [if_neg (by omega), if_neg (by omega)]
    congr 1
    omega

/-- **`start_clocktime_roundtrip_source`**: the same over the AM/PM branch AS EXTRACTED from `_write_times` on this run
(`Gen.startClockBranch`: operator, bound, which arm writes AM, what each arm subtracts from the hours): for every time of
day what is written reads back unchanged.  A rewrite of the branch (another bound or operator, the noon hour in the AM
arm, …) makes this proof fail. -/
theorem start_clocktime_roundtrip_source (sec : Int) (h0 : 0 ≤ sec) (h1 : sec < 86400) :
    clockTimeToSec (startHourT Wntr.InpSchema.Gen.startClockBranch sec) (hmsOf sec).2.1 (hmsOf sec).2.2
      (startPmT Wntr.InpSchema.Gen.startClockBranch sec) = some sec :=
  clock_branch_sound Wntr.InpSchema.Gen.startClockBranch (by decide +kernel) sec h0 h1
where
  /-- ANY branch table that is right on the 24 full hours is right on every second of the day: the reader's decisions
  (`startswith('12')`, the PM limit) depend on the hour written only -/
  clock_branch_sound (t : Nat × Int × Bool × Int × Int) (hok : branchOk t = true) (sec : Int) (h0 : 0 ≤ sec) (h1 : sec < 86400) :
      clockTimeToSec (startHourT t sec) (hmsOf sec).2.1 (hmsOf sec).2.2 (startPmT t sec) = some sec := by
    have hh : (sec / 3600).toNat < 24 := by omega
    have hq := List.all_eq_true.mp hok (sec / 3600).toNat (List.mem_range.mpr hh)
    have hcast : (((sec / 3600).toNat : Nat) : Int) = sec / 3600 := by omega
    have hdiv : (sec / 3600 * 3600) / 3600 = sec / 3600 := by omega
    simp only [hourOk, hcast, Bool.and_eq_true, beq_iff_eq, decide_eq_true_eq] at hq
    obtain ⟨hq1, hq2⟩ := hq
    have eH : startHourT t (sec / 3600 * 3600) = startHourT t sec := by simp only [startHourT, hdiv]
    have eP : startPmT t (sec / 3600 * 3600) = startPmT t sec := by simp only [startPmT, hdiv]
    rw [eH, eP] at hq1
    rw [eH] at hq2
    generalize startHourT t sec = H at hq1 hq2 ⊢
    generalize startPmT t sec = P at hq1 ⊢
    simp only [clockTimeToSec, hmsOf] at hq1 ⊢
    cases P <;> simp only [Bool.false_eq_true, if_false, if_true] at hq1 ⊢ <;> split_ifs at hq1 ⊢ <;>
      first | (simp only [Option.some.injEq] at hq1 ⊢; omega) | (exfalso; simp only [Option.some.injEq] at hq1; omega) | (exfalso; simp at hq1)

/-- a start clock time of 24 h or more cannot be written: `_write_times` produces `12:00:00 PM`-like strings that the reader
refuses ("Cannot specify am/pm for times greater than 12:00:00") — the hypothesis `sec < 86400` is needed -/
example : clockTimeToSec (startHour 90000) (hmsOf 90000).2.1 (hmsOf 90000).2.2 (startPm 90000) = none := by decide +kernel

/-- **`times_keywords_roundtrip`**: every keyword `_write_times` writes is dispatched by `_read_times` to the attribute it
was written from (decided on the keywords and attributes the translator extracted) -/
theorem times_keywords_roundtrip :
    (Wntr.InpSchema.Gen.timesWritten.all fun kf => timesField (kf.1.headD "") ((kf.1.drop 1).headD "") == kf.2) = true := by
  decide +kernel

/-- the dispatch of `_read_times` as extracted from the source (special cases in order, then the generic `<w0>_<w1>` rule) -/
def timesFieldG (w0 w1 : String) : String :=
  match Wntr.InpSchema.Gen.timesDispatch.find? (fun d => (if d.1 == 0 then w0.toUpper else w1.toUpper) == d.2.1) with
  | some d => d.2.2
  | none => w0.toLower ++ "_" ++ w1.toLower

/-- **`times_model_matches_source`**: the hand-transliterated `timesField` (run by the driver) is the dispatch extracted from
`_read_times`, on every keyword the writer produces and on the special words themselves -/
theorem times_model_matches_source :
    (Wntr.InpSchema.Gen.timesWritten.all fun kf =>
      timesFieldG (kf.1.headD "") ((kf.1.drop 1).headD "") == timesField (kf.1.headD "") ((kf.1.drop 1).headD "") &&
      timesFieldG (kf.1.headD "") ((kf.1.drop 1).headD "") == kf.2) = true ∧
    Wntr.InpSchema.Gen.timesDispatch = [(0, "DURATION", "duration"), (0, "HYDRAULIC", "hydraulic_timestep"), (0, "QUALITY", "quality_timestep"),
      (1, "CLOCKTIME", "start_clocktime"), (0, "STATISTIC", "statistic")] := by
  constructor <;> decide +kernel

end Wntr.InpTimes

/-! ## Part F — the literal text of the control / rule code is the text the model uses

`Gen.ruleKeywords … Gen.dictTemplates` are extracted on every run (ast) from `_EpanetRule`, `_write_controls`,
`_read_control_line` (wntr/epanet/io.py) and `Comparison`, `_parse_value`, the `__str__` methods (wntr/network/controls.py).
The round-trip theorems of Part B are about the model's constants; these theorems say the constants ARE the source's, so an
edit of a keyword, a prefix, a clause template, a comparison word or a status word breaks a theorem. -/
namespace Wntr.InpText
open Wntr.InpSchema

/-- keywords that split rule text, the block dispatch, and the prefixes the writer puts before premises and actions -/
theorem rule_keywords_match_source :
    Gen.ruleKeywords = keywords ∧
    Gen.ruleDispatch = ["ELSE", "IF", "PRIORITY", "RULE", "THEN"] ∧
    Gen.rulePrefixes = [("cond", Kw.word .if_), ("then", Kw.word .then_), ("else", Kw.word .else_), ("cond", Kw.word .and_), ("cond", Kw.word .or_),
                        ("then", Kw.word .and_), ("else", Kw.word .and_)] ∧
    (Gen.rulePrefixes.all fun p => Gen.ruleKeywords.contains p.2) = true := by
  refine ⟨?_, ?_, ?_, ?_⟩ <;> decide +kernel

/-- the layouts `printAtom` / `printRAction` / `printRule` follow: `<prefix> SYSTEM CLOCKTIME <rel> <clock>`,
`<prefix> SYSTEM TIME <rel> <h:mm:ss>`, `<prefix> <class> <id> <attribute> <rel> <value>`, `<prefix> <class> <id> <attribute> = <value>`;
`RULE <id>`, the clauses, ` PRIORITY <p>` only in the templates used when `priority >= 0` -/
theorem rule_templates_match_source :
    Gen.clauseTemplates = [("add_control_condition", ["{}", "SYSTEM", "CLOCKTIME", "{}", "{}"]), ("add_control_condition", ["{}", "SYSTEM", "TIME", "{}", "{}"]),
      ("add_control_condition", ["{}", "{}", "{}", "{}", "{}", "{}"]), ("add_action_on_true", ["{}", "{}", "{}", "{}", "=", "{}"]),
      ("add_action_on_false", ["{}", "{}", "{}", "{}", "=", "{}"])] ∧
    Gen.ruleStr = ["RULE {}\n{}\n{}\n{}\n PRIORITY {}\n ; end of rule\n", "RULE {}\n{}\n{}\n PRIORITY {}\n ; end of rule\n",
      "RULE {}\n{}\n{}\n{}\n ; end of rule\n", "RULE {}\n{}\n{}\n ; end of rule\n"] := by
  constructor <;> decide +kernel

/-- the layouts `condToks` / `parseCtl` follow: `<type> <link> <setting> AT TIME|CLOCKTIME <time>` and
`<type> <link> <setting> IF <type> <node> above|below <threshold>`; the reader looks at words 0, 1, 2, 5, 6, 7 -/
theorem control_templates_match_source :
    Gen.controlTemplates = [["{ltype}", "{link}", "{setting}", "AT", "{compare}", "{time}"],
      ["{ltype}", "{link}", "{setting}", "IF", "{ntype}", "{node}", "{compare}", "{thresh}"]] ∧
    Gen.controlWriteWords = ["CLOCKTIME", "TIME", "above", "below"] ∧
    Gen.controlReadSlots = [0, 1, 2, 5, 6, 7] ∧
    (["ABOVE", "BELOW", "IF", "TIME", "CLOCKTIME", "OPEN", "OPENED", "CLOSED", "ACTIVE"].all Gen.controlReadWords.contains) = true := by
  refine ⟨?_, ?_, ?_, ?_⟩ <;> decide +kernel

/-- **`comparison_words_match_source`**: `Rel.symbol`, `Rel.text` are `Comparison.symbol`, `Comparison.text`; every word
`Comparison.parse` accepts is read by `parseRel` as the same comparison or not at all; and — on the source's own tables —
what the writers print (the symbol, the lower-cased text) is among the words the parser accepts for that comparison -/
theorem comparison_words_match_source :
    (Gen.relSymbol.all fun p => (relOfName p.1).map Rel.symbol == some p.2) = true ∧
    (Gen.relText.all fun p => (relOfName p.1).map Rel.text == some p.2.toLower) = true ∧
    (Gen.relParse.all fun p => p.2.all fun w => parseRel w == relOfName p.1 || parseRel w == none) = true ∧
    (Gen.relSymbol.all fun p => (Gen.relParse.any fun q => q.1 == p.1 && q.2.contains p.2)) = true ∧
    (Gen.relText.all fun p => (Gen.relParse.any fun q => q.1 == p.1 && q.2.contains p.2.toLower)) = true ∧
    Gen.relSymbol.length = 6 ∧ Gen.relText.length = 6 ∧ Gen.relParse.length = 6 := by
  refine ⟨?_, ?_, ?_, ?_, ?_, ?_, ?_, ?_⟩ <;> decide +kernel

/-- the status words of `_parse_value` are the model's `statusWord` / `parseVal` -/
theorem status_words_match_source :
    (Gen.statusValues.all fun p => statusWord p.2 == some p.1.toLower && parseVal (.word p.1.toLower) == some (p.2 : Int)) = true ∧
    Gen.statusValues.length = 3 := by
  constructor <;> decide +kernel

/-- the dictionary path (C13): `ControlAction.__str__`, the condition `__str__`s, ` AND ` / ` OR ` -/
theorem dict_templates_match_source :
    Gen.dictTemplates = [("ControlAction", ["{} {} {} IS {}"]), ("ValueCondition", ["{} {} {} {} {}"]), ("OrCondition", [" OR "]), ("AndCondition", [" AND "]),
      ("TimeOfDayCondition", ["SYSTEM CLOCKTIME {:s} {}"]), ("SimTimeCondition", ["SYSTEM TIME {} {}", "% {:.1f} "])] := by
  decide +kernel

end Wntr.InpText
